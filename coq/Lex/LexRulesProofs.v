(* Lex/LexRulesProofs.v — the two halves the bridge Bridge/BrLexer.v is assembled from, as far as they do not
   mention the regenerated terms:

   Part A  the functions of the Go lexer written directly in Gallina over the Go-shaped state `gst`
           (`g_next`, `g_backup`, ... one per Go function, loops with the interpreter's fuel), and the
           table `spec` that presents them with the calling convention of the interpreter.  BrLexer.v shows
           `interpretation of the regenerated term of f = spec "f"` (stage 1).
   Part B  stage 2: under the representation `abs : gst -> lexer` (offsets into the input -> the zipper of
           Lex/Lexer.v) and the invariant `wf`, every `g_f` computes what `Lexer.f` computes, and the fuel
           `length of the unread input + 10` is enough for every loop. *)
From Coq Require Import ZArith List Bool String Ascii Lia.
Require Import X.Base.Value X.Syn.Tok X.Lex.Lexer X.Lex.LexRules.
Import ListNotations.
Local Open Scope string_scope.
Open Scope Z_scope.

(* ================================================================== Part A: Gallina over gst *)
Definition g_lower (ch : Z) : Z := Z.lor (97 - 65) ch.

Definition g_digitVal (ch : Z) : Z :=
  if (48 <=? ch) && (ch <=? 57) then ch - 48
  else if (97 <=? g_lower ch) && (g_lower ch <=? 102) then g_lower ch - 97 + 10
  else 16.

Definition g_next (g : gst) : Z * gst :=
  if input_len g <=? g_end g then (-1, with_width g 0)
  else
    let rw := decode_at (g_input g) (g_end g) in
    let g1 := with_width g (snd rw) in
    let g2 := with_end g1 (g_end g1 + snd rw) in
    let g3 := with_prev g2 (g_loc g2) in
    if fst rw =? 10
    then (fst rw, let g4 := with_loc g3 (fst (g_loc g3) + 1, snd (g_loc g3)) in with_loc g4 (fst (g_loc g4), 0))
    else (fst rw, with_loc g3 (fst (g_loc g3), snd (g_loc g3) + 1)).

Definition g_backup (g : gst) : gst :=
  let g1 := with_end g (g_end g - g_width g) in with_loc g1 (g_prev g1).

Definition g_peek (g : gst) : Z * gst := (fst (g_next g), g_backup (snd (g_next g))).

Definition g_word (g : gst) : list Z := slice (g_input g) (g_start g) (g_end g).

Definition g_emitValue (k : tkind) (s : string) (g : gst) : gst :=
  let g1 := with_tokens g (g_tokens g ++ [mkTok (g_startLoc g) k s])%list in
  let g2 := with_start g1 (g_end g1) in
  with_startLoc g2 (g_loc g2).

Definition g_emit (k : tkind) (g : gst) : gst := g_emitValue k (utf8_encode (g_word g)) g.

Definition g_emitEOF (g : gst) : gst :=
  let g1 := with_tokens g (g_tokens g ++ [mkTok (g_prev g) TkEOF EmptyString])%list in
  let g2 := with_start g1 (g_end g1) in
  with_startLoc g2 (g_loc g2).

Definition g_ignore (g : gst) : gst :=
  let g1 := with_start g (g_end g) in with_startLoc g1 (g_loc g1).

Definition g_error (g : gst) : gst :=
  match g_err g with None => with_err g (Some (g_loc g)) | Some _ => g end.

Definition g_accept (valid : list Z) (g : gst) : bool * gst :=
  if mem (fst (g_next g)) valid then (true, snd (g_next g)) else (false, g_backup (snd (g_next g))).

(* for p(l.next()) {}  — the state after the `next` that failed the test *)
Fixpoint g_run (n : nat) (p : Z -> bool) (g : gst) : option gst :=
  match n with
  | O => None
  | S f => if p (fst (g_next g)) then g_run f p (snd (g_next g)) else Some (snd (g_next g))
  end.

Definition g_acceptRun (F : nat) (valid : list Z) (g : gst) : option gst :=
  option_map g_backup (g_run F (fun r => mem r valid) g).

(* l.end, l.loc, l.prev = pos, loc, prev *)
Definition g_restore (g : gst) (e : Z) (l p : loc) : gst := with_prev (with_loc (with_end g e) l) p.

(* for n > 0 && digitVal(ch) < base { ch = l.next(); n-- } *)
Fixpoint g_digits (k : nat) (ch base n : Z) (g : gst) : option (Z * Z * gst) :=
  match k with
  | O => None
  | S f =>
    if (0 <? n) && (g_digitVal ch <? base)
    then g_digits f (fst (g_next g)) base (n - 1) (snd (g_next g))
    else Some (ch, n, g)
  end.

Definition g_scanDigits (F : nat) (ch base n : Z) (g : gst) : option (Z * gst) :=
  match g_digits F ch base n g with
  | None => None
  | Some (ch', n', g') => Some (ch', if 0 <? n' then g_error g' else g')
  end.

Definition g_scanEscape (F : nat) (quote : Z) (g : gst) : option (Z * gst) :=
  let ch := fst (g_next g) in
  let g1 := snd (g_next g) in
  if mem ch [97; 98; 102; 110; 114; 116; 118; 92; quote] then Some (g_next g1)
  else if mem ch [48; 49; 50; 51; 52; 53; 54; 55] then g_scanDigits F ch 8 3 g1
  else if ch =? 120 then g_scanDigits F (fst (g_next g1)) 16 2 (snd (g_next g1))
  else if ch =? 117 then g_scanDigits F (fst (g_next g1)) 16 4 (snd (g_next g1))
  else if ch =? 85 then g_scanDigits F (fst (g_next g1)) 16 8 (snd (g_next g1))
  else Some (ch, g_error g1).

(* for ch != quote { ...; n++ } of scanString: the count n and the state *)
Fixpoint g_string (F k : nat) (quote cnt ch : Z) (g : gst) : option (Z * gst) :=
  match k with
  | O => None
  | S f =>
    if negb (ch =? quote) then
      if (ch =? 10) || (ch =? -1) then Some (cnt, g_error g)
      else if ch =? 92 then
        match g_scanEscape F quote g with
        | None => None
        | Some (c, g') => g_string F f quote (cnt + 1) c g'
        end
      else g_string F f quote (cnt + 1) (fst (g_next g)) (snd (g_next g))
    else Some (cnt, g)
  end.

Definition g_scanString (F : nat) (quote : Z) (g : gst) : option (Z * gst) :=
  g_string F F quote 0 (fst (g_next g)) (snd (g_next g)).

Section G.
  Variables uni_letter uni_digit uni_space : Z -> bool.

  Definition g_isAlphabetic (r : Z) : bool := (r =? 95) || (r =? 36) || is_letter uni_letter r.
  Definition g_isAlphaNumeric (r : Z) : bool := g_isAlphabetic r || is_digit uni_digit r.

  (* the tail of scanNumber: exponent, then "next thing mustn't be alphanumeric" *)
  Definition g_number_exp (F : nat) (digits : list Z) (g : gst) : option (bool * gst) :=
    let e := g_accept (rs "eE") g in
    match (if fst e then g_acceptRun F digits (snd (g_accept (rs "+-") (snd e))) else Some (snd e)) with
    | None => None
    | Some g2 =>
      if g_isAlphaNumeric (fst (g_peek g2)) then Some (false, snd (g_next (snd (g_peek g2))))
      else Some (true, snd (g_peek g2))
    end.

  Definition g_number_frac (F : nat) (digits : list Z) (g3 : gst) : option (bool * gst) :=
    let d := g_accept (rs ".") g3 in
    if fst d then
      if fst (g_peek (snd d)) =? 46
      then Some (true, with_end (with_prev (with_loc (snd (g_peek (snd d))) (g_loc g3)) (g_prev g3)) (g_end g3))
      else match g_acceptRun F digits (snd (g_peek (snd d))) with
           | None => None
           | Some g5 => g_number_exp F digits g5
           end
    else g_number_exp F digits (snd d).

  Definition g_number_prefix (g : gst) : list Z * gst :=
    let z := g_accept (rs "0") g in
    if fst z then
      let x := g_accept (rs "xX") (snd z) in
      if fst x then (rs "0123456789abcdefABCDEF_", snd x) else
      let o := g_accept (rs "oO") (snd x) in
      if fst o then (rs "01234567_", snd o) else
      let b := g_accept (rs "bB") (snd o) in
      if fst b then (rs "01_", snd b) else (rs "0123456789_", snd b)
    else (rs "0123456789_", snd z).

  Definition g_scanNumber (F : nat) (g : gst) : option (bool * gst) :=
    let p := g_number_prefix g in
    match g_acceptRun F (fst p) (snd p) with
    | None => None
    | Some g3 => g_number_frac F (fst p) g3
    end.

  (* r := l.peek(); for ; r == ' '; r = l.peek() { l.next() } *)
  Fixpoint g_skip (k : nat) (r : Z) (g : gst) : option (Z * gst) :=
    match k with
    | O => None
    | S f => if r =? 32 then g_skip f (fst (g_peek (snd (g_next g)))) (snd (g_peek (snd (g_next g)))) else Some (r, g)
    end.

  (* for _, ch := range word { if l.next() != ch { restore; return false } } *)
  Fixpoint g_expect (w : list Z) (g : gst) : bool * gst :=
    match w with
    | [] => (true, g)
    | ch :: w' => if negb (fst (g_next g) =? ch) then (false, snd (g_next g)) else g_expect w' (snd (g_next g))
    end.

  Definition g_acceptWord (F : nat) (w : list Z) (g : gst) : option (bool * gst) :=
    match g_skip F (fst (g_peek g)) (snd (g_peek g)) with
    | None => None
    | Some (_, g2) =>
      let x := g_expect w g2 in
      if fst x then
        let pk := g_peek (snd x) in
        if negb (fst pk =? 32) && negb (fst pk =? -1)
        then Some (false, g_restore (snd pk) (g_end g) (g_loc g) (g_prev g))
        else Some (true, snd pk)
      else Some (false, g_restore (snd x) (g_end g) (g_loc g) (g_prev g))
    end.

  Definition g_root (F : nat) (g : gst) : option (option stfn * gst) :=
    let r := fst (g_next g) in
    let g1 := snd (g_next g) in
    if r =? -1 then Some (None, g_emitEOF g1)
    else if is_space uni_space r then Some (Some SRoot, g_ignore g1)
    else if (r =? 39) || (r =? 34) then
      match g_scanString F r g1 with
      | None => None
      | Some (_, g2) =>
        match unescape (g_word g2) with
        | Some s => Some (Some SRoot, g_emitValue TkString s g2)
        | None => Some (Some SRoot, g_emitValue TkString EmptyString (g_error g2))
        end
      end
    else if (48 <=? r) && (r <=? 57) then Some (Some SNumber, g_backup g1)
    else if r =? 63 then
      if fst (g_peek g1) =? 46 then Some (Some SNilsafe, snd (g_peek g1))
      else Some (Some SRoot, g_emit TkOperator (snd (g_peek g1)))
    else if mem r (rs "([{") then Some (Some SRoot, g_emit TkBracket g1)
    else if mem r (rs ")]}") then Some (Some SRoot, g_emit TkBracket g1)
    else if mem r (rs "#,?:%+-/") then Some (Some SRoot, g_emit TkOperator g1)
    else if mem r (rs "&|!=*<>") then Some (Some SRoot, g_emit TkOperator (snd (g_accept (rs "&|=*") g1)))
    else if r =? 46 then Some (Some SDot, g_backup g1)
    else if g_isAlphaNumeric r then Some (Some SIdentifier, g_backup g1)
    else Some (None, g_error g1).

  Definition g_number (F : nat) (g : gst) : option (option stfn * gst) :=
    match g_scanNumber F g with
    | None => None
    | Some (ok, g1) => if negb ok then Some (None, g_error g1) else Some (Some SRoot, g_emit TkNumber g1)
    end.

  Definition g_dot (g : gst) : option stfn * gst :=
    let g1 := snd (g_next g) in
    let d := g_accept (rs "0123456789") g1 in
    if fst d then (Some SNumber, g_backup (snd d))
    else (Some SRoot, g_emit TkOperator (snd (g_accept (rs ".") (snd d)))).

  Definition g_nilsafe (g : gst) : option stfn * gst :=
    (Some SRoot, g_emit TkOperator (snd (g_accept (rs "?.") (snd (g_next g))))).

  Definition word_ops : list (list Z) :=
    [rs "in"; rs "or"; rs "and"; rs "matches"; rs "contains"; rs "startsWith"; rs "endsWith"].

  Definition g_identifier (F : nat) (g : gst) : option (option stfn * gst) :=
    match g_run F g_isAlphaNumeric g with
    | None => None
    | Some g1 =>
      let g2 := g_backup g1 in
      if runes_eqb (g_word g2) (rs "not") then Some (Some SNot, g2)
      else if existsb (runes_eqb (g_word g2)) word_ops then Some (Some SRoot, g_emit TkOperator g2)
      else Some (Some SRoot, g_emit TkIdentifier g2)
    end.

  Definition g_not (F : nat) (g : gst) : option (option stfn * gst) :=
    match g_acceptWord F (rs "in") g with
    | None => None
    | Some (ok, g1) =>
      if ok then Some (Some SRoot, g_emitValue TkOperator (utf8_encode (rs "not in")) g1)
      else Some (Some SRoot, g_emitValue TkOperator (utf8_encode (rs "not")) g1)
    end.

  Definition g_step (F : nat) (st : stfn) (g : gst) : option (option stfn * gst) :=
    match st with
    | SRoot => g_root F g
    | SNumber => g_number F g
    | SDot => Some (g_dot g)
    | SNilsafe => Some (g_nilsafe g)
    | SIdentifier => g_identifier F g
    | SNot => g_not F g
    end.

  (* ---------------------------------------------------------------- the calling convention *)
  Definition rU (g : gst) : res (list val) := Ok [] g.
  Definition rZ (p : Z * gst) : res (list val) := Ok [VInt (fst p)] (snd p).
  Definition rB (p : bool * gst) : res (list val) := Ok [VBool (fst p)] (snd p).
  Definition vfn (o : option stfn) : val := match o with Some f => VFn f | None => VNil end.
  Definition rS (p : option stfn * gst) : res (list val) := Ok [vfn (fst p)] (snd p).
  Definition oF {A : Type} (o : option A) (k : A -> res (list val)) : res (list val) :=
    match o with Some a => k a | None => OutOfFuel end.

  Definition spec (F : nat) (name : string) (args : list val) (g : gst) : res (list val) :=
    if String.eqb name "next" then rZ (g_next g)
    else if String.eqb name "backup" then rU (g_backup g)
    else if String.eqb name "peek" then rZ (g_peek g)
    else if String.eqb name "word" then Ok [VRunes (g_word g)] g
    else if String.eqb name "emitValue" then
      match args with
      | [VKind k; v] => match bytes_of v with Some s => rU (g_emitValue k s g) | None => Crash "Token" end
      | _ => Crash "emitValue"
      end
    else if String.eqb name "emit" then
      match args with [VKind k] => rU (g_emit k g) | _ => Crash "emit" end
    else if String.eqb name "emitEOF" then rU (g_emitEOF g)
    else if String.eqb name "ignore" then rU (g_ignore g)
    else if String.eqb name "error" then Ok [VNil] (g_error g)
    else if String.eqb name "accept" then
      match args with [VRunes valid] => rB (g_accept valid g) | _ => Crash "accept" end
    else if String.eqb name "acceptRun" then
      match args with [VRunes valid] => oF (g_acceptRun F valid g) rU | _ => Crash "acceptRun" end
    else if String.eqb name "acceptWord" then
      match args with [VRunes w] => oF (g_acceptWord F w g) rB | _ => Crash "acceptWord" end
    else if String.eqb name "lower" then
      match args with [VInt ch] => Ok [VInt (g_lower ch)] g | _ => Crash "lower" end
    else if String.eqb name "digitVal" then
      match args with [VInt ch] => Ok [VInt (g_digitVal ch)] g | _ => Crash "digitVal" end
    else if String.eqb name "scanDigits" then
      match args with [VInt ch; VInt base; VInt n] => oF (g_scanDigits F ch base n g) rZ | _ => Crash "scanDigits" end
    else if String.eqb name "scanEscape" then
      match args with [VInt q] => oF (g_scanEscape F q g) rZ | _ => Crash "scanEscape" end
    else if String.eqb name "scanString" then
      match args with [VInt q] => oF (g_scanString F q g) rZ | _ => Crash "scanString" end
    else if String.eqb name "IsSpace" then
      match args with [VInt r] => Ok [VBool (is_space uni_space r)] g | _ => Crash "IsSpace" end
    else if String.eqb name "IsAlphabetic" then
      match args with [VInt r] => Ok [VBool (g_isAlphabetic r)] g | _ => Crash "IsAlphabetic" end
    else if String.eqb name "IsAlphaNumeric" then
      match args with [VInt r] => Ok [VBool (g_isAlphaNumeric r)] g | _ => Crash "IsAlphaNumeric" end
    else if String.eqb name "scanNumber" then oF (g_scanNumber F g) rB
    else if String.eqb name "root" then oF (g_root F g) rS
    else if String.eqb name "number" then oF (g_number F g) rS
    else if String.eqb name "dot" then rS (g_dot g)
    else if String.eqb name "nilsafe" then rS (g_nilsafe g)
    else if String.eqb name "identifier" then oF (g_identifier F g) rS
    else if String.eqb name "not" then oF (g_not F g) rS
    else prim name args g.

  (* the argument lists the functions are called with (Go's type checker guarantees them) *)
  Inductive vtag := TInt | TRunes | TKnd | TStr.
  Definition tag_ok (t : vtag) (v : val) : bool :=
    match t, v with
    | TInt, VInt _ | TRunes, VRunes _ | TKnd, VKind _ | TStr, VRunes _ | TStr, VBytes _ => true
    | _, _ => false
    end.
  Definition sig_of (name : string) : list vtag :=
    if String.eqb name "emitValue" then [TKnd; TStr]
    else if String.eqb name "emit" then [TKnd]
    else if String.eqb name "accept" || String.eqb name "acceptRun" || String.eqb name "acceptWord" || String.eqb name "unescape"
    then [TRunes]
    else if String.eqb name "lower" || String.eqb name "digitVal" || String.eqb name "scanEscape" || String.eqb name "scanString"
         || String.eqb name "IsSpace" || String.eqb name "IsAlphabetic" || String.eqb name "IsAlphaNumeric"
    then [TInt]
    else if String.eqb name "scanDigits" then [TInt; TInt; TInt]
    else [].
  Fixpoint tags_ok (ts : list vtag) (vs : list val) : bool :=
    match ts, vs with
    | [], [] => true
    | t :: ts', v :: vs' => tag_ok t v && tags_ok ts' vs'
    | _, _ => false
    end.
  Definition typed (name : string) (args : list val) : bool :=
    Nat.eqb (List.length args) (List.length (sig_of name)) && tags_ok (sig_of name) args.

  Definition sig_ok (call : string -> list val -> gst -> res (list val)) (F : nat) (name : string) : Prop :=
    forall args g, typed name args = true -> call name args g = spec F name args g.
End G.

(* ------------------------------------------------------------------ one iteration of the interpreter's loops *)
Section Loops.
  Variables (lbl : option nat) (cond : env -> gst -> res bool) (post body : sem).

  Lemma for_loop_O : forall en g, for_loop O lbl cond post body en g = OutOfFuel.
  Proof. reflexivity. Qed.

  Lemma for_loop_S : forall f en g,
    for_loop (S f) lbl cond post body en g =
    bind (cond en g) (fun b g1 =>
      if b then
        bind (body en g1) (fun r g2 =>
          match r with
          | (CNormal, en1) =>
            bind (post en1 g2) (fun r2 g3 =>
              match r2 with
              | (CNormal, en2) => for_loop f lbl cond post body en2 g3
              | _ => Crash "control in a post statement"
              end)
          | (CBreak None, en1) => Ok (CNormal, en1) g2
          | (CBreak (Some l), en1) => if olbl_eqb lbl (Some l) then Ok (CNormal, en1) g2 else Ok r g2
          | (CReturn _, _) => Ok r g2
          end)
      else Ok (CNormal, en) g1).
  Proof. reflexivity. Qed.
End Loops.

Lemma range_loop_nil : forall v body en g, range_loop [] v body en g = Ok (CNormal, en) g.
Proof. reflexivity. Qed.

Lemma range_loop_cons : forall r t v body en g,
  range_loop (r :: t) v body en g =
  bind (assign v (VInt r) en g) (fun en1 g1 =>
    bind (body en1 g1) (fun res g2 =>
      match res with
      | (CNormal, en2) => range_loop t v body en2 g2
      | (CBreak None, en2) => Ok (CNormal, en2) g2
      | _ => Ok res g2
      end)).
Proof. reflexivity. Qed.

(* ------------------------------------------------------------------ a block in two parts *)
Lemma exec_block_app : forall ul ud us call F l1 l2 en g,
  exec_block ul ud us call F (l1 ++ l2)%list en g =
  bind (exec_block ul ud us call F l1 en g) (fun r g1 =>
    match r with (CNormal, en1) => exec_block ul ud us call F l2 en1 g1 | _ => Ok r g1 end).
Proof.
  intros ul ud us call F l1 l2. induction l1 as [|s t IH]; intros en g; [reflexivity|].
  cbn [app exec_block]. destruct (exec ul ud us call F s en g) as [[c en1] g1|w|]; [|reflexivity|reflexivity].
  cbn [bind]. destruct c; [apply IH|reflexivity|reflexivity].
Qed.

Lemma exec_block_split : forall n ul ud us call F l en g,
  exec_block ul ud us call F l en g =
  bind (exec_block ul ud us call F (firstn n l) en g) (fun r g1 =>
    match r with (CNormal, en1) => exec_block ul ud us call F (skipn n l) en1 g1 | _ => Ok r g1 end).
Proof. intros. rewrite <- exec_block_app, firstn_skipn. reflexivity. Qed.

(* ------------------------------------------------------------------ looking a function up in the table *)
Definition mem_name (name : string) (defs : list fdef) : bool := existsb (fun d => String.eqb (fn_name d) name) defs.

Section Lookup.
  Variables ul ud us : Z -> bool.
  Variable F : nat.
  Notation sem := (sem_of ul ud us F).

  Lemma sem_of_prim : forall defs name args g, mem_name name defs = false -> sem defs name args g = prim name args g.
  Proof.
    induction defs as [|d rest IH]; intros name args g Hm; [reflexivity|].
    cbn [mem_name existsb] in Hm. apply orb_false_elim in Hm. destruct Hm as [H1 H2].
    cbn [sem_of]. rewrite H1. apply IH. exact H2.
  Qed.

  Lemma sem_of_head : forall d rest args g,
    sem (d :: rest) (fn_name d) args g = run_fn ul ud us (sem rest) F d args g.
  Proof. intros. cbn [sem_of]. rewrite String.eqb_refl. reflexivity. Qed.

  Lemma sem_of_skip : forall d rest name args g, String.eqb (fn_name d) name = false ->
    sem (d :: rest) name args g = sem rest name args g.
  Proof. intros d rest name args g E. cbn [sem_of]. rewrite E. reflexivity. Qed.

  (* every function of `defs` behaves as `spec` says, on well-typed arguments *)
  Definition table_ok (defs : list fdef) : Prop :=
    forall name, mem_name name defs = true -> sig_ok ul ud us (sem defs) F name.

  Lemma table_ok_nil : table_ok [].
  Proof. intros name H. discriminate H. Qed.

  Lemma table_ok_cons : forall d rest,
    mem_name (fn_name d) rest = false ->
    (table_ok rest ->
     forall args g, typed (fn_name d) args = true ->
       run_fn ul ud us (sem rest) F d args g = spec ul ud us F (fn_name d) args g) ->
    table_ok rest -> table_ok (d :: rest).
  Proof.
    intros d rest Hnew Hd IH name Hin args g T.
    cbn [sem_of]. destruct (String.eqb (fn_name d) name) eqn:E.
    - apply String.eqb_eq in E. subst name. apply Hd; assumption.
    - cbn [mem_name existsb] in Hin. rewrite E in Hin. cbn [orb] in Hin. apply IH; assumption.
  Qed.

  (* a primitive stays a primitive *)
  Lemma prim_ok : forall defs name, mem_name name defs = false ->
    (forall args g, typed name args = true -> prim name args g = spec ul ud us F name args g) ->
    sig_ok ul ud us (sem defs) F name.
  Proof. intros defs name Hm Hp args g T. rewrite sem_of_prim by exact Hm. apply Hp. exact T. Qed.
End Lookup.

(* ================================================================== Part B: gst against the zipper of Lexer.v *)
(* the model state a Go-shaped state stands for *)
Definition abs (g : gst) : lexer :=
  mkLexer (skipn (Z.to_nat (g_end g)) (g_input g))
          (rev (slice (g_input g) (g_start g) (g_end g)))
          (g_width g) (g_startLoc g) (g_prev g) (g_loc g) (rev (g_tokens g)) (g_err g).

(* 0 <= start <= end <= len(input) *)
Definition wf (g : gst) : Prop := 0 <= g_start g /\ g_start g <= g_end g /\ g_end g <= input_len g.
(* `backup` is sound here: the last `next` read nothing, or read a rune of the current word *)
Definition bk (g : gst) : Prop := g_width g = 0 \/ (g_width g = 1 /\ g_start g < g_end g).
(* runes not yet read *)
Definition rl (g : gst) : Z := input_len g - g_end g.

(* g' comes from g by reading on inside the same word *)
Record stepped (g g' : gst) : Prop := mkStepped {
  st_wf : wf g';
  st_in : g_input g' = g_input g;
  st_start : g_start g' = g_start g;
  st_end : g_end g <= g_end g'
}.

Lemma stepped_refl : forall g, wf g -> stepped g g.
Proof. intros g W. split; [exact W|reflexivity|reflexivity|lia]. Qed.

Lemma stepped_trans : forall a b c, stepped a b -> stepped b c -> stepped a c.
Proof.
  intros a b c [W1 I1 S1 E1] [W2 I2 S2 E2]. split; [exact W2|congruence|congruence|lia].
Qed.

Lemma stepped_rl : forall g g', stepped g g' -> rl g' <= rl g.
Proof. intros g g' [W I S E]. unfold rl, input_len. rewrite I. lia. Qed.

(* ------------------------------------------------------------------ lists *)
Lemma skipn_cons_inv : forall (n : nat) (l : list Z) r t, skipn n l = r :: t -> skipn (S n) l = t.
Proof.
  induction n as [|n IH]; intros l r t H.
  - cbn in H. subst l. reflexivity.
  - destruct l as [|a l]; [discriminate H|]. cbn [skipn] in H. apply IH in H. exact H.
Qed.

Lemma firstn_snoc : forall (n : nat) (l : list Z) r t, skipn n l = r :: t -> firstn (S n) l = (firstn n l ++ [r])%list.
Proof.
  induction n as [|n IH]; intros l r t H.
  - cbn in H. subst l. reflexivity.
  - destruct l as [|a l]; [discriminate H|]. cbn [skipn] in H.
    change (firstn (S (S n)) (a :: l)) with (a :: firstn (S n) l). rewrite (IH _ _ _ H). reflexivity.
Qed.

Lemma skipn_skipn : forall (a b : nat) (l : list Z), skipn a (skipn b l) = skipn (b + a) l.
Proof.
  intros a b. induction b as [|b IH]; intros l; [reflexivity|].
  destruct l as [|x l]; [rewrite !skipn_nil; reflexivity|]. cbn [skipn Nat.add]. apply IH.
Qed.

Lemma skipn_nonempty : forall (n : nat) (l : list Z), (n < List.length l)%nat -> exists r t, skipn n l = r :: t.
Proof.
  intros n l H. destruct (skipn n l) as [|r t] eqn:E; [|eauto].
  pose proof (skipn_length n l) as L. rewrite E in L. cbn in L. lia.
Qed.

Lemma input_len_nonneg : forall g, 0 <= input_len g.
Proof. intros g. unfold input_len. lia. Qed.

(* the rune at `end` and its neighbourhood, when end < len *)
Lemma at_end : forall g, wf g -> g_end g < input_len g ->
  exists r t,
    skipn (Z.to_nat (g_end g)) (g_input g) = r :: t /\
    skipn (Z.to_nat (g_end g + 1)) (g_input g) = t /\
    slice (g_input g) (g_start g) (g_end g + 1) = (slice (g_input g) (g_start g) (g_end g) ++ [r])%list.
Proof.
  intros g (W1 & W2 & W3) H. unfold input_len in *.
  destruct (skipn_nonempty (Z.to_nat (g_end g)) (g_input g)) as (r & t & E); [lia|].
  exists r, t. split; [exact E|]. split.
  - replace (Z.to_nat (g_end g + 1)) with (S (Z.to_nat (g_end g))) by lia. eapply skipn_cons_inv. exact E.
  - unfold slice. replace (Z.to_nat (g_end g + 1 - g_start g)) with (S (Z.to_nat (g_end g - g_start g))) by lia.
    eapply firstn_snoc. rewrite skipn_skipn.
    replace (Z.to_nat (g_start g) + Z.to_nat (g_end g - g_start g))%nat with (Z.to_nat (g_end g)) by lia. exact E.
Qed.

Lemma rest_nil : forall g, input_len g <= g_end g -> skipn (Z.to_nat (g_end g)) (g_input g) = [].
Proof. intros g H. apply skipn_all2. unfold input_len in H. lia. Qed.

Lemma rest_length : forall g, wf g -> Z.of_nat (List.length (l_rest (abs g))) = rl g.
Proof.
  intros g (W1 & W2 & W3). unfold abs, rl, input_len in *. cbn [l_rest]. rewrite skipn_length. lia.
Qed.

(* ------------------------------------------------------------------ next, backup, peek *)
Lemma next_sim : forall g, wf g ->
  fst (g_next g) = fst (next (abs g)) /\
  abs (snd (g_next g)) = snd (next (abs g)) /\
  stepped g (snd (g_next g)) /\ bk (snd (g_next g)) /\
  g_end (snd (g_next g)) - g_width (snd (g_next g)) = g_end g /\
  ((rl g = 0 /\ fst (g_next g) = -1 /\ g_end (snd (g_next g)) = g_end g) \/
   (0 < rl g /\ g_end (snd (g_next g)) = g_end g + 1)).
Proof.
  intros g W. pose proof W as (W1 & W2 & W3). unfold g_next, next, rl.
  destruct (input_len g <=? g_end g) eqn:E.
  - apply Z.leb_le in E. unfold abs at 1 2. cbn [l_rest]. rewrite (rest_nil g E). cbn [fst snd].
    split; [reflexivity|]. split.
    { unfold abs, with_width. cbn. rewrite (rest_nil g E). reflexivity. }
    split. { split; cbn; [unfold wf; cbn; unfold input_len in *; cbn; lia|reflexivity|reflexivity|lia]. }
    split. { left. reflexivity. }
    split. { cbn. lia. }
    left. cbn. repeat split; lia.
  - apply Z.leb_gt in E. destruct (at_end g W E) as (r & t & E1 & E2 & E3).
    unfold decode_at. unfold abs at 1 2. cbn [l_rest]. rewrite E1. cbn [fst snd].
    assert (B : forall p, let g' := with_loc (with_prev (with_end (with_width g 1) (g_end g + 1)) (g_loc g)) p in
                stepped g g' /\ bk g' /\ g_end g' - g_width g' = g_end g /\
                ((input_len g - g_end g = 0 /\ r = -1 /\ g_end g' = g_end g) \/
                 (0 < input_len g - g_end g /\ g_end g' = g_end g + 1))).
    { intros p g'. subst g'. cbn.
      split. { split; cbn; [unfold wf; cbn; unfold input_len in *; cbn; lia|reflexivity|reflexivity|lia]. }
      split. { right. cbn. lia. }
      split. { lia. }
      right. lia. }
    unfold adv_loc. destruct (r =? 10) eqn:E10; cbn [fst snd].
    + split; [reflexivity|]. split.
      { unfold abs, with_loc, with_prev, with_end, with_width. cbn. rewrite ?E1. cbn. unfold adv_loc. rewrite ?E10, E2, E3, rev_app_distr. reflexivity. }
      apply (B (fst (g_loc g) + 1, 0)).
    + split; [reflexivity|]. split.
      { unfold abs, with_loc, with_prev, with_end, with_width. cbn. rewrite ?E1. cbn. unfold adv_loc. rewrite ?E10, E2, E3, rev_app_distr. reflexivity. }
      apply (B (fst (g_loc g), snd (g_loc g) + 1)).
Qed.

Lemma backup_sim : forall g, wf g -> bk g ->
  abs (g_backup g) = backup (abs g) /\
  wf (g_backup g) /\ g_input (g_backup g) = g_input g /\ g_start (g_backup g) = g_start g /\
  g_end (g_backup g) = g_end g - g_width g.
Proof.
  intros g W B. pose proof W as (W1 & W2 & W3). unfold g_backup, backup.
  change (l_width (abs g)) with (g_width g).
  change (l_word (abs g)) with (rev (slice (g_input g) (g_start g) (g_end g))).
  destruct B as [B | [B1 B2]].
  - rewrite B. cbn [Z.eqb].
    split. { unfold abs, with_loc, with_end. cbn. rewrite ?B, Z.sub_0_r. reflexivity. }
    split. { unfold wf, with_loc, with_end, input_len. cbn. unfold input_len in W3. lia. }
    cbn. repeat split; lia.
  - rewrite B1. cbn [Z.eqb].
    (* the state one rune earlier *)
    set (g0 := with_end g (g_end g - 1)).
    assert (W0 : wf g0) by (unfold wf, g0, with_end, input_len in *; cbn; lia).
    assert (E0 : g_end g0 < input_len g0) by (unfold g0, with_end, input_len in *; cbn; lia).
    destruct (at_end g0 W0 E0) as (r & t & E1 & E2 & E3).
    unfold g0, with_end in E1, E2, E3. cbn in E1, E2, E3.
    replace (g_end g - 1 + 1) with (g_end g) in E2, E3 by lia.
    rewrite E3, rev_app_distr. cbn [rev app].
    split. { unfold abs, with_loc, with_end. cbn. rewrite ?B1, E1, E2. reflexivity. }
    split. { unfold wf, with_loc, with_end, input_len. cbn. unfold input_len in W3. lia. }
    cbn. repeat split; lia.
Qed.

Lemma peek_sim : forall g, wf g ->
  fst (g_peek g) = fst (peek (abs g)) /\
  abs (snd (g_peek g)) = snd (peek (abs g)) /\
  stepped g (snd (g_peek g)) /\ g_end (snd (g_peek g)) = g_end g /\
  (rl g = 0 -> fst (g_peek g) = -1).
Proof.
  intros g W. destruct (next_sim g W) as (N1 & N2 & N3 & N4 & N5 & N6).
  destruct (backup_sim (snd (g_next g)) (st_wf _ _ N3) N4) as (B1 & B2 & B3 & B4 & B5).
  unfold g_peek, peek. cbn [fst snd].
  destruct (next (abs g)) as [r l1] eqn:E. cbn [fst snd] in *.
  split; [exact N1|]. split; [rewrite B1, N2; reflexivity|].
  split.
  - split; [exact B2|rewrite B3; apply (st_in _ _ N3)|rewrite B4; apply (st_start _ _ N3)|lia].
  - split; [lia|]. intros R0. destruct N6 as [(_ & A & _) | (Pos & _)]; [exact A|lia].
Qed.

Lemma word_sim : forall g, g_word g = word (abs g).
Proof. intros g. unfold g_word, word, abs. cbn [l_word]. rewrite rev_involutive. reflexivity. Qed.

Lemma slice_empty : forall l a, slice l a a = [].
Proof. intros l a. unfold slice. rewrite Z.sub_diag. reflexivity. Qed.

(* after an emit / ignore: start = end *)
Record emitted (g g' : gst) : Prop := mkEmitted {
  em_wf : wf g';
  em_in : g_input g' = g_input g;
  em_end : g_end g' = g_end g
}.

Lemma emitValue_sim : forall k s g, wf g ->
  abs (g_emitValue k s g) = emitValue k s (abs g) /\ emitted g (g_emitValue k s g).
Proof.
  intros k s g (W1 & W2 & W3). split.
  - unfold g_emitValue, emitValue, abs, with_startLoc, with_start, with_tokens. cbn.
    rewrite slice_empty, rev_app_distr. reflexivity.
  - split; cbn; [unfold wf, input_len in *; cbn; lia|reflexivity|reflexivity].
Qed.

Lemma emit_sim : forall k g, wf g -> abs (g_emit k g) = emit k (abs g) /\ emitted g (g_emit k g).
Proof. intros k g W. unfold g_emit, emit. rewrite word_sim. apply emitValue_sim. exact W. Qed.

Lemma emitEOF_sim : forall g, wf g -> abs (g_emitEOF g) = emitEOF (abs g) /\ emitted g (g_emitEOF g).
Proof.
  intros g (W1 & W2 & W3). split.
  - unfold g_emitEOF, emitEOF, abs, with_startLoc, with_start, with_tokens. cbn.
    rewrite slice_empty, rev_app_distr. reflexivity.
  - split; cbn; [unfold wf, input_len in *; cbn; lia|reflexivity|reflexivity].
Qed.

Lemma ignore_sim : forall g, wf g -> abs (g_ignore g) = ignore (abs g) /\ emitted g (g_ignore g).
Proof.
  intros g (W1 & W2 & W3). split.
  - unfold g_ignore, ignore, abs, with_startLoc, with_start. cbn. rewrite slice_empty. reflexivity.
  - split; cbn; [unfold wf, input_len in *; cbn; lia|reflexivity|reflexivity].
Qed.

Lemma error_sim : forall g, abs (g_error g) = set_error (abs g).
Proof.
  intros g. unfold g_error, set_error. change (l_err (abs g)) with (g_err g).
  destruct (g_err g) eqn:E; reflexivity.
Qed.

Lemma error_stepped : forall g g0, stepped g0 g -> stepped g0 (g_error g).
Proof.
  intros g g0 [W I S E]. unfold g_error. destruct (g_err g); [split; assumption|].
  split; cbn; [exact W|exact I|exact S|exact E].
Qed.

Lemma error_emitted_frame : forall g, wf g -> wf (g_error g) /\ g_input (g_error g) = g_input g /\
  g_start (g_error g) = g_start g /\ g_end (g_error g) = g_end g.
Proof.
  intros g W. unfold g_error.
  destruct (g_err g); (split; [exact W|split; [reflexivity|split; reflexivity]]).
Qed.

(* ------------------------------------------------------------------ accept, acceptRun *)
Lemma accept_sim : forall valid g, wf g ->
  fst (g_accept valid g) = fst (accept valid (abs g)) /\
  abs (snd (g_accept valid g)) = snd (accept valid (abs g)) /\
  stepped g (snd (g_accept valid g)) /\
  (fst (g_accept valid g) = true ->
   bk (snd (g_accept valid g)) /\ g_end (snd (g_accept valid g)) - g_width (snd (g_accept valid g)) = g_end g).
Proof.
  intros valid g W. destruct (next_sim g W) as (N1 & N2 & N3 & N4 & N5 & N6).
  destruct (backup_sim (snd (g_next g)) (st_wf _ _ N3) N4) as (B1 & B2 & B3 & B4 & B5).
  unfold g_accept, accept. destruct (next (abs g)) as [r l1] eqn:E. cbn [fst snd] in *.
  rewrite N1. destruct (mem r valid); cbn [fst snd].
  - split; [reflexivity|]. split; [exact N2|]. split; [exact N3|]. intros _. split; [exact N4|exact N5].
  - split; [reflexivity|]. split; [rewrite B1, N2; reflexivity|]. split.
    + split; [exact B2|rewrite B3; apply (st_in _ _ N3)|rewrite B4; apply (st_start _ _ N3)|lia].
    + discriminate.
Qed.

(* the loop shared by acceptRun and identifier; the model fuses the final backup into run_while *)
Lemma run_sim : forall p, p (-1) = false -> forall n m g, wf g ->
  rl g < Z.of_nat n -> rl g < Z.of_nat m ->
  exists g1, g_run n p g = Some g1 /\ abs (g_backup g1) = run_while p m (abs g) /\ stepped g (g_backup g1).
Proof.
  intros p Hp. induction n as [|n IH]; intros m g W Hn Hm.
  - pose proof W as (W1 & W2 & W3). unfold rl in Hn. lia.
  - destruct m as [|m]; [pose proof W as (W1 & W2 & W3); unfold rl in Hm; lia|].
    destruct (next_sim g W) as (N1 & N2 & N3 & N4 & N5 & N6).
    cbn [g_run run_while]. destruct (next (abs g)) as [r l1] eqn:E. cbn [fst snd] in *. rewrite N1.
    destruct (p r) eqn:Pr.
    + assert (C : 0 < rl g /\ g_end (snd (g_next g)) = g_end g + 1).
      { destruct N6 as [(_ & R & _) | C]; [|exact C]. congruence. }
      destruct C as (C1 & C2).
      assert (R1 : rl (snd (g_next g)) = rl g - 1).
      { unfold rl, input_len. rewrite (st_in _ _ N3), C2. lia. }
      destruct (IH m (snd (g_next g)) (st_wf _ _ N3)) as (g1 & G1 & G2 & G3); [lia|lia|].
      exists g1. split; [exact G1|]. split; [rewrite G2, N2; reflexivity|].
      eapply stepped_trans; [exact N3|exact G3].
    + exists (snd (g_next g)). split; [reflexivity|].
      destruct (backup_sim (snd (g_next g)) (st_wf _ _ N3) N4) as (B1 & B2 & B3 & B4 & B5).
      split; [rewrite B1, N2; reflexivity|].
      split; [exact B2|rewrite B3; apply (st_in _ _ N3)|rewrite B4; apply (st_start _ _ N3)|lia].
Qed.

Lemma acceptRun_sim : forall F valid g, mem (-1) valid = false -> wf g -> rl g < Z.of_nat F ->
  exists g', g_acceptRun F valid g = Some g' /\ abs g' = acceptRun valid (abs g) /\ stepped g g'.
Proof.
  intros F valid g Hv W HF.
  destruct (run_sim (fun r => mem r valid) Hv F (S (List.length (l_rest (abs g)))) g W HF) as (g1 & G1 & G2 & G3).
  { rewrite Nat2Z.inj_succ, (rest_length g W). lia. }
  exists (g_backup g1). unfold g_acceptRun, acceptRun. rewrite G1. cbn [option_map].
  split; [reflexivity|]. split; [exact G2|exact G3].
Qed.

(* ------------------------------------------------------------------ digitVal: lower(ch) = ('a' - 'A') | ch *)
Definition dv_table_ok : bool :=
  forallb (fun n => g_digitVal (Z.of_nat n) =? digitVal (Z.of_nat n)) (seq 0 256).

Lemma dv_table : dv_table_ok = true.
Proof. vm_compute. reflexivity. Qed.

Lemma digitVal_sim : forall ch, g_digitVal ch = digitVal ch.
Proof.
  intros ch. destruct (Z_lt_le_dec ch 0) as [Hneg|Hpos]; [|destruct (Z_lt_le_dec ch 256) as [Hs|Hb]].
  - assert (L : Z.lor 32 ch < 0) by (apply Z.lor_neg; right; exact Hneg).
    unfold g_digitVal, digitVal, g_lower. change (97 - 65) with 32.
    replace (48 <=? ch) with false by (symmetry; apply Z.leb_gt; lia).
    replace (97 <=? Z.lor 32 ch) with false by (symmetry; apply Z.leb_gt; lia).
    replace (97 <=? ch) with false by (symmetry; apply Z.leb_gt; lia).
    replace (65 <=? ch) with false by (symmetry; apply Z.leb_gt; lia).
    reflexivity.
  - pose proof dv_table as T. unfold dv_table_ok in T. rewrite forallb_forall in T.
    specialize (T (Z.to_nat ch)). rewrite Z2Nat.id in T by lia. apply Z.eqb_eq. apply T.
    apply in_seq. lia.
  - assert (L : 256 <= Z.lor 32 ch).
    { assert (N : 0 <= Z.lor 32 ch) by (apply Z.lor_nonneg; lia).
      assert (S8 : Z.shiftr (Z.lor 32 ch) 8 = ch / 256).
      { rewrite Z.shiftr_lor. change (Z.shiftr 32 8) with 0. rewrite Z.lor_0_l, Z.shiftr_div_pow2 by lia. reflexivity. }
      rewrite Z.shiftr_div_pow2 in S8 by lia. change (2 ^ 8) with 256 in S8.
      assert (1 <= ch / 256) by (apply Z.div_le_lower_bound; lia).
      destruct (Z_lt_le_dec (Z.lor 32 ch) 256) as [C|C]; [|exact C].
      rewrite Z.div_small in S8 by lia. lia. }
    unfold g_digitVal, digitVal, g_lower. change (97 - 65) with 32.
    replace (ch <=? 57) with false by (symmetry; apply Z.leb_gt; lia).
    replace (Z.lor 32 ch <=? 102) with false by (symmetry; apply Z.leb_gt; lia).
    replace (ch <=? 102) with false by (symmetry; apply Z.leb_gt; lia).
    replace (ch <=? 70) with false by (symmetry; apply Z.leb_gt; lia).
    rewrite !andb_false_r. reflexivity.
Qed.

(* ------------------------------------------------------------------ scanDigits, scanEscape, scanString *)
Lemma digits_sim : forall base n k ch g, wf g -> (n < k)%nat ->
  exists ch' n' g',
    g_digits k ch base (Z.of_nat n) g = Some (ch', n', g') /\
    (ch', abs (if 0 <? n' then g_error g' else g')) = scanDigits ch base n (abs g) /\
    stepped g g'.
Proof.
  intros base. induction n as [|n IH]; intros k ch g W Hk.
  - destruct k as [|k]; [lia|]. exists ch, 0, g. cbn [g_digits scanDigits Z.of_nat Z.ltb Z.compare andb].
    split; [reflexivity|]. split; [reflexivity|apply stepped_refl; exact W].
  - destruct k as [|k]; [lia|]. cbn [g_digits scanDigits].
    replace (0 <? Z.of_nat (S n)) with true by (symmetry; apply Z.ltb_lt; lia). cbn [andb].
    rewrite digitVal_sim. destruct (digitVal ch <? base).
    + destruct (next_sim g W) as (N1 & N2 & N3 & _).
      replace (Z.of_nat (S n) - 1) with (Z.of_nat n) by lia.
      destruct (IH k (fst (g_next g)) (snd (g_next g)) (st_wf _ _ N3)) as (ch' & n' & g' & G1 & G2 & G3); [lia|].
      exists ch', n', g'. split; [exact G1|]. split.
      * rewrite G2, N1, N2. destruct (next (abs g)); reflexivity.
      * eapply stepped_trans; [exact N3|exact G3].
    + exists ch, (Z.of_nat (S n)), g. split; [reflexivity|]. split.
      * replace (0 <? Z.of_nat (S n)) with true by (symmetry; apply Z.ltb_lt; lia). rewrite error_sim. reflexivity.
      * apply stepped_refl; exact W.
Qed.

Lemma scanDigits_sim : forall F base n ch g, wf g -> (n < F)%nat ->
  exists c g', g_scanDigits F ch base (Z.of_nat n) g = Some (c, g') /\
    (c, abs g') = scanDigits ch base n (abs g) /\ stepped g g'.
Proof.
  intros F base n ch g W HF.
  destruct (digits_sim base n F ch g W HF) as (ch' & n' & g' & G1 & G2 & G3).
  unfold g_scanDigits. rewrite G1. eexists; eexists. split; [reflexivity|]. split; [exact G2|].
  destruct (0 <? n'); [apply error_stepped|]; exact G3.
Qed.

Lemma mem_app : forall r a b, mem r (a ++ b)%list = mem r a || mem r b.
Proof. intros r a b. induction a as [|x a IH]; [reflexivity|]. cbn [mem app]. rewrite IH, orb_assoc. reflexivity. Qed.

(* when nothing is left to read, `next` answers eof and changes nothing but width *)
Lemma next_at_eof : forall g, wf g -> rl g = 0 -> fst (g_next g) = -1 /\ rl (snd (g_next g)) = 0.
Proof.
  intros g W R. destruct (next_sim g W) as (_ & _ & N3 & _ & _ & N6).
  destruct N6 as [(_ & A & B) | (C & _)]; [|lia].
  split; [exact A|]. unfold rl, input_len in *. rewrite (st_in _ _ N3), B. exact R.
Qed.

Lemma next_progress : forall g, wf g -> 0 < rl g -> rl (snd (g_next g)) = rl g - 1.
Proof.
  intros g W R. destruct (next_sim g W) as (_ & _ & N3 & _ & _ & N6).
  destruct N6 as [(C & _) | (_ & B)]; [lia|]. unfold rl, input_len in *. rewrite (st_in _ _ N3), B. lia.
Qed.

Lemma digits_eof : forall base k n g c n' g', wf g -> rl g = 0 ->
  g_digits k (-1) base n g = Some (c, n', g') -> c = -1.
Proof.
  intros base. induction k as [|k IH]; intros n g c n' g' W R H; [discriminate H|].
  cbn [g_digits] in H. destruct ((0 <? n) && (g_digitVal (-1) <? base)).
  - destruct (next_at_eof g W R) as (A & B). destruct (next_sim g W) as (_ & _ & N3 & _).
    rewrite A in H. eapply IH; [exact (st_wf _ _ N3)|exact B|exact H].
  - injection H as <- _ _. reflexivity.
Qed.

Lemma scanDigits_eof : forall F base n g c g', wf g -> rl g = 0 ->
  g_scanDigits F (-1) base n g = Some (c, g') -> c = -1.
Proof.
  intros F base n g c g' W R H. unfold g_scanDigits in H.
  destruct (g_digits F (-1) base n g) as [[[c0 n0] g0]|] eqn:E; [|discriminate H].
  injection H as <- _. eapply digits_eof; eassumption.
Qed.

Lemma scanEscape_sim : forall F q g, wf g -> (8 < F)%nat ->
  exists c g', g_scanEscape F q g = Some (c, g') /\ (c, abs g') = scanEscape q (abs g) /\ stepped g g' /\
    (0 < rl g -> rl g' < rl g) /\ (rl g = 0 -> c = -1).
Proof.
  intros F q g W HF. destruct (next_sim g W) as (N1 & N2 & N3 & N4 & N5 & N6).
  set (g1 := snd (g_next g)) in *. pose proof (st_wf _ _ N3) as W1.
  assert (P1 : 0 < rl g -> rl g1 < rl g) by (intros H; unfold g1; rewrite (next_progress g W H); lia).
  assert (P0 : rl g = 0 -> fst (g_next g) = -1 /\ rl g1 = 0) by (intros H; apply next_at_eof; assumption).
  assert (LE : forall g', stepped g1 g' -> (0 < rl g -> rl g' < rl g)).
  { intros g' S H. pose proof (stepped_rl _ _ S). specialize (P1 H). lia. }
  unfold g_scanEscape, scanEscape. fold g1.
  destruct (next (abs g)) as [ch l1] eqn:E. cbn [fst snd] in N1, N2. rewrite N1 in *. clear N1.
  change (rs "abfnrtv\") with [97; 98; 102; 110; 114; 116; 118; 92].
  change [97; 98; 102; 110; 114; 116; 118; 92; q] with ([97; 98; 102; 110; 114; 116; 118; 92] ++ [q])%list.
  rewrite mem_app. change (mem ch [q]) with ((ch =? q) || false). rewrite orb_false_r.
  change (rs "01234567") with [48; 49; 50; 51; 52; 53; 54; 55].
  (* a further `next` on g1, then the digit loop *)
  assert (NX : forall base n, (n < F)%nat ->
            exists c g', g_scanDigits F (fst (g_next g1)) base (Z.of_nat n) (snd (g_next g1)) = Some (c, g') /\
              (c, abs g') = (let (c0, l2) := next l1 in scanDigits c0 base n l2) /\ stepped g g' /\
              (0 < rl g -> rl g' < rl g) /\ (rl g = 0 -> c = -1)).
  { intros base n Hn. destruct (next_sim g1 W1) as (M1 & M2 & M3 & _).
    destruct (scanDigits_sim F base n (fst (g_next g1)) (snd (g_next g1)) (st_wf _ _ M3) Hn) as (c & g' & G1 & G2 & G3).
    exists c, g'. split; [exact G1|]. split.
    { rewrite G2, M1, M2, N2. destruct (next l1); reflexivity. }
    split. { eapply stepped_trans; [exact N3|]. eapply stepped_trans; [exact M3|exact G3]. }
    split. { apply LE. eapply stepped_trans; [exact M3|exact G3]. }
    intros R0. destruct (P0 R0) as (A & B). destruct (next_at_eof g1 W1 B) as (C & D).
    rewrite C in G1. eapply scanDigits_eof; [exact (st_wf _ _ M3)|exact D|exact G1]. }
  destruct (mem ch [97; 98; 102; 110; 114; 116; 118; 92] || (ch =? q)) eqn:C1.
  - (* one more `next` *)
    destruct (next_sim g1 W1) as (M1 & M2 & M3 & _).
    exists (fst (g_next g1)), (snd (g_next g1)). split; [destruct (g_next g1); reflexivity|].
    split. { rewrite M1, M2, N2. destruct (next l1); reflexivity. }
    split. { eapply stepped_trans; [exact N3|exact M3]. }
    split. { apply LE. exact M3. }
    intros R0. destruct (P0 R0) as (A & B). apply (next_at_eof g1 W1 B).
  - destruct (mem ch [48; 49; 50; 51; 52; 53; 54; 55]) eqn:C2.
    { destruct (scanDigits_sim F 8 3 ch g1 W1) as (c & g' & G1 & G2 & G3); [lia|].
      exists c, g'. split; [exact G1|]. split; [rewrite G2, N2; reflexivity|].
      split. { eapply stepped_trans; [exact N3|exact G3]. }
      split. { apply LE. exact G3. }
      intros R0. destruct (P0 R0) as (A & B). subst ch. discriminate C2. }
    destruct (ch =? 120); [apply (NX 16 2%nat); lia|].
    destruct (ch =? 117); [apply (NX 16 4%nat); lia|].
    destruct (ch =? 85); [apply (NX 16 8%nat); lia|].
    exists ch, (g_error g1). split; [reflexivity|]. split; [rewrite error_sim, N2; reflexivity|].
    split. { apply error_stepped. exact N3. }
    split. { intros H. specialize (P1 H). pose proof (error_emitted_frame g1 W1) as (_ & I & _ & En).
             unfold rl, input_len in *. rewrite I, En. exact P1. }
    intros R0. apply (P0 R0).
Qed.

(* fuel that is enough for the loop of scanString: every iteration reads a rune, or the next one sees eof *)
Definition str_bound (k : nat) (ch : Z) (g : gst) : Prop := rl g + (if ch =? -1 then 1 else 2) <= Z.of_nat k.

Lemma string_sim : forall F q, (8 < F)%nat -> forall k m cnt ch g, wf g -> str_bound k ch g -> str_bound m ch g ->
  exists cnt' g', g_string F k q cnt ch g = Some (cnt', g') /\ abs g' = scanString_go m q ch (abs g) /\ stepped g g'.
Proof.
  intros F q HF. induction k as [|k IH]; intros m cnt ch g W Bk Bm.
  - unfold str_bound in Bk. pose proof W as (_ & _ & W3). unfold rl in Bk. destruct (ch =? -1); lia.
  - destruct m as [|m]; [unfold str_bound in Bm; pose proof W as (_ & _ & W3); unfold rl in Bm; destruct (ch =? -1); lia|].
    cbn [g_string scanString_go]. destruct (ch =? q); cbn [negb].
    { exists cnt, g. split; [reflexivity|]. split; [reflexivity|apply stepped_refl; exact W]. }
    destruct (ch =? 10) eqn:E10; cbn [orb].
    { exists cnt, (g_error g). split; [reflexivity|]. split; [apply error_sim|apply error_stepped, stepped_refl; exact W]. }
    unfold eof. destruct (ch =? -1) eqn:Eeof.
    { exists cnt, (g_error g). split; [reflexivity|]. split; [apply error_sim|apply error_stepped, stepped_refl; exact W]. }
    unfold str_bound in Bk, Bm. rewrite Eeof in Bk, Bm.
    assert (NEXT : forall c g', stepped g g' -> (0 < rl g -> rl g' < rl g) -> (rl g = 0 -> c = -1) ->
                     str_bound k c g' /\ str_bound m c g').
    { intros c g' S P1 P0. unfold str_bound. pose proof (stepped_rl _ _ S) as LE.
      pose proof W as (_ & _ & W3). unfold rl in *.
      destruct (Z_lt_le_dec 0 (input_len g - g_end g)) as [Pos|Zero].
      - specialize (P1 Pos). destruct (c =? -1); lia.
      - assert (Z0 : input_len g - g_end g = 0) by lia. rewrite (P0 Z0). rewrite Z.eqb_refl. lia. }
    destruct (ch =? 92).
    + destruct (scanEscape_sim F q g W HF) as (c & g' & G1 & G2 & G3 & G4 & G5).
      rewrite G1. destruct (scanEscape q (abs g)) as [c0 l0] eqn:E. injection G2 as <- <-.
      destruct (NEXT c g' G3 G4 G5) as (B1 & B2).
      destruct (IH m (cnt + 1) c g' (st_wf _ _ G3) B1 B2) as (cnt' & g'' & H1 & H2 & H3).
      exists cnt', g''. split; [exact H1|]. split; [exact H2|eapply stepped_trans; eassumption].
    + destruct (next_sim g W) as (N1 & N2 & N3 & _).
      destruct (NEXT (fst (g_next g)) (snd (g_next g)) N3) as (B1 & B2).
      { intros H. rewrite (next_progress g W H). lia. }
      { intros H. apply (next_at_eof g W H). }
      destruct (IH m (cnt + 1) (fst (g_next g)) (snd (g_next g)) (st_wf _ _ N3) B1 B2) as (cnt' & g'' & H1 & H2 & H3).
      exists cnt', g''. split; [exact H1|]. split.
      * rewrite H2, N1, N2. destruct (next (abs g)); reflexivity.
      * eapply stepped_trans; eassumption.
Qed.

Lemma scanString_sim : forall F q g, wf g -> rl g + 10 <= Z.of_nat F ->
  exists cnt g', g_scanString F q g = Some (cnt, g') /\ abs g' = scanString q (abs g) /\ stepped g g'.
Proof.
  intros F q g W HF. destruct (next_sim g W) as (N1 & N2 & N3 & _).
  pose proof (stepped_rl _ _ N3) as LE. pose proof (st_wf _ _ N3) as W1.
  assert (R1 : Z.of_nat (List.length (l_rest (abs (snd (g_next g))))) = rl (snd (g_next g))) by (apply rest_length; exact W1).
  unfold g_scanString, scanString. destruct (next (abs g)) as [ch l1] eqn:E. cbn [fst snd] in N1, N2.
  destruct (string_sim F q) with (k := F) (m := S (S (List.length (l_rest l1)))) (cnt := 0) (ch := fst (g_next g)) (g := snd (g_next g))
    as (cnt' & g' & H1 & H2 & H3).
  - pose proof W as (_ & _ & W3). unfold rl in HF. lia.
  - exact W1.
  - unfold str_bound. destruct (fst (g_next g) =? -1); lia.
  - unfold str_bound. rewrite <- N2, !Nat2Z.inj_succ, R1. destruct (fst (g_next g) =? -1); lia.
  - exists cnt', g'. split; [exact H1|]. split; [rewrite H2, N1, N2; reflexivity|eapply stepped_trans; eassumption].
Qed.

(* ------------------------------------------------------------------ restoring a saved position *)
Lemma restore_sim : forall g0 g, g_input g = g_input g0 -> g_start g = g_start g0 ->
  abs (g_restore g (g_end g0) (g_loc g0) (g_prev g0)) = restore (abs g0) (abs g).
Proof.
  intros g0 g I S. unfold g_restore, restore, abs, with_prev, with_loc, with_end. cbn. rewrite I, S. reflexivity.
Qed.

Lemma restore_stepped : forall g0 g1 g, stepped g0 g1 -> stepped g1 g ->
  stepped g0 (g_restore g (g_end g1) (g_loc g1) (g_prev g1)).
Proof.
  intros g0 g1 g S1 S2. pose proof (st_wf _ _ S1) as (A & B & C).
  split; cbn.
  - unfold wf, input_len. cbn. rewrite (st_in _ _ S2), (st_start _ _ S2). unfold input_len in C. lia.
  - rewrite (st_in _ _ S2). apply (st_in _ _ S1).
  - rewrite (st_start _ _ S2). apply (st_start _ _ S1).
  - apply (st_end _ _ S1).
Qed.

(* ------------------------------------------------------------------ scanNumber *)
Section NumberSim.
  Variables ul ud us : Z -> bool.

  Lemma isAlphaNumeric_sim : forall r, g_isAlphaNumeric ul ud r = is_alnum ul ud r.
  Proof. reflexivity. Qed.

  Lemma number_exp_sim : forall F digits g, mem (-1) digits = false -> wf g -> rl g < Z.of_nat F ->
    exists ok g', g_number_exp ul ud F digits g = Some (ok, g') /\
      (ok, abs g') = scanNumber_exp ul ud digits (abs g) /\ stepped g g'.
  Proof.
    intros F digits g Hd W HF. unfold g_number_exp, scanNumber_exp.
    destruct (accept_sim (rs "eE") g W) as (A1 & A2 & A3 & _).
    destruct (accept (rs "eE") (abs g)) as [e l1] eqn:E1. cbn [fst snd] in A1, A2. rewrite A1.
    (* the state before "next thing mustn't be alphanumeric" *)
    assert (MID : exists g2,
              (if e then g_acceptRun F digits (snd (g_accept (rs "+-") (snd (g_accept (rs "eE") g))))
               else Some (snd (g_accept (rs "eE") g))) = Some g2 /\
              abs g2 = (if e then acceptRun digits (snd (accept (rs "+-") l1)) else l1) /\ stepped g g2).
    { destruct e.
      - destruct (accept_sim (rs "+-") (snd (g_accept (rs "eE") g)) (st_wf _ _ A3)) as (B1 & B2 & B3 & _).
        pose proof (stepped_rl _ _ A3). pose proof (stepped_rl _ _ B3).
        destruct (acceptRun_sim F digits (snd (g_accept (rs "+-") (snd (g_accept (rs "eE") g)))) Hd (st_wf _ _ B3))
          as (g2 & G1 & G2 & G3); [lia|].
        exists g2. split; [exact G1|]. split; [rewrite G2, B2, A2; reflexivity|].
        eapply stepped_trans; [exact A3|]. eapply stepped_trans; [exact B3|exact G3].
      - exists (snd (g_accept (rs "eE") g)). split; [reflexivity|]. split; [exact A2|exact A3]. }
    destruct MID as (g2 & M1 & M2 & M3). rewrite M1, <- M2.
    destruct (peek_sim g2 (st_wf _ _ M3)) as (P1 & P2 & P3 & _ & _).
    destruct (peek (abs g2)) as [p l3] eqn:E3. cbn [fst snd] in P1, P2. rewrite P1.
    change (g_isAlphaNumeric ul ud p) with (is_alnum ul ud p).
    destruct (is_alnum ul ud p).
    - destruct (next_sim (snd (g_peek g2)) (st_wf _ _ P3)) as (_ & N2 & N3 & _).
      eexists; eexists. split; [reflexivity|]. split; [rewrite N2, P2; reflexivity|].
      eapply stepped_trans; [exact M3|]. eapply stepped_trans; [exact P3|exact N3].
    - eexists; eexists. split; [reflexivity|]. split; [rewrite P2; reflexivity|].
      eapply stepped_trans; [exact M3|exact P3].
  Qed.

  Lemma number_frac_sim : forall F digits g3, mem (-1) digits = false -> wf g3 -> rl g3 < Z.of_nat F ->
    exists ok g', g_number_frac ul ud F digits g3 = Some (ok, g') /\
      (ok, abs g') = scanNumber_frac ul ud digits (abs g3) /\ stepped g3 g'.
  Proof.
    intros F digits g3 Hd W HF. unfold g_number_frac, scanNumber_frac.
    destruct (accept_sim (rs ".") g3 W) as (A1 & A2 & A3 & _).
    destruct (accept (rs ".") (abs g3)) as [d l4] eqn:E1. cbn [fst snd] in A1, A2. rewrite A1.
    pose proof (stepped_rl _ _ A3) as R4.
    destruct d.
    - destruct (peek_sim (snd (g_accept (rs ".") g3)) (st_wf _ _ A3)) as (P1 & P2 & P3 & _ & _).
      rewrite <- A2. destruct (peek (abs (snd (g_accept (rs ".") g3)))) as [p l5] eqn:E5. cbn [fst snd] in P1, P2. rewrite P1.
      pose proof (stepped_trans _ _ _ A3 P3) as S5. pose proof (stepped_rl _ _ S5) as R5.
      destruct (p =? 46).
      + eexists; eexists. split; [reflexivity|]. split.
        * rewrite <- P2. rewrite <- (restore_sim g3 (snd (g_peek (snd (g_accept (rs ".") g3))))).
          -- reflexivity.
          -- apply (st_in _ _ S5).
          -- apply (st_start _ _ S5).
        * pose proof (restore_stepped g3 g3 _ (stepped_refl g3 W) S5) as RS. exact RS.
      + destruct (acceptRun_sim F digits (snd (g_peek (snd (g_accept (rs ".") g3)))) Hd (st_wf _ _ S5)) as (g5 & G1 & G2 & G3); [lia|].
        rewrite G1. pose proof (stepped_rl _ _ G3).
        destruct (number_exp_sim F digits g5 Hd (st_wf _ _ G3)) as (ok & g' & H1 & H2 & H3); [lia|].
        exists ok, g'. split; [exact H1|]. split; [rewrite H2, G2, P2; reflexivity|].
        eapply stepped_trans; [exact S5|]. eapply stepped_trans; [exact G3|exact H3].
    - destruct (number_exp_sim F digits (snd (g_accept (rs ".") g3)) Hd (st_wf _ _ A3)) as (ok & g' & H1 & H2 & H3); [lia|].
      exists ok, g'. split; [exact H1|]. split; [rewrite H2, A2; reflexivity|].
      eapply stepped_trans; [exact A3|exact H3].
  Qed.

  (* (the calls of g_accept are replaced by variables before the case analysis: see Bridge/BrLexer.v, `gen1`) *)
  Lemma number_prefix_sim : forall g, wf g ->
    fst (g_number_prefix g) = fst (scanNumber_prefix (abs g)) /\
    abs (snd (g_number_prefix g)) = snd (scanNumber_prefix (abs g)) /\
    stepped g (snd (g_number_prefix g)) /\ mem (-1) (fst (g_number_prefix g)) = false.
  Proof.
    intros g W. unfold g_number_prefix, scanNumber_prefix, hex_digits, oct_digits, bin_digits, dec_digits.
    pose proof (accept_sim (rs "0") g W) as A. revert A. generalize (g_accept (rs "0") g). intros [z g1].
    destruct (accept (rs "0") (abs g)) as [z' l1]. cbn [fst snd]. intros (A1 & A2 & A3 & _). subst z' l1.
    destruct z; [|split; [reflexivity|split; [reflexivity|split; [exact A3|reflexivity]]]].
    pose proof (accept_sim (rs "xX") g1 (st_wf _ _ A3)) as B. revert B. generalize (g_accept (rs "xX") g1). intros [x g2].
    destruct (accept (rs "xX") (abs g1)) as [x' l2]. cbn [fst snd]. intros (B1 & B2 & B3 & _). subst x' l2.
    pose proof (stepped_trans _ _ _ A3 B3) as S2.
    destruct x; [split; [reflexivity|split; [reflexivity|split; [exact S2|reflexivity]]]|].
    pose proof (accept_sim (rs "oO") g2 (st_wf _ _ S2)) as C. revert C. generalize (g_accept (rs "oO") g2). intros [o g3].
    destruct (accept (rs "oO") (abs g2)) as [o' l3]. cbn [fst snd]. intros (C1 & C2 & C3 & _). subst o' l3.
    pose proof (stepped_trans _ _ _ S2 C3) as S3.
    destruct o; [split; [reflexivity|split; [reflexivity|split; [exact S3|reflexivity]]]|].
    pose proof (accept_sim (rs "bB") g3 (st_wf _ _ S3)) as D. revert D. generalize (g_accept (rs "bB") g3). intros [b g4].
    destruct (accept (rs "bB") (abs g3)) as [b' l4]. cbn [fst snd]. intros (D1 & D2 & D3 & _). subst b' l4.
    pose proof (stepped_trans _ _ _ S3 D3) as S4.
    destruct b; (split; [reflexivity|split; [reflexivity|split; [exact S4|reflexivity]]]).
  Qed.

  Lemma scanNumber_sim : forall F g, wf g -> rl g < Z.of_nat F ->
    exists ok g', g_scanNumber ul ud F g = Some (ok, g') /\ (ok, abs g') = scanNumber ul ud (abs g) /\ stepped g g'.
  Proof.
    intros F g W HF. unfold g_scanNumber, scanNumber.
    destruct (number_prefix_sim g W) as (P1 & P2 & P3 & P4).
    destruct (scanNumber_prefix (abs g)) as [digits l2] eqn:E. cbn [fst snd] in P1, P2.
    pose proof (stepped_rl _ _ P3).
    destruct (acceptRun_sim F (fst (g_number_prefix g)) (snd (g_number_prefix g)) P4 (st_wf _ _ P3)) as (g3 & G1 & G2 & G3); [lia|].
    rewrite G1. pose proof (stepped_rl _ _ G3).
    destruct (number_frac_sim F (fst (g_number_prefix g)) g3 P4 (st_wf _ _ G3)) as (ok & g' & H1 & H2 & H3); [lia|].
    exists ok, g'. split; [exact H1|]. split; [rewrite H2, G2, P2, P1; reflexivity|].
    eapply stepped_trans; [exact P3|]. eapply stepped_trans; [exact G3|exact H3].
  Qed.
End NumberSim.

(* ------------------------------------------------------------------ acceptWord *)
Lemma skip_sim : forall k m g, wf g -> rl g < Z.of_nat k -> rl g < Z.of_nat m ->
  exists r' g', g_skip k (fst (g_peek g)) (snd (g_peek g)) = Some (r', g') /\
    abs g' = skip_spaces m (abs g) /\ stepped g g'.
Proof.
  induction k as [|k IH]; intros m g W Hk Hm.
  - pose proof W as (_ & _ & W3). unfold rl in Hk. lia.
  - destruct m as [|m]; [pose proof W as (_ & _ & W3); unfold rl in Hm; lia|].
    destruct (peek_sim g W) as (P1 & P2 & P3 & P4 & P5). cbn [g_skip skip_spaces].
    revert P1 P2 P3 P4 P5. generalize (g_peek g). intros [r g1]. destruct (peek (abs g)) as [r' l1].
    cbn [fst snd]. intros <- <- P3 P4 P5.
    destruct (r =? 32) eqn:E32.
    + assert (R1 : rl g1 = rl g) by (unfold rl, input_len; rewrite (st_in _ _ P3), P4; reflexivity).
      assert (Pos : 0 < rl g).
      { pose proof W as (_ & _ & W3). destruct (Z_lt_le_dec 0 (rl g)) as [C|C]; [exact C|].
        assert (Z0 : rl g = 0) by (unfold rl in *; lia). specialize (P5 Z0). subst r. discriminate E32. }
      destruct (next_sim g1 (st_wf _ _ P3)) as (N1 & N2 & N3 & _).
      pose proof (next_progress g1 (st_wf _ _ P3)) as NP. rewrite R1 in NP. specialize (NP Pos).
      destruct (IH m (snd (g_next g1)) (st_wf _ _ N3)) as (r2 & g2 & G1 & G2 & G3); [lia|lia|].
      exists r2, g2. split; [exact G1|]. split; [rewrite G2, N2; reflexivity|].
      eapply stepped_trans; [exact P3|]. eapply stepped_trans; [exact N3|exact G3].
    + exists r, g1. split; [reflexivity|]. split; [reflexivity|exact P3].
Qed.

Lemma expect_sim : forall w g, wf g ->
  fst (g_expect w g) = fst (expect_word w (abs g)) /\
  abs (snd (g_expect w g)) = snd (expect_word w (abs g)) /\ stepped g (snd (g_expect w g)).
Proof.
  induction w as [|ch w IH]; intros g W.
  - cbn. split; [reflexivity|]. split; [reflexivity|apply stepped_refl; exact W].
  - cbn [g_expect expect_word]. destruct (next_sim g W) as (N1 & N2 & N3 & _).
    revert N1 N2 N3. generalize (g_next g). intros [r g1]. destruct (next (abs g)) as [r' l1].
    cbn [fst snd]. intros <- <- N3.
    destruct (r =? ch); cbn [negb].
    + destruct (IH g1 (st_wf _ _ N3)) as (H1 & H2 & H3).
      split; [exact H1|]. split; [exact H2|eapply stepped_trans; eassumption].
    + cbn [fst snd]. split; [reflexivity|]. split; [reflexivity|exact N3].
Qed.

Lemma acceptWord_sim : forall F w g, wf g -> rl g < Z.of_nat F ->
  exists ok g', g_acceptWord F w g = Some (ok, g') /\ (ok, abs g') = acceptWord w (abs g) /\ stepped g g'.
Proof.
  intros F w g W HF. unfold g_acceptWord, acceptWord.
  destruct (skip_sim F (S (List.length (l_rest (abs g)))) g W HF) as (r1 & g1 & G1 & G2 & G3).
  { rewrite Nat2Z.inj_succ, (rest_length g W). lia. }
  rewrite G1, <- G2.
  destruct (expect_sim w g1 (st_wf _ _ G3)) as (X1 & X2 & X3).
  revert X1 X2 X3. generalize (g_expect w g1). intros [ok g2]. destruct (expect_word w (abs g1)) as [ok' l2].
  cbn [fst snd]. intros <- <- X3.
  pose proof (stepped_trans _ _ _ G3 X3) as S2.
  destruct ok.
  - destruct (peek_sim g2 (st_wf _ _ S2)) as (P1 & P2 & P3 & _ & _).
    revert P1 P2 P3. generalize (g_peek g2). intros [r g3]. destruct (peek (abs g2)) as [r' l3].
    cbn [fst snd]. intros <- <- P3. pose proof (stepped_trans _ _ _ S2 P3) as S3.
    unfold eof. destruct (negb (r =? 32) && negb (r =? -1)).
    + eexists; eexists. split; [reflexivity|]. split.
      * rewrite (restore_sim g g3 (st_in _ _ S3) (st_start _ _ S3)). reflexivity.
      * apply (restore_stepped g g g3 (stepped_refl g W) S3).
    + eexists; eexists. split; [reflexivity|]. split; [reflexivity|exact S3].
  - eexists; eexists. split; [reflexivity|]. split.
    + rewrite (restore_sim g g2 (st_in _ _ S2) (st_start _ _ S2)). reflexivity.
    + apply (restore_stepped g g g2 (stepped_refl g W) S2).
Qed.

(* ------------------------------------------------------------------ the state functions *)
(* what one call of a state function preserves *)
Record after (g g' : gst) : Prop := mkAfter {
  af_wf : wf g';
  af_in : g_input g' = g_input g;
  af_end : g_end g <= g_end g'
}.

Lemma after_stepped : forall g g', stepped g g' -> after g g'.
Proof. intros g g' [W I S E]. split; assumption. Qed.

Lemma after_emitted : forall g g1 g2, stepped g g1 -> emitted g1 g2 -> after g g2.
Proof. intros g g1 g2 [W I S E] [W2 I2 E2]. split; [exact W2|congruence|lia]. Qed.

Lemma emitted_error : forall g, wf g -> stepped g (g_error g).
Proof. intros g W. apply error_stepped, stepped_refl. exact W. Qed.

Section StepSim.
  Variables ul ud us : Z -> bool.

  Lemma is_alnum_eof : is_alnum ul ud (-1) = false.
  Proof. reflexivity. Qed.

  (* `next` followed by `backup` *)
  Lemma next_backup : forall g, wf g ->
    abs (g_backup (snd (g_next g))) = backup (snd (next (abs g))) /\ stepped g (g_backup (snd (g_next g))).
  Proof.
    intros g W. destruct (peek_sim g W) as (_ & P2 & P3 & _ & _). unfold g_peek, peek in *. cbn [snd] in *.
    destruct (next (abs g)); cbn [snd] in *. split; assumption.
  Qed.

  Lemma root_sim : forall F g, wf g -> rl g + 10 <= Z.of_nat F ->
    exists o g', g_root ul ud us F g = Some (o, g') /\ (o, abs g') = step ul ud us SRoot (abs g) /\ after g g'.
  Proof.
    intros F g W HF. unfold g_root. cbn [step].
    destruct (next_sim g W) as (N1 & N2 & N3 & _). destruct (next_backup g W) as (K1 & K2).
    revert N1 N2 N3 K1 K2. generalize (g_next g). intros [r g1]. destruct (next (abs g)) as [r' l1].
    cbn [fst snd]. intros <- <- N3 K1 K2. pose proof (st_wf _ _ N3) as W1. pose proof (stepped_rl _ _ N3) as R1.
    unfold eof. destruct (r =? -1).
    { destruct (emitEOF_sim g1 W1) as (E1 & E2).
      eexists; eexists. split; [reflexivity|]. split; [rewrite E1; reflexivity|exact (after_emitted _ _ _ N3 E2)]. }
    destruct (is_space us r).
    { destruct (ignore_sim g1 W1) as (E1 & E2).
      eexists; eexists. split; [reflexivity|]. split; [rewrite E1; reflexivity|exact (after_emitted _ _ _ N3 E2)]. }
    destruct ((r =? 39) || (r =? 34)).
    { destruct (scanString_sim F r g1 W1) as (cnt & g2 & G1 & G2 & G3); [lia|].
      rewrite G1, <- G2, <- word_sim. pose proof (stepped_trans _ _ _ N3 G3) as S2.
      destruct (unescape (g_word g2)) as [str|].
      - destruct (emitValue_sim TkString str g2 (st_wf _ _ S2)) as (E1 & E2).
        eexists; eexists. split; [reflexivity|]. split; [rewrite E1; reflexivity|exact (after_emitted _ _ _ S2 E2)].
      - pose proof (error_stepped g2 g S2) as S3.
        destruct (emitValue_sim TkString EmptyString (g_error g2) (st_wf _ _ S3)) as (E1 & E2).
        eexists; eexists. split; [reflexivity|]. split; [rewrite E1, error_sim; reflexivity|exact (after_emitted _ _ _ S3 E2)]. }
    destruct ((48 <=? r) && (r <=? 57)).
    { eexists; eexists. split; [reflexivity|]. split; [rewrite K1; reflexivity|apply after_stepped; exact K2]. }
    destruct (r =? 63).
    { destruct (peek_sim g1 W1) as (P1 & P2 & P3 & _ & _).
      revert P1 P2 P3. generalize (g_peek g1). intros [p g2]. destruct (peek (abs g1)) as [p' l2].
      cbn [fst snd]. intros <- <- P3. pose proof (stepped_trans _ _ _ N3 P3) as S2.
      destruct (p =? 46).
      - eexists; eexists. split; [reflexivity|]. split; [reflexivity|apply after_stepped; exact S2].
      - destruct (emit_sim TkOperator g2 (st_wf _ _ S2)) as (E1 & E2).
        eexists; eexists. split; [reflexivity|]. split; [rewrite E1; reflexivity|exact (after_emitted _ _ _ S2 E2)]. }
    assert (EM : forall k, exists o g', Some (Some SRoot, g_emit k g1) = Some (o, g') /\
                  (o, abs g') = (Some SRoot, emit k (abs g1)) /\ after g g').
    { intros k. destruct (emit_sim k g1 W1) as (E1 & E2).
      eexists; eexists. split; [reflexivity|]. split; [rewrite E1; reflexivity|exact (after_emitted _ _ _ N3 E2)]. }
    destruct (mem r (rs "([{")); [apply EM|].
    destruct (mem r (rs ")]}")); [apply EM|].
    destruct (mem r (rs "#,?:%+-/")); [apply EM|].
    destruct (mem r (rs "&|!=*<>")).
    { destruct (accept_sim (rs "&|=*") g1 W1) as (_ & A2 & A3 & _).
      pose proof (stepped_trans _ _ _ N3 A3) as S2.
      destruct (emit_sim TkOperator _ (st_wf _ _ S2)) as (E1 & E2).
      eexists; eexists. split; [reflexivity|]. split; [rewrite E1, A2; reflexivity|exact (after_emitted _ _ _ S2 E2)]. }
    destruct (r =? 46).
    { eexists; eexists. split; [reflexivity|]. split; [rewrite K1; reflexivity|apply after_stepped; exact K2]. }
    change (g_isAlphaNumeric ul ud r) with (is_alnum ul ud r). destruct (is_alnum ul ud r).
    { eexists; eexists. split; [reflexivity|]. split; [rewrite K1; reflexivity|apply after_stepped; exact K2]. }
    eexists; eexists. split; [reflexivity|]. split; [rewrite error_sim; reflexivity|].
    apply after_stepped, error_stepped. exact N3.
  Qed.

  Lemma number_sim : forall F g, wf g -> rl g + 10 <= Z.of_nat F ->
    exists o g', g_number ul ud F g = Some (o, g') /\ (o, abs g') = step ul ud us SNumber (abs g) /\ after g g'.
  Proof.
    intros F g W HF. unfold g_number. cbn [step].
    destruct (scanNumber_sim ul ud F g W) as (ok & g1 & G1 & G2 & G3); [lia|].
    rewrite G1. destruct (scanNumber ul ud (abs g)) as [ok' l1]. injection G2 as <- <-.
    destruct ok; cbn [negb].
    - destruct (emit_sim TkNumber g1 (st_wf _ _ G3)) as (E1 & E2).
      eexists; eexists. split; [reflexivity|]. split; [rewrite E1; reflexivity|exact (after_emitted _ _ _ G3 E2)].
    - eexists; eexists. split; [reflexivity|]. split; [rewrite error_sim; reflexivity|].
      apply after_stepped, error_stepped. exact G3.
  Qed.

  Lemma dot_sim : forall g, wf g ->
    (fst (g_dot g), abs (snd (g_dot g))) = step ul ud us SDot (abs g) /\ after g (snd (g_dot g)).
  Proof.
    intros g W. unfold g_dot. cbn [step].
    destruct (next_sim g W) as (_ & N2 & N3 & _).
    revert N2 N3. generalize (g_next g). intros [r g1]. destruct (next (abs g)) as [r' l1].
    cbn [fst snd]. intros <- N3.
    destruct (accept_sim (rs "0123456789") g1 (st_wf _ _ N3)) as (A1 & A2 & A3 & A4).
    revert A1 A2 A3 A4. generalize (g_accept (rs "0123456789") g1). intros [d g2].
    destruct (accept (rs "0123456789") (abs g1)) as [d' l2]. cbn [fst snd]. intros <- <- A3 A4.
    pose proof (stepped_trans _ _ _ N3 A3) as S2.
    destruct d; cbn [fst snd].
    - destruct (A4 eq_refl) as (K & K5).
      destruct (backup_sim g2 (st_wf _ _ S2) K) as (B1 & B2 & B3 & B4 & B5).
      split; [rewrite B1; reflexivity|].
      split; [exact B2|rewrite B3; apply (st_in _ _ S2)|].
      rewrite B5, K5. apply (st_end _ _ N3).
    - destruct (accept_sim (rs ".") g2 (st_wf _ _ S2)) as (_ & C2 & C3 & _).
      pose proof (stepped_trans _ _ _ S2 C3) as S3.
      destruct (emit_sim TkOperator _ (st_wf _ _ S3)) as (E1 & E2).
      split; [rewrite E1, C2; reflexivity|exact (after_emitted _ _ _ S3 E2)].
  Qed.
End StepSim.

Section StepSim2.
  Variables ul ud us : Z -> bool.

  Lemma nilsafe_sim : forall g, wf g ->
    (fst (g_nilsafe g), abs (snd (g_nilsafe g))) = step ul ud us SNilsafe (abs g) /\ after g (snd (g_nilsafe g)).
  Proof.
    intros g W. unfold g_nilsafe. cbn [step fst snd].
    destruct (next_sim g W) as (_ & N2 & N3 & _).
    revert N2 N3. generalize (g_next g). intros [r g1]. destruct (next (abs g)) as [r' l1].
    cbn [fst snd]. intros <- N3.
    destruct (accept_sim (rs "?.") g1 (st_wf _ _ N3)) as (_ & A2 & A3 & _).
    pose proof (stepped_trans _ _ _ N3 A3) as S2.
    destruct (emit_sim TkOperator _ (st_wf _ _ S2)) as (E1 & E2).
    split; [rewrite E1, A2; reflexivity|exact (after_emitted _ _ _ S2 E2)].
  Qed.

  Lemma identifier_sim : forall F g, wf g -> rl g + 10 <= Z.of_nat F ->
    exists o g', g_identifier ul ud F g = Some (o, g') /\ (o, abs g') = step ul ud us SIdentifier (abs g) /\ after g g'.
  Proof.
    intros F g W HF. unfold g_identifier. cbn [step].
    destruct (run_sim (g_isAlphaNumeric ul ud) (is_alnum_eof ul ud) F (S (List.length (l_rest (abs g)))) g W)
      as (g1 & G1 & G2 & G3).
    { lia. }
    { rewrite Nat2Z.inj_succ, (rest_length g W). lia. }
    rewrite G1. change (run_while (is_alnum ul ud)) with (run_while (g_isAlphaNumeric ul ud)). rewrite <- G2, <- word_sim.
    change (word_operators) with word_ops.
    destruct (runes_eqb (g_word (g_backup g1)) (rs "not")).
    { eexists; eexists. split; [reflexivity|]. split; [reflexivity|apply after_stepped; exact G3]. }
    destruct (existsb (runes_eqb (g_word (g_backup g1))) word_ops).
    - destruct (emit_sim TkOperator _ (st_wf _ _ G3)) as (E1 & E2).
      eexists; eexists. split; [reflexivity|]. split; [rewrite E1; reflexivity|exact (after_emitted _ _ _ G3 E2)].
    - destruct (emit_sim TkIdentifier _ (st_wf _ _ G3)) as (E1 & E2).
      eexists; eexists. split; [reflexivity|]. split; [rewrite E1; reflexivity|exact (after_emitted _ _ _ G3 E2)].
  Qed.

  Lemma not_sim : forall F g, wf g -> rl g + 10 <= Z.of_nat F ->
    exists o g', g_not F g = Some (o, g') /\ (o, abs g') = step ul ud us SNot (abs g) /\ after g g'.
  Proof.
    intros F g W HF. unfold g_not. cbn [step].
    destruct (acceptWord_sim F (rs "in") g W) as (ok & g1 & G1 & G2 & G3); [lia|].
    rewrite G1. destruct (acceptWord (rs "in") (abs g)) as [ok' l1]. injection G2 as <- <-.
    destruct ok.
    - destruct (emitValue_sim TkOperator (utf8_encode (rs "not in")) g1 (st_wf _ _ G3)) as (E1 & E2).
      eexists; eexists. split; [reflexivity|]. split; [rewrite E1; reflexivity|exact (after_emitted _ _ _ G3 E2)].
    - destruct (emitValue_sim TkOperator (utf8_encode (rs "not")) g1 (st_wf _ _ G3)) as (E1 & E2).
      eexists; eexists. split; [reflexivity|]. split; [rewrite E1; reflexivity|exact (after_emitted _ _ _ G3 E2)].
  Qed.

  (* one call of a state function *)
  Theorem step_sim : forall F st g, wf g -> rl g + 10 <= Z.of_nat F ->
    exists o g', g_step ul ud us F st g = Some (o, g') /\ (o, abs g') = step ul ud us st (abs g) /\ after g g'.
  Proof.
    intros F st g W HF. destruct st; cbn [g_step].
    - apply root_sim; assumption.
    - apply number_sim; assumption.
    - destruct (dot_sim ul ud us g W) as (D1 & D2). eexists; eexists.
      split; [rewrite (surjective_pairing (g_dot g)); reflexivity|]. split; [exact D1|exact D2].
    - destruct (nilsafe_sim g W) as (D1 & D2). eexists; eexists.
      split; [rewrite (surjective_pairing (g_nilsafe g)); reflexivity|]. split; [exact D1|exact D2].
    - apply identifier_sim; assumption.
    - apply not_sim; assumption.
  Qed.

  Lemma after_rl : forall g g', after g g' -> rl g' <= rl g.
  Proof. intros g g' [W I E]. unfold rl, input_len. rewrite I. lia. Qed.

  (* the loop of Lex *)
  Fixpoint g_lex_fuel (F : nat) (fuel : nat) (st : stfn) (g : gst) : option (option gst) :=
    match fuel with
    | O => Some None                      (* the model's out-of-fuel *)
    | S f =>
      match g_step ul ud us F st g with
      | None => None                      (* an inner loop ran out of fuel *)
      | Some (None, g') => Some (Some g')
      | Some (Some st', g') => g_lex_fuel F f st' g'
      end
    end.

  Theorem lex_fuel_sim : forall F fuel st g, wf g -> rl g + 10 <= Z.of_nat F ->
    exists r, g_lex_fuel F fuel st g = Some r /\ option_map abs r = lex_fuel ul ud us fuel st (abs g).
  Proof.
    intros F. induction fuel as [|fuel IH]; intros st g W HF.
    - exists None. split; reflexivity.
    - cbn [g_lex_fuel lex_fuel].
      destruct (step_sim F st g W HF) as (o & g' & G1 & G2 & G3).
      rewrite G1. destruct (step ul ud us st (abs g)) as [o' l']. injection G2 as <- <-.
      destruct o as [st'|].
      + pose proof (after_rl _ _ G3). apply IH; [exact (af_wf _ _ G3)|lia].
      + exists (Some g'). split; reflexivity.
  Qed.
End StepSim2.

(* the state Lex starts from *)
Lemma init_sim : forall input, abs (g_init input) = init input /\ wf (g_init input) /\
  rl (g_init input) = Z.of_nat (List.length input).
Proof.
  intros input. split; [reflexivity|]. split.
  - unfold wf, g_init, input_len. cbn. lia.
  - unfold rl, g_init, input_len. cbn. lia.
Qed.

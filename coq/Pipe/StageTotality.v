(* Pipe/StageTotality.v — the totality hypotheses of C04's containment theorem, discharged for the
   stages whose executable model exists.

   Part A  the checker model (Ty/Checker.v) has no panic path: CStuck is never reported, neither as
           first error nor at any node behind an earlier error (`stuck_in`), for every
           configuration with usable tables and every tree without an under-applied builtin;
           refutations for the three excluded classes (the candidate panics of the real checker).
   Part B  compiler.PatchOperators (Ops/Overload.v) and the optimizer (Opt/Optimizer.v) are total.
   Part C  the parser only builds builtin nodes with the arity of the grammar table.
   Part D  the pipeline of Pipe/Pipeline.v instantiated with the models of lexer, parser, checker,
           operator patcher, optimizer passes, `compilable`, reference semantics; Compile / Eval /
           Run never yield a panic, with no totality hypothesis on a modelled stage. *)
From Coq Require Import ZArith Bool List String Lia Arith.
Require Import X.Ty.Types X.Ty.TypesTable.
Require Import X.Base.Num X.Base.Value X.Syn.Ast X.Syn.Tok X.Sem.Prim X.Sem.Sem.
Require Import X.gen.GenWeights X.Ty.Checker X.Ty.CheckProofs.
Import ListNotations.
Local Open Scope string_scope.

(* ================================================================== Part A: the checker never gets stuck *)

(* ---- A.1 the decidable carve-outs *)
(* the regenerated weight table of checker/types.go was recognised by the translator *)
Definition weights_usable : Prop := combined_shape <> CombUnrecognised.

Lemma gen_weights_usable : weights_usable.
Proof. unfold weights_usable. vm_compute. discriminate. Qed.

(* the embedding below t is acyclic (not deeper than the fuel): fieldType / methodType terminate.
   `type T struct{ *T }` is the excluded declaration: the real fieldType recurses until the Go runtime
   aborts the process (fatal error: stack overflow, no recover possible) *)
Fixpoint emb_ok (te : tenv) (fuel : nat) (t : ty) {struct fuel} : bool :=
  match under (dereference t) with
  | TStruct sn =>
      match fuel with
      | O => false
      | S n => forallb (fun f => if fd_anon f then emb_ok te n (fd_ty f) else true) (fields_of te (TStruct sn))
      end
  | _ => true
  end.

Definition te_acyclic (te : tenv) : bool :=
  forallb (fun e => emb_ok te (fuel0 te) (TStruct (fst e))) te.

(* what Config.Check guarantees about the functions named in config.Operators, in the terms of the
   checker's lookup (conf.FindSuitableOperatorOverload reads In(first), In(first+1), Out(0)) *)
Definition fn_usable (tb : TypesTable.table) (fn : string) : bool :=
  match tget fn tb with
  | Some tg =>
      match under (tg_ty tg) with
      | TFunc ins _ outs =>
          let off := if tg_method tg then 1%nat else 0%nat in
          match nth_error ins off, nth_error ins (S off), outs with
          | Some _, Some _, _ :: _ => true
          | _, _, _ => false
          end
      | _ => false
      end
  | None => false
  end.

Definition ops_usable (c : cconfig) : bool :=
  match cc_types c with
  | Some tb => forallb (fun e => forallb (fn_usable tb) (snd e)) (cc_ops c)
  | None => forallb (fun e => match snd e with [] => true | _ :: _ => false end) (cc_ops c)
  end.

Definition cfg_ok (c : cconfig) : bool := te_acyclic (cc_te c) && ops_usable c.

(* a builtin node carries the arguments its name indexes: Arguments[0] for len, Arguments[0] and
   Arguments[1] for the seven builtins with a closure.  The parser only builds such nodes (Part C);
   a user visitor (expr.Patch) can build others *)
Definition arity_ok_node (e : expr) : bool :=
  match e with
  | EBuiltin _ b args =>
      match b, args with
      | BiUnknown _, _ => true
      | BiLen, _ :: _ => true
      | BiLen, [] => false
      | _, _ :: _ :: _ => true
      | _, _ => false
      end
  | _ => true
  end.

Fixpoint arity_ok (e : expr) {struct e} : bool :=
  arity_ok_node e &&
  match e with
  | ENil _ | EIdent _ _ _ | EInt _ _ | EFloat _ _ | EBool _ _ | EStr _ _ | EConst _ _ | EPointer _ => true
  | EUnary _ _ x | EProperty _ x _ _ | EClosure _ x => arity_ok x
  | EBinary _ _ l r | EMatches _ _ l r | EIndex _ l r | EPair _ l r => arity_ok l && arity_ok r
  | ESlice _ x f t =>
      arity_ok x && match f with Some y => arity_ok y | None => true end
                 && match t with Some y => arity_ok y | None => true end
  | EMethod _ x _ args _ => arity_ok x && forallb arity_ok args
  | EFunction _ _ args _ | EBuiltin _ _ args | EArray _ args | EMap _ args => forallb arity_ok args
  | ECond _ a b d => arity_ok a && arity_ok b && arity_ok d
  end.

Lemma arity_ok_eq e : arity_ok e = arity_ok_node e && forallb arity_ok (children e).
Proof.
  destruct e; try (destruct from, to);
    cbn [arity_ok children forallb opt_list app]; rewrite ?andb_true_r, <- ?andb_assoc; reflexivity.
Qed.

(* ---- A.2 fieldType / methodType terminate on acyclic declarations *)
Lemma first_emb_nofuel {A : Type} (rec : ty -> lk A) : forall fs,
  (forall f, In f fs -> fd_anon f = true -> rec (fd_ty f) <> LFuel) -> first_emb rec fs <> LFuel.
Proof.
  induction fs as [|f r IH]; intros H; cbn [first_emb]; [discriminate|].
  destruct (fd_anon f) eqn:An.
  - pose proof (H f (or_introl eq_refl) An) as Hf.
    destruct (rec (fd_ty f)); [discriminate| |contradiction].
    apply IH. intros f' Hin. apply H. right. exact Hin.
  - apply IH. intros f' Hin. apply H. right. exact Hin.
Qed.

Lemma emb_ok_fields te n sn f :
  forallb (fun f => if fd_anon f then emb_ok te n (fd_ty f) else true) (fields_of te (TStruct sn)) = true ->
  In f (fields_of te (TStruct sn)) -> fd_anon f = true -> emb_ok te n (fd_ty f) = true.
Proof.
  intros H Hin An. rewrite forallb_forall in H. specialize (H f Hin). rewrite An in H. exact H.
Qed.

Lemma field_type_total te : forall n t name, emb_ok te n t = true -> field_type te n t name <> LFuel.
Proof.
  induction n as [|n IH]; intros t name H; cbn [emb_ok field_type] in *.
  - destruct (under (dereference t)); try discriminate.
  - destruct (under (dereference t)) as [| | | | | | |sn| | | |]; try discriminate.
    destruct (find (is_named name) (fields_of te (TStruct sn))); [discriminate|].
    apply first_emb_nofuel. intros f Hin An. apply IH. exact (emb_ok_fields te n sn f H Hin An).
Qed.

Lemma under_struct_deref e sn : under e = TStruct sn -> dereference e = e.
Proof. destruct e; cbn; intros H; try reflexivity; discriminate. Qed.

Lemma elem1_struct t sn : under (elem1 t) = TStruct sn -> under (dereference t) = TStruct sn.
Proof.
  destruct t; cbn [elem1 dereference]; intros H; try exact H.
  rewrite (under_struct_deref _ _ H). exact H.
Qed.

Lemma method_type_total te : forall n t name, emb_ok te n t = true -> method_type te n t name <> LFuel.
Proof.
  induction n as [|n IH]; intros t name H.
  - cbn [method_type]. destruct t; try discriminate;
      (destruct (method_by_name te _ name); [discriminate|]);
      match goal with |- context [under (elem1 ?x)] => destruct (under (elem1 x)) as [| | | | | | |sn| | | |] eqn:E end;
      try discriminate;
      (destruct (find _ (fields_of te (TStruct sn))); [discriminate|]);
      apply elem1_struct in E; cbn [emb_ok] in H; rewrite E in H; discriminate.
  - cbn [method_type]. destruct t; try discriminate;
      (destruct (method_by_name te _ name); [discriminate|]);
      match goal with |- context [under (elem1 ?x)] => destruct (under (elem1 x)) as [| | | | | | |sn| | | |] eqn:E end;
      try discriminate;
      (destruct (find _ (fields_of te (TStruct sn))); [discriminate|]);
      apply elem1_struct in E; cbn [emb_ok] in H; rewrite E in H;
      apply first_emb_nofuel; intros f Hin An; apply IH; exact (emb_ok_fields te n sn f H Hin An).
Qed.

Lemma lookup_struct_in te sn sd : lookup_struct te sn = Some sd -> In (sn, sd) te.
Proof.
  induction te as [|[m d] r IH]; cbn [lookup_struct]; [discriminate|].
  destruct (String.eqb m sn) eqn:E.
  - intros H. inversion H; subst. apply String.eqb_eq in E. subst. left. reflexivity.
  - intros H. right. apply IH. exact H.
Qed.

(* on an acyclic declaration list the fuel of the model suffices for EVERY type *)
Lemma te_acyclic_emb_ok te t : te_acyclic te = true -> emb_ok te (fuel0 te) t = true.
Proof.
  intros H. unfold fuel0. cbn [emb_ok].
  destruct (under (dereference t)) as [| | | | | | |sn| | | |]; try reflexivity.
  unfold fields_of. destruct (lookup_struct te sn) as [sd|] eqn:L; [|reflexivity].
  unfold te_acyclic in H. rewrite forallb_forall in H.
  specialize (H _ (lookup_struct_in te sn sd L)). unfold fuel0 in H. cbn [emb_ok fst under dereference] in H.
  unfold fields_of in H. rewrite L in H. exact H.
Qed.

(* ---- A.3 no typing rule yields CStuck *)
Definition rstuck (r : ty + cerr) : bool := match r with inr CStuck => true | _ => false end.

Ltac ifs := repeat match goal with |- context [if ?b then _ else _] => destruct b end.

Lemma comb_ns a b : weights_usable -> rstuck (comb a b) = false.
Proof.
  unfold weights_usable, comb, combined_ty. destruct combined_shape; intros H; try reflexivity.
  exfalso. apply H. reflexivity.
Qed.

Lemma unary_rule_ns op t : rstuck (unary_rule op t) = false.
Proof. destruct op; cbn [unary_rule]; ifs; reflexivity. Qed.

Lemma binary_rule_ns op l r : weights_usable -> rstuck (binary_rule op l r) = false.
Proof. intros W. destruct op; cbn [binary_rule]; ifs; try reflexivity; apply comb_ns; exact W. Qed.

Lemma matches_rule_ns l r : rstuck (matches_rule l r) = false.
Proof. unfold matches_rule. ifs; reflexivity. Qed.

Lemma index_rule_ns t i : rstuck (index_rule t i) = false.
Proof. unfold index_rule. destruct (index_type t); ifs; reflexivity. Qed.

Lemma len_rule_ns t : rstuck (len_rule t) = false.
Proof. unfold len_rule. ifs; reflexivity. Qed.

Lemma pointer_rule_ns cols : rstuck (pointer_rule cols) = false.
Proof. unfold pointer_rule. destruct cols as [|x r]; [reflexivity|]. destruct (index_type x); reflexivity. Qed.

Lemma closure_rule_ns b t tc : is_closure_builtin b = true -> rstuck (closure_rule b t tc) = false.
Proof.
  intros Hb. unfold closure_rule. destruct (closure_out tc); [|reflexivity].
  destruct b; try discriminate; ifs; reflexivity.
Qed.

Lemma assoc_in {A : Type} n (l : list (string * A)) a : Types.assoc n l = Some a -> exists m, In (m, a) l.
Proof.
  induction l as [|[m x] r IH]; cbn [Types.assoc]; [discriminate|].
  destruct (String.eqb m n).
  - intros H. inversion H; subst. exists m. left. reflexivity.
  - intros H. destruct (IH H) as [m' Hm']. exists m'. right. exact Hm'.
Qed.

Lemma find_overload_usable tb l r : forall fns, forallb (fn_usable tb) fns = true -> find_overload tb fns l r <> None.
Proof.
  induction fns as [|fn rest IH]; cbn [find_overload forallb]; [discriminate|].
  intros H. apply andb_prop in H. destruct H as [Hf Hr]. unfold fn_usable in Hf.
  destruct (tget fn tb) as [tg|]; [|discriminate].
  destruct (under (tg_ty tg)); try discriminate.
  destruct (nth_error ins (if tg_method tg then 1%nat else 0%nat)); [|discriminate].
  destruct (nth_error ins (S (if tg_method tg then 1%nat else 0%nat))); [|discriminate].
  destruct outs; [discriminate|].
  destruct (arg_fit l t && arg_fit r t0); [discriminate|]. apply IH. exact Hr.
Qed.

Section Rules.
Variable c : cconfig.

Lemma ident_rule_ns name ns : rstuck (ident_rule c name ns) = false.
Proof.
  unfold ident_rule. destruct (cc_types c) as [tb|]; [|reflexivity].
  destruct (tget name tb) as [tg|]; ifs; reflexivity.
Qed.

Lemma overload_usable op l r : ops_usable c = true -> overload c op l r <> None.
Proof.
  unfold ops_usable, overload. intros H.
  destruct (Types.assoc (binop_str op) (cc_ops c)) as [fns|] eqn:E; [|discriminate].
  destruct (assoc_in _ _ _ E) as [m Hm].
  destruct (cc_types c) as [tb|]; rewrite forallb_forall in H; specialize (H _ Hm); cbn [snd] in H.
  - pose proof (find_overload_usable tb l r fns H) as Hf.
    destruct (find_overload tb fns l r) as [[[t s]|]|]; [discriminate|discriminate|contradiction].
  - destruct fns; [discriminate|discriminate].
Qed.

Lemma binary_node_rule_ns op l r : weights_usable -> ops_usable c = true -> rstuck (binary_node_rule c op l r) = false.
Proof.
  intros W H. unfold binary_node_rule. pose proof (overload_usable op l r H) as Ho.
  destruct (overload c op l r) as [[t|]|]; [reflexivity|apply binary_rule_ns; exact W|contradiction].
Qed.

Lemma property_rule_ns t name ns : te_acyclic (cc_te c) = true -> rstuck (property_rule c t name ns) = false.
Proof.
  intros H. unfold property_rule, cfuel, Checker.te.
  pose proof (field_type_total (cc_te c) (fuel0 (cc_te c)) t name (te_acyclic_emb_ok _ t H)) as Hf.
  destruct (field_type (cc_te c) (fuel0 (cc_te c)) t name); [reflexivity|destruct ns; reflexivity|contradiction].
Qed.
End Rules.

(* ---- A.4 "stuck anywhere": the panic sites of the visitor, node by node.
   `visit` keeps only the FIRST error, so a CStuck behind an earlier (ordinary) error is invisible in
   its result, while the real checker goes on visiting after an error and would panic there.
   `stuck_in c cols e` looks at EVERY node of e - visited or not - under the collection stack it is
   visited with and with the operand types the checker computes, and says whether the node's own
   rule is a panic site. *)
Section Stuck.
Variable c : cconfig.

Definition ty_at (cols : list ty) (x : expr) : ty := fst (fst (visit c cols x None)).

Definition own_stuck (cols : list ty) (e : expr) : bool :=
  match e with
  | EIdent _ name ns => rstuck (ident_rule c name ns)
  | EUnary _ op x => rstuck (unary_rule op (ty_at cols x))
  | EBinary _ op l r => rstuck (binary_node_rule c op (ty_at cols l) (ty_at cols r))
  | EMatches _ _ l r => rstuck (matches_rule (ty_at cols l) (ty_at cols r))
  | EProperty _ x name ns => rstuck (property_rule c (ty_at cols x) name ns)
  | EIndex _ x i => rstuck (index_rule (ty_at cols x) (ty_at cols i))
  | EBuiltin _ b args =>
      match b, args with
      | BiLen, x :: _ => rstuck (len_rule (ty_at cols x))
      | (BiAll | BiNone | BiAny | BiOne | BiFilter | BiMap | BiCount), x :: cl :: _ =>
          is_array (ty_at cols x) && rstuck (closure_rule b (ty_at cols x) (ty_at (ty_at cols x :: cols) cl))
      | BiUnknown _, _ => false
      | _, _ => true                               (* Arguments[i] out of range *)
      end
  | EPointer _ => rstuck (pointer_rule cols)
  | _ => false
  end.

Fixpoint stuck_in (cols : list ty) (e : expr) {struct e} : bool :=
  own_stuck cols e ||
  match e with
  | ENil _ | EIdent _ _ _ | EInt _ _ | EFloat _ _ | EBool _ _ | EStr _ _ | EConst _ _ | EPointer _ => false
  | EUnary _ _ x | EProperty _ x _ _ | EClosure _ x => stuck_in cols x
  | EBinary _ _ l r | EMatches _ _ l r | EIndex _ l r | EPair _ l r => stuck_in cols l || stuck_in cols r
  | ESlice _ x f t =>
      stuck_in cols x || match f with Some y => stuck_in cols y | None => false end
                      || match t with Some y => stuck_in cols y | None => false end
  | EMethod _ x _ args _ => stuck_in cols x || existsb (stuck_in cols) args
  | EFunction _ _ args _ | EArray _ args | EMap _ args => existsb (stuck_in cols) args
  | EBuiltin _ b args =>
      match args with
      | [] => false
      | x :: rest =>
          stuck_in cols x ||
          match rest with
          | [] => false
          | cl :: rest' =>
              stuck_in (if is_closure_builtin b then ty_at cols x :: cols else cols) cl
              || existsb (stuck_in cols) rest'
          end
      end
  | ECond _ a b d => stuck_in cols a || stuck_in cols b || stuck_in cols d
  end.

(* -- totality: with usable tables no node of a tree without under-applied builtins is a panic site *)
Hypothesis W : weights_usable.
Hypothesis Hcfg : cfg_ok c = true.

Lemma cfg_te : te_acyclic (cc_te c) = true.
Proof. unfold cfg_ok in Hcfg. apply andb_prop in Hcfg. tauto. Qed.
Lemma cfg_ops : ops_usable c = true.
Proof. unfold cfg_ok in Hcfg. apply andb_prop in Hcfg. tauto. Qed.

Lemma own_never_stuck cols e : arity_ok_node e = true -> own_stuck cols e = false.
Proof.
  intros Ha. destruct e; cbn [own_stuck]; try reflexivity.
  - apply ident_rule_ns.
  - apply unary_rule_ns.
  - apply binary_node_rule_ns; [exact W|exact cfg_ops].
  - apply matches_rule_ns.
  - apply property_rule_ns. exact cfg_te.
  - apply index_rule_ns.
  - cbn [arity_ok_node] in Ha.
    destruct b; destruct args as [|x [|cl rest]]; try discriminate; try reflexivity; try apply len_rule_ns;
      rewrite closure_rule_ns by reflexivity; apply andb_false_r.
  - apply pointer_rule_ns.
Qed.

Lemma existsb_false_forall {A : Type} (f : A -> bool) l : (forall x, In x l -> f x = false) -> existsb f l = false.
Proof.
  induction l as [|x r IH]; intros H; [reflexivity|]. cbn [existsb].
  rewrite (H x (or_introl eq_refl)), IH; [reflexivity|]. intros y Hy. apply H. right. exact Hy.
Qed.

Theorem never_stuck_anywhere : forall e, arity_ok e = true -> forall cols, stuck_in cols e = false.
Proof.
  induction e as [e IH] using expr_ind2. intros Ha cols.
  rewrite arity_ok_eq in Ha. apply andb_prop in Ha. destruct Ha as [Hn Hc].
  rewrite forallb_forall in Hc. rewrite Forall_forall in IH.
  assert (K : forall x, In x (children e) -> forall cols', stuck_in cols' x = false).
  { intros x Hin cols'. apply IH; [exact Hin|apply Hc; exact Hin]. }
  assert (KL : forall l cols', (forall x, In x l -> In x (children e)) -> existsb (stuck_in cols') l = false).
  { intros l cols' Hl. apply existsb_false_forall. intros x Hx. apply K. apply Hl. exact Hx. }
  pose proof (own_never_stuck cols e Hn) as Ho.
  destruct e; cbn [stuck_in]; rewrite Ho; cbn [orb children] in *;
    rewrite ?K by (cbn; auto); try reflexivity.
  - (* slice *) destruct from as [f|], to as [t|]; cbn [opt_list app] in K; rewrite ?K by (cbn; auto); reflexivity.
  - (* method *) apply KL. intros x Hx. right. exact Hx.
  - (* function *) apply KL. intros x Hx. exact Hx.
  - (* builtin *) destruct args as [|x [|cl rest]]; [reflexivity|rewrite K by (cbn; auto); reflexivity|].
    rewrite !K by (cbn; auto). apply KL. intros y Hy. right. right. exact Hy.
  - apply KL. intros x Hx. exact Hx.
  - apply KL. intros x Hx. exact Hx.
Qed.
End Stuck.

(* ---- A.5 adequacy: a CStuck that `visit` reports comes from a node that `stuck_in` flags *)
Definition stk (st : cst) (P : Prop) : Prop := match st with Some (_, CStuck) => P | _ => True end.

Lemma stk_mono st (P Q : Prop) : (P -> Q) -> stk st P -> stk st Q.
Proof. destruct st as [[l k]|]; [destruct k|]; cbn; auto. Qed.

Section Adequate.
Variable c : cconfig.
Notation stuck_in := (stuck_in c).
Notation ty_at := (ty_at c).

Definition ok_st (cols : list ty) (e : expr) (st : cst) : Prop := stk st (stuck_in cols e = true).

Lemma all_sticky es : Forall (sticky_at c) es.
Proof. apply Forall_forall. intros z _. apply visit_sticky. Qed.

Lemma vlist_ok cols : forall es,
  (forall x, In x es -> ok_st cols x (snd (visit c cols x None))) ->
  stk (snd (vlist c cols es None)) (existsb (stuck_in cols) es = true).
Proof.
  induction es as [|x r IH]; intros H; cbn [vlist]; [exact I|].
  pose proof (H x (or_introl eq_refl)) as Hx.
  destruct (visit c cols x None) as [[t x'] [y|]]; cbn [snd] in Hx.
  - pose proof (vlist_sticky c cols r (all_sticky r) y) as E.
    destruct (vlist c cols r (Some y)) as [r' st2]. cbn [snd] in *. subst st2.
    revert Hx. apply stk_mono. intros S. cbn [existsb]. rewrite S. reflexivity.
  - assert (Hr : stk (snd (vlist c cols r None)) (existsb (stuck_in cols) r = true)).
    { apply IH. intros z Hz. apply H. right. exact Hz. }
    destruct (vlist c cols r None) as [r' st2]. cbn [snd] in *.
    revert Hr. apply stk_mono. intros S. cbn [existsb]. rewrite S. apply orb_true_r.
Qed.

Lemma vargs_ok cols pt : forall args i,
  (forall x, In x args -> ok_st cols x (snd (visit c cols x None))) ->
  stk (snd (fst (vargs c cols pt i args None))) (existsb (stuck_in cols) args = true).
Proof.
  induction args as [|x r IH]; intros i H; cbn [vargs]; [exact I|].
  pose proof (H x (or_introl eq_refl)) as Hx.
  destruct (visit c cols x None) as [[t x'] [y|]]; cbn [snd] in Hx.
  - destruct (arg_rule x x' t (pt i)) as [a2 [|]].
    + pose proof (vargs_sticky c cols pt r (all_sticky r) (S i) y) as E.
      destruct (vargs c cols pt (S i) r (Some y)) as [[r' st2] ok']. cbn [snd fst] in *. subst st2.
      revert Hx. apply stk_mono. intros S0. cbn [existsb]. rewrite S0. reflexivity.
    + cbn [record snd fst]. revert Hx. apply stk_mono. intros S0. cbn [existsb]. rewrite S0. reflexivity.
  - destruct (arg_rule x x' t (pt i)) as [a2 [|]].
    + assert (Hr : stk (snd (fst (vargs c cols pt (S i) r None))) (existsb (stuck_in cols) r = true)).
      { apply IH. intros z Hz. apply H. right. exact Hz. }
      destruct (vargs c cols pt (S i) r None) as [[r' st2] ok']. cbn [snd fst] in *.
      revert Hr. apply stk_mono. intros S0. cbn [existsb]. rewrite S0. apply orb_true_r.
    + exact I.
Qed.

Lemma check_func_ok cols fn m l args :
  (forall x, In x args -> ok_st cols x (snd (visit c cols x None))) ->
  stk (snd (check_func (vargs c cols) fn m l args None)) (existsb (stuck_in cols) args = true).
Proof.
  intros H. unfold check_func. destruct fn; try exact I.
  destruct outs as [|o [|o2 outs]]; try exact I.
  destruct (arity_rule ins variadic m (List.length args)) as [k|] eqn:Ea.
  - unfold arity_rule in Ea. repeat match type of Ea with (if ?b then _ else _) = _ => destruct b end;
      inversion Ea; exact I.
  - pose proof (vargs_ok cols (param_ty ins variadic m) args 0%nat H) as Hv.
    destruct (vargs c cols (param_ty ins variadic m) 0 args None) as [[args' st'] ok]. cbn [snd fst] in *.
    destruct ok; exact Hv.
Qed.

Ltac sticky :=
  repeat first
  [ match goal with
    | |- context [visit c ?cl ?x (Some ?y)] =>
        let E := fresh "Es" in
        pose proof (visit_sticky c x cl y) as E;
        destruct (visit c cl x (Some y)) as [[? ?] ?]; cbn [snd] in E; subst
    end
  | match goal with
    | |- context [emit ?l ?r (Some ?y)] =>
        let E := fresh "Es" in
        pose proof (emit_some l r y) as E;
        destruct (emit l r (Some y)) as [? ?]; cbn [snd] in E; subst
    end
  | match goal with |- context [if ?b then _ else _] => destruct b end
  | progress cbn [fail_at record snd fst] ].

Ltac closeS S :=
  rewrite S; repeat (first [rewrite orb_true_r | rewrite orb_true_l]); reflexivity.

Ltac useE :=
  unfold ty_at, StageTotality.ty_at;
  repeat first [ match goal with E : visit c _ _ None = _ |- _ => rewrite E end | progress cbn [fst snd] ].

(* the error came out of child x (hypothesis Hx): it is the node's error *)
Ltac from_child Hx :=
  sticky; revert Hx; apply stk_mono;
  let S := fresh "S" in intros S; cbn [StageTotality.stuck_in is_closure_builtin]; useE; closeS S.

Ltac kid IH :=
  match goal with
  | |- context [visit c ?cl ?x None] =>
      let E := fresh "E" in let t := fresh "t" in let x' := fresh "x'" in let y := fresh "y" in
      let Hx := fresh "Hx" in
      assert (Hx : ok_st cl x (snd (visit c cl x None))) by (apply IH; cbn; auto);
      destruct (visit c cl x None) as [[t x'] [y|]] eqn:E; cbn [snd] in Hx;
      [from_child Hx|clear Hx]
  end.

(* the node's own rule *)
Ltac rule :=
  match goal with
  | |- context [emit ?l ?r None] =>
      let R := fresh "R" in let k := fresh "k" in
      destruct r as [?|k] eqn:R; cbn [emit fail_at record snd fst];
      [exact I|destruct k; try exact I; cbn [ok_st stk StageTotality.stuck_in own_stuck]; useE; rewrite R;
               try match goal with H : is_array _ = true |- _ => rewrite H end; reflexivity]
  end.

Ltac go IH :=
  repeat first
  [ exact I
  | kid IH
  | rule
  | match goal with |- context [if negb (is_array ?t) then _ else _] => destruct (is_array t) eqn:?Harr; cbn [negb] end
  | match goal with |- context [if ?b then _ else _] => destruct b end
  | progress cbn [fail_at record snd fst] ].

Theorem stuck_is_flagged : forall e cols, ok_st cols e (snd (visit c cols e None)).
Proof.
  induction e as [e IH] using expr_ind2. rewrite Forall_forall in IH. intros cols.
  destruct e; cbn [children] in IH.
  - exact I.
  - cbn [visit]. rule.
  - exact I.
  - exact I.
  - exact I.
  - exact I.
  - exact I.
  - (* unary *) cbn [visit]. go IH.
  - (* binary *) cbn [visit]. go IH.
  - (* matches *) cbn [visit]. go IH.
  - (* property *) cbn [visit]. go IH.
  - (* index *) cbn [visit]. go IH.
  - (* slice *) destruct from as [f|], to as [u|]; cbn [opt_list app] in IH; cbn [visit]; go IH.
  - (* method *)
    rewrite visit_method.
    assert (HA : forall x, In x args -> ok_st cols x (snd (visit c cols x None))).
    { intros x Hx. apply IH. right. exact Hx. }
    assert (Hx : ok_st cols e (snd (visit c cols e None))) by (apply IH; left; reflexivity).
    destruct (visit c cols e None) as [[t x'] [y|]] eqn:E; cbn [snd] in Hx.
    + destruct (method_callee c t name) as [[fn m]|].
      * pose proof (check_func_sticky c cols fn m (aloc a) args (all_sticky args) y) as Es.
        destruct (check_func (vargs c cols) fn m (aloc a) args (Some y)) as [[t' args'] st2]. cbn [snd] in *. subst st2.
        revert Hx. apply stk_mono. intros S. cbn [StageTotality.stuck_in]. closeS S.
      * destruct nilsafe; cbn [fail_at record snd fst]; revert Hx; apply stk_mono; intros S;
          cbn [StageTotality.stuck_in]; closeS S.
    + destruct (method_callee c t name) as [[fn m]|].
      * pose proof (check_func_ok cols fn m (aloc a) args HA) as Hc.
        destruct (check_func (vargs c cols) fn m (aloc a) args None) as [[t' args'] st2]. cbn [snd] in *.
        revert Hc. apply stk_mono. intros S. cbn [StageTotality.stuck_in]. closeS S.
      * destruct nilsafe; exact I.
  - (* function *)
    rewrite visit_function. destruct (function_callee c name) as [[fn m]|].
    + pose proof (check_func_ok cols fn m (aloc a) args (fun x Hx => IH x Hx cols)) as Hc.
      destruct (check_func (vargs c cols) fn m (aloc a) args None) as [[t' args'] st2]. cbn [snd] in *.
      revert Hc. apply stk_mono. intros S. cbn [StageTotality.stuck_in]. closeS S.
    + destruct (negb (cc_strict c)); exact I.
  - (* builtin *)
    destruct b; destruct args as [|x [|cl rest]]; cbn [visit fail_at record snd fst]; try exact I;
      try (cbn [ok_st stk StageTotality.stuck_in own_stuck orb]; reflexivity); go IH.
  - (* closure *) cbn [visit]. go IH.
  - (* pointer *) cbn [visit]. rule.
  - (* cond *) cbn [visit]. go IH.
  - (* array *)
    rewrite visit_array. pose proof (vlist_ok cols es (fun x Hx => IH x Hx cols)) as Hl.
    destruct (vlist c cols es None) as [es' st1]. cbn [snd] in *.
    revert Hl. apply stk_mono. intros S. cbn [StageTotality.stuck_in]. closeS S.
  - (* map *)
    rewrite visit_map. pose proof (vlist_ok cols pairs (fun x Hx => IH x Hx cols)) as Hl.
    destruct (vlist c cols pairs None) as [es' st1]. cbn [snd] in *.
    revert Hl. apply stk_mono. intros S. cbn [StageTotality.stuck_in]. closeS S.
  - (* pair *) cbn [visit]. go IH.
Qed.
End Adequate.

(* ---- A.6 the checker has no panic path *)
Section NeverStuck.
Variable c : cconfig.
Hypothesis W : weights_usable.
Hypothesis Hcfg : cfg_ok c = true.

(* whatever error state the visitor starts from, it does not end in CStuck unless it started there *)
Theorem visit_never_stuck e : arity_ok e = true ->
  forall cols st l, snd (visit c cols e st) = Some (l, CStuck) -> st = Some (l, CStuck).
Proof.
  intros Ha cols st l H. destruct st as [y|].
  - rewrite (visit_sticky c e cols y) in H. exact H.
  - exfalso. pose proof (stuck_is_flagged c e cols) as F. rewrite H in F. cbn in F.
    rewrite (never_stuck_anywhere c W Hcfg e Ha cols) in F. discriminate.
Qed.

(* checker.Check: CStuck is not the reported error, and no node of the tree is a panic site behind
   an earlier error either *)
Theorem check_never_stuck e : arity_ok e = true ->
  (forall l, snd (check c e) <> Some (l, CStuck)) /\ (forall cols, stuck_in c cols e = false).
Proof.
  intros Ha. split; [|apply never_stuck_anywhere; assumption].
  intros l H. unfold check in H.
  pose proof (visit_never_stuck e Ha [] None l) as V.
  destruct (visit c [] e None) as [[t e'] st]. cbn [snd] in V.
  destruct (cc_expect c) as [k|]; [destruct (expect_ok k t)|]; cbn [snd] in H;
    try (specialize (V H); discriminate). discriminate.
Qed.
End NeverStuck.

(* the statement without carve-outs, and its three refutations: each witness is a candidate panic
   (or fatal error) of the real checker *)
Definition check_never_stuck_full_statement : Prop :=
  forall c e l, snd (check c e) <> Some (l, CStuck).

Module CkWit.
Definition cc0 : cconfig := mkCC [] None [] None false None.
Definition at1 (col : Z) : ann := at_loc (1%Z, col).

(* (a) a builtin node without the arguments its name indexes: `len()`, `all(xs)` built by a visitor *)
Definition len0 : expr := EBuiltin (at1 0) BiLen [].
Definition all1 : expr := EBuiltin (at1 0) BiAll [EArray (at1 4) []].
(* (b) the same node behind an ordinary error: [undefined, len()] under expr.Env(struct{}{}) *)
Definition cc_strict0 : cconfig := mkCC [] (Some []) [] None true None.
Definition hidden : expr := EArray (at1 0) [EIdent (at1 1) "undefined" false; EBuiltin (at1 12) BiLen []].
(* (c) type T struct{ *T }: x.Missing with x of type T *)
Definition te_cyc : tenv := [("T", mkStruct [mkField "T" (TPtr (TStruct "T")) true true] [] [])].
Definition cc_cyc : cconfig := mkCC te_cyc (Some [("x", mkTag (TStruct "T") false false)]) [] None true None.
Definition x_missing : expr := EProperty (at1 1) (EIdent (at1 0) "x" false) "Missing" false.
(* (d) an operator function that is not in the types table: refused by Config.Check before Check runs *)
Definition cc_badop : cconfig := mkCC [] (Some []) [("+", ["Nope"])] None true None.
Definition one_plus_two : expr := EBinary (at1 2) BAdd (EInt (at1 0) 1) (EInt (at1 4) 2).
End CkWit.

Theorem check_never_stuck_refuted_arity : cfg_ok CkWit.cc0 = true /\ arity_ok CkWit.len0 = false /\
  snd (check CkWit.cc0 CkWit.len0) = Some ((1, 0)%Z, CStuck) /\
  arity_ok CkWit.all1 = false /\ snd (check CkWit.cc0 CkWit.all1) = Some ((1, 0)%Z, CStuck).
Proof. vm_compute. repeat split; reflexivity. Qed.

Theorem check_never_stuck_refuted : ~ check_never_stuck_full_statement.
Proof. intros H. apply (H CkWit.cc0 CkWit.len0 (1, 0)%Z). vm_compute. reflexivity. Qed.

(* first error: unknown name; the panic site behind it is what `stuck_in` shows *)
Theorem hidden_stuck_refuted : cfg_ok CkWit.cc_strict0 = true /\ arity_ok CkWit.hidden = false /\
  snd (check CkWit.cc_strict0 CkWit.hidden) = Some ((1, 1)%Z, CUnknownName) /\
  stuck_in CkWit.cc_strict0 [] CkWit.hidden = true.
Proof. vm_compute. repeat split; reflexivity. Qed.

Theorem check_never_stuck_refuted_cyclic : arity_ok CkWit.x_missing = true /\ wf_tenv CkWit.te_cyc = true /\
  te_acyclic CkWit.te_cyc = false /\ ops_usable CkWit.cc_cyc = true /\
  snd (check CkWit.cc_cyc CkWit.x_missing) = Some ((1, 1)%Z, CStuck).
Proof. vm_compute. repeat split; reflexivity. Qed.

Theorem check_never_stuck_refuted_operator : arity_ok CkWit.one_plus_two = true /\ te_acyclic [] = true /\
  ops_usable CkWit.cc_badop = false /\
  snd (check CkWit.cc_badop CkWit.one_plus_two) = Some ((1, 2)%Z, CStuck).
Proof. vm_compute. repeat split; reflexivity. Qed.

(* ================================================================== Part B: operator patcher and optimizer *)
Require X.Walk.Walk X.Walk.WalkProofs X.Ops.Overload X.Ops.OverloadProofs X.Opt.Optimizer X.Opt.OptProofs.
Require X.Lex.Lexer X.Parse.Parser.
Module Ov := X.Ops.Overload.
Module Op := X.Opt.Optimizer.

(* compiler.PatchOperators after Config.Check accepted the configuration: for EVERY tree, side table
   of static types and Implements oracle the walk (over the traversal table REGENERATED from
   ast/visitor.go) finishes within esize e steps, no lookup panics (OverloadProofs.patch_is_map_tree) *)
Theorem patch_ops_total implements types ops tyof e :
  Ov.config_check types ops = true ->
  exists e', Ov.patch_ops implements types ops tyof (esize e) e = Ov.PDone e'.
Proof.
  intros H. eexists. apply X.Ops.OverloadProofs.patch_is_map_tree; [exact H|apply le_n].
Qed.

(* the operators table of the checker model (keyed by spelling) as the patcher model reads it *)
Definition ops_of (l : list (string * list string)) : Ov.optable :=
  map (fun e => (X.Parse.Parser.binop_of_string (fst e), snd e)) l.
Definition types_of (c : cconfig) : TypesTable.table := match cc_types c with Some tb => tb | None => [] end.

Lemma check_fn_usable types fn : Ov.verdict_ok (Ov.check_fn types fn) = true -> fn_usable types fn = true.
Proof.
  unfold Ov.check_fn, fn_usable, Ov.func_shape. destruct (tget fn types) as [tg|]; [|discriminate].
  destruct (Ov.is_nil_ty (tg_ty tg)); [discriminate|].
  destruct (under (tg_ty tg)); try discriminate.
  destruct (tg_method tg); destruct ins as [|a [|b [|d [|d' r]]]]; cbn; try discriminate;
    destruct outs as [|o [|o' r']]; cbn; try discriminate; reflexivity.
Qed.

(* Config.Check (operator part) establishes what the checker's lookup needs *)
Lemma config_check_ops_usable c : Ov.config_check (types_of c) (ops_of (cc_ops c)) = true -> ops_usable c = true.
Proof.
  unfold Ov.config_check, ops_usable, types_of, ops_of. rewrite forallb_forall. intros H.
  destruct (cc_types c) as [tb|]; apply forallb_forall; intros [k fns] Hin; cbn [snd].
  - apply forallb_forall. intros fn Hfn. apply check_fn_usable.
    specialize (H _ (in_map (fun e => (X.Parse.Parser.binop_of_string (fst e), snd e)) _ _ Hin)). cbn [snd] in H.
    rewrite forallb_forall in H. apply H. exact Hfn.
  - specialize (H _ (in_map (fun e => (X.Parse.Parser.binop_of_string (fst e), snd e)) _ _ Hin)). cbn [snd] in H.
    destruct fns as [|fn r]; [reflexivity|]. cbn in H. discriminate.
Qed.

(* optimizer.Optimize (five passes, the fold loop bounded by 1001 and the constExpr loop by 101 walks
   as in the code): a tree, or the error of a constant integer division / modulo by zero or of a
   failing ConstExpr call - the model has no other outcome *)
Theorem optimize_total fe env cn e :
  (exists e', Op.optimize fe env cn e = Op.OOk e') \/
  (exists l, Op.optimize fe env cn e = Op.OFail l /\
             (X.Opt.OptProofs.has_dz e = true \/ X.Opt.OptProofs.cx_fails fe env cn)).
Proof.
  destruct (Op.optimize fe env cn e) as [e'|l] eqn:E; [left; eauto|right].
  exists l. split; [reflexivity|]. exact (X.Opt.OptProofs.C02_only_div_zero_rejected fe env cn e l E).
Qed.

(* the bounds are the code's own (Bridge/BrC04.optimize_passes_expected ties the loop headers) *)
Lemma optimize_bounds : Z.of_nat Op.fold_bound = 1001%Z /\ Z.of_nat Op.const_expr_bound = 101%Z.
Proof. vm_compute. split; reflexivity. Qed.

(* ================================================================== Part C: the parser builds builtins with their arity *)
Module ParseArity.
Import X.Parse.Parser.
Local Open Scope list_scope.

(* the grammar table gives `len` one argument and the seven closure builtins two *)
Definition builtins_ok (g : grammar) : bool :=
  forallb (fun e => match builtin_of_string (fst e) with
                    | BiLen => (snd e =? 1)%Z
                    | BiUnknown _ => true
                    | _ => (snd e =? 2)%Z
                    end) (g_builtins g).

Definition we {A : Type} (r : pres A) (Q : A -> Prop) : Prop :=
  match r with POk a _ => Q a | _ => True end.

Lemma we_pbind {A B : Type} (r : pres A) (k : A -> list token -> pres B) Q :
  we r (fun a => forall ts', we (k a ts') Q) -> we (pbind r k) Q.
Proof. destruct r; cbn; auto. Qed.

Lemma we_next {A : Type} ts (k : list token -> pres A) Q : (forall ts1, we (k ts1) Q) -> we (next ts k) Q.
Proof. intros H. destruct ts as [|t [|t2 r]]; cbn; auto. Qed.

Lemma we_expect {A : Type} kd v ts (k : list token -> pres A) Q : (forall ts1, we (k ts1) Q) -> we (expect kd v ts k) Q.
Proof. intros H. unfold expect. destruct (tok_is (cur ts) kd [v]); [apply we_next; exact H|exact I]. Qed.

Lemma we_mono {A : Type} (r : pres A) (Q Q' : A -> Prop) : we r Q -> (forall a, Q a -> Q' a) -> we r Q'.
Proof. destruct r; cbn; auto. Qed.

Definition G (e : expr) : Prop := arity_ok e = true.
Definition GL (l : list expr) : Prop := forallb arity_ok l = true.

Lemma GL_snoc acc x : GL acc -> G x -> GL (acc ++ [x]).
Proof. unfold GL, G. intros H1 H2. rewrite forallb_app, H1. cbn. rewrite H2. reflexivity. Qed.

Lemma lookup_in {A : Type} s (l : list (string * A)) v : lookup s l = Some v -> In (s, v) l.
Proof.
  induction l as [|[k x] r IH]; cbn [lookup]; [discriminate|].
  destruct (String.eqb s k) eqn:E.
  - intros H. inversion H; subst. apply String.eqb_eq in E. subst. left. reflexivity.
  - intros H. right. apply IH. exact H.
Qed.

Section Body.
  Variable g : grammar.
  Variable o : oracles.
  Variable pe : Z -> nat -> list token -> pres expr.
  Variable LF : nat.
  Hypothesis Hg : builtins_ok g = true.
  Hypothesis Hpe : forall prec d ts, we (pe prec d ts) G.

  Ltac pe_step := apply we_pbind; eapply we_mono; [apply Hpe|]; cbn beta.

  Lemma args_loop_ok : forall lf d acc ts, GL acc -> we (args_loop pe lf d acc ts) GL.
  Proof.
    induction lf as [|lf IH]; intros d acc ts Ha; cbn [args_loop];
      (destruct (tok_is (cur ts) TkBracket [")"%string]); [exact Ha|]); [exact I|].
    assert (K : forall ts1, we (pbind (pe 0 d ts1) (fun node ts2 => args_loop pe lf d (acc ++ [node]) ts2)) GL).
    { intros ts1. pe_step. intros e He ts2. apply IH. apply GL_snoc; assumption. }
    destruct acc; [apply K|apply we_expect; exact K].
  Qed.

  Lemma parse_arguments_ok d ts : we (parse_arguments pe LF d ts) GL.
  Proof.
    unfold parse_arguments. apply we_expect. intros ts1. apply we_pbind.
    eapply we_mono; [apply args_loop_ok; reflexivity|]. cbn beta. intros args Ha ts2.
    apply we_expect. intros ts3. exact Ha.
  Qed.

  Lemma G_method a x n args ns : G x -> GL args -> G (EMethod a x n args ns).
  Proof. unfold G, GL. intros H1 H2. cbn [arity_ok arity_ok_node]. rewrite H1, H2. reflexivity. Qed.
  Lemma G_property a x n ns : G x -> G (EProperty a x n ns).
  Proof. unfold G. intros H1. cbn [arity_ok arity_ok_node]. rewrite H1. reflexivity. Qed.
  Lemma G_slice a x f t : G x -> match f with Some y => G y | None => True end ->
    match t with Some y => G y | None => True end -> G (ESlice a x f t).
  Proof.
    unfold G. intros H1 H2 H3. cbn [arity_ok arity_ok_node]. rewrite H1.
    destruct f, t; rewrite ?H2, ?H3; reflexivity.
  Qed.
  Lemma G_index a x i : G x -> G i -> G (EIndex a x i).
  Proof. unfold G. intros H1 H2. cbn [arity_ok arity_ok_node]. rewrite H1, H2. reflexivity. Qed.

  Lemma postfix_loop_ok : forall lf d ns node ts, G node -> we (postfix_loop pe LF lf d ns node ts) G.
  Proof.
    induction lf as [|lf IH]; intros d ns node ts Hn; cbn [postfix_loop];
      (destruct (is_kind (cur ts) TkOperator || is_kind (cur ts) TkBracket); [|exact Hn]);
      (destruct (val_is (cur ts) "." || val_is (cur ts) "?."); [|destruct (val_is (cur ts) "["); [|exact Hn]]);
      try exact I.
    - apply we_next. intros ts1. apply we_next. intros ts2.
      destruct (negb (is_kind (cur ts1) TkIdentifier) && (negb (is_kind (cur ts1) TkOperator) || negb (valid_identifier (tval (cur ts1))))); [exact I|].
      destruct (tok_is (cur ts2) TkBracket ["("%string]).
      + apply we_pbind. eapply we_mono; [apply parse_arguments_ok|]. cbn beta. intros args Ha ts3.
        apply IH. apply G_method; assumption.
      + apply IH. apply G_property; assumption.
    - apply we_next. intros ts1.
      destruct (tok_is (cur ts1) TkOperator [":"%string]).
      + apply we_next. intros ts2. destruct (negb (tok_is (cur ts2) TkBracket ["]"%string])).
        * pe_step. intros to Ht ts3. apply we_expect. intros ts4. apply IH. apply G_slice; cbn; auto.
        * apply we_expect. intros ts3. apply IH. apply G_slice; cbn; auto.
      + pe_step. intros from Hf ts2. destruct (tok_is (cur ts2) TkOperator [":"%string]).
        * apply we_next. intros ts3. destruct (negb (tok_is (cur ts3) TkBracket ["]"%string])).
          -- pe_step. intros to Ht ts4. apply we_expect. intros ts5. apply IH. apply G_slice; cbn; auto.
          -- apply we_expect. intros ts4. apply IH. apply G_slice; cbn; auto.
        * apply we_expect. intros ts3. apply IH. apply G_index; assumption.
  Qed.

  Lemma parse_closure_ok d ts : we (parse_closure pe d ts) G.
  Proof.
    unfold parse_closure. apply we_expect. intros ts1. pe_step. intros e He ts2.
    apply we_expect. intros ts3. unfold G in *. cbn [we arity_ok arity_ok_node]. rewrite He. reflexivity.
  Qed.

  Lemma array_loop_ok : forall lf d acc ts, GL acc -> we (array_loop pe lf d acc ts) GL.
  Proof.
    induction lf as [|lf IH]; intros d acc ts Ha; cbn [array_loop];
      (destruct (tok_is (cur ts) TkBracket ["]"%string]); [exact Ha|]); [exact I|].
    assert (K : forall ts1, we (pbind (pe 0 d ts1) (fun node ts2 => array_loop pe lf d (acc ++ [node]) ts2)) GL).
    { intros ts1. pe_step. intros e He ts2. apply IH. apply GL_snoc; assumption. }
    destruct acc; [apply K|]. apply we_expect. intros ts1.
    destruct (tok_is (cur ts1) TkBracket ["]"%string]); [exact Ha|apply K].
  Qed.

  Lemma parse_array_ok tk d ts : we (parse_array pe LF tk d ts) G.
  Proof.
    unfold parse_array. apply we_expect. intros ts1. apply we_pbind.
    eapply we_mono; [apply array_loop_ok; reflexivity|]. cbn beta. intros nodes Hn ts2.
    apply we_expect. intros ts3. unfold G, GL in *. cbn [we arity_ok arity_ok_node]. exact Hn.
  Qed.

  Lemma map_loop_ok : forall lf mloc d acc ts, GL acc -> we (map_loop pe lf mloc d acc ts) GL.
  Proof.
    induction lf as [|lf IH]; intros mloc d acc ts Ha; cbn [map_loop];
      (destruct (tok_is (cur ts) TkBracket ["}"%string]); [exact Ha|]); [exact I|].
    assert (AK : forall key ts2, G key ->
              we (expect TkOperator ":" ts2 (fun ts3 =>
                  pbind (pe 0 d ts3) (fun node ts4 => map_loop pe lf mloc d (acc ++ [EPair (at_loc mloc) key node]) ts4))) GL).
    { intros key ts2 Hk. apply we_expect. intros ts3. pe_step. intros e He ts4. apply IH. apply GL_snoc; [exact Ha|].
      unfold G in *. cbn [arity_ok arity_ok_node]. rewrite Hk, He. reflexivity. }
    assert (PAIR : forall ts1,
              we ((fun ts1 =>
                 let ktk := cur ts1 in
                 let after_key := fun key ts2 =>
                   expect TkOperator ":" ts2 (fun ts3 =>
                   pbind (pe 0 d ts3) (fun node ts4 => map_loop pe lf mloc d (acc ++ [EPair (at_loc mloc) key node]) ts4)) in
                 if is_kind ktk TkNumber || is_kind ktk TkString || is_kind ktk TkIdentifier then
                   next ts1 (fun ts2 => after_key (EStr (at_loc mloc) (tval ktk)) ts2)
                 else if tok_is ktk TkBracket ["("%string] then
                   pbind (pe 0 d ts1) after_key
                 else PErr (tloc ktk)) ts1) GL).
    { intros ts1. cbn beta zeta.
      destruct (is_kind (cur ts1) TkNumber || is_kind (cur ts1) TkString || is_kind (cur ts1) TkIdentifier).
      - apply we_next. intros ts2. apply AK. reflexivity.
      - destruct (tok_is (cur ts1) TkBracket ["("%string]); [|exact I].
        pe_step. intros key Hk ts2. apply AK. exact Hk. }
    destruct acc; [apply PAIR|]. apply we_expect. intros ts1.
    destruct (tok_is (cur ts1) TkBracket ["}"%string]); [exact Ha|].
    destruct (tok_is (cur ts1) TkOperator [","%string]); [exact I|apply PAIR].
  Qed.

  Lemma parse_map_ok tk d ts : we (parse_map pe LF tk d ts) G.
  Proof.
    unfold parse_map. apply we_expect. intros ts1. apply we_pbind.
    eapply we_mono; [apply map_loop_ok; reflexivity|]. cbn beta. intros ps Hp ts2.
    apply we_expect. intros ts3. unfold G, GL in *. cbn [we arity_ok arity_ok_node]. exact Hp.
  Qed.

  Lemma parse_identifier_expression_ok tk d ts : we (parse_identifier_expression g pe LF tk d ts) G.
  Proof.
    unfold parse_identifier_expression.
    destruct (tok_is (cur ts) TkBracket ["("%string]); [|reflexivity].
    destruct (lookup (tval tk) (g_builtins g)) as [arity|] eqn:L.
    - apply lookup_in in L. unfold builtins_ok in Hg. rewrite forallb_forall in Hg. specialize (Hg _ L). cbn [fst snd] in Hg.
      apply we_expect. intros ts1.
      destruct (arity =? 1)%Z eqn:E1.
      + pe_step. intros x Hx ts2. apply we_expect. intros ts3. unfold G in *. cbn [we arity_ok forallb]. rewrite Hx.
        apply Z.eqb_eq in E1. subst arity.
        destruct (builtin_of_string (tval tk)); try reflexivity; discriminate.
      + destruct (arity =? 2)%Z eqn:E2.
        * pe_step. intros x Hx ts2. apply we_expect. intros ts3. apply we_pbind.
          eapply we_mono; [apply parse_closure_ok|]. cbn beta. intros cl Hc ts4.
          apply we_expect. intros ts5. unfold G in *. cbn [we arity_ok forallb]. rewrite Hx, Hc.
          destruct (builtin_of_string (tval tk)); reflexivity.
        * apply we_expect. intros ts3. unfold G. cbn [we arity_ok forallb].
          destruct (builtin_of_string (tval tk)); try reflexivity; congruence.
    - apply we_pbind. eapply we_mono; [apply parse_arguments_ok|]. cbn beta. intros args Ha ts1.
      unfold G, GL in *. cbn [we arity_ok arity_ok_node]. exact Ha.
  Qed.

  Lemma parse_primary_expression_ok d ts : we (parse_primary_expression g o pe LF d ts) (fun xb => G (fst xb)).
  Proof.
    unfold parse_primary_expression.
    assert (BR : we (if tok_is (cur ts) TkBracket ["["%string]
                     then pbind (parse_array pe LF (cur ts) d ts) (fun node ts1 => POk (node, true) ts1)
                     else if tok_is (cur ts) TkBracket ["{"%string]
                          then pbind (parse_map pe LF (cur ts) d ts) (fun node ts1 => POk (node, true) ts1)
                          else PErr (tloc (cur ts))) (fun xb => G (fst xb))).
    { destruct (tok_is (cur ts) TkBracket ["["%string]).
      - apply we_pbind. eapply we_mono; [apply parse_array_ok|]. cbn beta. intros e He ts1. exact He.
      - destruct (tok_is (cur ts) TkBracket ["{"%string]); [|exact I].
        apply we_pbind. eapply we_mono; [apply parse_map_ok|]. cbn beta. intros e He ts1. exact He. }
    destruct (tkind_of (cur ts)); try exact BR.
    - apply we_next. intros ts1.
      destruct (val_is (cur ts) "true"); [reflexivity|].
      destruct (val_is (cur ts) "false"); [reflexivity|].
      destruct (val_is (cur ts) "nil"); [reflexivity|].
      apply we_pbind. eapply we_mono; [apply parse_identifier_expression_ok|]. cbn beta. intros e He ts2. exact He.
    - apply we_next. intros ts1. destruct (number_value (o_float o) (tval (cur ts))); [reflexivity|reflexivity|exact I].
    - apply we_next. intros ts1. reflexivity.
  Qed.

  Lemma parse_base_ok d ts : we (parse_base g o pe LF d ts) (fun xb => G (fst xb)).
  Proof.
    unfold parse_base.
    destruct (if is_kind (cur ts) TkOperator then lookup (tval (cur ts)) (g_unary g) else None) as [uprec|].
    - apply we_next. intros ts1. pe_step. intros e He ts2. unfold G in *. cbn [we fst arity_ok arity_ok_node]. rewrite He. reflexivity.
    - destruct (tok_is (cur ts) TkBracket ["("%string]).
      + apply we_next. intros ts1. pe_step. intros e He ts2. apply we_expect. intros ts3. exact He.
      + destruct d.
        * destruct (tok_is (cur ts) TkOperator ["#"%string] || tok_is (cur ts) TkOperator ["."%string]); [exact I|].
          apply parse_primary_expression_ok.
        * destruct (tok_is (cur ts) TkOperator ["#"%string] || tok_is (cur ts) TkOperator ["."%string]).
          -- destruct (tok_is (cur ts) TkOperator ["#"%string]); [apply we_next; intros ts1|]; reflexivity.
          -- apply parse_primary_expression_ok.
  Qed.

  Lemma parse_primary_ok d ts : we (parse_primary g o pe LF d ts) G.
  Proof.
    unfold parse_primary. apply we_pbind. eapply we_mono; [apply parse_base_ok|]. cbn beta.
    intros xb Hx ts1. destruct (snd xb); [apply postfix_loop_ok; exact Hx|exact Hx].
  Qed.

  Lemma binary_loop_ok : forall lf prec d left ts, G left -> we (binary_loop g o pe lf prec d left ts) G.
  Proof.
    induction lf as [|lf IH]; intros prec d left ts Hl; cbn [binary_loop];
      (destruct (is_kind (cur ts) TkOperator); [|exact Hl]);
      (destruct (lookup (tval (cur ts)) (g_binary g)) as [[oprec ra]|]; [|exact Hl]);
      (destruct (oprec >=? prec)%Z; [|exact Hl]); [exact I|].
    apply we_next. intros ts1. pe_step. intros right Hr ts2.
    assert (R : forall x, G x -> we (binary_loop g o pe lf prec d x ts2) G) by (intros x Hx; apply IH; exact Hx).
    assert (GM : forall re, G (EMatches (at_loc (tloc (cur ts))) re left right)).
    { intros re. unfold G in *. cbn [arity_ok arity_ok_node]. rewrite Hl, Hr. reflexivity. }
    destruct (val_is (cur ts) "matches").
    - destruct right; try (apply R; apply GM). destruct (o_regex o s); [apply R; apply GM|exact I].
    - apply R. unfold G in *. cbn [arity_ok arity_ok_node]. rewrite Hl, Hr. reflexivity.
  Qed.

  Lemma cond_loop_ok : forall lf d node ts, G node -> we (cond_loop pe lf d node ts) G.
  Proof.
    induction lf as [|lf IH]; intros d node ts Hn; cbn [cond_loop];
      (destruct (tok_is (cur ts) TkOperator ["?"%string]); [|exact Hn]); [exact I|].
    apply we_next. intros ts1. destruct (negb (tok_is (cur ts1) TkOperator [":"%string])).
    - pe_step. intros e1 H1 ts2. apply we_expect. intros ts3. pe_step. intros e2 H2 ts4.
      apply IH. unfold G in *. cbn [arity_ok arity_ok_node]. rewrite Hn, H1, H2. reflexivity.
    - apply we_next. intros ts2. pe_step. intros e2 H2 ts3.
      apply IH. unfold G in *. cbn [arity_ok arity_ok_node]. rewrite Hn, H2. reflexivity.
  Qed.

  Lemma expression_body_ok prec d ts : we (expression_body g o pe LF prec d ts) G.
  Proof.
    unfold expression_body. apply we_pbind. eapply we_mono; [apply parse_primary_ok|]. cbn beta. intros left Hl ts1.
    apply we_pbind. eapply we_mono; [apply binary_loop_ok; exact Hl|]. cbn beta. intros node Hn ts2.
    destruct (prec =? 0)%Z; [apply cond_loop_ok; exact Hn|exact Hn].
  Qed.
End Body.

Theorem parse_expr_arity g o : builtins_ok g = true -> forall n prec d ts, we (parse_expr g o n prec d ts) G.
Proof.
  intros Hg. induction n as [|n IH]; intros prec d ts; [exact I|].
  cbn [parse_expr]. apply expression_body_ok; [exact Hg|exact IH].
Qed.

(* every tree parser.Parse returns passes the arity test of the checker theorem *)
Theorem parse_arity_ok g o ts e : builtins_ok g = true -> parse g o ts = ROk e -> arity_ok e = true.
Proof.
  intros Hg. unfold parse, parse_with_fuel. destruct ts as [|t r]; [discriminate|].
  pose proof (parse_expr_arity g o Hg (S (List.length (t :: r))) 0%Z 0%nat (t :: r)) as H.
  destruct (parse_expr g o (S (List.length (t :: r))) 0 0 (t :: r)) as [e0 rest| |]; try discriminate.
  destruct (is_kind (cur rest) TkEOF); [|discriminate]. intros E. inversion E; subst. exact H.
Qed.
End ParseArity.

(* ================================================================== Part D: the pipeline on the models *)
Require Import X.Pipe.Pipeline X.Pipe.PipeProofs X.gen.GenPipeline X.Bridge.BrC04.
Require X.Ty.TyProofs X.BC.Compiler X.gen.GenGrammar.

(* ---- D.1 the annotation Check leaves and the rewriting of PatchOperators keep the arity test *)
Lemma arity_ok_set_ann e a : arity_ok (set_ann e a) = arity_ok e.
Proof. destruct e; reflexivity. Qed.

Lemma arity_ok_settle e t : arity_ok (settle e t) = arity_ok e.
Proof. apply arity_ok_set_ann. Qed.

Lemma arity_ok_set_ints : forall e t, arity_ok (set_ints e t) = arity_ok e.
Proof.
  induction e; intros t; try reflexivity.
  - destruct op; try reflexivity; cbn [set_ints arity_ok arity_ok_node]; rewrite IHe; reflexivity.
  - destruct op; try reflexivity; cbn [set_ints arity_ok arity_ok_node]; rewrite IHe1, IHe2; reflexivity.
Qed.

Section Annot.
Variable c : cconfig.

Definition keeps (x : expr) : Prop := forall cols st, arity_ok (snd (fst (visit c cols x st))) = arity_ok x.

Lemma vlist_keeps cols : forall es, (forall x, In x es -> keeps x) ->
  forall st, forallb arity_ok (fst (vlist c cols es st)) = forallb arity_ok es.
Proof.
  induction es as [|x r IH]; intros H st; cbn [vlist]; [reflexivity|].
  pose proof (H x (or_introl eq_refl) cols st) as Hx.
  destruct (visit c cols x st) as [[t x'] st1]. cbn [fst snd] in Hx.
  specialize (IH (fun z Hz => H z (or_intror Hz)) st1).
  destruct (vlist c cols r st1) as [r' st2]. cbn [fst] in *. cbn [forallb]. rewrite Hx, IH. reflexivity.
Qed.

Lemma vargs_keeps cols pt : forall args, (forall x, In x args -> keeps x) ->
  forall i st, forallb arity_ok (fst (fst (vargs c cols pt i args st))) = forallb arity_ok args.
Proof.
  induction args as [|x r IH]; intros H i st; cbn [vargs]; [reflexivity|].
  pose proof (H x (or_introl eq_refl) cols st) as Hx.
  destruct (visit c cols x st) as [[t x'] st1]. cbn [fst snd] in Hx.
  assert (Ha : arity_ok (fst (arg_rule x x' t (pt i))) = arity_ok x).
  { unfold arg_rule. destruct (is_arith x); ifs; cbn [fst]; rewrite ?arity_ok_set_ints; exact Hx. }
  destruct (arg_rule x x' t (pt i)) as [a2 [|]]; cbn [fst] in Ha.
  - specialize (IH (fun z Hz => H z (or_intror Hz)) (S i) st1).
    destruct (vargs c cols pt (S i) r st1) as [[r' st2] ok']. cbn [fst] in *. cbn [forallb]. rewrite Ha, IH. reflexivity.
  - cbn [fst forallb]. rewrite Ha. reflexivity.
Qed.

Lemma check_func_keeps cols fn m l args st : (forall x, In x args -> keeps x) ->
  forallb arity_ok (snd (fst (check_func (vargs c cols) fn m l args st))) = forallb arity_ok args.
Proof.
  intros H. unfold check_func. destruct fn; try reflexivity.
  destruct outs as [|o [|o2 outs]]; try reflexivity.
  destruct (arity_rule ins variadic m (List.length args)); [reflexivity|].
  pose proof (vargs_keeps cols (param_ty ins variadic m) args H 0%nat st) as Hv.
  destruct (vargs c cols (param_ty ins variadic m) 0 args st) as [[args' st'] ok]. cbn [fst snd] in *.
  destruct ok; exact Hv.
Qed.

Ltac pkid IH :=
  match goal with
  | |- context [visit c ?cl ?x ?st] =>
      let H := fresh "Hk" in
      assert (H : arity_ok (snd (fst (visit c cl x st))) = arity_ok x) by (apply IH; cbn; auto);
      destruct (visit c cl x st) as [[? ?] ?]; cbn [fst snd] in H
  end.

Ltac pgo IH :=
  repeat first
  [ pkid IH
  | match goal with |- context [emit ?l ?r ?st] => destruct (emit l r st) as [? ?] end
  | match goal with |- context [if ?b then _ else _] => destruct b end
  | progress cbn [fail_at fst snd] ];
  rewrite ?arity_ok_settle; cbn [arity_ok arity_ok_node forallb];
  repeat match goal with H : arity_ok _ = arity_ok _ |- _ => rewrite H; clear H end; reflexivity.

Theorem visit_keeps_arity : forall e, keeps e.
Proof.
  induction e as [e IH] using expr_ind2. rewrite Forall_forall in IH. intros cols st.
  destruct e; cbn [children] in IH.
  all: try (cbn [visit]; pgo IH).
  - (* slice *) destruct from as [f|], to as [u|]; cbn [opt_list app] in IH; cbn [visit]; pgo IH.
  - (* method *)
    rewrite visit_method. pkid IH. destruct (method_callee c t name) as [[fn m]|].
    + pose proof (check_func_keeps cols fn m (aloc a) args c0 (fun x Hx => IH x (or_intror Hx))) as Hc.
      destruct (check_func (vargs c cols) fn m (aloc a) args c0) as [[t' args'] st2]. cbn [fst snd] in *.
      rewrite arity_ok_settle. cbn [arity_ok arity_ok_node]. rewrite Hk, Hc. reflexivity.
    + destruct nilsafe; cbn [fail_at fst snd]; rewrite arity_ok_settle; cbn [arity_ok arity_ok_node]; rewrite Hk; reflexivity.
  - (* function *)
    rewrite visit_function. destruct (function_callee c name) as [[fn m]|].
    + pose proof (check_func_keeps cols fn m (aloc a) args st IH) as Hc.
      destruct (check_func (vargs c cols) fn m (aloc a) args st) as [[t' args'] st2]. cbn [fst snd] in *.
      rewrite arity_ok_settle. cbn [arity_ok arity_ok_node]. exact Hc.
    + destruct (negb (cc_strict c)); cbn [fail_at fst snd]; rewrite arity_ok_settle; reflexivity.
  - (* builtin *)
    destruct b; destruct args as [|x [|cl rest]]; cbn [visit]; pgo IH.
  - (* array *)
    rewrite visit_array. pose proof (vlist_keeps cols es IH st) as Hl.
    destruct (vlist c cols es st) as [es' st1]. cbn [fst snd] in *. rewrite arity_ok_settle. exact Hl.
  - (* map *)
    rewrite visit_map. pose proof (vlist_keeps cols pairs IH st) as Hl.
    destruct (vlist c cols pairs st) as [es' st1]. cbn [fst snd] in *. rewrite arity_ok_settle. exact Hl.
Qed.

Lemma check_keeps_arity e : arity_ok (snd (fst (check c e))) = arity_ok e.
Proof.
  unfold check. pose proof (visit_keeps_arity e [] None) as H.
  destruct (visit c [] e None) as [[t e'] st]. cbn [fst snd] in H.
  destruct (cc_expect c) as [k|]; [destruct (expect_ok k t)|]; exact H.
Qed.
End Annot.

Module Wk := X.Walk.Walk.

Lemma arity_ok_node_set_children e cs : List.length cs = List.length (children e) ->
  arity_ok_node (Wk.set_children e cs) = arity_ok_node e.
Proof.
  destruct e; try reflexivity. cbn [Wk.set_children children arity_ok_node]. intros H.
  destruct b; destruct cs as [|c1 [|c2 cs]]; destruct args as [|a1 [|a2 args]]; cbn in H; try discriminate; reflexivity.
Qed.

Lemma arity_ok_rewrite_one implements types ops tyof x :
  arity_ok (Ov.rewrite_one implements types ops tyof x) = arity_ok x.
Proof.
  destruct x; try reflexivity. cbn [Ov.rewrite_one].
  destruct (Ov.overload_at implements types ops tyof op x1 x2); try reflexivity.
  unfold Wk.patch. rewrite arity_ok_set_ann. cbn [arity_ok arity_ok_node forallb]. rewrite andb_true_r. reflexivity.
Qed.

Lemma arity_ok_map_tree_rewrite implements types ops tyof : forall e,
  arity_ok e = true -> arity_ok (Wk.map_tree (Ov.rewrite_one implements types ops tyof) e) = true.
Proof.
  induction e as [e IH] using X.Walk.WalkProofs.expr_children_ind. intros Ha.
  rewrite X.Walk.WalkProofs.map_tree_eq, arity_ok_rewrite_one, arity_ok_eq.
  rewrite arity_ok_eq in Ha. apply andb_prop in Ha. destruct Ha as [Hn Hc].
  rewrite arity_ok_node_set_children by apply map_length. rewrite Hn. cbn [andb].
  rewrite X.Walk.WalkProofs.children_set_children by apply map_length.
  rewrite forallb_forall in Hc. apply forallb_forall. intros y Hy. apply in_map_iff in Hy.
  destruct Hy as (x & <- & Hx). apply IH; [exact Hx|apply Hc; exact Hx].
Qed.

(* ---- D.2 the stages *)
Lemma emb_ok_fuel_ok te : forall n t, emb_ok te n t = true -> fuel_ok te n t = true.
Proof.
  induction n as [|n IH]; intros t H; cbn [emb_ok fuel_ok] in *.
  - destruct (dereference t) eqn:D; try reflexivity. cbn [under] in H. discriminate.
  - destruct (dereference t) eqn:D; try reflexivity. cbn [under] in H.
    rewrite forallb_forall in H. apply forallb_forall. intros f Hf. specialize (H f Hf).
    destruct (fd_anon f); [apply IH; exact H|reflexivity].
Qed.

Section Composite.
  (* library oracles, the environment functions (arbitrary, may panic: fn_run .. = Fail EUser), the
     memory budget, the struct declarations of the host program, Go's map iteration order,
     reflect.Type.Implements, and the side table of static types a Check leaves on the nodes (the
     tree of Syn/Ast.v keeps only the kinds): ALL universally quantified *)
  Variables uni_letter uni_digit uni_space : Z -> bool.
  Variable gr : X.Parse.Parser.grammar.
  Variable orc : X.Parse.Parser.oracles.
  Variable fe : fenv.
  Variable limit : Z.
  Variable te : tenv.
  Variable perm : TypesTable.table -> TypesTable.table.
  Variable implements : ty -> ty -> bool.
  Variable tyof : cconfig -> expr -> loc -> ty.

  (* a user visitor (expr.Patch): ast.Walk(&tree.Node, v) as an arbitrary function on trees *)
  Definition xvis : Type := expr -> out expr.

  Record xcfg := mkXcfg {
    x_cc : cconfig;                   (* Types, Operators, Expect, Strict, DefaultType (+ the declarations) *)
    x_env : option value;             (* Config.Env *)
    x_consts : list string;           (* keys of Config.ConstExprFns *)
    x_optimize : bool;
    x_visitors : list xvis
  }.

  Definition xcfg0 : xcfg := mkXcfg (mkCC te None [] None false None) None [] true [].

  Inductive xopt :=
  | OEnv (env : envty) (v : value)                  (* expr.Env(v), env = what reflect tells about v *)
  | OAllowUndefined
  | OOperator (op : string) (fns : list string)
  | OConstExpr (fn : string)
  | OExpect (k : rkind)                             (* AsBool / AsInt64 / AsFloat64 *)
  | OOptimize (b : bool)
  | OPatch (v : xvis).

  Fixpoint ops_add (op : string) (fns : list string) (l : list (string * list string)) : list (string * list string) :=
    match l with
    | [] => [(op, fns)]
    | (k, old) :: r => if String.eqb k op then (k, (old ++ fns)%list) :: r else (k, old) :: ops_add op fns r
    end.

  Definition set_cc (c : xcfg) (cc : cconfig) : xcfg := mkXcfg cc (x_env c) (x_consts c) (x_optimize c) (x_visitors c).

  (* conf.CreateTypesTable calls MapKeys on the Value of a POINTER to a map (finding
     C04-option-env-pointer-to-map) *)
  Definition env_panics (env : envty) : bool :=
    match env with TypesTable.EMap (TPtr _) _ => true | _ => false end.

  Definition default_after (env : envty) (old : option ty) : option ty :=
    if is_map_env env then old
    else match env with
         | TypesTable.EMap mt _ => match under mt with TMap _ e => Some e | _ => old end
         | EStruct _ => old
         end.

  Definition x_opt_apply (o : xopt) (c : xcfg) : out xcfg :=
    let cc := x_cc c in
    match o with
    | OEnv env v =>
        if env_panics env then PPanic
        else match create_types_table (cc_te cc) perm env with
             | None => PPanic                       (* FieldsFromStruct on `type T struct{ *T }`: stack overflow *)
             | Some tb =>
                 POk (mkXcfg (mkCC (cc_te cc) (Some tb) (cc_ops cc) (cc_expect cc) true (default_after env (cc_default cc)))
                             (Some v) (x_consts c) (x_optimize c) (x_visitors c))
             end
    | OAllowUndefined =>
        POk (set_cc c (mkCC (cc_te cc) (cc_types cc) (cc_ops cc) (cc_expect cc) false (cc_default cc)))
    | OOperator op fns =>
        POk (set_cc c (mkCC (cc_te cc) (cc_types cc) (ops_add op fns (cc_ops cc)) (cc_expect cc) (cc_strict cc) (cc_default cc)))
    | OConstExpr fn =>
        match x_env c with
        | None => PErr                              (* "no environment for const expression" *)
        | Some v => match fetch_fn fe v fn with     (* vm.FetchFn under the recover of Config.ConstExpr *)
                    | Ok _ => POk (mkXcfg cc (x_env c) (x_consts c ++ [fn])%list (x_optimize c) (x_visitors c))
                    | Fail _ => PPanic
                    end
        end
    | OExpect k =>
        POk (set_cc c (mkCC (cc_te cc) (cc_types cc) (cc_ops cc) (Some k) (cc_strict cc) (cc_default cc)))
    | OOptimize b => POk (mkXcfg cc (x_env c) (x_consts c) b (x_visitors c))
    | OPatch v => POk (mkXcfg cc (x_env c) (x_consts c) (x_optimize c) (x_visitors c ++ [v])%list)
    end.

  (* Config.Check, operator part (Ops/Overload.v) *)
  Definition x_checked (c : xcfg) : bool := Ov.config_check (types_of (x_cc c)) (ops_of (cc_ops (x_cc c))).
  Definition x_config_check (c : xcfg) : out unit := if x_checked c then POk tt else PErr.

  (* checker.Check: CStuck - a panic of the real checker - is the panic outcome *)
  Definition x_check (c : xcfg) (t : expr) : out expr :=
    match snd (check (x_cc c) t) with
    | None => POk (snd (fst (check (x_cc c) t)))
    | Some (_, CStuck) => PPanic
    | Some _ => PErr
    end.
  Definition x_check_partial (c : xcfg) (t : expr) : expr := snd (fst (check (x_cc c) t)).

  (* compiler.PatchOperators; the walk has the fuel esize t, running out of it is a panic outcome *)
  Definition x_patch (c : xcfg) (t : expr) : out expr :=
    match Ov.patch_ops implements (types_of (x_cc c)) (ops_of (cc_ops (x_cc c))) (tyof (x_cc c) t) (esize t) t with
    | Ov.PDone t' => POk t'
    | Ov.PPanic => PPanic
    | Ov.PFuel => PPanic
    end.

  Definition of_ores (r : Op.ores) : out expr := match r with Op.OOk e => POk e | Op.OFail _ => PErr end.
  Definition x_cfg_env (c : xcfg) : value := match x_env c with Some v => v | None => VNil end.
  Definition x_envfn (env : value) (name : string) (vs : list value) : out value :=
    match Op.const_call fe env name vs with Ok v => POk v | Fail _ => PPanic end.

  Definition x_stages : stages :=
    mkStages xopt xcfg (list Z) (list token) expr xvis expr value value
      xcfg0 xcfg0
      (fun o => match o with OConstExpr _ => true | _ => false end)
      x_opt_apply x_config_check
      (m_lex uni_letter uni_digit uni_space) (m_parse gr orc)
      x_check x_check_partial x_visitors x_patch
      (fun v t => v t)
      x_optimize (fun c => match x_consts c with [] => false | _ :: _ => true end)
      (fun t => POk (Op.pass_in_array t))
      (fun t => of_ores (Op.pass_fold fe t))
      (fun t => POk (Op.pass_in_range t))
      (fun t => POk (Op.pass_const_range t))
      x_envfn x_cfg_env
      (fun _ c t => of_ores (Op.pass_const_expr fe (x_cfg_env c) (x_consts c) t))
      (fun _ t => m_compile t)
      (fun _ p env => m_run fe limit p env)
      (fun _ => false).
End Composite.

(* ---- D.3 Compile / Eval / Run on the models never panic *)
Section CompositeProofs.
  Variables uni_letter uni_digit uni_space : Z -> bool.
  Variable gr : X.Parse.Parser.grammar.
  Variable orc : X.Parse.Parser.oracles.
  Variable fe : fenv.
  Variable limit : Z.
  Variable te : tenv.
  Variable perm : TypesTable.table -> TypesTable.table.
  Variable implements : ty -> ty -> bool.
  Variable tyof : cconfig -> expr -> loc -> ty.
  Notation XS := (x_stages uni_letter uni_digit uni_space gr orc fe limit te perm implements tyof).
  Notation x_opt_apply := (x_opt_apply fe perm).
  Notation x_patch := (x_patch implements tyof).

  (* the carve-outs: tables usable, acyclic declarations, the grammar table gives the builtins their arity *)
  Hypothesis W : weights_usable.
  Hypothesis Hte : te_acyclic te = true.
  Hypothesis Hgr : ParseArity.builtins_ok gr = true.

  (* a well-behaved user visitor returns (no panic), and from a tree whose builtin nodes carry their
     arguments it makes such a tree again *)
  Definition vis_ok (v : xvis) : Prop :=
    forall t, arity_ok t = true ->
      match v t with POk t' => arity_ok t' = true | PErr => True | PPanic => False end.
  (* options: no pointer-to-map environment (finding C04-option-env-pointer-to-map), well-behaved visitors *)
  Definition opt_ok (o : xopt) : Prop :=
    match o with OEnv env _ => env_panics env = false | OPatch v => vis_ok v | _ => True end.

  Definition CI (c : xcfg) : Prop := cc_te (x_cc c) = te /\ Forall vis_ok (x_visitors c).
  Definition CK (c : xcfg) : Prop := x_checked c = true.

  Lemma create_tt_total env : create_types_table te perm env <> None.
  Proof.
    unfold create_types_table. destruct env as [t|mt entries].
    - destruct (elem1 t); try discriminate.
      pose proof (proj2 (X.Ty.TyProofs.ffs_defined te perm (fuel0 te) (TStruct name))
                    (emb_ok_fuel_ok te _ _ (te_acyclic_emb_ok te (TStruct name) Hte))) as [tb E].
      rewrite E. discriminate.
    - destruct (under (elem1 mt)); try discriminate. destruct t1; discriminate.
  Qed.

  Lemma opt_apply_ok o c : opt_ok o -> CI c ->
    ((match o with OConstExpr _ => false | _ => true end) = true -> x_opt_apply o c <> PPanic) /\
    (forall c', x_opt_apply o c = POk c' -> CI c').
  Proof.
    intros Ho [Ht Hv]. destruct o; cbn [opt_ok] in Ho; cbn [x_opt_apply StageTotality.x_opt_apply].
    - rewrite Ho, Ht. pose proof (create_tt_total env) as Hc.
      destruct (create_types_table te perm env) as [tb|]; [|contradiction].
      split; [discriminate|]. intros c' E. inversion E; subst c'. split; [reflexivity|exact Hv].
    - split; [discriminate|]. intros c' E. inversion E; subst c'. split; [exact Ht|exact Hv].
    - split; [discriminate|]. intros c' E. inversion E; subst c'. split; [exact Ht|exact Hv].
    - split; [discriminate|]. intros c' E. destruct (x_env c); [|discriminate].
      destruct (fetch_fn fe v fn); [|discriminate]. inversion E; subst c'. split; [exact Ht|exact Hv].
    - split; [discriminate|]. intros c' E. inversion E; subst c'. split; [exact Ht|exact Hv].
    - split; [discriminate|]. intros c' E. inversion E; subst c'. split; [exact Ht|exact Hv].
    - split; [discriminate|]. intros c' E. inversion E; subst c'. split; [exact Ht|].
      cbn [x_visitors]. apply Forall_app. split; [exact Hv|constructor; [exact Ho|constructor]].
  Qed.

  Lemma of_ores_np r : of_ores r <> PPanic.
  Proof. destruct r; discriminate. Qed.

  Tactic Notation "case_out" ident(x) ident(H) :=
    match goal with
    | |- context [obind ?G _] => destruct G as [x| |] eqn:H; cbn [obind]
    | |- context [match ?G with POk _ => _ | PErr => _ | PPanic => _ end] => destruct G as [x| |] eqn:H
    end.

  Lemma cfg_ok_of c : CI c -> CK c -> cfg_ok (x_cc c) = true.
  Proof.
    intros [Ht _] Hk. unfold cfg_ok. rewrite Ht, Hte. cbn [andb].
    apply config_check_ops_usable. exact Hk.
  Qed.

  Section Api.
  Variable rt : rtable.
  Variable a : api.
  Hypothesis Gopt : guarded rt a StConstExprOpt = true.
  Hypothesis Gcomp : guarded rt a StCompile = true.
  Hypothesis Gvm : guarded rt a StVMRun = true.

  Lemma x_apply_options_ok : forall os c failed, Forall opt_ok os -> CI c ->
    apply_options rt XS a os c failed <> PPanic /\
    (forall cf, apply_options rt XS a os c failed = POk cf -> CI (fst cf)).
  Proof.
    induction os as [|o r IH]; intros c failed Ho Hc; cbn [apply_options].
    - split; [discriminate|]. intros cf E. inversion E; subst cf. exact Hc.
    - inversion Ho as [|o' r' Ho1 Ho2]; subst. destruct (opt_apply_ok o c Ho1 Hc) as [Hnp Hpost].
      cbn [s_opt_is_constexpr s_opt_apply x_stages].
      match goal with
      | |- context [match ?G with POk _ => _ | PErr => _ | PPanic => _ end] =>
          assert (Hg : G <> PPanic);
          [unfold g; apply guard_no_panic; destruct o; try (right; apply Hnp; reflexivity); left; exact Gopt|
           destruct G as [c'| |] eqn:E; [| |contradiction]]
      end.
      + apply IH; [exact Ho2|]. apply Hpost. unfold g in E. apply guard_ok_inv in E. exact E.
      + apply IH; [exact Ho2|exact Hc].
  Qed.

  Lemma x_run_visitors_ok h : forall vs t, Forall vis_ok vs -> arity_ok t = true ->
    run_visitors rt XS a h vs t <> PPanic /\
    (forall t', run_visitors rt XS a h vs t = POk t' -> arity_ok t' = true).
  Proof.
    induction vs as [|v r IH]; intros t Hv Ht; cbn [run_visitors].
    - split; [discriminate|]. intros t' E. inversion E; subst. exact Ht.
    - inversion Hv as [|v' r' Hv1 Hv2]; subst. cbn [s_visit x_stages]. pose proof (Hv1 t Ht) as Hvt.
      case_out t1 E.
      + apply guard_ok_inv in E. rewrite E in Hvt. apply IH; assumption.
      + split; [discriminate|discriminate].
      + exfalso. revert E. apply guard_no_panic. right. intros E. rewrite E in Hvt. exact Hvt.
  Qed.

  Lemma x_optimize_np c t : optimize rt XS a c t <> PPanic.
  Proof.
    unfold optimize. cbn [s_opt_inarray s_opt_fold s_has_constexpr s_opt_constexpr s_opt_inrange s_opt_constrange x_stages].
    unfold g.
    apply obind_no_panic; [apply guard_no_panic; right; discriminate|intros t1 _].
    apply obind_no_panic; [apply guard_no_panic; right; apply of_ores_np|intros t2 _].
    apply obind_no_panic.
    { destruct (x_consts c); [discriminate|]. apply guard_no_panic. right. apply of_ores_np. }
    intros t3 _.
    apply obind_no_panic; [apply guard_no_panic; right; discriminate|intros t4 _].
    apply guard_no_panic. right. discriminate.
  Qed.

  (* the state between the calls *)
  Definition PChk (s : pst XS) : Prop := CI (p_cfg s) /\ CK (p_cfg s).
  Definition PTree (s : pst XS) : Prop := PChk s /\ exists t, p_tree s = Some t /\ arity_ok t = true.
  Definition HasTree (s : pst XS) : Prop := exists t, p_tree s = Some t.
  Definition HasProg (s : pst XS) : Prop := exists p, p_prog s = Some p.

  Variables (opts : list xopt) (src : list Z) (env : value).
  Notation ex := (exec rt XS a opts src env).

  Lemma st_options (s : pst XS) : Forall opt_ok opts -> CI (p_cfg s) ->
    ex COptions s <> PPanic /\ (forall s', ex COptions s = POk s' -> CI (p_cfg s')).
  Proof.
    intros Ho Hc. cbn [exec]. destruct (x_apply_options_ok opts (p_cfg s) (p_cfgerr s) Ho Hc) as [H1 H2].
    destruct (apply_options rt XS a opts (p_cfg s) (p_cfgerr s)) as [cf| |]; cbn [obind]; [|split; discriminate|contradiction].
    split; [discriminate|]. intros s' E. inversion E; subst s'. cbn [p_cfg]. apply H2. reflexivity.
  Qed.

  Lemma st_config_check (s : pst XS) : CI (p_cfg s) ->
    ex CConfigCheck s <> PPanic /\ (forall s', ex CConfigCheck s = POk s' -> PChk s').
  Proof.
    intros Hc. cbn [exec]. cbn [s_config_check x_stages]. unfold g, x_config_check.
    destruct (x_checked (p_cfg s)) eqn:K.
    - case_out u E.
      + split; [destruct (p_cfgerr s); discriminate|]. intros s' E'. destruct (p_cfgerr s); [discriminate|].
        inversion E'; subst s'. split; [exact Hc|exact K].
      + split; discriminate.
      + exfalso. revert E. apply guard_no_panic. right. discriminate.
    - case_out u E.
      + apply guard_ok_inv in E. discriminate.
      + split; discriminate.
      + exfalso. revert E. apply guard_no_panic. right. discriminate.
  Qed.

  Lemma st_parse (s : pst XS) :
    ex CParse s <> PPanic /\
    (forall s', ex CParse s = POk s' -> p_cfg s' = p_cfg s /\ p_prog s' = p_prog s /\ exists t, p_tree s' = Some t /\ arity_ok t = true).
  Proof.
    cbn [exec]. cbn [s_lex s_parse x_stages]. unfold g.
    case_out ts E.
    - apply guard_ok_inv in E.
      case_out t E2.
      + apply guard_ok_inv in E2. split; [discriminate|]. intros s' E'. inversion E'; subst s'. cbn.
        split; [reflexivity|]. split; [reflexivity|]. exists t. split; [reflexivity|].
        unfold m_parse in E2. destruct ts as [|tk r]; [discriminate|].
        destruct (X.Parse.Parser.parse gr orc (tk :: r)) as [e| |] eqn:P; try discriminate.
        inversion E2; subst. exact (ParseArity.parse_arity_ok gr orc _ _ Hgr P).
      + split; discriminate.
      + exfalso. revert E2. apply guard_no_panic. right. exact (m_parse_total _ _ _ gr orc src ts E).
    - split; discriminate.
    - exfalso. revert E. apply guard_no_panic. right. apply m_lex_total.
  Qed.

  Lemma x_check_np c t : CI c -> CK c -> arity_ok t = true -> x_check c t <> PPanic.
  Proof.
    intros Hc Hk Ha. unfold x_check.
    destruct (check_never_stuck (x_cc c) W (cfg_ok_of c Hc Hk) t Ha) as [Hn _].
    destruct (snd (check (x_cc c) t)) as [[l k]|]; [|discriminate].
    destruct k; try discriminate. exfalso. exact (Hn l eq_refl).
  Qed.

  Lemma x_check_post c t t' : x_check c t = POk t' -> arity_ok t' = arity_ok t.
  Proof.
    unfold x_check. destruct (snd (check (x_cc c) t)) as [[l k]|].
    - destruct k; discriminate.
    - intros E. inversion E; subst. apply check_keeps_arity.
  Qed.

  Lemma PTree_with (s : pst XS) t : PChk s -> arity_ok t = true -> PTree (with_tree XS s t).
  Proof. intros H Ht. split; [exact H|]. exists t. split; [reflexivity|exact Ht]. Qed.

  Lemma st_check tol (s : pst XS) : PTree s -> ex (CCheck tol) s <> PPanic /\ (forall s', ex (CCheck tol) s = POk s' -> PTree s').
  Proof.
    intros [[Hc Hk] (t & Et & Ha)]. cbn [exec]. rewrite Et. cbn [s_check s_check_partial s_visitors x_stages]. unfold g.
    pose proof (x_check_np (p_cfg s) t Hc Hk Ha) as Hnp.
    case_out t' E.
    - apply guard_ok_inv in E. split; [discriminate|]. intros s' E'. inversion E'; subst s'.
      apply PTree_with; [split; assumption|]. rewrite (x_check_post _ _ _ E). exact Ha.
    - match goal with |- context [if ?b then _ else _] => destruct b end.
      + split; [discriminate|]. intros s' E'. inversion E'; subst s'.
        apply PTree_with; [split; assumption|]. unfold x_check_partial. rewrite check_keeps_arity. exact Ha.
      + split; discriminate.
    - exfalso. revert E. apply guard_no_panic. right. exact Hnp.
  Qed.

  Lemma x_patch_spec c t : CK c -> arity_ok t = true -> exists t', x_patch c t = POk t' /\ arity_ok t' = true.
  Proof.
    intros Hk Ha. unfold x_patch, StageTotality.x_patch.
    rewrite (X.Ops.OverloadProofs.patch_is_map_tree implements (types_of (x_cc c)) (ops_of (cc_ops (x_cc c)))
               (tyof (x_cc c) t) Hk t (esize t) (le_n _)).
    eexists. split; [reflexivity|]. apply arity_ok_map_tree_rewrite. exact Ha.
  Qed.

  Lemma st_patch (s : pst XS) : PTree s -> ex CPatchOperators s <> PPanic /\ (forall s', ex CPatchOperators s = POk s' -> PTree s').
  Proof.
    intros [[Hc Hk] (t & Et & Ha)]. cbn [exec]. unfold on_tree. rewrite Et. cbn [s_patch_operators x_stages]. unfold g.
    destruct (x_patch_spec (p_cfg s) t Hk Ha) as (t' & E & Ha'). rewrite E.
    case_out t1 E1.
    - apply guard_ok_inv in E1. inversion E1; subst t1. split; [discriminate|]. intros s' E'. inversion E'; subst s'.
      apply PTree_with; [split; assumption|exact Ha'].
    - split; discriminate.
    - exfalso. revert E1. apply guard_no_panic. right. discriminate.
  Qed.

  Lemma st_visitors h (s : pst XS) : PTree s -> ex (CVisitors h) s <> PPanic /\ (forall s', ex (CVisitors h) s = POk s' -> PTree s').
  Proof.
    intros [[Hc Hk] (t & Et & Ha)]. cbn [exec]. unfold on_tree. rewrite Et. cbn [s_visitors x_stages].
    destruct (x_run_visitors_ok h (x_visitors (p_cfg s)) t (proj2 Hc) Ha) as [H1 H2].
    destruct (run_visitors rt XS a h (x_visitors (p_cfg s)) t) as [t'| |]; cbn [obind]; [|split; discriminate|contradiction].
    split; [discriminate|]. intros s' E'. inversion E'; subst s'. apply PTree_with; [split; assumption|apply H2; reflexivity].
  Qed.

  Lemma st_optimize (s : pst XS) : HasTree s -> ex COptimize s <> PPanic /\ (forall s', ex COptimize s = POk s' -> HasTree s').
  Proof.
    intros (t & Et). cbn [exec]. cbn [s_optimize_on x_stages]. destruct (x_optimize (p_cfg s)).
    - unfold on_tree. rewrite Et. pose proof (x_optimize_np (p_cfg s) t) as Hnp.
      destruct (optimize rt XS a (p_cfg s) t) as [t'| |]; cbn [obind]; [|split; discriminate|contradiction].
      split; [discriminate|]. intros s' E'. inversion E'; subst s'. exists t'. reflexivity.
    - split; [discriminate|]. intros s' E'. inversion E'; subst s'. exists t. exact Et.
  Qed.

  Lemma st_compile (s : pst XS) : HasTree s -> ex CCompile s <> PPanic /\ (forall s', ex CCompile s = POk s' -> HasProg s').
  Proof.
    intros (t & Et). cbn [exec]. rewrite Et. cbn [s_compile x_stages]. unfold g. rewrite Gcomp.
    case_out p E.
    - split; [discriminate|]. intros s' E'. inversion E'; subst s'. exists p. reflexivity.
    - split; discriminate.
    - unfold guard in E. destruct (m_compile t); discriminate.
  Qed.

  Lemma st_run (s : pst XS) : HasProg s -> ex CRun s <> PPanic.
  Proof.
    intros (p & Ep). cbn [exec]. rewrite Ep. cbn [s_vm_loop s_envfn x_stages]. unfold g. rewrite Gvm.
    unfold guard. destruct (m_run fe limit p env); cbn [obind]; discriminate.
  Qed.

  Lemma PTree_has (s : pst XS) : PTree s -> HasTree s.
  Proof. intros [_ (t & Et & _)]. exists t. exact Et. Qed.

  (* expr.Compile: the nine stage calls, in the order of the pinned tree (h: is the walk of the user
     visitors under a recover) *)
  Lemma compile_calls_np h (s : pst XS) : Forall opt_ok opts -> CI (p_cfg s) ->
    run_calls rt XS a opts src env
      [COptions; CConfigCheck; CParse; CCheck true; CPatchOperators; CVisitors h; CCheck false; COptimize; CCompile] s <> PPanic.
  Proof.
    intros Ho Hc. cbn [run_calls].
    destruct (st_options s Ho Hc) as [N1 P1]. apply obind_no_panic; [exact N1|]. intros s1 E1. specialize (P1 s1 E1).
    destruct (st_config_check s1 P1) as [N2 P2]. apply obind_no_panic; [exact N2|]. intros s2 E2. specialize (P2 s2 E2).
    destruct (st_parse s2) as [N3 P3]. apply obind_no_panic; [exact N3|]. intros s3 E3.
    destruct (P3 s3 E3) as (C3 & _ & t3 & T3 & A3).
    assert (Q3 : PTree s3). { split; [unfold PChk; rewrite C3; exact P2|]. exists t3. split; assumption. }
    destruct (st_check true s3 Q3) as [N4 P4]. apply obind_no_panic; [exact N4|]. intros s4 E4. specialize (P4 s4 E4).
    destruct (st_patch s4 P4) as [N5 P5]. apply obind_no_panic; [exact N5|]. intros s5 E5. specialize (P5 s5 E5).
    destruct (st_visitors h s5 P5) as [N6 P6]. apply obind_no_panic; [exact N6|]. intros s6 E6. specialize (P6 s6 E6).
    destruct (st_check false s6 P6) as [N7 P7]. apply obind_no_panic; [exact N7|]. intros s7 E7. specialize (P7 s7 E7).
    destruct (st_optimize s7 (PTree_has s7 P7)) as [N8 P8]. apply obind_no_panic; [exact N8|]. intros s8 E8. specialize (P8 s8 E8).
    destruct (st_compile s8 P8) as [N9 _]. apply obind_no_panic; [exact N9|]. intros s9 _. discriminate.
  Qed.

  (* expr.Eval: Parse, Compile(tree, nil), Run *)
  Lemma eval_calls_np (s : pst XS) : run_calls rt XS a opts src env [CParse; CCompile; CRun] s <> PPanic.
  Proof.
    cbn [run_calls].
    destruct (st_parse s) as [N1 P1]. apply obind_no_panic; [exact N1|]. intros s1 E1.
    destruct (P1 s1 E1) as (_ & _ & t & Et & _).
    destruct (st_compile s1 (ex_intro _ t Et)) as [N2 P2]. apply obind_no_panic; [exact N2|]. intros s2 E2. specialize (P2 s2 E2).
    apply obind_no_panic; [apply st_run; exact P2|]. intros s3 _. discriminate.
  Qed.
  End Api.

  Lemma CI_cfg0 : CI (s_cfg0 XS).
  Proof. split; [reflexivity|constructor]. Qed.

  (* ---- on the regenerated tables *)
  Theorem compile_models_never_panic opts src env : Forall opt_ok opts ->
    compile_api gen_recover XS nil_on_err_compile compile_calls opts src env <> APanic.
  Proof.
    intros Ho. destruct (guarded_facts ApiCompile) as (G1 & _ & G3 & _ & _).
    unfold compile_api. apply finish_not_panic.
    destruct compile_calls_expected as [E|E]; unfold compile_calls, calls_of; rewrite E;
      apply compile_calls_np; auto; exact CI_cfg0.
  Qed.

  Theorem eval_models_never_panic src env :
    eval_api gen_recover XS nil_on_err_eval eval_calls src env <> APanic.
  Proof.
    destruct (guarded_facts ApiEval) as (_ & _ & G3 & G4 & _).
    unfold eval_api. cbn [s_env_is_option x_stages]. apply finish_not_panic.
    unfold eval_calls, calls_of. rewrite eval_calls_expected. apply eval_calls_np; assumption.
  Qed.

  Theorem run_models_never_panic src p env :
    run_api gen_recover XS nil_on_err_run gen_run_nil_guard run_calls_gen src p env <> APanic.
  Proof. apply run_never_panics_gen. Qed.
End CompositeProofs.

(* ---- D.4 the three API functions on the models, and the regenerated grammar table *)
Definition gen_grammar : X.Parse.Parser.grammar :=
  X.Parse.Parser.mkGrammar X.gen.GenGrammar.gen_unary X.gen.GenGrammar.gen_binary X.gen.GenGrammar.gen_builtins.

Lemma gen_grammar_builtins_ok : ParseArity.builtins_ok gen_grammar = true.
Proof. vm_compute. reflexivity. Qed.

Theorem containment_models uni_letter uni_digit uni_space gr orc fe limit te perm implements tyof :
  te_acyclic te = true -> ParseArity.builtins_ok gr = true ->
  (forall opts src env, Forall opt_ok opts ->
     compile_api gen_recover (x_stages uni_letter uni_digit uni_space gr orc fe limit te perm implements tyof)
                 nil_on_err_compile compile_calls opts src env <> APanic) /\
  (forall src env,
     eval_api gen_recover (x_stages uni_letter uni_digit uni_space gr orc fe limit te perm implements tyof)
              nil_on_err_eval eval_calls src env <> APanic) /\
  (forall src p env,
     run_api gen_recover (x_stages uni_letter uni_digit uni_space gr orc fe limit te perm implements tyof)
             nil_on_err_run gen_run_nil_guard run_calls_gen src p env <> APanic).
Proof.
  intros Hte Hgr. split; [|split].
  - intros opts src env Ho. apply compile_models_never_panic; [exact gen_weights_usable|exact Hte|exact Hgr|exact Ho].
  - intros src env. apply eval_models_never_panic. exact Hgr.
  - intros src p env. apply run_models_never_panic.
Qed.

(* without user visitors the only restriction on the options is the pointer-to-map environment *)
Definition no_visitor (o : xopt) : bool := match o with OPatch _ => false | OEnv env _ => negb (env_panics env) | _ => true end.

Lemma no_visitor_ok opts : forallb no_visitor opts = true -> Forall opt_ok opts.
Proof.
  intros H. apply Forall_forall. intros o Hin. rewrite forallb_forall in H. specialize (H o Hin).
  destruct o; cbn [no_visitor opt_ok] in *; try exact I; [apply negb_true_iff; exact H|discriminate].
Qed.

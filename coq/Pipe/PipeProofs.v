(* Pipe/PipeProofs.v — theorems of C04 over Pipe/Pipeline.v.

   Part 1 (generic, for ALL stage behaviours and ALL recover tables / call lists):
     containment   if every stage that is not under a recover never yields PPanic, the pipeline
                   never yields PPanic, whatever the guarded stages do;
     result shape  an error comes with nil, a success with a program / value;
     escape        a user visitor that panics escapes expr.Compile as long as the walk of user
                   visitors is not under a recover (what the pinned tree does).
   Part 2: totality of the stages whose model exists: the fuelled lexer and parser never run out
   of fuel (`lex_total`, `parse_total`), lexer.Lex never returns an empty token list, the reference
   semantics is a function (`eval_total`), the VM model terminates on compiled programs (`vm_total`).
   Part 3: the instantiated pipeline (model lexer + model parser + compilable + reference
   semantics) never yields a panic. *)
From Coq Require Import ZArith Bool List String Lia Arith.
Require Import X.Base.Value X.Syn.Ast X.Syn.Tok.
Require X.Lex.Lexer X.Parse.Parser X.Sem.Prim X.Sem.Sem X.BC.Compiler X.BC.VM X.BC.RunProofs.
Require Import X.Pipe.Pipeline.
Import ListNotations.

(* ================================================================== Part 1: generic *)
Lemma guard_no_panic {A : Type} (b : bool) (x : out A) : (b = true \/ x <> PPanic) -> guard b x <> PPanic.
Proof.
  unfold guard. intros [H|H].
  - rewrite H. destruct x; discriminate.
  - destruct b; destruct x; try discriminate; contradiction.
Qed.

Lemma guard_cases {A : Type} (b : bool) (x : out A) :
  guard b x = x \/ (b = true /\ x = PPanic /\ guard b x = PErr).
Proof. unfold guard. destruct b; destruct x; auto. Qed.

Lemma guard_ok_inv {A : Type} (b : bool) (x : out A) v : guard b x = POk v -> x = POk v.
Proof. unfold guard. destruct b; destruct x; intros H; try discriminate; exact H. Qed.

Lemma obind_no_panic {A B : Type} (x : out A) (k : A -> out B) :
  x <> PPanic -> (forall v, x = POk v -> k v <> PPanic) -> obind x k <> PPanic.
Proof. intros Hx Hk. destruct x; cbn; [apply Hk; reflexivity|discriminate|contradiction]. Qed.

Section Contain.
  Variable rt : rtable.
  Variable S : stages.
  Variable a : api.

  (* a stage is harmless when the code recovers around it, or when it never panics *)
  Definition contained (st : stage) (P : Prop) : Prop := guarded rt a st = true \/ P.

  Record unguarded_total : Prop := mkUT {
    ut_option : contained StOption (forall o c, s_opt_is_constexpr S o = false -> s_opt_apply S o c <> PPanic);
    ut_constopt : contained StConstExprOpt (forall o c, s_opt_is_constexpr S o = true -> s_opt_apply S o c <> PPanic);
    ut_configcheck : contained StConfigCheck (forall c, s_config_check S c <> PPanic);
    ut_lex : contained StLex (forall x, s_lex S x <> PPanic);
    ut_parse : contained StParse (forall x ts, s_lex S x = POk ts -> s_parse S ts <> PPanic);   (* on the lexer's outputs *)
    ut_check : contained StCheck (forall c t, s_check S c t <> PPanic);
    ut_patch : contained StPatchOperators (forall c t, s_patch_operators S c t <> PPanic);
    ut_inarray : contained StOptInArray (forall t, s_opt_inarray S t <> PPanic);
    ut_fold : contained StOptFold (forall t, s_opt_fold S t <> PPanic);
    ut_inrange : contained StOptInRange (forall t, s_opt_inrange S t <> PPanic);
    ut_constrange : contained StOptConstRange (forall t, s_opt_constrange S t <> PPanic);
    ut_constcall : contained StConstExprCall (forall f c t, s_opt_constexpr S f c t <> PPanic);
    ut_compile : contained StCompile (forall c t, s_compile S c t <> PPanic);
    ut_vm : contained StVMRun (forall f p e, s_vm_loop S f p e <> PPanic)
  }.

  (* user visitors: under a recover (of a helper, of ast.Walk, of the API function), or well-behaved *)
  Definition visitors_contained (cs : list call) : Prop :=
    visitors_guarded cs = true \/ guarded rt a StVisitor = true \/ (forall v t, s_visit S v t <> PPanic).

  Hypothesis UT : unguarded_total.

  Lemma g_ok {A : Type} (st : stage) (x : out A) (P : Prop) :
    contained st P -> (P -> x <> PPanic) -> g rt a st x <> PPanic.
  Proof.
    intros [Hg|HP] Hx; unfold g; apply guard_no_panic; [left; exact Hg|right; exact (Hx HP)].
  Qed.

  Lemma apply_options_no_panic : forall os c failed, apply_options rt S a os c failed <> PPanic.
  Proof.
    induction os as [|o r IH]; intros c failed; cbn [apply_options]; [discriminate|].
    destruct (s_opt_is_constexpr S o) eqn:Eo.
    - assert (H : g rt a StConstExprOpt (s_opt_apply S o c) <> PPanic).
      { eapply g_ok; [exact (ut_constopt UT)|intros HP; apply HP; exact Eo]. }
      destruct (g rt a StConstExprOpt (s_opt_apply S o c)); [apply IH|apply IH|contradiction].
    - assert (H : g rt a StOption (s_opt_apply S o c) <> PPanic).
      { eapply g_ok; [exact (ut_option UT)|intros HP; apply HP; exact Eo]. }
      destruct (g rt a StOption (s_opt_apply S o c)); [apply IH|apply IH|contradiction].
  Qed.

  Lemma run_visitors_no_panic h : (h = true \/ guarded rt a StVisitor = true \/ (forall v t, s_visit S v t <> PPanic)) ->
    forall vs t, run_visitors rt S a h vs t <> PPanic.
  Proof.
    intros Hv. induction vs as [|v r IH]; intros t; cbn [run_visitors]; [discriminate|].
    apply obind_no_panic; [|intros t' _; apply IH].
    apply guard_no_panic. destruct Hv as [Hh|[Hg|Hw]].
    - left. rewrite Hh. reflexivity.
    - left. rewrite Hg. apply orb_true_r.
    - right. apply Hw.
  Qed.

  Lemma optimize_no_panic c t : optimize rt S a c t <> PPanic.
  Proof.
    unfold optimize.
    apply obind_no_panic; [eapply g_ok; [exact (ut_inarray UT)|intros HP; apply HP]|intros t1 _].
    apply obind_no_panic; [eapply g_ok; [exact (ut_fold UT)|intros HP; apply HP]|intros t2 _].
    apply obind_no_panic.
    { destruct (s_has_constexpr S c); [|discriminate].
      eapply g_ok; [exact (ut_constcall UT)|intros HP; apply HP]. }
    intros t3 _.
    apply obind_no_panic; [eapply g_ok; [exact (ut_inrange UT)|intros HP; apply HP]|intros t4 _].
    eapply g_ok; [exact (ut_constrange UT)|intros HP; apply HP].
  Qed.

  Definition has {A : Type} (o : option A) : bool := match o with Some _ => true | None => false end.

  Lemma on_tree_spec (s : pst S) f : p_tree s <> None -> (forall t, f t <> PPanic) ->
    on_tree S s f <> PPanic /\
    forall s', on_tree S s f = POk s' -> p_tree s' <> None /\ p_prog s' = p_prog s.
  Proof.
    intros Ht Hf. unfold on_tree. destruct (p_tree s) as [t|]; [|contradiction]. split.
    - apply obind_no_panic; [apply Hf|discriminate].
    - intros s' H. destruct (f t); cbn in H; try discriminate. inversion H; subst. cbn. split; [discriminate|reflexivity].
  Qed.

  (* one call: no panic, and what is available afterwards *)
  Lemma exec_spec opts src env c (s : pst S) ht hp r :
    (ht = true -> p_tree s <> None) -> (hp = true -> p_prog s <> None) ->
    calls_wf ht hp (c :: r) = true ->
    (match c with CVisitors h => h = true \/ guarded rt a StVisitor = true \/ (forall v t, s_visit S v t <> PPanic) | _ => True end) ->
    exec rt S a opts src env c s <> PPanic /\
    forall s', exec rt S a opts src env c s = POk s' ->
      exists ht' hp', calls_wf ht' hp' r = true /\ (ht' = true -> p_tree s' <> None) /\ (hp' = true -> p_prog s' <> None).
  Proof.
    intros Ht Hp Hwf Hvis. destruct c; cbn [calls_wf] in Hwf; cbn [exec].
    - (* COptions *) split.
      + apply obind_no_panic; [apply apply_options_no_panic|discriminate].
      + intros s' H. destruct (apply_options rt S a opts (p_cfg s) (p_cfgerr s)); cbn in H; try discriminate.
        inversion H; subst s'. exists ht, hp. cbn. auto.
    - (* CConfigCheck *) split.
      + apply obind_no_panic; [eapply g_ok; [exact (ut_configcheck UT)|intros HP; apply HP]|].
        intros _ _. destruct (p_cfgerr s); discriminate.
      + intros s' H. destruct (g rt a StConfigCheck (s_config_check S (p_cfg s))); cbn in H; try discriminate.
        destruct (p_cfgerr s); try discriminate. inversion H; subst s'. exists ht, hp. auto.
    - (* CParse *) split.
      + apply obind_no_panic; [eapply g_ok; [exact (ut_lex UT)|intros HP; apply HP]|intros ts Hts].
        apply obind_no_panic; [eapply g_ok; [exact (ut_parse UT)|intros HP; eapply HP; eapply guard_ok_inv; exact Hts]|discriminate].
      + intros s' H. destruct (g rt a StLex (s_lex S src)); cbn in H; try discriminate.
        destruct (g rt a StParse (s_parse S a0)); cbn in H; try discriminate.
        inversion H; subst s'. exists true, hp. cbn. repeat split; auto. discriminate.
    - (* CCheck *) apply andb_true_iff in Hwf. destruct Hwf as [Hh Hwf]. specialize (Ht Hh).
      destruct (p_tree s) as [t|] eqn:Et; [|contradiction].
      assert (Hc : g rt a StCheck (s_check S (p_cfg s) t) <> PPanic).
      { eapply g_ok; [exact (ut_check UT)|intros HP; apply HP]. }
      split.
      + destruct (g rt a StCheck (s_check S (p_cfg s) t)); [discriminate| |contradiction].
        destruct (tolerant && negb match s_visitors S (p_cfg s) with [] => true | _ :: _ => false end); discriminate.
      + intros s' H. exists ht, hp. split; [exact Hwf|].
        destruct (g rt a StCheck (s_check S (p_cfg s) t)); try discriminate.
        * inversion H; subst s'. cbn. split; [intros _; discriminate|exact Hp].
        * destruct (tolerant && negb match s_visitors S (p_cfg s) with [] => true | _ :: _ => false end); try discriminate.
          inversion H; subst s'. cbn. split; [intros _; discriminate|exact Hp].
    - (* CPatchOperators *) apply andb_true_iff in Hwf. destruct Hwf as [Hh Hwf]. specialize (Ht Hh).
      destruct (on_tree_spec s (fun t => g rt a StPatchOperators (s_patch_operators S (p_cfg s) t)) Ht) as [H1 H2].
      { intros t. eapply g_ok; [exact (ut_patch UT)|intros HP; apply HP]. }
      split; [exact H1|]. intros s' H. destruct (H2 s' H) as [Ht' Hp']. exists ht, hp.
      split; [exact Hwf|]. split; [intros _; exact Ht'|rewrite Hp'; exact Hp].
    - (* CVisitors *) apply andb_true_iff in Hwf. destruct Hwf as [Hh Hwf]. specialize (Ht Hh).
      destruct (on_tree_spec s (run_visitors rt S a helper_recovers (s_visitors S (p_cfg s))) Ht) as [H1 H2].
      { intros t. apply run_visitors_no_panic. exact Hvis. }
      split; [exact H1|]. intros s' H. destruct (H2 s' H) as [Ht' Hp']. exists ht, hp.
      split; [exact Hwf|]. split; [intros _; exact Ht'|rewrite Hp'; exact Hp].
    - (* COptimize *) apply andb_true_iff in Hwf. destruct Hwf as [Hh Hwf]. specialize (Ht Hh).
      destruct (s_optimize_on S (p_cfg s)).
      + destruct (on_tree_spec s (optimize rt S a (p_cfg s)) Ht) as [H1 H2].
        { intros t. apply optimize_no_panic. }
        split; [exact H1|]. intros s' H. destruct (H2 s' H) as [Ht' Hp']. exists ht, hp.
        split; [exact Hwf|]. split; [intros _; exact Ht'|rewrite Hp'; exact Hp].
      + split; [discriminate|]. intros s' H. inversion H; subst s'. exists ht, hp. auto.
    - (* CCompile *) apply andb_true_iff in Hwf. destruct Hwf as [Hh Hwf]. specialize (Ht Hh).
      destruct (p_tree s) as [t|] eqn:Et; [|contradiction]. split.
      + apply obind_no_panic; [eapply g_ok; [exact (ut_compile UT)|intros HP; apply HP]|discriminate].
      + intros s' H. destruct (g rt a StCompile (s_compile S (p_cfg s) t)); cbn in H; try discriminate.
        inversion H; subst s'. exists ht, true. cbn. split; [exact Hwf|]. split; intros _; discriminate.
    - (* CRun *) apply andb_true_iff in Hwf. destruct Hwf as [Hh Hwf]. specialize (Hp Hh).
      destruct (p_prog s) as [p|] eqn:Ep; [|contradiction]. split.
      + apply obind_no_panic; [eapply g_ok; [exact (ut_vm UT)|intros HP; apply HP]|discriminate].
      + intros s' H. destruct (g rt a StVMRun (s_vm_loop S (s_envfn S env) p env)); cbn in H; try discriminate.
        inversion H; subst s'. exists ht, hp. cbn. split; [exact Hwf|]. split; [exact Ht|intros _; discriminate].
  Qed.

  Lemma visitors_contained_tail c r : visitors_contained (c :: r) -> visitors_contained r.
  Proof.
    unfold visitors_contained, visitors_guarded. cbn [forallb]. intros [H|H]; [|right; exact H].
    left. apply andb_true_iff in H. tauto.
  Qed.

  Lemma run_calls_no_panic opts src env : forall cs (s : pst S) ht hp,
    (ht = true -> p_tree s <> None) -> (hp = true -> p_prog s <> None) ->
    calls_wf ht hp cs = true -> visitors_contained cs ->
    run_calls rt S a opts src env cs s <> PPanic.
  Proof.
    induction cs as [|c r IH]; intros s ht hp Ht Hp Hwf Hv; cbn [run_calls]; [discriminate|].
    assert (Hvis : match c with CVisitors h => h = true \/ guarded rt a StVisitor = true \/ (forall v t, s_visit S v t <> PPanic) | _ => True end).
    { destruct c; auto. destruct Hv as [H|[H|H]]; auto.
      unfold visitors_guarded in H. cbn [forallb] in H. apply andb_true_iff in H. tauto. }
    destruct (exec_spec opts src env c s ht hp r Ht Hp Hwf Hvis) as [H1 H2].
    apply obind_no_panic; [exact H1|].
    intros s' Hs'. destruct (H2 s' Hs') as (ht' & hp' & Hwf' & Ht' & Hp').
    eapply IH; eauto. eapply visitors_contained_tail; eauto.
  Qed.

  Lemma finish_not_panic {A : Type} nil_on_err (res : pst S -> option A) o :
    o <> PPanic -> finish S nil_on_err res o <> APanic.
  Proof. intros H. destruct o; cbn; [destruct (res a0); discriminate|destruct nil_on_err; discriminate|contradiction]. Qed.
End Contain.

(* ---- the three API functions *)
Theorem containment_compile rt S noe calls opts src env :
  unguarded_total rt S ApiCompile -> calls_wf false false calls = true -> visitors_contained rt S ApiCompile calls ->
  compile_api rt S noe calls opts src env <> APanic.
Proof.
  intros UT Hwf Hv. unfold compile_api. apply finish_not_panic.
  eapply run_calls_no_panic; eauto; intros H; discriminate.
Qed.

Theorem containment_eval rt S noe calls src env :
  unguarded_total rt S ApiEval -> calls_wf false false calls = true -> visitors_contained rt S ApiEval calls ->
  eval_api rt S noe calls src env <> APanic.
Proof.
  intros UT Hwf Hv. unfold eval_api. destruct (s_env_is_option S env); [destruct noe; discriminate|].
  apply finish_not_panic. eapply run_calls_no_panic; eauto; intros H; discriminate.
Qed.

Theorem containment_run rt S noe calls src p env :
  unguarded_total rt S ApiRun -> calls_wf false true calls = true -> visitors_contained rt S ApiRun calls ->
  run_api rt S noe true calls src p env <> APanic.
Proof.
  intros UT Hwf Hv. unfold run_api. destruct p as [p|]; [|destruct noe; discriminate].
  apply finish_not_panic. eapply run_calls_no_panic with (ht := false) (hp := true); eauto.
  - intros H; discriminate.
  - intros _. cbn. discriminate.
Qed.

(* ---- result shape: an error comes with nil; a success of Compile comes with a program *)
Definition shape_ok {A : Type} (need_result : bool) (r : ares A) : bool :=
  match r with
  | AOk _ | AErrNil => true
  | ANilOk => negb need_result
  | AErrWith | APanic => false
  end.

Definition produces_prog (cs : list call) : bool := existsb (call_eqb CCompile) cs.

Lemma run_calls_prog rt S a opts src env : forall cs (s s' : pst S),
  run_calls rt S a opts src env cs s = POk s' ->
  (produces_prog cs = true \/ p_prog s <> None) -> p_prog s' <> None.
Proof.
  induction cs as [|c r IH]; intros s s' H Hp; cbn [run_calls] in H.
  - inversion H; subst. destruct Hp as [Hp|Hp]; [discriminate|exact Hp].
  - destruct (exec rt S a opts src env c s) as [s1| |] eqn:E; cbn in H; try discriminate.
    apply (IH s1 s' H).
    destruct c; cbn [exec] in E.
    + (* COptions *) destruct (apply_options rt S a opts (p_cfg s) (p_cfgerr s)); cbn in E; try discriminate.
      inversion E; subst; cbn. destruct Hp as [Hp|Hp]; [left; exact Hp|right; exact Hp].
    + destruct (g rt a StConfigCheck (s_config_check S (p_cfg s))); cbn in E; try discriminate.
      destruct (p_cfgerr s); try discriminate. inversion E; subst. destruct Hp as [Hp|Hp]; [left; exact Hp|right; exact Hp].
    + destruct (g rt a StLex (s_lex S src)); cbn in E; try discriminate.
      destruct (g rt a StParse (s_parse S a0)); cbn in E; try discriminate.
      inversion E; subst; cbn. destruct Hp as [Hp|Hp]; [left; exact Hp|right; exact Hp].
    + destruct (p_tree s); try discriminate.
      destruct (g rt a StCheck (s_check S (p_cfg s) t)); try discriminate.
      * inversion E; subst; cbn. destruct Hp as [Hp|Hp]; [left; exact Hp|right; exact Hp].
      * destruct (tolerant && negb match s_visitors S (p_cfg s) with [] => true | _ :: _ => false end); try discriminate.
        inversion E; subst; cbn. destruct Hp as [Hp|Hp]; [left; exact Hp|right; exact Hp].
    + unfold on_tree in E. destruct (p_tree s); try discriminate.
      destruct (g rt a StPatchOperators (s_patch_operators S (p_cfg s) t)); cbn in E; try discriminate.
      inversion E; subst; cbn. destruct Hp as [Hp|Hp]; [left; exact Hp|right; exact Hp].
    + unfold on_tree in E. destruct (p_tree s); try discriminate.
      destruct (run_visitors rt S a helper_recovers (s_visitors S (p_cfg s)) t); cbn in E; try discriminate.
      inversion E; subst; cbn. destruct Hp as [Hp|Hp]; [left; exact Hp|right; exact Hp].
    + destruct (s_optimize_on S (p_cfg s)).
      * unfold on_tree in E. destruct (p_tree s); try discriminate.
        destruct (optimize rt S a (p_cfg s) t); cbn in E; try discriminate.
        inversion E; subst; cbn. destruct Hp as [Hp|Hp]; [left; exact Hp|right; exact Hp].
      * inversion E; subst. destruct Hp as [Hp|Hp]; [left; exact Hp|right; exact Hp].
    + destruct (p_tree s); try discriminate.
      destruct (g rt a StCompile (s_compile S (p_cfg s) t)); cbn in E; try discriminate.
      inversion E; subst; cbn. right. discriminate.
    + destruct (p_prog s) eqn:Ep; try discriminate.
      destruct (g rt a StVMRun (s_vm_loop S (s_envfn S env) p env)); cbn in E; try discriminate.
      inversion E; subst; cbn. right. discriminate.
Qed.

Theorem result_shape_compile rt S calls opts src env :
  produces_prog calls = true ->
  compile_api rt S true calls opts src env = APanic \/ shape_ok true (compile_api rt S true calls opts src env) = true.
Proof.
  intros Hp. unfold compile_api.
  destruct (run_calls rt S ApiCompile opts src env calls (mkPst S (s_cfg0 S) false None None None)) as [s'| |] eqn:E; cbn.
  - right. pose proof (run_calls_prog _ _ _ _ _ _ _ _ _ E (or_introl Hp)) as H.
    destruct (p_prog s'); [reflexivity|contradiction].
  - right. reflexivity.
  - left. reflexivity.
Qed.

(* Eval and Run: a value may be nil without an error (the expression `nil`), so only the error
   direction is demanded: a non-nil error comes with a nil value *)
Theorem result_shape_eval rt S calls src env :
  eval_api rt S true calls src env = APanic \/ shape_ok false (eval_api rt S true calls src env) = true.
Proof.
  unfold eval_api. destruct (s_env_is_option S env); [right; reflexivity|].
  destruct (run_calls rt S ApiEval [] src env calls _) as [s'| |]; cbn; [right; destruct (p_val s'); reflexivity|right; reflexivity|left; reflexivity].
Qed.

Theorem result_shape_run rt S calls src p env :
  run_api rt S true true calls src p env = APanic \/ shape_ok false (run_api rt S true true calls src p env) = true.
Proof.
  unfold run_api. destruct p; [|right; reflexivity].
  destruct (run_calls rt S ApiRun [] src env calls _) as [s'| |]; cbn; [right; destruct (p_val s'); reflexivity|right; reflexivity|left; reflexivity].
Qed.

(* and the converse: when an error path returns something else than the literal nil, the caller
   can observe a result together with an error *)
Lemma shape_needs_nil rt S calls opts src env :
  run_calls rt S ApiCompile opts src env calls (mkPst S (s_cfg0 S) false None None None) = PErr ->
  compile_api rt S false calls opts src env = AErrWith.
Proof. intros H. unfold compile_api. rewrite H. reflexivity. Qed.

(* ---- a panicking user visitor escapes expr.Compile as long as nothing recovers around the walk *)
Theorem visitor_panic_escapes rt S noe opts src env cs1 cs2 (s : pst S) t v vs :
  run_calls rt S ApiCompile opts src env cs1 (mkPst S (s_cfg0 S) false None None None) = POk s ->
  p_tree s = Some t -> s_visitors S (p_cfg s) = v :: vs -> s_visit S v t = PPanic ->
  guarded rt ApiCompile StVisitor = false ->
  compile_api rt S noe (cs1 ++ CVisitors false :: cs2) opts src env = APanic.
Proof.
  intros H1 Ht Hv Hp Hg. unfold compile_api.
  assert (E : forall cs s0, run_calls rt S ApiCompile opts src env cs s0 = POk s ->
              run_calls rt S ApiCompile opts src env (cs ++ CVisitors false :: cs2) s0 = PPanic).
  { induction cs as [|c r IH]; intros s0 H0.
    - cbn in H0. inversion H0; subst. cbn [app run_calls exec]. unfold on_tree. rewrite Ht, Hv.
      cbn [run_visitors]. rewrite Hp, Hg. reflexivity.
    - cbn [app run_calls] in *. destruct (exec rt S ApiCompile opts src env c s0); cbn in *; try discriminate.
      apply IH. exact H0. }
  rewrite (E cs1 _ H1). reflexivity.
Qed.

(* ================================================================== Part 2: totality of the modelled stages *)

(* ------------------------------------------------------------------ lexer: the fuel is sufficient
   Potential argument over the state functions of parser/lexer/state.go: with n = runes not yet read,
     phi(root) = 2n+1   phi(number) = phi(dot) = phi(identifier) = 2n   phi(nilsafe) = phi(not) = 2n+2
   every call of a state function that returns another state function strictly decreases phi, given
   the entry invariants (root: empty word; number: a decimal digit ahead; dot: a rune ahead;
   identifier: empty word and an alphanumeric rune ahead). *)
Module LexTotal.
Import X.Lex.Lexer.
Local Open Scope nat_scope.
Local Open Scope list_scope.

Definition n (l : lexer) : nat := List.length (l_rest l).

Lemma next_n l : n (snd (next l)) <= n l.
Proof. unfold next, n. destruct (l_rest l); cbn; lia. Qed.

Lemma next_cons_n l r t : l_rest l = r :: t -> fst (next l) = r /\ l_rest (snd (next l)) = t /\ l_word (snd (next l)) = r :: l_word l /\ l_width (snd (next l)) = 1%Z.
Proof. intros H. unfold next. rewrite H. cbn. auto. Qed.

Lemma next_nil_pos l : l_rest l = [] -> l_rest (snd (next l)) = [] /\ l_word (snd (next l)) = l_word l.
Proof. intros H. unfold next. rewrite H. cbn. auto. Qed.

Lemma next_nil_eof l : l_rest l = [] -> fst (next l) = eof.
Proof. intros H. unfold next. rewrite H. reflexivity. Qed.

(* backup directly after next: position (rest, word) of the state before next *)
Lemma pk_pos l : l_rest (backup (snd (next l))) = l_rest l /\ l_word (backup (snd (next l))) = l_word l.
Proof.
  unfold next. destruct (l_rest l) as [|r t] eqn:E; cbn; unfold backup; cbn; auto.
Qed.

Lemma pk_n l : n (backup (snd (next l))) = n l.
Proof. unfold n. destruct (pk_pos l) as [H _]. rewrite H. reflexivity. Qed.

Lemma peek_pos l : l_rest (snd (peek l)) = l_rest l /\ l_word (snd (peek l)) = l_word l.
Proof. unfold peek. destruct (next l) as [r l1] eqn:E. cbn. replace l1 with (snd (next l)) by (rewrite E; reflexivity). apply pk_pos. Qed.

Lemma peek_n l : n (snd (peek l)) = n l.
Proof. unfold n. destruct (peek_pos l) as [H _]. rewrite H. reflexivity. Qed.

Lemma peek_fst l : fst (peek l) = fst (next l).
Proof. unfold peek. destruct (next l); reflexivity. Qed.

Lemma accept_n v l : n (snd (accept v l)) <= n l.
Proof.
  unfold accept. destruct (next l) as [r l1] eqn:E.
  replace l1 with (snd (next l)) by (rewrite E; reflexivity).
  destruct (mem r v); cbn; [apply next_n|rewrite pk_n; lia].
Qed.

Lemma accept_hit_n v l : fst (accept v l) = true -> l_rest l <> [] -> S (n (snd (accept v l))) = n l.
Proof.
  unfold accept. destruct (next l) as [r l1] eqn:E.
  replace l1 with (snd (next l)) by (rewrite E; reflexivity).
  destruct (mem r v); cbn; [|discriminate]. intros _ Hne.
  destruct (l_rest l) as [|x t] eqn:R; [contradiction|].
  destruct (next_cons_n l x t R) as (_ & H & _). unfold n. rewrite H, R. reflexivity.
Qed.

Lemma run_while_n p : forall fuel l, n (run_while p fuel l) <= n l.
Proof.
  induction fuel as [|f IH]; intros l; cbn [run_while]; [lia|].
  destruct (next l) as [r l1] eqn:E. replace l1 with (snd (next l)) by (rewrite E; reflexivity).
  destruct (p r).
  - etransitivity; [apply IH|apply next_n].
  - rewrite pk_n. lia.
Qed.

(* content of the zipper: what run_while / next / backup-after-next never change *)
Lemma run_while_adv p : forall fuel l, exists w,
  l_rest l = w ++ l_rest (run_while p fuel l) /\ l_word (run_while p fuel l) = rev w ++ l_word l.
Proof.
  induction fuel as [|f IH]; intros l; cbn [run_while]; [exists []; auto|].
  destruct (next l) as [r l1] eqn:E. replace l1 with (snd (next l)) by (rewrite E; reflexivity).
  destruct (p r) eqn:Ep.
  - destruct (l_rest l) as [|x t] eqn:R.
    + (* eof: next does not move *)
      destruct (IH (snd (next l))) as (w & H1 & H2). exists w.
      destruct (next_nil_pos l R) as [H3 H4]. rewrite H3 in H1. rewrite H4 in H2. auto.
    + destruct (next_cons_n l x t R) as (_ & H3 & H4 & _).
      destruct (IH (snd (next l))) as (w & H1 & H2). exists (x :: w). rewrite H3 in H1. rewrite H4 in H2.
      split; [cbn; rewrite H1; reflexivity|]. rewrite H2. cbn. rewrite <- app_assoc. reflexivity.
  - exists []. destruct (pk_pos l) as [H1 H2]. rewrite H1, H2. auto.
Qed.

Lemma run_while_head p fuel l r t : l_rest l = r :: t -> p r = true -> S (n (run_while p (S fuel) l)) <= n l.
Proof.
  intros R Hp. cbn [run_while]. destruct (next l) as [r' l1] eqn:E.
  replace l1 with (snd (next l)) by (rewrite E; reflexivity).
  destruct (next_cons_n l r t R) as (H0 & H1 & _). rewrite E in H0. cbn in H0. subst r'. rewrite Hp.
  pose proof (run_while_n p fuel (snd (next l))) as H. unfold n in *. rewrite H1 in H. rewrite R. cbn. lia.
Qed.

Lemma acceptRun_n v l : n (acceptRun v l) <= n l.
Proof. apply run_while_n. Qed.

Lemma restore_n saved l : n (restore saved l) = n saved.
Proof. reflexivity. Qed.

Lemma set_error_n l : n (set_error l) = n l.
Proof. unfold set_error. destruct (l_err l); reflexivity. Qed.

Lemma scanDigits_n : forall k ch base l, n (snd (scanDigits ch base k l)) <= n l.
Proof.
  induction k as [|k IH]; intros ch base l; cbn [scanDigits]; [cbn; lia|].
  destruct (digitVal ch <? base)%Z.
  - destruct (next l) as [c l1] eqn:E. replace l1 with (snd (next l)) by (rewrite E; reflexivity).
    etransitivity; [apply IH|apply next_n].
  - cbn. rewrite set_error_n. lia.
Qed.

Lemma scanEscape_n q l : n (snd (scanEscape q l)) <= n l.
Proof.
  unfold scanEscape. destruct (next l) as [ch l1] eqn:E.
  assert (H1 : n l1 <= n l) by (replace l1 with (snd (next l)) by (rewrite E; reflexivity); apply next_n).
  assert (N2 : forall k base, n (snd (let (c, l2) := next l1 in scanDigits c base k l2)) <= n l).
  { intros k base. destruct (next l1) as [c l2] eqn:E2.
    assert (n l2 <= n l1) by (replace l2 with (snd (next l1)) by (rewrite E2; reflexivity); apply next_n).
    pose proof (scanDigits_n k c base l2). lia. }
  destruct (mem ch (rs "abfnrtv\") || (ch =? q)%Z).
  - pose proof (next_n l1). lia.
  - destruct (mem ch (rs "01234567")); [pose proof (scanDigits_n 3 ch 8%Z l1); lia|].
    destruct (ch =? 120)%Z; [apply N2|].
    destruct (ch =? 117)%Z; [apply N2|].
    destruct (ch =? 85)%Z; [apply N2|].
    cbn. rewrite set_error_n. exact H1.
Qed.

Lemma scanString_go_n : forall fuel q ch l, n (scanString_go fuel q ch l) <= n l.
Proof.
  induction fuel as [|f IH]; intros q ch l; cbn [scanString_go]; [lia|].
  destruct (ch =? q)%Z; [lia|].
  destruct ((ch =? 10)%Z || (ch =? eof)%Z); [rewrite set_error_n; lia|].
  destruct (ch =? 92)%Z.
  - destruct (scanEscape q l) as [ch' l'] eqn:E.
    assert (n l' <= n l) by (replace l' with (snd (scanEscape q l)) by (rewrite E; reflexivity); apply scanEscape_n).
    pose proof (IH q ch' l'). lia.
  - destruct (next l) as [ch' l'] eqn:E.
    assert (n l' <= n l) by (replace l' with (snd (next l)) by (rewrite E; reflexivity); apply next_n).
    pose proof (IH q ch' l'). lia.
Qed.

Lemma scanString_n q l : n (scanString q l) <= n l.
Proof.
  unfold scanString. destruct (next l) as [ch l1] eqn:E.
  assert (n l1 <= n l) by (replace l1 with (snd (next l)) by (rewrite E; reflexivity); apply next_n).
  pose proof (scanString_go_n (S (S (List.length (l_rest l1)))) q ch l1). lia.
Qed.

Lemma emitValue_n k v l : n (emitValue k v l) = n l. Proof. reflexivity. Qed.
Lemma emit_n k l : n (emit k l) = n l. Proof. reflexivity. Qed.
Lemma ignore_n l : n (ignore l) = n l. Proof. reflexivity. Qed.
Lemma emitValue_word k v l : l_word (emitValue k v l) = []. Proof. reflexivity. Qed.
Lemma emit_word k l : l_word (emit k l) = []. Proof. reflexivity. Qed.
Lemma ignore_word l : l_word (ignore l) = []. Proof. reflexivity. Qed.

Section WithClasses.
  Variables uni_letter uni_digit uni_space : Z -> bool.
  Notation is_alnum := (is_alnum uni_letter uni_digit).
  Notation step := (step uni_letter uni_digit uni_space).
  Notation lex_fuel := (lex_fuel uni_letter uni_digit uni_space).

  Lemma scanNumber_exp_n digits l : n (snd (scanNumber_exp uni_letter uni_digit digits l)) <= n l.
  Proof.
    unfold scanNumber_exp. destruct (accept (rs "eE") l) as [e l1] eqn:E1.
    assert (H1 : n l1 <= n l) by (replace l1 with (snd (accept (rs "eE") l)) by (rewrite E1; reflexivity); apply accept_n).
    set (l2 := if e then acceptRun digits (snd (accept (rs "+-") l1)) else l1).
    assert (H2 : n l2 <= n l1).
    { unfold l2. destruct e; [|lia]. pose proof (acceptRun_n digits (snd (accept (rs "+-") l1))). pose proof (accept_n (rs "+-") l1). lia. }
    destruct (peek l2) as [p l3] eqn:E3.
    assert (H3 : n l3 = n l2) by (replace l3 with (snd (peek l2)) by (rewrite E3; reflexivity); apply peek_n).
    destruct (is_alnum p); cbn; [pose proof (next_n l3)|]; lia.
  Qed.

  Lemma scanNumber_frac_n digits l : n (snd (scanNumber_frac uni_letter uni_digit digits l)) <= n l.
  Proof.
    unfold scanNumber_frac. destruct (accept (rs ".") l) as [d l4] eqn:E1.
    assert (H1 : n l4 <= n l) by (replace l4 with (snd (accept (rs ".") l)) by (rewrite E1; reflexivity); apply accept_n).
    destruct d.
    - destruct (peek l4) as [p l5] eqn:E2.
      assert (H2 : n l5 = n l4) by (replace l5 with (snd (peek l4)) by (rewrite E2; reflexivity); apply peek_n).
      destruct (p =? 46)%Z; [cbn [snd]; rewrite restore_n; lia|].
      pose proof (scanNumber_exp_n digits (acceptRun digits l5)). pose proof (acceptRun_n digits l5). lia.
    - pose proof (scanNumber_exp_n digits l4). lia.
  Qed.

  Lemma scanNumber_prefix_n l : n (snd (scanNumber_prefix l)) <= n l.
  Proof.
    unfold scanNumber_prefix. destruct (accept (rs "0") l) as [z l1] eqn:E1.
    assert (H1 : n l1 <= n l) by (replace l1 with (snd (accept (rs "0") l)) by (rewrite E1; reflexivity); apply accept_n).
    destruct z; [|cbn; lia].
    destruct (accept (rs "xX") l1) as [x l2] eqn:E2.
    assert (H2 : n l2 <= n l1) by (replace l2 with (snd (accept (rs "xX") l1)) by (rewrite E2; reflexivity); apply accept_n).
    destruct x; [cbn; lia|].
    destruct (accept (rs "oO") l2) as [o l3] eqn:E3.
    assert (H3 : n l3 <= n l2) by (replace l3 with (snd (accept (rs "oO") l2)) by (rewrite E3; reflexivity); apply accept_n).
    destruct o; [cbn; lia|].
    destruct (accept (rs "bB") l3) as [b l4] eqn:E4.
    assert (H4 : n l4 <= n l3) by (replace l4 with (snd (accept (rs "bB") l3)) by (rewrite E4; reflexivity); apply accept_n).
    destruct b; cbn; lia.
  Qed.

  Definition is_dec_digit (d : Z) : bool := (48 <=? d)%Z && (d <=? 57)%Z.

  Lemma dec_digit_mem d : is_dec_digit d = true -> mem d dec_digits = true.
  Proof.
    unfold is_dec_digit. intros H. apply andb_true_iff in H. destruct H as [H1 H2].
    apply Z.leb_le in H1. apply Z.leb_le in H2.
    assert (C : (d = 48 \/ d = 49 \/ d = 50 \/ d = 51 \/ d = 52 \/ d = 53 \/ d = 54 \/ d = 55 \/ d = 56 \/ d = 57)%Z) by lia.
    destruct C as [C|[C|[C|[C|[C|[C|[C|[C|[C|C]]]]]]]]]; subst d; reflexivity.
  Qed.

  (* a number state entered in front of a decimal digit consumes it *)
  Lemma scanNumber_strict l d t : l_rest l = d :: t -> is_dec_digit d = true ->
    S (n (snd (scanNumber uni_letter uni_digit l))) <= n l.
  Proof.
    intros R Hd. unfold scanNumber.
    destruct (scanNumber_prefix l) as [digits l2] eqn:EP.
    pose proof (scanNumber_frac_n digits (acceptRun digits l2)) as HF.
    pose proof (acceptRun_n digits l2) as HR.
    enough (S (n (acceptRun digits l2)) <= n l) by lia.
    unfold scanNumber_prefix in EP.
    destruct (accept (rs "0") l) as [z l1] eqn:E1.
    destruct z.
    - (* the leading 0 was consumed *)
      assert (H1 : S (n l1) = n l).
      { replace l1 with (snd (accept (rs "0") l)) by (rewrite E1; reflexivity). apply accept_hit_n; [rewrite E1; reflexivity|rewrite R; discriminate]. }
      assert (H2 : n l2 <= n l1).
      { replace l2 with (snd (scanNumber_prefix l)); [|unfold scanNumber_prefix; rewrite E1; rewrite EP; reflexivity].
        pose proof (scanNumber_prefix_n l) as HP. unfold scanNumber_prefix in *. rewrite E1 in *.
        clear - E1 EP HP H1.
        destruct (accept (rs "xX") l1) as [x l2'] eqn:E2.
        assert (n l2' <= n l1) by (replace l2' with (snd (accept (rs "xX") l1)) by (rewrite E2; reflexivity); apply accept_n).
        destruct x; [cbn; lia|].
        destruct (accept (rs "oO") l2') as [o l3] eqn:E3.
        assert (n l3 <= n l2') by (replace l3 with (snd (accept (rs "oO") l2')) by (rewrite E3; reflexivity); apply accept_n).
        destruct o; [cbn; lia|].
        destruct (accept (rs "bB") l3) as [b l4] eqn:E4.
        assert (n l4 <= n l3) by (replace l4 with (snd (accept (rs "bB") l3)) by (rewrite E4; reflexivity); apply accept_n).
        destruct b; cbn; lia. }
      lia.
    - (* no leading 0: the digit is consumed by acceptRun *)
      inversion EP; subst digits l2. clear EP.
      assert (P1 : l_rest l1 = l_rest l).
      { unfold accept in E1. destruct (next l) as [r l'] eqn:E. destruct (mem r (rs "0")); inversion E1; subst l1.
        replace l' with (snd (next l)) by (rewrite E; reflexivity). apply pk_pos. }
      assert (R1 : l_rest l1 = d :: t) by (rewrite P1; exact R).
      pose proof (run_while_head (fun r => mem r dec_digits) (List.length (l_rest l1)) l1 d t R1 (dec_digit_mem d Hd)) as H.
      unfold acceptRun. assert (N1 : n l1 = n l) by (unfold n; rewrite P1; reflexivity). lia.
  Qed.

  Lemma skip_spaces_n : forall fuel l, n (skip_spaces fuel l) <= n l.
  Proof.
    induction fuel as [|f IH]; intros l; cbn [skip_spaces]; [lia|].
    destruct (peek l) as [r l1] eqn:E.
    assert (H1 : n l1 = n l) by (replace l1 with (snd (peek l)) by (rewrite E; reflexivity); apply peek_n).
    destruct (r =? 32)%Z; [|lia]. pose proof (IH (snd (next l1))). pose proof (next_n l1). lia.
  Qed.

  Lemma expect_word_n : forall w l, n (snd (expect_word w l)) <= n l.
  Proof.
    induction w as [|ch w IH]; intros l; cbn [expect_word]; [cbn; lia|].
    destruct (next l) as [r l1] eqn:E.
    assert (n l1 <= n l) by (replace l1 with (snd (next l)) by (rewrite E; reflexivity); apply next_n).
    destruct (r =? ch)%Z; [pose proof (IH l1); lia|cbn; lia].
  Qed.

  Lemma acceptWord_n w l : n (snd (acceptWord w l)) <= n l.
  Proof.
    unfold acceptWord.
    pose proof (skip_spaces_n (S (List.length (l_rest l))) l) as H1.
    pose proof (expect_word_n w (skip_spaces (S (List.length (l_rest l))) l)) as H2.
    destruct (expect_word w (skip_spaces (S (List.length (l_rest l))) l)) as [ok l2].
    destruct ok; [|cbn [snd]; rewrite restore_n; lia].
    destruct (peek l2) as [r l3] eqn:E.
    assert (H3 : n l3 = n l2) by (replace l3 with (snd (peek l2)) by (rewrite E; reflexivity); apply peek_n).
    destruct (negb (r =? 32)%Z && negb (r =? eof)%Z); cbn [snd]; [rewrite restore_n; lia|].
    cbn [snd] in H2. lia.
  Qed.

  (* ---------------------------------------------------------------- the potential argument *)
  Definition phi (st : stfn) (l : lexer) : nat :=
    match st with
    | SRoot => 2 * n l + 1
    | SNumber | SDot | SIdentifier => 2 * n l
    | SNilsafe | SNot => 2 * n l + 2
    end.

  Definition inv (st : stfn) (l : lexer) : Prop :=
    match st with
    | SRoot => l_word l = []
    | SNumber => exists d t, l_rest l = d :: t /\ is_dec_digit d = true
    | SDot => l_rest l <> []
    | SIdentifier => l_word l = [] /\ exists r t, l_rest l = r :: t /\ is_alnum r = true
    | SNilsafe | SNot => True
    end.

  Lemma runes_eqb_eq : forall a b, runes_eqb a b = true -> a = b.
  Proof.
    induction a as [|x a IH]; destruct b as [|y b]; cbn; try discriminate; auto.
    intros H. apply andb_true_iff in H. destruct H as [H1 H2]. apply Z.eqb_eq in H1. subst. f_equal. auto.
  Qed.

  Lemma digit_of_mem d : mem d (rs "0123456789") = true -> is_dec_digit d = true.
  Proof.
    cbn. intros H. unfold is_dec_digit.
    repeat (apply orb_true_iff in H; destruct H as [H|H]; [apply Z.eqb_eq in H; subst d; reflexivity|]).
    discriminate.
  Qed.

  Lemma step_decreases st l st' l' : inv st l -> step st l = (Some st', l') ->
    inv st' l' /\ phi st' l' < phi st l.
  Proof.
    intros Hinv Hs. destruct st; cbn [Lexer.step] in Hs.
    - (* SRoot *)
      cbn in Hinv.
      destruct (next l) as [r l1] eqn:E.
      assert (L1 : l1 = snd (next l)) by (rewrite E; reflexivity).
      destruct (r =? eof)%Z eqn:Eeof; [discriminate|].
      destruct (l_rest l) as [|x t] eqn:R.
      { pose proof (next_nil_eof l R) as H. rewrite E in H. cbn in H. subst r. discriminate. }
      destruct (next_cons_n l x t R) as (F0 & F1 & F2 & F3). rewrite E in F0. cbn in F0. subst x.
      rewrite <- L1 in F1, F2, F3.
      assert (N1 : S (n l1) = n l) by (unfold n; rewrite F1, R; reflexivity).
      assert (PK : l_rest (backup l1) = r :: t /\ l_word (backup l1) = []).
      { rewrite L1. destruct (pk_pos l) as [A1 A2]. rewrite A1, A2, R, Hinv. auto. }
      assert (NPK : n (backup l1) = n l) by (rewrite L1; apply pk_n).
      destruct (is_space uni_space r).
      { inversion Hs; subst st' l'. cbn [inv phi]. rewrite ignore_n. split; [reflexivity|lia]. }
      destruct ((r =? 39)%Z || (r =? 34)%Z).
      { pose proof (scanString_n r l1) as HS.
        destruct (unescape (word (scanString r l1))); inversion Hs; subst st' l'; cbn [inv phi].
        - rewrite emitValue_n. split; [reflexivity|lia].
        - rewrite emitValue_n, set_error_n. split; [reflexivity|lia]. }
      destruct ((48 <=? r)%Z && (r <=? 57)%Z) eqn:Edig.
      { inversion Hs; subst st' l'. cbn [inv phi]. split; [|lia].
        exists r, t. split; [apply PK|exact Edig]. }
      destruct (r =? 63)%Z.
      { destruct (peek l1) as [p l2] eqn:E2.
        assert (N2 : n l2 = n l1) by (replace l2 with (snd (peek l1)) by (rewrite E2; reflexivity); apply peek_n).
        destruct (p =? 46)%Z; inversion Hs; subst st' l'; cbn [inv phi]; [split; [exact I|lia]|].
        rewrite emit_n. split; [reflexivity|lia]. }
      destruct (mem r (rs "([{")); [inversion Hs; subst st' l'; cbn [inv phi]; rewrite emit_n; split; [reflexivity|lia]|].
      destruct (mem r (rs ")]}")); [inversion Hs; subst st' l'; cbn [inv phi]; rewrite emit_n; split; [reflexivity|lia]|].
      destruct (mem r (rs "#,?:%+-/")); [inversion Hs; subst st' l'; cbn [inv phi]; rewrite emit_n; split; [reflexivity|lia]|].
      destruct (mem r (rs "&|!=*<>")).
      { inversion Hs; subst st' l'; cbn [inv phi]; rewrite emit_n. pose proof (accept_n (rs "&|=*") l1). split; [reflexivity|lia]. }
      destruct (r =? 46)%Z.
      { inversion Hs; subst st' l'. cbn [inv phi]. split; [|lia]. destruct PK as [A _]. rewrite A. discriminate. }
      destruct (is_alnum r) eqn:Eal; [|discriminate].
      inversion Hs; subst st' l'. cbn [inv phi]. split; [|lia]. split; [apply PK|]. exists r, t. split; [apply PK|exact Eal].
    - (* SNumber *)
      destruct Hinv as (d & t & R & Hd).
      pose proof (scanNumber_strict l d t R Hd) as HN.
      destruct (scanNumber uni_letter uni_digit l) as [ok l1]. cbn [snd] in HN.
      destruct ok; inversion Hs; subst st' l'. cbn [inv phi]. rewrite emit_n. split; [reflexivity|lia].
    - (* SDot *)
      cbn in Hinv.
      destruct (next l) as [c l1] eqn:E.
      assert (L1 : l1 = snd (next l)) by (rewrite E; reflexivity).
      destruct (l_rest l) as [|x t] eqn:R; [contradiction|].
      destruct (next_cons_n l x t R) as (_ & F1 & _). rewrite <- L1 in F1.
      assert (N1 : S (n l1) = n l) by (unfold n; rewrite F1, R; reflexivity).
      unfold accept in Hs. destruct (next l1) as [r2 l2] eqn:E2.
      assert (L2 : l2 = snd (next l1)) by (rewrite E2; reflexivity).
      destruct (mem r2 (rs "0123456789")) eqn:Em.
      + inversion Hs; subst st' l'. cbn [inv phi].
        destruct (pk_pos l1) as [A1 A2]. pose proof (pk_n l1) as A3. rewrite <- L2 in A1, A2, A3.
        split; [|lia].
        destruct (l_rest l1) as [|y t1] eqn:R1.
        { pose proof (next_nil_eof l1 R1) as H. rewrite E2 in H. cbn in H. subst r2. discriminate. }
        destruct (next_cons_n l1 y t1 R1) as (G0 & _). rewrite E2 in G0. cbn in G0. subst y.
        exists r2, t1. split; [rewrite A1; reflexivity|apply digit_of_mem; exact Em].
      + destruct (next (backup l2)) as [r3 l3] eqn:E3.
        assert (N2 : n (backup l2) = n l1) by (rewrite L2; apply pk_n).
        assert (N3 : n l3 <= n (backup l2)) by (replace l3 with (snd (next (backup l2))) by (rewrite E3; reflexivity); apply next_n).
        destruct (mem r3 (rs ".")); inversion Hs; subst st' l'; cbn [inv phi snd]; rewrite emit_n.
        * split; [reflexivity|lia].
        * replace l3 with (snd (next (backup l2))) by (rewrite E3; reflexivity). rewrite pk_n. split; [reflexivity|lia].
    - (* SNilsafe *)
      destruct (next l) as [c l1] eqn:E.
      assert (N1 : n l1 <= n l) by (replace l1 with (snd (next l)) by (rewrite E; reflexivity); apply next_n).
      inversion Hs; subst st' l'. cbn [inv phi]. rewrite emit_n. pose proof (accept_n (rs "?.") l1). split; [reflexivity|lia].
    - (* SIdentifier *)
      destruct Hinv as (Hw & r & t & R & Hal).
      set (l1 := run_while is_alnum (S (List.length (l_rest l))) l) in *.
      pose proof (run_while_head is_alnum (List.length (l_rest l)) l r t R Hal) as HN. fold l1 in HN.
      destruct (runes_eqb (word l1) (rs "not")) eqn:Enot.
      + inversion Hs; subst st' l'. cbn [inv phi]. split; [exact I|].
        destruct (run_while_adv is_alnum (S (List.length (l_rest l))) l) as (w & W1 & W2). fold l1 in W1, W2.
        apply runes_eqb_eq in Enot. unfold word in Enot. rewrite W2, Hw, app_nil_r, rev_involutive in Enot.
        subst w. unfold n. rewrite W1. cbn. lia.
      + destruct (existsb (runes_eqb (word l1)) word_operators); inversion Hs; subst st' l'; cbn [inv phi]; rewrite emit_n; split; try reflexivity; lia.
    - (* SNot *)
      pose proof (acceptWord_n (rs "in") l) as HN.
      destruct (acceptWord (rs "in") l) as [ok l1]. cbn [snd] in HN.
      destruct ok; inversion Hs; subst st' l'; cbn [inv phi]; rewrite emitValue_n; split; try reflexivity; lia.
  Qed.

  Lemma lex_fuel_enough : forall fuel st l, inv st l -> phi st l < fuel -> lex_fuel fuel st l <> None.
  Proof.
    induction fuel as [|f IH]; intros st l Hi Hf; [lia|].
    cbn [Lexer.lex_fuel]. destruct (step st l) as [[st'|] l'] eqn:E; [|discriminate].
    destruct (step_decreases st l st' l' Hi E) as [Hi' Hd]. apply IH; [exact Hi'|lia].
  Qed.

  (* the fuel 2*|input|+2 of the lexer model suffices for EVERY rune list *)
  Theorem lex_total input : lex uni_letter uni_digit uni_space input <> LexOutOfFuel.
  Proof.
    unfold lex.
    pose proof (lex_fuel_enough (2 * List.length input + 2) SRoot (init input)) as H.
    destruct (lex_fuel (2 * List.length input + 2) SRoot (init input)) as [l|].
    - destruct (l_err l); discriminate.
    - exfalso. apply H; [reflexivity|cbn; lia|reflexivity].
  Qed.

  (* lexer.Lex never returns an empty token list: parser.Parse's tokens[0] cannot fail *)
  Lemma set_error_err l : l_err (set_error l) <> None.
  Proof. unfold set_error. destruct (l_err l) eqn:E; [rewrite E; discriminate|cbn; discriminate]. Qed.

  Lemma step_final st l l' : step st l = (None, l') -> l_err l' <> None \/ l_tokens l' <> [].
  Proof.
    intros Hs. destruct st; cbn [Lexer.step] in Hs.
    - destruct (next l) as [r l1].
      destruct (r =? eof)%Z; [inversion Hs; subst; right; cbn; discriminate|].
      destruct (is_space uni_space r); [discriminate|].
      destruct ((r =? 39)%Z || (r =? 34)%Z); [destruct (unescape (word (scanString r l1))); discriminate|].
      destruct ((48 <=? r)%Z && (r <=? 57)%Z); [discriminate|].
      destruct (r =? 63)%Z; [destruct (peek l1) as [p l2]; destruct (p =? 46)%Z; discriminate|].
      destruct (mem r (rs "([{")); [discriminate|].
      destruct (mem r (rs ")]}")); [discriminate|].
      destruct (mem r (rs "#,?:%+-/")); [discriminate|].
      destruct (mem r (rs "&|!=*<>")); [discriminate|].
      destruct (r =? 46)%Z; [discriminate|].
      destruct (is_alnum r); [discriminate|].
      inversion Hs; subst. left. apply set_error_err.
    - destruct (scanNumber uni_letter uni_digit l) as [ok l1]. destruct ok; [discriminate|].
      inversion Hs; subst. left. apply set_error_err.
    - destruct (next l) as [c l1]. destruct (accept (rs "0123456789") l1) as [d l2]. destruct d; discriminate.
    - destruct (next l) as [c l1]. discriminate.
    - destruct (runes_eqb _ _); [discriminate|]. destruct (existsb _ _); discriminate.
    - destruct (acceptWord (rs "in") l) as [ok l1]. destruct ok; discriminate.
  Qed.

  Lemma lex_fuel_final : forall fuel st l l', lex_fuel fuel st l = Some l' -> l_err l' <> None \/ l_tokens l' <> [].
  Proof.
    induction fuel as [|f IH]; intros st l l' H; [discriminate|].
    cbn [Lexer.lex_fuel] in H. destruct (step st l) as [[st'|] l1] eqn:E.
    - eapply IH; eauto.
    - inversion H; subst. eapply step_final; eauto.
  Qed.

  Theorem lex_ok_nonempty input ts : lex uni_letter uni_digit uni_space input = LexOk ts -> ts <> [].
  Proof.
    unfold lex. destruct (lex_fuel (2 * List.length input + 2) SRoot (init input)) as [l|] eqn:E; [|discriminate].
    destruct (lex_fuel_final _ _ _ _ E) as [H|H].
    - destruct (l_err l); [discriminate|contradiction].
    - destruct (l_err l); [discriminate|]. intros H1. inversion H1; subst. intros H2.
      apply H. apply (f_equal (@rev token)) in H2. rewrite rev_involutive in H2. exact H2.
  Qed.
End WithClasses.
End LexTotal.

(* ------------------------------------------------------------------ parser: the fuel is sufficient
   Every nested parseExpression and every loop iteration runs on a strictly shorter token list
   (weakest-precondition style lemmas per parse function; `lt_ts rest ts`: rest is non-empty and
   shorter than ts). *)
Module ParseTotal.
Import X.Parse.Parser.
Local Open Scope list_scope.

Definition lt_ts (rest ts : list token) : Prop := rest <> [] /\ (List.length rest < List.length ts)%nat.
Definition le_ts (rest ts : list token) : Prop := rest <> [] /\ (List.length rest <= List.length ts)%nat.

Definition wp {A : Type} (r : pres A) (Q : A -> list token -> Prop) : Prop :=
  match r with POk a rest => Q a rest | PErr _ => True | PFuel => False end.

Lemma wp_mono {A : Type} (r : pres A) (Q Q' : A -> list token -> Prop) :
  wp r Q -> (forall a x, Q a x -> Q' a x) -> wp r Q'.
Proof. destruct r; cbn; auto. Qed.

Lemma wp_pbind {A B : Type} (r : pres A) (k : A -> list token -> pres B) Q :
  wp r (fun a ts' => wp (k a ts') Q) -> wp (pbind r k) Q.
Proof. destruct r; cbn; auto. Qed.

Lemma wp_next {A : Type} ts (k : list token -> pres A) Q :
  (forall ts1, lt_ts ts1 ts -> wp (k ts1) Q) -> wp (next ts k) Q.
Proof.
  intros H. destruct ts as [|t [|t2 r]]; cbn; auto.
  apply H. split; [discriminate|cbn; lia].
Qed.

Lemma wp_expect {A : Type} kd v ts (k : list token -> pres A) Q :
  (forall ts1, lt_ts ts1 ts -> wp (k ts1) Q) -> wp (expect kd v ts k) Q.
Proof. intros H. unfold expect. destruct (tok_is (cur ts) kd [v]); [apply wp_next; exact H|exact I]. Qed.

Lemma lt_le a b : lt_ts a b -> le_ts a b.
Proof. unfold lt_ts, le_ts. intros [? ?]; split; [auto|lia]. Qed.
Lemma le_refl ts : ts <> [] -> le_ts ts ts.
Proof. split; auto. Qed.
Lemma lt_le_trans a b c : lt_ts a b -> le_ts b c -> lt_ts a c.
Proof. unfold lt_ts, le_ts. intros [? ?] [? ?]; split; [auto|lia]. Qed.
Lemma le_lt_trans a b c : le_ts a b -> lt_ts b c -> lt_ts a c.
Proof. unfold lt_ts, le_ts. intros [? ?] [? ?]; split; [auto|lia]. Qed.
Lemma le_le_trans a b c : le_ts a b -> le_ts b c -> le_ts a c.
Proof. unfold le_ts. intros [? ?] [? ?]; split; [auto|lia]. Qed.
Lemma lt_lt_trans a b c : lt_ts a b -> lt_ts b c -> lt_ts a c.
Proof. unfold lt_ts. intros [? ?] [? ?]; split; [auto|lia]. Qed.

Section Body.
  Variable g : grammar.
  Variable o : oracles.
  Variable pe : Z -> nat -> list token -> pres expr.
  Variable B : nat.
  Hypothesis Hpe : forall prec d ts, ts <> [] -> (List.length ts < B)%nat ->
    wp (pe prec d ts) (fun _ rest => lt_ts rest ts).

  Ltac len := unfold lt_ts, le_ts in *; repeat match goal with H : _ /\ _ |- _ => destruct H end; try split; auto; try lia.

  Lemma pe_ok prec d ts ts0 (Q : expr -> list token -> Prop) :
    lt_ts ts ts0 -> (List.length ts0 <= B)%nat ->
    (forall e rest, lt_ts rest ts -> Q e rest) -> wp (pe prec d ts) Q.
  Proof.
    intros H1 H2 HQ. eapply wp_mono; [apply Hpe; len|]. cbn. intros e x Hx. apply HQ. exact Hx.
  Qed.

  Lemma args_loop_ok : forall lf d acc ts, ts <> [] -> (List.length ts < B)%nat -> (List.length ts <= lf)%nat ->
    wp (args_loop pe lf d acc ts) (fun _ rest => le_ts rest ts).
  Proof.
    induction lf as [|lf IH]; intros d acc ts Hne HB Hlf; cbn [args_loop].
    - destruct ts; [contradiction|cbn in Hlf; lia].
    - destruct (tok_is (cur ts) TkBracket [")"%string]); [cbn; len|].
      assert (K : forall ts1, le_ts ts1 ts ->
              wp (pbind (pe 0 d ts1) (fun node ts2 => args_loop pe lf d (acc ++ [node]) ts2)) (fun _ rest => le_ts rest ts)).
      { intros ts1 H1. apply wp_pbind. eapply wp_mono; [apply Hpe; len|]. cbn. intros e ts2 H2.
        eapply wp_mono; [apply IH; len|]. cbn. intros _ rest H3. len. }
      destruct acc.
      + apply K. len.
      + apply wp_expect. intros ts1 H1. apply K. len.
  Qed.

  Variable LF : nat.

  Lemma parse_arguments_ok d ts : ts <> [] -> (List.length ts <= B)%nat -> (List.length ts <= LF)%nat ->
    wp (parse_arguments pe LF d ts) (fun _ rest => lt_ts rest ts).
  Proof.
    intros Hne HB HL. unfold parse_arguments. apply wp_expect. intros ts1 H1.
    apply wp_pbind. eapply wp_mono; [apply args_loop_ok; len|]. cbn. intros args ts2 H2.
    apply wp_expect. intros ts3 H3. cbn. len.
  Qed.

  Lemma postfix_loop_ok : forall lf d ns node ts, ts <> [] -> (List.length ts <= B)%nat -> (List.length ts <= LF)%nat ->
    (List.length ts <= lf)%nat ->
    wp (postfix_loop pe LF lf d ns node ts) (fun _ rest => le_ts rest ts /\
        ((is_kind (cur ts) TkOperator || is_kind (cur ts) TkBracket) && (val_is (cur ts) "." || val_is (cur ts) "?.") = true -> lt_ts rest ts)).
  Proof.
    induction lf as [|lf IH]; intros d ns node ts Hne HB HL Hlf.
    - destruct ts; [contradiction|cbn in Hlf; lia].
    - cbn [postfix_loop].
      destruct (is_kind (cur ts) TkOperator || is_kind (cur ts) TkBracket) eqn:Ek; [|cbn; split; [len|intros; discriminate]].
      destruct (val_is (cur ts) "." || val_is (cur ts) "?.") eqn:Ed.
      + apply wp_next. intros ts1 H1. apply wp_next. intros ts2 H2.
        destruct (negb (is_kind (cur ts1) TkIdentifier) && (negb (is_kind (cur ts1) TkOperator) || negb (valid_identifier (tval (cur ts1))))); [exact I|].
        destruct (tok_is (cur ts2) TkBracket ["("%string]).
        * apply wp_pbind. eapply wp_mono; [apply parse_arguments_ok; len|]. cbn. intros args ts3 H3.
          eapply wp_mono; [apply IH; len|]. cbn. intros _ rest [H4 _]. split; [len|intros _; len].
        * eapply wp_mono; [apply IH; len|]. cbn. intros _ rest [H4 _]. split; [len|intros _; len].
      + destruct (val_is (cur ts) "[") eqn:Eb; [|cbn; split; [len|intros; discriminate]].
        assert (Fin : forall x ts', lt_ts ts' ts ->
                  wp (postfix_loop pe LF lf d ns x ts') (fun _ rest => le_ts rest ts /\ (true && false = true -> lt_ts rest ts))).
        { intros x ts' H'. eapply wp_mono; [apply IH; len|]. cbn. intros _ rest [H4 _]. split; [len|intros; discriminate]. }
        apply wp_next. intros ts1 H1.
        destruct (tok_is (cur ts1) TkOperator [":"%string]).
        * apply wp_next. intros ts2 H2.
          destruct (negb (tok_is (cur ts2) TkBracket ["]"%string])).
          -- apply wp_pbind. eapply pe_ok with (ts0 := ts); [len|len|]. intros e ts3 H3.
             apply wp_expect. intros ts4 H4. apply Fin. len.
          -- apply wp_expect. intros ts3 H3. apply Fin. len.
        * apply wp_pbind. eapply pe_ok with (ts0 := ts); [len|len|]. intros e ts2 H2.
          destruct (tok_is (cur ts2) TkOperator [":"%string]).
          -- apply wp_next. intros ts3 H3.
             destruct (negb (tok_is (cur ts3) TkBracket ["]"%string])).
             ++ apply wp_pbind. eapply pe_ok with (ts0 := ts); [len|len|]. intros e2 ts4 H4.
                apply wp_expect. intros ts5 H5. apply Fin. len.
             ++ apply wp_expect. intros ts4 H4. apply Fin. len.
          -- apply wp_expect. intros ts3 H3. apply Fin. len.
  Qed.

  Lemma parse_closure_ok d ts : ts <> [] -> (List.length ts <= B)%nat ->
    wp (parse_closure pe d ts) (fun _ rest => lt_ts rest ts).
  Proof.
    intros Hne HB. unfold parse_closure. apply wp_expect. intros ts1 H1.
    apply wp_pbind. eapply pe_ok with (ts0 := ts); [len|len|]. intros e ts2 H2.
    apply wp_expect. intros ts3 H3. cbn. len.
  Qed.

  Lemma array_loop_ok : forall lf d acc ts, ts <> [] -> (List.length ts < B)%nat -> (List.length ts <= lf)%nat ->
    wp (array_loop pe lf d acc ts) (fun _ rest => le_ts rest ts).
  Proof.
    induction lf as [|lf IH]; intros d acc ts Hne HB Hlf; cbn [array_loop].
    - destruct ts; [contradiction|cbn in Hlf; lia].
    - destruct (tok_is (cur ts) TkBracket ["]"%string]); [cbn; len|].
      assert (K : forall ts1, le_ts ts1 ts ->
              wp (pbind (pe 0 d ts1) (fun node ts2 => array_loop pe lf d (acc ++ [node]) ts2)) (fun _ rest => le_ts rest ts)).
      { intros ts1 H1. apply wp_pbind. eapply wp_mono; [apply Hpe; len|]. cbn. intros e ts2 H2.
        eapply wp_mono; [apply IH; len|]. cbn. intros _ rest H3. len. }
      destruct acc.
      + apply K. len.
      + apply wp_expect. intros ts1 H1.
        destruct (tok_is (cur ts1) TkBracket ["]"%string]); [cbn; len|]. apply K. len.
  Qed.

  Lemma parse_array_ok tk d ts : ts <> [] -> (List.length ts <= B)%nat -> (List.length ts <= LF)%nat ->
    wp (parse_array pe LF tk d ts) (fun _ rest => lt_ts rest ts).
  Proof.
    intros Hne HB HL. unfold parse_array. apply wp_expect. intros ts1 H1.
    apply wp_pbind. eapply wp_mono; [apply array_loop_ok; len|]. cbn. intros nodes ts2 H2.
    apply wp_expect. intros ts3 H3. cbn. len.
  Qed.

  Lemma map_loop_ok : forall lf mloc d acc ts, ts <> [] -> (List.length ts < B)%nat -> (List.length ts <= lf)%nat ->
    wp (map_loop pe lf mloc d acc ts) (fun _ rest => le_ts rest ts).
  Proof.
    induction lf as [|lf IH]; intros mloc d acc ts Hne HB Hlf; cbn [map_loop].
    - destruct ts; [contradiction|cbn in Hlf; lia].
    - destruct (tok_is (cur ts) TkBracket ["}"%string]); [cbn; len|].
      assert (AK : forall key ts2, le_ts ts2 ts ->
               wp (expect TkOperator ":" ts2 (fun ts3 =>
                   pbind (pe 0 d ts3) (fun node ts4 => map_loop pe lf mloc d (acc ++ [EPair (at_loc mloc) key node]) ts4)))
                  (fun _ rest => le_ts rest ts)).
      { intros key ts2 H2. apply wp_expect. intros ts3 H3. apply wp_pbind.
        eapply wp_mono; [apply Hpe; len|]. cbn. intros e ts4 H4.
        eapply wp_mono; [apply IH; len|]. cbn. intros _ rest H5. len. }
      assert (PAIR : forall ts1, le_ts ts1 ts ->
               wp ((fun ts1 =>
                 let ktk := cur ts1 in
                 let after_key := fun key ts2 =>
                   expect TkOperator ":" ts2 (fun ts3 =>
                   pbind (pe 0 d ts3) (fun node ts4 => map_loop pe lf mloc d (acc ++ [EPair (at_loc mloc) key node]) ts4)) in
                 if is_kind ktk TkNumber || is_kind ktk TkString || is_kind ktk TkIdentifier then
                   next ts1 (fun ts2 => after_key (EStr (at_loc mloc) (tval ktk)) ts2)
                 else if tok_is ktk TkBracket ["("%string] then
                   pbind (pe 0 d ts1) after_key
                 else PErr (tloc ktk)) ts1) (fun _ rest => le_ts rest ts)).
      { intros ts1 H1. cbn beta zeta.
        destruct (is_kind (cur ts1) TkNumber || is_kind (cur ts1) TkString || is_kind (cur ts1) TkIdentifier).
        - apply wp_next. intros ts2 H2. apply AK. len.
        - destruct (tok_is (cur ts1) TkBracket ["("%string]); [|exact I].
          apply wp_pbind. eapply wp_mono; [apply Hpe; len|]. cbn. intros key ts2 H2. apply AK. len. }
      destruct acc.
      + apply PAIR. len.
      + apply wp_expect. intros ts1 H1.
        destruct (tok_is (cur ts1) TkBracket ["}"%string]); [cbn; len|].
        destruct (tok_is (cur ts1) TkOperator [","%string]); [exact I|].
        apply PAIR. len.
  Qed.

  Lemma parse_map_ok tk d ts : ts <> [] -> (List.length ts <= B)%nat -> (List.length ts <= LF)%nat ->
    wp (parse_map pe LF tk d ts) (fun _ rest => lt_ts rest ts).
  Proof.
    intros Hne HB HL. unfold parse_map. apply wp_expect. intros ts1 H1.
    apply wp_pbind. eapply wp_mono; [apply map_loop_ok; len|]. cbn. intros nodes ts2 H2.
    apply wp_expect. intros ts3 H3. cbn. len.
  Qed.

  Lemma parse_identifier_expression_ok tk d ts : ts <> [] -> (List.length ts <= B)%nat -> (List.length ts <= LF)%nat ->
    wp (parse_identifier_expression g pe LF tk d ts) (fun _ rest => le_ts rest ts).
  Proof.
    intros Hne HB HL. unfold parse_identifier_expression.
    destruct (tok_is (cur ts) TkBracket ["("%string]); [|cbn; len].
    destruct (lookup (tval tk) (g_builtins g)) as [arity|].
    - apply wp_expect. intros ts1 H1.
      assert (FIN : forall args ts2, le_ts ts2 ts1 ->
                wp (expect TkBracket ")" ts2 (fun ts3 => POk (EBuiltin (at_loc (tloc tk)) (builtin_of_string (tval tk)) args) ts3))
                   (fun _ rest => le_ts rest ts)).
      { intros args ts2 H2. apply wp_expect. intros ts3 H3. cbn. len. }
      destruct (arity =? 1)%Z.
      + apply wp_pbind. eapply pe_ok with (ts0 := ts); [len|len|]. intros e ts2 H2. apply FIN. len.
      + destruct (arity =? 2)%Z; [|apply FIN; len].
        apply wp_pbind. eapply pe_ok with (ts0 := ts); [len|len|]. intros e ts2 H2.
        apply wp_expect. intros ts3 H3. apply wp_pbind.
        eapply wp_mono; [apply parse_closure_ok; len|]. cbn. intros c ts4 H4. apply FIN. len.
    - apply wp_pbind. eapply wp_mono; [apply parse_arguments_ok; len|]. cbn. intros args ts1 H1. len.
  Qed.

  Lemma parse_primary_expression_ok d ts : ts <> [] -> (List.length ts <= B)%nat -> (List.length ts <= LF)%nat ->
    wp (parse_primary_expression g o pe LF d ts) (fun _ rest => lt_ts rest ts).
  Proof.
    intros Hne HB HL. unfold parse_primary_expression.
    destruct (tkind_of (cur ts)).
    - apply wp_next. intros ts1 H1.
      destruct (val_is (cur ts) "true"); [cbn; len|].
      destruct (val_is (cur ts) "false"); [cbn; len|].
      destruct (val_is (cur ts) "nil"); [cbn; len|].
      apply wp_pbind. eapply wp_mono; [apply parse_identifier_expression_ok; len|]. cbn. intros e ts2 H2. len.
    - apply wp_next. intros ts1 H1. destruct (number_value (o_float o) (tval (cur ts))); cbn; len.
    - apply wp_next. intros ts1 H1. cbn. len.
    - destruct (tok_is (cur ts) TkBracket ["["%string]).
      + apply wp_pbind. eapply wp_mono; [apply parse_array_ok; len|]. cbn. intros e ts1 H1. len.
      + destruct (tok_is (cur ts) TkBracket ["{"%string]); [|exact I].
        apply wp_pbind. eapply wp_mono; [apply parse_map_ok; len|]. cbn. intros e ts1 H1. len.
    - destruct (tok_is (cur ts) TkBracket ["["%string]).
      + apply wp_pbind. eapply wp_mono; [apply parse_array_ok; len|]. cbn. intros e ts1 H1. len.
      + destruct (tok_is (cur ts) TkBracket ["{"%string]); [|exact I].
        apply wp_pbind. eapply wp_mono; [apply parse_map_ok; len|]. cbn. intros e ts1 H1. len.
    - destruct (tok_is (cur ts) TkBracket ["["%string]).
      + apply wp_pbind. eapply wp_mono; [apply parse_array_ok; len|]. cbn. intros e ts1 H1. len.
      + destruct (tok_is (cur ts) TkBracket ["{"%string]); [|exact I].
        apply wp_pbind. eapply wp_mono; [apply parse_map_ok; len|]. cbn. intros e ts1 H1. len.
  Qed.

  (* parse_base consumes at least one token, except for the `.` pointer inside a closure, which is
     left for parsePostfixExpression (and then flagged for it) *)
  Definition dot_first (ts : list token) : bool :=
    (is_kind (cur ts) TkOperator || is_kind (cur ts) TkBracket) && (val_is (cur ts) "." || val_is (cur ts) "?.").

  Lemma tok_is_dot tk : tok_is tk TkOperator ["."%string] = true -> is_kind tk TkOperator = true /\ val_is tk "." = true.
  Proof.
    unfold tok_is, is_kind, val_is. cbn. rewrite orb_false_r. intros H. apply andb_true_iff in H. destruct H as [H1 H2].
    split; [exact H2|exact H1].
  Qed.

  Lemma parse_base_ok d ts : ts <> [] -> (List.length ts <= B)%nat -> (List.length ts <= LF)%nat ->
    wp (parse_base g o pe LF d ts) (fun xb rest => lt_ts rest ts \/ (rest = ts /\ snd xb = true /\ dot_first ts = true)).
  Proof.
    intros Hne HB HL. unfold parse_base.
    destruct (if is_kind (cur ts) TkOperator then lookup (tval (cur ts)) (g_unary g) else None) as [uprec|].
    - apply wp_next. intros ts1 H1. apply wp_pbind. eapply pe_ok with (ts0 := ts); [len|len|]. intros e ts2 H2. cbn. left. len.
    - destruct (tok_is (cur ts) TkBracket ["("%string]).
      + apply wp_next. intros ts1 H1. apply wp_pbind. eapply pe_ok with (ts0 := ts); [len|len|]. intros e ts2 H2.
        apply wp_expect. intros ts3 H3. cbn. left. len.
      + destruct d.
        * destruct (tok_is (cur ts) TkOperator ["#"%string] || tok_is (cur ts) TkOperator ["."%string]); [exact I|].
          eapply wp_mono; [apply parse_primary_expression_ok; len|]. cbn. intros xb rest H. left. exact H.
        * destruct (tok_is (cur ts) TkOperator ["#"%string]) eqn:Eh; cbn [orb].
          -- apply wp_next. intros ts1 H1. cbn. left. len.
          -- destruct (tok_is (cur ts) TkOperator ["."%string]) eqn:Ed.
             ++ cbn. right. split; [reflexivity|]. split; [reflexivity|].
                destruct (tok_is_dot _ Ed) as [K1 K2]. unfold dot_first. rewrite K1, K2. reflexivity.
             ++ eapply wp_mono; [apply parse_primary_expression_ok; len|]. cbn. intros xb rest H. left. exact H.
  Qed.

  Lemma parse_primary_ok d ts : ts <> [] -> (List.length ts <= B)%nat -> (List.length ts <= LF)%nat ->
    wp (parse_primary g o pe LF d ts) (fun _ rest => lt_ts rest ts).
  Proof.
    intros Hne HB HL. unfold parse_primary. apply wp_pbind.
    eapply wp_mono; [apply parse_base_ok; len|]. cbn. intros xb ts1 [H1|(E1 & E2 & E3)].
    - destruct (snd xb); [|cbn; exact H1].
      eapply wp_mono; [apply postfix_loop_ok; len|]. cbn. intros _ rest [H2 _]. len.
    - subst ts1. rewrite E2. eapply wp_mono; [apply postfix_loop_ok; len|]. cbn. intros _ rest [_ H2]. apply H2. exact E3.
  Qed.

  Lemma binary_loop_ok : forall lf prec d left ts, ts <> [] -> (List.length ts <= B)%nat -> (List.length ts <= lf)%nat ->
    wp (binary_loop g o pe lf prec d left ts) (fun _ rest => le_ts rest ts).
  Proof.
    induction lf as [|lf IH]; intros prec d left ts Hne HB Hlf.
    - destruct ts; [contradiction|cbn in Hlf; lia].
    - cbn [binary_loop]. destruct (is_kind (cur ts) TkOperator); [|cbn; len].
      destruct (lookup (tval (cur ts)) (g_binary g)) as [[oprec ra]|]; [|cbn; len].
      destruct (oprec >=? prec)%Z; [|cbn; len].
      apply wp_next. intros ts1 H1. apply wp_pbind. eapply pe_ok with (ts0 := ts); [len|len|]. intros right ts2 H2.
      assert (R : forall x, wp (binary_loop g o pe lf prec d x ts2) (fun _ rest => le_ts rest ts)).
      { intros x. eapply wp_mono; [apply IH; len|]. cbn. intros _ rest H3. len. }
      destruct (val_is (cur ts) "matches"); [|apply R].
      destruct right; try apply R. destruct (o_regex o s); [apply R|exact I].
  Qed.

  Lemma cond_loop_ok : forall lf d node ts, ts <> [] -> (List.length ts <= B)%nat -> (List.length ts <= lf)%nat ->
    wp (cond_loop pe lf d node ts) (fun _ rest => le_ts rest ts).
  Proof.
    induction lf as [|lf IH]; intros d node ts Hne HB Hlf.
    - destruct ts; [contradiction|cbn in Hlf; lia].
    - cbn [cond_loop]. destruct (tok_is (cur ts) TkOperator ["?"%string]); [|cbn; len].
      apply wp_next. intros ts1 H1.
      destruct (negb (tok_is (cur ts1) TkOperator [":"%string])).
      + apply wp_pbind. eapply pe_ok with (ts0 := ts); [len|len|]. intros e1 ts2 H2.
        apply wp_expect. intros ts3 H3. apply wp_pbind. eapply pe_ok with (ts0 := ts); [len|len|]. intros e2 ts4 H4.
        eapply wp_mono; [apply IH; len|]. cbn. intros _ rest H5. len.
      + apply wp_next. intros ts2 H2. apply wp_pbind. eapply pe_ok with (ts0 := ts); [len|len|]. intros e2 ts3 H3.
        eapply wp_mono; [apply IH; len|]. cbn. intros _ rest H5. len.
  Qed.

  Lemma expression_body_ok prec d ts : ts <> [] -> (List.length ts <= B)%nat -> (List.length ts <= LF)%nat ->
    wp (expression_body g o pe LF prec d ts) (fun _ rest => lt_ts rest ts).
  Proof.
    intros Hne HB HL. unfold expression_body. apply wp_pbind.
    eapply wp_mono; [apply parse_primary_ok; len|]. cbn. intros left ts1 H1.
    apply wp_pbind. eapply wp_mono; [apply binary_loop_ok; len|]. cbn. intros node ts2 H2.
    destruct (prec =? 0)%Z; [|cbn; len].
    eapply wp_mono; [apply cond_loop_ok; len|]. cbn. intros _ rest H3. len.
  Qed.
End Body.

Theorem parse_expr_ok g o : forall n prec d ts, ts <> [] -> (List.length ts < n)%nat ->
  wp (parse_expr g o n prec d ts) (fun _ rest => lt_ts rest ts).
Proof.
  induction n as [|n IH]; intros prec d ts Hne Hn; [lia|].
  cbn [parse_expr]. apply (expression_body_ok g o (parse_expr g o n) n IH n); [exact Hne|lia|lia].
Qed.

(* the fuel S (length ts) that parser.Parse's model uses is sufficient for EVERY token list *)
Theorem parse_total g o ts : parse g o ts <> RFuel.
Proof.
  unfold parse, parse_with_fuel. destruct ts as [|t r]; [discriminate|].
  pose proof (parse_expr_ok g o (S (List.length (t :: r))) 0%Z 0%nat (t :: r) ltac:(discriminate) ltac:(lia)) as H.
  destruct (parse_expr g o (S (List.length (t :: r))) 0 0 (t :: r)); cbn in H; [|discriminate|contradiction].
  destruct (is_kind (cur rest) TkEOF); discriminate.
Qed.
End ParseTotal.

(* ------------------------------------------------------------------ reference semantics and VM model *)
(* Sem.eval is a Coq function: for every expression, environment and state it yields a value or a
   located failure - there is no third possibility and no non-termination *)
Theorem eval_total (fe : X.Sem.Prim.fenv) (cfg : X.Sem.Sem.config) (env : value) (c : X.Sem.Sem.cast) (e : expr) :
  (exists v s, X.Sem.Sem.run_ref fe cfg env c e = X.Sem.Sem.Done v s) \/
  (exists er l s, X.Sem.Sem.run_ref fe cfg env c e = X.Sem.Sem.Stop er l s).
Proof. destruct (X.Sem.Sem.run_ref fe cfg env c e) as [v s|er l s]; [left; eauto|right; eauto]. Qed.

(* the VM model terminates on every compiled program: a fuel depth exists from which on the run is
   finished (never `None` = out of fuel), with the result of the reference semantics *)
Theorem vm_total (fe : X.Sem.Prim.fenv) (cfg : X.Sem.Sem.config) (env : value) (e : expr) :
  X.BC.Compiler.compilable e = true ->
  X.BC.RunProofs.stop_is_locatable (X.Sem.Sem.eval fe cfg env [] e X.Sem.Sem.rs0) ->
  exists d0, forall d, (d0 <= d)%nat ->
    X.BC.VM.run_code fe cfg env (X.BC.Compiler.compile (X.Sem.Sem.c_mapenv cfg) e) d <> None.
Proof.
  intros Hc Hl. destruct (X.BC.RunProofs.run_compiled fe cfg env e Hc Hl) as [d0 H].
  exists d0. intros d Hd. rewrite (H d Hd). discriminate.
Qed.

(* ================================================================== Part 3: the instantiated pipeline *)
Section Inst.
  Variables uni_letter uni_digit uni_space : Z -> bool.
  Variable gr : X.Parse.Parser.grammar.
  Variable orc : X.Parse.Parser.oracles.
  Variable fe : X.Sem.Prim.fenv.
  Variable limit : Z.
  Notation MS := (m_stages uni_letter uni_digit uni_space gr orc fe limit).

  Theorem m_lex_total input : m_lex uni_letter uni_digit uni_space input <> PPanic.
  Proof.
    unfold m_lex. pose proof (LexTotal.lex_total uni_letter uni_digit uni_space input) as H.
    destruct (X.Lex.Lexer.lex uni_letter uni_digit uni_space input); [discriminate|discriminate|contradiction].
  Qed.

  Theorem m_parse_total input ts : m_lex uni_letter uni_digit uni_space input = POk ts -> m_parse gr orc ts <> PPanic.
  Proof.
    unfold m_lex, m_parse. intros H.
    destruct (X.Lex.Lexer.lex uni_letter uni_digit uni_space input) as [ts'| |] eqn:E; try discriminate.
    inversion H; subst ts'. pose proof (LexTotal.lex_ok_nonempty _ _ _ _ _ E) as Hne.
    destruct ts as [|t r]; [contradiction|].
    pose proof (ParseTotal.parse_total gr orc (t :: r)) as Hp.
    destruct (X.Parse.Parser.parse gr orc (t :: r)); [discriminate|discriminate|contradiction].
  Qed.

  (* parser.Parse: a tree or an error for EVERY rune list - never a panic, never out of fuel *)
  Theorem m_parse_api_total input : m_parse_api uni_letter uni_digit uni_space gr orc input <> PPanic.
  Proof.
    unfold m_parse_api. apply obind_no_panic; [apply m_lex_total|]. intros ts H. eapply m_parse_total; eauto.
  Qed.

  Lemma m_unguarded_total rt a : guarded rt a StCompile = true -> guarded rt a StVMRun = true -> unguarded_total rt MS a.
  Proof.
    intros Hc Hv. constructor; unfold contained; cbn; try (right; intros; discriminate).
    - right. intros x. apply m_lex_total.
    - right. intros x ts H. eapply m_parse_total; eauto.
    - left. exact Hc.
    - left. exact Hv.
  Qed.

  Lemma m_visitors_contained rt a cs : visitors_contained rt MS a cs.
  Proof. right. right. intros v t. discriminate. Qed.

  (* Eval on the models: lexer + parser + compilable + reference semantics under the recover table *)
  Theorem m_eval_never_panics rt calls input env :
    guarded rt ApiEval StCompile = true -> guarded rt ApiEval StVMRun = true -> calls_wf false false calls = true ->
    m_eval_api uni_letter uni_digit uni_space gr orc fe limit rt calls input env <> APanic.
  Proof.
    intros Hc Hv Hwf. unfold m_eval_api.
    exact (containment_eval rt MS true calls input env (m_unguarded_total rt ApiEval Hc Hv) Hwf (m_visitors_contained rt ApiEval calls)).
  Qed.

  Theorem m_run_never_panics rt calls p env :
    guarded rt ApiRun StCompile = true -> guarded rt ApiRun StVMRun = true -> calls_wf false true calls = true ->
    m_run_api uni_letter uni_digit uni_space gr orc fe limit rt calls p env <> APanic.
  Proof.
    intros Hc Hv Hwf. unfold m_run_api.
    exact (containment_run rt MS true calls [] p env (m_unguarded_total rt ApiRun Hc Hv) Hwf (m_visitors_contained rt ApiRun calls)).
  Qed.
End Inst.

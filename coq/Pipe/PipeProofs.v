(* Pipe/PipeProofs.v — theorems of C04 over Pipe/Pipeline.v.

   Part 1 (generic, for ALL stage behaviours and ALL recover tables / call lists):
     containment   if every stage that is not under a recover never yields PPanic, the pipeline
                   never yields PPanic, whatever the guarded stages do;
     result shape  an error comes with nil, a success with a program / value;
     escape        a user visitor that panics escapes expr.Compile as long as the walk of user
                   visitors is not under a recover (what the pinned tree does).
   Part 2: totality of the stages whose model exists: the fuelled lexer and parser never run out
   of fuel (`lex_total`, `parse_total`), lexer.Lex never returns an empty token list, the reference
   semantics is a function (`eval_total`), the VM model terminates on compiled programs (`vm_total`).
   Part 3: the instantiated pipeline (model lexer + model parser + compilable + reference
   semantics) never yields a panic. *)
From Coq Require Import ZArith Bool List String Lia Arith.
Require Import X.Pipe.Pipeline.
Import ListNotations.

(* ================================================================== Part 1: generic *)
Lemma guard_no_panic {A : Type} (b : bool) (x : out A) : (b = true \/ x <> PPanic) -> guard b x <> PPanic.
Proof.
  unfold guard. intros [H|H].
  - rewrite H. destruct x; discriminate.
  - destruct b; destruct x; try discriminate; contradiction.
Qed.

Lemma guard_cases {A : Type} (b : bool) (x : out A) :
  guard b x = x \/ (b = true /\ x = PPanic /\ guard b x = PErr).
Proof. unfold guard. destruct b; destruct x; auto. Qed.

Lemma obind_no_panic {A B : Type} (x : out A) (k : A -> out B) :
  x <> PPanic -> (forall v, x = POk v -> k v <> PPanic) -> obind x k <> PPanic.
Proof. intros Hx Hk. destruct x; cbn; [apply Hk; reflexivity|discriminate|contradiction]. Qed.

Section Contain.
  Variable rt : rtable.
  Variable S : stages.
  Variable a : api.

  (* a stage is harmless when the code recovers around it, or when it never panics *)
  Definition contained (st : stage) (P : Prop) : Prop := guarded rt a st = true \/ P.

  Record unguarded_total : Prop := mkUT {
    ut_option : contained StOption (forall o c, s_opt_is_constexpr S o = false -> s_opt_apply S o c <> PPanic);
    ut_constopt : contained StConstExprOpt (forall o c, s_opt_is_constexpr S o = true -> s_opt_apply S o c <> PPanic);
    ut_configcheck : contained StConfigCheck (forall c, s_config_check S c <> PPanic);
    ut_lex : contained StLex (forall x, s_lex S x <> PPanic);
    ut_parse : contained StParse (forall ts, s_parse S ts <> PPanic);
    ut_check : contained StCheck (forall c t, s_check S c t <> PPanic);
    ut_patch : contained StPatchOperators (forall c t, s_patch_operators S c t <> PPanic);
    ut_inarray : contained StOptInArray (forall t, s_opt_inarray S t <> PPanic);
    ut_fold : contained StOptFold (forall t, s_opt_fold S t <> PPanic);
    ut_inrange : contained StOptInRange (forall t, s_opt_inrange S t <> PPanic);
    ut_constrange : contained StOptConstRange (forall t, s_opt_constrange S t <> PPanic);
    ut_constcall : contained StConstExprCall (forall f c t, s_opt_constexpr S f c t <> PPanic);
    ut_compile : contained StCompile (forall c t, s_compile S c t <> PPanic);
    ut_vm : contained StVMRun (forall f p e, s_vm_loop S f p e <> PPanic)
  }.

  (* user visitors: under a recover (of a helper, of ast.Walk, of the API function), or well-behaved *)
  Definition visitors_contained (cs : list call) : Prop :=
    visitors_guarded cs = true \/ guarded rt a StVisitor = true \/ (forall v t, s_visit S v t <> PPanic).

  Hypothesis UT : unguarded_total.

  Lemma g_ok {A : Type} (st : stage) (x : out A) (P : Prop) :
    contained st P -> (P -> x <> PPanic) -> g rt a st x <> PPanic.
  Proof.
    intros [Hg|HP] Hx; unfold g; apply guard_no_panic; [left; exact Hg|right; exact (Hx HP)].
  Qed.

  Lemma apply_options_no_panic : forall os c failed, apply_options rt S a os c failed <> PPanic.
  Proof.
    induction os as [|o r IH]; intros c failed; cbn [apply_options]; [discriminate|].
    destruct (s_opt_is_constexpr S o) eqn:Eo.
    - assert (H : g rt a StConstExprOpt (s_opt_apply S o c) <> PPanic).
      { eapply g_ok; [exact (ut_constopt UT)|intros HP; apply HP; exact Eo]. }
      destruct (g rt a StConstExprOpt (s_opt_apply S o c)); [apply IH|apply IH|contradiction].
    - assert (H : g rt a StOption (s_opt_apply S o c) <> PPanic).
      { eapply g_ok; [exact (ut_option UT)|intros HP; apply HP; exact Eo]. }
      destruct (g rt a StOption (s_opt_apply S o c)); [apply IH|apply IH|contradiction].
  Qed.

  Lemma run_visitors_no_panic h : (h = true \/ guarded rt a StVisitor = true \/ (forall v t, s_visit S v t <> PPanic)) ->
    forall vs t, run_visitors rt S a h vs t <> PPanic.
  Proof.
    intros Hv. induction vs as [|v r IH]; intros t; cbn [run_visitors]; [discriminate|].
    apply obind_no_panic; [|intros t' _; apply IH].
    apply guard_no_panic. destruct Hv as [Hh|[Hg|Hw]].
    - left. rewrite Hh. reflexivity.
    - left. rewrite Hg. apply orb_true_r.
    - right. apply Hw.
  Qed.

  Lemma optimize_no_panic c t : optimize rt S a c t <> PPanic.
  Proof.
    unfold optimize.
    apply obind_no_panic; [eapply g_ok; [exact (ut_inarray UT)|intros HP; apply HP]|intros t1 _].
    apply obind_no_panic; [eapply g_ok; [exact (ut_fold UT)|intros HP; apply HP]|intros t2 _].
    apply obind_no_panic.
    { destruct (s_has_constexpr S c); [|discriminate].
      eapply g_ok; [exact (ut_constcall UT)|intros HP; apply HP]. }
    intros t3 _.
    apply obind_no_panic; [eapply g_ok; [exact (ut_inrange UT)|intros HP; apply HP]|intros t4 _].
    eapply g_ok; [exact (ut_constrange UT)|intros HP; apply HP].
  Qed.

  Definition has {A : Type} (o : option A) : bool := match o with Some _ => true | None => false end.

  Lemma on_tree_spec (s : pst S) f : p_tree s <> None -> (forall t, f t <> PPanic) ->
    on_tree S s f <> PPanic /\
    forall s', on_tree S s f = POk s' -> p_tree s' <> None /\ p_prog s' = p_prog s.
  Proof.
    intros Ht Hf. unfold on_tree. destruct (p_tree s) as [t|]; [|contradiction]. split.
    - apply obind_no_panic; [apply Hf|discriminate].
    - intros s' H. destruct (f t); cbn in H; try discriminate. inversion H; subst. cbn. split; [discriminate|reflexivity].
  Qed.

  (* one call: no panic, and what is available afterwards *)
  Lemma exec_spec opts src env c (s : pst S) ht hp r :
    (ht = true -> p_tree s <> None) -> (hp = true -> p_prog s <> None) ->
    calls_wf ht hp (c :: r) = true ->
    (match c with CVisitors h => h = true \/ guarded rt a StVisitor = true \/ (forall v t, s_visit S v t <> PPanic) | _ => True end) ->
    exec rt S a opts src env c s <> PPanic /\
    forall s', exec rt S a opts src env c s = POk s' ->
      exists ht' hp', calls_wf ht' hp' r = true /\ (ht' = true -> p_tree s' <> None) /\ (hp' = true -> p_prog s' <> None).
  Proof.
    intros Ht Hp Hwf Hvis. destruct c; cbn [calls_wf] in Hwf; cbn [exec].
    - (* COptions *) split.
      + apply obind_no_panic; [apply apply_options_no_panic|discriminate].
      + intros s' H. destruct (apply_options rt S a opts (p_cfg s) (p_cfgerr s)); cbn in H; try discriminate.
        inversion H; subst s'. exists ht, hp. cbn. auto.
    - (* CConfigCheck *) split.
      + apply obind_no_panic; [eapply g_ok; [exact (ut_configcheck UT)|intros HP; apply HP]|].
        intros _ _. destruct (p_cfgerr s); discriminate.
      + intros s' H. destruct (g rt a StConfigCheck (s_config_check S (p_cfg s))); cbn in H; try discriminate.
        destruct (p_cfgerr s); try discriminate. inversion H; subst s'. exists ht, hp. auto.
    - (* CParse *) split.
      + apply obind_no_panic; [eapply g_ok; [exact (ut_lex UT)|intros HP; apply HP]|intros ts _].
        apply obind_no_panic; [eapply g_ok; [exact (ut_parse UT)|intros HP; apply HP]|discriminate].
      + intros s' H. destruct (g rt a StLex (s_lex S src)); cbn in H; try discriminate.
        destruct (g rt a StParse (s_parse S a0)); cbn in H; try discriminate.
        inversion H; subst s'. exists true, hp. cbn. repeat split; auto. discriminate.
    - (* CCheck *) apply andb_true_iff in Hwf. destruct Hwf as [Hh Hwf]. specialize (Ht Hh).
      destruct (p_tree s) as [t|] eqn:Et; [|contradiction].
      assert (Hc : g rt a StCheck (s_check S (p_cfg s) t) <> PPanic).
      { eapply g_ok; [exact (ut_check UT)|intros HP; apply HP]. }
      split.
      + destruct (g rt a StCheck (s_check S (p_cfg s) t)); [discriminate| |contradiction].
        destruct (tolerant && negb match s_visitors S (p_cfg s) with [] => true | _ :: _ => false end); discriminate.
      + intros s' H. exists ht, hp. split; [exact Hwf|].
        destruct (g rt a StCheck (s_check S (p_cfg s) t)); try discriminate.
        * inversion H; subst s'. cbn. split; [intros _; discriminate|exact Hp].
        * destruct (tolerant && negb match s_visitors S (p_cfg s) with [] => true | _ :: _ => false end); try discriminate.
          inversion H; subst s'. cbn. split; [intros _; discriminate|exact Hp].
    - (* CPatchOperators *) apply andb_true_iff in Hwf. destruct Hwf as [Hh Hwf]. specialize (Ht Hh).
      destruct (on_tree_spec s (fun t => g rt a StPatchOperators (s_patch_operators S (p_cfg s) t)) Ht) as [H1 H2].
      { intros t. eapply g_ok; [exact (ut_patch UT)|intros HP; apply HP]. }
      split; [exact H1|]. intros s' H. destruct (H2 s' H) as [Ht' Hp']. exists ht, hp.
      split; [exact Hwf|]. split; [intros _; exact Ht'|rewrite Hp'; exact Hp].
    - (* CVisitors *) apply andb_true_iff in Hwf. destruct Hwf as [Hh Hwf]. specialize (Ht Hh).
      destruct (on_tree_spec s (run_visitors rt S a helper_recovers (s_visitors S (p_cfg s))) Ht) as [H1 H2].
      { intros t. apply run_visitors_no_panic. exact Hvis. }
      split; [exact H1|]. intros s' H. destruct (H2 s' H) as [Ht' Hp']. exists ht, hp.
      split; [exact Hwf|]. split; [intros _; exact Ht'|rewrite Hp'; exact Hp].
    - (* COptimize *) apply andb_true_iff in Hwf. destruct Hwf as [Hh Hwf]. specialize (Ht Hh).
      destruct (s_optimize_on S (p_cfg s)).
      + destruct (on_tree_spec s (optimize rt S a (p_cfg s)) Ht) as [H1 H2].
        { intros t. apply optimize_no_panic. }
        split; [exact H1|]. intros s' H. destruct (H2 s' H) as [Ht' Hp']. exists ht, hp.
        split; [exact Hwf|]. split; [intros _; exact Ht'|rewrite Hp'; exact Hp].
      + split; [discriminate|]. intros s' H. inversion H; subst s'. exists ht, hp. auto.
    - (* CCompile *) apply andb_true_iff in Hwf. destruct Hwf as [Hh Hwf]. specialize (Ht Hh).
      destruct (p_tree s) as [t|] eqn:Et; [|contradiction]. split.
      + apply obind_no_panic; [eapply g_ok; [exact (ut_compile UT)|intros HP; apply HP]|discriminate].
      + intros s' H. destruct (g rt a StCompile (s_compile S (p_cfg s) t)); cbn in H; try discriminate.
        inversion H; subst s'. exists ht, true. cbn. split; [exact Hwf|]. split; intros _; discriminate.
    - (* CRun *) apply andb_true_iff in Hwf. destruct Hwf as [Hh Hwf]. specialize (Hp Hh).
      destruct (p_prog s) as [p|] eqn:Ep; [|contradiction]. split.
      + apply obind_no_panic; [eapply g_ok; [exact (ut_vm UT)|intros HP; apply HP]|discriminate].
      + intros s' H. destruct (g rt a StVMRun (s_vm_loop S (s_envfn S env) p env)); cbn in H; try discriminate.
        inversion H; subst s'. exists ht, hp. cbn. split; [exact Hwf|]. split; [exact Ht|intros _; discriminate].
  Qed.

  Lemma visitors_contained_tail c r : visitors_contained (c :: r) -> visitors_contained r.
  Proof.
    unfold visitors_contained, visitors_guarded. cbn [forallb]. intros [H|H]; [|right; exact H].
    left. apply andb_true_iff in H. tauto.
  Qed.

  Lemma run_calls_no_panic opts src env : forall cs (s : pst S) ht hp,
    (ht = true -> p_tree s <> None) -> (hp = true -> p_prog s <> None) ->
    calls_wf ht hp cs = true -> visitors_contained cs ->
    run_calls rt S a opts src env cs s <> PPanic.
  Proof.
    induction cs as [|c r IH]; intros s ht hp Ht Hp Hwf Hv; cbn [run_calls]; [discriminate|].
    assert (Hvis : match c with CVisitors h => h = true \/ guarded rt a StVisitor = true \/ (forall v t, s_visit S v t <> PPanic) | _ => True end).
    { destruct c; auto. destruct Hv as [H|[H|H]]; auto.
      unfold visitors_guarded in H. cbn [forallb] in H. apply andb_true_iff in H. tauto. }
    destruct (exec_spec opts src env c s ht hp r Ht Hp Hwf Hvis) as [H1 H2].
    apply obind_no_panic; [exact H1|].
    intros s' Hs'. destruct (H2 s' Hs') as (ht' & hp' & Hwf' & Ht' & Hp').
    eapply IH; eauto. eapply visitors_contained_tail; eauto.
  Qed.

  Lemma finish_not_panic {A : Type} nil_on_err (res : pst S -> option A) o :
    o <> PPanic -> finish S nil_on_err res o <> APanic.
  Proof. intros H. destruct o; cbn; [destruct (res a0); discriminate|destruct nil_on_err; discriminate|contradiction]. Qed.
End Contain.

(* ---- the three API functions *)
Theorem containment_compile rt S noe calls opts src env :
  unguarded_total rt S ApiCompile -> calls_wf false false calls = true -> visitors_contained rt S ApiCompile calls ->
  compile_api rt S noe calls opts src env <> APanic.
Proof.
  intros UT Hwf Hv. unfold compile_api. apply finish_not_panic.
  eapply run_calls_no_panic; eauto; intros H; discriminate.
Qed.

Theorem containment_eval rt S noe calls src env :
  unguarded_total rt S ApiEval -> calls_wf false false calls = true -> visitors_contained rt S ApiEval calls ->
  eval_api rt S noe calls src env <> APanic.
Proof.
  intros UT Hwf Hv. unfold eval_api. destruct (s_env_is_option S env); [destruct noe; discriminate|].
  apply finish_not_panic. eapply run_calls_no_panic; eauto; intros H; discriminate.
Qed.

Theorem containment_run rt S noe calls src p env :
  unguarded_total rt S ApiRun -> calls_wf false true calls = true -> visitors_contained rt S ApiRun calls ->
  run_api rt S noe true calls src p env <> APanic.
Proof.
  intros UT Hwf Hv. unfold run_api. destruct p as [p|]; [|destruct noe; discriminate].
  apply finish_not_panic. eapply run_calls_no_panic with (ht := false) (hp := true); eauto.
  - intros H; discriminate.
  - intros _. cbn. discriminate.
Qed.

(* ---- result shape: an error comes with nil; a success of Compile comes with a program *)
Definition shape_ok {A : Type} (need_result : bool) (r : ares A) : bool :=
  match r with
  | AOk _ | AErrNil => true
  | ANilOk => negb need_result
  | AErrWith | APanic => false
  end.

Definition produces_prog (cs : list call) : bool := existsb (call_eqb CCompile) cs.

Lemma run_calls_prog rt S a opts src env : forall cs (s s' : pst S),
  run_calls rt S a opts src env cs s = POk s' ->
  (produces_prog cs = true \/ p_prog s <> None) -> p_prog s' <> None.
Proof.
  induction cs as [|c r IH]; intros s s' H Hp; cbn [run_calls] in H.
  - inversion H; subst. destruct Hp as [Hp|Hp]; [discriminate|exact Hp].
  - destruct (exec rt S a opts src env c s) as [s1| |] eqn:E; cbn in H; try discriminate.
    apply (IH s1 s' H).
    destruct c; cbn [exec] in E.
    + (* COptions *) destruct (apply_options rt S a opts (p_cfg s) (p_cfgerr s)); cbn in E; try discriminate.
      inversion E; subst; cbn. destruct Hp as [Hp|Hp]; [left; exact Hp|right; exact Hp].
    + destruct (g rt a StConfigCheck (s_config_check S (p_cfg s))); cbn in E; try discriminate.
      destruct (p_cfgerr s); try discriminate. inversion E; subst. destruct Hp as [Hp|Hp]; [left; exact Hp|right; exact Hp].
    + destruct (g rt a StLex (s_lex S src)); cbn in E; try discriminate.
      destruct (g rt a StParse (s_parse S a0)); cbn in E; try discriminate.
      inversion E; subst; cbn. destruct Hp as [Hp|Hp]; [left; exact Hp|right; exact Hp].
    + destruct (p_tree s); try discriminate.
      destruct (g rt a StCheck (s_check S (p_cfg s) t)); try discriminate.
      * inversion E; subst; cbn. destruct Hp as [Hp|Hp]; [left; exact Hp|right; exact Hp].
      * destruct (tolerant && negb match s_visitors S (p_cfg s) with [] => true | _ :: _ => false end); try discriminate.
        inversion E; subst; cbn. destruct Hp as [Hp|Hp]; [left; exact Hp|right; exact Hp].
    + unfold on_tree in E. destruct (p_tree s); try discriminate.
      destruct (g rt a StPatchOperators (s_patch_operators S (p_cfg s) t)); cbn in E; try discriminate.
      inversion E; subst; cbn. destruct Hp as [Hp|Hp]; [left; exact Hp|right; exact Hp].
    + unfold on_tree in E. destruct (p_tree s); try discriminate.
      destruct (run_visitors rt S a helper_recovers (s_visitors S (p_cfg s)) t); cbn in E; try discriminate.
      inversion E; subst; cbn. destruct Hp as [Hp|Hp]; [left; exact Hp|right; exact Hp].
    + destruct (s_optimize_on S (p_cfg s)).
      * unfold on_tree in E. destruct (p_tree s); try discriminate.
        destruct (optimize rt S a (p_cfg s) t); cbn in E; try discriminate.
        inversion E; subst; cbn. destruct Hp as [Hp|Hp]; [left; exact Hp|right; exact Hp].
      * inversion E; subst. destruct Hp as [Hp|Hp]; [left; exact Hp|right; exact Hp].
    + destruct (p_tree s); try discriminate.
      destruct (g rt a StCompile (s_compile S (p_cfg s) t)); cbn in E; try discriminate.
      inversion E; subst; cbn. right. discriminate.
    + destruct (p_prog s) eqn:Ep; try discriminate.
      destruct (g rt a StVMRun (s_vm_loop S (s_envfn S env) p env)); cbn in E; try discriminate.
      inversion E; subst; cbn. right. discriminate.
Qed.

Theorem result_shape_compile rt S calls opts src env :
  produces_prog calls = true ->
  compile_api rt S true calls opts src env = APanic \/ shape_ok true (compile_api rt S true calls opts src env) = true.
Proof.
  intros Hp. unfold compile_api.
  destruct (run_calls rt S ApiCompile opts src env calls (mkPst S (s_cfg0 S) false None None None)) as [s'| |] eqn:E; cbn.
  - right. pose proof (run_calls_prog _ _ _ _ _ _ _ _ _ E (or_introl Hp)) as H.
    destruct (p_prog s'); [reflexivity|contradiction].
  - right. reflexivity.
  - left. reflexivity.
Qed.

(* Eval and Run: a value may be nil without an error (the expression `nil`), so only the error
   direction is demanded: a non-nil error comes with a nil value *)
Theorem result_shape_eval rt S calls src env :
  eval_api rt S true calls src env = APanic \/ shape_ok false (eval_api rt S true calls src env) = true.
Proof.
  unfold eval_api. destruct (s_env_is_option S env); [right; reflexivity|].
  destruct (run_calls rt S ApiEval [] src env calls _) as [s'| |]; cbn; [right; destruct (p_val s'); reflexivity|right; reflexivity|left; reflexivity].
Qed.

Theorem result_shape_run rt S calls src p env :
  run_api rt S true true calls src p env = APanic \/ shape_ok false (run_api rt S true true calls src p env) = true.
Proof.
  unfold run_api. destruct p; [|right; reflexivity].
  destruct (run_calls rt S ApiRun [] src env calls _) as [s'| |]; cbn; [right; destruct (p_val s'); reflexivity|right; reflexivity|left; reflexivity].
Qed.

(* and the converse: when an error path returns something else than the literal nil, the caller
   can observe a result together with an error *)
Lemma shape_needs_nil rt S calls opts src env :
  run_calls rt S ApiCompile opts src env calls (mkPst S (s_cfg0 S) false None None None) = PErr ->
  compile_api rt S false calls opts src env = AErrWith.
Proof. intros H. unfold compile_api. rewrite H. reflexivity. Qed.

(* ---- a panicking user visitor escapes expr.Compile as long as nothing recovers around the walk *)
Theorem visitor_panic_escapes rt S noe opts src env cs1 cs2 (s : pst S) t v vs :
  run_calls rt S ApiCompile opts src env cs1 (mkPst S (s_cfg0 S) false None None None) = POk s ->
  p_tree s = Some t -> s_visitors S (p_cfg s) = v :: vs -> s_visit S v t = PPanic ->
  guarded rt ApiCompile StVisitor = false ->
  compile_api rt S noe (cs1 ++ CVisitors false :: cs2) opts src env = APanic.
Proof.
  intros H1 Ht Hv Hp Hg. unfold compile_api.
  assert (E : forall cs s0, run_calls rt S ApiCompile opts src env cs s0 = POk s ->
              run_calls rt S ApiCompile opts src env (cs ++ CVisitors false :: cs2) s0 = PPanic).
  { induction cs as [|c r IH]; intros s0 H0.
    - cbn in H0. inversion H0; subst. cbn [app run_calls exec]. unfold on_tree. rewrite Ht, Hv.
      cbn [run_visitors]. rewrite Hp, Hg. reflexivity.
    - cbn [app run_calls] in *. destruct (exec rt S ApiCompile opts src env c s0); cbn in *; try discriminate.
      apply IH. exact H0. }
  rewrite (E cs1 _ H1). reflexivity.
Qed.

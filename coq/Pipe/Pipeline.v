(* Pipe/Pipeline.v — the compile / run PIPELINE of expr.go (Compile, Eval, Run) as a composition of
   stages in an outcome monad with three outcomes:

     POk a    the stage returned a result
     PErr     the stage returned a non-nil error (or recorded one that Config.Check reports)
     PPanic   a Go panic that has not (yet) met a `recover` — or a stage that does not return at
              all (the out-of-fuel outcome of a fuelled model is mapped here as well: the property
              forbids both)

   What is DATA here, read from /repo on every run (coq/gen/GenPipeline.v, tied in Bridge/BrC04.v):
     * the ORDER of the stage calls inside expr.Compile / expr.Eval / expr.Run and how each call's
       error leaves the function (`decode_calls` turns the regenerated entries into `call`s; the
       pipeline is an interpreter over that list);
     * the RECOVER table: which Go functions install `defer func() { .. recover() .. }()`;
       `guarded rt api st` = some function on the call chain between the panic site of stage st
       and the caller of the API function recovers; `guard` turns PPanic into PErr exactly then;
     * what accompanies an error result (`nil_on_err`).
   What is an ARGUMENT: the behaviour of every stage (Section variables, arbitrary functions that
   may yield PPanic): options, Config.Check, lexer, parser, checker, operator patcher, USER PATCH
   VISITORS, the optimizer passes, the compile-time calls of ConstExpr functions, the compiler,
   the VM dispatch loop and the ENVIRONMENT FUNCTIONS it calls.

   The second half instantiates the stages for which executable models exist (Lex/Lexer.v,
   Parse/Parser.v, BC/Compiler.v `compilable`, Sem/Sem.v) and gives a small model of the option /
   configuration logic of conf/config.go; it is what Corr/CorrC04.v executes.  No proofs here. *)
From Coq Require Import ZArith List String Bool.
Import ListNotations.
Local Open Scope string_scope.

(* ------------------------------------------------------------------ outcomes *)
Inductive out (A : Type) := POk (a : A) | PErr | PPanic.
Arguments POk {A} a. Arguments PErr {A}. Arguments PPanic {A}.

Definition obind {A B : Type} (x : out A) (k : A -> out B) : out B :=
  match x with POk a => k a | PErr => PErr | PPanic => PPanic end.

(* the deferred `if r := recover(); r != nil { err = ... }` of a stage function *)
Definition guard {A : Type} (recovers : bool) (x : out A) : out A :=
  if recovers then match x with PPanic => PErr | _ => x end else x.

(* what the caller of an API function sees: the (result, error) pair of the Go signature *)
Inductive ares (A : Type) :=
| AOk (a : A)          (* (a, nil) *)
| ANilOk               (* (nil, nil): legitimate for a VALUE (the expression `nil`), not for a program *)
| AErrNil              (* (nil, err) *)
| AErrWith             (* (non-nil, err): the result comes together with an error *)
| APanic.              (* the call panicked (or did not return) *)
Arguments AOk {A} a. Arguments ANilOk {A}. Arguments AErrNil {A}. Arguments AErrWith {A}. Arguments APanic {A}.

Inductive oclass := KOk | KErr | KPanic | KShape.
Definition class_of {A : Type} (r : ares A) : oclass :=
  match r with AOk _ | ANilOk => KOk | AErrNil => KErr | AErrWith => KShape | APanic => KPanic end.
Definition oclass_eqb (a b : oclass) : bool :=
  match a, b with KOk, KOk | KErr, KErr | KPanic, KPanic | KShape, KShape => true | _, _ => false end.

(* ------------------------------------------------------------------ stages and the recover table *)
Inductive stage :=
| StOption          (* op(config) for the options that only set fields or build the types table *)
| StConstExprOpt    (* expr.ConstExpr -> Config.ConstExpr: vm.FetchFn *)
| StConfigCheck     (* Config.Check *)
| StLex             (* lexer.Lex (called by parser.Parse) *)
| StParse           (* parser.Parse proper *)
| StCheck           (* checker.Check *)
| StPatchOperators  (* compiler.PatchOperators: ast.Walk with operatorPatcher *)
| StVisitor         (* ast.Walk with a user visitor (expr.Patch) *)
| StOptInArray | StOptFold | StOptInRange | StOptConstRange   (* the four passes that do not recover *)
| StConstExprCall   (* the constExpr pass: fn.Call of an environment function at compile time *)
| StCompile         (* compiler.Compile *)
| StVMRun.          (* VM.Run: dispatch loop, runtime helpers, calls of environment functions *)

Definition all_stages : list stage :=
  [StOption; StConstExprOpt; StConfigCheck; StLex; StParse; StCheck; StPatchOperators; StVisitor;
   StOptInArray; StOptFold; StOptInRange; StOptConstRange; StConstExprCall; StCompile; StVMRun].

Inductive api := ApiCompile | ApiEval | ApiRun.
Definition api_fn (a : api) : string :=
  match a with ApiCompile => "expr.Compile" | ApiEval => "expr.Eval" | ApiRun => "expr.Run" end.

(* the Go functions on the call chain from the code of a stage up to (excluding) the API function *)
Definition walk_chain : list string := ["ast.walker.walk"; "ast.Walk"].
Definition stage_fns (st : stage) : list string :=
  match st with
  | StOption => ["conf.CreateTypesTable"]
  | StConstExprOpt => ["conf.Config.ConstExpr"]
  | StConfigCheck => ["conf.Config.Check"]
  | StLex => ["lexer.Lex"; "parser.Parse"]
  | StParse => ["parser.Parse"]
  | StCheck => ["checker.visitor.visit"; "checker.Check"]
  | StPatchOperators => "compiler.operatorPatcher.Exit" :: walk_chain ++ ["compiler.PatchOperators"]
  | StVisitor => walk_chain
  | StOptInArray => "optimizer.inArray.Exit" :: walk_chain ++ ["optimizer.Optimize"]
  | StOptFold => "optimizer.fold.Exit" :: walk_chain ++ ["optimizer.Optimize"]
  | StOptInRange => "optimizer.inRange.Exit" :: walk_chain ++ ["optimizer.Optimize"]
  | StOptConstRange => "optimizer.constRange.Exit" :: walk_chain ++ ["optimizer.Optimize"]
  | StConstExprCall => "optimizer.constExpr.Exit" :: walk_chain ++ ["optimizer.Optimize"]
  | StCompile => ["compiler.compiler.compile"; "compiler.Compile"]
  | StVMRun => ["vm.VM.Run"; "vm.Run"]
  end.

Definition rtable := list (string * bool).
Fixpoint recovers (rt : rtable) (f : string) : bool :=
  match rt with
  | [] => false
  | (g, b) :: r => if String.eqb f g then b else recovers r f
  end.

Definition guarded (rt : rtable) (a : api) (st : stage) : bool :=
  existsb (recovers rt) (stage_fns st ++ [api_fn a]).

(* ------------------------------------------------------------------ the stage calls of an API function *)
Inductive call :=
| COptions                       (* for _, op := range ops { op(config) } *)
| CConfigCheck                   (* if err := config.Check(); err != nil { return nil, err } *)
| CParse                         (* tree, err := parser.Parse(input) *)
| CCheck (tolerant : bool)       (* checker.Check; tolerant: the error is returned only when there are no visitors *)
| CPatchOperators
| CVisitors (helper_recovers : bool)   (* for _, v := range config.Visitors { ast.Walk(&tree.Node, v) } *)
| COptimize                      (* if config.Optimize { err = optimizer.Optimize(..) } *)
| CCompile
| CRun.

Definition call_eqb (a b : call) : bool :=
  match a, b with
  | COptions, COptions | CConfigCheck, CConfigCheck | CParse, CParse | CPatchOperators, CPatchOperators
  | COptimize, COptimize | CCompile, CCompile | CRun, CRun => true
  | CCheck x, CCheck y | CVisitors x, CVisitors y => Bool.eqb x y
  | _, _ => false
  end.

(* one regenerated entry (callee, enclosing headers, condition of the error return) -> call *)
Definition triple_is (e : string * string * string) (a b c : string) : bool :=
  let '(x, y, z) := e in String.eqb x a && String.eqb y b && String.eqb z c.

Definition decode_call (e : string * string * string) : option call :=
  if triple_is e "op" "range ops" "" then Some COptions
  else if triple_is e "conf.Config.Check" "" "err != nil" then Some CConfigCheck
  else if triple_is e "parser.Parse" "" "err != nil" then Some CParse
  else if triple_is e "checker.Check" "" "err != nil && len(config.Visitors) == 0" then Some (CCheck true)
  else if triple_is e "checker.Check" "if len(config.Visitors) >= 0" "err != nil" then Some (CCheck false)
  else if triple_is e "checker.Check" "" "err != nil" then Some (CCheck false)
  else if triple_is e "compiler.PatchOperators" "" "" then Some CPatchOperators
  else if triple_is e "ast.Walk" "if len(config.Visitors) >= 0; range config.Visitors" "" then Some (CVisitors false)
  else if triple_is e "ast.Walk" "if len(config.Visitors) >= 0; range config.Visitors; in walkVisitor recover" "err != nil"
       then Some (CVisitors true)
  else if triple_is e "optimizer.Optimize" "if config.Optimize" "err != nil" then Some COptimize
  else if triple_is e "compiler.Compile" "" "err != nil" then Some CCompile
  else if triple_is e "vm.Run" "" "err != nil" then Some CRun
  else if triple_is e "vm.Run" "" "delegate" then Some CRun
  else if triple_is e "vm.VM.Run" "" "delegate" then Some CRun
  else None.

Fixpoint decode_calls (l : list (string * string * string)) : option (list call) :=
  match l with
  | [] => Some []
  | e :: r => match decode_call e, decode_calls r with
              | Some c, Some cs => Some (c :: cs)
              | _, _ => None
              end
  end.

(* every call finds its input: a tree after CParse, a program after CCompile *)
Fixpoint calls_wf (have_tree have_prog : bool) (cs : list call) : bool :=
  match cs with
  | [] => true
  | c :: r =>
    match c with
    | COptions | CConfigCheck => calls_wf have_tree have_prog r
    | CParse => calls_wf true have_prog r
    | CCheck _ | CPatchOperators | CVisitors _ | COptimize => have_tree && calls_wf have_tree have_prog r
    | CCompile => have_tree && calls_wf have_tree true r
    | CRun => have_prog && calls_wf have_tree have_prog r
    end
  end.

Definition visitors_guarded (cs : list call) : bool :=
  forallb (fun c => match c with CVisitors h => h | _ => true end) cs.

(* (c): every error return is accompanied by the literal nil *)
Definition returns_nil_on_err (fn : string) (rets : list (string * string * string)) : bool :=
  forallb (fun e => let '(f, cls, acc) := e in
                    if String.eqb f fn && String.eqb cls "err" then String.eqb acc "nil" else true) rets.

(* ------------------------------------------------------------------ the pipeline, parametric in every stage *)
(* the behaviour of every stage: arbitrary functions, each may yield PPanic *)
Record stages := mkStages {
  Opt : Type; Cfg : Type; Src : Type; Toks : Type; Tree : Type; Vis : Type; Prog : Type; Val : Type; Env : Type;
  s_cfg0 : Cfg;                                  (* &conf.Config{Operators: .., ConstExprFns: .., Optimize: true} *)
  s_cfg_nil : Cfg;                               (* the nil config of Eval *)
  s_opt_is_constexpr : Opt -> bool;              (* the option is expr.ConstExpr(..) *)
  s_opt_apply : Opt -> Cfg -> out Cfg;           (* op(config); PErr = Config.Error recorded an error *)
  s_config_check : Cfg -> out unit;
  s_lex : Src -> out Toks;
  s_parse : Toks -> out Tree;
  s_check : Cfg -> Tree -> out Tree;             (* POk: the tree with its types set *)
  s_check_partial : Cfg -> Tree -> Tree;         (* the partially typed tree a failed check leaves behind *)
  s_visitors : Cfg -> list Vis;
  s_patch_operators : Cfg -> Tree -> out Tree;
  s_visit : Vis -> Tree -> out Tree;             (* ast.Walk(&tree.Node, v) with a USER visitor: arbitrary *)
  s_optimize_on : Cfg -> bool;
  s_has_constexpr : Cfg -> bool;                 (* len(config.ConstExprFns) > 0 *)
  s_opt_inarray : Tree -> out Tree;
  s_opt_fold : Tree -> out Tree;                 (* PErr: division of integer literals by zero *)
  s_opt_inrange : Tree -> out Tree;
  s_opt_constrange : Tree -> out Tree;
  s_envfn : Env -> string -> list Val -> out Val;    (* ENVIRONMENT FUNCTIONS: arbitrary, may panic *)
  s_cfg_env : Cfg -> Env;
  s_opt_constexpr : (string -> list Val -> out Val) -> Cfg -> Tree -> out Tree;
  s_compile : Cfg -> Tree -> out Prog;
  s_vm_loop : (string -> list Val -> out Val) -> Prog -> Env -> out Val;
  s_env_is_option : Env -> bool                  (* Eval: `if _, ok := env.(Option); ok` *)
}.

Section Pipe.
  Variable rt : rtable.
  Variable S : stages.

  Section Api.
  Variable a : api.
  Variable nil_on_err : bool.                        (* from GenPipeline (c) *)

  Definition g {A : Type} (st : stage) (x : out A) : out A := guard (guarded rt a st) x.

  (* the option loop; `failed` = an error was recorded with Config.Error *)
  Fixpoint apply_options (os : list (Opt S)) (c : Cfg S) (failed : bool) : out (Cfg S * bool) :=
    match os with
    | [] => POk (c, failed)
    | o :: r =>
      match g (if s_opt_is_constexpr S o then StConstExprOpt else StOption) (s_opt_apply S o c) with
      | POk c' => apply_options r c' failed
      | PErr => apply_options r c true
      | PPanic => PPanic
      end
    end.

  Fixpoint run_visitors (h : bool) (vs : list (Vis S)) (t : Tree S) : out (Tree S) :=
    match vs with
    | [] => POk t
    | v :: r => obind (guard (h || guarded rt a StVisitor) (s_visit S v t)) (run_visitors h r)
    end.

  (* optimizer.Optimize: inArray, fold (to a fix-point, bounded), constExpr (bounded), inRange, constRange *)
  Definition optimize (c : Cfg S) (t : Tree S) : out (Tree S) :=
    obind (g StOptInArray (s_opt_inarray S t)) (fun t1 =>
    obind (g StOptFold (s_opt_fold S t1)) (fun t2 =>
    obind (if s_has_constexpr S c then g StConstExprCall (s_opt_constexpr S (s_envfn S (s_cfg_env S c)) c t2) else POk t2) (fun t3 =>
    obind (g StOptInRange (s_opt_inrange S t3)) (fun t4 =>
    g StOptConstRange (s_opt_constrange S t4))))).

  Record pst := mkPst {
    p_cfg : Cfg S; p_cfgerr : bool; p_tree : option (Tree S); p_prog : option (Prog S); p_val : option (Val S)
  }.

  Definition with_tree (s : pst) (t : Tree S) : pst := mkPst (p_cfg s) (p_cfgerr s) (Some t) (p_prog s) (p_val s).

  Definition on_tree (s : pst) (f : Tree S -> out (Tree S)) : out pst :=
    match p_tree s with
    | None => PPanic                                  (* nil *parser.Tree dereferenced *)
    | Some t => obind (f t) (fun t' => POk (with_tree s t'))
    end.

  Definition exec (opts : list (Opt S)) (src : Src S) (env : Env S) (c : call) (s : pst) : out pst :=
    match c with
    | COptions =>
        obind (apply_options opts (p_cfg s) (p_cfgerr s)) (fun cf =>
        POk (mkPst (fst cf) (snd cf) (p_tree s) (p_prog s) (p_val s)))
    | CConfigCheck =>
        obind (g StConfigCheck (s_config_check S (p_cfg s))) (fun _ => if p_cfgerr s then PErr else POk s)
    | CParse =>
        obind (g StLex (s_lex S src)) (fun ts => obind (g StParse (s_parse S ts)) (fun t => POk (with_tree s t)))
    | CCheck tolerant =>
        match p_tree s with
        | None => PPanic
        | Some t =>
          match g StCheck (s_check S (p_cfg s) t) with
          | POk t' => POk (with_tree s t')
          | PErr => if tolerant && negb (match s_visitors S (p_cfg s) with [] => true | _ => false end)
                    then POk (with_tree s (s_check_partial S (p_cfg s) t)) else PErr
          | PPanic => PPanic
          end
        end
    | CPatchOperators => on_tree s (fun t => g StPatchOperators (s_patch_operators S (p_cfg s) t))
    | CVisitors h => on_tree s (run_visitors h (s_visitors S (p_cfg s)))
    | COptimize => if s_optimize_on S (p_cfg s) then on_tree s (optimize (p_cfg s)) else POk s
    | CCompile =>
        match p_tree s with
        | None => PPanic
        | Some t => obind (g StCompile (s_compile S (p_cfg s) t)) (fun p =>
                    POk (mkPst (p_cfg s) (p_cfgerr s) (p_tree s) (Some p) (p_val s)))
        end
    | CRun =>
        match p_prog s with
        | None => PPanic
        | Some p => obind (g StVMRun (s_vm_loop S (s_envfn S env) p env)) (fun v =>
                    POk (mkPst (p_cfg s) (p_cfgerr s) (p_tree s) (p_prog s) (Some v)))
        end
    end.

  Fixpoint run_calls (opts : list (Opt S)) (src : Src S) (env : Env S) (cs : list call) (s : pst) : out pst :=
    match cs with
    | [] => POk s
    | c :: r => obind (exec opts src env c s) (run_calls opts src env r)
    end.

  Definition finish {A : Type} (res : pst -> option A) (o : out pst) : ares A :=
    match o with
    | POk s => match res s with Some x => AOk x | None => ANilOk end
    | PErr => if nil_on_err then AErrNil else AErrWith
    | PPanic => APanic
    end.
  End Api.

  (* expr.Compile(input, ops...); `env` is not used by the calls of Compile *)
  Definition compile_api (nil_on_err : bool) (calls : list call) (opts : list (Opt S)) (src : Src S) (env : Env S) : ares (Prog S) :=
    finish nil_on_err p_prog (run_calls ApiCompile opts src env calls (mkPst (s_cfg0 S) false None None None)).

  (* expr.Eval(input, env) *)
  Definition eval_api (nil_on_err : bool) (calls : list call) (src : Src S) (env : Env S) : ares (Val S) :=
    if s_env_is_option S env then (if nil_on_err then AErrNil else AErrWith)
    else finish nil_on_err p_val
                (run_calls ApiEval [] src env calls (mkPst (s_cfg_nil S) false None None None)).

  (* expr.Run(program, env); nil_guard: vm.Run refuses a nil program before the VM dereferences it *)
  Definition run_api (nil_on_err nil_guard : bool) (calls : list call) (src : Src S) (p : option (Prog S)) (env : Env S) : ares (Val S) :=
    match p with
    | None => if nil_guard then (if nil_on_err then AErrNil else AErrWith) else APanic
    | Some _ =>
      finish nil_on_err p_val
             (run_calls ApiRun [] src env calls (mkPst (s_cfg_nil S) false None p None))
    end.

  Definition compile_pipeline := compile_api.
  Definition eval_pipeline := eval_api.
  Definition run_pipeline := run_api.
End Pipe.
Arguments p_cfg {S} p. Arguments p_cfgerr {S} p. Arguments p_tree {S} p. Arguments p_prog {S} p. Arguments p_val {S} p.

(* ------------------------------------------------------------------ expected tables (what the pinned tree says) *)
Definition expected_compile_calls : list call :=
  [COptions; CConfigCheck; CParse; CCheck true; CPatchOperators; CVisitors false; CCheck false; COptimize; CCompile].
(* the same list once user visitors run under a recover (candidate patch C04-compile-visitor-panic) *)
Definition expected_compile_calls_guarded : list call :=
  [COptions; CConfigCheck; CParse; CCheck true; CPatchOperators; CVisitors true; CCheck false; COptimize; CCompile].
Definition expected_eval_calls : list call := [CParse; CCompile; CRun].
Definition expected_run_calls : list call := [CRun].

Definition expected_recover : rtable :=
  [ ("ast.Walk", false); ("ast.walker.walk", false); ("checker.Check", false); ("checker.visitor.visit", false);
    ("compiler.Compile", true); ("compiler.PatchOperators", false); ("compiler.compiler.compile", false);
    ("compiler.operatorPatcher.Exit", false); ("conf.Config.Check", false); ("conf.Config.ConstExpr", true);
    ("conf.CreateTypesTable", false); ("expr.Compile", false); ("expr.Eval", false); ("expr.Run", false);
    ("lexer.Lex", false); ("optimizer.Optimize", false); ("optimizer.constExpr.Exit", true);
    ("optimizer.constRange.Exit", false); ("optimizer.fold.Exit", false); ("optimizer.inArray.Exit", false);
    ("optimizer.inRange.Exit", false); ("parser.Parse", false); ("vm.Run", false); ("vm.VM.Run", true) ].

(* the stages whose panics the code contains / does not contain, per API function *)
Definition guarded_stages : list stage := [StConstExprOpt; StConstExprCall; StCompile; StVMRun].
Definition stage_eqb (x y : stage) : bool :=
  match x, y with
  | StOption, StOption | StConstExprOpt, StConstExprOpt | StConfigCheck, StConfigCheck | StLex, StLex
  | StParse, StParse | StCheck, StCheck | StPatchOperators, StPatchOperators | StVisitor, StVisitor
  | StOptInArray, StOptInArray | StOptFold, StOptFold | StOptInRange, StOptInRange
  | StOptConstRange, StOptConstRange | StConstExprCall, StConstExprCall | StCompile, StCompile
  | StVMRun, StVMRun => true
  | _, _ => false
  end.
(* the recover table guards exactly the expected stages, for each of the three API functions *)
Definition table_guards_exactly (rt : rtable) : bool :=
  forallb (fun a => forallb (fun st => Bool.eqb (guarded rt a st) (existsb (stage_eqb st) guarded_stages)) all_stages)
          [ApiCompile; ApiEval; ApiRun].
(* what the containment theorem needs of the table *)
Definition table_sufficient (rt : rtable) : bool :=
  forallb (fun a => forallb (guarded rt a) guarded_stages) [ApiCompile; ApiEval; ApiRun].

Definition expected_optimize_passes : list (string * string * string) :=
  [ ("inArray", "once", ""); ("fold", "limit := 1000; limit >= 0; limit--", "");
    ("constExpr", "limit := 100; limit >= 0; limit--", "config != nil && len(config.ConstExprFns) > 0");
    ("inRange", "once", ""); ("constRange", "once", "") ].

(* ================================================================== the stages whose model exists *)
Require X.Base.Value X.Syn.Ast X.Syn.Tok X.Lex.Lexer X.Parse.Parser X.Sem.Prim X.Sem.Sem X.BC.Compiler.

Section Model.
  (* library oracles of the lexer / parser models (unicode classes, strconv.ParseFloat, regexp.Compile),
     the function environment of the reference semantics (behaviour of the environment functions,
     regexp and math.Pow oracles) and the memory budget *)
  Variables uni_letter uni_digit uni_space : Z -> bool.
  Variable gr : X.Parse.Parser.grammar.
  Variable orc : X.Parse.Parser.oracles.
  Variable fe : X.Sem.Prim.fenv.
  Variable limit : Z.

  (* lexer.Lex on the runes of the source ([]rune(input): file.NewSource).  The out-of-fuel outcome of
     the fuelled model stands for a lexer that does not return. *)
  Definition m_lex (input : list Z) : out (list X.Syn.Tok.token) :=
    match X.Lex.Lexer.lex uni_letter uni_digit uni_space input with
    | X.Lex.Lexer.LexOk ts => POk ts
    | X.Lex.Lexer.LexErr _ => PErr
    | X.Lex.Lexer.LexOutOfFuel => PPanic
    end.

  (* parser.Parse after Lex: `current: tokens[0]` panics on an empty token list (the parser model
     totalises that case; here it is a panic again) *)
  Definition m_parse (ts : list X.Syn.Tok.token) : out X.Syn.Ast.expr :=
    match ts with
    | [] => PPanic
    | _ :: _ =>
      match X.Parse.Parser.parse gr orc ts with
      | X.Parse.Parser.ROk e => POk e
      | X.Parse.Parser.RErr _ => PErr
      | X.Parse.Parser.RFuel => PPanic
      end
    end.

  (* parser.Parse(input) *)
  Definition m_parse_api (input : list Z) : out X.Syn.Ast.expr := obind (m_lex input) m_parse.

  (* compiler.Compile(tree, nil) before its recover: the compiler panics on an operator / builtin /
     node shape it does not know (BC/Compiler.v `compilable`).  The program is represented by the
     tree it was compiled from (C01: the VM model run on `compile e` returns what `eval e` returns). *)
  Definition m_compile (e : X.Syn.Ast.expr) : out X.Syn.Ast.expr :=
    if X.BC.Compiler.compilable e then POk e else PPanic.

  (* the dispatch loop of VM.Run before its recover: every failing instruction, every failing runtime
     helper and every panicking environment function (fn_run .. = Fail EUser) is a panic *)
  Definition m_run (e : X.Syn.Ast.expr) (env : X.Base.Value.value) : out X.Base.Value.value :=
    match X.Sem.Sem.run_ref fe (X.Sem.Sem.mkCfg false limit) env X.Sem.Sem.CastNone e with
    | X.Sem.Sem.Done v _ => POk v
    | X.Sem.Sem.Stop _ _ _ => PPanic
    end.

  (* stages that an API function never reaches are filled with harmless behaviours: their choice does
     not influence the value of the pipeline (only the calls of the regenerated list are executed) *)
  Definition idle1 {A : Type} (t : A) : out A := POk t.
  Definition idle2 {A B : Type} (_ : A) (t : B) : out B := POk t.
  Definition idle3 {A B C : Type} (_ : A) (_ : B) (t : C) : out C := POk t.
  Definition refuse3 {A B C D : Type} (_ : A) (_ : B) (_ : C) : out D := PErr.

  (* the stages of Eval / Run / Parse *)
  Definition m_stages : stages :=
    mkStages unit unit (list Z) (list X.Syn.Tok.token) X.Syn.Ast.expr unit X.Syn.Ast.expr X.Base.Value.value X.Base.Value.value
      tt tt (fun _ => false) idle2 (fun _ => POk tt) m_lex m_parse idle2 (fun _ t => t) (fun _ => [])
      idle2 idle2 (fun _ => false) (fun _ => false) idle1 idle1 idle1 idle1
      refuse3 (fun _ => X.Base.Value.VNil) idle3 (fun _ e => m_compile e) (fun _ p env => m_run p env)
      (fun _ => false).

  Definition m_eval_api (rt : rtable) (calls : list call) (input : list Z) (env : X.Base.Value.value) : ares X.Base.Value.value :=
    eval_api rt m_stages true calls input env.
  Definition m_run_api (rt : rtable) (calls : list call) (p : option X.Syn.Ast.expr) (env : X.Base.Value.value) : ares X.Base.Value.value :=
    run_api rt m_stages true true calls [] p env.

  (* ---- the option / configuration logic of expr.go and conf/config.go, on abstract members *)
  Inductive envk := EnvNone | EnvStruct | EnvMap
                  | EnvExotic.   (* a reflect corner case the model does not decide (pointer to a map, ..) *)
  Inductive memberk :=
  | MFunc2        (* a function with two parameters and one result: fits a binary operator *)
  | MFunc1        (* a function of another arity (incl. one that panics when called) *)
  | MNonFunc      (* a member that is not a function *)
  | MMissing.     (* no such member *)
  Inductive visk := VReplace | VPanics.
  Inductive mopt :=
  | MOEnv (k : envk)
  | MOFlag                      (* AllowUndefinedVariables, Optimize, AsBool/AsInt64/AsFloat64: set a field *)
  | MOOperator (m : memberk)
  | MOConstExpr (m : memberk)
  | MOPatch (v : visk).
  Record mcfg := mkMcfg { mc_env : envk; mc_ops : list memberk; mc_consts : list memberk; mc_vis : list visk }.

  Definition m_opt_apply (o : mopt) (c : mcfg) : out mcfg :=
    match o with
    | MOEnv k => POk (mkMcfg k (mc_ops c) (mc_consts c) (mc_vis c))
    | MOFlag => POk c
    | MOOperator m => POk (mkMcfg (mc_env c) (mc_ops c ++ [m]) (mc_consts c) (mc_vis c))
    | MOConstExpr m =>
        match mc_env c with
        | EnvNone => PErr                             (* "no environment for const expression" *)
        | _ => match m with
               | MMissing => PPanic                   (* vm.FetchFn: cannot get ..; under the recover of Config.ConstExpr *)
               | _ => POk (mkMcfg (mc_env c) (mc_ops c) (mc_consts c ++ [m]) (mc_vis c))
               end
        end
    | MOPatch v => POk (mkMcfg (mc_env c) (mc_ops c) (mc_consts c) (mc_vis c ++ [v]))
    end.

  (* Config.Check: every operator function exists, is a function and has the right signature; every
     ConstExpr value is a function *)
  Definition m_config_check (c : mcfg) : out unit :=
    let op_bad (m : memberk) := match mc_env c, m with EnvNone, _ => true | _, MFunc2 => false | _, _ => true end in
    let const_bad (m : memberk) := match m with MNonFunc => true | _ => false end in
    if existsb op_bad (mc_ops c) || existsb const_bad (mc_consts c) then PErr else POk tt.

  Definition m_visit (v : visk) (t : X.Syn.Ast.expr) : out X.Syn.Ast.expr :=
    match v with VReplace => POk t | VPanics => PPanic end.

  (* the modelled FRONT of expr.Compile: options, Config.Check, Parse *)
  Definition mc_stages : stages :=
    mkStages mopt mcfg (list Z) (list X.Syn.Tok.token) X.Syn.Ast.expr visk X.Syn.Ast.expr X.Base.Value.value X.Base.Value.value
      (mkMcfg EnvNone [] [] []) (mkMcfg EnvNone [] [] [])
      (fun o => match o with MOConstExpr _ => true | _ => false end) m_opt_apply m_config_check m_lex m_parse
      idle2 (fun _ t => t) mc_vis idle2 m_visit (fun _ => false) (fun _ => false)
      idle1 idle1 idle1 idle1 refuse3 (fun _ => X.Base.Value.VNil) idle3
      idle2 refuse3 (fun _ => false).

  Fixpoint front_calls (cs : list call) : list call :=
    match cs with
    | [] => []
    | CCheck _ :: _ | CPatchOperators :: _ | CVisitors _ :: _ | COptimize :: _ | CCompile :: _ | CRun :: _ => []
    | c :: r => c :: front_calls r
    end.

  Definition is_exotic (o : mopt) : bool := match o with MOEnv EnvExotic => true | _ => false end.
  Definition is_vpanics (v : visk) : bool := match v with VPanics => true | VReplace => false end.

  (* the outcome classes of expr.Compile the model allows: exact for the modelled front and for a
     panicking visitor; {ok, err} for what depends on the unmodelled checker / optimizer / compiler
     (their panics are contained or excluded by the containment theorem's hypotheses) *)
  Definition predict_compile (rt : rtable) (calls : list call) (opts : list mopt) (input : list Z) : list oclass :=
    if existsb is_exotic opts then [KOk; KErr; KPanic]
    else
      match run_calls rt mc_stages ApiCompile opts input X.Base.Value.VNil (front_calls calls)
                      (mkPst mc_stages (mkMcfg EnvNone [] [] []) false None None None) with
      | PPanic => [KPanic]
      | PErr => [KErr]
      | POk s =>
          if existsb is_vpanics (mc_vis (p_cfg s)) then
            (if visitors_guarded calls || guarded rt ApiCompile StVisitor then [KErr] else [KPanic])
          else [KOk; KErr]
      end.

  Definition predict_run (rt : rtable) : list oclass :=
    if guarded rt ApiRun StVMRun then [KOk; KErr] else [KOk; KErr; KPanic].
End Model.

(* the decoded call list of a regenerated table ([] when an entry is not recognised: the bridge
   lemma of C04 demands recognition) *)
Definition calls_of (l : list (string * string * string)) : list call :=
  match decode_calls l with Some cs => cs | None => [] end.

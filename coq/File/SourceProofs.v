(* File/SourceProofs.v — theorems about the model of file/source.go and file/error.go
   (File/Source.v), for ALL source texts, and the glue to the lexer / parser / compiler theorems. *)
From Coq Require Import ZArith Bool List Lia.
Require Import X.Base.Value X.Syn.Tok X.Lex.Lexer X.Lex.LexProofs X.File.Source.
Import ListNotations.
Open Scope Z_scope.

(* ================================================================== 1. lines *)
(* the inverse of splitting: pieces joined by line feeds *)
Fixpoint join (ls : list (list Z)) : list Z :=
  match ls with
  | [] => []
  | l :: r => match r with [] => l | _ :: _ => l ++ 10 :: join r end
  end.

Lemma lines_nonempty : forall s, lines s <> [].
Proof.
  destruct s as [|c t]; cbn [lines]; [congruence|].
  destruct (c =? 10); [congruence|]. destruct (lines t); congruence.
Qed.

(* `lines` IS the split at LF: the pieces contain no LF and joined by LF they give the text back *)
Lemma join_lines : forall s, join (lines s) = s.
Proof.
  induction s as [|c t IH]; [reflexivity|]. cbn [lines].
  destruct (Z.eqb_spec c 10) as [->|Hc].
  - cbn [join]. destruct (lines t) eqn:E; [exfalso; eapply lines_nonempty; eauto|]. rewrite IH. reflexivity.
  - destruct (lines t) as [|l ls] eqn:E; [exfalso; eapply lines_nonempty; eauto|].
    cbn [join] in *. destruct ls; rewrite <- IH; reflexivity.
Qed.

Lemma lines_no_lf : forall s l, In l (lines s) -> ~ In 10 l.
Proof.
  induction s as [|c t IH]; intros l Hl; cbn [lines] in Hl.
  - destruct Hl as [<-|[]]. intros [].
  - destruct (Z.eqb_spec c 10) as [->|Hc].
    + destruct Hl as [<-|Hl]; [intros []|auto].
    + destruct (lines t) as [|l0 ls] eqn:E; [exfalso; eapply lines_nonempty; eauto|].
      destruct Hl as [<-|Hl].
      * intros [H|H]; [congruence|]. eapply IH; [left; reflexivity|exact H].
      * apply IH. right. exact Hl.
Qed.

Definition nlines (s : list Z) : Z := len (lines s).
Definition line_of (s : list Z) (line : Z) : list Z := nth (Z.to_nat (line - 1)) (lines s) [].

Lemma nlines_pos : forall s, 1 <= nlines s.
Proof. intros s. unfold nlines, len. pose proof (lines_nonempty s). destruct (lines s); [congruence|cbn [List.length]; lia]. Qed.

(* ================================================================== 2. offsets *)
Fixpoint total (ls : list (list Z)) : Z :=
  match ls with [] => 0 | l :: r => len l + 1 + total r end.

Fixpoint starts (off : Z) (ls : list (list Z)) : list Z :=
  match ls with [] => [] | l :: r => (off + len l + 1) :: starts (off + len l + 1) r end.

(* offset at which piece k begins in the joined text *)
Fixpoint start (k : nat) (ls : list (list Z)) : Z :=
  match k, ls with S k', l :: r => len l + 1 + start k' r | _, _ => 0 end.

Lemma len_nonneg {A} (l : list A) : 0 <= len l.
Proof. unfold len. lia. Qed.

Lemma total_nonneg : forall ls, 0 <= total ls.
Proof. induction ls as [|l r IH]; cbn [total]; [lia|]. pose proof (len_nonneg l). lia. Qed.

Lemma wrap32_id : forall x, -2147483648 <= x < 2147483648 -> wrap32 x = x.
Proof. intros x H. unfold wrap32. rewrite Z.mod_small by lia. lia. Qed.

Lemma offsets_plain : forall ls off, 0 <= off -> off + total ls <= 2147483647 ->
  offsets_from off ls = starts off ls.
Proof.
  induction ls as [|l r IH]; intros off H0 H; [reflexivity|].
  cbn [offsets_from starts total] in *. pose proof (len_nonneg l). pose proof (total_nonneg r).
  rewrite (wrap32_id (len l)) by lia. rewrite wrap32_id by lia.
  f_equal. apply IH; lia.
Qed.

Lemma total_lines : forall s, total (lines s) = len s + 1.
Proof.
  induction s as [|c t IH]; [reflexivity|]. cbn [lines].
  replace (len (c :: t)) with (len t + 1) by (unfold len; cbn [List.length]; lia).
  destruct (c =? 10).
  - cbn [total]. rewrite IH. unfold len. cbn [List.length]. lia.
  - destruct (lines t) as [|l ls] eqn:E; [exfalso; eapply lines_nonempty; eauto|].
    cbn [total] in *. replace (len (c :: l)) with (len l + 1) by (unfold len; cbn [List.length]; lia). lia.
Qed.

Lemma starts_length : forall ls off, List.length (starts off ls) = List.length ls.
Proof. induction ls; intros; cbn; auto. Qed.

Lemma start_nonneg : forall k ls, 0 <= start k ls.
Proof. induction k; destruct ls as [|l r]; cbn [start]; try lia. pose proof (IHk r). pose proof (len_nonneg l). lia. Qed.

Lemma start_le_total : forall k ls, start k ls <= total ls.
Proof.
  induction k; destruct ls as [|l r]; cbn [start total]; try lia.
  - pose proof (total_nonneg r). pose proof (len_nonneg l). lia.
  - pose proof (IHk r). lia.
Qed.

Lemma start_S : forall k ls, (k < List.length ls)%nat ->
  start (S k) ls = start k ls + len (nth k ls []) + 1.
Proof.
  induction k; destruct ls as [|l r]; cbn [List.length]; intros H; try lia.
  - cbn [start nth]. destruct r; lia.
  - change (start (S (S k)) (l :: r)) with (len l + 1 + start (S k) r).
    rewrite IHk by lia. cbn [start nth]. lia.
Qed.

Lemma nth_starts : forall ls k off, (k < List.length ls)%nat ->
  nth k (starts off ls) 0 = off + start (S k) ls.
Proof.
  induction ls as [|l r IH]; intros k off H; cbn [List.length] in H; [lia|].
  destruct k.
  - cbn [starts nth start]. destruct r; lia.
  - cbn [starts nth]. rewrite IH by lia. change (start (S (S k)) (l :: r)) with (len l + 1 + start (S k) r). lia.
Qed.

Lemma skipn_app_exact {A} : forall (l x : list A) n, skipn (List.length l + n) (l ++ x) = skipn n x.
Proof. induction l; intros; cbn; auto. Qed.

Lemma firstn_app_exact {A} : forall (l x : list A), firstn (List.length l) (l ++ x) = l.
Proof. induction l; intros; cbn; [reflexivity|]. f_equal. auto. Qed.

Lemma skipn_start : forall k ls, (k < List.length ls)%nat ->
  skipn (Z.to_nat (start k ls)) (join ls) = join (skipn k ls).
Proof.
  induction k; intros ls H.
  - destruct ls; reflexivity.
  - destruct ls as [|l r]; cbn [List.length] in H; [lia|].
    destruct r as [|l2 r2]; [cbn [List.length] in H; lia|].
    change (join (l :: l2 :: r2)) with (l ++ 10 :: join (l2 :: r2)).
    cbn [start skipn]. pose proof (start_nonneg k (l2 :: r2)).
    replace (Z.to_nat (len l + 1 + start k (l2 :: r2))) with (List.length l + S (Z.to_nat (start k (l2 :: r2))))%nat
      by (unfold len; lia).
    rewrite skipn_app_exact. cbn [skipn]. apply IHk. cbn [List.length] in *. lia.
Qed.

Lemma firstn_join : forall l r, firstn (List.length l) (join (l :: r)) = l.
Proof.
  intros l r. cbn [join]. destruct r.
  - apply firstn_all.
  - apply firstn_app_exact.
Qed.

Lemma skipn_nth {A} : forall k (l : list A) d, (k < List.length l)%nat -> skipn k l = nth k l d :: skipn (S k) l.
Proof.
  induction k; destruct l; cbn [List.length]; intros; try lia; [reflexivity|].
  cbn [skipn nth]. rewrite (IHk l d) by lia. reflexivity.
Qed.

(* ================================================================== 3. Snippet *)
Section Snippet.
Variable s : list Z.
Hypothesis Hsize : len s < 2147483647.       (* int32 offsets: the text is shorter than 2^31 - 1 runes *)

Let L := lines s.

Lemma offsets_are_starts : updateOffsets s = starts 0 L.
Proof.
  unfold updateOffsets. apply offsets_plain; [lia|]. fold L. unfold L. rewrite total_lines. lia.
Qed.

Lemma find_in_range : forall line, 1 <= line <= nlines s ->
  findLineOffset (newSource s) line = Some (start (Z.to_nat (line - 1)) L).
Proof.
  intros line H. unfold findLineOffset, newSource. cbn [lineOffsets]. rewrite offsets_are_starts.
  destruct (Z.eqb_spec line 1) as [->|Hn]; [reflexivity|].
  unfold len. rewrite starts_length. fold (len L). fold L in H. unfold nlines in H. fold L in H.
  replace (1 <? line) with true by (symmetry; apply Z.ltb_lt; lia).
  replace (line <=? len L) with true by (symmetry; apply Z.leb_le; lia).
  cbn [andb]. f_equal. rewrite nth_starts by (unfold len in H; lia).
  replace (S (Z.to_nat (line - 2))) with (Z.to_nat (line - 1)) by lia. lia.
Qed.

Lemma find_out_of_range : forall line, line < 1 \/ nlines s < line ->
  findLineOffset (newSource s) line = None.
Proof.
  intros line H. unfold findLineOffset, newSource. cbn [lineOffsets]. rewrite offsets_are_starts.
  pose proof (nlines_pos s) as Hp. unfold nlines in *. fold L in H, Hp.
  destruct (Z.eqb_spec line 1) as [->|Hn]; [lia|].
  unfold len at 1. rewrite starts_length. fold (len L).
  destruct (Z.ltb_spec 1 line); [|reflexivity].
  destruct (Z.leb_spec line (len L)); [lia|reflexivity].
Qed.

(* Snippet returns exactly the line-th piece of the split at LF ... *)
Theorem snippet_is_line : forall line, s <> [] -> 1 <= line <= nlines s ->
  snippet (newSource s) line = SFound (line_of s line).
Proof.
  intros line Hne H. unfold snippet. rewrite find_in_range by assumption.
  assert (Hlen : len s =? 0 = false).
  { apply Z.eqb_neq. unfold len. destruct s; [congruence|cbn [List.length]; lia]. }
  change (contents (newSource s)) with s. rewrite Hlen.
  set (k := Z.to_nat (line - 1)).
  assert (Hk : (k < List.length L)%nat) by (unfold nlines, len in H; fold L in H; lia).
  pose proof (start_nonneg k L) as Hs0.
  pose proof (start_S k L Hk) as HS. pose proof (start_le_total (S k) L) as Ht.
  unfold L in Ht at 2. rewrite total_lines in Ht.
  pose proof (len_nonneg (nth k L [])) as Hl0.
  assert (Hskip : skipn (Z.to_nat (start k L)) s = join (skipn k L)).
  { rewrite <- (join_lines s) at 1. apply skipn_start. exact Hk. }
  unfold line_of. fold L. fold k.
  destruct (Z.le_gt_cases (line + 1) (nlines s)) as [Hin|Hlast].
  - (* a following line exists: contents[charStart : charEnd-1] *)
    rewrite find_in_range by lia.
    replace (Z.to_nat (line + 1 - 1)) with (S k) by lia.
    rewrite wrap32_id by lia.
    unfold slice.
    replace (0 <=? start k L) with true by (symmetry; apply Z.leb_le; lia).
    replace (start k L <=? start (S k) L - 1) with true by (symmetry; apply Z.leb_le; lia).
    replace (start (S k) L - 1 <=? len s) with true by (symmetry; apply Z.leb_le; lia).
    cbn [andb]. f_equal. rewrite Hskip.
    rewrite (skipn_nth k L []) by exact Hk.
    replace (Z.to_nat (start (S k) L - 1 - start k L)) with (List.length (nth k L [])) by (unfold len in HS; lia).
    apply firstn_join.
  - (* the last line: contents[charStart:] *)
    rewrite find_out_of_range by lia.
    unfold slice.
    replace (0 <=? start k L) with true by (symmetry; apply Z.leb_le; lia).
    replace (start k L <=? len s) with true by (symmetry; apply Z.leb_le; lia).
    replace (len s <=? len s) with true by (symmetry; apply Z.leb_le; lia).
    cbn [andb]. f_equal.
    rewrite firstn_all2.
    + rewrite Hskip. rewrite (skipn_nth k L []) by exact Hk.
      assert (HSk : S k = List.length L) by (unfold nlines, len in Hlast, H; fold L in Hlast, H; lia).
      rewrite HSk, skipn_all. reflexivity.
    + rewrite skipn_length. unfold len. lia.
Qed.

(* ... and is "not found" for every other line number, *)
Theorem snippet_not_found : forall line, line < 1 \/ nlines s < line ->
  snippet (newSource s) line = SNotFound.
Proof. intros line H. unfold snippet. rewrite find_out_of_range by assumption. reflexivity. Qed.

End Snippet.

(* ... and for every line of the empty text (special case `len(s.contents) == 0`) *)
Theorem snippet_empty_source : forall line, snippet (newSource []) line = SNotFound.
Proof. intros line. unfold snippet. destruct (findLineOffset (newSource []) line); reflexivity. Qed.

Theorem snippet_never_panics : forall s line, len s < 2147483647 -> snippet (newSource s) line <> SPanic.
Proof.
  intros s line Hs.
  destruct s as [|c t] eqn:E; [rewrite snippet_empty_source; congruence|]. rewrite <- E in *.
  destruct (Z_lt_le_dec line 1); [rewrite snippet_not_found by auto; congruence|].
  destruct (Z_lt_le_dec (nlines s) line); [rewrite snippet_not_found by auto; congruence|].
  rewrite snippet_is_line; [congruence|assumption|subst; congruence|lia].
Qed.

(* ================================================================== 4. positions of prefixes *)
(* `advance (1,0) pre` (Lex/LexProofs.v) is the location the lexer assigns to the rune that follows
   the prefix `pre`: line = number of pieces of pre, column = length of its last piece. *)
Lemma last_cons_ne {A} : forall (x : A) l d, l <> [] -> last (x :: l) d = last l d.
Proof. intros x l d H. destruct l; [congruence|reflexivity]. Qed.

Lemma advance_lines_gen : forall s ln col,
  advance (ln, col) s =
  (ln + len (lines s) - 1,
   if len (lines s) =? 1 then col + len (last (lines s) []) else len (last (lines s) [])).
Proof.
  induction s as [|c t IH]; intros ln col.
  - cbn. f_equal; lia.
  - rewrite advance_cons. unfold adv_loc. cbn [fst snd lines].
    pose proof (lines_nonempty t) as Hne.
    destruct (Z.eqb_spec c 10) as [->|Hc].
    + rewrite IH. rewrite last_cons_ne by exact Hne.
      replace (len ([] :: lines t)) with (len (lines t) + 1) by (unfold len; cbn [List.length]; lia).
      assert (1 <= len (lines t)) by (unfold len; destruct (lines t); [congruence|cbn [List.length]; lia]).
      replace (len (lines t) + 1 =? 1) with false by (symmetry; apply Z.eqb_neq; lia).
      f_equal; [lia|]. destruct (len (lines t) =? 1); lia.
    + rewrite IH. destruct (lines t) as [|l ls] eqn:E; [congruence|].
      replace (len ((c :: l) :: ls)) with (len (l :: ls)) by (unfold len; reflexivity).
      f_equal. destruct ls as [|l2 ls2].
      * cbn [last]. replace (len [l] =? 1) with true by reflexivity.
        unfold len. cbn [List.length]. lia.
      * replace (len (l :: l2 :: ls2) =? 1) with false
          by (symmetry; apply Z.eqb_neq; unfold len; cbn [List.length]; lia).
        reflexivity.
Qed.

Lemma advance_lines : forall pre,
  advance (1, 0) pre = (len (lines pre), len (last (lines pre) [])).
Proof.
  intros pre. rewrite advance_lines_gen. f_equal; [lia|]. destruct (len (lines pre) =? 1); lia.
Qed.

Lemma lines_app : forall a b,
  lines (a ++ b) = removelast (lines a) ++ (last (lines a) [] ++ hd [] (lines b)) :: tl (lines b).
Proof.
  induction a as [|c a IH]; intros b.
  - cbn. pose proof (lines_nonempty b). destruct (lines b); [congruence|reflexivity].
  - cbn [app lines]. rewrite IH. pose proof (lines_nonempty a) as Hne.
    destruct (c =? 10).
    + destruct (lines a) as [|l ls] eqn:E; [congruence|]. reflexivity.
    + destruct (lines a) as [|l ls] eqn:E; [congruence|].
      destruct ls as [|l2 ls2]; reflexivity.
Qed.

Definition inside (s : list Z) (p : loc) : Prop :=
  1 <= fst p <= nlines s /\ 0 <= snd p <= len (line_of s (fst p)).

Lemma removelast_length {A} : forall (l : list A), l <> [] -> S (List.length (removelast l)) = List.length l.
Proof.
  induction l as [|x l IH]; [congruence|]. intros _. destruct l as [|y l]; [reflexivity|].
  change (removelast (x :: y :: l)) with (x :: removelast (y :: l)). cbn [List.length]. rewrite IH by congruence. reflexivity.
Qed.

(* Every prefix position lies inside the text: the line exists, the column is at most the length of
   that line, the line starts with what the prefix has on its last line, and the rune the position
   names is the rune that follows the prefix. *)
Theorem prefix_position : forall pre post,
  let s := pre ++ post in
  let p := advance (1, 0) pre in
  inside s p /\
  firstn (Z.to_nat (snd p)) (line_of s (fst p)) = last (lines pre) [] /\
  (forall r t, post = r :: t -> r <> 10 -> nth_error (line_of s (fst p)) (Z.to_nat (snd p)) = Some r) /\
  (post = [] -> snd p = len (line_of s (fst p))).
Proof.
  intros pre post s p. subst s p. rewrite advance_lines. cbn [fst snd].
  pose proof (lines_nonempty pre) as Hne. pose proof (lines_nonempty post) as Hnp.
  unfold inside, line_of, nlines. cbn [fst snd]. rewrite lines_app.
  set (A := removelast (lines pre)). set (lp := last (lines pre) []).
  pose proof (removelast_length (lines pre) Hne) as HA. fold A in HA.
  replace (Z.to_nat (len (lines pre) - 1)) with (List.length A) by (unfold len; lia).
  rewrite nth_middle.
  assert (Hlen : len (A ++ (lp ++ hd [] (lines post)) :: tl (lines post)) = len (lines pre) + len (tl (lines post))).
  { unfold len. rewrite app_length. cbn [List.length]. lia. }
  rewrite Hlen. pose proof (len_nonneg (tl (lines post))). pose proof (len_nonneg lp).
  assert (Hll : len (lp ++ hd [] (lines post)) = len lp + len (hd [] (lines post))).
  { unfold len. rewrite app_length. lia. }
  pose proof (len_nonneg (hd [] (lines post))).
  repeat split; try (unfold len in *; lia).
  - replace (Z.to_nat (len lp)) with (List.length lp) by (unfold len; lia). apply firstn_app_exact.
  - intros r t -> Hr. replace (Z.to_nat (len lp)) with (List.length lp) by (unfold len; lia).
    rewrite nth_error_app2 by lia. rewrite Nat.sub_diag.
    cbn [lines]. replace (r =? 10) with false by (symmetry; apply Z.eqb_neq; exact Hr).
    pose proof (lines_nonempty t). destruct (lines t); [congruence|reflexivity].
  - intros ->. cbn. rewrite app_nil_r. reflexivity.
Qed.

Corollary prefix_inside : forall pre post, inside (pre ++ post) (advance (1, 0) pre).
Proof. intros. apply (prefix_position pre post). Qed.

(* ================================================================== 5. tokens (via C12_positions) *)
Section Tokens.
Variables uni_letter uni_digit uni_space : Z -> bool.

Notation layout_ok := (layout_ok uni_letter uni_digit uni_space).
Notation tok_ok := (tok_ok uni_letter uni_digit uni_space).

(* every token the property of C12 expects is located at `advance (1,0) pre` for the prefix `pre`
   that precedes its spelling in the text *)
Lemma expected_at_prefix : forall items pre0 trail tok,
  In tok (expected (advance (1, 0) pre0) items) ->
  exists pre ws t post,
    pre0 ++ layout items trail = pre ++ tok_runes t ++ post /\ In (ws, t) items /\
    tloc tok = advance (1, 0) pre /\ tkind_of tok = tok_kind t /\ tval tok = tok_value t.
Proof.
  induction items as [|[ws t] items IH]; intros pre0 trail tok Hin; [destruct Hin|].
  cbn [expected layout] in *. destruct Hin as [<-|Hin].
  - exists (pre0 ++ ws), ws, t, (layout items trail). cbn [tloc tkind_of tval].
    rewrite <- advance_app, <- !app_assoc. repeat split; auto. left; reflexivity.
  - rewrite <- !advance_app in Hin. rewrite app_assoc in Hin.
    destruct (IH ((pre0 ++ ws) ++ tok_runes t) trail tok Hin) as (pre & ws' & t' & post & E & I & R).
    exists pre, ws', t', post. split; [|split; [right; exact I|exact R]].
    rewrite <- E, <- !app_assoc. reflexivity.
Qed.

Lemma Some_neq_None {A} (x : A) : Some x <> None.
Proof. congruence. Qed.

Lemma mem_not_lf : forall r l, mem r l = true -> mem 10 l = false -> r <> 10.
Proof. intros r l H H0 ->. congruence. Qed.

(* no token starts with a line feed *)
Lemma tok_first_rune : forall t, tok_ok t = true -> exists r w, tok_runes t = r :: w /\ r <> 10.
Proof.
  intros t H. destruct t as [r w|n|r|r [r2|]|r|q items|[| |]]; cbn [tok_runes tok_ok dot_runes] in *.
  - exists r, w. split; [reflexivity|]. intros ->.
    repeat (apply andb_true_iff in H; destruct H as [H ?]).
    unfold is_space in *. cbn in *. congruence.
  - destruct n as [d ds fr ex|d ds ex|x ds]; cbn [num_runes num_ok] in *.
    + eexists _, _. split; [reflexivity|]. repeat (apply andb_true_iff in H; destruct H as [H ?]).
      unfold is_dec in H. intros ->. discriminate.
    + eexists _, _. split; [reflexivity|]. congruence.
    + eexists _, _. split; [reflexivity|]. congruence.
  - exists r, []. split; [reflexivity|]. eapply mem_not_lf; [exact H|reflexivity].
  - apply andb_true_iff in H. destruct H as [H _]. exists r, [r2]. split; [reflexivity|]. eapply mem_not_lf; [exact H|reflexivity].
  - exists r, []. split; [reflexivity|]. eapply mem_not_lf; [exact H|reflexivity].
  - exists r, []. split; [reflexivity|]. eapply mem_not_lf; [exact H|reflexivity].
  - apply andb_true_iff in H. destruct H as [H _]. eexists _, _. split; [reflexivity|].
    apply orb_true_iff in H. destruct H as [H|H]; apply Z.eqb_eq in H; lia.
  - eexists _, _. split; [reflexivity|]. congruence.
  - eexists _, _. split; [reflexivity|]. congruence.
  - eexists _, _. split; [reflexivity|]. congruence.
Qed.

Lemma layout_ok_In : forall items trail ws t, layout_ok items trail = true -> In (ws, t) items -> tok_ok t = true.
Proof.
  induction items as [|[ws0 t0] items IH]; intros trail ws t H Hin; [destruct Hin|].
  cbn [LexProofs.layout_ok] in H. repeat (apply andb_true_iff in H; destruct H as [H ?]).
  destruct Hin as [E|Hin]; [inversion E; subst; assumption|eauto].
Qed.

Definition is_eof (tok : token) : bool := tkind_eqb (tkind_of tok) TkEOF.

(* the location the lexer reports for a token: inside the text, the column strictly inside the line,
   and the rune there is the first rune of the token's spelling *)
Definition token_located (s : list Z) (tok : token) : Prop :=
  inside s (tloc tok) /\
  (is_eof tok = false ->
     exists r, nth_error (line_of s (fst (tloc tok))) (Z.to_nat (snd (tloc tok))) = Some r /\ r <> 10 /\
               snd (tloc tok) < len (line_of s (fst (tloc tok)))).

Lemma ident_kind_not_eof : forall w, tkind_eqb (ident_kind w) TkEOF = false.
Proof. intros w. unfold ident_kind. destruct (existsb _ _); reflexivity. Qed.

Theorem tokens_located : forall items trail, layout_ok items trail = true ->
  exists toks, lex uni_letter uni_digit uni_space (layout items trail) = LexOk toks /\
    forall tok, In tok toks -> token_located (layout items trail) tok.
Proof.
  intros items trail Hok. eexists. split; [apply positions_hold; exact Hok|].
  intros tok Hin. apply in_app_or in Hin. destruct Hin as [Hin|[<-|[]]].
  - change (1, 0) with (advance (1, 0) []) in Hin.
    destruct (expected_at_prefix items [] trail tok Hin) as (pre & ws & t & post & E & I & Hl & Hk & _).
    cbn [app] in E. destruct (tok_first_rune t (layout_ok_In _ _ _ _ Hok I)) as (r & w & Er & Hr).
    unfold token_located. rewrite E, Hl. destruct (prefix_position pre (tok_runes t ++ post)) as (Hi & _ & Hn & _).
    split; [exact Hi|]. intros _. exists r. rewrite Er in *. cbn [app] in *.
    specialize (Hn r (w ++ post) eq_refl Hr). split; [exact Hn|split; [exact Hr|]].
    pose proof (proj1 (nth_error_Some _ _) (eq_ind_r (fun o => o <> None) (@Some_neq_None Z r) Hn)) as Hlt.
    unfold len. destruct Hi as [_ [H0 _]]. lia.
  - (* the EOF token: located at the last rune of the text, (1,0) for the empty text *)
    split; [|cbn; congruence]. cbn [tloc]. unfold lastpos.
    destruct (layout items trail) as [|c l] eqn:E.
    + unfold inside, nlines, line_of. cbn. lia.
    + rewrite <- E. assert (Hne : layout items trail <> []) by congruence.
      rewrite (app_removelast_last 0 Hne) at 1.
      apply prefix_inside.
Qed.

End Tokens.

(* ================================================================== 6. the snippet of a token, the caret *)
Section TokenSnippet.
Variables uni_letter uni_digit uni_space : Z -> bool.

(* For a token the lexer locates at (line, col): Snippet(line) is found and the rune at column col
   of it is the first rune of the token's spelling. *)
Theorem token_snippet : forall items trail tok,
  LexProofs.layout_ok uni_letter uni_digit uni_space items trail = true ->
  len (layout items trail) < 2147483647 ->
  In tok (expected (1, 0) items) ->
  exists ws t r w text,
    In (ws, t) items /\ tkind_of tok = tok_kind t /\ tval tok = tok_value t /\ tok_runes t = r :: w /\
    snippet (newSource (layout items trail)) (fst (tloc tok)) = SFound text /\
    text = line_of (layout items trail) (fst (tloc tok)) /\
    nth_error text (Z.to_nat (snd (tloc tok))) = Some r.
Proof.
  intros items trail tok Hok Hsz Hin.
  change (1, 0) with (advance (1, 0) []) in Hin.
  destruct (expected_at_prefix items [] trail tok Hin) as (pre & ws & t & post & E & I & Hl & Hk & Hv).
  cbn [app] in E.
  destruct (tok_first_rune uni_letter uni_digit uni_space t (layout_ok_In _ _ _ _ _ _ _ Hok I)) as (r & w & Er & Hr).
  exists ws, t, r, w, (line_of (layout items trail) (fst (tloc tok))).
  repeat split; try assumption.
  - apply snippet_is_line; [exact Hsz| |].
    + rewrite E, Er. destruct pre; discriminate.
    + rewrite E, Hl. apply (prefix_position pre (tok_runes t ++ post)).
  - rewrite E, Hl. destruct (prefix_position pre (tok_runes t ++ post)) as (_ & _ & Hn & _).
    rewrite Er in *. exact (Hn r (w ++ post) eq_refl Hr).
Qed.
End TokenSnippet.

(* ---- the indicator line *)
Definition ascii_run (l : list Z) : bool := forallb (fun r => negb (multibyte r)) l.

Lemma ind_loop_ascii : forall n bytes acc, (n <= List.length bytes)%nat ->
  ascii_run (firstn (S n) bytes) = true ->
  ind_loop n bytes acc = Some (acc ++ repeat 46 n ++ [94]).
Proof.
  induction n as [|n IH]; intros bytes acc Hn Ha.
  - destruct bytes as [|r t]; [reflexivity|]. cbn in Ha. cbn [ind_loop repeat app].
    destruct (multibyte r); [discriminate|reflexivity].
  - destruct bytes as [|r t]; [cbn in Hn; lia|].
    change (firstn (S (S n)) (r :: t)) with (r :: firstn (S n) t) in Ha.
    cbn [ascii_run forallb] in Ha. apply andb_true_iff in Ha. destruct Ha as [Hr Ha].
    cbn [ind_loop]. destruct (multibyte r); [discriminate|].
    rewrite IH; [|cbn in Hn; lia|exact Ha]. cbn [repeat app]. rewrite <- app_assoc. reflexivity.
Qed.

Lemma ind_loop_multibyte : forall n bytes acc,
  ascii_run (firstn (S n) bytes) = false -> ind_loop n bytes acc = None.
Proof.
  induction n as [|n IH]; intros bytes acc Ha.
  - destruct bytes as [|r t]; [discriminate|]. cbn in Ha. cbn [ind_loop].
    destruct (multibyte r); [reflexivity|discriminate].
  - destruct bytes as [|r t]; [discriminate|].
    change (firstn (S (S n)) (r :: t)) with (r :: firstn (S n) t) in Ha.
    cbn [ascii_run forallb] in Ha. cbn [ind_loop]. destruct (multibyte r); [reflexivity|].
    cbn [negb andb] in Ha. apply IH. exact Ha.
Qed.

Lemma untab_length : forall l, List.length (untab l) = List.length l.
Proof. intros. apply map_length. Qed.

Lemma untab_ascii : forall l, ascii_run (untab l) = ascii_run l.
Proof.
  induction l as [|r t IH]; [reflexivity|]. unfold ascii_run, untab in *. cbn [map forallb]. rewrite IH. f_equal.
  destruct (Z.eqb_spec r 9) as [->|]; reflexivity.
Qed.

Lemma untab_firstn : forall n l, firstn n (untab l) = untab (firstn n l).
Proof. intros. unfold untab. apply firstn_map. Qed.

(* When the snippet up to and including the column is ASCII, the rendered snippet is the source
   line (tabs shown as blanks) followed by an indicator line of exactly `col` dots and `^`. *)
Theorem caret_line : forall c line col text,
  snippet (newSource c) line = SFound text -> 0 <= col <= len text ->
  ascii_run (firstn (S (Z.to_nat col)) text) = true ->
  bind (newSource c) (line, col) =
    BSnippet (line_prefix ++ untab text ++ line_prefix ++ repeat 46 (Z.to_nat col) ++ [94]).
Proof.
  intros c line col text Hs Hc Ha. unfold bind. cbn [fst snd]. rewrite Hs.
  rewrite ind_loop_ascii.
  - rewrite <- app_assoc. reflexivity.
  - rewrite untab_length. unfold len in Hc. lia.
  - rewrite untab_firstn, untab_ascii. exact Ha.
Qed.

(* After a multi-byte rune (in the columns 0..col) the indicator line is dropped, the source line
   is still shown: documented rendering behaviour of Error.Bind. *)
Theorem caret_dropped : forall c line col text,
  snippet (newSource c) line = SFound text ->
  ascii_run (firstn (S (Z.to_nat col)) text) = false ->
  bind (newSource c) (line, col) = BSnippet (line_prefix ++ untab text).
Proof.
  intros c line col text Hs Ha. unfold bind. cbn [fst snd]. rewrite Hs.
  rewrite ind_loop_multibyte; [reflexivity|]. rewrite untab_firstn, untab_ascii. exact Ha.
Qed.

(* in both cases the rendered snippet begins with "\n | " followed by the named source line *)
Theorem bind_shows_line : forall c l text,
  snippet (newSource c) (fst l) = SFound text ->
  exists rest, bind (newSource c) l = BSnippet (line_prefix ++ untab text ++ rest).
Proof.
  intros c l text Hs. unfold bind. rewrite Hs.
  destruct (ind_loop _ _ _); eexists; [rewrite <- app_assoc; reflexivity|rewrite app_nil_r; reflexivity].
Qed.

From Coq Require Import String.
(* ================================================================== 6b. the lexer on ARBITRARY input *)
(* Invariant of the lexer model for every input text, well-formed or not: every location held in
   the state (loc, prev, startLoc, the tokens emitted so far, the recorded error) is a prefix
   position `advance (1,0) pre` of the input, hence (prefix_position) lies inside it. *)
Section LexerInvariant.
Variables uni_letter uni_digit uni_space : Z -> bool.
Variable input : list Z.

Notation adv0 := (advance (1, 0)).
Definition PP (p : loc) : Prop := exists pre post, input = pre ++ post /\ p = adv0 pre.
(* the position of the last rune of the input *)
Definition LastP (p : loc) : Prop := exists pre' r, input = pre' ++ [r] /\ p = adv0 pre'.

Definition Sync (l : lexer) : Prop :=
  exists pre, input = pre ++ l_rest l /\ (l_loc l = adv0 pre \/ (l_rest l = [] /\ LastP (l_loc l))).
Definition EofPrev (l : lexer) : Prop := l_rest l = [] -> l_prev l = adv0 input \/ LastP (l_prev l).

Record Inv (l : lexer) : Prop := mkInv {
  inv_sync : Sync l;
  inv_eof : EofPrev l;
  inv_prev : PP (l_prev l);
  inv_start : PP (l_startLoc l);
  inv_toks : forall t, In t (l_tokens l) -> PP (tloc t);
  inv_err : forall e, l_err l = Some e -> PP e
}.

(* what `backup` needs: the state is the direct result of a `next` *)
Definition Ready1 (l : lexer) : Prop :=
  exists r w pre', l_word l = r :: w /\ input = pre' ++ r :: l_rest l /\ l_prev l = adv0 pre' /\ l_loc l = adv0 (pre' ++ [r]).
Definition BSafe (l : lexer) : Prop :=
  (l_width l = 0 -> l_rest l = [] \/ l_prev l = l_loc l) /\ (l_width l <> 0 -> Ready1 l).

Lemma LastP_PP p : LastP p -> PP p.
Proof. intros (pre' & r & E & ->). exists pre', [r]. auto. Qed.

Lemma PP_end : PP (adv0 input).
Proof. exists input, []. rewrite app_nil_r. auto. Qed.

Lemma Inv_loc l : Inv l -> PP (l_loc l).
Proof.
  intros I. destruct (inv_sync l I) as (pre & E & [H|[_ H]]).
  - exists pre, (l_rest l). auto.
  - apply LastP_PP. exact H.
Qed.

(* updates that leave rest / loc / prev alone *)
Lemma Inv_upd l l' : Inv l -> l_rest l' = l_rest l -> l_loc l' = l_loc l -> l_prev l' = l_prev l ->
  PP (l_startLoc l') -> (forall t, In t (l_tokens l') -> PP (tloc t)) -> (forall e, l_err l' = Some e -> PP e) -> Inv l'.
Proof.
  intros I Hr Hl Hp Hs Ht He. constructor; auto.
  - unfold Sync. rewrite Hr, Hl. exact (inv_sync l I).
  - unfold EofPrev. rewrite Hr, Hp. exact (inv_eof l I).
  - rewrite Hp. exact (inv_prev l I).
Qed.

Lemma next_inv l : Inv l -> Inv (adv l) /\ BSafe (adv l).
Proof.
  intros I. unfold adv, Lexer.next. destruct (l_rest l) as [|r t] eqn:R; cbn [snd].
  - split.
    + eapply Inv_upd; [exact I|cbn; symmetry; exact R|reflexivity|reflexivity|exact (inv_start l I)|exact (inv_toks l I)|exact (inv_err l I)].
    + split; cbn; [auto|congruence].
  - destruct (inv_sync l I) as (pre & E & [H|[H _]]); [|congruence]. rewrite R in E.
    assert (Hn : adv_loc (l_loc l) r = adv0 (pre ++ [r])).
    { rewrite advance_app, <- H. reflexivity. }
    split.
    + constructor; unfold Sync, EofPrev; cbn.
      * exists (pre ++ [r]). split; [rewrite <- app_assoc; exact E|left; exact Hn].
      * intros ->. right. exists pre, r. auto.
      * exists pre, (r :: t). auto.
      * exact (inv_start l I).
      * exact (inv_toks l I).
      * exact (inv_err l I).
    + split; cbn; [congruence|]. intros _. exists r, (l_word l), pre. auto.
Qed.

Lemma backup_inv l : Inv l -> BSafe l -> Inv (backup l).
Proof.
  intros I [B0 B1]. unfold backup. destruct (Z.eqb_spec (l_width l) 0) as [W|W].
  - destruct (B0 W) as [R|P].
    + constructor; unfold Sync; cbn; [|exact (inv_eof l I)|exact (inv_prev l I)|exact (inv_start l I)|exact (inv_toks l I)|exact (inv_err l I)].
      exists input. rewrite R, app_nil_r. split; [reflexivity|]. destruct (inv_eof l I R) as [H|H]; auto.
    + eapply Inv_upd; [exact I|reflexivity|cbn; exact P|reflexivity|exact (inv_start l I)|exact (inv_toks l I)|exact (inv_err l I)].
  - destruct (B1 W) as (r & w & pre' & Hw & E & Hp & Hl). rewrite Hw.
    constructor; unfold Sync, EofPrev; cbn; [| |exact (inv_prev l I)|exact (inv_start l I)|exact (inv_toks l I)|exact (inv_err l I)].
    + exists pre'. auto.
    + discriminate.
Qed.

Lemma pk_inv l : Inv l -> Inv (pk l).
Proof. intros I. unfold pk. destruct (next_inv l I). apply backup_inv; assumption. Qed.

Lemma peek_inv l : Inv l -> Inv (snd (Lexer.peek l)).
Proof. intros I. rewrite peek_eq. apply pk_inv. exact I. Qed.

Lemma accept_eq valid l :
  Lexer.accept valid l = if mem (fst (Lexer.next l)) valid then (true, adv l) else (false, pk l).
Proof. unfold Lexer.accept, pk, adv. destruct (Lexer.next l) as [r l1]. cbn [fst snd]. destruct (mem r valid); reflexivity. Qed.

Lemma accept_inv valid l : Inv l ->
  Inv (snd (Lexer.accept valid l)) /\ (fst (Lexer.accept valid l) = true -> BSafe (snd (Lexer.accept valid l))).
Proof.
  intros I. rewrite accept_eq. destruct (next_inv l I) as [I1 B1]. destruct (mem _ valid); cbn [fst snd].
  - auto.
  - split; [apply pk_inv; exact I|discriminate].
Qed.

Lemma run_while_inv p : forall fuel l, Inv l -> Inv (run_while p fuel l).
Proof.
  induction fuel as [|f IH]; intros l I; cbn [run_while]; [exact I|].
  destruct (next_inv l I) as [I1 B1]. unfold adv in *. destruct (Lexer.next l) as [r l1]. cbn [snd] in *.
  destruct (p r); [apply IH; exact I1|apply backup_inv; assumption].
Qed.

Lemma acceptRun_inv valid l : Inv l -> Inv (acceptRun valid l).
Proof. intros I. unfold acceptRun. apply run_while_inv. exact I. Qed.

Lemma emitValue_inv k v l : Inv l -> Inv (emitValue k v l).
Proof.
  intros I. eapply Inv_upd; [exact I|reflexivity|reflexivity|reflexivity|exact (Inv_loc l I)| |exact (inv_err l I)].
  cbn. intros t [<-|H]; [exact (inv_start l I)|exact (inv_toks l I t H)].
Qed.
Lemma emit_inv k l : Inv l -> Inv (emit k l).
Proof. apply emitValue_inv. Qed.
Lemma emitEOF_inv l : Inv l -> Inv (emitEOF l).
Proof.
  intros I. eapply Inv_upd; [exact I|reflexivity|reflexivity|reflexivity|exact (Inv_loc l I)| |exact (inv_err l I)].
  cbn. intros t [<-|H]; [exact (inv_prev l I)|exact (inv_toks l I t H)].
Qed.
Lemma ignore_inv l : Inv l -> Inv (ignore l).
Proof. intros I. eapply Inv_upd; [exact I|reflexivity|reflexivity|reflexivity|exact (Inv_loc l I)|exact (inv_toks l I)|exact (inv_err l I)]. Qed.
Lemma set_error_inv l : Inv l -> Inv (set_error l).
Proof.
  intros I. unfold set_error. destruct (l_err l) eqn:E; [exact I|].
  eapply Inv_upd; [exact I|reflexivity|reflexivity|reflexivity|exact (inv_start l I)|exact (inv_toks l I)|].
  cbn. intros e H. inversion H; subst. apply Inv_loc. exact I.
Qed.

Lemma restore_inv saved l : Inv saved -> Inv l -> Inv (restore saved l).
Proof.
  intros Is I. constructor; cbn.
  - exact (inv_sync saved Is).
  - exact (inv_eof saved Is).
  - exact (inv_prev saved Is).
  - exact (inv_start l I).
  - exact (inv_toks l I).
  - exact (inv_err l I).
Qed.

Lemma next_snd_inv l : Inv l -> Inv (snd (Lexer.next l)).
Proof. intros I. apply (next_inv l I). Qed.

Lemma scanDigits_inv : forall n ch base l, Inv l -> Inv (snd (scanDigits ch base n l)).
Proof.
  induction n as [|n IH]; intros ch base l I; cbn [scanDigits]; [exact I|].
  destruct (digitVal ch <? base).
  - pose proof (next_snd_inv l I) as I1. destruct (Lexer.next l) as [ch' l']. apply IH. exact I1.
  - apply set_error_inv. exact I.
Qed.

Lemma scanEscape_inv q l : Inv l -> Inv (snd (scanEscape q l)).
Proof.
  intros I. unfold scanEscape. pose proof (next_snd_inv l I) as I1. destruct (Lexer.next l) as [ch l1]. cbn [snd] in I1.
  destruct (_ || _); [apply next_snd_inv; exact I1|].
  destruct (mem ch _); [apply scanDigits_inv; exact I1|].
  repeat (match goal with |- context [if ?b then _ else _] => destruct b end;
          [pose proof (next_snd_inv l1 I1) as I2; destruct (Lexer.next l1) as [c l2]; apply scanDigits_inv; exact I2|]).
  apply set_error_inv. exact I1.
Qed.

Lemma scanString_go_inv : forall fuel q ch l, Inv l -> Inv (scanString_go fuel q ch l).
Proof.
  induction fuel as [|f IH]; intros q ch l I; cbn [scanString_go]; [exact I|].
  destruct (ch =? q); [exact I|]. destruct (_ || _); [apply set_error_inv; exact I|].
  destruct (ch =? 92).
  - pose proof (scanEscape_inv q l I) as I1. destruct (scanEscape q l) as [ch' l']. apply IH. exact I1.
  - pose proof (next_snd_inv l I) as I1. destruct (Lexer.next l) as [ch' l']. apply IH. exact I1.
Qed.

Lemma scanString_inv q l : Inv l -> Inv (scanString q l).
Proof.
  intros I. unfold scanString. pose proof (next_snd_inv l I) as I1. destruct (Lexer.next l) as [ch l1].
  apply scanString_go_inv. exact I1.
Qed.

Notation scanNumber_exp := (scanNumber_exp uni_letter uni_digit).
Notation scanNumber_frac := (scanNumber_frac uni_letter uni_digit).
Notation scanNumber := (scanNumber uni_letter uni_digit).

Lemma accept_snd_inv valid l : Inv l -> Inv (snd (Lexer.accept valid l)).
Proof. intros I. apply (accept_inv valid l I). Qed.

Lemma scanNumber_exp_inv digits l : Inv l -> Inv (snd (scanNumber_exp digits l)).
Proof.
  intros I. unfold Lexer.scanNumber_exp.
  pose proof (accept_snd_inv (rs "eE"%string) l I) as I1. destruct (Lexer.accept (rs "eE"%string) l) as [e l1]. cbn [snd] in I1.
  set (l2 := if e then acceptRun digits (snd (Lexer.accept (rs "+-"%string) l1)) else l1).
  assert (I2 : Inv l2) by (subst l2; destruct e; [apply acceptRun_inv, accept_snd_inv; exact I1|exact I1]).
  pose proof (peek_inv l2 I2) as I3. destruct (Lexer.peek l2) as [p l3]. cbn [snd] in I3.
  destruct (is_alnum _ _ p); cbn [snd]; [apply next_snd_inv; exact I3|exact I3].
Qed.

Lemma scanNumber_frac_inv digits l : Inv l -> Inv (snd (scanNumber_frac digits l)).
Proof.
  intros I. unfold Lexer.scanNumber_frac.
  pose proof (accept_snd_inv (rs "."%string) l I) as I4. destruct (Lexer.accept (rs "."%string) l) as [d l4]. cbn [snd] in I4.
  destruct d; [|apply scanNumber_exp_inv; exact I4].
  pose proof (peek_inv l4 I4) as I5. destruct (Lexer.peek l4) as [p l5]. cbn [snd] in I5.
  destruct (p =? 46); cbn [snd]; [apply restore_inv; assumption|].
  apply scanNumber_exp_inv, acceptRun_inv. exact I5.
Qed.

Lemma scanNumber_prefix_inv l : Inv l -> Inv (snd (scanNumber_prefix l)).
Proof.
  intros I. unfold scanNumber_prefix.
  pose proof (accept_snd_inv (rs "0"%string) l I) as I1. destruct (Lexer.accept (rs "0"%string) l) as [z l1]. cbn [snd] in I1.
  destruct z; [|exact I1].
  pose proof (accept_snd_inv (rs "xX"%string) l1 I1) as I2. destruct (Lexer.accept (rs "xX"%string) l1) as [x l2]. cbn [snd] in I2.
  destruct x; [exact I2|].
  pose proof (accept_snd_inv (rs "oO"%string) l2 I2) as I3. destruct (Lexer.accept (rs "oO"%string) l2) as [o l3]. cbn [snd] in I3.
  destruct o; [exact I3|].
  pose proof (accept_snd_inv (rs "bB"%string) l3 I3) as I4. destruct (Lexer.accept (rs "bB"%string) l3) as [b l4]. cbn [snd] in I4.
  destruct b; exact I4.
Qed.

Lemma scanNumber_inv l : Inv l -> Inv (snd (scanNumber l)).
Proof.
  intros I. unfold Lexer.scanNumber.
  pose proof (scanNumber_prefix_inv l I) as I2. destruct (scanNumber_prefix l) as [digits l2]. cbn [snd] in I2.
  apply scanNumber_frac_inv, acceptRun_inv. exact I2.
Qed.

Lemma skip_spaces_inv : forall fuel l, Inv l -> Inv (skip_spaces fuel l).
Proof.
  induction fuel as [|f IH]; intros l I; cbn [skip_spaces]; [exact I|].
  pose proof (peek_inv l I) as I1. destruct (Lexer.peek l) as [r l1]. cbn [snd] in I1.
  destruct (r =? 32); [apply IH, next_snd_inv; exact I1|exact I1].
Qed.

Lemma expect_word_inv : forall w l, Inv l -> Inv (snd (expect_word w l)).
Proof.
  induction w as [|ch w IH]; intros l I; cbn [expect_word]; [exact I|].
  pose proof (next_snd_inv l I) as I1. destruct (Lexer.next l) as [r l1]. cbn [snd] in I1.
  destruct (r =? ch); [apply IH; exact I1|exact I1].
Qed.

Lemma acceptWord_inv w l : Inv l -> Inv (snd (acceptWord w l)).
Proof.
  intros I. unfold acceptWord.
  pose proof (skip_spaces_inv (S (List.length (l_rest l))) l I) as I1.
  pose proof (expect_word_inv w _ I1) as I2. destruct (expect_word w _) as [ok l2]. cbn [snd] in I2.
  destruct ok; [|cbn [snd]; apply restore_inv; assumption].
  pose proof (peek_inv l2 I2) as I3. destruct (Lexer.peek l2) as [r l3]. cbn [snd] in I3.
  destruct (_ && _); cbn [snd]; [apply restore_inv; assumption|exact I3].
Qed.

Notation lstep := (Lexer.step uni_letter uni_digit uni_space).

Lemma step_inv st l : Inv l -> Inv (snd (lstep st l)).
Proof.
  intros I. destruct st; cbn [Lexer.step].
  - (* root *)
    destruct (next_inv l I) as [I1 B1]. unfold adv in *. destruct (Lexer.next l) as [r l1]. cbn [snd] in *.
    repeat match goal with
    | |- Inv (snd (if ?b then _ else _)) => destruct b
    | |- Inv (snd (_, ?x)) => cbn [snd]
    | |- Inv (emitEOF _) => apply emitEOF_inv
    | |- Inv (ignore _) => apply ignore_inv
    | |- Inv (emit _ _) => apply emit_inv
    | |- Inv (emitValue _ _ _) => apply emitValue_inv
    | |- Inv (set_error _) => apply set_error_inv
    | |- Inv (backup l1) => apply backup_inv; assumption
    | |- Inv (scanString _ _) => apply scanString_inv
    | |- Inv (snd (Lexer.accept _ _)) => apply accept_snd_inv
    | |- Inv l1 => exact I1
    | |- Inv (snd (match unescape ?w with _ => _ end)) => destruct (unescape w)
    | |- Inv (snd (let (_, _) := Lexer.peek l1 in _)) =>
        let I2 := fresh "I2" in pose proof (peek_inv l1 I1) as I2; destruct (Lexer.peek l1) as [p l2]; cbn [snd] in I2
    | |- Inv ?x => assumption
    end.
  - (* number *)
    pose proof (scanNumber_inv l I) as I1. destruct (Lexer.scanNumber uni_letter uni_digit l) as [ok l1]. cbn [snd] in I1.
    destruct ok; cbn [snd]; [apply emit_inv|apply set_error_inv]; exact I1.
  - (* dot *)
    destruct (next_inv l I) as [I1 _]. unfold adv in *. destruct (Lexer.next l) as [r l1]. cbn [snd] in *.
    destruct (accept_inv (rs "0123456789"%string) l1 I1) as [I2 B2]. destruct (Lexer.accept (rs "0123456789"%string) l1) as [d l2]. cbn [fst snd] in *.
    destruct d; cbn [snd].
    + apply backup_inv; auto.
    + apply emit_inv, accept_snd_inv. exact I2.
  - (* nilsafe *)
    pose proof (next_snd_inv l I) as I1. destruct (Lexer.next l) as [r l1]. cbn [snd] in *.
    apply emit_inv, accept_snd_inv. exact I1.
  - (* identifier *)
    pose proof (run_while_inv (is_alnum uni_letter uni_digit) (S (List.length (l_rest l))) l I) as I1.
    destruct (runes_eqb _ _); cbn [snd]; [exact I1|].
    destruct (existsb _ _); cbn [snd]; apply emit_inv; exact I1.
  - (* not *)
    pose proof (acceptWord_inv (rs "in"%string) l I) as I1. destruct (acceptWord (rs "in"%string) l) as [ok l1]. cbn [snd] in I1.
    destruct ok; cbn [snd]; apply emitValue_inv; exact I1.
Qed.

Lemma lex_fuel_inv : forall fuel st l l', Inv l -> lex_fuel uni_letter uni_digit uni_space fuel st l = Some l' -> Inv l'.
Proof.
  induction fuel as [|f IH]; intros st l l' I H; cbn [lex_fuel] in H; [discriminate|].
  pose proof (step_inv st l I) as I1. destruct (lstep st l) as [[st'|] l1]; cbn [snd] in I1.
  - eapply IH; eauto.
  - inversion H; subst. exact I1.
Qed.

Lemma init_inv : Inv (init input).
Proof.
  unfold init. constructor; unfold Sync, EofPrev; cbn.
  - exists []. auto.
  - intros ->. left. reflexivity.
  - exists [], input. auto.
  - exists [], input. auto.
  - intros t [].
  - discriminate.
Qed.

Lemma PP_inside p : PP p -> inside input p.
Proof. intros (pre & post & -> & ->). apply prefix_inside. Qed.

(* For EVERY input text: every token the lexer returns, and the location of the error it reports,
   lies inside the text (1 <= line <= number of lines, 0 <= column <= length of that line). *)
Theorem lex_locations_inside :
  match lex uni_letter uni_digit uni_space input with
  | LexOk toks => forall t, In t toks -> inside input (tloc t)
  | LexErr e => inside input e
  | LexOutOfFuel => True
  end.
Proof.
  unfold lex. destruct (lex_fuel _ _ _ _ SRoot (init input)) as [l|] eqn:E; [|exact I].
  pose proof (lex_fuel_inv _ _ _ _ init_inv E) as Il.
  destruct (l_err l) as [e|] eqn:Ee.
  - apply PP_inside. exact (inv_err l Il e Ee).
  - intros t Ht. apply PP_inside. apply (inv_toks l Il). apply in_rev. exact Ht.
Qed.

(* a successful run ends with the EOF token: the token list is never empty *)
Lemma set_error_some l : l_err (set_error l) <> None.
Proof. unfold set_error. destruct (l_err l) eqn:E; [congruence|cbn; congruence]. Qed.

Lemma step_none st l l1 : lstep st l = (None, l1) -> l_err l1 <> None \/ l_tokens l1 <> [].
Proof.
  destruct st; cbn [Lexer.step]; intros H;
    repeat match goal with
    | H : (let (_, _) := ?x in _) = _ |- _ => destruct x
    | H : (if ?b then _ else _) = (None, _) |- _ => destruct b
    | H : match ?x with _ => _ end = (None, _) |- _ => destruct x
    | H : (Some _, _) = (None, _) |- _ => discriminate H
    end;
    inversion H; subst; first [left; apply set_error_some | right; cbn; congruence].
Qed.

Lemma lex_fuel_tokens : forall fuel st l l', lex_fuel uni_letter uni_digit uni_space fuel st l = Some l' ->
  l_err l' <> None \/ l_tokens l' <> [].
Proof.
  induction fuel as [|f IH]; intros st l l' H; cbn [lex_fuel] in H; [discriminate|].
  destruct (lstep st l) as [[st'|] l1] eqn:E.
  - eapply IH; eauto.
  - inversion H; subst. eapply step_none; eauto.
Qed.

Theorem lex_ok_nonempty : forall toks, lex uni_letter uni_digit uni_space input = LexOk toks -> toks <> [].
Proof.
  intros toks H. unfold lex in H. destruct (lex_fuel _ _ _ _ SRoot (init input)) as [l|] eqn:E; [|discriminate].
  destruct (lex_fuel_tokens _ _ _ _ E) as [He|Ht]; destruct (l_err l); try congruence.
  inversion H; subst. intros Hr. apply Ht. apply (f_equal (@rev token)) in Hr. rewrite rev_involutive in Hr. exact Hr.
Qed.
End LexerInvariant.

(* ================================================================== 7. parser: error locations *)
Require Import X.Base.Num X.Syn.Ast X.Parse.Parser X.Parse.Printer X.Parse.ParseProofs.

(* r is a non-empty suffix of ts: what is left of the token list *)
Definition sfx (r ts : list token) : Prop := r <> [] /\ exists pre, ts = pre ++ r.
Definition loc_in (l : loc) (ts : list token) : Prop := exists t, In t ts /\ l = tloc t.
Definition good {A : Type} (ts : list token) (r : pres A) : Prop :=
  match r with POk _ rest => sfx rest ts | PErr l => loc_in l ts | PFuel => True end.

Lemma sfx_ne r ts : sfx r ts -> r <> [].
Proof. intros [H _]. exact H. Qed.
Lemma sfx_refl ts : ts <> [] -> sfx ts ts.
Proof. intros H. split; [exact H|exists []; reflexivity]. Qed.
Lemma sfx_trans a b c : sfx a b -> sfx b c -> sfx a c.
Proof. intros [Ha [p ->]] [_ [q ->]]. split; [exact Ha|]. exists (q ++ p). rewrite app_assoc. reflexivity. Qed.
Lemma loc_in_sfx l r ts : loc_in l r -> sfx r ts -> loc_in l ts.
Proof. intros (t & I & E) [_ [p ->]]. exists t. split; [apply in_or_app; right; exact I|exact E]. Qed.
Lemma good_mono {A} r ts (x : pres A) : good r x -> sfx r ts -> good ts x.
Proof. destruct x; cbn [good]; intros H S; [eapply sfx_trans; eauto|eapply loc_in_sfx; eauto|exact I]. Qed.
Lemma cur_loc_in ts : ts <> [] -> loc_in (tloc (cur ts)) ts.
Proof. destruct ts as [|t r]; [congruence|]. intros _. exists t. split; [left; reflexivity|reflexivity]. Qed.

Lemma good_next {A} ts (k : list token -> pres A) :
  ts <> [] -> (forall r, sfx r ts -> good r (k r)) -> good ts (Parser.next ts k).
Proof.
  destruct ts as [|t [|t2 r]]; [congruence| |]; intros _ H; cbn [Parser.next].
  - exists t. split; [left; reflexivity|reflexivity].
  - assert (S : sfx (t2 :: r) (t :: t2 :: r)) by (split; [congruence|exists [t]; reflexivity]).
    eapply good_mono; [apply H; exact S|exact S].
Qed.

Lemma good_expect {A} kd v ts (k : list token -> pres A) :
  ts <> [] -> (forall r, sfx r ts -> good r (k r)) -> good ts (expect kd v ts k).
Proof.
  intros Hne H. unfold expect. destruct (tok_is (cur ts) kd [v]).
  - apply good_next; assumption.
  - apply cur_loc_in. exact Hne.
Qed.

Lemma good_pbind {A B} ts (x : pres A) (k : A -> list token -> pres B) :
  good ts x -> (forall a r, sfx r ts -> good r (k a r)) -> good ts (pbind x k).
Proof.
  destruct x as [a r|l|]; cbn [good pbind]; intros Hx H; [|exact Hx|exact I].
  eapply good_mono; [apply H; exact Hx|exact Hx].
Qed.

Ltac ne := first [assumption | match goal with S : sfx ?ts _ |- ?ts <> [] => exact (sfx_ne _ _ S) end].

Ltac gstep :=
  match goal with
  | |- good ?ts (POk _ ?ts) => apply sfx_refl; ne
  | |- good ?ts (PErr (tloc (cur ?ts))) => apply cur_loc_in; ne
  | |- good _ PFuel => exact I
  | |- good ?ts (Parser.next ?ts _) => apply good_next; [ne | intros ? ?]
  | |- good ?ts (expect _ _ ?ts _) => apply good_expect; [ne | intros ? ?]
  | |- good ?ts (pbind _ _) => apply good_pbind; [ | intros ? ? ?]
  | |- good _ (if ?b then _ else _) => destruct b
  | |- good _ (match ?x with _ => _ end) => destruct x
  end.

Section ParserErrors.
Variable g : grammar.
Variable o : oracles.

Section Body.
Variable pe : Z -> nat -> list token -> pres expr.
Variable LF : nat.
Hypothesis HPE : forall prec d ts, ts <> [] -> good ts (pe prec d ts).

Lemma args_loop_good : forall lf d acc ts, ts <> [] -> good ts (args_loop pe lf d acc ts).
Proof.
  induction lf as [|lf IH]; intros d acc ts Hne; cbn [args_loop]; repeat gstep; try (apply HPE; ne); apply IH; ne.
Qed.

Lemma parse_arguments_good : forall d ts, ts <> [] -> good ts (parse_arguments pe LF d ts).
Proof.
  intros d ts Hne. unfold parse_arguments. repeat gstep. apply args_loop_good; ne.
Qed.

Lemma postfix_loop_good : forall lf d ns node ts, ts <> [] -> good ts (postfix_loop pe LF lf d ns node ts).
Proof.
  induction lf as [|lf IH]; intros d ns node ts Hne; cbn [postfix_loop]; cbv zeta; repeat gstep;
    try (apply HPE; ne); try (apply parse_arguments_good; ne); apply IH; ne.
Qed.

Lemma parse_closure_good : forall d ts, ts <> [] -> good ts (parse_closure pe d ts).
Proof. intros d ts Hne. unfold parse_closure. cbv zeta. repeat gstep. apply HPE; ne. Qed.

Lemma array_loop_good : forall lf d acc ts, ts <> [] -> good ts (array_loop pe lf d acc ts).
Proof.
  induction lf as [|lf IH]; intros d acc ts Hne; cbn [array_loop]; cbv zeta; repeat gstep; try (apply HPE; ne); apply IH; ne.
Qed.

Lemma parse_array_good : forall tk d ts, ts <> [] -> good ts (parse_array pe LF tk d ts).
Proof. intros tk d ts Hne. unfold parse_array. repeat gstep. apply array_loop_good; ne. Qed.

Lemma map_loop_good : forall lf mloc d acc ts, ts <> [] -> good ts (map_loop pe lf mloc d acc ts).
Proof.
  induction lf as [|lf IH]; intros mloc d acc ts Hne; cbn [map_loop]; cbv zeta; repeat gstep; try (apply HPE; ne); apply IH; ne.
Qed.

Lemma parse_map_good : forall tk d ts, ts <> [] -> good ts (parse_map pe LF tk d ts).
Proof. intros tk d ts Hne. unfold parse_map. repeat gstep. apply map_loop_good; ne. Qed.

Lemma parse_identifier_expression_good : forall tk d ts, ts <> [] -> good ts (parse_identifier_expression g pe LF tk d ts).
Proof.
  intros tk d ts Hne. unfold parse_identifier_expression. cbv zeta. repeat gstep;
    try (apply HPE; ne); try (apply parse_closure_good; ne); apply parse_arguments_good; ne.
Qed.

Lemma parse_primary_expression_good : forall d ts, ts <> [] -> good ts (parse_primary_expression g o pe LF d ts).
Proof.
  intros d ts Hne. unfold parse_primary_expression. cbv zeta. repeat gstep;
    try (apply parse_identifier_expression_good; ne); try (apply parse_array_good; ne); apply parse_map_good; ne.
Qed.

Lemma parse_base_good : forall d ts, ts <> [] -> good ts (parse_base g o pe LF d ts).
Proof.
  intros d ts Hne. unfold parse_base. cbv zeta. repeat gstep; try (apply HPE; ne); apply parse_primary_expression_good; ne.
Qed.

Lemma parse_primary_good : forall d ts, ts <> [] -> good ts (parse_primary g o pe LF d ts).
Proof.
  intros d ts Hne. unfold parse_primary. repeat gstep; try (apply parse_base_good; ne). apply postfix_loop_good; ne.
Qed.

Lemma binary_loop_good : forall lf prec d left ts, ts <> [] -> good ts (binary_loop g o pe lf prec d left ts).
Proof.
  induction lf as [|lf IH]; intros prec d left ts Hne; cbn [binary_loop]; cbv zeta; repeat gstep; try (apply HPE; ne); apply IH; ne.
Qed.

Lemma cond_loop_good : forall lf d node ts, ts <> [] -> good ts (cond_loop pe lf d node ts).
Proof.
  induction lf as [|lf IH]; intros d node ts Hne; cbn [cond_loop]; repeat gstep; try (apply HPE; ne); apply IH; ne.
Qed.

Lemma expression_body_good : forall prec d ts, ts <> [] -> good ts (expression_body g o pe LF prec d ts).
Proof.
  intros prec d ts Hne. unfold expression_body. repeat gstep;
    try (apply parse_primary_good; ne); try (apply binary_loop_good; ne); apply cond_loop_good; ne.
Qed.
End Body.

Lemma parse_expr_good : forall n prec d ts, ts <> [] -> good ts (parse_expr g o n prec d ts).
Proof.
  induction n as [|n IH]; intros prec d ts Hne; cbn [parse_expr]; [exact I|].
  apply expression_body_good; [exact IH|exact Hne].
Qed.

(* Every error the parser reports carries the location of a token of the list it was given (the
   token that was current when the first error was raised). *)
Theorem syntax_error_at_token : forall ts l, ts <> [] -> parse g o ts = RErr l -> loc_in l ts.
Proof.
  intros ts l Hne H. unfold parse, parse_with_fuel in H. destruct ts as [|t r] eqn:E; [congruence|]. rewrite <- E in *.
  pose proof (parse_expr_good (S (List.length ts)) 0 0 ts Hne) as G.
  destruct (parse_expr g o (S (List.length ts)) 0 0 ts) as [e rest|l'|]; cbn [good] in G.
  - destruct (is_kind (cur rest) TkEOF); [discriminate|]. inversion H; subst l.
    eapply loc_in_sfx; [apply cur_loc_in; exact (sfx_ne _ _ G)|exact G].
  - inversion H; subst. exact G.
  - discriminate.
Qed.
End ParserErrors.

(* ================================================================== 8. parser: node locations = anchor tokens *)
From Coq Require Import String.

(* the token that anchors a node: kind and spelling.  ConditionalNode has none in the code (full
   statement below: `?`), ConstantNode is never parsed, a PairNode is located at the `{` of its map. *)
Section Anchor.
Variable g : grammar.
Variable fmt_int : Z -> string.
Variable fmt_float : PrimFloat.float -> string.
Variable o : oracles.

Definition anchor_of (x : expr) : option (tkind * string) :=
  match x with
  | ENil _ => Some (TkIdentifier, "nil"%string)
  | EBool _ b => Some (TkIdentifier, if b then "true"%string else "false"%string)
  | EIdent _ n _ => Some (TkIdentifier, n)
  | EInt _ z => Some (TkNumber, fmt_int z)
  | EFloat _ f => Some (TkNumber, fmt_float f)
  | EStr _ s => Some (TkString, s)
  | EUnary _ u _ => Some (TkOperator, string_of_unop u)
  | EBinary _ b _ _ => Some (TkOperator, string_of_binop b)
  | EMatches _ _ _ _ => Some (TkOperator, "matches"%string)
  | EProperty _ _ n _ | EMethod _ _ n _ _ | EFunction _ n _ _ => Some (TkIdentifier, n)
  | EBuiltin _ b _ => Some (TkIdentifier, string_of_builtin b)
  | EIndex _ _ _ | ESlice _ _ _ _ | EArray _ _ => Some (TkBracket, "["%string)
  | EClosure _ _ | EMap _ _ => Some (TkBracket, "{"%string)
  | EPointer _ => Some (TkOperator, "#"%string)
  | ECond _ _ _ _ | EConst _ _ | EPair _ _ _ => None
  end.

Definition anchor_token (x : expr) (kv : tkind * string) : token := mkTok (loc_of x) (fst kv) (snd kv).

(* a bare map key is printed (and parsed) as part of its pair: it has no token of its own location *)
Definition bare_key_step (t : expr) (i : nat) : bool :=
  match t, i with EPair ap k _, O => key_bare ap k | _, _ => false end.

Fixpoint node_at_nb (t : expr) (path : list nat) : option expr :=
  match path with
  | [] => Some t
  | i :: r => if bare_key_step t i then None
              else match pchild t i with Some x => node_at_nb x r | None => None end
  end.

Notation pr := (pr g fmt_int fmt_float).

Lemma In_wrap : forall k (B : list token) tok, In tok B -> In tok (wrap k B).
Proof. induction k; intros B tok H; cbn [wrap]; [exact H|]. right. apply in_or_app. left. auto. Qed.

Lemma pr_seq_in (f : nat -> expr -> list token) : forall l start j x tok,
  nth_error l j = Some x -> In tok (f (start + j)%nat x) -> In tok (pr_seq f start l).
Proof.
  induction l as [|y r IH]; intros start j x tok Hn Hin; [destruct j; discriminate|].
  destruct j as [|j].
  - inversion Hn; subst. rewrite Nat.add_0_r in Hin.
    change (pr_seq f start (x :: r)) with (match r with [] => f start x | _ :: _ => f start x ++ comma :: pr_seq f (S start) r end).
    destruct r; [exact Hin|apply in_or_app; left; exact Hin].
  - cbn [nth_error] in Hn.
    change (pr_seq f start (y :: r)) with (match r with [] => f start y | _ :: _ => f start y ++ comma :: pr_seq f (S start) r end).
    destruct r as [|y2 r2]; [destruct j; discriminate|].
    apply in_or_app. right. right. apply (IH (S start) j x tok Hn).
    replace (S start + j)%nat with (start + S j)%nat by lia. exact Hin.
Qed.

Ltac find_in :=
  first [ eassumption
        | apply in_eq
        | (eapply (pr_seq_in _ _ 0%nat); [eassumption|assumption])
        | (eapply (pr_seq_in _ _ 1%nat); [eassumption|assumption])
        | (apply in_cons; find_in)
        | (apply in_or_app; first [left; find_in | right; find_in]) ].

(* the anchor token of a node is among the tokens printed for it *)
Lemma anchor_in_pr : forall x c cx kv, anchor_of x = Some kv -> In (anchor_token x kv) (pr c cx x).
Proof.
  intros x c cx kv H. rewrite (pr_unfold g fmt_int fmt_float). apply In_wrap.
  unfold body, anchor_token. destruct (ctx_pf (inner_ctx (parens g c cx x) cx)) as [p f].
  destruct x; cbn [anchor_of] in H; inversion H; subst kv; cbn [fst snd loc_of ann_of]; try find_in.
Qed.

(* the tokens printed for a child are among the tokens printed for its parent *)
Lemma child_tokens : forall t c cx i x, pchild t i = Some x -> bare_key_step t i = false ->
  exists cx', forall tok, In tok (pr (sub c i) cx' x) -> In tok (pr c cx t).
Proof.
  intros t c cx i x Hc Hb. rewrite (pr_unfold g fmt_int fmt_float c cx t).
  unfold body. destruct (ctx_pf (inner_ctx (parens g c cx t) cx)) as [p f].
  destruct t; cbn [pchild bare_key_step] in Hc, Hb; try discriminate.
  - (* unary *) destruct i; inversion Hc; subst. eexists. intros tok Hin. apply In_wrap. find_in.
  - (* binary *) destruct i as [|[|i]]; inversion Hc; subst; eexists; intros tok Hin; apply In_wrap; find_in.
  - (* matches *) destruct i as [|[|i]]; inversion Hc; subst; eexists; intros tok Hin; apply In_wrap; find_in.
  - (* property *) destruct i; inversion Hc; subst. eexists. intros tok Hin. apply In_wrap. find_in.
  - (* index *) destruct i as [|[|i]]; inversion Hc; subst; eexists; intros tok Hin; apply In_wrap; find_in.
  - (* slice *) destruct i as [|[|[|i]]]; try discriminate; [inversion Hc|..]; subst; eexists; intros tok Hin; apply In_wrap; find_in.
  - (* method *) destruct i as [|j]; [inversion Hc; subst; eexists; intros tok Hin; apply In_wrap; find_in|].
    exists CTOP. intros tok Hin. apply In_wrap. find_in.
  - (* function *) exists CTOP. intros tok Hin. apply In_wrap. find_in.
  - (* builtin *) exists CTOP. intros tok Hin. apply In_wrap. find_in.
  - (* closure *) destruct i; inversion Hc; subst. eexists. intros tok Hin. apply In_wrap. find_in.
  - (* conditional *) destruct i as [|[|[|i]]]; inversion Hc; subst; eexists; intros tok Hin; apply In_wrap; find_in.
  - (* array *) exists CTOP. intros tok Hin. apply In_wrap. find_in.
  - (* map *) exists CTOP. intros tok Hin. apply In_wrap. find_in.
  - (* pair *) destruct i as [|[|i]]; inversion Hc; subst.
    + rewrite Hb. eexists. intros tok Hin. apply In_wrap. find_in.
    + eexists. intros tok Hin. apply In_wrap. find_in.
Qed.

Lemma node_tokens : forall path t c cx x, node_at_nb t path = Some x ->
  exists c' cx', forall tok, In tok (pr c' cx' x) -> In tok (pr c cx t).
Proof.
  induction path as [|i path IH]; intros t c cx x H; cbn [node_at_nb] in H.
  - inversion H; subst. exists c, cx. auto.
  - destruct (bare_key_step t i) eqn:Hb; [discriminate|].
    destruct (pchild t i) as [y|] eqn:Hc; [|discriminate].
    destruct (child_tokens t c cx i y Hc Hb) as (cx1 & H1).
    destruct (IH y (sub c i) cx1 x H) as (c' & cx' & H2).
    exists c', cx'. auto.
Qed.

Hypothesis G : wf_grammar g = true.

(* Parsing the printed tokens gives the tree back, locations included (C11), and the location of
   every node of that tree is the location carried by the node's anchor token in the token list —
   the only token of the node that carries a location at all. *)
Theorem parse_anchor : forall c t, printable g fmt_int fmt_float o c t ->
  parse g o (print_any g fmt_int fmt_float c t) = ROk t /\
  forall path x kv, node_at_nb t path = Some x -> anchor_of x = Some kv ->
    In (anchor_token x kv) (print_any g fmt_int fmt_float c t).
Proof.
  intros c t W. split; [exact (roundtrip g o fmt_int fmt_float G c t W)|].
  intros path x kv Hn Ha. unfold print_any. apply in_or_app. left.
  destruct (node_tokens path t c CTOP x Hn) as (c' & cx' & H). apply H. apply anchor_in_pr. exact Ha.
Qed.
End Anchor.

(* ================================================================== 9. what is NOT true of the code *)
Definition g0 : grammar := mkGrammar [] [] [].
Definition o0 : oracles := mkOracles (fun _ => None) (fun _ => true).

(* (a) full statement for the conditional: its location is the location of its `?` token.
   parseConditionalExpression never calls SetLocation: refuted (known finding C13-conditional-no-location). *)
Definition cond_anchor_full_statement : Prop :=
  forall (g : grammar) (o : oracles) ts e path a c x y,
    parse g o ts = ROk e -> node_at e path = Some (ECond a c x y) ->
    exists t, In t ts /\ tok_is t TkOperator ["?"%string] = true /\ aloc a = tloc t.

Definition cond_witness : list token :=
  [mkTok (1, 0) TkIdentifier "a"; mkTok (1, 2) TkOperator "?"; mkTok (1, 4) TkIdentifier "b";
   mkTok (1, 6) TkOperator ":"; mkTok (1, 8) TkIdentifier "c"; mkTok (1, 8) TkEOF ""]%string.

Theorem cond_anchor_refuted : ~ cond_anchor_full_statement.
Proof.
  intros H.
  destruct (H g0 o0 cond_witness _ [] _ _ _ _ eq_refl eq_refl) as (t & Hin & Hq & Hl).
  cbn in Hin. repeat (destruct Hin as [<-|Hin]; [cbn in Hq, Hl; try discriminate Hq; try discriminate Hl|]); try contradiction.
Qed.

(* (b) full statement for literal errors: an invalid number literal is reported at the literal.
   The parser reports it at the token that FOLLOWS (p.error reads p.current after p.next()):
   refuted (known finding C13-literal-error-at-next-token); what holds instead is proved below. *)
Definition literal_error_full_statement : Prop :=
  forall (g : grammar) (o : oracles) l0 v t1 rest,
    number_value (o_float o) v = NLBad ->
    parse g o (mkTok l0 TkNumber v :: t1 :: rest) = RErr l0.

Theorem literal_error_at_next : forall (g : grammar) (o : oracles) l0 v t1 rest,
  number_value (o_float o) v = NLBad ->
  parse g o (mkTok l0 TkNumber v :: t1 :: rest) = RErr (tloc t1).
Proof.
  intros g o l0 v t1 rest Hbad. unfold parse, parse_with_fuel. cbn [List.length parse_expr].
  unfold expression_body, parse_primary, parse_base. cbn [cur is_kind tok_is tkind_of tkind_eqb].
  cbn [existsb]. rewrite !andb_false_r. cbn [orb].
  unfold parse_primary_expression. cbn [cur tkind_of Parser.next tval]. rewrite Hbad. reflexivity.
Qed.

Theorem literal_error_refuted : ~ literal_error_full_statement.
Proof.
  intros H.
  specialize (H g0 o0 (1, 0) "99999999999999999999"%string (mkTok (1, 21) TkOperator "+"%string)
                [mkTok (1, 23) TkNumber "1"%string; mkTok (1, 23) TkEOF ""%string] eq_refl).
  rewrite literal_error_at_next in H by reflexivity. discriminate H.
Qed.

(* ================================================================== 10. run time *)
Require Import X.Sem.Prim X.Sem.Sem X.BC.Instr X.BC.Compiler X.BC.VM X.BC.CompileProofs X.BC.RunProofs.

(* The Stop half of compile_correct, in executable form: when the reference semantics stops with
   class er at location l (the location of the node whose operation fails), running the compiled
   program on the model VM stops with exactly that class and that location — Locations[pp]. *)
Theorem run_loc : forall fe cfg env e er l r',
  compilable e = true ->
  eval fe cfg env [] e rs0 = Stop er l r' ->
  (er = EMachine -> l <> noloc) ->
  exists d0, forall d, (d0 <= d)%nat ->
    run_code fe cfg env (compile (c_mapenv cfg) e) d = Some (Stop er l r').
Proof.
  intros fe cfg env e er l r' Hc He Hm.
  destruct (run_compiled fe cfg env e Hc) as [d0 H].
  - rewrite He. cbn. destruct er; auto.
  - exists d0. intros d Hd. rewrite (H d Hd), He. reflexivity.
Qed.

(* ---- the location at which the reference semantics stops is the location of a node of the
   expression: the node whose own operation fails *)
Inductive sub_of : expr -> expr -> Prop :=
| sub_refl : forall e, sub_of e e
| sub_step : forall x c e, In c (children e) -> sub_of x c -> sub_of x e.

Definition located_in (e : expr) (l : loc) : Prop := exists x, sub_of x e /\ l = loc_of x.

Lemma located_here e : located_in e (loc_of e).
Proof. exists e. split; [constructor|reflexivity]. Qed.

Lemma located_child c e l : In c (children e) -> located_in c l -> located_in e l.
Proof. intros Hc (x & Hs & El). exists x. split; [econstructor; eauto|exact El]. Qed.

Ltac crunch :=
  repeat match goal with
  | H : Stop _ _ _ = Stop _ _ _ |- _ => inversion H; subst; clear H
  | H : Done _ _ = Stop _ _ _ |- _ => discriminate H
  | H : rbind ?r _ = Stop _ _ _ |- _ => destruct r eqn:?; cbn [rbind] in H
  | H : lift _ _ ?o _ = Stop _ _ _ |- _ => destruct o eqn:?; cbn [lift] in H
  | H : alloc _ _ _ _ _ = Stop _ _ _ |- _ => unfold alloc in H
  | H : (if ?b then _ else _) = Stop _ _ _ |- _ => destruct b eqn:?
  | H : match ?x with _ => _ end = Stop _ _ _ |- _ => destruct x eqn:?
  end.

Section StopLocation.
Variable fe : fenv.
Variable cfg : config.
Variable env : value.
Notation ev := (eval fe cfg env).

Lemma do_call_stop l fast id recv args s er l' s' :
  do_call fe l fast id recv args s = Stop er l' s' -> l' = l.
Proof. unfold do_call. intros H. crunch; reflexivity. Qed.

Section Loops.
Variable Q : loc -> Prop.
Variable body : Z -> rstate -> result.
Variable l : loc.
Hypothesis Hbody : forall i s er l' s', body i s = Stop er l' s' -> Q l'.
Hypothesis Hl : Q l.

Lemma all_loop_stop : forall n i s er l' s', all_loop body l n i s = Stop er l' s' -> Q l'.
Proof. induction n; intros i s er l' s' H; cbn [all_loop] in H; crunch; eauto. Qed.
Lemma none_loop_stop : forall n i s er l' s', none_loop body l n i s = Stop er l' s' -> Q l'.
Proof. induction n; intros i s er l' s' H; cbn [none_loop] in H; crunch; eauto. Qed.
Lemma any_loop_stop : forall n i s er l' s', any_loop body l n i s = Stop er l' s' -> Q l'.
Proof. induction n; intros i s er l' s' H; cbn [any_loop] in H; crunch; eauto. Qed.
Lemma count_loop_stop : forall k, (forall c s er l' s', k c s = Stop er l' s' -> Q l') ->
  forall n i c s er l' s', count_loop body l n i c s k = Stop er l' s' -> Q l'.
Proof. intros k Hk. induction n; intros i c s er l' s' H; cbn [count_loop] in H; crunch; eauto. Qed.
Lemma filter_loop_stop : forall elem k, (forall xs s er l' s', k xs s = Stop er l' s' -> Q l') ->
  forall n i acc s er l' s', filter_loop body l elem n i acc s k = Stop er l' s' -> Q l'.
Proof. intros elem k Hk. induction n; intros i acc s er l' s' H; cbn [filter_loop] in H; crunch; eauto. Qed.
Lemma map_loop_stop : forall k, (forall xs s er l' s', k xs s = Stop er l' s' -> Q l') ->
  forall n i acc s er l' s', map_loop body n i acc s k = Stop er l' s' -> Q l'.
Proof. intros k Hk. induction n; intros i acc s er l' s' H; cbn [map_loop] in H; crunch; eauto. Qed.
End Loops.

Definition stops_inside (e : expr) : Prop :=
  forall ctx s er l s', ev ctx e s = Stop er l s' -> located_in e l.

Lemma evl_stop es : (forall x, In x es -> stops_inside x) ->
  forall ctx r er l r', evl fe cfg env ctx es r = LStop er l r' -> exists x, In x es /\ located_in x l.
Proof.
  induction es as [|x rest IH]; intros Hall ctx r er l r' H; cbn [evl] in H; [discriminate|].
  destruct (ev ctx x r) as [v r1|e0 l0 r1] eqn:E.
  - destruct (evl fe cfg env ctx rest r1) as [vs r2|e1 l1 r2] eqn:E2; [discriminate|].
    inversion H; subst. destruct (IH (fun y Hy => Hall y (or_intror Hy)) ctx r1 _ _ _ E2) as (y & Hy & Ly).
    exists y. split; [right; exact Hy|exact Ly].
  - inversion H; subst. exists x. split; [left; reflexivity|]. eapply Hall; [left; reflexivity|exact E].
Qed.

Lemma evp_stop here ps : (forall p, In p ps -> forall a k v, p = EPair a k v -> stops_inside k /\ stops_inside v) ->
  forall ctx s er l s', evp fe cfg env ctx here ps s = PStop er l s' -> l = here \/ exists p, In p ps /\ located_in p l.
Proof.
  induction ps as [|p rest IH]; intros Hall ctx s er l s' H; cbn [evp] in H; [discriminate|].
  destruct p; try (inversion H; subst; left; reflexivity).
  destruct (Hall _ (or_introl eq_refl) _ _ _ eq_refl) as [Hk Hv].
  destruct (ev ctx p1 s) as [vk s1|e0 l0 s1] eqn:E1.
  - destruct (ev ctx p2 s1) as [vv s2|e1 l1 s2] eqn:E2.
    + destruct (evp fe cfg env ctx here rest s2) as [kvs s3|e2 l2 s3] eqn:E3; [discriminate|].
      inversion H; subst. destruct (IH (fun q Hq => Hall q (or_intror Hq)) ctx s2 _ _ _ E3) as [->|(q & Hq & Lq)]; [left; reflexivity|].
      right. exists q. split; [right; exact Hq|exact Lq].
    + inversion H; subst. right. eexists. split; [left; reflexivity|].
      eapply located_child; [|eapply Hv; exact E2]. cbn [children]. auto with datatypes.
  - inversion H; subst. right. eexists. split; [left; reflexivity|].
    eapply located_child; [|eapply Hk; exact E1]. cbn [children]. auto with datatypes.
Qed.

Ltac fin IH :=
  first [ solve [apply located_here]
        | match goal with
          | E : eval _ _ _ _ ?c _ = Stop _ ?l _ |- located_in _ ?l =>
              solve [eapply located_child; [|eapply IH; [|exact E]]; [cbn [children opt_list app]; auto with datatypes|cbn [esize] in *; lia]]
          end ].

Lemma stop_located_sized : forall n e, (esize e < n)%nat -> stops_inside e.
Proof.
  induction n as [|n IH]; intros e Hn; [lia|].
  assert (IHs : forall c, (esize c < esize e)%nat -> stops_inside c) by (intros c Hc; apply IH; lia).
  clear IH. intros ctx s er l s' H.
  destruct e; try rewrite eval_function_eq in H; try rewrite eval_method_eq in H;
    try rewrite eval_array_eq in H; try rewrite eval_map_eq in H.
  all: try (cbn [eval] in H; cbv zeta in H; cbn [loc_of ann_of] in H).
  all: try solve [crunch; fin IHs].
  - (* method *)
    destruct (ev ctx e s) as [v r1|e0 l0 r1] eqn:E0; cbn [rbind] in H.
    + rewrite eval_list_evl in H. destruct (evl fe cfg env ctx args r1) as [vs r2|e1 l1 r2] eqn:E1.
      * assert (l = aloc a).
        { destruct nilsafe; [destruct v|]; crunch; try reflexivity; eapply do_call_stop; eauto. }
        subst. apply (located_here (EMethod a e name args nilsafe)).
      * inversion H; subst. destruct (evl_stop args) with (1 := fun x Hx => IHs x ltac:(cbn [esize]; pose proof (in_lsize x args Hx); rewrite lsize_eq; lia)) (2 := E1) as (x & Hx & Lx).
        eapply located_child; [|exact Lx]. cbn [children]. right. exact Hx.
    + inversion H; subst. fin IHs.
  - (* function *)
    rewrite eval_list_evl in H. destruct (evl fe cfg env ctx args s) as [vs r2|e1 l1 r2] eqn:E1.
    + assert (l = aloc a) by (crunch; try reflexivity; eapply do_call_stop; eauto).
      subst. apply (located_here (EFunction a name args fast)).
    + inversion H; subst. destruct (evl_stop args) with (1 := fun x Hx => IHs x ltac:(cbn [esize]; pose proof (in_lsize x args Hx); rewrite lsize_eq; lia)) (2 := E1) as (x & Hx & Lx).
      eapply located_child; [|exact Lx]. exact Hx.
  - (* builtin *)
    assert (Hc : forall c, In c args -> forall i s er l' s' v, ev ((v, i) :: ctx) c s = Stop er l' s' -> located_in (EBuiltin a b args) l').
    { intros c Hc i s0 er0 l0 s0' v E. eapply located_child; [exact Hc|]. eapply IHs; [|exact E].
      cbn [esize]. pose proof (in_lsize c args Hc). rewrite lsize_eq. lia. }
    assert (Hh : located_in (EBuiltin a b args) (aloc a)) by apply (located_here (EBuiltin a b args)).
    destruct b; try (inversion H; subst; exact Hh);
      destruct args as [|x [|c [|z rest]]]; try (inversion H; subst; exact Hh);
      (destruct (ev ctx x s) as [v r1|e0 l0 r1] eqn:E0; cbn [rbind] in H;
       [|inversion H; subst; eapply located_child; [left; reflexivity|]; eapply IHs; [|exact E0]; cbn [esize]; lia]);
      try (destruct (p_length v) as [len|e1] eqn:E1; cbn [lift] in H; [|inversion H; subst; exact Hh]).
    + crunch; exact Hh.
    + eapply all_loop_stop; [..|exact H]; [intros i0 s0 er0 l0 s0' Hb; cbv beta in Hb; eapply Hc; [right; left; reflexivity|exact Hb]|exact Hh].
    + eapply none_loop_stop; [..|exact H]; [intros i0 s0 er0 l0 s0' Hb; cbv beta in Hb; eapply Hc; [right; left; reflexivity|exact Hb]|exact Hh].
    + eapply any_loop_stop; [..|exact H]; [intros i0 s0 er0 l0 s0' Hb; cbv beta in Hb; eapply Hc; [right; left; reflexivity|exact Hb]|exact Hh].
    + eapply count_loop_stop; [..|exact H]; [intros i0 s0 er0 l0 s0' Hb; cbv beta in Hb; eapply Hc; [right; left; reflexivity|exact Hb]|exact Hh|intros c0 s0 er0 l0 s0' Hk; cbv beta in Hk; crunch; exact Hh].
    + eapply filter_loop_stop; [..|exact H]; [intros i0 s0 er0 l0 s0' Hb; cbv beta in Hb; eapply Hc; [right; left; reflexivity|exact Hb]|exact Hh|intros xs s0 er0 l0 s0' Hk; cbv beta in Hk; crunch; exact Hh].
    + eapply map_loop_stop; [..|exact H]; [intros i0 s0 er0 l0 s0' Hb; cbv beta in Hb; eapply Hc; [right; left; reflexivity|exact Hb]|intros xs s0 er0 l0 s0' Hk; cbv beta in Hk; crunch; exact Hh].
    + eapply count_loop_stop; [..|exact H]; [intros i0 s0 er0 l0 s0' Hb; cbv beta in Hb; eapply Hc; [right; left; reflexivity|exact Hb]|exact Hh|intros c0 s0 er0 l0 s0' Hk; cbv beta in Hk; crunch; exact Hh].
  - (* array *)
    rewrite eval_list_evl in H. destruct (evl fe cfg env ctx es s) as [vs r2|e1 l1 r2] eqn:E1.
    + crunch. apply (located_here (EArray a es)).
    + inversion H; subst. destruct (evl_stop es) with (1 := fun x Hx => IHs x ltac:(cbn [esize]; pose proof (in_lsize x es Hx); rewrite lsize_eq; lia)) (2 := E1) as (x & Hx & Lx).
      eapply located_child; [|exact Lx]. exact Hx.
  - (* map *)
    rewrite eval_pairs_evp in H. destruct (evp fe cfg env ctx (aloc a) pairs s) as [kvs r2|e1 l1 r2] eqn:E1.
    + crunch; apply (located_here (EMap a pairs)).
    + inversion H; subst.
      destruct (evp_stop (aloc a) pairs) with (2 := E1) as [->|(p & Hp & Lp)].
      * intros p Hp a0 k v ->. pose proof (in_lsize _ pairs Hp) as Hs. cbn [esize] in Hs.
        split; apply IHs; cbn [esize]; rewrite lsize_eq; lia.
      * apply (located_here (EMap a pairs)).
      * eapply located_child; [|exact Lp]. exact Hp.
Qed.

(* Every failure of the reference semantics is located at a node of the expression. *)
Theorem stop_located : forall e ctx s er l s', ev ctx e s = Stop er l s' -> located_in e l.
Proof. intros e. exact (stop_located_sized (S (esize e)) e (Nat.lt_succ_diag_r _)). Qed.
End StopLocation.

(* the run-time location theorem with the node made explicit *)
Theorem run_loc_at_node : forall fe cfg env e er l r',
  compilable e = true ->
  eval fe cfg env [] e rs0 = Stop er l r' ->
  (er = EMachine -> l <> noloc) ->
  located_in e l /\
  exists d0, forall d, (d0 <= d)%nat ->
    run_code fe cfg env (compile (c_mapenv cfg) e) d = Some (Stop er l r').
Proof.
  intros fe cfg env e er l r' Hc He Hm. split.
  - eapply stop_located; exact He.
  - eapply run_loc; eauto.
Qed.

(* ================================================================== 11. lexer + parser: syntax errors lie inside the source *)
(* For EVERY source text: whatever Parse reports — a lexer error, or the parser's first error on
   the tokens the lexer returned — is located inside the text. *)
Theorem syntax_error_inside : forall uni_letter uni_digit uni_space (g : grammar) (o : oracles) src,
  match lex uni_letter uni_digit uni_space src with
  | LexErr e => inside src e
  | LexOk toks => forall l, parse g o toks = RErr l -> inside src l
  | LexOutOfFuel => True
  end.
Proof.
  intros ul ud us g o src. pose proof (lex_locations_inside ul ud us src) as H.
  pose proof (lex_ok_nonempty ul ud us src) as Hne.
  destruct (lex ul ud us src) as [toks|e|]; auto.
  intros l Hp. destruct (syntax_error_at_token g o toks l (Hne toks eq_refl) Hp) as (t & Ht & ->).
  apply H. exact Ht.
Qed.

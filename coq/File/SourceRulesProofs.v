(* File/SourceRulesProofs.v — facts about the primitives and the loops of the interpreter of File/SourceRules.v
   that the bridge (Bridge/BrSource.v) uses: the integer wraps are the identity in range, `split_rune 10` is
   Source.lines, `replace_rune 9 32` is Source.untab, sizes of runes and byte slices, one-step unfoldings of
   the loops, the table lookup. *)
From Coq Require Import ZArith Bool String List Lia.
Require Import X.Base.Value X.File.Source X.File.SourceRules.
Import ListNotations.
Local Open Scope string_scope.
Local Open Scope list_scope.
Open Scope Z_scope.

(* ------------------------------------------------------------------ integers *)
Definition max_int : Z := 9223372036854775807.
Definition min_int : Z := -9223372036854775808.
Definition in_int (z : Z) : Prop := min_int <= z <= max_int.
Definition in_int32 (z : Z) : Prop := -2147483648 <= z <= 2147483647.

Lemma wrap64_id : forall x, in_int x -> wrap64 x = x.
Proof.
  intros x [H1 H2]. unfold min_int, max_int in *. unfold wrap64.
  rewrite Z.mod_small by lia. lia.
Qed.

Lemma wrap32_id : forall x, in_int32 x -> wrap32 x = x.
Proof.
  intros x [H1 H2]. unfold wrap32. rewrite Z.mod_small by lia. lia.
Qed.

Lemma wrap32_range : forall x, in_int32 (wrap32 x).
Proof.
  intro x. unfold wrap32, in_int32.
  pose proof (Z.mod_pos_bound (x + 2147483648) 4294967296 ltac:(lia)). lia.
Qed.

Lemma wrap64_range : forall x, in_int (wrap64 x).
Proof.
  intro x. unfold wrap64, in_int, min_int, max_int.
  pose proof (Z.mod_pos_bound (x + 9223372036854775808) 18446744073709551616 ltac:(lia)). lia.
Qed.

(* int32 addition in two steps is addition followed by one wrap *)
Lemma wrap32_add_l : forall a b, wrap32 (wrap32 a + b) = wrap32 (a + b).
Proof.
  intros a b. unfold wrap32. f_equal.
  replace (((a + 2147483648) mod 4294967296 - 2147483648 + b + 2147483648))
     with ((a + 2147483648) mod 4294967296 + b) by lia.
  rewrite Zplus_mod_idemp_l. f_equal. lia.
Qed.

Lemma len_nonneg {A} (l : list A) : 0 <= len l.
Proof. unfold len. lia. Qed.

Lemma len_cons {A} (x : A) l : len (x :: l) = len l + 1.
Proof. unfold len. cbn [List.length]. lia. Qed.

Lemma len_app {A} (a b : list A) : len (a ++ b) = len a + len b.
Proof. unfold len. rewrite app_length. lia. Qed.

(* ------------------------------------------------------------------ texts *)
Lemma split_rune_lines : forall s, split_rune 10 s = lines s.
Proof.
  induction s as [|c t IH]; [reflexivity|].
  cbn [split_rune lines]. rewrite IH. reflexivity.
Qed.

Lemma replace_untab : forall s, replace_rune 9 32 s = untab s.
Proof. reflexivity. Qed.

Lemma untab_length : forall l, List.length (untab l) = List.length l.
Proof. intro l. unfold untab. apply map_length. Qed.

Lemma lines_nonempty : forall s, lines s <> [].
Proof.
  induction s as [|c t IH]; cbn [lines]; [discriminate|].
  destruct (c =? 10); [discriminate|]. destruct (lines t); [congruence|discriminate].
Qed.

Lemma lines_length : forall s, (List.length (lines s) <= S (List.length s))%nat.
Proof.
  induction s as [|c t IH]; cbn [lines List.length]; [lia|].
  destruct (c =? 10); cbn [List.length]; [lia|].
  destruct (lines t) eqn:E; cbn [List.length] in *; lia.
Qed.

Lemma rune_size_pos : forall r, 1 <= rune_size r.
Proof. intro r. unfold rune_size. destruct (r <? 128), (r <? 2048), (r <? 65536); lia. Qed.

Lemma rune_size_multibyte : forall r, (1 <? rune_size r) = multibyte r.
Proof.
  intro r. unfold rune_size, multibyte.
  destruct (r <? 128) eqn:E1.
  - apply Z.ltb_lt in E1. symmetry. rewrite Z.ltb_irrefl. apply Z.leb_gt. lia.
  - apply Z.ltb_ge in E1. replace (128 <=? r) with true by (symmetry; apply Z.leb_le; lia).
    destruct (r <? 2048), (r <? 65536); reflexivity.
Qed.

Lemma byte_len_nonneg : forall s, 0 <= byte_len s.
Proof.
  induction s as [|r t IH]; cbn [byte_len]; [lia|]. pose proof (rune_size_pos r). lia.
Qed.

Lemma byte_len_pos : forall r t, (0 <? byte_len (r :: t)) = true.
Proof.
  intros r t. cbn [byte_len]. pose proof (rune_size_pos r). pose proof (byte_len_nonneg t).
  apply Z.ltb_lt. lia.
Qed.

Lemma drop_bytes_zero : forall s, drop_bytes s 0 = ROk s.
Proof. destruct s; reflexivity. Qed.

Lemma drop_bytes_first : forall r t, drop_bytes (r :: t) (rune_size r) = ROk t.
Proof.
  intros r t. pose proof (rune_size_pos r) as P. cbn [drop_bytes].
  replace (rune_size r =? 0) with false by (symmetry; apply Z.eqb_neq; lia).
  replace (rune_size r <? 0) with false by (symmetry; apply Z.ltb_ge; lia).
  rewrite Z.ltb_irrefl, Z.sub_diag. apply drop_bytes_zero.
Qed.

(* what a[x:y] returns is no longer than a *)
Lemma slice_length : forall (c : list Z) a b t, slice c a b = SFound t -> (List.length t <= List.length c)%nat.
Proof.
  intros c a b t H. unfold slice in H. destruct ((0 <=? a) && (a <=? b) && (b <=? len c)); [|discriminate].
  injection H as <-. rewrite firstn_length, skipn_length. lia.
Qed.

Lemma snippet_length : forall s line t, snippet s line = SFound t -> (List.length t <= List.length (contents s))%nat.
Proof.
  intros s line t H. unfold snippet in H.
  destruct (findLineOffset s line) as [a|]; [|discriminate].
  destruct (len (contents s) =? 0); [discriminate|].
  destruct (findLineOffset s (line + 1)); eapply slice_length; eassumption.
Qed.

(* ------------------------------------------------------------------ lists *)
Lemma list_set_app {A} : forall (done : list A) x y rest,
  list_set (List.length done) x (done ++ y :: rest) = done ++ x :: rest.
Proof.
  induction done as [|d done IH]; intros x y rest; cbn [List.length list_set app]; [reflexivity|].
  rewrite IH. reflexivity.
Qed.

Lemma app_cons_assoc {A} : forall (a : list A) x b, (a ++ [x]) ++ b = a ++ x :: b.
Proof. intros. rewrite <- app_assoc. reflexivity. Qed.

(* ------------------------------------------------------------------ the loops, one step *)
Section Loops.
  Variable call : string -> val -> list val -> res (option val * list val).

  Lemma for_loop_S : forall f cond post body en,
    for_loop (S f) cond post body en =
    rbind (cond en) (fun '(c, en0) =>
      if c then
        rbind (body en0) (fun '(r, en1) =>
          match r with
          | CNormal =>
            rbind (post en1) (fun '(r2, en2) =>
              match r2 with
              | CNormal => for_loop f cond post body en2
              | _ => RCrash "control in a post statement"
              end)
          | CBreak => ROk (CNormal, en1)
          | CGoto _ | CReturn _ => ROk (r, en1)
          end)
      else ROk (CNormal, en0)).
  Proof. reflexivity. Qed.

  Lemma range_loop_nil : forall i k v body en, range_loop call i [] k v body en = ROk (CNormal, en).
  Proof. reflexivity. Qed.

  Lemma range_loop_cons : forall i x t k v body en,
    range_loop call i (x :: t) k v body en =
    rbind (store_all call [k; v] [VInt i; x] en) (fun en1 =>
      rbind (body en1) (fun '(r, en2) =>
        match r with
        | CNormal => range_loop call (i + 1) t k v body en2
        | CBreak => ROk (CNormal, en2)
        | CGoto _ | CReturn _ => ROk (r, en2)
        end)).
  Proof. reflexivity. Qed.

  (* ---------------------------------------------------------------- statements, one step *)
  Variable F : nat.

  Definition after (t : list stmt) : ctl * env -> res (ctl * env) :=
    fun '(r, en1) =>
      match r with
      | CNormal => exec_block call F t None en1
      | CGoto lb => exec_block call F t (Some lb) en1
      | _ => ROk (r, en1)
      end.

  Lemma exec_block_nil : forall en, exec_block call F [] None en = ROk (CNormal, en).
  Proof. reflexivity. Qed.

  Lemma exec_block_cons : forall s1 t en,
    exec_block call F (s1 :: t) None en = rbind (exec call F s1 en) (after t).
  Proof. reflexivity. Qed.

  Lemma exec_if : forall i c a b en,
    exec call F (SIf i c a b) en =
    rbind (exec_block call F i None en) (fun '(r, en1) =>
      match r with
      | CNormal =>
        rbind (eval_bool call c en1) (fun '(bv, en2) =>
          if bv then exec_block call F a None en2 else exec_block call F b None en2)
      | _ => RCrash "control in an init statement"
      end).
  Proof. reflexivity. Qed.

  (* the condition of a `for` *)
  Definition cond_sem (c : option exp) : env -> res (bool * env) :=
    match c with Some ce => eval_bool call ce | None => fun en0 => ROk (true, en0) end.

  Lemma cond_sem_some : forall ce en, cond_sem (Some ce) en = eval_bool call ce en.
  Proof. reflexivity. Qed.

  Lemma exec_for : forall i c p b en,
    exec call F (SFor i c p b) en =
    rbind (exec_block call F i None en) (fun '(r, en1) =>
      match r with
      | CNormal =>
        for_loop F (cond_sem c) (exec_block call F p None) (exec_block call F b None) en1
      | _ => RCrash "control in an init statement"
      end).
  Proof. reflexivity. Qed.

  Lemma exec_range : forall k v e b en,
    exec call F (SRange k v e b) en =
    rbind (eval call e en) (fun '(x, en1) =>
      match elems_of x with
      | Some vs => range_loop call 0 vs k v (exec_block call F b None) en1
      | None => RCrash "range"
      end).
  Proof. reflexivity. Qed.
End Loops.

(* ------------------------------------------------------------------ the table *)
Lemma sem_of_skip : forall F d rest name recv args, String.eqb (fn_name d) name = false ->
  sem_of F (d :: rest) name recv args = sem_of F rest name recv args.
Proof. intros F d rest name recv args H. cbn [sem_of]. rewrite H. reflexivity. Qed.

Lemma sem_of_hit : forall F d rest name recv args, String.eqb (fn_name d) name = true ->
  sem_of F (d :: rest) name recv args = run_fn (sem_of F rest) F d recv args.
Proof. intros F d rest name recv args H. cbn [sem_of]. rewrite H. reflexivity. Qed.

(* ------------------------------------------------------------------ fmt *)
(* "%s (%d:%d)%s" *)
Lemma sprintf_error_format : forall m a b s,
  sprintf [37; 115; 32; 40; 37; 100; 58; 37; 100; 41; 37; 115] [VStr m; VInt a; VInt b; VStr s]
  = Some (m ++ [32; 40] ++ fmt_dec a ++ [58] ++ fmt_dec b ++ [41] ++ s ++ []).
Proof. reflexivity. Qed.

(* ------------------------------------------------------------------ the indicator loop in two parts *)
(* the dots: what is left of the bytes and the indicator line when the loop ends; None = goto noind *)
Fixpoint ind_walk (i : nat) (bytes acc : list Z) : option (list Z * list Z) :=
  match i, bytes with
  | S i', r :: t => if multibyte r then None else ind_walk i' t (acc ++ [46])
  | _, _ => Some (bytes, acc)
  end.

(* the caret *)
Definition ind_caret (bytes acc : list Z) : option (list Z) :=
  match bytes with
  | r :: _ => if multibyte r then None else Some (acc ++ [94])
  | [] => Some (acc ++ [94])
  end.

Lemma ind_loop_walk : forall i bytes acc,
  ind_loop i bytes acc = match ind_walk i bytes acc with Some (b, a) => ind_caret b a | None => None end.
Proof.
  induction i as [|i IH]; intros bytes acc.
  - destruct bytes; reflexivity.
  - destruct bytes as [|r t]; [reflexivity|]. cbn [ind_loop ind_walk].
    destruct (multibyte r); [reflexivity|]. apply IH.
Qed.

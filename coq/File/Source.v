(* File/Source.v — executable model of file/source.go (Source: NewSource / updateOffsets /
   findLineOffset / Snippet) and of file/error.go (Error.Bind, Error.format as far as line,
   column and snippet are concerned).

   A source text is the list of its runes (`[]rune(contents)`; Z code points).  `string(contents)`
   followed by strings.Split(_, "\n") splits the rune list at every LF (10): re-encoding maps every
   rune to exactly one rune again, so utf8.RuneCountInString(line) is the number of runes of the
   piece.  Offsets are int32 in the Go code: `wrap32` is written into the model, the theorems state
   the bound under which it is the identity.

   Slicing `contents[a:b]` panics in Go when the bounds are out of range: the model returns SPanic.
   Bind works on the UTF-8 bytes of the snippet; utf8.DecodeRune reports a size > 1 exactly for a
   rune >= 128 (the text was produced by string([]rune), so it is valid UTF-8), and size 0 on an
   empty slice: the model decides on the rune.   No proofs in this file. *)
From Coq Require Import ZArith Bool List.
Require Import X.Base.Value.
Import ListNotations.
Open Scope Z_scope.

Definition len {A : Type} (l : list A) : Z := Z.of_nat (List.length l).

(* ------------------------------------------------------------------ strings.Split(s, "\n") *)
(* the pieces between line feeds: always at least one piece, n line feeds give n + 1 pieces *)
Fixpoint lines (s : list Z) : list (list Z) :=
  match s with
  | [] => [[]]
  | c :: t =>
      if c =? 10 then [] :: lines t
      else match lines t with
           | l :: ls => (c :: l) :: ls
           | [] => [[c]]                      (* unreachable: lines never returns [] *)
           end
  end.

(* ------------------------------------------------------------------ Source *)
Record source := mkSource { contents : list Z; lineOffsets : list Z }.

(* int32 conversion *)
Definition wrap32 (x : Z) : Z := (x + 2147483648) mod 4294967296 - 2147483648.

(* the loop of updateOffsets: offset = offset + int32(RuneCount(line)) + 1; offsets[i] = offset *)
Fixpoint offsets_from (off : Z) (ls : list (list Z)) : list Z :=
  match ls with
  | [] => []
  | l :: r => let o := wrap32 (off + wrap32 (len l) + 1) in o :: offsets_from o r
  end.

Definition updateOffsets (c : list Z) : list Z := offsets_from 0 (lines c).

Definition newSource (c : list Z) : source := mkSource c (updateOffsets c).

(* findLineOffset: Some offset | None = (-1, false) *)
Definition findLineOffset (s : source) (line : Z) : option Z :=
  if line =? 1 then Some 0
  else if (1 <? line) && (line <=? len (lineOffsets s))
  then Some (nth (Z.to_nat (line - 2)) (lineOffsets s) 0)
  else None.

Inductive snip := SFound (text : list Z) | SNotFound | SPanic.

(* contents[a:b] *)
Definition slice (c : list Z) (a b : Z) : snip :=
  if (0 <=? a) && (a <=? b) && (b <=? len c)
  then SFound (firstn (Z.to_nat (b - a)) (skipn (Z.to_nat a) c))
  else SPanic.

Definition snippet (s : source) (line : Z) : snip :=
  match findLineOffset s line with
  | None => SNotFound
  | Some charStart =>
      if len (contents s) =? 0 then SNotFound
      else match findLineOffset s (line + 1) with
           | Some charEnd => slice (contents s) charStart (wrap32 (charEnd - 1))
           | None => slice (contents s) charStart (len (contents s))
           end
  end.

(* ------------------------------------------------------------------ Error.Bind *)
(* strings.Replace(snippet, "\t", " ", -1) *)
Definition untab (l : list Z) : list Z := map (fun r => if r =? 9 then 32 else r) l.

Definition multibyte (r : Z) : bool := 128 <=? r.

(* the indicator loop: `i` iterations left, `bytes` the undecoded rest of the snippet, `acc` the
   indicator line so far.  None = `goto noind`. *)
Fixpoint ind_loop (i : nat) (bytes : list Z) (acc : list Z) : option (list Z) :=
  match i, bytes with
  | S i', r :: t => if multibyte r then None else ind_loop i' t (acc ++ [46])
  | _, _ =>
      (* the loop ended (i reached Column, or no bytes left); DecodeRune on what is left *)
      match bytes with
      | r :: _ => if multibyte r then None else Some (acc ++ [94])
      | [] => Some (acc ++ [94])
      end
  end.

Definition line_prefix : list Z := [10; 32; 124; 32].        (* "\n | " *)

(* the new value of e.Snippet; None = Snippet not found (e.Snippet is left as it was) *)
Inductive bound := BSnippet (text : list Z) | BUnchanged | BPanic.

Definition bind (s : source) (l : loc) : bound :=
  match snippet s (fst l) with
  | SFound sn =>
      let sn' := untab sn in
      let srcLine := line_prefix ++ sn' in
      match ind_loop (Z.to_nat (snd l)) sn' line_prefix with
      | Some indLine => BSnippet (srcLine ++ indLine)
      | None => BSnippet srcLine
      end
  | SNotFound => BUnchanged
  | SPanic => BPanic
  end.

(* ------------------------------------------------------------------ Error.format *)
(* decimal digits of a non-negative number (fmt %d); fuel 20 covers every int64 *)
Fixpoint dec_go (fuel : nat) (z : Z) (acc : list Z) : list Z :=
  match fuel with
  | O => acc
  | S f => let acc' := (48 + z mod 10) :: acc in if z <? 10 then acc' else dec_go f (z / 10) acc'
  end.
Definition fmt_dec (z : Z) : list Z := if z <? 0 then 45 :: dec_go 20 (- z) [] else dec_go 20 z [].

(* what follows the message in Error(): "" when the location is empty, else " (line:col+1)" + snippet *)
Definition format_suffix (l : loc) (snippet_text : list Z) : list Z :=
  if (snd l =? 0) && (fst l =? 0) then []
  else [32; 40] ++ fmt_dec (fst l) ++ [58] ++ fmt_dec (snd l + 1) ++ [41] ++ snippet_text.

(* an error created with an empty Snippet at location l, bound to the source, rendered *)
Definition render (c : list Z) (l : loc) : option (list Z * list Z) :=
  match bind (newSource c) l with
  | BSnippet t => Some (t, format_suffix l t)
  | BUnchanged => Some ([], format_suffix l [])
  | BPanic => None
  end.

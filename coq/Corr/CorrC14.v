(* Corr/CorrC14.v — correspondence evaluator: runs the model's helpers (instantiated with the
   regenerated table) on inputs the real implementation was run on, compares observables. *)
From Coq Require Import ZArith Bool List Floats.
Require Import X.Base.Num X.gen.GenHelpers.
Import ListNotations.
Open Scope Z_scope.

Inductive obs := ONres (r : nres) | OFallthroughPanic | OOther.

Inductive c14case :=
| CBin (h : helper) (x y : num) (o : obs)
| CNeg (x : num) (o : obs).

(* what the model predicts the implementation observes *)
Definition model_bin (h : helper) (x y : num) : obs :=
  match helper_num helper_case h x y with
  | Some r => ONres r
  | None => match helper_fallthrough h with
            | FTPanic => OFallthroughPanic
            | FTNilThenDeepEqual | FTNilSeqDeepEqual => ONres (NRBool false)   (* DeepEqual of two different numeric types / kinds *)
            | FTUnrecognised => OOther
            end
  end.

Definition obs_same (a b : obs) : bool :=
  match a, b with
  | ONres x, ONres y => nres_same x y
  | OFallthroughPanic, OFallthroughPanic => true
  | _, _ => false
  end.

Definition case_ok (c : c14case) : bool :=
  match c with
  | CBin h x y o => obs_same (model_bin h x y) o
  | CNeg x o => obs_same (ONres (NRNum (go_neg x))) o
  end.

Fixpoint mism (i : Z) (l : list c14case) : list Z :=
  match l with
  | [] => []
  | c :: r => if case_ok c then mism (i + 1) r else i :: mism (i + 1) r
  end.
Definition c14_mismatches (l : list c14case) : list Z := mism 0 l.

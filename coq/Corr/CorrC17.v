(* Corr/CorrC17.v — correspondence evaluator of C17.  The harness (harness/c17.go) parses and
   type-checks an expression with the real checker under an operator mapping, gives every node of
   the checked tree a unique location (line = node number, column 0), serialises
     - the operators table, conf.TypesTable of the environment (name -> Tag),
     - the finite table of reflect's Implements on the (node type, interface parameter) pairs that occur,
     - node.Type() of every node (side table keyed by the unique location),
     - the tree before, and the tree after the REAL compiler.PatchOperators (or that it panicked),
     - the verdict of the REAL Config.Check on the table and on every named function alone,
   and this file runs the model on the same input:
     bit 1: the model (Ops/Overload.v; walker over the table REGENERATED from ast/visitor.go) differs
            from the observation: patched tree / panic, Config.Check verdicts;
     bit 2: the observation differs from the REFERENCE (explicit_form, written from the property
            text): the property fails on the implementation on this input.
   Mismatch code = 4 * case index + bits. *)
From Coq Require Import ZArith Bool List String Ascii Floats.
Require Import X.Ty.Types X.Ty.TypesTable.
Require Import X.Base.Num X.Base.Value X.Syn.Ast X.Walk.Walk X.gen.GenWalk X.Corr.CorrC10 X.Ops.Overload.
Import ListNotations.
Open Scope Z_scope.

Inductive c17obs :=
| OPatched (t : expr)      (* the tree after compiler.PatchOperators *)
| OPatchPanicked.          (* PatchOperators panicked (only possible when Config.Check rejected the mapping) *)

Record c17case := mkC17 {
  k_ops : optable;                      (* config.Operators *)
  k_types : ttable;                     (* config.Types *)
  k_impl : list (ty * ty * bool);       (* oracle table: (T, I, T.Implements(I)) *)
  k_tys : list (loc * ty);              (* node.Type() by unique node location *)
  k_tree : expr;                        (* checked tree, before PatchOperators *)
  k_obs : c17obs;
  k_check : bool;                       (* Config.Check() == nil *)
  k_fns : list (string * Z)             (* Config.Check on {op: [fn]}: 0 accepted, 1 "does not exist", 2 "correct signature" *)
}.

Definition run_patch (c : c17case) : pres :=
  patch_ops (impl_lookup (k_impl c)) (k_types c) (k_ops c) (ty_lookup (k_tys c)) (esize (k_tree c)) (k_tree c).

Definition model_agrees (c : c17case) : bool :=
  Bool.eqb (config_check (k_types c) (k_ops c)) (k_check c) &&
  forallb (fun fz => verdict_idx (check_fn (k_types c) (fst fz)) =? snd fz) (k_fns c) &&
  match run_patch c, k_obs c with
  | PDone t, OPatched t' => expr_same t t'
  | PPanic, OPatchPanicked => true
  | _, _ => false
  end.

(* the property on the implementation: an accepted mapping yields the explicit-call form; a
   rejected one is not the business of the patcher *)
Definition reference_agrees (c : c17case) : bool :=
  if k_check c then
    match k_obs c with
    | OPatched t' => expr_same (explicit_form (impl_lookup (k_impl c)) (k_types c) (k_ops c) (ty_lookup (k_tys c)) (k_tree c)) t'
    | OPatchPanicked => false
    end
  else true.

Definition case_code (c : c17case) : Z :=
  (if model_agrees c then 0 else 1) + (if reference_agrees c then 0 else 2).

Fixpoint mism (i : Z) (l : list c17case) : list Z :=
  match l with
  | [] => []
  | c :: r => let k := case_code c in if k =? 0 then mism (i + 1) r else (4 * i + k) :: mism (i + 1) r
  end.
Definition c17_mismatches (l : list c17case) : list Z := mism 0 l.

(* short constructors for the case files *)
Definition tg (t : ty) : tag := mkTag t false false.
Definition tgm (t : ty) : tag := mkTag t true false.
Definition tga : tag := amb_tag.

(* Corr/CorrCore.v — correspondence evaluator for the compiler / VM / reference semantics:
   D1  decode(Go program) = model compile of the serialised tree,
   D2  model VM on the model code = what vm.Run returned,
   D3  reference semantics = what vm.Run returned (the implementation-level statement of C01). *)
From Coq Require Import ZArith Bool List String Floats.
Require Import X.Base.Num X.Base.Value X.Syn.Ast X.Sem.Prim X.Sem.Sem X.BC.Instr X.BC.Compiler X.BC.VM X.BC.Decode X.Corr.Universe.
Import ListNotations.
Local Open Scope Z_scope.

(* observational equality of values: structure and dynamic types, floats by bits (NaNs identified) *)
Fixpoint veq (a b : value) {struct a} : bool :=
  let fix leq (l1 l2 : list value) {struct l1} : bool :=
    match l1, l2 with [], [] => true | x :: r1, y :: r2 => veq x y && leq r1 r2 | _, _ => false end in
  let fix meq (m1 m2 : list (value * value)) {struct m1} : bool :=
    match m1, m2 with
    | [], [] => true
    | (k1, x) :: r1, (k2, y) :: r2 => veq k1 k2 && veq x y && meq r1 r2
    | _, _ => false end in
  let fix feq (f1 f2 : list (string * value)) {struct f1} : bool :=
    match f1, f2 with
    | [], [] => true
    | (n1, x) :: r1, (n2, y) :: r2 => String.eqb n1 n2 && veq x y && feq r1 r2
    | _, _ => false end in
  match a, b with
  | VNil, VNil => true
  | VBool x, VBool y => Bool.eqb x y
  | VNum x, VNum y => num_same x y
  | VStr x, VStr y => String.eqb x y
  | VArr e l, VArr e' l' => ty_eqb e e' && leq l l'
  | VNilArr e, VNilArr e' => ty_eqb e e'
  | VMap k e m, VMap k' e' m' => ty_eqb k k' && ty_eqb e e' && meq m m'
  | VNilMap k e, VNilMap k' e' => ty_eqb k k' && ty_eqb e e'
  | VStruct n p f, VStruct n' p' f' => String.eqb n n' && Bool.eqb p p' && feq f f'
  | VNilPtr t, VNilPtr t' => ty_eqb t t'
  | VFunc n _, VFunc n' _ => String.eqb n n'
  | VNamed n x, VNamed n' y => String.eqb n n' && veq x y
  | VOpaque n, VOpaque n' => String.eqb n n'
  | _, _ => false
  end.

Fixpoint vlist_eq (l1 l2 : list value) : bool :=
  match l1, l2 with [], [] => true | x :: r1, y :: r2 => veq x y && vlist_eq r1 r2 | _, _ => false end.

Fixpoint trace_eq (t1 t2 : list (string * list value)) : bool :=
  match t1, t2 with
  | [], [] => true
  | (n1, a1) :: r1, (n2, a2) :: r2 => String.eqb n1 n2 && vlist_eq a1 a2 && trace_eq r1 r2
  | _, _ => false
  end.

Inductive obsres :=
| ODone (v : value) (t : list (string * list value))
| OStop (e : err) (l : loc) (t : list (string * list value)).

(* failure classes are compared exactly, with ONE documented tolerance: a method called through a typed nil struct
   pointer with an argument list that does not fit.  reflect checks the arguments before it dereferences the
   receiver ("Call with too many input arguments": EReflect); the model resolves the method first and reports the
   nil dereference (Prim.fetch_fn, case VNilPtr).  Both fail at the same node with the same call log; only the order
   of the two checks differs.  Modelling it exactly would thread the receiver through do_call in every proof. *)
Definition err_compat (model observed : err) : bool :=
  err_eqb model observed || (err_eqb model ENilDeref && err_eqb observed EReflect).

(* EUnspec: the model reached a float -> integer conversion of NaN / an out-of-range value, which the Go
   specification leaves implementation-defined: nothing is compared on such a case *)
Definition res_matches (r : result) (o : obsres) : bool :=
  match r, o with
  | Stop EUnspec _ _, _ => true
  | Done v s, ODone v' t => veq v v' && trace_eq (r_trace s) t
  | Stop e l s, OStop e' l' t => err_compat e e' && loc_eqb l l' && trace_eq (r_trace s) t
  | _, _ => false
  end.

(* instruction / code equality *)
Definition instr_eqb (a b : instr) : bool :=
  match a, b with
  | IPush v, IPush w => veq v w
  | IFetch x, IFetch y | IFetchNilSafe x, IFetchNilSafe y | IFetchMap x, IFetchMap y
  | IMatchesConst x, IMatchesConst y | IProperty x, IProperty y | IPropertyNilSafe x, IPropertyNilSafe y
  | IStore x, IStore y | ILoad x, ILoad y | IInc x, IInc y => String.eqb x y
  | IJump x, IJump y | IJumpIfTrue x, IJumpIfTrue y | IJumpIfFalse x, IJumpIfFalse y
  | IJumpBackward x, IJumpBackward y => Nat.eqb x y
  | ICall x n, ICall y m | ICallFast x n, ICallFast y m | IMethod x n, IMethod y m
  | IMethodNilSafe x n, IMethodNilSafe y m => String.eqb x y && Nat.eqb n m
  | ICast x, ICast y => Z.eqb x y
  | IPop, IPop | IRot, IRot | ITrue, ITrue | IFalse, IFalse | INil, INil | INegate, INegate | INot, INot
  | IEqual, IEqual | IEqualInt, IEqualInt | IEqualString, IEqualString | IIn, IIn | ILess, ILess | IMore, IMore
  | ILessOrEqual, ILessOrEqual | IMoreOrEqual, IMoreOrEqual | IAdd, IAdd | ISubtract, ISubtract
  | IMultiply, IMultiply | IDivide, IDivide | IModulo, IModulo | IExponent, IExponent | IRange, IRange
  | IMatches, IMatches | IContains, IContains | IStartsWith, IStartsWith | IEndsWith, IEndsWith
  | IIndex, IIndex | ISlice, ISlice | IArray, IArray | IMap, IMap | ILen, ILen | IBegin, IBegin | IEnd, IEnd => true
  | _, _ => false
  end.

Fixpoint code_eqb (a b : code) : bool :=
  match a, b with
  | [], [] => true
  | (i, l) :: r1, (j, m) :: r2 => instr_eqb i j && loc_eqb l m && code_eqb r1 r2
  | _, _ => false
  end.

Record ccase := mkCase {
  cc_mapenv : bool;
  cc_cast : cast;
  cc_limit : Z;
  cc_env : value;
  cc_expr : expr;
  cc_prog : program;
  cc_obs : obsres
}.

Definition run_depth_bound : nat := 40.

Section Eval.
Variable fe : fenv.

(* bit 1: decode(Go bytes) <> model compile; bit 2: Go program not well-formed (verifier);
   bit 4: model VM <> observed; bit 8: reference semantics <> observed *)
Definition case_code (c : ccase) : Z :=
  let cfg := mkCfg (cc_mapenv c) (cc_limit c) in
  let mc := compile_program (cc_mapenv c) (cc_cast c) (cc_expr c) in
  let d1 := match decode (cc_prog c) with DOk gc => code_eqb gc mc | DBad _ _ => false end in
  let wf := wf_progb (cc_prog c) in
  let d2 := match run_code fe cfg (cc_env c) mc run_depth_bound with
            | Some r => res_matches r (cc_obs c) | None => false end in
  let d3 := res_matches (run_ref fe cfg (cc_env c) (cc_cast c) (cc_expr c)) (cc_obs c) in
  (if d1 then 0 else 1) + (if wf then 0 else 2) + (if d2 then 0 else 4) + (if d3 then 0 else 8).

Fixpoint mism (i : Z) (l : list ccase) : list Z :=
  match l with
  | [] => []
  | c :: r => let k := case_code c in if k =? 0 then mism (i + 1) r else (i * 16 + k) :: mism (i + 1) r
  end.
End Eval.

Definition core_mismatches (fe : fenv) (l : list ccase) : list Z := mism fe 0 l.

(* Corr/CorrC12.v — correspondence evaluator for C12: runs the model lexer (Lex/Lexer.v) and the
   literal classification on the inputs the REAL lexer.Lex / parser.Parse were run on and compares
   the observables: token kinds, values, locations (or the error location); literal node values.
   The unicode classes of the runes >= 128 that occur and the values of strconv.ParseFloat on the
   strings that occur are finite tables written by the harness (computed with the real Go library). *)
From Coq Require Import ZArith Bool List String Ascii Floats.
Require Import X.Base.Value X.Base.Num X.Syn.Tok X.Lex.Lexer.
Import ListNotations.
Open Scope Z_scope.

(* (rune, IsLetter, IsDigit, IsSpace) *)
Definition class_tab := list (Z * bool * bool * bool).
Fixpoint cls_lookup (t : class_tab) (r : Z) : (bool * bool * bool) :=
  match t with
  | [] => (false, false, false)
  | (r', a, b, c) :: t' => if r =? r' then (a, b, c) else cls_lookup t' r
  end.
Definition tab_letter (t : class_tab) (r : Z) : bool := let '(a, _, _) := cls_lookup t r in a.
Definition tab_digit (t : class_tab) (r : Z) : bool := let '(_, b, _) := cls_lookup t r in b.
Definition tab_space (t : class_tab) (r : Z) : bool := let '(_, _, c) := cls_lookup t r in c.

Definition float_tab := list (string * option float).
Fixpoint tab_float (t : float_tab) (s : string) : option float :=
  match t with
  | [] => None
  | (s', v) :: t' => if String.eqb s s' then v else tab_float t' s
  end.

Inductive otok := OT (k : tkind) (v : string) (line col : Z).
Inductive c12obs := OToks (l : list otok) | OErrAt (line col : Z).
Inductive litobs := LOInt (n : Z) | LOFloat (f : float) | LOStr (s : string) | LOErr.

Inductive c12case :=
| CLex (input : list Z) (cls : class_tab) (o : c12obs)
| CLit (input : list Z) (cls : class_tab) (ft : float_tab) (o : litobs).

Definition model_lex (input : list Z) (cls : class_tab) : lex_result :=
  lex (tab_letter cls) (tab_digit cls) (tab_space cls) input.

Definition otok_same (t : token) (o : otok) : bool :=
  match o with
  | OT k v line col => tkind_eqb (tkind_of t) k && String.eqb (tval t) v && loc_eqb (tloc t) (line, col)
  end.

Fixpoint toks_same (ts : list token) (os : list otok) : bool :=
  match ts, os with
  | [], [] => true
  | t :: ts', o :: os' => otok_same t o && toks_same ts' os'
  | _, _ => false
  end.

Definition lex_same (r : lex_result) (o : c12obs) : bool :=
  match r, o with
  | LexOk ts, OToks os => toks_same ts os
  | LexErr e, OErrAt line col => loc_eqb e (line, col)
  | _, _ => false
  end.

(* parser.Parse on a source consisting of one literal: the node built by parsePrimaryExpression *)
Definition model_lit (input : list Z) (cls : class_tab) (ft : float_tab) : option litobs :=
  match model_lex input cls with
  | LexOk [t; e] =>
    if tkind_eqb (tkind_of e) TkEOF then
      match tkind_of t with
      | TkNumber => match classify_number (tab_float ft) (tval t) with
                    | LitInt n => Some (LOInt n)
                    | LitFloat f => Some (LOFloat f)
                    | LitErr => Some LOErr
                    end
      | TkString => Some (LOStr (tval t))
      | _ => None
      end
    else None
  | _ => None
  end.

Definition lit_same (m : option litobs) (o : litobs) : bool :=
  match m, o with
  | Some (LOInt a), LOInt b => a =? b
  | Some (LOFloat a), LOFloat b => f_same a b
  | Some (LOStr a), LOStr b => String.eqb a b
  | Some LOErr, LOErr => true
  | _, _ => false
  end.

Definition case_ok (c : c12case) : bool :=
  match c with
  | CLex input cls o => lex_same (model_lex input cls) o
  | CLit input cls ft o => lit_same (model_lit input cls ft) o
  end.

Fixpoint mism (i : Z) (l : list c12case) : list Z :=
  match l with
  | [] => []
  | c :: r => if case_ok c then mism (i + 1) r else i :: mism (i + 1) r
  end.
Definition c12_mismatches (l : list c12case) : list Z := mism 0 l.

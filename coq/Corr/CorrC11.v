(* Corr/CorrC11.v — correspondence evaluator of C11: runs the model parser (instantiated with the
   REGENERATED tables of coq/gen/GenGrammar.v) on token lists that lexer.Lex produced and compares
   with what parser.Parse returned for the same text: the whole tree (node kinds, operator
   spellings, literal values, NilSafe flags, the presence and pattern of the pre-compiled Regexp,
   every node location, type annotations) or, for a rejected input, the error location.
   Error message texts are not compared. *)
From Coq Require Import ZArith Bool List String Ascii Floats.
Require Import X.Base.Num X.Base.Value X.Syn.Ast X.Syn.Tok X.Parse.Parser X.Parse.Printer X.gen.GenGrammar.
Import ListNotations.
Open Scope Z_scope.

Definition gen_grammar : grammar := mkGrammar gen_unary gen_binary gen_builtins.

Inductive c11obs :=
| OTree (e : expr)          (* parser.Parse returned this tree *)
| OErr (l : loc).           (* parser.Parse returned a *file.Error at this location *)

(* one case: the tokens of lexer.Lex, the finite oracle tables (strconv.ParseFloat results of the
   float-classified literals that parse; String token values that regexp.Compile rejects), and the
   observation *)
Record c11case := mkCase {
  c_toks : list token;
  c_floats : list (string * float);
  c_badre : list string;
  c_obs : c11obs
}.

Definition case_oracles (c : c11case) : oracles :=
  mkOracles (fun s => lookup s (c_floats c))
            (fun s => negb (existsb (String.eqb s) (c_badre c))).

(* ---- structural equality of trees, annotations included *)
Definition ann_same (a b : ann) : bool := loc_eqb (aloc a) (aloc b) && rkind_eqb (akind a) (akind b).

Definition unop_same (a b : unop) : bool :=
  match a, b with
  | UNotBang, UNotBang | UNotWord, UNotWord | UPlus, UPlus | UMinus, UMinus => true
  | UUnknown s, UUnknown s' => String.eqb s s'
  | _, _ => false
  end.

Definition binop_same (a b : binop) : bool :=
  match a, b with
  | BUnknown s, BUnknown s' => String.eqb s s'
  | BUnknown _, _ | _, BUnknown _ => false
  | _, _ => String.eqb (string_of_binop a) (string_of_binop b)
  end.

Definition builtin_same (a b : builtin) : bool :=
  match a, b with
  | BiUnknown s, BiUnknown s' => String.eqb s s'
  | BiUnknown _, _ | _, BiUnknown _ => false
  | _, _ => String.eqb (string_of_builtin a) (string_of_builtin b)
  end.

Definition opt_same {A : Type} (f : A -> A -> bool) (a b : option A) : bool :=
  match a, b with Some x, Some y => f x y | None, None => true | _, _ => false end.

Fixpoint expr_same (x y : expr) {struct x} : bool :=
  let fix list_same (l1 l2 : list expr) {struct l1} : bool :=
    match l1, l2 with
    | [], [] => true
    | a :: r1, b :: r2 => expr_same a b && list_same r1 r2
    | _, _ => false
    end in
  match x, y with
  | ENil a, ENil a' => ann_same a a'
  | EIdent a n s, EIdent a' n' s' => ann_same a a' && String.eqb n n' && Bool.eqb s s'
  | EInt a z, EInt a' z' => ann_same a a' && (z =? z')
  | EFloat a f, EFloat a' f' => ann_same a a' && f_same f f'
  | EBool a b, EBool a' b' => ann_same a a' && Bool.eqb b b'
  | EStr a s, EStr a' s' => ann_same a a' && String.eqb s s'
  | EUnary a o e, EUnary a' o' e' => ann_same a a' && unop_same o o' && expr_same e e'
  | EBinary a o l r, EBinary a' o' l' r' => ann_same a a' && binop_same o o' && expr_same l l' && expr_same r r'
  | EMatches a re l r, EMatches a' re' l' r' =>
      ann_same a a' && opt_same String.eqb re re' && expr_same l l' && expr_same r r'
  | EProperty a e n s, EProperty a' e' n' s' => ann_same a a' && expr_same e e' && String.eqb n n' && Bool.eqb s s'
  | EIndex a e i, EIndex a' e' i' => ann_same a a' && expr_same e e' && expr_same i i'
  | ESlice a e f t, ESlice a' e' f' t' =>
      ann_same a a' && expr_same e e' &&
      match f, f' with Some u, Some u' => expr_same u u' | None, None => true | _, _ => false end &&
      match t, t' with Some u, Some u' => expr_same u u' | None, None => true | _, _ => false end
  | EMethod a e n args s, EMethod a' e' n' args' s' =>
      ann_same a a' && expr_same e e' && String.eqb n n' && list_same args args' && Bool.eqb s s'
  | EFunction a n args f, EFunction a' n' args' f' =>
      ann_same a a' && String.eqb n n' && list_same args args' && Bool.eqb f f'
  | EBuiltin a b args, EBuiltin a' b' args' => ann_same a a' && builtin_same b b' && list_same args args'
  | EClosure a e, EClosure a' e' => ann_same a a' && expr_same e e'
  | EPointer a, EPointer a' => ann_same a a'
  | ECond a c e1 e2, ECond a' c' e1' e2' => ann_same a a' && expr_same c c' && expr_same e1 e1' && expr_same e2 e2'
  | EArray a es, EArray a' es' => ann_same a a' && list_same es es'
  | EMap a ps, EMap a' ps' => ann_same a a' && list_same ps ps'
  | EPair a k v, EPair a' k' v' => ann_same a a' && expr_same k k' && expr_same v v'
  | _, _ => false            (* different kinds; ConstantNode is never produced by the parser *)
  end.

(* the model parser against the observation *)
Definition parse_ok (c : c11case) : bool :=
  match parse gen_grammar (case_oracles c) (c_toks c), c_obs c with
  | ROk e, OTree e' => expr_same e e'
  | RErr l, OErr l' => loc_eqb l l'
  | _, _ => false
  end.

(* the printer of Parse/Printer.v against the implementation's trees: every tree parser.Parse
   returned is printed with the minimal parentheses (tokens carrying the node locations) and parsed
   again by the model; the result must be the same tree, locations included.  Float literals are
   spelled by the case's own table. *)
Definition fmt_float_of (tbl : list (string * float)) (f : float) : string :=
  match find (fun e => f_same (snd e) f) tbl with Some e => fst e | None => EmptyString end.

Definition reprint_ok (c : c11case) : bool :=
  match c_obs c with
  | OTree e =>
      match parse gen_grammar (case_oracles c) (print_min gen_grammar dec (fmt_float_of (c_floats c)) e) with
      | ROk e' => expr_same e e'
      | _ => false
      end
  | OErr _ => true
  end.

Definition case_ok (c : c11case) : bool := parse_ok c && reprint_ok c.

Fixpoint mism (i : Z) (l : list c11case) : list Z :=
  match l with
  | [] => []
  | c :: r => if case_ok c then mism (i + 1) r else i :: mism (i + 1) r
  end.
Definition c11_mismatches (l : list c11case) : list Z := mism 0 l.

(* bytes -> string, for token values that are not printable ASCII (same definition as Corr/Universe.v) *)
Fixpoint sb (l : list Z) : string :=
  match l with [] => EmptyString | b :: r => String (ascii_of_nat (Z.to_nat b)) (sb r) end.

(* short constructors for the case files *)
Definition tI (l c : Z) (v : string) : token := mkTok (l, c) TkIdentifier v.
Definition tN (l c : Z) (v : string) : token := mkTok (l, c) TkNumber v.
Definition tS (l c : Z) (v : string) : token := mkTok (l, c) TkString v.
Definition tO (l c : Z) (v : string) : token := mkTok (l, c) TkOperator v.
Definition tB (l c : Z) (v : string) : token := mkTok (l, c) TkBracket v.
Definition tE (l c : Z) : token := mkTok (l, c) TkEOF EmptyString.

(* Corr/CorrC16.v — correspondence evaluator of C16: the hand model of Ty/TypesTable.v and the
   reference rule go_resolve of Ty/Types.v are run on the type environments, environment types and
   names on which the harness ran the REAL code (conf.CreateTypesTable, expr.Compile /
   checker.Check, expr.Run on a fully populated value, docgen.CreateDoc) and Go's own
   reflect.Type.FieldByName / MethodByName.  Every case is evaluated under two iteration orders of
   the Go maps (as visited, reversed). *)
From Coq Require Import ZArith Bool List String.
Require Import X.Base.Num X.Base.Value X.Ty.Types X.Ty.TypesTable.
Import ListNotations.
Open Scope string_scope.

(* observed entry of conf.CreateTypesTable(env)[name] *)
Inductive tentry := TEAbsent | TEAmb | TEType (t : ty) | TEMethod (t : ty).

(* observed answer of Go's reflect for (type, name): MethodByName first, then FieldByName *)
Inductive goobs := GNone | GField (path : list nat) (t : ty) (exported : bool) | GMethod (t : ty).

(* expr.Compile verdict; for an accepted expression the type checker.Check returned *)
Inductive verdict := VRej | VAcc (t : ty).

(* expr.Run on the populated value: dynamic type of the result / class of the error *)
Inductive robs := RNotRun | ROk (t : ty) | RFail (e : err).

(* environments are referred to by their index in the list given to c16_mismatches: the types
   tables (both iteration orders) and the populated value of an environment are computed once *)
Inductive c16case :=
| CTab (env : nat) (n : string) (o : tentry)
| CGo (t : ty) (n : string) (o : goobs)
| CAcc (env : nat) (a : access) (v : verdict) (r : robs)
| CDoc (env : nat) (names : list string).

Definition tentry_eqb (a b : tentry) : bool :=
  match a, b with
  | TEAbsent, TEAbsent | TEAmb, TEAmb => true
  | TEType x, TEType y | TEMethod x, TEMethod y => ty_eqb x y
  | _, _ => false
  end.

Fixpoint path_eqb (a b : list nat) : bool :=
  match a, b with
  | [], [] => true
  | x :: r, y :: s => Nat.eqb x y && path_eqb r s
  | _, _ => false
  end.

Record ctx := mkCtx {
  cx_mapenv : bool;
  cx_tb : option table;       (* create_types_table under the iteration order of the section *)
  cx_val : value              (* populate_env *)
}.

Section Eval.
Variable te : tenv.

Definition model_tentry (c : ctx) (n : string) : option tentry :=
  match cx_tb c with
  | None => None
  | Some tb =>
      Some (match tget n tb with
            | None => TEAbsent
            | Some tg => if tg_amb tg then TEAmb
                         else if tg_method tg then TEMethod (tg_ty tg) else TEType (tg_ty tg)
            end)
  end.

Definition go_ok (t : ty) (n : string) (o : goobs) : bool :=
  match go_resolve te t n, o with
  | RNone, GNone | RAmbiguous, GNone => true
  | RField p x e, GField p' x' e' => path_eqb p p' && ty_eqb x x' && Bool.eqb e e'
  | RMethod x, GMethod x' => ty_eqb x x'
  | _, _ => false
  end.

(* what the model predicts for Compile and Run *)
Definition model_acc (c : ctx) (a : access) : option (verdict * robs) :=
  match cx_tb c with
  | None => None
  | Some tb =>
      match check_access te tb a with
      | LFuel => None
      | LMissing => Some (VRej, RNotRun)
      | LFound cr =>
          let r := run_access te (cx_mapenv c) (cx_val c) a in
          match cr with
          | CVal t =>
              Some (VAcc t, match r with Ok v => ROk (dyn_ty v) | Fail e => RFail e end)
          | CCall _ _ ret =>
              Some (VAcc ret,
                    match r with
                    | Ok (VFunc _ (TFunc _ _ [o])) => ROk (dyn_ty (shallow o))   (* the harness functions return zero values *)
                    | Ok _ => RFail EReflect                                      (* Call of something that is no function *)
                    | Fail e => RFail e
                    end)
          end
      end
  end.

Definition verdict_eqb (a b : verdict) : bool :=
  match a, b with
  | VRej, VRej => true
  | VAcc x, VAcc y => ty_eqb x y
  | _, _ => false
  end.

Definition robs_eqb (a b : robs) : bool :=
  match a, b with
  | RNotRun, RNotRun => true
  | ROk x, ROk y => ty_eqb x y
  | RFail e, RFail e' => err_eqb e e'
  | _, _ => false
  end.

Definition subset (a b : list string) : bool :=
  forallb (fun x => existsb (String.eqb x) b) a.

Definition doc_of (c : ctx) : option (list string) :=
  match cx_tb c with Some tb => Some (doc_vars tb ++ doc_fixed)%list | None => None end.

(* one case under one iteration order *)
Definition case_ok1 (ctxs : list ctx) (c : c16case) : bool :=
  match c with
  | CTab e n o =>
      match nth_error ctxs e with
      | Some cx => match model_tentry cx n with Some m => tentry_eqb m o | None => false end
      | None => false
      end
  | CGo t n o => go_ok t n o
  | CAcc e a v r =>
      match nth_error ctxs e with
      | Some cx =>
          match model_acc cx a with
          | Some (mv, mr) => verdict_eqb mv v && robs_eqb mr r
          | None => false
          end
      | None => false
      end
  | CDoc e names =>
      match nth_error ctxs e with
      | Some cx => match doc_of cx with Some m => subset m names && subset names m | None => false end
      | None => false
      end
  end.

Definition mk_ctx (perm : table -> table) (keys : list string) (fuel : nat) (env : envty) : ctx :=
  mkCtx (is_map_env env) (create_types_table te perm env) (populate_env te keys fuel env).

Fixpoint mism (c1 c2 : list ctx) (i : Z) (l : list c16case) : list Z :=
  match l with
  | [] => []
  | c :: r => if case_ok1 c1 c && case_ok1 c2 c then mism c1 c2 (i + 1)%Z r else i :: mism c1 c2 (i + 1)%Z r
  end.

(* every case under the two iteration orders perm_id and perm_rev *)
Definition c16_mismatches (envs : list envty) (keys : list string) (fuel : nat) (l : list c16case) : list Z :=
  let c1 := map (mk_ctx perm_id keys fuel) envs in
  let c2 := map (mk_ctx perm_rev keys fuel) envs in
  mism c1 c2 0%Z l.
End Eval.

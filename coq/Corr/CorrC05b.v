(* Corr/CorrC05b.v — correspondence evaluator for the BYTE level of the compiler (BC/Assemble.v):
   compile_bytes of the serialised tree = Program.Bytecode / Constants / Locations of the Go program
   of the same case (same `ccase` / `mkCase` as Corr/CorrCore.v, so the c05 case files can be
   evaluated a second time with c05b_mismatches).

   A mismatch is reported as  index * 16 + code  (index 0-based, same numbering as core_mismatches):
     1  the bytes differ (also: the tree is compilable but the model refuses to assemble it),
     4  the bytes agree, the constant pools differ,
     5  bytes and pool agree, the (non-zero) locations differ.
   (codes with bit 2 or bit 8 set are not used: the driver reads those bits as property failures)
   Skipped (never a mismatch):
     - compilable tree = false (compile_bytes is None by definition; CorrCore judges such cases);
     - the optimizer's shared-node shape: in_range duplicates the left operand BY POINTER, so a
       MatchesNode with a pre-compiled Regexp below it is compiled twice with the same *regexp.Regexp
       and Go's index map finds it again, while the serialised tree holds two copies.  Detected
       decidably: two OpMatchesConst items with the same pattern AND the same location (two distinct
       parser nodes never share the location of their operator token). *)
From Coq Require Import ZArith Bool List String.
Require Import X.Base.Num X.Base.Value X.Syn.Ast X.Sem.Prim X.Sem.Sem X.BC.Instr X.BC.Compiler X.BC.Decode
               X.BC.Assemble X.Corr.Universe X.Corr.CorrCore.
Import ListNotations.
Local Open Scope Z_scope.
Local Open Scope bool_scope.

Definition const_eqb (a b : const) : bool :=
  match a, b with
  | CVal v, CVal w => veq v w
  | CCall n s, CCall n' s' => String.eqb n n' && (s =? s')
  | CRegex p, CRegex q => String.eqb p q
  | _, _ => false
  end.

Fixpoint list_eqb {A} (f : A -> A -> bool) (l1 l2 : list A) : bool :=
  match l1, l2 with
  | [], [] => true
  | x :: r1, y :: r2 => f x y && list_eqb f r1 r2
  | _, _ => false
  end.

Definition locent_eqb (a b : Z * loc) : bool := (fst a =? fst b) && loc_eqb (snd a) (snd b).

(* the (pattern, location) of every OpMatchesConst item, in emission order *)
Fixpoint regex_sites (its : list aitem) : list (string * loc) :=
  match its with
  | [] => []
  | AIns (IMatchesConst p) l :: r => (p, l) :: regex_sites r
  | _ :: r => regex_sites r
  end.

Fixpoint has_dup (l : list (string * loc)) : bool :=
  match l with
  | [] => false
  | (p, q) :: r => existsb (fun x : string * loc => String.eqb (fst x) p && loc_eqb (snd x) q) r || has_dup r
  end.

Definition shared_regex_node (c : ccase) : bool :=
  has_dup (regex_sites (compile_items_program (cc_mapenv c) (cc_cast c) (cc_expr c))).

(* 0 = agrees or skipped *)
Definition c05b_code (c : ccase) : Z :=
  if negb (compilable (cc_expr c)) then 0
  else if shared_regex_node c then 0
  else
    match compile_bytes (cc_mapenv c) (cc_cast c) (cc_expr c) with
    | None => 1
    | Some p =>
        if negb (list_eqb Z.eqb (p_bytes p) (p_bytes (cc_prog c))) then 1
        else if negb (list_eqb const_eqb (p_consts p) (p_consts (cc_prog c))) then 4
        else if negb (list_eqb locent_eqb (locs_nonzero (p_locs p)) (p_locs (cc_prog c))) then 5
        else 0
    end.

Fixpoint c05b_mism (i : Z) (l : list ccase) : list Z :=
  match l with
  | [] => []
  | c :: r => let k := c05b_code c in if k =? 0 then c05b_mism (i + 1) r else (i * 16 + k) :: c05b_mism (i + 1) r
  end.

Definition c05b_mismatches (l : list ccase) : list Z := c05b_mism 0 l.

(* how many cases were skipped (for the evidence record) *)
Definition c05b_skipped (l : list ccase) : Z :=
  Z.of_nat (List.length (filter (fun c => negb (compilable (cc_expr c)) || shared_regex_node c) l)).

(* Corr/CorrC03.v — correspondence evaluator of C03: the hand model Ty/Checker.v is run on the
   configurations and trees on which the harness ran the REAL checker.Check, and compared on the
   observables: verdict (accepted with which reflect.Type / rejected at which location with which
   family of message) and the re-annotated tree (Kind of every node's type, node.Fast).

   The harness checks a freshly parsed tree (no node has a type yet): the tree BEFORE the check
   is the observed tree with every annotation removed (strip).  With k_twice the real code
   checked the tree a second time, as expr.Compile does, and the model does the same. *)
From Coq Require Import ZArith Bool List String Floats.
Require Import X.Base.Num X.Base.Value X.Syn.Ast X.Sem.Prim X.Ty.Types X.Ty.TypesTable X.Ty.Checker.
Import ListNotations.
Local Open Scope Z_scope.

(* bytes -> string, used by the serialiser for non-printable strings *)
Fixpoint sb (l : list Z) : string :=
  match l with [] => EmptyString | b :: r => String (Ascii.ascii_of_nat (Z.to_nat b)) (sb r) end.

Inductive c03obs :=
| OAcc (t : ty)                   (* checker.Check returned (t, nil) *)
| ORej (l : loc) (k : cerr).      (* an error: location (0,0 = none) and message family *)

Record c03case := mkC03 {
  k_base : nat;                   (* index of the base configuration (environment, operators, strictness) *)
  k_expect : option rkind;        (* AsBool / AsInt64 / AsFloat64 *)
  k_twice : bool;
  k_tree : expr;                  (* the tree after the (last) check *)
  k_obs : c03obs
}.

(* ---- equality of trees ---- *)
Fixpoint veq3 (a b : value) {struct a} : bool :=
  let fix leq (l1 l2 : list value) {struct l1} : bool :=
    match l1, l2 with [], [] => true | x :: r1, y :: r2 => veq3 x y && leq r1 r2 | _, _ => false end in
  match a, b with
  | VNil, VNil => true
  | VBool x, VBool y => Bool.eqb x y
  | VNum x, VNum y => num_same x y
  | VStr x, VStr y => String.eqb x y
  | VArr e l, VArr e' l' => ty_eqb e e' && leq l l'
  | VNilArr e, VNilArr e' => ty_eqb e e'
  | _, _ => false
  end.

Definition ann_eqb (a b : ann) : bool := loc_eqb (aloc a) (aloc b) && rkind_eqb (akind a) (akind b).

Definition unop_eqb (a b : unop) : bool :=
  match a, b with
  | UNotBang, UNotBang | UNotWord, UNotWord | UPlus, UPlus | UMinus, UMinus => true
  | UUnknown s, UUnknown t => String.eqb s t
  | _, _ => false
  end.

Definition binop_eqb (a b : binop) : bool := String.eqb (binop_str a) (binop_str b).

Definition builtin_eqb (a b : builtin) : bool :=
  match a, b with
  | BiLen, BiLen | BiAll, BiAll | BiNone, BiNone | BiAny, BiAny | BiOne, BiOne | BiFilter, BiFilter
  | BiMap, BiMap | BiCount, BiCount => true
  | BiUnknown s, BiUnknown t => String.eqb s t
  | _, _ => false
  end.

Definition ostr_eqb (a b : option string) : bool :=
  match a, b with Some x, Some y => String.eqb x y | None, None => true | _, _ => false end.

Fixpoint expr_eqb (x y : expr) {struct x} : bool :=
  let fix leq (l1 l2 : list expr) {struct l1} : bool :=
    match l1, l2 with [], [] => true | a :: r1, b :: r2 => expr_eqb a b && leq r1 r2 | _, _ => false end in
  match x, y with
  | ENil a, ENil b => ann_eqb a b
  | EIdent a n s, EIdent b n' s' => ann_eqb a b && String.eqb n n' && Bool.eqb s s'
  | EInt a z, EInt b z' => ann_eqb a b && (z =? z')
  | EFloat a f, EFloat b f' => ann_eqb a b && f_same f f'
  | EBool a v, EBool b v' => ann_eqb a b && Bool.eqb v v'
  | EStr a s, EStr b s' => ann_eqb a b && String.eqb s s'
  | EConst a v, EConst b v' => ann_eqb a b && veq3 v v'
  | EUnary a o e, EUnary b o' e' => ann_eqb a b && unop_eqb o o' && expr_eqb e e'
  | EBinary a o l r, EBinary b o' l' r' => ann_eqb a b && binop_eqb o o' && expr_eqb l l' && expr_eqb r r'
  | EMatches a re l r, EMatches b re' l' r' => ann_eqb a b && ostr_eqb re re' && expr_eqb l l' && expr_eqb r r'
  | EProperty a e n s, EProperty b e' n' s' => ann_eqb a b && expr_eqb e e' && String.eqb n n' && Bool.eqb s s'
  | EIndex a e i, EIndex b e' i' => ann_eqb a b && expr_eqb e e' && expr_eqb i i'
  | ESlice a e f t, ESlice b e' f' t' =>
      ann_eqb a b && expr_eqb e e' &&
      match f, f' with Some u, Some v => expr_eqb u v | None, None => true | _, _ => false end &&
      match t, t' with Some u, Some v => expr_eqb u v | None, None => true | _, _ => false end
  | EMethod a e n args s, EMethod b e' n' args' s' =>
      ann_eqb a b && expr_eqb e e' && String.eqb n n' && leq args args' && Bool.eqb s s'
  | EFunction a n args f, EFunction b n' args' f' => ann_eqb a b && String.eqb n n' && leq args args' && Bool.eqb f f'
  | EBuiltin a bi args, EBuiltin b bi' args' => ann_eqb a b && builtin_eqb bi bi' && leq args args'
  | EClosure a e, EClosure b e' => ann_eqb a b && expr_eqb e e'
  | EPointer a, EPointer b => ann_eqb a b
  | ECond a c u v, ECond b c' u' v' => ann_eqb a b && expr_eqb c c' && expr_eqb u u' && expr_eqb v v'
  | EArray a es, EArray b es' => ann_eqb a b && leq es es'
  | Ast.EMap a ps, Ast.EMap b ps' => ann_eqb a b && leq ps ps'
  | EPair a k v, EPair b k' v' => ann_eqb a b && expr_eqb k k' && expr_eqb v v'
  | _, _ => false
  end.

(* ---- the freshly parsed tree: no types, no Fast flag ---- *)
Definition bare (a : ann) : ann := mkAnn (aloc a) RKInvalid.

Fixpoint strip (e : expr) {struct e} : expr :=
  let fix sl (l : list expr) {struct l} : list expr :=
    match l with [] => [] | x :: r => strip x :: sl r end in
  match e with
  | ENil a => ENil (bare a)
  | EIdent a n s => EIdent (bare a) n s
  | EInt a z => EInt (bare a) z
  | EFloat a f => EFloat (bare a) f
  | EBool a b => EBool (bare a) b
  | EStr a s => EStr (bare a) s
  | EConst a v => EConst (bare a) v
  | EUnary a o x => EUnary (bare a) o (strip x)
  | EBinary a o l r => EBinary (bare a) o (strip l) (strip r)
  | EMatches a re l r => EMatches (bare a) re (strip l) (strip r)
  | EProperty a x n s => EProperty (bare a) (strip x) n s
  | EIndex a x i => EIndex (bare a) (strip x) (strip i)
  | ESlice a x f t =>
      ESlice (bare a) (strip x) (match f with Some u => Some (strip u) | None => None end)
             (match t with Some u => Some (strip u) | None => None end)
  | EMethod a x n args s => EMethod (bare a) (strip x) n (sl args) s
  | EFunction a n args _ => EFunction (bare a) n (sl args) false
  | EBuiltin a b args => EBuiltin (bare a) b (sl args)
  | EClosure a x => EClosure (bare a) (strip x)
  | EPointer a => EPointer (bare a)
  | ECond a c x y => ECond (bare a) (strip c) (strip x) (strip y)
  | EArray a es => EArray (bare a) (sl es)
  | Ast.EMap a ps => Ast.EMap (bare a) (sl ps)
  | EPair a k v => EPair (bare a) (strip k) (strip v)
  end.

Definition with_expect (c : cconfig) (x : option rkind) : cconfig :=
  mkCC (cc_te c) (cc_types c) (cc_ops c) x (cc_strict c) (cc_default c).

Definition cc0 : cconfig := mkCC [] None [] None false None.

Section Eval.
Variable bases : list cconfig.

Definition model_run (k : c03case) : ty * expr * cst :=
  let cfg := with_expect (nth (k_base k) bases cc0) (k_expect k) in
  let r1 := check cfg (strip (k_tree k)) in
  if k_twice k then
    match r1 with
    | (_, e1, None) => check cfg e1
    | _ => r1
    end
  else r1.

(* bit 1: verdict (accepted / rejected, location, message family); bit 2: reported type;
   bit 4: re-annotated tree *)
Definition case_code (k : c03case) : Z :=
  let '(t, e', st) := model_run k in
  let tree_ok := expr_eqb e' (k_tree k) in
  let v :=
    match st, k_obs k with
    | None, OAcc t0 => if ty_eqb t t0 then 0 else 2
    | Some (l, kd), ORej l0 kd0 => if loc_eqb l l0 && cerr_eqb kd kd0 then 0 else 1
    | _, _ => 1
    end in
  v + (if tree_ok then 0 else 4).

Fixpoint mism (i : Z) (l : list c03case) : list Z :=
  match l with
  | [] => []
  | k :: r => let cd := case_code k in if cd =? 0 then mism (i + 1) r else (i * 8 + cd) :: mism (i + 1) r
  end.
End Eval.

Definition c03_mismatches (bases : list cconfig) (l : list c03case) : list Z := mism bases 0 l.

(* Corr/CorrC13.v — correspondence evaluator of C13: runs the model of file/source.go and
   file/error.go (File/Source.v) on the sources the REAL implementation was run on and compares
     * Source.Snippet(line): found / not found and the text;
     * for every *file.Error that Parse / Compile / Run returned: its Snippet field and the
       position suffix " (line:column+1)" + snippet of Error() — computed by the model from the
       source text and the error's (Line, Column) alone (the case carries the Snippet field and
       what stands between the message and the snippet in Error()).
   Message texts are not compared (the harness strips the Message prefix from Error()).
   The lexer and parser models are tied to the code on the same fault-injected sources by case
   files evaluated with Corr/CorrC12.v (token and lexer-error locations) and Corr/CorrC11.v (trees
   with every node location, parser-error locations). *)
From Coq Require Import ZArith Bool List String Ascii.
Require Import X.Base.Value X.File.Source.
Import ListNotations.
Open Scope Z_scope.

(* rune lists are written by the harness as the lower-case hexadecimal digits of their UTF-8 bytes
   (long list literals are slow to parse); `hx` decodes: two digits per byte, then UTF-8 (the
   harness only writes valid UTF-8) *)
Definition hexv (a : ascii) : Z := let n := Z.of_N (N_of_ascii a) in if n <? 58 then n - 48 else n - 87.
Fixpoint hex_bytes (s : string) : list Z :=
  match s with
  | String a (String b r) => (hexv a * 16 + hexv b) :: hex_bytes r
  | _ => []
  end.
(* fuel = number of bytes *)
Fixpoint utf8_decode (fuel : nat) (bs : list Z) : list Z :=
  match fuel with
  | O => []
  | S f =>
    match bs with
    | [] => []
    | b0 :: r =>
      if b0 <? 128 then b0 :: utf8_decode f r
      else if b0 <? 224 then
        match r with b1 :: r' => ((b0 - 192) * 64 + (b1 - 128)) :: utf8_decode f r' | _ => [] end
      else if b0 <? 240 then
        match r with b1 :: b2 :: r' => ((b0 - 224) * 4096 + (b1 - 128) * 64 + (b2 - 128)) :: utf8_decode f r' | _ => [] end
      else
        match r with
        | b1 :: b2 :: b3 :: r' => ((b0 - 240) * 262144 + (b1 - 128) * 4096 + (b2 - 128) * 64 + (b3 - 128)) :: utf8_decode f r'
        | _ => []
        end
    end
  end.
Definition hx (s : string) : list Z := let bs := hex_bytes s in utf8_decode (List.length bs) bs.

Inductive c13case :=
| CSnip (src : list Z) (line : Z) (found : bool) (text : list Z)
| CErr (src : list Z) (line col : Z) (snippet_field : list Z) (position : list Z).

Fixpoint runes_same (a b : list Z) : bool :=
  match a, b with
  | [], [] => true
  | x :: a', y :: b' => (x =? y) && runes_same a' b'
  | _, _ => false
  end.

Definition case_ok (c : c13case) : bool :=
  match c with
  | CSnip src line found text =>
      match snippet (newSource src) line with
      | SFound t => found && runes_same t text
      | SNotFound => negb found
      | SPanic => false
      end
  | CErr src line col sn position =>
      (* Error() minus the message = position ++ Snippet *)
      match render src (line, col) with
      | Some (t, sfx) => runes_same t sn && runes_same sfx (position ++ sn)
      | None => false
      end
  end.

Fixpoint mism (i : Z) (l : list c13case) : list Z :=
  match l with
  | [] => []
  | c :: r => if case_ok c then mism (i + 1) r else i :: mism (i + 1) r
  end.
Definition c13_mismatches (l : list c13case) : list Z := mism 0 l.

(* Corr/CorrC04.v — correspondence evaluator of C04: the outcome CLASS (ok / err / panic) that
   parser.Parse, expr.Eval, expr.Compile and expr.Run showed under the harness's recover, against what
   the pipeline model (Pipe/Pipeline.v, instantiated with the model lexer, the model parser with the
   REGENERATED grammar tables, `compilable`, the reference semantics, the option / configuration model,
   the REGENERATED stage order and recover table) predicts:
     CaseParse    exact class, for any rune list (valid or invalid UTF-8 after []rune conversion)
     CaseEval     exact class, on the environment universe
     CaseCompile  the observed class is one the model allows: exact for option / configuration /
                  syntax errors and for a panicking patch visitor; {ok, err} where the verdict depends
                  on the checker, optimizer or compiler (no model of the checker exists); every Run
                  of the compiled program is in {ok, err}.
   Finite oracle tables (unicode classes of runes >= 128, strconv.ParseFloat values, String tokens
   that regexp.Compile rejects) are written by the harness with the real Go library. *)
From Coq Require Import ZArith Bool List String Ascii Floats.
Require Import X.Base.Num X.Base.Value X.Syn.Ast X.Syn.Tok X.Sem.Prim.
Require X.Parse.Parser.
Require Import X.gen.GenGrammar X.gen.GenPipeline X.Pipe.Pipeline.
Import ListNotations.
Open Scope Z_scope.

Definition c04_grammar : X.Parse.Parser.grammar := X.Parse.Parser.mkGrammar gen_unary gen_binary gen_builtins.
Definition c04_compile_calls : list call := calls_of gen_compile_calls.
Definition c04_eval_calls : list call := calls_of gen_eval_calls.
Definition c04_run_calls : list call := calls_of gen_run_calls.

(* (rune, IsLetter, IsDigit, IsSpace) for the runes >= 128 that occur *)
Definition class_tab := list (Z * bool * bool * bool).
Fixpoint cls_lookup (t : class_tab) (r : Z) : (bool * bool * bool) :=
  match t with
  | [] => (false, false, false)
  | (r', a, b, c) :: t' => if r =? r' then (a, b, c) else cls_lookup t' r
  end.
Definition tab_letter (t : class_tab) (r : Z) : bool := let '(a, _, _) := cls_lookup t r in a.
Definition tab_digit (t : class_tab) (r : Z) : bool := let '(_, b, _) := cls_lookup t r in b.
Definition tab_space (t : class_tab) (r : Z) : bool := let '(_, _, c) := cls_lookup t r in c.

Record tabs := mkTabs {
  t_cls : class_tab;
  t_floats : list (string * float);     (* number literals strconv.ParseFloat accepts, with their values *)
  t_badre : list string                 (* String token values regexp.Compile rejects *)
}.
Definition tabs_oracles (t : tabs) : X.Parse.Parser.oracles :=
  X.Parse.Parser.mkOracles (fun s => X.Parse.Parser.lookup s (t_floats t))
                           (fun s => negb (existsb (String.eqb s) (t_badre t))).

Inductive c04case :=
| CaseParse (input : list Z) (t : tabs) (obs : oclass)
| CaseEval (input : list Z) (t : tabs) (env : value) (obs : oclass)
| CaseCompile (input : list Z) (t : tabs) (opts : list mopt) (obs : oclass) (runs : list oclass).

Definition class_of_out {A : Type} (o : out A) : oclass :=
  match o with POk _ => KOk | PErr => KErr | PPanic => KPanic end.

Definition budget : Z := 1000000.       (* vm.MemoryBudget *)

Section Eval.
Variable fe : fenv.

Definition model_parse (input : list Z) (t : tabs) : oclass :=
  class_of_out (m_parse_api (tab_letter (t_cls t)) (tab_digit (t_cls t)) (tab_space (t_cls t)) c04_grammar (tabs_oracles t) input).

Definition model_eval (input : list Z) (t : tabs) (env : value) : oclass :=
  class_of (m_eval_api (tab_letter (t_cls t)) (tab_digit (t_cls t)) (tab_space (t_cls t)) c04_grammar (tabs_oracles t)
                       fe budget gen_recover c04_eval_calls input env).

Definition model_compile (input : list Z) (t : tabs) (opts : list mopt) : list oclass :=
  predict_compile (tab_letter (t_cls t)) (tab_digit (t_cls t)) (tab_space (t_cls t)) c04_grammar (tabs_oracles t)
                  gen_recover c04_compile_calls opts input.

Definition case_ok (c : c04case) : bool :=
  match c with
  | CaseParse input t obs => oclass_eqb (model_parse input t) obs
  | CaseEval input t env obs => oclass_eqb (model_eval input t env) obs
  | CaseCompile input t opts obs runs =>
      existsb (oclass_eqb obs) (model_compile input t opts) &&
      forallb (fun r => existsb (oclass_eqb r) (predict_run gen_recover)) runs
  end.

Fixpoint mism (i : Z) (l : list c04case) : list Z :=
  match l with
  | [] => []
  | c :: r => if case_ok c then mism (i + 1) r else i :: mism (i + 1) r
  end.
End Eval.

Definition c04_mismatches (fe : fenv) (l : list c04case) : list Z := mism fe 0 l.

(* Corr/CorrC10.v — correspondence evaluator of C10: runs the model walker (Walk/Walk.v)
   instantiated with the table REGENERATED from ast/visitor.go on the trees and visitors the REAL
   ast.Walk was run on and compares the observables: the stream of Enter/Exit events (phase, node
   kind, location) and the resulting tree (all node kinds, fields, locations, type annotations).
   Independently the same observation is compared with the walker over the REFERENCE table
   (Ast.children): that disagreement is a failure of the property on the implementation.
   Mismatch code = 4 * case index + (1 if the generated-table model differs) + (2 if the reference differs). *)
From Coq Require Import ZArith Bool List String Ascii Floats.
Require Import X.Base.Num X.Base.Value X.Syn.Ast X.Walk.Walk X.gen.GenWalk.
Import ListNotations.
Open Scope Z_scope.

(* ---- the visitors the harness runs (same state machine on the Go side) *)
Inductive vdesc :=
| VLog                                              (* records only *)
| VReplaceInts (at_exit : bool) (k : Z)             (* every IntegerNode := Patch(IntegerNode k), at Exit / at Enter *)
| VReplaceAt (at_exit : bool) (p : Z) (t : expr)    (* the node handed to the p-th Enter call := Patch(t), at its Enter / at its Exit *)
| VBinToCall (name : string).                       (* at Exit every BinaryNode := Patch(FunctionNode name [Left; Right]) (compiler/patcher.go) *)

(* state: number of Enter calls so far, stack of the Enter indices of the open nodes *)
Definition vstate := (Z * list Z)%type.

Definition visitor_of (d : vdesc) : visitor vstate :=
  mkVisitor
    (fun s e =>
       let c := fst s in
       let s' := (c + 1, c :: snd s) in
       match d with
       | VReplaceInts false k => match e with EInt _ _ => (s', patch e (EInt ann0 k)) | _ => (s', e) end
       | VReplaceAt false p t => if c =? p then (s', patch e t) else (s', e)
       | _ => (s', e)
       end)
    (fun s e =>
       let i := match snd s with x :: _ => x | [] => -1 end in
       let s' := (fst s, tl (snd s)) in
       match d with
       | VReplaceInts true k => match e with EInt _ _ => (s', patch e (EInt ann0 k)) | _ => (s', e) end
       | VReplaceAt true p t => if i =? p then (s', patch e t) else (s', e)
       | VBinToCall name => match e with EBinary _ _ l r => (s', patch e (EFunction ann0 name [l; r] false)) | _ => (s', e) end
       | _ => (s', e)
       end).

Inductive c10obs :=
| OWalk (evs : list (bool * nkind * loc)) (res : expr)   (* events (true = Enter) and the tree after ast.Walk *)
| OPanicked.                                              (* ast.Walk panicked *)

Record c10case := mkC10 { c_tree : expr; c_vis : vdesc; c_obs : c10obs }.

(* ---- structural equality: values, trees (annotations included) *)
Fixpoint veq (a b : value) {struct a} : bool :=
  let fix leq (l1 l2 : list value) {struct l1} : bool :=
    match l1, l2 with [] , [] => true | x :: r1, y :: r2 => veq x y && leq r1 r2 | _, _ => false end in
  let fix meq (m1 m2 : list (value * value)) {struct m1} : bool :=
    match m1, m2 with
    | [], [] => true
    | (k1, x) :: r1, (k2, y) :: r2 => veq k1 k2 && veq x y && meq r1 r2
    | _, _ => false end in
  let fix feq (f1 f2 : list (string * value)) {struct f1} : bool :=
    match f1, f2 with
    | [], [] => true
    | (n1, x) :: r1, (n2, y) :: r2 => String.eqb n1 n2 && veq x y && feq r1 r2
    | _, _ => false end in
  match a, b with
  | VNil, VNil => true
  | VBool x, VBool y => Bool.eqb x y
  | VNum x, VNum y => num_same x y
  | VStr x, VStr y => String.eqb x y
  | VArr e l, VArr e' l' => ty_eqb e e' && leq l l'
  | VNilArr e, VNilArr e' => ty_eqb e e'
  | VMap k e m, VMap k' e' m' => ty_eqb k k' && ty_eqb e e' && meq m m'
  | VNilMap k e, VNilMap k' e' => ty_eqb k k' && ty_eqb e e'
  | VStruct n p f, VStruct n' p' f' => String.eqb n n' && Bool.eqb p p' && feq f f'
  | VNilPtr t, VNilPtr t' => ty_eqb t t'
  | VFunc n _, VFunc n' _ => String.eqb n n'
  | VNamed n x, VNamed n' y => String.eqb n n' && veq x y
  | VOpaque n, VOpaque n' => String.eqb n n'
  | _, _ => false
  end.

Definition ann_same (a b : ann) : bool := loc_eqb (aloc a) (aloc b) && rkind_eqb (akind a) (akind b).

Definition unop_same (a b : unop) : bool :=
  match a, b with
  | UNotBang, UNotBang | UNotWord, UNotWord | UPlus, UPlus | UMinus, UMinus => true
  | UUnknown s, UUnknown s' => String.eqb s s'
  | _, _ => false
  end.

Definition binop_idx (b : binop) : Z :=
  match b with
  | BOrWord => 0 | BOrOr => 1 | BAndWord => 2 | BAndAnd => 3 | BEq => 4 | BNe => 5 | BLt => 6 | BGt => 7
  | BGe => 8 | BLe => 9 | BNotIn => 10 | BIn => 11 | BContains => 12 | BStartsWith => 13 | BEndsWith => 14
  | BRange => 15 | BAdd => 16 | BSub => 17 | BMul => 18 | BDiv => 19 | BMod => 20 | BPow => 21 | BUnknown _ => 22
  end.
Definition binop_same (a b : binop) : bool :=
  match a, b with
  | BUnknown s, BUnknown s' => String.eqb s s'
  | _, _ => binop_idx a =? binop_idx b
  end.

Definition builtin_idx (b : builtin) : Z :=
  match b with
  | BiLen => 0 | BiAll => 1 | BiNone => 2 | BiAny => 3 | BiOne => 4 | BiFilter => 5 | BiMap => 6 | BiCount => 7
  | BiUnknown _ => 8
  end.
Definition builtin_same (a b : builtin) : bool :=
  match a, b with
  | BiUnknown s, BiUnknown s' => String.eqb s s'
  | _, _ => builtin_idx a =? builtin_idx b
  end.

Definition opt_same {A : Type} (f : A -> A -> bool) (a b : option A) : bool :=
  match a, b with Some x, Some y => f x y | None, None => true | _, _ => false end.

Fixpoint expr_same (x y : expr) {struct x} : bool :=
  let fix list_same (l1 l2 : list expr) {struct l1} : bool :=
    match l1, l2 with
    | [], [] => true
    | a :: r1, b :: r2 => expr_same a b && list_same r1 r2
    | _, _ => false
    end in
  match x, y with
  | ENil a, ENil a' => ann_same a a'
  | EIdent a n s, EIdent a' n' s' => ann_same a a' && String.eqb n n' && Bool.eqb s s'
  | EInt a z, EInt a' z' => ann_same a a' && (z =? z')
  | EFloat a f, EFloat a' f' => ann_same a a' && f_same f f'
  | EBool a b, EBool a' b' => ann_same a a' && Bool.eqb b b'
  | EStr a s, EStr a' s' => ann_same a a' && String.eqb s s'
  | EConst a v, EConst a' v' => ann_same a a' && veq v v'
  | EUnary a o e, EUnary a' o' e' => ann_same a a' && unop_same o o' && expr_same e e'
  | EBinary a o l r, EBinary a' o' l' r' => ann_same a a' && binop_same o o' && expr_same l l' && expr_same r r'
  | EMatches a re l r, EMatches a' re' l' r' =>
      ann_same a a' && opt_same String.eqb re re' && expr_same l l' && expr_same r r'
  | EProperty a e n s, EProperty a' e' n' s' => ann_same a a' && expr_same e e' && String.eqb n n' && Bool.eqb s s'
  | EIndex a e i, EIndex a' e' i' => ann_same a a' && expr_same e e' && expr_same i i'
  | ESlice a e f t, ESlice a' e' f' t' =>
      ann_same a a' && expr_same e e' &&
      match f, f' with Some u, Some u' => expr_same u u' | None, None => true | _, _ => false end &&
      match t, t' with Some u, Some u' => expr_same u u' | None, None => true | _, _ => false end
  | EMethod a e n args s, EMethod a' e' n' args' s' =>
      ann_same a a' && expr_same e e' && String.eqb n n' && list_same args args' && Bool.eqb s s'
  | EFunction a n args f, EFunction a' n' args' f' =>
      ann_same a a' && String.eqb n n' && list_same args args' && Bool.eqb f f'
  | EBuiltin a b args, EBuiltin a' b' args' => ann_same a a' && builtin_same b b' && list_same args args'
  | EClosure a e, EClosure a' e' => ann_same a a' && expr_same e e'
  | EPointer a, EPointer a' => ann_same a a'
  | ECond a c e1 e2, ECond a' c' e1' e2' => ann_same a a' && expr_same c c' && expr_same e1 e1' && expr_same e2 e2'
  | EArray a es, EArray a' es' => ann_same a a' && list_same es es'
  | EMap a ps, EMap a' ps' => ann_same a a' && list_same ps ps'
  | EPair a k v, EPair a' k' v' => ann_same a a' && expr_same k k' && expr_same v v'
  | _, _ => false
  end.

Definition evid_same (a b : bool * nkind * loc) : bool :=
  Bool.eqb (fst (fst a)) (fst (fst b)) && nkind_eqb (snd (fst a)) (snd (fst b)) && loc_eqb (snd a) (snd b).

Fixpoint evs_same (a b : list (bool * nkind * loc)) : bool :=
  match a, b with
  | [], [] => true
  | x :: r, y :: r' => evid_same x y && evs_same r r'
  | _, _ => false
  end.

(* ---- running the model *)
Definition fuel_of (c : c10case) : nat :=
  (esize (c_tree c) + match c_vis c with VReplaceAt _ _ t => esize t | _ => O end + 2)%nat.

Definition run_model (tbl : table) (c : c10case) : wres (vstate * list event) :=
  walk (fuel_of c) tbl (instrument (visitor_of (c_vis c))) ((0, []), []) (c_tree c).

Definition agrees (r : wres (vstate * list event)) (o : c10obs) : bool :=
  match r, o with
  | WDone sl res, OWalk evs res' => evs_same (map ev_id (snd sl)) evs && expr_same res res'
  | WPanic, OPanicked => true
  | _, _ => false
  end.

Definition case_code (c : c10case) : Z :=
  (if agrees (run_model gen_walked c) (c_obs c) then 0 else 1) +
  (if agrees (run_model ref_slots c) (c_obs c) then 0 else 2).

Fixpoint mism (i : Z) (l : list c10case) : list Z :=
  match l with
  | [] => []
  | c :: r => let k := case_code c in if k =? 0 then mism (i + 1) r else (4 * i + k) :: mism (i + 1) r
  end.
Definition c10_mismatches (l : list c10case) : list Z := mism 0 l.

(* bytes -> string, for strings that are not printable ASCII (same definition as Corr/Universe.v) *)
Fixpoint sb (l : list Z) : string :=
  match l with [] => EmptyString | b :: r => String (ascii_of_nat (Z.to_nat b)) (sb r) end.

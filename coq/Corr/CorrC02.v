(* Corr/CorrC02.v — correspondence evaluator for the optimizer model.
   A case = the tree handed to optimizer.Optimize (after parser.Parse + checker.Check), the names
   marked ConstExpr, the table of the ConstExpr calls the real optimizer made (name, arguments,
   result or panic), the math.Pow values that occur, and what the real optimizer left: the tree
   (Some) or an error (None) with its location.  `c02_mismatches` runs Opt/Optimizer.v's
   `optimize` on the first tree and compares node for node, annotations included. *)
From Coq Require Import ZArith Bool List String Floats.
Require Import X.Base.Num X.Base.Value X.Syn.Ast X.Sem.Prim X.Corr.Universe X.Opt.Optimizer.
Import ListNotations.
Local Open Scope Z_scope.

(* structural equality of values with dynamic types, floats by bits (as Corr/CorrCore.v veq) *)
Fixpoint veq2 (a b : value) {struct a} : bool :=
  let fix leq (l1 l2 : list value) {struct l1} : bool :=
    match l1, l2 with [], [] => true | x :: r1, y :: r2 => veq2 x y && leq r1 r2 | _, _ => false end in
  let fix meq (m1 m2 : list (value * value)) {struct m1} : bool :=
    match m1, m2 with
    | [], [] => true
    | (k1, x) :: r1, (k2, y) :: r2 => veq2 k1 k2 && veq2 x y && meq r1 r2
    | _, _ => false end in
  let fix feq (f1 f2 : list (string * value)) {struct f1} : bool :=
    match f1, f2 with
    | [], [] => true
    | (n1, x) :: r1, (n2, y) :: r2 => String.eqb n1 n2 && veq2 x y && feq r1 r2
    | _, _ => false end in
  match a, b with
  | VNil, VNil => true
  | VBool x, VBool y => Bool.eqb x y
  | VNum x, VNum y => num_same x y
  | VStr x, VStr y => String.eqb x y
  | VArr e l, VArr e' l' => ty_eqb e e' && leq l l'
  | VNilArr e, VNilArr e' => ty_eqb e e'
  | VMap k e m, VMap k' e' m' => ty_eqb k k' && ty_eqb e e' && meq m m'
  | VNilMap k e, VNilMap k' e' => ty_eqb k k' && ty_eqb e e'
  | VStruct n p f, VStruct n' p' f' => String.eqb n n' && Bool.eqb p p' && feq f f'
  | VNilPtr t, VNilPtr t' => ty_eqb t t'
  | VFunc n _, VFunc n' _ => String.eqb n n'
  | VNamed n x, VNamed n' y => String.eqb n n' && veq2 x y
  | VOpaque n, VOpaque n' => String.eqb n n'
  | _, _ => false
  end.

Fixpoint vlist_eq2 (l1 l2 : list value) : bool :=
  match l1, l2 with [], [] => true | x :: r1, y :: r2 => veq2 x y && vlist_eq2 r1 r2 | _, _ => false end.

Definition ann_eqb (a b : ann) : bool := loc_eqb (aloc a) (aloc b) && rkind_eqb (akind a) (akind b).

Definition unop_eqb (a b : unop) : bool :=
  match a, b with
  | UNotBang, UNotBang | UNotWord, UNotWord | UPlus, UPlus | UMinus, UMinus => true
  | UUnknown s, UUnknown t => String.eqb s t
  | _, _ => false
  end.

Definition binop_idx (o : binop) : Z :=
  match o with
  | BOrWord => 0 | BOrOr => 1 | BAndWord => 2 | BAndAnd => 3 | BEq => 4 | BNe => 5 | BLt => 6 | BGt => 7
  | BGe => 8 | BLe => 9 | BNotIn => 10 | BIn => 11 | BContains => 12 | BStartsWith => 13 | BEndsWith => 14
  | BRange => 15 | BAdd => 16 | BSub => 17 | BMul => 18 | BDiv => 19 | BMod => 20 | BPow => 21 | BUnknown _ => 22
  end.
Definition binop_eqb (a b : binop) : bool :=
  match a, b with
  | BUnknown s, BUnknown t => String.eqb s t
  | _, _ => binop_idx a =? binop_idx b
  end.

Definition builtin_eqb (a b : builtin) : bool :=
  match a, b with
  | BiLen, BiLen | BiAll, BiAll | BiNone, BiNone | BiAny, BiAny | BiOne, BiOne | BiFilter, BiFilter
  | BiMap, BiMap | BiCount, BiCount => true
  | BiUnknown s, BiUnknown t => String.eqb s t
  | _, _ => false
  end.

Definition ostr_eqb (a b : option string) : bool :=
  match a, b with Some x, Some y => String.eqb x y | None, None => true | _, _ => false end.

Fixpoint expr_eqb (x y : expr) {struct x} : bool :=
  let fix leq (l1 l2 : list expr) {struct l1} : bool :=
    match l1, l2 with [], [] => true | a :: r1, b :: r2 => expr_eqb a b && leq r1 r2 | _, _ => false end in
  match x, y with
  | ENil a, ENil b => ann_eqb a b
  | EIdent a n s, EIdent b n' s' => ann_eqb a b && String.eqb n n' && Bool.eqb s s'
  | EInt a z, EInt b z' => ann_eqb a b && (z =? z')
  | EFloat a f, EFloat b f' => ann_eqb a b && f_same f f'
  | EBool a v, EBool b v' => ann_eqb a b && Bool.eqb v v'
  | EStr a s, EStr b s' => ann_eqb a b && String.eqb s s'
  | EConst a v, EConst b v' => ann_eqb a b && veq2 v v'
  | EUnary a o e, EUnary b o' e' => ann_eqb a b && unop_eqb o o' && expr_eqb e e'
  | EBinary a o l r, EBinary b o' l' r' => ann_eqb a b && binop_eqb o o' && expr_eqb l l' && expr_eqb r r'
  | EMatches a re l r, EMatches b re' l' r' => ann_eqb a b && ostr_eqb re re' && expr_eqb l l' && expr_eqb r r'
  | EProperty a e n s, EProperty b e' n' s' => ann_eqb a b && expr_eqb e e' && String.eqb n n' && Bool.eqb s s'
  | EIndex a e i, EIndex b e' i' => ann_eqb a b && expr_eqb e e' && expr_eqb i i'
  | ESlice a e f t, ESlice b e' f' t' =>
      ann_eqb a b && expr_eqb e e' &&
      match f, f' with Some u, Some v => expr_eqb u v | None, None => true | _, _ => false end &&
      match t, t' with Some u, Some v => expr_eqb u v | None, None => true | _, _ => false end
  | EMethod a e n args s, EMethod b e' n' args' s' =>
      ann_eqb a b && expr_eqb e e' && String.eqb n n' && leq args args' && Bool.eqb s s'
  | EFunction a n args f, EFunction b n' args' f' => ann_eqb a b && String.eqb n n' && leq args args' && Bool.eqb f f'
  | EBuiltin a bi args, EBuiltin b bi' args' => ann_eqb a b && builtin_eqb bi bi' && leq args args'
  | EClosure a e, EClosure b e' => ann_eqb a b && expr_eqb e e'
  | EPointer a, EPointer b => ann_eqb a b
  | ECond a c u v, ECond b c' u' v' => ann_eqb a b && expr_eqb c c' && expr_eqb u u' && expr_eqb v v'
  | EArray a es, EArray b es' => ann_eqb a b && leq es es'
  | EMap a ps, EMap b ps' => ann_eqb a b && leq ps ps'
  | EPair a k v, EPair b k' v' => ann_eqb a b && expr_eqb k k' && expr_eqb v v'
  | _, _ => false
  end.

Record c02case := mkC02 {
  k_before : expr;
  k_cnames : list string;
  k_calls : list (string * list value * outcome value);
  k_pow : list (float * float * float);
  k_after : option expr;
  k_errloc : loc
}.

Fixpoint sig_lookup (sigs : list (string * fsig)) (id : string) : option fsig :=
  match sigs with
  | [] => None
  | (n, sg) :: r => if String.eqb n id then Some sg else sig_lookup r id
  end.

Fixpoint call_lookup (tbl : list (string * list value * outcome value)) (id : string) (args : list value) : outcome value :=
  match tbl with
  | [] => Fail EOther           (* the real optimizer never made this call *)
  | (n, a, r) :: rest => if String.eqb n id && vlist_eq2 a args then r else call_lookup rest id args
  end.

Definition case_fenv (sigs : list (string * fsig)) (c : c02case) : fenv :=
  mkFenv (sig_lookup sigs) (fun id _ args => call_lookup (k_calls c) id args)
         (fun _ _ _ => None) (fun _ _ => None) (pow_lookup (k_pow c)).

(* 1: the model's tree differs from the real one; 2: accept/reject verdicts differ; 4: error location differs *)
Definition case_code (sigs : list (string * fsig)) (c : c02case) : Z :=
  match optimize (case_fenv sigs c) VNil (k_cnames c) (k_before c), k_after c with
  | OOk e, Some e' => if expr_eqb e e' then 0 else 1
  | OFail l, None => if loc_eqb l (k_errloc c) then 0 else 4
  | _, _ => 2
  end.

Fixpoint mism (sigs : list (string * fsig)) (i : Z) (l : list c02case) : list Z :=
  match l with
  | [] => []
  | c :: r => let k := case_code sigs c in
              if k =? 0 then mism sigs (i + 1) r else (i * 8 + k) :: mism sigs (i + 1) r
  end.

Definition c02_mismatches (sigs : list (string * fsig)) (l : list c02case) : list Z := mism sigs 0 l.

(* the pass order and iteration bounds read from optimizer.go by the harness (go/parser), against the model's *)
Fixpoint strs_eqb (a b : list string) : bool :=
  match a, b with [], [] => true | x :: r, y :: t => String.eqb x y && strs_eqb r t | _, _ => false end.
Fixpoint zs_eqb (a b : list Z) : bool :=
  match a, b with [], [] => true | x :: r, y :: t => (x =? y) && zs_eqb r t | _, _ => false end.

Definition model_passes : list string := ["inArray"; "fold"; "constExpr"; "inRange"; "constRange"]%string.
Definition model_bounds : list Z := [1; Z.of_nat fold_bound; Z.of_nat const_expr_bound; 1; 1].

Definition c02_mismatches_p (passes : list string) (bounds : list Z) (sigs : list (string * fsig)) (l : list c02case) : list Z :=
  (if strs_eqb passes model_passes && zs_eqb bounds model_bounds then [] else [8 * 1000000 + 7]) ++ c02_mismatches sigs l.

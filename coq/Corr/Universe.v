(* Corr/Universe.v — the harness environment universe mirrored in Coq: signatures and behaviour
   of the environment functions of /verif/harness/universe.go, oracle tables for regexp and pow. *)
From Coq Require Import ZArith Bool List String Ascii Floats.
Require Import X.Base.Num X.Base.Value X.Sem.Prim.
Import ListNotations.
Local Open Scope string_scope.
Local Open Scope Z_scope.

(* bytes -> string, used by the serialiser for non-printable strings *)
Fixpoint sb (l : list Z) : string :=
  match l with [] => EmptyString | b :: r => String (ascii_of_nat (Z.to_nat b)) (sb r) end.

Definition tint := TNum KInt.

Definition u_sig (id : string) : option fsig :=
  if String.eqb id "Add" then Some (mkSig [tint; tint] false 1 false)
  else if String.eqb id "Inc" then Some (mkSig [tint] false 1 false)
  else if String.eqb id "Concat" then Some (mkSig [TString; TString] false 1 false)
  else if String.eqb id "IsPos" then Some (mkSig [tint] false 1 false)
  else if String.eqb id "Fast" then Some (mkSig [TSlice TIface] true 1 true)
  else if String.eqb id "Sum" then Some (mkSig [TSlice tint] true 1 false)
  else if String.eqb id "Boom" then Some (mkSig [tint] false 1 false)
  else if String.eqb id "Id" then Some (mkSig [TIface] false 1 false)
  else if String.eqb id "Half" then Some (mkSig [TNum KF64] false 1 false)
  else if String.eqb id "Env.Twice" then Some (mkSig [tint] false 1 false)
  else if String.eqb id "Env.PtrM" then Some (mkSig [tint] false 1 false)
  else if String.eqb id "Inner.Get" then Some (mkSig [] false 1 false)
  else None.

Fixpoint sum_ints (l : list value) : option Z :=
  match l with
  | [] => Some 0
  | VNum (NInt KInt x) :: r => match sum_ints r with Some s => Some (wrap KInt (x + s)) | None => None end
  | _ => None
  end.

(* receiver-dependent methods get the receiver through the argument list: see u_method *)
Definition u_run (id : string) (recv : value) (args : list value) : outcome value :=
  if String.eqb id "Add" then
    match args with [VNum (NInt KInt a); VNum (NInt KInt b)] => Ok (vint (wrap KInt (a + b))) | _ => Fail EOther end
  else if String.eqb id "Inc" then
    match args with [VNum (NInt KInt a)] => Ok (vint (wrap KInt (a + 1))) | _ => Fail EOther end
  else if String.eqb id "Concat" then
    match args with [VStr a; VStr b] => Ok (VStr (a ++ b)) | _ => Fail EOther end
  else if String.eqb id "IsPos" then
    match args with [VNum (NInt KInt a)] => Ok (VBool (0 <? a)) | _ => Fail EOther end
  else if String.eqb id "Fast" then Ok (vint (Z.of_nat (List.length args)))
  else if String.eqb id "Sum" then
    match sum_ints args with Some s => Ok (vint s) | None => Fail EOther end
  else if String.eqb id "Boom" then Fail EUser
  else if String.eqb id "Id" then match args with [x] => Ok x | _ => Fail EOther end
  else if String.eqb id "Half" then
    match args with [VNum (NFlt KF64 x)] => Ok (VNum (NFlt KF64 (PrimFloat.div x 2))) | _ => Fail EOther end
  else if String.eqb id "Env.Twice" then
    match args with [VNum (NInt KInt a)] => Ok (vint (wrap KInt (2 * a))) | _ => Fail EOther end
  else if String.eqb id "Env.PtrM" then
    match args with [VNum (NInt KInt a)] => Ok (vint (wrap KInt (a + 1))) | _ => Fail EOther end
  else if String.eqb id "Inner.Get" then
    match recv with
    | VStruct _ _ fields => match assoc_str "X" fields with Some x => Ok x | None => Fail EOther end
    | _ => Fail ENilDeref
    end
  else Fail EOther.

(* Inner.Get() returns the receiver's X: the id carries the value, "Inner.Get#<x>" is avoided by
   resolving the method at lookup time: see u_fenv *)
Definition u_method (tn : string) (p : bool) (name : string) : option string :=
  if String.eqb tn "Env" then
    if String.eqb name "Twice" then Some "Env.Twice"
    else if String.eqb name "PtrM" then (if p then Some "Env.PtrM" else None)
    else None
  else if String.eqb tn "Inner" then
    if String.eqb name "Get" then Some "Inner.Get" else None
  else None.

Fixpoint re_lookup (tbl : list (string * string * option bool)) (p s : string) : option bool :=
  match tbl with
  | [] => None
  | (p', s', r) :: rest => if String.eqb p p' && String.eqb s s' then r else re_lookup rest p s
  end.

Fixpoint pow_lookup (tbl : list (float * float * float)) (x y : float) : float :=
  match tbl with
  | [] => nan
  | (x', y', r) :: rest => if f_same x x' && f_same y y' then r else pow_lookup rest x y
  end.

Definition u_fenv (re_tbl : list (string * string * option bool)) (pow_tbl : list (float * float * float)) : fenv :=
  mkFenv u_sig u_run u_method (re_lookup re_tbl) (pow_lookup pow_tbl).

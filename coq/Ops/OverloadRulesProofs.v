(* Ops/OverloadRulesProofs.v — facts about the reference functions of Ops/OverloadRules.v that do not
   depend on the regenerated terms. *)
From Coq Require Import Bool List String Arith Lia.
Require Import X.Ty.Types X.Ty.TypesTable.
Require Import X.Base.Num X.Base.Value X.Syn.Ast X.Walk.Walk X.Ops.Overload X.Ty.TableRules X.Ty.TableRulesProofs X.Ops.OverloadRules.
Import ListNotations.
Local Open Scope string_scope.

Lemma first_bad_fn_ok : forall types fns,
  first_bad_fn types fns = FnOk <-> forallb (fun fn => verdict_ok (check_fn types fn)) fns = true.
Proof.
  intros types fns. induction fns as [|fn r IH]; cbn [first_bad_fn forallb]; [split; reflexivity|].
  destruct (check_fn types fn); cbn [verdict_ok andb]; [exact IH| |]; split; intros H; discriminate H.
Qed.

(* the loops of Check meet an offending function exactly when the model's config_check says there is one *)
Lemma first_bad_ok : forall types ops, first_bad types ops = FnOk <-> config_check types ops = true.
Proof.
  intros types ops. unfold config_check. induction ops as [|en r IH]; cbn [first_bad forallb]; [split; reflexivity|].
  destruct (first_bad_fn types (snd en)) eqn:E.
  - apply first_bad_fn_ok in E. rewrite E. cbn [andb]. exact IH.
  - assert (Hf : forallb (fun fn => verdict_ok (check_fn types fn)) (snd en) = false).
    { destruct (forallb (fun fn => verdict_ok (check_fn types fn)) (snd en)) eqn:Ef; [|reflexivity].
      apply first_bad_fn_ok in Ef. rewrite Ef in E. discriminate E. }
    rewrite Hf. cbn [andb]. split; intros H; discriminate H.
  - assert (Hf : forallb (fun fn => verdict_ok (check_fn types fn)) (snd en) = false).
    { destruct (forallb (fun fn => verdict_ok (check_fn types fn)) (snd en)) eqn:Ef; [|reflexivity].
      apply first_bad_fn_ok in Ef. rewrite Ef in E. discriminate E. }
    rewrite Hf. cbn [andb]. split; intros H; discriminate H.
Qed.

(* Check reports an operator error (ordinal 0 or 1) exactly when config_check rejects *)
Lemma check_outcome_operator : forall types ops cfns err,
  config_check types ops = false <->
  (first_bad types ops <> FnOk /\
   check_outcome types ops cfns err = Some (match first_bad types ops with FnBadSignature => 1 | _ => 0 end)).
Proof.
  intros types ops cfns err. unfold check_outcome. split.
  - intros H. destruct (first_bad types ops) eqn:E.
    + apply first_bad_ok in E. rewrite E in H. discriminate H.
    + split; [discriminate|reflexivity].
    + split; [discriminate|reflexivity].
  - intros [Hne _]. destruct (config_check types ops) eqn:E; [|reflexivity].
    apply first_bad_ok in E. contradiction.
Qed.

Lemma check_outcome_accepts : forall types ops cfns err,
  config_check types ops = true ->
  check_outcome types ops cfns err = if cfns_ok cfns then err else Some 2.
Proof. intros types ops cfns err H. apply first_bad_ok in H. unfold check_outcome. rewrite H. reflexivity. Qed.

Lemma tget_in : forall n (m : ttable) g, tget n m = Some g -> In (n, g) m.
Proof.
  intros n m g. unfold tget. induction m as [|[k v] r IH]; cbn [assoc]; intros H; [discriminate H|].
  destruct (String.eqb k n) eqn:E.
  - apply String.eqb_eq in E. inversion H. subst. left. reflexivity.
  - right. exact (IH H).
Qed.

Lemma table_sigs_get : forall types fn tg ins outs,
  table_sigs_ok types = true -> tget fn types = Some tg -> func_shape (tg_ty tg) = Some (ins, outs) ->
  forall i p, nth_error ins i = Some p -> is_nil_ty p = false.
Proof.
  intros types fn tg ins outs Hok Hg Hs i p Hn. apply tget_in in Hg.
  unfold table_sigs_ok in Hok. rewrite forallb_forall in Hok. specialize (Hok _ Hg). cbn [snd] in Hok.
  unfold sig_ok in Hok. rewrite Hs in Hok. rewrite forallb_forall in Hok.
  specialize (Hok p (nth_error_In _ _ Hn)). apply negb_true_iff in Hok. exact Hok.
Qed.

Lemma func_shape_kind : forall t,
  match func_shape t with
  | Some _ => kind_of_ty t = RKFunc
  | None => rkind_eqb (kind_of_ty t) RKFunc = false
  end.
Proof.
  unfold func_shape. induction t; cbn; try reflexivity. exact IHt.
Qed.

(* the values Check returns for a verdict *)
Definition verdict_vals (v : fn_verdict) : option (list dval) :=
  match v with FnOk => None | FnMissing => Some [DErr (Some 0)] | FnBadSignature => Some [DErr (Some 1)] end.

Definition cls_fn (types : ttable) (x : dval * dval) : option (list dval) :=
  match snd x with DStr fn => verdict_vals (check_fn types fn) | _ => None end.

Definition cls_op (types : ttable) (x : dval * dval) : option (list dval) :=
  match snd x with
  | DList l => first_some (cls_fn types) (combine (map DNat (seq 0 (List.length l))) l)
  | _ => None
  end.

Lemma first_some_fns : forall types fns k,
  first_some (cls_fn types) (combine (map DNat (seq k (List.length (map DStr fns)))) (map DStr fns))
  = verdict_vals (first_bad_fn types fns).
Proof.
  intros types fns. induction fns as [|fn r IH]; intros k; [reflexivity|].
  cbn [map List.length seq combine first_some first_bad_fn]. unfold cls_fn at 1. cbn [snd].
  destruct (check_fn types fn); cbn [verdict_vals]; [apply IH|reflexivity|reflexivity].
Qed.

Lemma first_some_ops : forall types (ops : optable),
  first_some (cls_op types) (map (fun en => (DOp (fst en), DList (map DStr (snd en)))) ops)
  = verdict_vals (first_bad types ops).
Proof.
  intros types ops. induction ops as [|en r IH]; [reflexivity|].
  cbn [map first_some first_bad]. unfold cls_op at 1. cbn [snd]. rewrite first_some_fns.
  destruct (first_bad_fn types (snd en)); cbn [verdict_vals]; [exact IH|reflexivity|reflexivity].
Qed.

Definition cls_cfn (x : dval * dval) : option (list dval) :=
  match snd x with DFnVal k => if rkind_eqb k RKFunc then None else Some [DErr (Some 2)] | _ => None end.

Lemma first_some_cfns : forall (cfns : list (string * rkind)),
  first_some cls_cfn (map (fun en => (DStr (fst en), DFnVal (snd en))) cfns)
  = if cfns_ok cfns then None else Some [DErr (Some 2)].
Proof.
  induction cfns as [|c r IH]; [reflexivity|].
  cbn [map first_some]. unfold cls_cfn at 1. cbn [snd]. unfold cfns_ok. cbn [forallb].
  destruct (rkind_eqb (snd c) RKFunc); cbn [andb]; [exact IH|reflexivity].
Qed.

(* Ops/Overload.v — executable model of operator overloading.  No proofs here.

     conf/operators_table.go  OperatorsTable, FindSuitableOperatorOverload   -> optable, candidate, find_overload
     checker/checker.go       BinaryNode: "check operator overloading"        -> checker_binary_overload
     checker/types.go         setTypeForIntegers (the retyping checkFunc does
                              to an integer / arithmetic ARGUMENT afterwards)  -> int_locs, retyped
     compiler/patcher.go      operatorPatcher.Exit, PatchOperators             -> rewrite_one, panics_at, op_visitor, patch_ops
     conf/config.go           Config.Check (operator part)                     -> check_fn, config_check
     expr.go                  Compile: Config.Check gate, check, PatchOperators -> compile_front

   Static types.  Syn/Ast.v stores only the reflect.Kind of a node's type annotation.  The full
   static types (node.Type(), what SetType recorded) are carried in a SIDE TABLE keyed by node
   location:  tyof : loc -> ty.  The patcher reads the operand types through it; ast.Patch copies
   the location (and with it the entry of the side table) to the new node.  Theorems hold for every
   tyof; the harness makes the key faithful by giving every node of a checked tree a unique
   location before it serialises tree and table (Corr/CorrC17.v).

   reflect.Type.Implements is not modelled: it is the oracle `implements : ty -> ty -> bool`
   (Section variable); in case files the harness supplies its finite table.  An interface type
   with methods is `TNamed name TIface` (kind Interface).

   REFERENCE notions (written from the property text, not from the code): ref_params, ref_fits,
   ref_resolve, explicit_form, eval_overloaded. *)
From Coq Require Import ZArith Bool List String.
(* Ty first: Ast.EMap and Walk.table / Walk.field must shadow the homonyms of Ty/TypesTable.v *)
Require Import X.Ty.Types X.Ty.TypesTable.
Require Import X.Base.Num X.Base.Value X.Syn.Ast X.Sem.Prim X.Sem.Sem X.Walk.Walk X.gen.GenWalk.
Import ListNotations.
Open Scope string_scope.

(* conf.TypesTable: member name -> Tag{Type, Method, Ambiguous} *)
Definition ttable := X.Ty.TypesTable.table.

(* ---------------- operator spellings, the operators table ---------------- *)
Definition op_idx (b : binop) : Z :=
  match b with
  | BOrWord => 0 | BOrOr => 1 | BAndWord => 2 | BAndAnd => 3 | BEq => 4 | BNe => 5 | BLt => 6 | BGt => 7
  | BGe => 8 | BLe => 9 | BNotIn => 10 | BIn => 11 | BContains => 12 | BStartsWith => 13 | BEndsWith => 14
  | BRange => 15 | BAdd => 16 | BSub => 17 | BMul => 18 | BDiv => 19 | BMod => 20 | BPow => 21 | BUnknown _ => 22
  end%Z.
Definition op_eqb (a b : binop) : bool :=
  match a, b with
  | BUnknown s, BUnknown s' => String.eqb s s'
  | _, _ => Z.eqb (op_idx a) (op_idx b)
  end.

(* conf.OperatorsTable = map[string][]string: operator spelling -> candidate functions in the
   order expr.Operator listed them (keys pairwise distinct: a Go map) *)
Definition optable := list (binop * list string).

Fixpoint ops_get (ops : optable) (op : binop) : option (list string) :=
  match ops with
  | [] => None
  | (o, fns) :: r => if op_eqb o op then Some fns else ops_get r op
  end.

(* ---------------- reflect accessors on a function type ---------------- *)
(* Kind() == Func looks through a declared name; In(i) / Out(i) / NumIn / NumOut *)
Definition func_shape (t : ty) : option (list ty * list ty) :=
  match under t with
  | TFunc ins _ outs => Some (ins, outs)
  | _ => None
  end.

Definition is_iface (t : ty) : bool := match kind_of_ty t with RKInterface => true | _ => false end.
Definition is_nil_ty (t : ty) : bool := match t with TNilT => true | _ => false end.

(* result of a lookup that dereferences reflect types: a Go panic is an outcome *)
Inductive fres := FHit (out : ty) (fn : string) | FMiss | FPanic.

(* Config.Check's verdict on one named function (the two error messages are two classes) *)
Inductive fn_verdict := FnOk | FnMissing | FnBadSignature.
Definition verdict_ok (v : fn_verdict) : bool := match v with FnOk => true | _ => false end.
Definition verdict_idx (v : fn_verdict) : Z := match v with FnOk => 0 | FnMissing => 1 | FnBadSignature => 2 end%Z.

Section Overload.
Variable implements : ty -> ty -> bool.   (* oracle: l.Implements(iface) of package reflect *)
Variable types : ttable.                  (* config.Types *)

(* ================= conf/operators_table.go ================= *)
(*   l == argType || (argType.Kind() == reflect.Interface && (l == nil || l.Implements(argType)))  *)
Definition arg_fits (a p : ty) : bool :=
  ty_eqb a p || (is_iface p && (is_nil_ty a || implements a p)).

(* one iteration of the loop over fns.  types[fn] of a missing name is the zero Tag: its nil Type
   panics at .In; In(i) beyond NumIn and Out(0) without results panic as well *)
Definition candidate (fn : string) (l r : ty) : fres :=
  match tget fn types with
  | None => FPanic
  | Some tg =>
      match func_shape (tg_ty tg) with
      | None => FPanic
      | Some (ins, outs) =>
          let first := if tg_method tg then 1%nat else 0%nat in   (* firstInIndex: a method's first input is the receiver *)
          match nth_error ins first, nth_error ins (S first) with
          | Some p1, Some p2 =>
              if arg_fits l p1 && arg_fits r p2 then
                match outs with
                | o :: _ => FHit o fn
                | [] => FPanic
                end
              else FMiss
          | _, _ => FPanic
          end
      end
  end.

(* FindSuitableOperatorOverload: the first candidate, in table order, that fits *)
Fixpoint find_overload (fns : list string) (l r : ty) : fres :=
  match fns with
  | [] => FMiss
  | fn :: rest =>
      match candidate fn l r with
      | FMiss => find_overload rest l r
      | x => x
      end
  end.

(* ================= conf/config.go: Config.Check, operator part ================= *)
Definition check_fn (fn : string) : fn_verdict :=
  match tget fn types with
  | None => FnMissing
  | Some tg =>
      if is_nil_ty (tg_ty tg) then FnMissing            (* fnType.Type == nil: an ambiguous member has no type *)
      else match func_shape (tg_ty tg) with
           | None => FnMissing                          (* Kind() != reflect.Func *)
           | Some (ins, outs) =>
               let required := if tg_method tg then 3%nat else 2%nat in
               if Nat.eqb (List.length ins) required && Nat.eqb (List.length outs) 1 then FnOk else FnBadSignature
           end
  end.

(* the range over the Go map stops at the first offending function; which one it meets first
   depends on the iteration order, whether there is one does not *)
Definition config_check (ops : optable) : bool :=
  forallb (fun e => forallb (fun fn => verdict_ok (check_fn fn)) (snd e)) ops.

(* ================= the side table of static types, checker, patcher ================= *)
Variable ops : optable.
Variable tyof : loc -> ty.               (* node.Type() by node location *)

(* checker.BinaryNode, first step: the overload's result type when a candidate fits the types of
   the operands the checker has just computed; otherwise it goes on with the built-in rules *)
Definition checker_binary_overload (op : binop) (l r : ty) : fres :=
  match ops_get ops op with
  | None => FMiss
  | Some fns => find_overload fns l r
  end.

(* operatorPatcher.Exit reads binaryNode.Left.Type(), binaryNode.Right.Type() *)
Definition overload_at (op : binop) (l r : expr) : fres :=
  checker_binary_overload op (tyof (loc_of l)) (tyof (loc_of r)).

(* operatorPatcher.Exit as a function of the node: ast.Patch(node, &FunctionNode{Name: fn, Arguments: {Left, Right}}) *)
Definition rewrite_one (e : expr) : expr :=
  match e with
  | EBinary a op l r =>
      match overload_at op l r with
      | FHit _ fn => patch e (EFunction ann0 fn [l; r] false)
      | _ => e
      end
  | _ => e
  end.

Definition panics_at (e : expr) : bool :=
  match e with
  | EBinary a op l r => match overload_at op l r with FPanic => true | _ => false end
  | _ => false
  end.

(* the visitor: Enter does nothing; the state records whether Exit has panicked *)
Definition op_visitor : xvisitor bool :=
  mkX (fun s _ => s) (fun s e => (s || panics_at e, rewrite_one e)).

Inductive pres := PDone (e : expr) | PPanic | PFuel.

(* compiler.PatchOperators: nothing when no operator is mapped, else ast.Walk with the patcher;
   the walker is the model of Walk.v instantiated with the table REGENERATED from ast/visitor.go *)
Definition patch_ops (n : nat) (e : expr) : pres :=
  match ops with
  | [] => PDone e
  | _ :: _ =>
      match walk n gen_walked (to_visitor op_visitor) false e with
      | WDone false e' => PDone e'
      | WDone true _ => PPanic
      | WPanic => PPanic
      | WOutOfFuel => PFuel
      end
  end.

(* expr.Compile up to the patched tree: Config.Check rejects first; None = compile error *)
Definition compile_front (n : nat) (e : expr) : option pres :=
  if config_check ops then Some (patch_ops n e) else None.

(* ================= REFERENCE (from the property text) ================= *)
(* the parameters an environment function declares: a method of the environment is called
   without naming its receiver *)
Definition ref_params (tg : tag) : option (list ty * list ty) :=
  match func_shape (tg_ty tg) with
  | Some (ins, outs) => Some (if tg_method tg then tl ins else ins, outs)
  | None => None
  end.

(* "operand types match a function's parameters": the same type, or the parameter is an interface
   the operand type implements (nil is a value of every interface type; the documentation is silent
   about nil, this follows the pinned tree) *)
Definition ref_fits (a p : ty) : bool :=
  ty_eqb a p || (is_iface p && (is_nil_ty a || implements a p)).

Definition ref_candidate (fn : string) (l r : ty) : bool :=
  match tget fn types with
  | Some tg =>
      match ref_params tg with
      | Some ([p1; p2], [_]) => ref_fits l p1 && ref_fits r p2
      | _ => false
      end
  | None => false
  end.

(* the first matching candidate in table order *)
Fixpoint ref_resolve (fns : list string) (l r : ty) : option string :=
  match fns with
  | [] => None
  | fn :: rest => if ref_candidate fn l r then Some fn else ref_resolve rest l r
  end.

Definition ref_overload (op : binop) (l r : expr) : option string :=
  match ops_get ops op with
  | None => None
  | Some fns => ref_resolve fns (tyof (loc_of l)) (tyof (loc_of r))
  end.

(* the explicit-call form of an expression, by structural recursion: every binary node whose
   operand types match a candidate becomes the call of the first matching function on the two
   operands in order (at the node's location, with its annotation); every other node is kept *)
Fixpoint explicit_form (e : expr) : expr :=
  match e with
  | ENil _ | EIdent _ _ _ | EInt _ _ | EFloat _ _ | EBool _ _ | EStr _ _ | EConst _ _ | EPointer _ => e
  | EUnary a o x => EUnary a o (explicit_form x)
  | EBinary a op l r =>
      match ref_overload op l r with
      | Some fn => EFunction a fn [explicit_form l; explicit_form r] false
      | None => EBinary a op (explicit_form l) (explicit_form r)
      end
  | EMatches a re l r => EMatches a re (explicit_form l) (explicit_form r)
  | EProperty a x n s => EProperty a (explicit_form x) n s
  | EIndex a x i => EIndex a (explicit_form x) (explicit_form i)
  | ESlice a x f t => ESlice a (explicit_form x) (option_map explicit_form f) (option_map explicit_form t)
  | EMethod a x n args s => EMethod a (explicit_form x) n (map explicit_form args) s
  | EFunction a n args f => EFunction a n (map explicit_form args) f
  | EBuiltin a b args => EBuiltin a b (map explicit_form args)
  | EClosure a x => EClosure a (explicit_form x)
  | ECond a c x y => ECond a (explicit_form c) (explicit_form x) (explicit_form y)
  | EArray a es => EArray a (map explicit_form es)
  | EMap a ps => EMap a (map explicit_form ps)
  | EPair a k v => EPair a (explicit_form k) (explicit_form v)
  end.

(* REFERENCE SEMANTICS of an expression under the operator mapping: a binary node whose operand
   types match a candidate evaluates both operands left to right and then calls the first
   matching function with them (Sem.eval of EFunction: arguments left to right, then the logged
   call); any other node as in Sem.eval *)
Definition eval_overloaded (fe : fenv) (cfg : config) (env : value) (ctx : list (value * Z)) (e : expr) (s : rstate) : result :=
  eval fe cfg env ctx (explicit_form e) s.

(* does the tree contain an overloaded occurrence *)
Definition is_overloaded (e : expr) : bool :=
  match e with
  | EBinary _ op l r => match ref_overload op l r with Some _ => true | None => false end
  | _ => false
  end.

End Overload.

(* ================= checker/types.go: the retyping of integer arguments ================= *)
(* checkFunc: `if isIntegerOrArithmeticOperation(arg) { t = in; setTypeForIntegers(arg, t) }` —
   AFTER the argument has been visited (and its binary nodes resolved against the overloads) the
   integer literals reachable through unary + - and binary + - * / are given the parameter's type *)
Definition is_int_or_arith (e : expr) : bool :=
  match e with
  | EInt _ _ => true
  | EUnary _ (UPlus | UMinus) _ => true
  | EBinary _ (BAdd | BDiv | BSub | BMul) _ _ => true
  | _ => false
  end.

Fixpoint int_locs (e : expr) : list loc :=
  match e with
  | EInt a _ => [aloc a]
  | EUnary _ (UPlus | UMinus) x => int_locs x
  | EBinary _ (BAdd | BDiv | BSub | BMul) l r => int_locs l ++ int_locs r
  | _ => []
  end.

(* the side table after checkFunc has handled argument `arg` of a parameter of type t *)
Definition retyped (tyof : loc -> ty) (arg : expr) (t : ty) : loc -> ty :=
  fun p => if is_int_or_arith arg && existsb (loc_eqb p) (int_locs arg) then t else tyof p.

(* a side table given as a finite list (first entry wins); a node without entry has no type *)
Fixpoint ty_lookup (tbl : list (loc * ty)) (p : loc) : ty :=
  match tbl with
  | [] => TNilT
  | (q, t) :: r => if loc_eqb q p then t else ty_lookup r p
  end.

(* a finite table of the Implements oracle; pairs that do not occur: false *)
Fixpoint impl_lookup (tbl : list (ty * ty * bool)) (a p : ty) : bool :=
  match tbl with
  | [] => false
  | (x, y, b) :: r => if ty_eqb x a && ty_eqb y p then b else impl_lookup r a p
  end.

(* Ops/OverloadRules.v — the operator-overloading functions of gen/GenTables.v run by the interpreter
   of Ty/TableRules.v, with their results read back into the vocabulary of Ops/Overload.v.
   No proofs here (Ops/OverloadRulesProofs.v, Bridge/BrTables.v).

     conf/operators_table.go  FindSuitableOperatorOverload   gen_find_overload  ~  find_overload
     conf/config.go           (c *Config) Check              gen_config_check   ~  check_outcome (config_check)
     compiler/patcher.go      (p *operatorPatcher) Exit      gen_exit           ~  rewrite_one / panics_at *)
From Coq Require Import Bool List String Arith.
Require Import X.Ty.Types X.Ty.TypesTable.
Require Import X.Base.Num X.Base.Value X.Syn.Ast X.Walk.Walk X.Ops.Overload X.Ty.TableRules.
Import ListNotations.
Local Open Scope string_scope.

Definition b_world (implements : ty -> ty -> bool) (tyof : loc -> ty) : world :=
  mkW [] (fun x => x) implements tyof.

(* ---------------- FindSuitableOperatorOverload(fns, types, l, r) (reflect.Type, string, bool) ---------------- *)
Definition fres_of (r : res (list dval)) : option fres :=
  match r with
  | Got [DType o; DStr fn; DBool true] => Some (FHit o fn)
  | Got [DNil; DStr _; DBool false] => Some FMiss
  | Panics => Some FPanic
  | _ => None
  end.

Definition find_args (cands : list string) (types : ttable) (l r : ty) : list dval :=
  [DList (map DStr cands); DTab types; DType l; DType r].

Definition gen_find_overload (fns : list fdef) (implements : ty -> ty -> bool) (types : ttable) (fuel : nat)
    (cands : list string) (l r : ty) : option fres :=
  fres_of (callf (b_world implements (fun _ => TNilT)) fns fuel "FindSuitableOperatorOverload" (find_args cands types l r)).

(* ---------------- (p *operatorPatcher) Exit(node *ast.Node) ---------------- *)
Inductive exit_res := XDone (e : expr) | XPanic.

Definition patcher (ops : optable) (types : ttable) : dval := DRec [("ops", DOps ops); ("types", DTab types)].

(* what Exit leaves in *node *)
Definition gen_exit (fns : list fdef) (implements : ty -> ty -> bool) (types : ttable) (ops : optable)
    (tyof : loc -> ty) (fuel : nat) (e : expr) : option exit_res :=
  match run (b_world implements tyof) fns fuel "Exit" [patcher ops types; DNode e] with
  | Got (_, [_; DNode e']) => Some (XDone e')
  | Panics => Some XPanic
  | _ => None
  end.

Definition exit_model (implements : ty -> ty -> bool) (types : ttable) (ops : optable) (tyof : loc -> ty) (e : expr) : exit_res :=
  if panics_at implements types ops tyof e then XPanic else XDone (rewrite_one implements types ops tyof e).

(* ---------------- (c *Config) Check() error ---------------- *)
(* the fields Check reads: Operators, Types, ConstExprFns (name -> Kind of the reflect.Value), err.
   An error is the ordinal of its fmt.Errorf in the function (0: the function does not exist,
   1: wrong signature, 2: a ConstExpr entry is not a function) or the stored c.err. *)
Definition config_rec (ops : optable) (types : ttable) (cfns : list (string * rkind)) (err : option nat) : dval :=
  DRec [("Operators", DOps ops); ("Types", DTab types); ("ConstExprFns", DCfns cfns); ("err", DErr err)].

Definition err_of (r : res (list dval)) : res (option nat) :=
  rbind r (fun vs => match vs with [DErr e] => Got e | _ => Wrong end).

Definition gen_config_check (fns : list fdef) (types : ttable) (ops : optable) (cfns : list (string * rkind))
    (err : option nat) (fuel : nat) : res (option nat) :=
  err_of (callf (b_world (fun _ _ => false) (fun _ => TNilT)) fns fuel "Check" [config_rec ops types cfns err]).

(* the first offending function in the order the loops meet them (the list order stands for the
   iteration order of the Go map) *)
Fixpoint first_bad_fn (types : ttable) (fns : list string) : fn_verdict :=
  match fns with
  | [] => FnOk
  | fn :: r => match check_fn types fn with FnOk => first_bad_fn types r | v => v end
  end.

Fixpoint first_bad (types : ttable) (ops : optable) : fn_verdict :=
  match ops with
  | [] => FnOk
  | en :: r => match first_bad_fn types (snd en) with FnOk => first_bad types r | v => v end
  end.

Definition cfns_ok (cfns : list (string * rkind)) : bool := forallb (fun c => rkind_eqb (snd c) RKFunc) cfns.

Definition check_outcome (types : ttable) (ops : optable) (cfns : list (string * rkind)) (err : option nat) : option nat :=
  match first_bad types ops with
  | FnMissing => Some 0
  | FnBadSignature => Some 1
  | FnOk => if cfns_ok cfns then err else Some 2
  end.

(* ---------------- well-formed signatures ---------------- *)
(* reflect never hands out a nil parameter type: In(i) of a function type is a type *)
Definition sig_ok (t : ty) : bool :=
  match func_shape t with
  | Some (ins, _) => forallb (fun p => negb (is_nil_ty p)) ins
  | None => true
  end.

Definition table_sigs_ok (types : ttable) : bool := forallb (fun en => sig_ok (tg_ty (snd en))) types.

(* Ops/OverloadProofs.v — theorems about operator overloading, for ALL trees (induction through the
   reference `children`), ALL operator tables, type tables, side tables of static types,
   Implements oracles, environments and function behaviours.  The traversal facts come from
   Walk/WalkProofs.v (C10): the walker over a table that equals the reference slot table is the
   reference traversal.  `table_ok gen_walked` is Bridge/BrC10.gen_table_ok, i.e. a statement about
   the table REGENERATED from ast/visitor.go on this run. *)
From Coq Require Import ZArith Bool List String Lia.
Require Import X.Ty.Types X.Ty.TypesTable.
Require Import X.Base.Num X.Base.Value X.Syn.Ast X.Sem.Prim X.Sem.Sem X.Walk.Walk X.Walk.WalkProofs
               X.gen.GenWalk X.Bridge.BrC10 X.Ops.Overload.
Import ListNotations.
Local Open Scope nat_scope.
Local Open Scope string_scope.

(* ------------------------------------------------------------------ small facts *)
Lemma nth_error_two {A} (l : list A) :
  List.length l = 2 -> exists a b, l = [a; b].
Proof. destruct l as [|a [|b [|c r]]]; cbn; intros H; try discriminate. eauto. Qed.

Lemma nth_error_three {A} (l : list A) :
  List.length l = 3 -> exists a b c, l = [a; b; c].
Proof. destruct l as [|a [|b [|c [|d r]]]]; cbn; intros H; try discriminate. eauto. Qed.

Lemma length_one {A} (l : list A) : List.length l = 1 -> exists a, l = [a].
Proof. destruct l as [|a [|b r]]; cbn; intros H; try discriminate. eauto. Qed.

Lemma map_tree_id f : (forall x, f x = x) -> forall e, map_tree f e = e.
Proof.
  intros Hf e. induction e as [e IH] using expr_children_ind.
  rewrite map_tree_eq, Hf.
  rewrite (map_ext_in' (map_tree f) (fun x => x) (children e)) by exact IH.
  rewrite map_id. apply set_children_id.
Qed.

Section Proofs.
Variable implements : ty -> ty -> bool.
Variable types : ttable.
Variable ops : optable.
Variable tyof : loc -> ty.

Notation candidate := (candidate implements types).
Notation find_overload := (find_overload implements types).
Notation check_fn := (check_fn types).
Notation config_check := (config_check types).
Notation ref_candidate := (ref_candidate implements types).
Notation ref_resolve := (ref_resolve implements types).
Notation ref_overload := (ref_overload implements types ops tyof).
Notation overload_at := (overload_at implements types ops tyof).
Notation rewrite_one := (rewrite_one implements types ops tyof).
Notation panics_at := (panics_at implements types ops tyof).
Notation op_visitor := (op_visitor implements types ops tyof).
Notation patch_ops := (patch_ops implements types ops tyof).
Notation explicit_form := (explicit_form implements types ops tyof).
Notation eval_overloaded := (eval_overloaded implements types ops tyof).
Notation is_overloaded := (is_overloaded implements types ops tyof).

(* the result type Config.Check guarantees to exist: Out(0) *)
Definition out_of (fn : string) : ty :=
  match tget fn types with
  | Some tg => match func_shape (tg_ty tg) with Some (_, o :: _) => o | _ => TNilT end
  | None => TNilT
  end.

(* ------------------------------------------------------------------ Config.Check: what acceptance means *)
(* SPECIFICATION of a well-shaped operator function (property text: not missing, not ill-shaped):
   a member of the environment that is a function taking exactly the two operands (besides the
   receiver when it is a method of the environment) and returning exactly one result *)
Definition well_shaped (fn : string) : Prop :=
  exists tg ins outs p1 p2 o,
    tget fn types = Some tg /\ func_shape (tg_ty tg) = Some (ins, outs) /\
    (if tg_method tg then tl ins else ins) = [p1; p2] /\
    (tg_method tg = true -> exists recv, ins = [recv; p1; p2]) /\ outs = [o].

Lemma check_fn_ok_iff fn : check_fn fn = FnOk <-> well_shaped fn.
Proof.
  unfold Overload.check_fn, well_shaped. split.
  - destruct (tget fn types) as [tg|] eqn:Eg; [|discriminate].
    destruct (is_nil_ty (tg_ty tg)); [discriminate|].
    destruct (func_shape (tg_ty tg)) as [[ins outs]|] eqn:Es; [|discriminate].
    destruct (Nat.eqb (List.length ins) (if tg_method tg then 3 else 2)) eqn:E1; [|discriminate].
    destruct (Nat.eqb (List.length outs) 1) eqn:E2; [|discriminate]. intros _.
    apply Nat.eqb_eq in E1, E2. destruct (length_one _ E2) as [o ->].
    destruct (tg_method tg) eqn:Em.
    + destruct (nth_error_three _ E1) as (a & b & c & ->).
      exists tg, [a; b; c], [o], b, c, o. rewrite Em. repeat split; eauto.
    + destruct (nth_error_two _ E1) as (a & b & ->).
      exists tg, [a; b], [o], a, b, o. rewrite Em. repeat split; eauto. discriminate.
  - intros (tg & ins & outs & p1 & p2 & o & Hg & Hs & Hp & Hm & ->). rewrite Hg.
    assert (Hnil : is_nil_ty (tg_ty tg) = false).
    { destruct (tg_ty tg); try reflexivity. discriminate. }
    rewrite Hnil, Hs. destruct (tg_method tg).
    + destruct (Hm eq_refl) as [recv ->]. reflexivity.
    + rewrite Hp. reflexivity.
Qed.

Lemma config_check_in fn fns op :
  config_check ops = true -> In (op, fns) ops -> In fn fns -> check_fn fn = FnOk.
Proof.
  unfold Overload.config_check. intros H Hin Hfn.
  rewrite forallb_forall in H. specialize (H _ Hin). cbn [snd] in H.
  rewrite forallb_forall in H. specialize (H _ Hfn).
  destruct (check_fn fn); [reflexivity|discriminate|discriminate].
Qed.

Lemma ops_get_in op fns : ops_get ops op = Some fns -> exists o, In (o, fns) ops.
Proof.
  induction ops as [|[o f] r IH]; cbn [ops_get]; [discriminate|].
  destruct (op_eqb o op).
  - intros H. inversion H; subst. exists o. left. reflexivity.
  - intros H. destruct (IH H) as [o' Ho']. exists o'. right. exact Ho'.
Qed.

(* ------------------------------------------------------------------ the lookup against the reference resolution *)
(* for a well-shaped function the code's test (with firstInIndex skipping the receiver) is the
   reference test on the declared parameters, and nothing panics *)
Lemma candidate_ref fn l r : check_fn fn = FnOk ->
  candidate fn l r = if ref_candidate fn l r then FHit (out_of fn) fn else FMiss.
Proof.
  intros H. apply check_fn_ok_iff in H.
  destruct H as (tg & ins & outs & p1 & p2 & o & Hg & Hs & Hp & Hm & ->).
  unfold Overload.candidate, Overload.ref_candidate, out_of, ref_params. rewrite Hg, Hs.
  destruct (tg_method tg).
  - destruct (Hm eq_refl) as [recv ->]. cbn [nth_error tl].
    unfold ref_fits, arg_fits. destruct (_ && _); reflexivity.
  - cbn [tl] in Hp. subst ins. cbn [nth_error].
    unfold ref_fits, arg_fits. destruct (_ && _); reflexivity.
Qed.

Lemma find_overload_ref fns l r : (forall fn, In fn fns -> check_fn fn = FnOk) ->
  find_overload fns l r = match ref_resolve fns l r with Some fn => FHit (out_of fn) fn | None => FMiss end.
Proof.
  induction fns as [|fn rest IH]; intros H; [reflexivity|].
  cbn [Overload.find_overload Overload.ref_resolve].
  rewrite (candidate_ref fn l r (H fn (or_introl eq_refl))).
  destruct (ref_candidate fn l r); [reflexivity|].
  apply IH. intros f Hf. apply H. right. exact Hf.
Qed.

Section Accepted.
Hypothesis Hcfg : config_check ops = true.

Lemma overload_at_ref op l r :
  overload_at op l r = match ref_overload op l r with Some fn => FHit (out_of fn) fn | None => FMiss end.
Proof.
  unfold Overload.overload_at, Overload.checker_binary_overload, Overload.ref_overload.
  destruct (ops_get ops op) as [fns|] eqn:E; [|reflexivity].
  apply find_overload_ref. intros fn Hfn.
  destruct (ops_get_in _ _ E) as [o Ho]. exact (config_check_in fn fns o Hcfg Ho Hfn).
Qed.

(* the checker (on the operand types it computed) and the patcher (on the recorded ones) run the
   same lookup: with equal operand types they select the same function, and the type the checker
   gave the node is that function's result type *)
Lemma checker_patcher_same_lookup op l r :
  checker_binary_overload implements types ops op (tyof (loc_of l)) (tyof (loc_of r)) = overload_at op l r.
Proof. reflexivity. Qed.

Lemma no_panic e : panics_at e = false.
Proof.
  destruct e; try reflexivity. cbn [Overload.panics_at]. rewrite overload_at_ref.
  destruct (ref_overload op e1 e2); reflexivity.
Qed.

(* operatorPatcher.Exit on one node, in reference terms *)
Lemma rewrite_one_ref e :
  rewrite_one e =
  match e with
  | EBinary a op l r =>
      match ref_overload op l r with
      | Some fn => EFunction a fn [l; r] false
      | None => e
      end
  | _ => e
  end.
Proof.
  destruct e; try reflexivity. cbn [Overload.rewrite_one]. rewrite overload_at_ref.
  destruct (ref_overload op e1 e2); reflexivity.
Qed.
End Accepted.

(* ------------------------------------------------------------------ annotations and child structure are kept *)
Lemma rewrite_one_ann e : ann_of (rewrite_one e) = ann_of e.
Proof.
  destruct e; try reflexivity. cbn [Overload.rewrite_one].
  destruct (overload_at op e1 e2); reflexivity.
Qed.

Lemma rewrite_one_children e : children (rewrite_one e) = children e.
Proof.
  destruct e; try reflexivity. cbn [Overload.rewrite_one].
  destruct (overload_at op e1 e2); reflexivity.
Qed.

Lemma explicit_form_ann e : ann_of (explicit_form e) = ann_of e.
Proof.
  destruct e; try reflexivity. cbn [Overload.explicit_form].
  destruct (ref_overload op e1 e2); reflexivity.
Qed.

Lemma explicit_form_loc e : loc_of (explicit_form e) = loc_of e.
Proof. unfold loc_of. rewrite explicit_form_ann. reflexivity. Qed.

Lemma map_tree_rewrite_ann e : ann_of (map_tree rewrite_one e) = ann_of e.
Proof. rewrite map_tree_eq, rewrite_one_ann. apply ann_set_children. Qed.

Lemma children_map_tree_rewrite e :
  children (map_tree rewrite_one e) = map (map_tree rewrite_one) (children e).
Proof.
  rewrite map_tree_eq, rewrite_one_children. apply children_set_children. apply map_length.
Qed.

(* explicit_form is a homomorphism on every node that is not an overloaded occurrence *)
Lemma explicit_form_children e : is_overloaded e = false ->
  explicit_form e = set_children e (map explicit_form (children e)).
Proof.
  destruct e; cbn [Overload.is_overloaded Overload.explicit_form children set_children map hd_or tl];
    try reflexivity.
  - destruct (ref_overload op e1 e2); [discriminate|reflexivity].
  - intros _. destruct from, to; reflexivity.
Qed.

(* ------------------------------------------------------------------ the traversal *)
Lemma thread_op cs :
  (forall x, panics_at x = false) ->
  (forall c, In c cs -> forall s, ref_traverse op_visitor c s = (s, map_tree rewrite_one c)) ->
  forall s, thread (map (ref_traverse op_visitor) cs) s = (s, map (map_tree rewrite_one) cs).
Proof.
  intros Hnp. induction cs as [|c r IH]; intros H s; [reflexivity|]. cbn [map thread].
  rewrite (H c (or_introl eq_refl)). cbn [fst snd].
  rewrite IH by (intros c' Hc'; apply H; right; exact Hc'). reflexivity.
Qed.

Lemma ref_traverse_op e : (forall x, panics_at x = false) ->
  forall s, ref_traverse op_visitor e s = (s, map_tree rewrite_one e).
Proof.
  intros Hnp. induction e as [e IH] using expr_children_ind. intros s.
  rewrite ref_traverse_eq. cbn [Overload.op_visitor x_enter x_exit].
  rewrite (thread_op _ Hnp IH). cbn [fst snd]. rewrite Hnp, orb_false_r, (map_tree_eq rewrite_one e).
  reflexivity.
Qed.

(* C17_patch_is_map_tree: PatchOperators returns the tree with operatorPatcher.Exit applied at
   EVERY position (bottom-up), whenever the configuration was accepted; fuel esize e suffices *)
Theorem patch_is_map_tree : config_check ops = true ->
  forall e n, esize e <= n -> patch_ops n e = PDone (map_tree rewrite_one e).
Proof.
  intros Hcfg e n Hn. unfold Overload.patch_ops.
  destruct ops as [|o rest] eqn:Eops.
  - rewrite map_tree_id; [reflexivity|].
    intros x. destruct x; reflexivity.
  - rewrite <- Eops in *.
    rewrite (walk_is_ref_traverse gen_walked op_visitor gen_table_ok e n false Hn).
    rewrite (ref_traverse_op e (no_panic Hcfg)). reflexivity.
Qed.

(* the walker's result is the explicit-call form of the reference *)
Theorem map_tree_is_explicit_form : config_check ops = true ->
  forall e, map_tree rewrite_one e = explicit_form e.
Proof.
  intros Hcfg e. induction e as [e IH] using expr_children_ind.
  rewrite map_tree_eq, (rewrite_one_ref Hcfg).
  rewrite (map_ext_in' (map_tree rewrite_one) explicit_form (children e)) by exact IH.
  destruct e; cbn [children set_children map hd_or tl Overload.explicit_form]; try reflexivity.
  - (* binary: the operand types are read from the patched operands, which kept their locations *)
    unfold Overload.ref_overload. rewrite !explicit_form_loc. fold (ref_overload op e1 e2).
    destruct (ref_overload op e1 e2); reflexivity.
  - destruct from, to; reflexivity.
Qed.

Theorem patch_is_explicit_form : config_check ops = true ->
  forall e n, esize e <= n -> patch_ops n e = PDone (explicit_form e).
Proof.
  intros Hcfg e n Hn. rewrite (patch_is_map_tree Hcfg e n Hn), (map_tree_is_explicit_form Hcfg). reflexivity.
Qed.

(* C17_equiv: running the patched tree is the reference semantics of the operator mapping *)
Theorem equiv : config_check ops = true ->
  forall e n, esize e <= n ->
  exists t, patch_ops n e = PDone t /\
    forall fe cfg env ctx s, eval fe cfg env ctx t s = eval_overloaded fe cfg env ctx e s.
Proof.
  intros Hcfg e n Hn. exists (explicit_form e). split.
  - exact (patch_is_explicit_form Hcfg e n Hn).
  - reflexivity.
Qed.

(* an occurrence at ANY path (through any child slot of any node kind) is handled: the patched
   tree has, at the same path, the patched sub-tree *)
Theorem every_position p : forall e x, subterm_at p e = Some x ->
  subterm_at p (map_tree rewrite_one e) = Some (map_tree rewrite_one x).
Proof.
  induction p as [|i q IH]; intros e x H; cbn [subterm_at] in *.
  - inversion H. reflexivity.
  - rewrite children_map_tree_rewrite, nth_error_map.
    destruct (nth_error (children e) i) as [c|]; [|discriminate]. cbn [option_map]. exact (IH c x H).
Qed.

(* ------------------------------------------------------------------ semantics of an overloaded occurrence *)
Section Semantics.
Variable fe : fenv.
Variable cfg : config.
Variable env : value.

(* the reference semantics, unfolded at a binary node whose operand types match: both operands
   left to right, then the function is fetched from the environment and called (reflect's
   argument checks, the call is logged, its result or panic is the result), all failures located
   at the operator *)
Theorem overloaded_binary_sem a op l r fn ctx s : ref_overload op l r = Some fn ->
  eval_overloaded fe cfg env ctx (EBinary a op l r) s =
  rbind (eval_overloaded fe cfg env ctx l s) (fun va s1 =>
  rbind (eval_overloaded fe cfg env ctx r s1) (fun vb s2 =>
  lift (aloc a) s2 (fetch_fn fe env fn) (fun id => do_call fe (aloc a) false id env [va; vb] s2))).
Proof.
  intros H. unfold Overload.eval_overloaded. cbn [Overload.explicit_form]. rewrite H.
  cbn [eval loc_of ann_of].
  destruct (eval fe cfg env ctx (explicit_form l) s) as [va s1|]; cbn [rbind]; [|reflexivity].
  destruct (eval fe cfg env ctx (explicit_form r) s1) as [vb s2|]; cbn [rbind]; reflexivity.
Qed.

(* C17_explicit_call: the operator form and the explicit-call form of the same occurrence have the
   same reference semantics: value, state (call trace, allocation count), failure class, location *)
Theorem explicit_call a op l r fn ctx s : ref_overload op l r = Some fn ->
  eval_overloaded fe cfg env ctx (EBinary a op l r) s =
  eval_overloaded fe cfg env ctx (EFunction a fn [l; r] false) s.
Proof.
  intros H. unfold Overload.eval_overloaded. cbn [Overload.explicit_form map]. rewrite H. reflexivity.
Qed.

(* on success: the trace is the operands' traces followed by exactly one call, with the operand
   values in order *)
Theorem overloaded_call_trace a op l r fn ctx s va s1 vb s2 id sg v :
  ref_overload op l r = Some fn ->
  eval_overloaded fe cfg env ctx l s = Done va s1 ->
  eval_overloaded fe cfg env ctx r s1 = Done vb s2 ->
  fetch_fn fe env fn = Ok id -> fn_sig fe id = Some sg ->
  args_ok (s_ins sg) (s_variadic sg) [va; vb] = true ->
  fn_run fe id env [va; vb] = Ok v -> (s_nout sg =? 0)%Z = false ->
  eval_overloaded fe cfg env ctx (EBinary a op l r) s = Done v (log_call s2 id [va; vb]).
Proof.
  intros H Hl Hr Hf Hs Ha Hrun Hn. rewrite (overloaded_binary_sem a op l r fn ctx s H), Hl. cbn [rbind].
  rewrite Hr. cbn [rbind]. rewrite Hf. cbn [lift]. unfold do_call. rewrite Hs, Ha, Hrun, Hn. reflexivity.
Qed.

(* C17_unmatched_keeps_builtin, semantics: an occurrence without matching candidate is the built-in
   operator applied to the (overload-aware) operands *)
Theorem unmatched_sem a op l r ctx s : ref_overload op l r = None ->
  eval_overloaded fe cfg env ctx (EBinary a op l r) s =
  eval fe cfg env ctx (EBinary a op (explicit_form l) (explicit_form r)) s.
Proof. intros H. unfold Overload.eval_overloaded. cbn [Overload.explicit_form]. rewrite H. reflexivity. Qed.
End Semantics.

(* ------------------------------------------------------------------ unmatched occurrences *)
Theorem unmatched_keeps_builtin a op l r :
  match overload_at op l r with FHit _ _ => False | _ => True end ->
  rewrite_one (EBinary a op l r) = EBinary a op l r.
Proof. cbn [Overload.rewrite_one]. destruct (overload_at op l r); intros H; [contradiction|reflexivity|reflexivity]. Qed.

(* a tree without any overloaded occurrence is left as it is *)
Theorem no_occurrence_unchanged : config_check ops = true ->
  forall e, (forall x, In x (preorder e) -> is_overloaded x = false) -> explicit_form e = e.
Proof.
  intros Hcfg e. induction e as [e IH] using expr_children_ind. intros H.
  rewrite explicit_form_children by (apply H; rewrite preorder_eq; left; reflexivity).
  rewrite (map_ext_in' explicit_form (fun x => x) (children e)).
  - rewrite map_id. apply set_children_id.
  - intros c Hc. apply IH; [exact Hc|]. intros x Hx. apply H. rewrite preorder_eq. right.
    apply in_concat. exists (preorder c). split; [apply in_map; exact Hc|exact Hx].
Qed.

(* the explicit-call form is a fixed point: writing the calls out by hand (same annotations)
   gives a tree the patcher leaves alone and that means the same *)
Theorem explicit_form_idempotent e : explicit_form (explicit_form e) = explicit_form e.
Proof.
  induction e as [e IH] using expr_children_ind.
  assert (Hl : forall l, (forall c, In c l -> explicit_form (explicit_form c) = explicit_form c) ->
                         map explicit_form (map explicit_form l) = map explicit_form l).
  { intros l Hl. rewrite map_map. apply map_ext_in'. exact Hl. }
  destruct e; cbn [Overload.explicit_form]; try reflexivity; cbn [children] in IH.
  - (* unary *) rewrite (IH e) by (cbn; auto). reflexivity.
  - (* binary *)
    destruct (ref_overload op e1 e2) eqn:E.
    + cbn [Overload.explicit_form map]. rewrite (IH e1), (IH e2) by (cbn; auto). reflexivity.
    + cbn [Overload.explicit_form]. unfold Overload.ref_overload in *. rewrite !explicit_form_loc, E.
      rewrite (IH e1), (IH e2) by (cbn; auto). reflexivity.
  - (* matches *) rewrite (IH e1), (IH e2) by (cbn; auto). reflexivity.
  - (* property *) rewrite (IH e) by (cbn; auto). reflexivity.
  - (* index *) rewrite (IH e1), (IH e2) by (cbn; auto). reflexivity.
  - (* slice *)
    rewrite (IH e) by (cbn; auto).
    destruct from as [f|], to as [t|]; cbn [option_map opt_list app] in *.
    + rewrite (IH f), (IH t) by (cbn; auto). reflexivity.
    + rewrite (IH f) by (cbn; auto). reflexivity.
    + rewrite (IH t) by (cbn; auto). reflexivity.
    + reflexivity.
  - (* method *)
    rewrite (IH e) by (left; reflexivity).
    rewrite Hl by (intros c Hc; apply IH; right; exact Hc). reflexivity.
  - (* function *) rewrite Hl by exact IH. reflexivity.
  - (* builtin *) rewrite Hl by exact IH. reflexivity.
  - (* closure *) rewrite (IH e) by (cbn; auto). reflexivity.
  - (* conditional *) rewrite (IH e1), (IH e2), (IH e3) by (cbn; auto). reflexivity.
  - (* array *) rewrite Hl by exact IH. reflexivity.
  - (* map *) rewrite Hl by exact IH. reflexivity.
  - (* pair *) rewrite (IH e1), (IH e2) by (cbn; auto). reflexivity.
Qed.

(* ------------------------------------------------------------------ nothing is left for the compiler *)
Lemma explicit_form_children_map e : children (explicit_form e) = map explicit_form (children e).
Proof.
  destruct e; cbn [Overload.explicit_form children map opt_list app]; try reflexivity.
  - destruct (ref_overload op e1 e2); reflexivity.
  - destruct from, to; reflexivity.
Qed.

Lemma explicit_form_not_overloaded e : is_overloaded (explicit_form e) = false.
Proof.
  destruct e; try reflexivity. cbn [Overload.explicit_form].
  destruct (ref_overload op e1 e2) eqn:E; [reflexivity|].
  cbn [Overload.is_overloaded]. unfold Overload.ref_overload in *. rewrite !explicit_form_loc, E. reflexivity.
Qed.

(* after PatchOperators no binary node whose operand types match a candidate remains: the
   compiler never sees an occurrence that was type-checked as an overload *)
Theorem no_occurrence_remains e : exists_node is_overloaded (explicit_form e) = false.
Proof.
  induction e as [e IH] using expr_children_ind.
  rewrite exists_node_eq, explicit_form_not_overloaded, explicit_form_children_map. cbn [orb].
  apply existsb_false_in. intros c Hc. apply in_map_iff in Hc. destruct Hc as (x & <- & Hx).
  apply IH. exact Hx.
Qed.

End Proofs.

(* ------------------------------------------------------------------ Config.Check rejects *)
(* the decidable description of an unusable mapping target, spelled out *)
Definition bad_target (types : ttable) (fn : string) : Prop :=
  tget fn types = None                                                   (* missing member *)
  \/ (exists tg, tget fn types = Some tg /\
        (tg_ty tg = TNilT                                                (* ambiguous member: no type *)
         \/ func_shape (tg_ty tg) = None                                 (* not a function *)
         \/ exists ins outs, func_shape (tg_ty tg) = Some (ins, outs) /\
              (List.length ins <> (if tg_method tg then 3 else 2)        (* wrong number of inputs (receiver counted for methods) *)
               \/ List.length outs <> 1))).                              (* wrong number of results *)

Theorem config_rejects types ops op fns fn :
  In (op, fns) ops -> In fn fns -> bad_target types fn -> config_check types ops = false.
Proof.
  intros Hop Hfn Hbad.
  destruct (config_check types ops) eqn:E; [|reflexivity]. exfalso.
  pose proof (config_check_in types ops fn fns op E Hop Hfn) as Hok.
  unfold check_fn in Hok. destruct Hbad as [Hm|(tg & Hg & Hb)].
  - rewrite Hm in Hok. discriminate.
  - rewrite Hg in Hok. destruct Hb as [Hn|[Hf|(ins & outs & Hs & Hc)]].
    + rewrite Hn in Hok. discriminate.
    + destruct (is_nil_ty (tg_ty tg)); [discriminate|]. rewrite Hf in Hok. discriminate.
    + destruct (is_nil_ty (tg_ty tg)); [discriminate|]. rewrite Hs in Hok.
      destruct (Nat.eqb (List.length ins) (if tg_method tg then 3 else 2)) eqn:E1;
        destruct (Nat.eqb (List.length outs) 1) eqn:E2; try discriminate.
      apply Nat.eqb_eq in E1, E2. destruct Hc; contradiction.
Qed.

(* an ambiguous member (conf.Tag{Ambiguous: true}) is such a target *)
Lemma ambiguous_is_bad types fn : tget fn types = Some amb_tag -> bad_target types fn.
Proof. intros H. right. exists amb_tag. split; [exact H|]. left. reflexivity. Qed.

(* and Compile stops there *)
Theorem compile_rejects implements types ops tyof op fns fn n e :
  In (op, fns) ops -> In fn fns -> bad_target types fn ->
  compile_front implements types ops tyof n e = None.
Proof.
  intros H1 H2 H3. unfold compile_front. rewrite (config_rejects types ops op fns fn H1 H2 H3). reflexivity.
Qed.

(* conversely an accepted configuration names only well-shaped functions, and then neither the
   checker's lookup nor the patcher can panic *)
Theorem config_accepts_well_shaped types ops : config_check types ops = true ->
  forall op fns fn, In (op, fns) ops -> In fn fns -> well_shaped types fn.
Proof.
  intros H op fns fn H1 H2. apply check_fn_ok_iff. exact (config_check_in types ops fn fns op H H1 H2).
Qed.

(* ------------------------------------------------------------------ checker vs patcher: the retyped argument *)
(* FULL STATEMENT one would like: whatever checkFunc does to an argument after visiting it, every
   binary node inside the argument is resolved by the patcher as the checker resolved it. *)
Definition checker_patcher_agree_full_statement : Prop :=
  forall implements types ops tyof arg t a op l r,
    In (EBinary a op l r) (preorder arg) ->
    overload_at implements types ops (retyped tyof arg t) op l r = overload_at implements types ops tyof op l r.

(* carve-out: the argument is not an integer / arithmetic operation, or no integer literal is
   reachable in it (then checkFunc retypes nothing) *)
Definition K_arg_retype (arg : expr) : bool :=
  is_int_or_arith arg && negb (match int_locs arg with [] => true | _ => false end).

Theorem checker_patcher_agree_partial implements types ops tyof arg t op l r :
  K_arg_retype arg = false ->
  overload_at implements types ops (retyped tyof arg t) op l r = overload_at implements types ops tyof op l r.
Proof.
  unfold K_arg_retype, overload_at, retyped. intros H.
  destruct (is_int_or_arith arg); cbn [andb] in *; [|reflexivity].
  destruct (int_locs arg); [|discriminate]. cbn [existsb]. reflexivity.
Qed.

(* (the witnesses of the refuted statements use the universe below) *)
(* ------------------------------------------------------------------ a small concrete universe: witnesses and non-vacuity *)
Module Ex.
Local Open Scope Z_scope.
Definition tMoney := TStruct "Money".
Definition tDur := TNamed "Dur" (TNum KInt64).
Definition tStringer := TNamed "fmt.Stringer" TIface.
Definition tInt := TNum KInt.
Definition tInts := TSlice tInt.
Definition tEnv := TStruct "Env".
Definition fn2 (a b o : ty) : ty := TFunc [a; b] false [o].
Definition plain (t : ty) : tag := mkTag t false false.

Definition types : ttable :=
  [("A", plain tMoney); ("B", plain tMoney); ("D", plain tDur); ("I", plain tInt); ("Ok", plain TBool);
   ("Ms", plain (TSlice tMoney)); ("Xs", plain tInts); ("Ys", plain tInts);
   ("Add", plain (fn2 tMoney tMoney tMoney));
   ("AddInt", plain (fn2 tMoney tInt tMoney));
   ("Concat", plain (fn2 tInts tInts tInts));
   ("Eq", plain (fn2 tStringer tStringer TBool));
   ("EqMD", plain (fn2 tMoney tDur TBool));
   ("MAdd", mkTag (TFunc [tEnv; tMoney; tMoney] false [tMoney]) true false);   (* a method of the environment *)
   ("Id", plain (TFunc [tMoney] false [tMoney]));
   ("N", plain tInt);                                                           (* not a function *)
   ("Amb", amb_tag);                                                            (* ambiguous member *)
   ("MOne", mkTag (TFunc [tEnv; tMoney] false [tMoney]) true false);            (* method with ONE operand: NumIn = 2 *)
   ("Three", plain (TFunc [tMoney; tMoney; tMoney] false [tMoney]));
   ("TwoOut", plain (TFunc [tMoney; tMoney] false [tMoney; TBool]));
   ("NoOut", plain (TFunc [tMoney; tMoney] false []))].

Definition impl (a p : ty) : bool := (ty_eqb a tMoney || ty_eqb a tDur) && ty_eqb p tStringer.

Definition ops : optable := [(BAdd, ["Add"; "AddInt"; "Concat"]); (BEq, ["EqMD"; "Eq"])].
Definition ops_rev : optable := [(BAdd, ["Add"; "AddInt"; "Concat"]); (BEq, ["Eq"; "EqMD"])].
Definition ops_method : optable := [(BAdd, ["MAdd"])].

(* leaves at column c of line 1; the side table gives their static types *)
Definition idt (c : Z) (n : string) : expr := EIdent (at_loc (1, c)) n false.
Definition lit (c z : Z) : expr := EInt (at_loc (1, c)) z.
Definition bin (c : Z) (op : binop) (l r : expr) : expr := EBinary (at_loc (1, c)) op l r.
Definition call (c : Z) (f : string) (l r : expr) : expr := EFunction (at_loc (1, c)) f [l; r] false.

(* static types: columns 0-9 Money, 10-19 int, 20-29 []int, 30-39 Dur, 40-49 []Money, 50- results *)
Definition tyof (p : loc) : ty :=
  let c := snd p in
  if c <? 10 then tMoney else if c <? 20 then tInt else if c <? 30 then tInts else if c <? 40 then tDur
  else if c <? 50 then TSlice tMoney else if c <? 60 then tMoney else if c <? 70 then tInts else TBool.

(* [ (Xs + Ys)[0:1],  (Xs + Ys)[I],  map(Ms, {# + A}),  Id(A + B),  {(A == D): A + 1},
     Ok ? A + B : A + 1,  (A + B) + 1,  I + 1,  A == B ]  — result nodes carry columns 50.. / 60.. / 70.. *)
Definition everywhere : expr :=
  EArray (at_loc (1, 100))
    [ESlice (at_loc (1, 101)) (bin 60 BAdd (idt 20 "Xs") (idt 21 "Ys")) (Some (lit 10 0)) (Some (lit 11 1));
     EIndex (at_loc (1, 102)) (bin 61 BAdd (idt 22 "Xs") (idt 23 "Ys")) (idt 12 "I");
     EBuiltin (at_loc (1, 103)) BiMap [idt 40 "Ms"; EClosure (at_loc (1, 104)) (bin 50 BAdd (EPointer (at_loc (1, 0))) (idt 1 "A"))];
     EFunction (at_loc (1, 105)) "Id" [bin 51 BAdd (idt 2 "A") (idt 3 "B")] false;
     EMap (at_loc (1, 106)) [EPair (at_loc (1, 107)) (bin 70 BEq (idt 4 "A") (idt 30 "D")) (bin 52 BAdd (idt 5 "A") (lit 13 1))];
     ECond (at_loc (1, 108)) (idt 71 "Ok") (bin 53 BAdd (idt 6 "A") (idt 7 "B")) (bin 54 BAdd (idt 8 "A") (lit 14 1));
     bin 55 BAdd (bin 56 BAdd (idt 9 "A") (idt 0 "B")) (lit 15 1);
     bin 16 BAdd (idt 17 "I") (lit 18 1);
     bin 72 BEq (idt 1 "A") (idt 2 "B")].

Definition everywhere_explicit : expr :=
  EArray (at_loc (1, 100))
    [ESlice (at_loc (1, 101)) (call 60 "Concat" (idt 20 "Xs") (idt 21 "Ys")) (Some (lit 10 0)) (Some (lit 11 1));
     EIndex (at_loc (1, 102)) (call 61 "Concat" (idt 22 "Xs") (idt 23 "Ys")) (idt 12 "I");
     EBuiltin (at_loc (1, 103)) BiMap [idt 40 "Ms"; EClosure (at_loc (1, 104)) (call 50 "Add" (EPointer (at_loc (1, 0))) (idt 1 "A"))];
     EFunction (at_loc (1, 105)) "Id" [call 51 "Add" (idt 2 "A") (idt 3 "B")] false;
     EMap (at_loc (1, 106)) [EPair (at_loc (1, 107)) (call 70 "EqMD" (idt 4 "A") (idt 30 "D")) (call 52 "AddInt" (idt 5 "A") (lit 13 1))];
     ECond (at_loc (1, 108)) (idt 71 "Ok") (call 53 "Add" (idt 6 "A") (idt 7 "B")) (call 54 "AddInt" (idt 8 "A") (lit 14 1));
     call 55 "AddInt" (call 56 "Add" (idt 9 "A") (idt 0 "B")) (lit 15 1);
     bin 16 BAdd (idt 17 "I") (lit 18 1);
     call 72 "Eq" (idt 1 "A") (idt 2 "B")].

(* values and functions, to run the trees *)
Definition money (z : Z) : value := VStruct "Money" false [("V", vint z)].
Definition money_v (v : value) : Z := match v with VStruct _ _ [(_, VNum (NInt _ z))] => z | _ => 0 end.
Definition fe : fenv :=
  mkFenv
    (fun id => match id with
               | "Add" => Some (mkSig [tMoney; tMoney] false 1 false)
               | "AddInt" => Some (mkSig [tMoney; tInt] false 1 false)
               | _ => None
               end)
    (fun id _ args => match id, args with
                      | "Add", [x; y] => Ok (money (money_v x + money_v y))
                      | "AddInt", [x; VNum (NInt _ z)] => Ok (money (money_v x + z))
                      | _, _ => Fail EUser
                      end)
    (fun _ _ _ => None) (fun _ _ => None) (fun x _ => x).
Definition env : value :=
  VStruct "Env" false
    [("A", money 1); ("B", money 2); ("I", vint 7);
     ("Add", VFunc "Add" (fn2 tMoney tMoney tMoney)); ("AddInt", VFunc "AddInt" (fn2 tMoney tInt tMoney))].
Definition cfg : config := mkCfg false 1000000.
Definition nested : expr := bin 55 BAdd (bin 56 BAdd (idt 9 "A") (idt 0 "B")) (lit 15 1).
End Ex.

(* the checker resolves `A + 1` (argument of Id(Money)) to AddInt; checkFunc then gives the literal
   the parameter's type Money; the patcher, reading the recorded types, selects Add *)
Theorem checker_patcher_agree_refuted : ~ checker_patcher_agree_full_statement.
Proof.
  intros H.
  specialize (H Ex.impl Ex.types Ex.ops Ex.tyof
                (Ex.bin 52 BAdd (Ex.idt 5 "A") (Ex.lit 13 1)) Ex.tMoney
                (at_loc (1%Z, 52%Z)) BAdd (Ex.idt 5 "A") (Ex.lit 13 1) (or_introl eq_refl)).
  vm_compute in H. discriminate.
Qed.

Example checker_patcher_agree_refuted_witness :
  let arg := Ex.bin 52 BAdd (Ex.idt 5 "A") (Ex.lit 13 1) in
  K_arg_retype arg = true /\
  overload_at Ex.impl Ex.types Ex.ops Ex.tyof BAdd (Ex.idt 5 "A") (Ex.lit 13 1) = FHit Ex.tMoney "AddInt" /\
  overload_at Ex.impl Ex.types Ex.ops (retyped Ex.tyof arg Ex.tMoney) BAdd (Ex.idt 5 "A") (Ex.lit 13 1) = FHit Ex.tMoney "Add".
Proof. vm_compute. repeat split. Qed.

(* ------------------------------------------------------------------ expr.Compile with user visitors (expr.Patch) *)
(* from the first check to the tree handed to the compiler: PatchOperators on the types of the
   first check (tyof1), then the user's visitors (any function g on trees); the second check
   records tyof2 and resolves binary nodes against the overloads again; PatchOperators is NOT
   run again *)
Definition tree_for_compiler implements types ops tyof1 (g : expr -> expr) (n : nat) (e : expr) : option expr :=
  match patch_ops implements types ops tyof1 n e with
  | PDone t => Some (g t)
  | _ => None
  end.

(* FULL STATEMENT: no binary node that the second check types as an overload reaches the compiler *)
Definition visitors_full_statement : Prop :=
  forall implements types ops tyof1 tyof2 g n e t,
    config_check types ops = true -> esize e <= n ->
    tree_for_compiler implements types ops tyof1 g n e = Some t ->
    exists_node (is_overloaded implements types ops tyof2) t = false.

(* without visitors it holds *)
Theorem visitors_partial implements types ops tyof1 n e t :
  config_check types ops = true -> esize e <= n ->
  tree_for_compiler implements types ops tyof1 (fun x => x) n e = Some t ->
  exists_node (is_overloaded implements types ops tyof1) t = false.
Proof.
  intros Hcfg Hn. unfold tree_for_compiler. rewrite (patch_is_explicit_form implements types ops tyof1 Hcfg e n Hn).
  intros H. inversion H. apply no_occurrence_remains.
Qed.

(* witness: `Y + B`, Y unknown at the first check (typed interface{}), a visitor renames Y to A *)
Definition rename_Y (e : expr) : expr :=
  map_tree (fun x => match x with EIdent a "Y" ns => EIdent a "A" ns | _ => x end) e.

Theorem visitors_full_statement_refuted : ~ visitors_full_statement.
Proof.
  intros H.
  specialize (H Ex.impl Ex.types Ex.ops
                (fun p => if (snd p =? 80)%Z then TIface else Ex.tyof p)
                (fun p => if (snd p =? 80)%Z then Ex.tMoney else Ex.tyof p)
                rename_Y 3 (Ex.bin 53 BAdd (Ex.idt 80 "Y") (Ex.idt 7 "B"))
                (Ex.bin 53 BAdd (Ex.idt 80 "A") (Ex.idt 7 "B")) eq_refl).
  assert (Hn : esize (Ex.bin 53 BAdd (Ex.idt 80 "Y") (Ex.idt 7 "B")) <= 3) by (vm_compute; lia).
  specialize (H Hn eq_refl). vm_compute in H. discriminate.
Qed.

(* Ty/Types.v — declared struct types (the part of reflect.Type the library walks) and the
   REFERENCE member-resolution rule of the Go specification.  No proofs here.

   A type environment lists the struct declarations that `TStruct name` refers to.  Method sets
   are the ones Go's reflect reports (exported methods, promoted ones included, each with the
   receiver as first parameter - `reflect.Type.Method(i).Type`): the harness serialises them, the
   model does not recompute promotion. *)
From Coq Require Import Bool List String.
Require Import X.Base.Num X.Base.Value.
Import ListNotations.
Open Scope string_scope.

Record fielddef := mkField {
  fd_name : string;      (* for an embedded field: the type name *)
  fd_ty   : ty;
  fd_anon : bool;        (* reflect.StructField.Anonymous: embedded *)
  fd_exp  : bool         (* exported (PkgPath == "") *)
}.

Record structdef := mkStruct {
  sd_fields : list fielddef;            (* declaration order *)
  sd_vmeths : list (string * ty);       (* method set of T, sorted by name as reflect lists it *)
  sd_pmeths : list (string * ty)        (* method set of *T *)
}.

Definition tenv := list (string * structdef).

Fixpoint lookup_struct (te : tenv) (n : string) : option structdef :=
  match te with
  | [] => None
  | (m, sd) :: r => if String.eqb m n then Some sd else lookup_struct r n
  end.

(* conf.dereference / checker.dereference: strips every pointer layer (nil Type = TNilT stays) *)
Fixpoint dereference (t : ty) : ty :=
  match t with TPtr e => dereference e | _ => t end.

(* ---------- reflect-like accessors ---------- *)
Definition fields_of (te : tenv) (t : ty) : list fielddef :=
  match t with
  | TStruct n => match lookup_struct te n with Some sd => sd_fields sd | None => [] end
  | _ => []
  end.
Definition num_field (te : tenv) (t : ty) : nat := List.length (fields_of te t).
Definition field (te : tenv) (t : ty) (i : nat) : option fielddef := nth_error (fields_of te t) i.

(* reflect.Type.NumMethod/Method(i): T and *T have method sets; other types of the fragment none *)
Definition method_set (te : tenv) (t : ty) : list (string * ty) :=
  match t with
  | TStruct n => match lookup_struct te n with Some sd => sd_vmeths sd | None => [] end
  | TPtr (TStruct n) => match lookup_struct te n with Some sd => sd_pmeths sd | None => [] end
  | _ => []
  end.

Fixpoint assoc {A : Type} (n : string) (l : list (string * A)) : option A :=
  match l with
  | [] => None
  | (m, a) :: r => if String.eqb m n then Some a else assoc n r
  end.

Definition method_by_name (te : tenv) (t : ty) (name : string) : option ty :=
  assoc name (method_set te t).

(* a method value (`v.MethodByName`) has the method's type without the receiver *)
Definition strip_receiver (t : ty) : ty :=
  match t with TFunc (_ :: ins) v outs => TFunc ins v outs | _ => t end.

(* ---------- the Go specification's selector rule (REFERENCE) ----------
   Spec, "Selectors": for x of type T or *T (T a struct type), x.f denotes the field or method at
   the shallowest depth in T where there is such an f; if there is not exactly one f with
   shallowest depth the selector is illegal.  Depth: 0 for what T declares itself, depth in A plus
   one for what an embedded field A of T declares.  Embedded fields are a type name T or *T.
   "Exported identifiers": a name of another package is accessible only when exported.
   Written from the specification; nothing below looks at the library. *)

(* the struct an embedded field promotes from *)
Definition emb_target (f : fielddef) : option string :=
  if fd_anon f then
    match fd_ty f with
    | TStruct n => Some n
    | TPtr (TStruct n) => Some n
    | _ => None
    end
  else None.

Definition is_named (name : string) (f : fielddef) : bool := String.eqb (fd_name f) name.

(* occurrences declared by the struct itself, with their field index (counted from i) *)
Fixpoint own_matches (name : string) (i : nat) (fs : list fielddef) : list (list nat * fielddef) :=
  match fs with
  | [] => []
  | f :: r => ((if is_named name f then [([i], f)] else []) ++ own_matches name (S i) r)%list
  end.

(* occurrences one embedding level further down: sub n = occurrences in embedded struct n *)
Fixpoint emb_collect (sub : string -> list (list nat * fielddef)) (i : nat) (fs : list fielddef)
  : list (list nat * fielddef) :=
  match fs with
  | [] => []
  | f :: r =>
      ((match emb_target f with
       | Some n => map (fun pf => (i :: fst pf, snd pf)) (sub n)
       | None => []
       end) ++ emb_collect sub (S i) r)%list
  end.

(* every field named `name` at depth exactly d of struct sn, with its index path *)
Fixpoint at_depth (te : tenv) (d : nat) (sn : string) (name : string) : list (list nat * fielddef) :=
  match lookup_struct te sn with
  | None => []
  | Some sd =>
      match d with
      | O => own_matches name 0 (sd_fields sd)
      | S d' => emb_collect (fun n => at_depth te d' n name) 0 (sd_fields sd)
      end
  end.

Inductive resolution :=
| RNone                                                  (* no such member *)
| RAmbiguous                                             (* several at the shallowest depth: illegal selector *)
| RField (path : list nat) (t : ty) (exported : bool)    (* x.f is x.A.B.f along path; accessible from outside iff exported *)
| RMethod (t : ty).                                      (* a method of the operand's method set *)

(* shallowest depth first; a declaration of k structs that embeds acyclically has depth < k, and in
   a cyclic one every name already occurs above depth k: searching depths 0..k is exhaustive *)
Fixpoint search_depth (te : tenv) (sn name : string) (d n : nat) : resolution :=
  match n with
  | O => RNone
  | S n' =>
      match at_depth te d sn name with
      | [] => search_depth te sn name (S d) n'
      | [(p, f)] => RField p (fd_ty f) (fd_exp f)
      | _ => RAmbiguous
      end
  end.

Definition go_resolve_field (te : tenv) (sn name : string) : resolution :=
  search_depth te sn name 0 (S (List.length te)).

(* A method is in the (reflect-reported) method set of T exactly when the selector denotes that
   method; otherwise the name can only be a field. *)
Definition go_resolve (te : tenv) (T : ty) (name : string) : resolution :=
  match method_by_name te T name with
  | Some mt => RMethod mt
  | None =>
      match T with
      | TStruct n => go_resolve_field te n name
      | TPtr (TStruct n) => go_resolve_field te n name
      | _ => RNone
      end
  end.

(* ---------- well-formedness of declarations (what the Go compiler guarantees) ---------- *)
Fixpoint nodup_names (l : list string) : bool :=
  match l with
  | [] => true
  | x :: r => negb (existsb (String.eqb x) r) && nodup_names r
  end.

(* t.Kind() looks through a declared name *)
Fixpoint under (t : ty) : ty := match t with TNamed _ u => under u | _ => t end.

(* embedded fields are `T` or `*T` with T a type name that is no pointer.  Fragment: T is a struct,
   or a type without members (an embedded interface or map type would make the library's
   fieldType accept EVERY name through it) *)
Definition emb_shape_ok (f : fielddef) : bool :=
  if fd_anon f then
    match fd_ty f with
    | TStruct _ => true
    | TPtr (TStruct _) => true
    | t => match under (dereference t) with
           | TIface => false
           | TMap _ _ => false
           | TStruct _ => false
           | _ => true
           end
    end
  else true.

Definition wf_struct (sd : structdef) : bool :=
  nodup_names (map fd_name (sd_fields sd)) && forallb emb_shape_ok (sd_fields sd)
  && nodup_names (map fst (sd_vmeths sd)) && nodup_names (map fst (sd_pmeths sd)).

Definition wf_tenv (te : tenv) : bool := forallb (fun e => wf_struct (snd e)) te.

(* Ty/CheckRulesLoops.v — the loops of the interpreter of Ty/CheckRules.v against the list functions of the
   model: `for _, n := range node.F { v.visit(n) }` is CheckProofs.vlist (ArrayNode, MapNode); integer
   facts and the argument loop of checkFunc against CheckProofs.vargs. *)
From Coq Require Import ZArith Bool List String Lia.
Require Import X.Base.Num X.Base.Value X.Syn.Ast X.Sem.Prim X.Ty.Types X.Ty.TypesTable X.Ty.Checker
               X.Ty.CheckProofs X.Ty.CheckRules X.Ty.CheckRulesProofs.
Import ListNotations.
Local Open Scope string_scope.
Local Open Scope list_scope.

(* ------------------------------------------------------------------ list fields of a node *)
Lemma get_set_list e f l l0 : get_list e f = Some l0 -> get_list (set_list e f l) f = Some l.
Proof.
  destruct e; cbn [get_list set_list]; try discriminate;
    match goal with |- context [String.eqb f ?n] => destruct (String.eqb f n) eqn:E end;
    try discriminate; cbn [get_list]; rewrite E; reflexivity.
Qed.

Lemma set_set_list e f l l' : set_list (set_list e f l) f l' = set_list e f l'.
Proof.
  destruct e; cbn [set_list]; try reflexivity;
    match goal with |- context [String.eqb f ?n] => destruct (String.eqb f n) eqn:E end;
    cbn [set_list]; rewrite ?E; reflexivity.
Qed.

Lemma set_list_same e f l : get_list e f = Some l -> set_list e f l = e.
Proof.
  destruct e; cbn [get_list set_list]; try discriminate;
    match goal with |- context [String.eqb f ?n] => destruct (String.eqb f n) eqn:E end;
    try discriminate; intros H; injection H as ->; reflexivity.
Qed.

(* ------------------------------------------------------------------ for _, n := range node.F { v.visit(n) } *)
(* the visits of a list of nodes, one after the other, each in the error state the previous one left *)
Fixpoint seq_ok (c : cconfig) (rec : list ty -> expr -> cst -> option (ty * expr * cst))
    (cols : list ty) (es : list expr) (st : cst) : Prop :=
  match es with
  | [] => True
  | x :: r => rec cols x st = Some (visit c cols x st) /\ seq_ok c rec cols r (snd (visit c cols x st))
  end.

Section VisitLoop.
Variable c : cconfig.
Variable M : sem.
Variable rec : list ty -> expr -> cst -> option (ty * expr * cst).
Variable self : expr.
Variable cp : string -> list gv -> gst -> (res -> res) -> res.
Variable f : string.
Variable v : nat.

Definition visit_body : nat -> gst -> (res -> res) -> res :=
  fun j s1 k1 =>
    exec_list c M rec self cp [SVisit None (GVar v)]
      (bind_var (Some v) (VNode (PIndex f j)) (bind_var None (VZ (Z.of_nat j)) s1))
      (fun o => k1 (end_iteration (g_env s1) o)).

(* the loop variable is new, and going out of scope gives the variables of before *)
Definition loop_scope_ok (en : list (nat * gv)) : Prop :=
  (forall w, upd_var v w en = None) /\
  (forall w, map (fun xv => (fst xv, match lookup_var (fst xv) ((v, w) :: en) with Some u => u | None => snd xv end)) en
             = en).

Lemma visit_loop : forall rest pre pre' en cur cols er k,
  loop_scope_ok en ->
  get_list self f = Some (pre ++ rest) ->
  List.length pre' = List.length pre ->
  get_list cur f = Some (pre' ++ rest) ->
  seq_ok c rec cols rest er ->
  range_loop visit_body (List.length rest) (List.length pre) (mkG en cur cols er) k =
  let '(rest', er') := CheckProofs.vlist c cols rest er in
  k (RNormal (mkG en (set_list cur f (pre' ++ rest')) cols er')).
Proof.
  induction rest as [|x r IH]; intros pre pre' en cur cols er k Hen Hself Hlen Hcur Hrec.
  - cbn [List.length CheckProofs.vlist]. rewrite range_loop_O.
    rewrite (set_list_same _ _ _ Hcur). reflexivity.
  - cbn [List.length CheckProofs.vlist]. rewrite range_loop_S.
    unfold visit_body at 1. rewrite exec_list_cons, exec_visit.
    destruct Hen as [Hupd Hres].
    cbn [eval bind_var set_env g_env]. rewrite Hupd. cbn [lookup_var]. rewrite Nat.eqb_refl.
    cbn [get_node]. rewrite Hself, nth_error_mid.
    cbn [g_cols g_err]. cbn [seq_ok] in Hrec. destruct Hrec as [Hx Hr]. rewrite Hx.
    destruct (visit c cols x er) as [[t x'] er1] eqn:V. cbn [snd] in Hr.
    cbn [set_node g_cur set_cur set_err]. rewrite Hcur, <- Hlen, set_nth_mid.
    cbn [bind_var set_env g_env].
    rewrite exec_list_nil. cbn [end_iteration restore_env g_env set_env]. rewrite Hres.
    rewrite (app_cons_assoc pre x r) in Hself.
    assert (Hlen' : List.length (pre' ++ [x']) = List.length (pre ++ [x])) by (rewrite !length_snoc; lia).
    assert (Hcur' : get_list (set_list cur f (pre' ++ x' :: r)) f = Some ((pre' ++ [x']) ++ r)).
    { rewrite <- app_cons_assoc. eapply get_set_list. exact Hcur. }
    specialize (IH (pre ++ [x]) (pre' ++ [x']) en
                   (set_list cur f (pre' ++ x' :: r)) cols er1 k (conj Hupd Hres) Hself Hlen' Hcur' Hr).
    rewrite length_snoc in IH. rewrite Hlen. rewrite IH.
    destruct (CheckProofs.vlist c cols r er1) as [r' er2].
    rewrite set_set_list, <- app_cons_assoc. reflexivity.
Qed.
End VisitLoop.

(* Ty/TableRulesProofs.v — facts about the interpreter of Ty/TableRules.v that do not depend on the
   regenerated terms: one-step unfolding of every statement form (stated with the top-level
   `exec_list`, so that a symbolic execution never shows the local fixpoint of `exec`), the loop
   drivers as folds, frames.  Used by Bridge/BrTables.v. *)
From Coq Require Import Bool List String Arith Lia.
Require Import X.Ty.Types X.Ty.TypesTable.
Require Import X.Base.Num X.Base.Value X.Syn.Ast X.Walk.Walk X.Ops.Overload X.Ty.TableRules.
Import ListNotations.
Local Open Scope string_scope.

Section Unfold.
Variable W : world.
Variable C : string -> list dval -> res (list dval).

Lemma exec_list_nil : forall s, exec_list W C [] s = ONext s.
Proof. reflexivity. Qed.

Lemma exec_list_cons : forall x rest s,
  exec_list W C (x :: rest) s = match exec W C x s with ONext s' => exec_list W C rest s' | o => o end.
Proof. reflexivity. Qed.

Lemma exec_if : forall c a b s,
  exec W C (SIf c a b) s =
  out_of (eval W C c s) (fun cv =>
    match cv with
    | DBool true => exec_list W C a s
    | DBool false => exec_list W C b s
    | _ => OWrong
    end).
Proof. reflexivity. Qed.

Lemma exec_scope : forall locals body s,
  exec W C (SScope locals body) s =
  match exec_list W C body s with ONext s' => ONext (clear locals s') | o => o end.
Proof. reflexivity. Qed.

(* the case selection of a switch: the first case one of whose labels equals the tag *)
Fixpoint pick_case (v : dval) (cases : list (list gexp * list stmt)) (dflt : list stmt) (s : frame)
  : res (list stmt) :=
  match cases with
  | [] => Got dflt
  | c :: more =>
      rbind (evals W C (fst c) s) (fun labels =>
        (fix any (ls : list dval) : res (list stmt) :=
           match ls with
           | [] => pick_case v more dflt s
           | lb :: lr => rbind (dval_eqb v lb) (fun hit => if hit then Got (snd c) else any lr)
           end) labels)
  end.

Lemma exec_switch : forall e cases dflt s,
  exec W C (SSwitch e cases dflt) s =
  out_of (eval W C e s) (fun v => out_of (pick_case v cases dflt s) (fun body => exec_list W C body s)).
Proof.
  intros e cases dflt s. cbn [exec]. destruct (eval W C e s) as [v| | |]; cbn [out_of]; try reflexivity.
  induction cases as [|c more IH]; cbn [pick_case out_of]; [reflexivity|].
  destruct (evals W C (fst c) s) as [labels| | |]; cbn [out_of rbind]; try reflexivity.
  induction labels as [|lb lr IHl]; [exact IH|].
  destruct (dval_eqb v lb) as [hit| | |]; cbn [out_of rbind]; try reflexivity.
  destruct hit; [reflexivity|exact IHl].
Qed.

Lemma exec_foridx : forall i bound body s,
  exec W C (SForIdx i bound body) s =
  out_of (eval W C bound s) (fun bv =>
    match bv with
    | DNat n => iter (fun x s' => exec_list W C body (upd i (snd x) s')) (map (fun j => (DUnit, DNat j)) (seq 0 n)) s
    | _ => OWrong
    end).
Proof. reflexivity. Qed.

Lemma exec_range : forall k v e body s,
  exec W C (SRange k v e body) s =
  out_of (eval W C e s) (fun cv => out_of (items W cv) (fun xs =>
    iter (fun x s' => exec_list W C body (assign1 v (snd x) (assign1 k (fst x) s'))) xs s)).
Proof. reflexivity. Qed.

Lemma exec_rangeself : forall m k body s,
  exec W C (SRangeSelf m k body) s =
  match get m s with
  | DTab tb => range_self (fun n s' => exec_list W C body (upd k (DStr n) s')) m (w_perm W tb) [] s
  | _ => OWrong
  end.
Proof. reflexivity. Qed.

Lemma exec_assign : forall xs e s,
  exec W C (SAssign xs e) s =
  out_of (eval W C e s) (fun v =>
    match xs with
    | [x] => ONext (assign1 x v s)
    | _ =>
        match v with
        | DTuple vs => match assign_all xs vs s with Some s' => ONext s' | None => OWrong end
        | _ => OWrong
        end
    end).
Proof. reflexivity. Qed.

Lemma exec_setindex : forall x k v s,
  exec W C (SSetIndex x k v) s =
  out_of (eval W C k s) (fun kv => out_of (eval W C v s) (fun vv =>
    match get x s, kv, vv with
    | DTab tb, DStr n, DTag g => ONext (upd x (DTab (tset n g tb)) s)
    | _, _, _ => OWrong
    end)).
Proof. reflexivity. Qed.

Lemma exec_delete : forall x k s,
  exec W C (SDelete x k) s =
  out_of (eval W C k s) (fun kv =>
    match get x s, kv with
    | DTab tb, DStr n => ONext (upd x (DTab (tdel n tb)) s)
    | _, _ => OWrong
    end).
Proof. reflexivity. Qed.

Lemma exec_patch : forall x e s,
  exec W C (SPatch x e) s =
  out_of (eval W C e s) (fun v =>
    match get x s, v with
    | DNode old, DNode new => ONext (upd x (DNode (patch old new)) s)
    | _, _ => OWrong
    end).
Proof. reflexivity. Qed.

Lemma exec_store : forall x e s,
  exec W C (SStore x e) s =
  out_of (eval W C e s) (fun v =>
    match get x s, v with
    | DNode _, DNode new => ONext (upd x (DNode new) s)
    | _, _ => OWrong
    end).
Proof. reflexivity. Qed.

Lemma exec_return : forall es s,
  exec W C (SReturn es) s = out_of (evals W C es s) (fun vs => OReturn vs s).
Proof. reflexivity. Qed.

End Unfold.

Lemma run_S : forall W fns n name args,
  run W fns (S n) name args =
  match find_fn name fns with
  | None => Wrong
  | Some F =>
      if Nat.eqb (List.length args) (f_params F) then
        match exec_list W (callf W fns n) (f_body F) (init_frame F args) with
        | ONext s => Got ([], firstn (f_params F) s)
        | OReturn vs s => Got (vs, firstn (f_params F) s)
        | OPanic => Panics
        | OFuel => NoFuel
        | OWrong => Wrong
        end
      else Wrong
  end.
Proof. reflexivity. Qed.

(* ------------------------------------------------------------------ the loop drivers *)
(* a loop whose body maps an encoded accumulator to an encoded accumulator *)
Lemma iter_fold : forall (A : Type) (enc : A -> frame) (f : A -> dval * dval -> A) step xs a,
  (forall a0 x, In x xs -> step x (enc a0) = ONext (enc (f a0 x))) ->
  iter step xs (enc a) = ONext (enc (fold_left f xs a)).
Proof.
  intros A enc f step xs. induction xs as [|x r IH]; intros a H; [reflexivity|].
  cbn [iter fold_left]. rewrite (H a x (or_introl eq_refl)). apply IH.
  intros a0 y Hy. apply H. right. exact Hy.
Qed.

(* the same over a Go slice given by index: `for i := 0; i < len; i++ { x := l[i] ... }` *)
Lemma iter_idx_fold : forall (A B : Type) (enc : A -> frame) (f : A -> B -> A) step (l : list B) a,
  (forall a0 i x, nth_error l i = Some x -> step (DUnit, DNat i) (enc a0) = ONext (enc (f a0 x))) ->
  iter step (map (fun j => (DUnit, DNat j)) (seq 0 (List.length l))) (enc a) = ONext (enc (fold_left f l a)).
Proof.
  intros A B enc f step l.
  assert (G : forall (l2 : list B) k a,
            (forall a0 i x, nth_error l2 i = Some x -> step (DUnit, DNat (k + i)) (enc a0) = ONext (enc (f a0 x))) ->
            iter step (map (fun j => (DUnit, DNat j)) (seq k (List.length l2))) (enc a) = ONext (enc (fold_left f l2 a))).
  { induction l2 as [|x r IH]; intros k a H; [reflexivity|].
    cbn [List.length seq map iter fold_left].
    pose proof (H a 0 x eq_refl) as H0. rewrite Nat.add_0_r in H0. rewrite H0.
    apply IH. intros a0 i y Hy. replace (S k + i) with (k + S i) by lia. apply H. exact Hy. }
  intros a H. apply (G l 0 a). intros a0 i x Hx. apply H. exact Hx.
Qed.

(* the per-entry update loop: every entry is replaced by the piece the body leaves *)
Lemma range_self_flat : forall (fr : dval -> frame) m step (h : string * tag -> ttable) l acc v0,
  (forall v, get m (fr v) = v) ->
  (forall v v', upd m v (fr v') = fr v) ->
  (forall en, In en l -> step (fst en) (fr (DTab [en])) = ONext (fr (DTab (h en)))) ->
  range_self step m l acc (fr v0) = ONext (fr (DTab (acc ++ flat_map h l)%list)).
Proof.
  intros fr m step h l. induction l as [|en r IH]; intros acc v0 Hg Hu H.
  - cbn [range_self flat_map]. rewrite app_nil_r. rewrite Hu. reflexivity.
  - cbn [range_self flat_map]. rewrite Hu. rewrite (H en (or_introl eq_refl)). rewrite Hg.
    rewrite (IH (acc ++ h en)%list (DTab (h en)) Hg Hu).
    + rewrite <- app_assoc. reflexivity.
    + intros en' Hin. apply H. right. exact Hin.
Qed.

(* ------------------------------------------------------------------ the fragment *)
Lemma plain_kind_ptr : forall t, plain t = true -> is_kind_of t RKPtr = true -> exists e, t = TPtr e.
Proof.
  intros t Hp Hk. destruct t; try discriminate Hk.
  - eexists. reflexivity.
  - cbn [plain] in Hp. apply andb_prop in Hp. destruct Hp as [Hp _].
    unfold is_kind_of in *. cbn [kind_of_ty] in Hk. rewrite Hk in Hp. discriminate Hp.
Qed.

Lemma plain_kind_struct : forall t, plain t = true -> is_kind_of t RKStruct = true -> exists sn, t = TStruct sn.
Proof.
  intros t Hp Hk. destruct t; try discriminate Hk.
  - eexists. reflexivity.
  - cbn [plain] in Hp. apply andb_prop in Hp. destruct Hp as [_ Hp].
    unfold is_kind_of in *. cbn [kind_of_ty] in Hk. rewrite Hk in Hp. discriminate Hp.
Qed.

Lemma plain_deref : forall t, plain t = true -> plain (dereference t) = true.
Proof. induction t; intros H; try exact H. cbn [dereference plain] in *. apply IHt. exact H. Qed.

Lemma lookup_struct_in : forall (te : tenv) sn sd, lookup_struct te sn = Some sd -> exists m, In (m, sd) te.
Proof.
  induction te as [|[m sd'] r IH]; intros sn sd H; [discriminate H|].
  cbn [lookup_struct] in H. destruct (String.eqb m sn).
  - inversion H. subst. exists m. left. reflexivity.
  - destruct (IH _ _ H) as [m' Hm]. exists m'. right. exact Hm.
Qed.

Lemma te_plain_field : forall te sn f, te_plain te = true -> In f (fields_of te (TStruct sn)) ->
  fd_anon f = true -> plain (fd_ty f) = true.
Proof.
  intros te sn f Hte Hin Ha. cbn [fields_of] in Hin.
  destruct (lookup_struct te sn) as [sd|] eqn:E; [|destruct Hin].
  destruct (lookup_struct_in _ _ _ E) as [m Hm].
  unfold te_plain in Hte. rewrite forallb_forall in Hte. specialize (Hte _ Hm). cbn [snd] in Hte.
  rewrite forallb_forall in Hte. specialize (Hte _ Hin). rewrite Ha in Hte. exact Hte.
Qed.

Lemma fold_max_le : forall (fs : list fielddef) f acc, In f fs ->
  ptr_depth (fd_ty f) <= fold_right (fun f acc' => Nat.max (ptr_depth (fd_ty f)) acc') acc fs.
Proof.
  induction fs as [|g r IH]; intros f acc Hin; [destruct Hin|].
  cbn [fold_right]. destruct Hin as [->|Hin]; [lia|]. specialize (IH f acc Hin). lia.
Qed.

Lemma fold_max_acc : forall (fs : list fielddef) acc,
  acc <= fold_right (fun f acc' => Nat.max (ptr_depth (fd_ty f)) acc') acc fs.
Proof. induction fs as [|g r IH]; intros acc; cbn [fold_right]; [lia|]. specialize (IH acc). lia. Qed.

Lemma te_ptr_depth_in : forall (te : tenv) m sd f, In (m, sd) te -> In f (sd_fields sd) ->
  ptr_depth (fd_ty f) <= te_ptr_depth te.
Proof.
  induction te as [|en r IH]; intros m sd f Hin Hf; [destruct Hin|].
  unfold te_ptr_depth. cbn [fold_right]. fold (te_ptr_depth r). destruct Hin as [->|Hin].
  - cbn [snd]. apply fold_max_le. exact Hf.
  - specialize (IH _ _ _ Hin Hf). pose proof (fold_max_acc (sd_fields (snd en)) (te_ptr_depth r)). lia.
Qed.

Lemma te_ptr_depth_field : forall te sn f, In f (fields_of te (TStruct sn)) -> ptr_depth (fd_ty f) <= te_ptr_depth te.
Proof.
  intros te sn f Hin. cbn [fields_of] in Hin.
  destruct (lookup_struct te sn) as [sd|] eqn:E; [|destruct Hin].
  destruct (lookup_struct_in _ _ _ E) as [m Hm]. exact (te_ptr_depth_in _ _ _ _ Hm Hin).
Qed.

(* ------------------------------------------------------------------ frames *)
Lemma upd_upd : forall i v v' s, upd i v (upd i v' s) = upd i v s.
Proof.
  induction i as [|i IH]; intros v v' s; destruct s as [|a r]; cbn [upd]; try reflexivity.
  rewrite IH. reflexivity.
Qed.

Lemma upd_comm : forall i j a b s, i <> j -> upd i a (upd j b s) = upd j b (upd i a s).
Proof.
  induction i as [|i IH]; intros j a b s Hne; destruct s as [|x r]; destruct j as [|j]; cbn [upd]; try reflexivity.
  - exfalso. apply Hne. reflexivity.
  - rewrite IH; [reflexivity|]. intros E. apply Hne. rewrite E. reflexivity.
Qed.

Definition bind2 (k v : option nat) (x : dval * dval) (s : frame) : frame :=
  assign1 v (snd x) (assign1 k (fst x) s).

Lemma bind2_bind2 : forall k v x y s, bind2 k v x (bind2 k v y s) = bind2 k v x s.
Proof.
  intros [k|] [v|] x y s; unfold bind2; cbn [assign1]; try reflexivity; try apply upd_upd.
  destruct (Nat.eq_dec k v) as [->|Hne].
  - rewrite !upd_upd. reflexivity.
  - rewrite (upd_comm k v (fst x)); [|exact Hne]. rewrite !upd_upd. reflexivity.
Qed.

(* ------------------------------------------------------------------ loops at statement level *)
Fixpoint fold_opt {A B : Type} (f : A -> B -> option A) (l : list B) (a : A) : option A :=
  match l with
  | [] => Some a
  | x :: r => match f a x with Some a' => fold_opt f r a' | None => None end
  end.

(* the first element on which the body leaves the loop (return / panic), and how *)
Fixpoint first_out {B : Type} (o : B -> option outcome) (l : list B) : option outcome :=
  match l with
  | [] => None
  | x :: r => match o x with Some out => Some out | None => first_out o r end
  end.

Definition leaves (o : outcome) : Prop := match o with ONext _ => False | _ => True end.

Lemma first_out_leaves : forall (B : Type) (o : B -> option outcome) l out,
  (forall x out0, o x = Some out0 -> leaves out0) -> first_out o l = Some out -> leaves out.
Proof.
  intros B o l out Hl. induction l as [|x r IH]; intros Efo; [discriminate Efo|]. cbn [first_out] in Efo.
  destruct (o x) as [out'|] eqn:Eo; [inversion Efo; subst; exact (Hl x out Eo)|apply IH; exact Efo].
Qed.

Section Loops.
Variable W : world.
Variable C : string -> list dval -> res (list dval).

(* `for k, v := range e { body }` accumulating into an encoded state *)
Lemma scope_range_opt : forall (A : Type) (enc : A -> frame) (f : A -> dval * dval -> option A)
    locs k v e body cv xs a a',
  eval W C e (enc a) = Got cv -> items W cv = Got xs ->
  fold_opt f xs a = Some a' ->
  (forall x a0, clear locs (bind2 k v x (enc a0)) = enc a0) -> (forall a0, clear locs (enc a0) = enc a0) ->
  (forall a0 x a1, In x xs -> f a0 x = Some a1 ->
     exec_list W C body (bind2 k v x (enc a0)) = ONext (bind2 k v x (enc a1))) ->
  exec W C (SScope locs [SRange k v e body]) (enc a) = ONext (enc a').
Proof.
  intros A enc f locs k v e body cv xs a a' He Hi Hf Hc Hc0 Hb.
  rewrite exec_scope, exec_list_cons, exec_range, He. cbn [out_of]. rewrite Hi. cbn [out_of].
  change (fun (x : dval * dval) (s' : frame) => exec_list W C body (assign1 v (snd x) (assign1 k (fst x) s')))
    with (fun (x : dval * dval) (s' : frame) => exec_list W C body (bind2 k v x s')).
  assert (G : forall l a0 a1 (s0 : frame), (forall x, In x l -> In x xs) -> fold_opt f l a0 = Some a1 ->
            (s0 = enc a0 \/ exists y, s0 = bind2 k v y (enc a0)) ->
            exists s1, iter (fun x s' => exec_list W C body (bind2 k v x s')) l s0 = ONext s1
                       /\ (s1 = enc a1 \/ exists y, s1 = bind2 k v y (enc a1))).
  { induction l as [|x r IH]; intros a0 a1 s0 Hsub Hfo Hs0.
    - cbn [fold_opt] in Hfo. inversion Hfo. subst a1. exists s0. split; [reflexivity|exact Hs0].
    - cbn [fold_opt] in Hfo. destruct (f a0 x) as [am|] eqn:Ef; [|discriminate Hfo].
      cbn [iter].
      assert (Hx : bind2 k v x s0 = bind2 k v x (enc a0)).
      { destruct Hs0 as [->|[y ->]]; [reflexivity|apply bind2_bind2]. }
      rewrite Hx. rewrite (Hb a0 x am (Hsub x (or_introl eq_refl)) Ef).
      apply (IH am a1).
      + intros z Hz. apply Hsub. right. exact Hz.
      + exact Hfo.
      + right. exists x. reflexivity. }
  destruct (G xs a a' (enc a) (fun x H => H) Hf (or_introl eq_refl)) as [s1 [Hit Hs1]].
  rewrite Hit. rewrite exec_list_nil. destruct Hs1 as [->|[y ->]]; [rewrite Hc0|rewrite Hc]; reflexivity.
Qed.

(* `for i := 0; i < len(l); i++ { body }`, l a Go slice the body reads by index *)
Lemma scope_foridx_opt : forall (A B : Type) (enc : A -> frame) (f : A -> B -> option A)
    locs i bound body (l : list B) a a',
  eval W C bound (enc a) = Got (DNat (List.length l)) ->
  fold_opt f l a = Some a' ->
  (forall j a0, clear locs (upd i (DNat j) (enc a0)) = enc a0) -> (forall a0, clear locs (enc a0) = enc a0) ->
  (forall a0 j x a1, nth_error l j = Some x -> f a0 x = Some a1 ->
     exec_list W C body (upd i (DNat j) (enc a0)) = ONext (upd i (DNat j) (enc a1))) ->
  exec W C (SScope locs [SForIdx i bound body]) (enc a) = ONext (enc a').
Proof.
  intros A B enc f locs i bound body l a a' He Hf Hc Hc0 Hb.
  rewrite exec_scope, exec_list_cons, exec_foridx, He. cbn [out_of].
  assert (G : forall (l2 : list B) n a0 a1 (s0 : frame),
            (forall j x, nth_error l2 j = Some x -> nth_error l (n + j) = Some x) ->
            fold_opt f l2 a0 = Some a1 ->
            (s0 = enc a0 \/ exists j, s0 = upd i (DNat j) (enc a0)) ->
            exists s1, iter (fun x s' => exec_list W C body (upd i (snd x) s'))
                            (map (fun j => (DUnit, DNat j)) (seq n (List.length l2))) s0 = ONext s1
                       /\ (s1 = enc a1 \/ exists j, s1 = upd i (DNat j) (enc a1))).
  { induction l2 as [|x r IH]; intros n a0 a1 s0 Hsub Hfo Hs0.
    - cbn [fold_opt] in Hfo. inversion Hfo. subst a1. exists s0. split; [reflexivity|exact Hs0].
    - cbn [fold_opt] in Hfo. destruct (f a0 x) as [am|] eqn:Ef; [|discriminate Hfo].
      cbn [List.length seq map iter snd].
      assert (Hx : upd i (DNat n) s0 = upd i (DNat n) (enc a0)).
      { destruct Hs0 as [->|[y ->]]; [reflexivity|apply upd_upd]. }
      rewrite Hx.
      pose proof (Hsub 0 x eq_refl) as H0. rewrite Nat.add_0_r in H0.
      rewrite (Hb a0 n x am H0 Ef).
      apply (IH (S n) am a1).
      + intros j y Hy. replace (S n + j) with (n + S j) by lia. apply Hsub. exact Hy.
      + exact Hfo.
      + right. exists n. reflexivity. }
  destruct (G l 0 a a' (enc a) (fun j x H => H) Hf (or_introl eq_refl)) as [s1 [Hit Hs1]].
  rewrite Hit. rewrite exec_list_nil. destruct Hs1 as [->|[y ->]]; [rewrite Hc0|rewrite Hc]; reflexivity.
Qed.

(* a loop that does not change the frame and may leave the function *)
Lemma scope_range_search : forall (s : frame) (o : dval * dval -> option outcome) locs k v e body cv xs,
  eval W C e s = Got cv -> items W cv = Got xs ->
  (forall x, clear locs (bind2 k v x s) = s) -> clear locs s = s ->
  (forall x out, o x = Some out -> leaves out) ->
  (forall x, In x xs ->
     exec_list W C body (bind2 k v x s) = match o x with Some out => out | None => ONext (bind2 k v x s) end) ->
  exec W C (SScope locs [SRange k v e body]) s = match first_out o xs with Some out => out | None => ONext s end.
Proof.
  intros s o locs k v e body cv xs He Hi Hc Hc0 Hl Hb.
  rewrite exec_scope, exec_list_cons, exec_range, He. cbn [out_of]. rewrite Hi. cbn [out_of].
  change (fun (x : dval * dval) (s' : frame) => exec_list W C body (assign1 v (snd x) (assign1 k (fst x) s')))
    with (fun (x : dval * dval) (s' : frame) => exec_list W C body (bind2 k v x s')).
  assert (G : forall l (s0 : frame), (forall x, In x l -> In x xs) ->
            (s0 = s \/ exists y, s0 = bind2 k v y s) ->
            match first_out o l with
            | Some out => iter (fun x s' => exec_list W C body (bind2 k v x s')) l s0 = out
            | None => exists s1, iter (fun x s' => exec_list W C body (bind2 k v x s')) l s0 = ONext s1
                                 /\ (s1 = s \/ exists y, s1 = bind2 k v y s)
            end).
  { induction l as [|x r IH]; intros s0 Hsub Hs0.
    - cbn [first_out iter]. exists s0. split; [reflexivity|exact Hs0].
    - cbn [first_out iter].
      assert (Hx : bind2 k v x s0 = bind2 k v x s).
      { destruct Hs0 as [->|[y ->]]; [reflexivity|apply bind2_bind2]. }
      rewrite Hx. rewrite (Hb x (Hsub x (or_introl eq_refl))).
      destruct (o x) as [out|] eqn:Eo.
      + pose proof (Hl x out Eo) as Hlv. destruct out; try reflexivity. destruct Hlv.
      + apply IH; [intros z Hz; apply Hsub; right; exact Hz|]. right. exists x. reflexivity. }
  pose proof (G xs s (fun x H => H) (or_introl eq_refl)) as G0.
  destruct (first_out o xs) as [out|] eqn:Efo.
  - rewrite G0. pose proof (first_out_leaves _ o xs out Hl Efo) as Hlv.
    destruct out; try reflexivity. destruct Hlv.
  - destruct G0 as [s1 [Hit Hs1]]. rewrite Hit. rewrite exec_list_nil.
    destruct Hs1 as [->|[y ->]]; [rewrite Hc0|rewrite Hc]; reflexivity.
Qed.

(* `for k := range m { .. m[k] = v .. delete(m, k) .. }` *)
Lemma scope_rangeself_flat : forall (fr : dval -> dval -> frame) locs m k body (h : string * tag -> ttable) tb kv0,
  (forall a b, get m (fr a b) = b) ->
  (forall a b b', upd m b (fr a b') = fr a b) ->
  (forall a a' b, upd k a (fr a' b) = fr a b) ->
  (forall a b, clear locs (fr a b) = fr kv0 b) ->
  (forall en, In en (w_perm W tb) ->
     exec_list W C body (fr (DStr (fst en)) (DTab [en])) = ONext (fr (DStr (fst en)) (DTab (h en)))) ->
  exec W C (SScope locs [SRangeSelf m k body]) (fr kv0 (DTab tb)) = ONext (fr kv0 (DTab (flat_map h (w_perm W tb)))).
Proof.
  intros fr locs m k body h tb kv0 Hg Hum Huk Hc Hb.
  rewrite exec_scope, exec_list_cons, exec_rangeself, Hg.
  assert (G : forall l acc a b, (forall en, In en l -> In en (w_perm W tb)) ->
            exists a', range_self (fun n s' => exec_list W C body (upd k (DStr n) s')) m l acc (fr a b)
                       = ONext (fr a' (DTab (acc ++ flat_map h l)%list))).
  { induction l as [|en r IH]; intros acc a b Hsub.
    - cbn [range_self flat_map]. rewrite app_nil_r, Hum. exists a. reflexivity.
    - cbn [range_self flat_map]. rewrite Hum, Huk. rewrite (Hb en (Hsub en (or_introl eq_refl))). rewrite Hg.
      destruct (IH (acc ++ h en)%list (DStr (fst en)) (DTab (h en))) as [a' Ha'].
      + intros z Hz. apply Hsub. right. exact Hz.
      + exists a'. rewrite Ha'. rewrite <- app_assoc. reflexivity. }
  destruct (G (w_perm W tb) [] kv0 (DTab tb) (fun en H => H)) as [a' Ha']. rewrite Ha'.
  rewrite exec_list_nil, Hc. reflexivity.
Qed.

End Loops.

Lemma fold_opt_total : forall (A B : Type) (f : A -> B -> A) l a, fold_opt (fun a0 x => Some (f a0 x)) l a = Some (fold_left f l a).
Proof. intros A B f l. induction l as [|x r IH]; intros a; [reflexivity|]. cbn [fold_opt fold_left]. apply IH. Qed.

(* ------------------------------------------------------------------ reflect on an abstract type *)
Lemma type_meth_kind : forall W t, is_nil_ty t = false -> type_meth W t "Kind" [] = Got (DKind (kind_of_ty t)).
Proof. intros W t H. unfold type_meth. rewrite H. reflexivity. Qed.

Lemma type_meth_nummethod : forall W t, is_nil_ty t = false ->
  type_meth W t "NumMethod" [] = Got (DNat (List.length (method_set (w_te W) t))).
Proof. intros W t H. unfold type_meth. rewrite H. reflexivity. Qed.

Lemma fold_opt_const : forall (A B : Type) (l : list B) (a : A), fold_opt (fun a0 _ => Some a0) l a = Some a.
Proof. intros A B l. induction l as [|x r IH]; intros a; [reflexivity|]. cbn [fold_opt]. apply IH. Qed.

(* the search loop, with the leaving outcome read off the body itself *)
Definition body_out (W : world) (C : string -> list dval -> res (list dval)) (body : list stmt) (s : frame) : option outcome :=
  match exec_list W C body s with ONext _ => None | out => Some out end.

Lemma scope_range_search_body : forall W C (s : frame) locs k v e body cv xs,
  eval W C e s = Got cv -> items W cv = Got xs ->
  (forall x, clear locs (bind2 k v x s) = s) -> clear locs s = s ->
  (forall x s', In x xs -> exec_list W C body (bind2 k v x s) = ONext s' -> s' = bind2 k v x s) ->
  exec W C (SScope locs [SRange k v e body]) s
  = match first_out (fun x => body_out W C body (bind2 k v x s)) xs with Some out => out | None => ONext s end.
Proof.
  intros W C s locs k v e body cv xs He Hi Hc Hc0 Hn.
  apply (scope_range_search W C s (fun x => body_out W C body (bind2 k v x s)) locs k v e body cv xs He Hi Hc Hc0).
  - intros x out Ho. unfold body_out in Ho. destruct (exec_list W C body (bind2 k v x s)); inversion Ho; exact I.
  - intros x Hx. unfold body_out. destruct (exec_list W C body (bind2 k v x s)) as [s'| | | |] eqn:E; try reflexivity.
    rewrite (Hn x s' Hx E). reflexivity.
Qed.

Lemma is_nil_ty_eq : forall t, is_nil_ty t = true -> t = TNilT.
Proof. intros t H. destruct t; try discriminate H. reflexivity. Qed.

Lemma type_meth_in : forall W t i,
  type_meth W t "In" [DNat i] =
  match func_shape t with
  | Some (ins, _) => match nth_error ins i with Some p => Got (DType p) | None => Panics end
  | None => Panics
  end.
Proof.
  intros W t i. unfold type_meth. destruct (is_nil_ty t) eqn:E; [|reflexivity].
  apply is_nil_ty_eq in E. subst t. reflexivity.
Qed.

Lemma type_meth_out : forall W t i,
  type_meth W t "Out" [DNat i] =
  match func_shape t with
  | Some (_, outs) => match nth_error outs i with Some p => Got (DType p) | None => Panics end
  | None => Panics
  end.
Proof.
  intros W t i. unfold type_meth. destruct (is_nil_ty t) eqn:E; [|reflexivity].
  apply is_nil_ty_eq in E. subst t. reflexivity.
Qed.

Lemma type_meth_numin : forall W t, is_nil_ty t = false ->
  type_meth W t "NumIn" [] = match func_shape t with Some (ins, _) => Got (DNat (List.length ins)) | None => Panics end.
Proof. intros W t H. unfold type_meth. rewrite H. reflexivity. Qed.

Lemma type_meth_numout : forall W t, is_nil_ty t = false ->
  type_meth W t "NumOut" [] = match func_shape t with Some (_, outs) => Got (DNat (List.length outs)) | None => Panics end.
Proof. intros W t H. unfold type_meth. rewrite H. reflexivity. Qed.

Lemma type_meth_implements : forall W t p, is_nil_ty t = false -> is_iface p = true ->
  type_meth W t "Implements" [DType p] = Got (DBool (w_impl W t p)).
Proof. intros W t p H Hi. unfold type_meth. rewrite H. cbn. rewrite Hi. reflexivity. Qed.

(* a search loop whose body either goes on with the frame it got or returns values *)
Fixpoint first_some {B V : Type} (cls : B -> option V) (l : list B) : option V :=
  match l with
  | [] => None
  | x :: r => match cls x with Some v => Some v | None => first_some cls r end
  end.

Lemma scope_range_find : forall W C (s : frame) (cls : dval * dval -> option (list dval)) locs k v e body cv xs,
  eval W C e s = Got cv -> items W cv = Got xs ->
  (forall x, clear locs (bind2 k v x s) = s) -> clear locs s = s ->
  (forall x, In x xs -> exists s', exec_list W C body (bind2 k v x s)
                                   = match cls x with Some vs => OReturn vs s' | None => ONext (bind2 k v x s) end) ->
  exists s', exec W C (SScope locs [SRange k v e body]) s
             = match first_some cls xs with Some vs => OReturn vs s' | None => ONext s end.
Proof.
  intros W C s cls locs k v e body cv xs He Hi Hc Hc0 Hb.
  rewrite (scope_range_search_body W C s locs k v e body cv xs He Hi Hc Hc0).
  - clear He Hi. induction xs as [|x r IH]; [exists []; reflexivity|].
    cbn [first_out first_some]. destruct (Hb x (or_introl eq_refl)) as [s1 H1]. unfold body_out at 1. rewrite H1.
    destruct (cls x) as [vs|].
    + exists s1. reflexivity.
    + apply IH. intros y Hy. apply Hb. right. exact Hy.
  - intros x s' Hx Hex. destruct (Hb x Hx) as [s1 H1]. rewrite H1 in Hex.
    destruct (cls x); inversion Hex. reflexivity.
Qed.

(* Ty/Checker.v — executable hand model of checker.Check (checker/checker.go), of the type
   predicates and helpers of checker/types.go and of conf.FindSuitableOperatorOverload
   (conf/operators_table.go).  No proofs here.

     visitor.visit            -> visit   (type, RE-ANNOTATED tree, first error)
     node.SetType(t)          -> settle  (only the reflect.Kind of t is kept in the tree: it is all
                                          the compiler and the optimizer read of a node's type)
     v.error                  -> fail_at (keeps the first error; the node is typed interface{})
     v.collections            -> cols    (innermost first; pushed for the closure of a builtin)
     setTypeForIntegers       -> set_ints
     isIntegerOrArithmetic... -> is_arith
     combined / typeWeight    -> combined_ty over gen/GenWeights.v (regenerated from checker/types.go)
     fieldType / methodType / isFuncType -> Ty/TypesTable.v (shared with C16)
     Check (expect)           -> check

   A nil reflect.Type is TNilT.  CStuck marks the places where the real code would panic or where
   a generated table is unusable: it never equals an observed verdict. *)
From Coq Require Import ZArith Bool List String.
Require Import X.Base.Num X.Base.Value X.Syn.Ast X.Sem.Prim X.Ty.Types X.Ty.TypesTable X.gen.GenWeights.
Import ListNotations.
Open Scope string_scope.

(* ---------------- configuration (conf.Config as far as Check reads it) ---------------- *)
Record cconfig := mkCC {
  cc_te : tenv;                                   (* struct declarations the types refer to *)
  cc_types : option TypesTable.table;             (* config.Types; None = nil map (no expr.Env) *)
  cc_ops : list (string * list string);           (* config.Operators: operator spelling -> function names *)
  cc_expect : option rkind;                       (* config.Expect; None = reflect.Invalid *)
  cc_strict : bool;                               (* config.Strict *)
  cc_default : option ty                          (* config.DefaultType; None = nil *)
}.

(* families of checker error messages *)
Inductive cerr :=
| CAmbiguous | CUnknownName | CUnknownOp | CMismatch1 | CMismatch2 | CMatches
| CNoField | CBadIndex | CNotIndexable | CSliceIndex | CCannotSlice
| CUnknownFunc | CNoMethod | CNoReturn | CManyReturns | CTooMany | CTooFew | CArgType
| CLenArg | CNotArray | CClosureBool | CClosureShape | CUnknownBuiltin
| CPointerOutside | CPointerNotArray | CNonBoolCond | CExpect | CStuck.

Definition cerr_idx (k : cerr) : Z :=
  match k with
  | CAmbiguous => 0 | CUnknownName => 1 | CUnknownOp => 2 | CMismatch1 => 3 | CMismatch2 => 4 | CMatches => 5
  | CNoField => 6 | CBadIndex => 7 | CNotIndexable => 8 | CSliceIndex => 9 | CCannotSlice => 10
  | CUnknownFunc => 11 | CNoMethod => 12 | CNoReturn => 13 | CManyReturns => 14 | CTooMany => 15 | CTooFew => 16
  | CArgType => 17 | CLenArg => 18 | CNotArray => 19 | CClosureBool => 20 | CClosureShape => 21
  | CUnknownBuiltin => 22 | CPointerOutside => 23 | CPointerNotArray => 24 | CNonBoolCond => 25
  | CExpect => 26 | CStuck => 27
  end%Z.
Definition cerr_eqb (a b : cerr) : bool := Z.eqb (cerr_idx a) (cerr_idx b).

(* v.err: the first error, with the location of the node it was raised at *)
Definition cst := option (loc * cerr).

Definition record (l : loc) (k : cerr) (st : cst) : cst :=
  match st with Some _ => st | None => Some (l, k) end.

(* v.error(node, ...): returns interfaceType *)
Definition fail_at (l : loc) (k : cerr) (st : cst) : ty * cst := (TIface, record l k st).

Definition emit (l : loc) (r : ty + cerr) (st : cst) : ty * cst :=
  match r with inl t => (t, st) | inr k => fail_at l k st end.

(* ---------------- checker/types.go: predicates ---------------- *)
Definition is_nil_ty (t : ty) : bool := match t with TNilT => true | _ => false end.

(* Kind() of dereference(t) *)
Definition dk (t : ty) : rkind := kind_of_ty (dereference t).

Definition is_interface (t : ty) : bool := match dk t with RKInterface => true | _ => false end.
Definition is_integer (t : ty) : bool :=
  match dk t with RKNum k => negb (is_float k) | RKInterface => true | _ => false end.
Definition is_floatt (t : ty) : bool :=
  match dk t with RKNum k => is_float k | RKInterface => true | _ => false end.
Definition is_number (t : ty) : bool := is_integer t || is_floatt t.
Definition is_bool (t : ty) : bool := match dk t with RKBool | RKInterface => true | _ => false end.
Definition is_string (t : ty) : bool := match dk t with RKString | RKInterface => true | _ => false end.
Definition is_array (t : ty) : bool := match dk t with RKSlice | RKInterface => true | _ => false end.
Definition is_map (t : ty) : bool := match dk t with RKMap | RKInterface => true | _ => false end.
Definition is_struct (t : ty) : bool := match dk t with RKStruct => true | _ => false end.
Definition is_func (t : ty) : bool := match dk t with RKFunc => true | _ => false end.

Definition is_comparable (l r : ty) : bool :=
  let l' := dereference l in let r' := dereference r in
  is_nil_ty l' || is_nil_ty r' || rkind_eqb (kind_of_ty l') (kind_of_ty r')
  || is_interface l || is_interface r.

(* indexType *)
Definition index_type (t : ty) : option ty :=
  match under (dereference t) with
  | TIface => Some TIface
  | TMap _ e => Some e
  | TSlice e => Some e
  | _ => None
  end.

(* reflect.Type.Elem() of a slice / map / pointer type; nil stands for the panic of other kinds *)
Definition elem_of (t : ty) : ty :=
  match under t with TSlice e => e | TMap _ e => e | TPtr e => e | _ => TNilT end.

(* typeWeight / combined: the weights and the comparison come from the regenerated table *)
Definition weight_ty (t : ty) : Z := match kind_of_ty t with RKNum k => weight k | _ => 0%Z end.

Definition combined_ty (a b : ty) : option ty :=
  match combined_shape with
  | CombGtThenAElseB => Some (if (weight_ty b <? weight_ty a)%Z then a else b)
  | CombGeThenAElseB => Some (if (weight_ty b <=? weight_ty a)%Z then a else b)
  | CombUnrecognised => None
  end.

Definition comb (a b : ty) : ty + cerr :=
  match combined_ty a b with Some t => inl t | None => inr CStuck end.

(* isIntegerOrArithmeticOperation *)
Definition is_arith (e : expr) : bool :=
  match e with
  | EInt _ _ => true
  | EUnary _ (UPlus | UMinus) _ => true
  | EBinary _ (BAdd | BDiv | BSub | BMul) _ _ => true
  | _ => false
  end.

(* setTypeForIntegers *)
Fixpoint set_ints (e : expr) (t : ty) : expr :=
  match e with
  | EInt a z => EInt (mkAnn (aloc a) (kind_of_ty t)) z
  | EUnary a UPlus x => EUnary a UPlus (set_ints x t)
  | EUnary a UMinus x => EUnary a UMinus (set_ints x t)
  | EBinary a BAdd l r => EBinary a BAdd (set_ints l t) (set_ints r t)
  | EBinary a BDiv l r => EBinary a BDiv (set_ints l t) (set_ints r t)
  | EBinary a BSub l r => EBinary a BSub (set_ints l t) (set_ints r t)
  | EBinary a BMul l r => EBinary a BMul (set_ints l t) (set_ints r t)
  | _ => e
  end.

(* node.SetType(t) *)
Definition settle (e : expr) (t : ty) : expr := set_ann e (mkAnn (loc_of e) (kind_of_ty t)).

(* the operator string the AST stores *)
Definition binop_str (o : binop) : string :=
  match o with
  | BOrWord => "or" | BOrOr => "||" | BAndWord => "and" | BAndAnd => "&&"
  | BEq => "==" | BNe => "!=" | BLt => "<" | BGt => ">" | BGe => ">=" | BLe => "<="
  | BNotIn => "not in" | BIn => "in" | BContains => "contains" | BStartsWith => "startsWith"
  | BEndsWith => "endsWith" | BRange => ".." | BAdd => "+" | BSub => "-" | BMul => "*"
  | BDiv => "/" | BMod => "%" | BPow => "**" | BUnknown s => s
  end.

(* ---------------- conf/operators_table.go ---------------- *)
(* l == argType || (argType.Kind() == Interface && (l == nil || l.Implements(argType)));
   fragment: the only interface type is interface{}, which everything implements *)
Definition arg_fit (a p : ty) : bool :=
  ty_eqb a p || match kind_of_ty p with RKInterface => true | _ => false end.

(* None = the real code panics (function missing from the table / fewer than two parameters) *)
Fixpoint find_overload (tb : TypesTable.table) (fns : list string) (l r : ty) : option (option (ty * string)) :=
  match fns with
  | [] => Some None
  | fn :: rest =>
      match tget fn tb with
      | None => None
      | Some tg =>
          match under (tg_ty tg) with
          | TFunc ins _ outs =>
              let off := if tg_method tg then 1%nat else 0%nat in
              match nth_error ins off, nth_error ins (S off), outs with
              | Some a1, Some a2, o :: _ =>
                  if arg_fit l a1 && arg_fit r a2 then Some (Some (o, fn)) else find_overload tb rest l r
              | _, _, _ => None
              end
          | _ => None
          end
      end
  end.

(* ---------------- per-node typing rules (the decision each visitor method takes once the types
   of the children are known): a type, or the family of the error it reports ---------------- *)
Definition unary_rule (op : unop) (t : ty) : ty + cerr :=
  match op with
  | UNotBang | UNotWord => if is_bool t then inl TBool else inr CMismatch1
  | UPlus | UMinus => if is_number t then inl t else inr CMismatch1
  | UUnknown _ => inr CUnknownOp
  end.

Definition binary_rule (op : binop) (l r : ty) : ty + cerr :=
  match op with
  | BEq | BNe =>
      if (is_number l && is_number r) || is_comparable l r then inl TBool else inr CMismatch2
  | BOrWord | BOrOr | BAndWord | BAndAnd =>
      if is_bool l && is_bool r then inl TBool else inr CMismatch2
  | BIn | BNotIn =>
      if (is_string l && is_struct r) || is_map r || is_array r then inl TBool else inr CMismatch2
  | BLt | BGt | BGe | BLe =>
      if (is_number l && is_number r) || (is_string l && is_string r) then inl TBool else inr CMismatch2
  | BDiv | BSub | BMul =>
      if is_number l && is_number r then comb l r else inr CMismatch2
  | BPow =>
      if is_number l && is_number r then inl (TNum KF64) else inr CMismatch2
  | BMod =>
      if is_integer l && is_integer r then comb l r else inr CMismatch2
  | BAdd =>
      if is_number l && is_number r then comb l r
      else if is_string l && is_string r then inl TString else inr CMismatch2
  | BContains | BStartsWith | BEndsWith =>
      if is_string l && is_string r then inl TBool else inr CMismatch2
  | BRange =>
      if is_integer l && is_integer r then inl (TSlice (TNum KInt)) else inr CMismatch2
  | BUnknown _ => inr CUnknownOp
  end.

Definition matches_rule (l r : ty) : ty + cerr :=
  if is_string l && is_string r then inl TBool else inr CMatches.

Definition index_rule (t i : ty) : ty + cerr :=
  match index_type t with
  | Some e => if negb (is_integer i) && negb (is_string i) then inr CBadIndex else inl e
  | None => inr CNotIndexable
  end.

Definition sliceable (t : ty) : bool :=
  match index_type t with Some _ => true | None => is_string t end.

Definition cond_rule (t1 t2 : ty) : ty :=
  if is_nil_ty t1 && negb (is_nil_ty t2) then t2
  else if negb (is_nil_ty t1) && is_nil_ty t2 then t1
  else if is_nil_ty t1 && is_nil_ty t2 then TNilT
  else if assignable t1 t2 then t1 else TIface.

Definition len_rule (t : ty) : ty + cerr :=
  if is_array t || is_map t || is_string t then inl (TNum KInt) else inr CLenArg.

(* isFunc(closure) && NumOut == 1 && NumIn == 1 && isInterface(In(0)): the result type *)
Definition closure_out (cl : ty) : option ty :=
  match cl with
  | TFunc [i] _ [o] => if is_interface i then Some o else None
  | _ => None
  end.

(* the second half of the builtins with a closure: collection type, closure type *)
Definition closure_rule (b : builtin) (collection cl : ty) : ty + cerr :=
  match closure_out cl with
  | None => inr CClosureShape
  | Some o =>
      match b with
      | BiAll | BiNone | BiAny | BiOne => if is_bool o then inl TBool else inr CClosureBool
      | BiFilter =>
          if is_bool o then
            inl (if is_interface collection then TSlice TIface else TSlice (elem_of collection))
          else inr CClosureBool
      | BiMap => inl (TSlice o)
      | BiCount => if is_bool o then inl (TNum KInt) else inr CClosureBool
      | _ => inr CStuck
      end
  end.

Definition pointer_rule (cols : list ty) : ty + cerr :=
  match cols with
  | [] => inr CPointerOutside
  | c :: _ => match index_type c with Some t => inl t | None => inr CPointerNotArray end
  end.

(* node.Fast of FunctionNode *)
Definition fast_sig (fn : ty) (method : bool) : bool :=
  match fn with
  | TFunc ins true [o] =>
      Nat.eqb (List.length ins) (if method then 2%nat else 1%nat)
      && rkind_eqb (kind_of_ty o) RKInterface
      && match under (last ins TNilT) with
         | TSlice e => rkind_eqb (kind_of_ty e) RKInterface
         | _ => false
         end
  | _ => false
  end.

(* the parameter type argument i is compared with *)
Definition param_ty (ins : list ty) (variadic method : bool) (i : nat) : ty :=
  let nin := (List.length ins - (if method then 1 else 0))%nat in
  if variadic && (nin - 1 <=? i)%nat then
    match index_type (last ins TNilT) with Some e => e | None => TNilT end
  else nth (i + (if method then 1 else 0))%nat ins TNilT.

(* the arity test of checkFunc *)
Definition arity_rule (ins : list ty) (variadic method : bool) (n : nat) : option cerr :=
  let nin := (List.length ins - (if method then 1 else 0))%nat in
  if variadic then (if (n <? nin - 1)%nat then Some CTooFew else None)
  else if (nin <? n)%nat then Some CTooMany
  else if (n <? nin)%nat then Some CTooFew else None.

(* one argument of checkFunc, after it was visited with type t: the tree of the argument and
   whether the call is refused at it *)
Definition arg_rule (a a1 : expr) (t pin : ty) : expr * bool :=
  let t2 := if is_arith a then pin else t in
  let a2 := if is_arith a then set_ints a1 pin else a1 in
  if is_nil_ty t2 then (a2, true)
  else if negb (assignable t2 pin) && negb (rkind_eqb (kind_of_ty t2) RKInterface) then (a2, false)
  else (a2, true).

Definition expect_ok (k : rkind) (t : ty) : bool :=
  match k with
  | RKNum KInt64 | RKNum KF64 => is_number t
  | _ => rkind_eqb (kind_of_ty t) k
  end.

Section Check.
Variable c : cconfig.

Definition te : tenv := cc_te c.
Definition cfuel : nat := fuel0 te.

Definition lookup_name (n : string) : option tag :=
  match cc_types c with Some tb => tget n tb | None => None end.

Definition undefined_ty : ty := match cc_default c with Some d => d | None => TIface end.

Definition ident_rule (name : string) (nilsafe : bool) : ty + cerr :=
  match cc_types c with
  | None => inl TIface
  | Some tb =>
      match tget name tb with
      | Some tg => if tg_amb tg then inr CAmbiguous else inl (tg_ty tg)
      | None =>
          if negb (cc_strict c) then inl undefined_ty
          else if nilsafe then inl TNilT else inr CUnknownName
      end
  end.

Definition property_rule (t : ty) (name : string) (nilsafe : bool) : ty + cerr :=
  match field_type te cfuel t name with
  | LFound ft => inl ft
  | LMissing => if nilsafe then inl TNilT else inr CNoField
  | LFuel => inr CStuck
  end.

(* the callable a method node resolves to: function type (or interface{}) and the method flag *)
Definition method_callee (t : ty) (name : string) : option (ty * bool) :=
  match method_type te cfuel t name with
  | LFound (f, m) => match is_func_type f with Some fn => Some (fn, m) | None => None end
  | _ => None
  end.

Definition function_callee (name : string) : option (ty * bool) :=
  match lookup_name name with
  | Some tg => match is_func_type (tg_ty tg) with Some fn => Some (fn, tg_method tg) | None => None end
  | None => None
  end.

(* operator overloading of BinaryNode: Some (Some t) = an overload fits; None = panic *)
Definition overload (op : binop) (l r : ty) : option (option ty) :=
  match Types.assoc (binop_str op) (cc_ops c) with
  | None => Some None
  | Some fns =>
      match cc_types c with
      | None => match fns with [] => Some None | _ => None end
      | Some tb =>
          match find_overload tb fns l r with
          | Some (Some (t, _)) => Some (Some t)
          | Some None => Some None
          | None => None
          end
      end
  end.

Definition binary_node_rule (op : binop) (l r : ty) : ty + cerr :=
  match overload op l r with
  | None => inr CStuck
  | Some (Some t) => inl t
  | Some None => binary_rule op l r
  end.

(* checkFunc: the loop over the arguments is `vargs`, handed in by visit *)
Definition check_func
    (vargs : (nat -> ty) -> nat -> list expr -> cst -> list expr * cst * bool)
    (fn : ty) (method : bool) (here : loc) (args : list expr) (st : cst) : ty * list expr * cst :=
  match fn with
  | TFunc ins variadic outs =>
      match outs with
      | [] => let '(t, st') := fail_at here CNoReturn st in (t, args, st')
      | [o] =>
          match arity_rule ins variadic method (List.length args) with
          | Some k => let '(t, st') := fail_at here k st in (t, args, st')
          | None =>
              let '(args', st', ok) := vargs (param_ty ins variadic method) 0%nat args st in
              if ok then (o, args', st') else (TIface, args', st')
          end
      | _ => let '(t, st') := fail_at here CManyReturns st in (t, args, st')
      end
  | _ => (TIface, args, st)           (* isInterface(fn): nothing is checked, nothing is visited *)
  end.

Fixpoint visit (cols : list ty) (e : expr) (st : cst) {struct e} : ty * expr * cst :=
  let here := loc_of e in
  let fix vlist (es : list expr) (st : cst) {struct es} : list expr * cst :=
    match es with
    | [] => ([], st)
    | x :: r =>
        let '(_, x', st1) := visit cols x st in
        let '(r', st2) := vlist r st1 in (x' :: r', st2)
    end in
  let fix vargs (pt : nat -> ty) (i : nat) (args : list expr) (st : cst) {struct args} : list expr * cst * bool :=
    match args with
    | [] => ([], st, true)
    | a :: r =>
        let '(t, a1, st1) := visit cols a st in
        let '(a2, ok) := arg_rule a a1 t (pt i) in
        if ok then
          let '(r', st2, ok') := vargs pt (S i) r st1 in (a2 :: r', st2, ok')
        else (a2 :: r, record (loc_of a) CArgType st1, false)
    end in
  let fin (t : ty) (e' : expr) (st' : cst) : ty * expr * cst := (t, settle e' t, st') in
  match e with
  | ENil _ => fin TNilT e st
  | EIdent _ name ns => let '(t, st1) := emit here (ident_rule name ns) st in fin t e st1
  | EInt _ _ => fin (TNum KInt) e st
  | EFloat _ _ => fin (TNum KF64) e st
  | EBool _ _ => fin TBool e st
  | EStr _ _ => fin TString e st
  | EConst _ v => fin (dyn_type v) e st
  | EUnary a op x =>
      let '(t, x', st1) := visit cols x st in
      let '(t', st2) := emit here (unary_rule op t) st1 in
      fin t' (EUnary a op x') st2
  | EBinary a op l r =>
      let '(tl, l', st1) := visit cols l st in
      let '(tr, r', st2) := visit cols r st1 in
      let '(t, st3) := emit here (binary_node_rule op tl tr) st2 in
      fin t (EBinary a op l' r') st3
  | EMatches a re l r =>
      let '(tl, l', st1) := visit cols l st in
      let '(tr, r', st2) := visit cols r st1 in
      let '(t, st3) := emit here (matches_rule tl tr) st2 in
      fin t (EMatches a re l' r') st3
  | EProperty a x name ns =>
      let '(t, x', st1) := visit cols x st in
      let '(t', st2) := emit here (property_rule t name ns) st1 in
      fin t' (EProperty a x' name ns) st2
  | EIndex a x i =>
      let '(t, x', st1) := visit cols x st in
      let '(ti, i', st2) := visit cols i st1 in
      let '(t', st3) := emit here (index_rule t ti) st2 in
      fin t' (EIndex a x' i') st3
  | ESlice a x from to =>
      let '(t, x', st1) := visit cols x st in
      if sliceable t then
        match from with
        | Some f =>
            let '(tf, f', st2) := visit cols f st1 in
            if negb (is_integer tf) then
              let '(t', st3) := fail_at (loc_of f) CSliceIndex st2 in fin t' (ESlice a x' (Some f') to) st3
            else
              match to with
              | Some u =>
                  let '(tu, u', st3) := visit cols u st2 in
                  if negb (is_integer tu) then
                    let '(t', st4) := fail_at (loc_of u) CSliceIndex st3 in fin t' (ESlice a x' (Some f') (Some u')) st4
                  else fin t (ESlice a x' (Some f') (Some u')) st3
              | None => fin t (ESlice a x' (Some f') None) st2
              end
        | None =>
            match to with
            | Some u =>
                let '(tu, u', st3) := visit cols u st1 in
                if negb (is_integer tu) then
                  let '(t', st4) := fail_at (loc_of u) CSliceIndex st3 in fin t' (ESlice a x' None (Some u')) st4
                else fin t (ESlice a x' None (Some u')) st3
            | None => fin t (ESlice a x' None None) st1
            end
        end
      else
        let '(t', st2) := fail_at here CCannotSlice st1 in fin t' (ESlice a x' from to) st2
  | EMethod a x name args ns =>
      let '(t, x', st1) := visit cols x st in
      match method_callee t name with
      | Some (fn, m) =>
          let '(t', args', st2) := check_func vargs fn m here args st1 in
          fin t' (EMethod a x' name args' ns) st2
      | None =>
          if ns then fin TNilT (EMethod a x' name args ns) st1
          else let '(t', st2) := fail_at here CNoMethod st1 in fin t' (EMethod a x' name args ns) st2
      end
  | EFunction a name args fast =>
      match function_callee name with
      | Some (fn, m) =>
          let fast' := fast || fast_sig fn m in
          let '(t', args', st1) := check_func vargs fn m here args st in
          fin t' (EFunction a name args' fast') st1
      | None =>
          if negb (cc_strict c) then fin undefined_ty e st
          else let '(t', st1) := fail_at here CUnknownFunc st in fin t' e st1
      end
  | EBuiltin a b args =>
      match b, args with
      | BiLen, x :: rest =>
          let '(t, x', st1) := visit cols x st in
          let '(t', st2) := emit here (len_rule t) st1 in
          fin t' (EBuiltin a b (x' :: rest)) st2
      | (BiAll | BiNone | BiAny | BiOne | BiFilter | BiMap | BiCount), x :: cl :: rest =>
          let '(t, x', st1) := visit cols x st in
          if negb (is_array t) then
            let '(t', st2) := fail_at (loc_of x) CNotArray st1 in fin t' (EBuiltin a b (x' :: cl :: rest)) st2
          else
            let '(tc, cl', st2) := visit (t :: cols) cl st1 in
            let '(t', st3) := emit (loc_of cl) (closure_rule b t tc) st2 in
            fin t' (EBuiltin a b (x' :: cl' :: rest)) st3
      | BiUnknown _, _ => let '(t', st1) := fail_at here CUnknownBuiltin st in fin t' e st1
      | _, _ => let '(t', st1) := fail_at here CStuck st in fin t' e st1     (* Arguments[i] out of range: panic *)
      end
  | EClosure a x =>
      let '(t, x', st1) := visit cols x st in
      let t0 := if is_nil_ty t then TIface else t in
      fin (TFunc [TIface] false [t0]) (EClosure a x') st1
  | EPointer _ => let '(t, st1) := emit here (pointer_rule cols) st in fin t e st1
  | ECond a cnd x y =>
      let '(tc, cnd', st1) := visit cols cnd st in
      if negb (is_bool tc) then
        let '(t', st2) := fail_at (loc_of cnd) CNonBoolCond st1 in fin t' (ECond a cnd' x y) st2
      else
        let '(t1, x', st2) := visit cols x st1 in
        let '(t2, y', st3) := visit cols y st2 in
        fin (cond_rule t1 t2) (ECond a cnd' x' y') st3
  | EArray a es => let '(es', st1) := vlist es st in fin (TSlice TIface) (EArray a es') st1
  | Ast.EMap a ps => let '(ps', st1) := vlist ps st in fin (TMap TString TIface) (Ast.EMap a ps') st1
  | EPair a k v =>
      let '(_, k', st1) := visit cols k st in
      let '(_, v', st2) := visit cols v st1 in
      fin TNilT (EPair a k' v') st2
  end.

(* checker.Check: the type (nil when the result-kind test fails), the tree, the error *)
Definition check (e : expr) : ty * expr * cst :=
  let '(t, e', st) := visit [] e None in
  match cc_expect c with
  | Some k => if expect_ok k t then (t, e', st) else (TNilT, e', Some (noloc, CExpect))
  | None => (t, e', st)
  end.

End Check.

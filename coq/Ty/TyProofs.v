(* Ty/TyProofs.v — theorems of C16 about the hand model of Ty/TypesTable.v, stated with the
   reference rule go_resolve of Ty/Types.v.  All statements are for every type environment, every
   environment type, every name; recursion over the embedding depth is handled by induction on
   the fuel, and the out-of-fuel outcome is excluded by the decidable hypothesis `fuel_ok`
   (the embedding is acyclic). *)
From Coq Require Import ZArith Bool List String Lia Permutation.
Require Import X.Base.Num X.Base.Value X.Ty.Types X.Ty.TypesTable.
Import ListNotations.
Open Scope string_scope.
Open Scope nat_scope.

(* ------------------------------------------------------------------ small facts *)
Lemma eqb_eq' : forall a b, String.eqb a b = true -> a = b.
Proof. intros a b H. apply String.eqb_eq. exact H. Qed.

Lemma assoc_none {A} : forall n (l : list (string * A)), ~ In n (map fst l) -> assoc n l = None.
Proof.
  induction l as [|[m a] r IH]; intros H; cbn; auto.
  destruct (String.eqb m n) eqn:E.
  - apply eqb_eq' in E. subst. exfalso. apply H. cbn. auto.
  - apply IH. intro. apply H. cbn. auto.
Qed.

Lemma assoc_in {A} : forall n (a : A) l, assoc n l = Some a -> In (n, a) l.
Proof.
  induction l as [|[m b] r IH]; cbn; intros H; try discriminate.
  destruct (String.eqb m n) eqn:E.
  - apply eqb_eq' in E. inversion H. subst. auto.
  - auto.
Qed.

Lemma assoc_some_in_keys {A} : forall n (l : list (string * A)) a, assoc n l = Some a -> In n (map fst l).
Proof. intros. apply assoc_in in H. apply in_map_iff. exists (n, a). auto. Qed.

Lemma assoc_perm {A} : forall (l l' : list (string * A)), Permutation l l' -> NoDup (map fst l) ->
  forall n, assoc n l = assoc n l'.
Proof.
  induction 1; intros ND n; auto.
  - destruct x as [m a]. cbn in *. inversion ND; subst. rewrite IHPermutation; auto.
  - destruct x as [m a], y as [m' a']. cbn in *.
    destruct (String.eqb m' n) eqn:E1, (String.eqb m n) eqn:E2; auto.
    apply eqb_eq' in E1. apply eqb_eq' in E2. subst.
    inversion ND; subst. exfalso. apply H1. cbn. auto.
  - rewrite IHPermutation1; auto. apply IHPermutation2.
    eapply Permutation_NoDup; [|exact ND]. apply Permutation_map. exact H.
Qed.

(* ------------------------------------------------------------------ tables *)
Lemma tget_tdel : forall k n m, tget n (tdel k m) = if String.eqb k n then None else tget n m.
Proof.
  intros k n m. unfold tget, tdel. induction m as [|[x v] r IH]; cbn.
  - destruct (String.eqb k n); auto.
  - destruct (String.eqb x k) eqn:E; cbn.
    + apply eqb_eq' in E. subst x. rewrite IH. destruct (String.eqb k n); auto.
    + rewrite IH. destruct (String.eqb x n) eqn:E2; auto.
      destruct (String.eqb k n) eqn:E3; auto.
      apply eqb_eq' in E2. apply eqb_eq' in E3. subst. rewrite String.eqb_refl in E. discriminate.
Qed.

Lemma tget_tset : forall k v n m, tget n (tset k v m) = if String.eqb k n then Some v else tget n m.
Proof.
  intros. unfold tset. change (tget n ((k, v) :: tdel k m)) with (if String.eqb k n then Some v else tget n (tdel k m)).
  rewrite tget_tdel. destruct (String.eqb k n); auto.
Qed.

Lemma tdel_keys : forall k m x, In x (map fst (tdel k m)) -> In x (map fst m) /\ x <> k.
Proof.
  intros k m x H. unfold tdel in H. apply in_map_iff in H. destruct H as [[y v] [E H]]. cbn in E. subst y.
  apply filter_In in H. destruct H as [H1 H2]. cbn in H2. split.
  - apply in_map_iff. exists (x, v). auto.
  - intro. subst. rewrite String.eqb_refl in H2. discriminate.
Qed.

Lemma tdel_nodup : forall k m, NoDup (map fst m) -> NoDup (map fst (tdel k m)).
Proof.
  intros k m. induction m as [|[x v] r IH]; cbn; intros ND; auto.
  inversion ND; subst. destruct (String.eqb x k); cbn; auto.
  constructor; auto. intro H. apply tdel_keys in H. tauto.
Qed.

Lemma tset_nodup : forall k v m, NoDup (map fst m) -> NoDup (map fst (tset k v m)).
Proof.
  intros. unfold tset. cbn. constructor.
  - intro Hin. apply tdel_keys in Hin. tauto.
  - apply tdel_nodup. auto.
Qed.

Lemma merge_entry_nodup : forall types e, NoDup (map fst types) -> NoDup (map fst (merge_entry types e)).
Proof. intros. unfold merge_entry. destruct (tget (fst e) types); apply tset_nodup; auto. Qed.

Lemma fold_merge_nodup : forall l types, NoDup (map fst types) -> NoDup (map fst (fold_left merge_entry l types)).
Proof. induction l; cbn; intros; auto. apply IHl. apply merge_entry_nodup. auto. Qed.

(* the per-name effect of merging the table of an embedded struct *)
Definition merge1 (sub acc : option tag) : option tag :=
  match sub with
  | None => acc
  | Some tg => match acc with Some _ => Some amb_tag | None => Some tg end
  end.

Lemma fold_merge_get : forall l types n, NoDup (map fst l) ->
  tget n (fold_left merge_entry l types) = merge1 (tget n l) (tget n types).
Proof.
  induction l as [|[k v] r IH]; intros types n ND; cbn [fold_left].
  - reflexivity.
  - inversion ND; subst. rewrite IH; auto.
    change (tget n ((k, v) :: r)) with (if String.eqb k n then Some v else tget n r).
    unfold merge_entry. cbn [fst snd].
    destruct (String.eqb k n) eqn:E.
    + apply eqb_eq' in E. subst k.
      assert (tget n r = None) as -> by (apply assoc_none; auto).
      cbn. destruct (tget n types); rewrite tget_tset, String.eqb_refl; reflexivity.
    + destruct (tget k types); rewrite tget_tset, E; reflexivity.
Qed.

(* ------------------------------------------------------------------ the model, per name *)
Section Proofs.
Variable te : tenv.
Variable perm : table -> table.
Hypothesis Hperm : forall l, Permutation (perm l) l.

Definition name_step (rec : ty -> option tag) (name : string) (acc : option tag) (f : fielddef) : option tag :=
  let acc1 := if fd_anon f then merge1 (rec (fd_ty f)) acc else acc in
  if is_named name f then Some (field_tag f) else acc1.

(* FieldsFromStruct(t)[name], without any table and without any iteration order *)
Fixpoint ffs_old_name (fuel : nat) (t : ty) (name : string) {struct fuel} : option tag :=
  match dereference t with
  | TStruct sn =>
      match fuel with
      | O => None
      | S n => fold_left (name_step (fun ft => ffs_old_name n ft name) name) (fields_of te (TStruct sn)) None
      end
  | _ => None
  end.

Lemma fold_ffs_none : forall rec fs, fold_left (ffs_step perm rec) fs None = None.
Proof. induction fs; cbn; auto. Qed.

(* the per-name effect of the first loop of FieldsFromStruct, for any function R computing the
   tables of the embedded fields and any per-name description r of R *)
Lemma ffs_fold_spec : forall (R : ty -> option table) (r : ty -> string -> option tag),
  (forall t tb, R t = Some tb -> NoDup (map fst tb) /\ forall name, tget name tb = r t name) ->
  forall fs acc tb, fold_left (ffs_step perm R) fs (Some acc) = Some tb -> NoDup (map fst acc) ->
  NoDup (map fst tb) /\
  forall name, tget name tb = fold_left (name_step (fun ft => r ft name) name) fs (tget name acc).
Proof.
  intros R r IH. induction fs as [|f rr IHfs]; intros acc tb H ND; cbn [fold_left] in *.
  - inversion H; subst. auto.
  - unfold ffs_step at 2 in H.
    destruct (fd_anon f) eqn:An.
    + destruct (R (fd_ty f)) as [sub|] eqn:Es.
      * destruct (IH _ _ Es) as [NDs Gs].
        apply IHfs in H.
        -- destruct H as [ND' G]. split; auto. intros name. rewrite G. f_equal.
           unfold name_step. rewrite An, tget_tset. unfold is_named.
           destruct (String.eqb (fd_name f) name); auto.
           rewrite fold_merge_get.
           ++ unfold tget at 1. rewrite (assoc_perm _ _ (Hperm sub)).
              ** fold (tget name sub). rewrite Gs. reflexivity.
              ** eapply Permutation_NoDup; [|exact NDs]. apply Permutation_map. apply Permutation_sym. apply Hperm.
           ++ eapply Permutation_NoDup; [|exact NDs]. apply Permutation_map. apply Permutation_sym. apply Hperm.
        -- apply tset_nodup. apply fold_merge_nodup. auto.
      * rewrite fold_ffs_none in H. discriminate.
    + apply IHfs in H.
      * destruct H as [ND' G]. split; auto. intros name. rewrite G. f_equal.
        unfold name_step. rewrite An, tget_tset. unfold is_named. destruct (String.eqb (fd_name f) name); auto.
      * apply tset_nodup. auto.
Qed.

(* FieldsFromStruct(t)[name] since fix b9d2c0f: a name is collected by the first loop (own field,
   or entry of an embedded field's table) and then resolved by Go's rule (res_tag) *)
Fixpoint ffs_name (fuel : nat) (t : ty) (name : string) {struct fuel} : option tag :=
  match dereference t with
  | TStruct sn =>
      match fuel with
      | O => None
      | S n =>
          match fold_left (name_step (fun ft => ffs_name n ft name) name) (fields_of te (TStruct sn)) None with
          | Some _ => res_tag te sn name
          | None => None
          end
      end
  | _ => None
  end.

Lemma resolve_entries_keys : forall sn tb x, In x (map fst (resolve_entries te sn tb)) -> In x (map fst tb).
Proof.
  induction tb as [|[k v] r IH]; cbn; intros x H; auto.
  rewrite map_app in H. apply in_app_or in H. destruct H as [H|H]; auto.
  destruct (res_tag te sn k); cbn in H; tauto.
Qed.

Lemma resolve_entries_nodup : forall sn tb, NoDup (map fst tb) -> NoDup (map fst (resolve_entries te sn tb)).
Proof.
  induction tb as [|[k v] r IH]; cbn; intros ND; auto.
  inversion ND; subst. destruct (res_tag te sn k); cbn; auto.
  constructor; auto. intro H. apply resolve_entries_keys in H. auto.
Qed.

Lemma resolve_entries_get : forall sn tb name, NoDup (map fst tb) ->
  tget name (resolve_entries te sn tb) = match tget name tb with Some _ => res_tag te sn name | None => None end.
Proof.
  induction tb as [|[k v] r IH]; intros name ND; cbn [resolve_entries flat_map fst]; auto.
  inversion ND; subst. fold (resolve_entries te sn r).
  change (tget name ((k, v) :: r)) with (if String.eqb k name then Some v else tget name r).
  destruct (String.eqb k name) eqn:E.
  - apply eqb_eq' in E. subst k.
    assert (tget name r = None) as Hr by (apply assoc_none; auto).
    destruct (res_tag te sn name) as [tg|] eqn:Rt; cbn [app].
    + unfold tget. cbn. rewrite String.eqb_refl. reflexivity.
    + rewrite IH, Hr; auto.
  - destruct (res_tag te sn k); cbn [app]; [unfold tget; cbn; rewrite E; fold (tget name (resolve_entries te sn r))|]; apply IH; auto.
Qed.

(* FieldsFromStruct is a function of the declarations alone: whatever order the embedded tables
   and the collected names are iterated in, the entry of every name is ffs_name *)
Lemma ffs_spec : forall n t tb, ffs te perm n t = Some tb ->
  NoDup (map fst tb) /\ forall name, tget name tb = ffs_name n t name.
Proof.
  induction n as [|n IH]; intros t tb H; cbn [ffs ffs_name] in *.
  - destruct (dereference t); inversion H; subst; split; try constructor; intros; reflexivity.
  - destruct (dereference t) eqn:D; try (inversion H; subst; split; [constructor|intros; reflexivity]).
    destruct (fold_left (ffs_step perm (ffs te perm n)) (fields_of te (TStruct name)) (Some [])) as [tb0|] eqn:F; [|discriminate].
    inversion H; subst tb. clear H.
    apply (ffs_fold_spec (ffs te perm n) (ffs_name n) IH) in F; [|constructor]. destruct F as [ND0 G0].
    assert (NoDup (map fst (perm tb0))) as NDp.
    { eapply Permutation_NoDup; [|exact ND0]. apply Permutation_map. apply Permutation_sym. apply Hperm. }
    split; [apply resolve_entries_nodup; exact NDp|].
    intros nm. rewrite resolve_entries_get by exact NDp.
    unfold tget at 1. rewrite (assoc_perm _ _ (Hperm tb0)) by exact NDp. fold (tget nm tb0).
    rewrite G0. reflexivity.
Qed.

(* ------------------------------------------------------------------ declarations *)
Hypothesis Hwf : wf_tenv te = true.

Lemma nodup_names_NoDup : forall l, nodup_names l = true -> NoDup l.
Proof.
  induction l as [|x r IH]; cbn; intros H; constructor.
  - apply andb_prop in H. destruct H as [H _]. intro Hin.
    assert (existsb (String.eqb x) r = true) as E.
    { apply existsb_exists. exists x. split; auto. apply String.eqb_refl. }
    rewrite E in H. discriminate.
  - apply IH. apply andb_prop in H. tauto.
Qed.

Lemma lookup_in : forall (l : tenv) sn sd, lookup_struct l sn = Some sd -> exists m, In (m, sd) l.
Proof.
  induction l as [|[m x] r IH]; cbn; intros sn sd H; try discriminate.
  destruct (String.eqb m sn).
  - inversion H; subst. eauto.
  - apply IH in H. destruct H as [m' H]. eauto.
Qed.

Lemma lookup_wf : forall sn sd, lookup_struct te sn = Some sd -> wf_struct sd = true.
Proof.
  intros sn sd H. apply lookup_in in H. destruct H as [m H].
  unfold wf_tenv in Hwf. rewrite forallb_forall in Hwf. apply (Hwf (m, sd)). exact H.
Qed.

Lemma fields_nodup : forall sn, NoDup (map fd_name (fields_of te (TStruct sn))).
Proof.
  intros sn. cbn. destruct (lookup_struct te sn) as [sd|] eqn:E; [|constructor].
  apply lookup_wf in E. unfold wf_struct in E. repeat (apply andb_prop in E; destruct E as [E ?]).
  apply nodup_names_NoDup. exact E.
Qed.

Lemma fields_shape : forall sn f, In f (fields_of te (TStruct sn)) -> emb_shape_ok f = true.
Proof.
  intros sn f. cbn. destruct (lookup_struct te sn) as [sd|] eqn:E; [|intros []].
  apply lookup_wf in E. unfold wf_struct in E. repeat (apply andb_prop in E; destruct E as [E ?]).
  intros Hin. rewrite forallb_forall in H1. auto.
Qed.

Lemma methods_nodup : forall t, NoDup (map fst (method_set te t)).
Proof.
  intros t. unfold method_set. destruct t; try constructor.
  - destruct (lookup_struct te name) as [sd|] eqn:E; [|constructor].
    apply lookup_wf in E. unfold wf_struct in E. repeat (apply andb_prop in E; destruct E as [E ?]).
    apply nodup_names_NoDup. auto.
  - destruct t; try constructor.
    destruct (lookup_struct te name) as [sd|] eqn:E; [|constructor].
    apply lookup_wf in E. unfold wf_struct in E. repeat (apply andb_prop in E; destruct E as [E ?]).
    apply nodup_names_NoDup. auto.
Qed.

Lemma emb_target_some : forall f m, emb_target f = Some m -> fd_anon f = true /\ dereference (fd_ty f) = TStruct m.
Proof.
  intros f m. unfold emb_target. destruct (fd_anon f); try discriminate.
  destruct (fd_ty f) as [| | | | | | | | e | | |]; try discriminate.
  - intros H. inversion H. auto.
  - destruct e; try discriminate. intros H. inversion H. auto.
Qed.

Lemma emb_target_of_deref : forall f m, fd_anon f = true -> emb_shape_ok f = true ->
  dereference (fd_ty f) = TStruct m -> emb_target f = Some m.
Proof.
  intros f m An Sh D. unfold emb_target, emb_shape_ok in *. rewrite An in *.
  destruct (fd_ty f) as [| | | | | | | | e | | |]; cbn in D; try discriminate.
  - inversion D. reflexivity.
  - destruct e; cbn in D; try discriminate;
      try (inversion D; reflexivity);
      try (cbn in Sh; rewrite D in Sh; cbn in Sh; discriminate).
Qed.

Lemma at_depth_0 : forall sn name, at_depth te 0 sn name = own_matches name 0 (fields_of te (TStruct sn)).
Proof. intros. cbn. destruct (lookup_struct te sn); reflexivity. Qed.

Lemma at_depth_S : forall d sn name,
  at_depth te (S d) sn name = emb_collect (fun m => at_depth te d m name) 0 (fields_of te (TStruct sn)).
Proof. intros. cbn. destruct (lookup_struct te sn); reflexivity. Qed.

Lemma own_matches_none : forall name l i, (forall f, In f l -> is_named name f = false) -> own_matches name i l = [].
Proof.
  induction l as [|f r IH]; cbn; intros i H; auto.
  rewrite (H f) by auto. cbn. apply IH. auto.
Qed.

Lemma own_matches_app : forall name l1 l2 i,
  own_matches name i (l1 ++ l2) = (own_matches name i l1 ++ own_matches name (i + List.length l1) l2)%list.
Proof.
  induction l1 as [|f r IH]; cbn; intros l2 i.
  - rewrite Nat.add_0_r. reflexivity.
  - rewrite IH, <- app_assoc. assert (S i + List.length r = i + S (List.length r))%nat as -> by lia. reflexivity.
Qed.

Lemma emb_collect_nil : forall sub l i,
  (forall f m, In f l -> emb_target f = Some m -> sub m = []) -> emb_collect sub i l = [].
Proof.
  induction l as [|f r IH]; cbn; intros i H; auto.
  rewrite IH by eauto. destruct (emb_target f) eqn:E; auto. rewrite (H f s); auto.
Qed.

Lemma emb_collect_app : forall sub l1 l2 i,
  emb_collect sub i (l1 ++ l2) = (emb_collect sub i l1 ++ emb_collect sub (i + List.length l1) l2)%list.
Proof.
  induction l1 as [|f r IH]; cbn; intros l2 i.
  - rewrite Nat.add_0_r. reflexivity.
  - rewrite IH, <- app_assoc. assert (S i + List.length r = i + S (List.length r))%nat as -> by lia. reflexivity.
Qed.

(* ------------------------------------------------------------------ folds over the fields *)
Definition silent (rec : ty -> option tag) (name : string) (l : list fielddef) : Prop :=
  forall f, In f l -> is_named name f = false /\ (fd_anon f = true -> rec (fd_ty f) = None).

Lemma silent_app : forall rec name l1 l2, silent rec name l1 -> silent rec name l2 -> silent rec name (l1 ++ l2).
Proof. intros rec name l1 l2 H1 H2 f Hin. apply in_app_or in Hin. destruct Hin; auto. Qed.

Lemma fold_silent : forall rec name l acc, silent rec name l -> fold_left (name_step rec name) l acc = acc.
Proof.
  induction l as [|f r IH]; cbn; intros acc H; auto.
  destruct (H f) as [H1 H2]; [cbn; auto|].
  rewrite IH by (intros g Hg; apply H; cbn; auto).
  unfold name_step. rewrite H1. destruct (fd_anon f); auto. rewrite H2; auto.
Qed.

Lemma fold_none_inv : forall rec name l acc,
  fold_left (name_step rec name) l acc = None -> acc = None /\ silent rec name l.
Proof.
  induction l as [|f r IH]; cbn; intros acc H.
  - split; auto. intros f [].
  - apply IH in H. destruct H as [H S]. unfold name_step in H.
    destruct (is_named name f) eqn:N; try discriminate.
    destruct (fd_anon f) eqn:An.
    + destruct (rec (fd_ty f)) eqn:R; cbn in H.
      * destruct acc; discriminate.
      * split; auto. intros g [<-|Hg]; auto.
    + split; auto. intros g [<-|Hg]; auto. split; auto. congruence.
Qed.

Lemma name_step_unnamed : forall rec name acc f, is_named name f = false ->
  name_step rec name acc f = if fd_anon f then merge1 (rec (fd_ty f)) acc else acc.
Proof. intros. unfold name_step. rewrite H. reflexivity. Qed.

Lemma silent_cons : forall rec name f l, is_named name f = false -> (fd_anon f = true -> rec (fd_ty f) = None) ->
  silent rec name l -> silent rec name (f :: l).
Proof. intros rec name f l H1 H2 S g [<-|Hg]; auto. Qed.

Lemma silent_nil : forall rec name, silent rec name [].
Proof. intros rec name f []. Qed.

Lemma fold_from_some : forall rec name l x, (forall f, In f l -> is_named name f = false) ->
  (silent rec name l /\ fold_left (name_step rec name) l (Some x) = Some x)
  \/ fold_left (name_step rec name) l (Some x) = Some amb_tag.
Proof.
  induction l as [|f r IH]; intros x H.
  - left. split; [apply silent_nil|reflexivity].
  - cbn [fold_left]. rewrite name_step_unnamed by (apply H; cbn; auto).
    assert (forall g, In g r -> is_named name g = false) as Hr by (intros; apply H; cbn; auto).
    assert (is_named name f = false) as Hf by (apply H; cbn; auto).
    destruct (fd_anon f) eqn:An.
    + destruct (rec (fd_ty f)) eqn:R; cbn [merge1].
      * right. destruct (IH amb_tag Hr) as [[_ E]|E]; exact E.
      * destruct (IH x Hr) as [[S E]|E]; [left|right; exact E]. split; [|exact E].
        apply silent_cons; auto.
    + destruct (IH x Hr) as [[S E]|E]; [left|right; exact E]. split; [|exact E].
      apply silent_cons; auto. congruence.
Qed.

Lemma fold_from_none : forall rec name l, (forall f, In f l -> is_named name f = false) ->
  (silent rec name l /\ fold_left (name_step rec name) l None = None)
  \/ exists l1 e l2 tg, l = (l1 ++ e :: l2)%list /\ silent rec name l1 /\ fd_anon e = true /\ rec (fd_ty e) = Some tg
       /\ fold_left (name_step rec name) l None = fold_left (name_step rec name) l2 (Some tg).
Proof.
  induction l as [|f r IH]; intros H.
  - left. split; [apply silent_nil|reflexivity].
  - cbn [fold_left]. rewrite name_step_unnamed by (apply H; cbn; auto).
    assert (forall g, In g r -> is_named name g = false) as Hr by (intros; apply H; cbn; auto).
    assert (is_named name f = false) as Hf by (apply H; cbn; auto).
    destruct (fd_anon f) eqn:An.
    + destruct (rec (fd_ty f)) eqn:R; cbn [merge1].
      * right. exists [], f, r, t. split; [reflexivity|]. split; [apply silent_nil|]. auto.
      * destruct (IH Hr) as [[S E]|(l1 & e & l2 & tg & E1 & S & A & R' & E2)].
        -- left. split; [|exact E]. apply silent_cons; auto.
        -- right. exists (f :: l1), e, l2, tg. subst r. split; [reflexivity|]. split; [|auto].
           apply silent_cons; auto.
    + destruct (IH Hr) as [[S E]|(l1 & e & l2 & tg & E1 & S & A & R' & E2)].
      * left. split; [|exact E]. apply silent_cons; auto. congruence.
      * right. exists (f :: l1), e, l2, tg. subst r. split; [reflexivity|]. split; [|auto].
        apply silent_cons; auto. congruence.
Qed.

Lemma find_split : forall name fs f0, find (is_named name) fs = Some f0 ->
  exists l1 l2, fs = (l1 ++ f0 :: l2)%list /\ (forall f, In f l1 -> is_named name f = false) /\ is_named name f0 = true.
Proof.
  induction fs as [|f r IH]; cbn; intros f0 H; try discriminate.
  destruct (is_named name f) eqn:N.
  - inversion H; subst. exists [], r. repeat split; auto. intros g [].
  - apply IH in H. destruct H as (l1 & l2 & E & H1 & H2). exists (f :: l1), l2. subst r. repeat split; auto.
    intros g [<-|Hg]; auto.
Qed.

Lemma nodup_app_r {A} : forall (l1 l2 : list A), NoDup (l1 ++ l2) -> NoDup l2.
Proof. induction l1; cbn; intros l2 H; auto. inversion H; auto. Qed.

Lemma named_unique : forall name (l1 l2 : list fielddef) f0, NoDup (map fd_name (l1 ++ f0 :: l2)) -> is_named name f0 = true ->
  forall f, In f l2 -> is_named name f = false.
Proof.
  intros name l1 l2 f0 ND N f Hin. rewrite map_app in ND. apply nodup_app_r in ND. cbn in ND. inversion ND; subst.
  destruct (is_named name f) eqn:N'; auto. exfalso. apply H1.
  unfold is_named in *. apply eqb_eq' in N. apply eqb_eq' in N'. rewrite N, <- N'. apply in_map. auto.
Qed.

Lemma find_none_all : forall name fs, find (is_named name) fs = None -> forall f, In f fs -> is_named name f = false.
Proof. intros name fs H f Hin. apply (find_none _ _ H f Hin). Qed.

(* ------------------------------------------------------------------ FieldsFromStruct vs the selector rule *)
Definition resolves_at (sn name : string) (d : nat) (p : list nat) (f : fielddef) : Prop :=
  at_depth te d sn name = [(p, f)] /\ forall d', d' < d -> at_depth te d' sn name = [].

Lemma ffs_old_name_S : forall n t sn name, dereference t = TStruct sn ->
  ffs_old_name (S n) t name = fold_left (name_step (fun ft => ffs_old_name n ft name) name) (fields_of te (TStruct sn)) None.
Proof. intros. cbn [ffs_old_name]. rewrite H. reflexivity. Qed.

Lemma ffs_old_name_nonstruct : forall n t name, (forall m, dereference t <> TStruct m) -> ffs_old_name n t name = None.
Proof.
  intros n t name H. destruct n; cbn [ffs_old_name]; destruct (dereference t) eqn:D; auto; exfalso; eapply H; eauto.
Qed.

Lemma fuel_ok_S : forall n t sn, dereference t = TStruct sn ->
  fuel_ok te (S n) t = forallb (fun f => if fd_anon f then fuel_ok te n (fd_ty f) else true) (fields_of te (TStruct sn)).
Proof. intros. cbn [fuel_ok]. rewrite H. reflexivity. Qed.

Lemma fuel_ok_0 : forall t sn, dereference t = TStruct sn -> fuel_ok te 0 t = false.
Proof. intros. cbn [fuel_ok]. rewrite H. reflexivity. Qed.

Lemma fuel_ok_field : forall n t sn f, dereference t = TStruct sn -> fuel_ok te (S n) t = true ->
  In f (fields_of te (TStruct sn)) -> fd_anon f = true -> fuel_ok te n (fd_ty f) = true.
Proof.
  intros n t sn f D H Hin An. rewrite (fuel_ok_S n t sn D) in H. rewrite forallb_forall in H.
  specialize (H f Hin). rewrite An in H. exact H.
Qed.

Lemma ffs_old_name_none_depth : forall n t sn name, fuel_ok te n t = true -> dereference t = TStruct sn ->
  ffs_old_name n t name = None -> forall d, at_depth te d sn name = [].
Proof.
  induction n as [|n IH]; intros t sn name Hf D H d.
  - rewrite (fuel_ok_0 t sn D) in Hf. discriminate.
  - rewrite (ffs_old_name_S n t sn name D) in H. apply fold_none_inv in H. destruct H as [_ Hs].
    destruct d.
    + rewrite at_depth_0. apply own_matches_none. intros f Hin. apply Hs. exact Hin.
    + rewrite at_depth_S. apply emb_collect_nil. intros f m Hin E.
      apply emb_target_some in E. destruct E as [An Dm].
      apply (IH (fd_ty f) m name); auto.
      * apply (fuel_ok_field n t sn f D Hf Hin An).
      * apply Hs; auto.
Qed.

Lemma silent_depth : forall n t sn name l, dereference t = TStruct sn -> fuel_ok te (S n) t = true ->
  (forall f, In f l -> In f (fields_of te (TStruct sn))) ->
  silent (fun ft => ffs_old_name n ft name) name l ->
  forall f m d, In f l -> emb_target f = Some m -> at_depth te d m name = [].
Proof.
  intros n t sn name l D Hf Hsub Hs f m d Hin E.
  apply emb_target_some in E. destruct E as [An Dm].
  apply (ffs_old_name_none_depth n (fd_ty f) m name); auto.
  - apply (fuel_ok_field n t sn f D Hf (Hsub f Hin) An).
  - apply (Hs f Hin); auto.
Qed.

(* a struct none of whose own fields is called `name` and with exactly one embedded field e
   (at index |l1|) under which `name` occurs *)
Lemma at_depth_single : forall sn name l1 e l2 m,
  fields_of te (TStruct sn) = (l1 ++ e :: l2)%list ->
  (forall f, In f (l1 ++ e :: l2) -> is_named name f = false) ->
  emb_target e = Some m ->
  (forall f m' d, In f (l1 ++ l2) -> emb_target f = Some m' -> at_depth te d m' name = []) ->
  at_depth te 0 sn name = [] /\
  forall d, at_depth te (S d) sn name = map (fun pf => (List.length l1 :: fst pf, snd pf)) (at_depth te d m name).
Proof.
  intros sn name l1 e l2 m E Hn Em Hs. split.
  - rewrite at_depth_0, E. apply own_matches_none. exact Hn.
  - intros d. rewrite at_depth_S, E. rewrite emb_collect_app. cbn [emb_collect]. rewrite Em.
    rewrite (emb_collect_nil _ l1), (emb_collect_nil _ l2).
    + cbn. rewrite app_nil_r. reflexivity.
    + intros f m' Hin E'. apply (Hs f m' d); auto. apply in_or_app. auto.
    + intros f m' Hin E'. apply (Hs f m' d); auto. apply in_or_app. auto.
Qed.

Lemma own_single : forall sn name l1 f0 l2,
  fields_of te (TStruct sn) = (l1 ++ f0 :: l2)%list ->
  (forall f, In f l1 -> is_named name f = false) -> is_named name f0 = true ->
  at_depth te 0 sn name = [([List.length l1], f0)].
Proof.
  intros sn name l1 f0 l2 E H1 H0.
  assert (forall f, In f l2 -> is_named name f = false) as H2.
  { eapply named_unique; eauto. rewrite <- E. apply fields_nodup. }
  rewrite at_depth_0, E, own_matches_app. cbn [own_matches]. rewrite H0.
  rewrite (own_matches_none name l1), (own_matches_none name l2); auto.
Qed.

Lemma ffs_old_name_sound : forall n t sn name tg, fuel_ok te n t = true -> dereference t = TStruct sn ->
  ffs_old_name n t name = Some tg -> tg_amb tg = false ->
  exists d p f, resolves_at sn name d p f /\ tg = field_tag f /\ d < n.
Proof.
  induction n as [|n IH]; intros t sn name tg Hf D H Na.
  - rewrite (fuel_ok_0 t sn D) in Hf. discriminate.
  - rewrite (ffs_old_name_S n t sn name D) in H.
    set (rec := fun ft => ffs_old_name n ft name) in *.
    destruct (find (is_named name) (fields_of te (TStruct sn))) as [f0|] eqn:F.
    + destruct (find_split _ _ _ F) as (l1 & l2 & E & H1 & H0).
      assert (forall f, In f l2 -> is_named name f = false) as H2.
      { eapply named_unique; eauto. rewrite <- E. apply fields_nodup. }
      rewrite E, fold_left_app in H. cbn [fold_left] in H.
      unfold name_step at 2 in H. rewrite H0 in H.
      destruct (fold_from_some rec name l2 (field_tag f0) H2) as [[_ E2]|E2]; rewrite E2 in H; inversion H; subst tg.
      * clear H. exists 0, [List.length l1], f0. split; [|split; [reflexivity|lia]].
        split; [eapply own_single; eauto|intros; lia].
      * discriminate.
    + pose proof (find_none_all _ _ F) as Hn.
      destruct (fold_from_none rec name _ Hn) as [[_ E0]|(l1 & e & l2 & tg' & E & S1 & An & R & E2)].
      * rewrite E0 in H. discriminate.
      * rewrite E2 in H.
        assert (forall f, In f l2 -> is_named name f = false) as Hn2.
        { intros f Hin. apply Hn. rewrite E. apply in_or_app. right. cbn. auto. }
        destruct (fold_from_some rec name l2 tg' Hn2) as [[S2 E3]|E3]; rewrite E3 in H; inversion H;
          [subst tg'|subst tg; discriminate].
        assert (In e (fields_of te (TStruct sn))) as Hine by (rewrite E; apply in_or_app; cbn; auto).
        assert (exists m, dereference (fd_ty e) = TStruct m) as [m Dm].
        { destruct (dereference (fd_ty e)) eqn:De; eauto;
            unfold rec in R; rewrite ffs_old_name_nonstruct in R; try discriminate; intros m0 Hm; rewrite De in Hm; discriminate. }
        pose proof (emb_target_of_deref e m An (fields_shape sn e Hine) Dm) as Em.
        pose proof (fuel_ok_field n t sn e D Hf Hine An) as Hfe.
        destruct (IH (fd_ty e) m name tg Hfe Dm R Na) as (d & p & f & [Ra Rb] & Etg & Hd).
        assert (forall f m' d, In f (l1 ++ l2) -> emb_target f = Some m' -> at_depth te d m' name = []) as Hs.
        { intros g m' d' Hin Eg. apply in_app_or in Hin. destruct Hin as [Hin|Hin].
          - eapply (silent_depth n t sn name l1); eauto. intros x Hx. rewrite E. apply in_or_app. auto.
          - eapply (silent_depth n t sn name l2); eauto. intros x Hx. rewrite E. apply in_or_app. cbn. auto. }
        rewrite E in Hn.
        destruct (at_depth_single sn name l1 e l2 m E Hn Em Hs) as [A0 AS].
        exists (S d), (List.length l1 :: p), f. split; [|split; [exact Etg|lia]].
        split.
        -- rewrite AS, Ra. reflexivity.
        -- intros d' Hd'. destruct d'; [exact A0|]. rewrite AS, Rb; [reflexivity|lia].
Qed.

(* ---- the search of go_resolve_field ---- *)
Lemma search_found : forall sn name d p f, resolves_at sn name d p f ->
  forall k d0, d0 <= d -> d - d0 < k -> search_depth te sn name d0 k = RField p (fd_ty f) (fd_exp f).
Proof.
  intros sn name d p f [Ra Rb]. induction k as [|k IH]; intros d0 H1 H2; [lia|].
  cbn [search_depth]. destruct (Nat.eq_dec d0 d) as [->|Hne].
  - rewrite Ra. reflexivity.
  - rewrite Rb by lia. apply IH; lia.
Qed.

Lemma search_none : forall sn name, (forall d, at_depth te d sn name = []) -> forall k d0, search_depth te sn name d0 k = RNone.
Proof. intros sn name H. induction k; intros d0; cbn [search_depth]; auto. rewrite H. apply IHk. Qed.

Lemma search_inv : forall sn name k d0 p t ex, search_depth te sn name d0 k = RField p t ex ->
  exists d f, at_depth te d sn name = [(p, f)] /\ t = fd_ty f /\ ex = fd_exp f /\ d0 <= d /\ d < d0 + k
              /\ forall d', d0 <= d' -> d' < d -> at_depth te d' sn name = [].
Proof.
  intros sn name. induction k as [|k IH]; intros d0 p t ex H; cbn [search_depth] in H; try discriminate.
  destruct (at_depth te d0 sn name) as [|[p1 f1] [|x r]] eqn:A; try discriminate.
  - apply IH in H. destruct H as (d & f & H1 & H2 & H3 & H4 & H5 & H6).
    exists d, f. repeat split; auto; try lia.
    intros d' Ha Hb. destruct (Nat.eq_dec d' d0) as [->|]; auto. apply H6; lia.
  - inversion H; subst. exists d0, f1. repeat split; auto; try lia.
Qed.

Lemma search_not_method : forall sn name k d0 t, search_depth te sn name d0 k <> RMethod t.
Proof.
  intros sn name. induction k as [|k IH]; intros d0 t; cbn [search_depth]; [discriminate|].
  destruct (at_depth te d0 sn name) as [|[p1 f1] [|x r]]; try discriminate. apply IH.
Qed.

Lemma resolves_unique : forall sn name d1 p1 f1 d2 p2 f2,
  resolves_at sn name d1 p1 f1 -> resolves_at sn name d2 p2 f2 -> p1 = p2 /\ f1 = f2.
Proof.
  intros sn name d1 p1 f1 d2 p2 f2 [A1 B1] [A2 B2].
  destruct (Nat.lt_total d1 d2) as [H|[H|H]].
  - rewrite (B2 d1 H) in A1. discriminate.
  - subst. rewrite A1 in A2. inversion A2. auto.
  - rewrite (B1 d2 H) in A2. discriminate.
Qed.

(* ------------------------------------------------------------------ populated values *)
Definition conforms (v : value) (t : ty) : Prop := kind_of_ty t = RKInterface \/ dyn_ty v = t.

Lemma zero_num_kind : forall k, num_kind (zero_num k) = k.
Proof. intros k. unfold zero_num. destruct (is_float k); reflexivity. Qed.

Lemma dyn_shallow : forall t, conforms (shallow t) t.
Proof.
  unfold conforms. induction t; cbn; auto.
  - right. rewrite zero_num_kind. reflexivity.
  - right. destruct t; reflexivity.
  - destruct IHt as [H|H]; auto. right. rewrite H. reflexivity.
Qed.

Lemma dyn_populate : forall keys k t, conforms (populate te keys k t) t.
Proof.
  unfold conforms. induction k as [|k IH]; intros t.
  - apply dyn_shallow.
  - destruct t; try apply dyn_shallow.
    + cbn [populate]. destruct t1; try apply dyn_shallow; try (right; reflexivity).
    + cbn [populate]. destruct t; try apply dyn_shallow; try (right; reflexivity).
    + cbn [populate]. destruct (IH t) as [H|H]; cbn; auto. right. rewrite H. reflexivity.
Qed.

Definition pop_fields (keys : list string) (k : nat) (sn : string) : list (string * value) :=
  map (fun f => (fd_name f, populate te keys k (fd_ty f))) (fields_of te (TStruct sn)).

Lemma own_matches_in : forall name fs i p f, In (p, f) (own_matches name i fs) ->
  exists j, p = [i + j] /\ nth_error fs j = Some f.
Proof.
  induction fs as [|g r IH]; cbn; intros i p f H; [tauto|].
  apply in_app_or in H. destruct H as [H|H].
  - destruct (is_named name g); [|destruct H]. destruct H as [H|[]]. inversion H; subst.
    exists 0. split; [f_equal; lia|reflexivity].
  - apply IH in H. destruct H as (j & -> & H). exists (S j). split; [f_equal; lia|exact H].
Qed.

Lemma emb_collect_in : forall sub fs i p f, In (p, f) (emb_collect sub i fs) ->
  exists j e m p', p = (i + j) :: p' /\ nth_error fs j = Some e /\ emb_target e = Some m /\ In (p', f) (sub m).
Proof.
  induction fs as [|g r IH]; cbn; intros i p f H; [tauto|].
  apply in_app_or in H. destruct H as [H|H].
  - destruct (emb_target g) as [m|] eqn:E; [|destruct H].
    apply in_map_iff in H. destruct H as ([p' f'] & H1 & H2). cbn in H1. inversion H1; subst.
    exists 0, g, m, p'. repeat split; auto. f_equal. lia.
  - apply IH in H. destruct H as (j & e & m & p' & -> & H1 & H2 & H3).
    exists (S j), e, m, p'. repeat split; auto. f_equal. lia.
Qed.

Lemma emb_target_ty : forall e m, emb_target e = Some m -> fd_ty e = TStruct m \/ fd_ty e = TPtr (TStruct m).
Proof.
  intros e m. unfold emb_target. destruct (fd_anon e); try discriminate.
  destruct (fd_ty e) as [| | | | | | | | x | | |]; try discriminate.
  - intros H. inversion H. auto.
  - destruct x; try discriminate. intros H. inversion H. auto.
Qed.

(* reflect.Value.FieldByIndex along a path of the reference rule reaches the populated field *)
Lemma nav_at_depth : forall keys d sn name p f b k, In (p, f) (at_depth te d sn name) -> d <= k ->
  nav (VStruct sn b (pop_fields keys k sn)) p = Ok (populate te keys (k - d) (fd_ty f)).
Proof.
  induction d as [|d IH]; intros sn name p f b k Hin Hk.
  - rewrite at_depth_0 in Hin. apply own_matches_in in Hin. destruct Hin as (j & -> & Hn).
    cbn [nav Nat.add]. unfold pop_fields. rewrite (map_nth_error _ _ _ Hn). cbn. rewrite Nat.sub_0_r. reflexivity.
  - rewrite at_depth_S in Hin. apply emb_collect_in in Hin. destruct Hin as (j & e & m & p' & -> & Hn & Em & Hin).
    cbn [nav Nat.add]. unfold pop_fields at 1. rewrite (map_nth_error _ _ _ Hn).
    destruct k as [|k]; [lia|].
    replace (S k - S d) with (k - d) by lia.
    destruct (emb_target_ty e m Em) as [E|E]; rewrite E; cbn [populate]; apply (IH m name p' f _ k Hin); lia.
Qed.

Definition step_unexported (sn name : string) : bool :=
  match go_resolve_field te sn name with RField _ _ false => true | _ => false end.

Lemma fetch_struct : forall keys sn name d p f b k, resolves_at sn name d p f -> fd_exp f = true ->
  d < fuel0 te -> d <= k ->
  fetch te (VStruct sn b (pop_fields keys k sn)) name = Ok (populate te keys (k - d) (fd_ty f)).
Proof.
  intros keys sn name d p f b k R Ex Hd Hk.
  unfold fetch, unname, rt_field_by_name, go_resolve_field.
  rewrite (search_found sn name d p f R) by (unfold fuel0 in Hd; lia).
  rewrite (nav_at_depth keys d sn name p f b k); auto.
  - rewrite Ex. reflexivity.
  - destruct R as [R _]. rewrite R. cbn. auto.
Qed.

Lemma add_methods_get : forall ms tb name, NoDup (map fst ms) ->
  tget name (add_methods ms tb) = match assoc name ms with Some mt => Some (method_tag mt) | None => tget name tb end.
Proof.
  unfold add_methods. induction ms as [|[m t] r IH]; intros tb name ND; cbn [fold_left assoc]; auto.
  inversion ND; subst. rewrite IH by auto. cbn [fst snd]. rewrite tget_tset.
  destruct (String.eqb m name) eqn:E.
  - apply eqb_eq' in E. subst. rewrite assoc_none; auto.
  - reflexivity.
Qed.

Lemma populate_structish : forall keys k T sn, T = TStruct sn \/ T = TPtr (TStruct sn) ->
  exists b, populate te keys (S k) T = VStruct sn b (pop_fields keys k sn).
Proof. intros keys k T sn [->| ->]; eexists; reflexivity. Qed.

(* ---- identifier position, struct environments ---- *)
(* ---- the fixed FieldsFromStruct (b9d2c0f) against the selector rule ---- *)
Lemma ffs_name_S : forall n t sn name, dereference t = TStruct sn ->
  ffs_name (S n) t name =
  match fold_left (name_step (fun ft => ffs_name n ft name) name) (fields_of te (TStruct sn)) None with
  | Some _ => res_tag te sn name
  | None => None
  end.
Proof. intros. cbn [ffs_name]. rewrite H. reflexivity. Qed.

Lemma res_tag_field : forall sn name tg, res_tag te sn name = Some tg -> tg_amb tg = false ->
  exists d p f, resolves_at sn name d p f /\ tg = field_tag f /\ fd_exp f = true /\ d < fuel0 te.
Proof.
  intros sn name tg H A. unfold res_tag, go_resolve_field in H.
  destruct (search_depth te sn name 0 (S (List.length te))) as [| |p t [|]|mt] eqn:G;
    try (inversion H; subst tg; discriminate).
  inversion H; subst tg. apply search_inv in G. destruct G as (d & f & Ha & -> & Ex & _ & Hlt & Hmin).
  exists d, p, f. split; [split; [exact Ha|intros; apply Hmin; lia]|]. split; [reflexivity|]. split; [auto|unfold fuel0; lia].
Qed.

(* soundness of a table entry, now without any carve-out: a non-ambiguous entry IS Go's field,
   and that field is exported *)
Lemma ffs_name_sound : forall n t sn name tg, dereference t = TStruct sn ->
  ffs_name n t name = Some tg -> tg_amb tg = false ->
  exists d p f, resolves_at sn name d p f /\ tg = field_tag f /\ fd_exp f = true /\ d < fuel0 te.
Proof.
  intros n t sn name tg D H A. destruct n; cbn [ffs_name] in H; rewrite D in H; [discriminate|].
  destruct (fold_left _ _ None); [|discriminate]. eapply res_tag_field; eauto.
Qed.

Lemma ffs_name_amb : forall n t name tg, ffs_name n t name = Some tg -> tg_amb tg = true -> tg = amb_tag.
Proof.
  intros n t name tg H A. destruct n; cbn [ffs_name] in H; destruct (dereference t); try discriminate.
  destruct (fold_left _ _ None); [|discriminate]. unfold res_tag in H.
  destruct (go_resolve_field te name0 name) as [| |p t' [|]|mt]; inversion H; subst; auto; discriminate.
Qed.

Lemma emb_collect_length : forall (sub : string -> list (list nat * fielddef)) fs i j e m,
  nth_error fs j = Some e -> emb_target e = Some m -> List.length (sub m) <= List.length (emb_collect sub i fs).
Proof.
  induction fs as [|g r IH]; intros i j e m Hn Em; [destruct j; discriminate|].
  cbn [emb_collect]. rewrite app_length. destruct j as [|j]; cbn in Hn.
  - inversion Hn; subst g. rewrite Em, map_length. lia.
  - pose proof (IH (S i) j e m Hn Em). lia.
Qed.

(* completeness at full strength: whatever Go resolves to an exported field is in the table *)
Lemma ffs_name_complete : forall n t sn name d p f, fuel_ok te n t = true -> dereference t = TStruct sn ->
  resolves_at sn name d p f -> fd_exp f = true -> d < fuel0 te ->
  ffs_name n t name = Some (field_tag f).
Proof.
  induction n as [|n IH]; intros t sn name d p f Hf D R Ex Hd.
  - rewrite (fuel_ok_0 t sn D) in Hf. discriminate.
  - rewrite (ffs_name_S n t sn name D).
    destruct (fold_left (name_step (fun ft => ffs_name n ft name) name) (fields_of te (TStruct sn)) None) eqn:Fo.
    + unfold res_tag, go_resolve_field. rewrite (search_found sn name d p f R) by (unfold fuel0 in Hd; lia).
      rewrite Ex. reflexivity.
    + exfalso. apply fold_none_inv in Fo. destruct Fo as [_ Hs]. destruct R as [Ra Rb]. destruct d as [|d].
      * rewrite at_depth_0, own_matches_none in Ra; [discriminate|]. intros g Hin. apply Hs. exact Hin.
      * pose proof Ra as Ra'. rewrite at_depth_S in Ra'.
        assert (In (p, f) (emb_collect (fun m => at_depth te d m name) 0 (fields_of te (TStruct sn)))) as Hin
          by (rewrite Ra'; cbn; auto).
        apply emb_collect_in in Hin. destruct Hin as (j & e & m & p' & _ & Hn & Em & Hin).
        pose proof (emb_target_some e m Em) as [An Dm].
        pose proof (nth_error_In _ _ Hn) as Hine.
        assert (at_depth te d m name = [(p', f)]) as Am.
        { pose proof (emb_collect_length (fun m => at_depth te d m name) _ 0 j e m Hn Em) as L.
          rewrite Ra' in L. cbn in L.
          destruct (at_depth te d m name) as [|x [|y r]]; cbn in L, Hin; try lia; try tauto.
          destruct Hin as [->|[]]. reflexivity. }
        assert (forall d', d' < d -> at_depth te d' m name = []) as Bm.
        { intros d' Hd'. pose proof (Rb (S d') ltac:(lia)) as Z. rewrite at_depth_S in Z.
          pose proof (emb_collect_length (fun m => at_depth te d' m name) _ 0 j e m Hn Em) as L.
          rewrite Z in L. cbn in L. destruct (at_depth te d' m name); [reflexivity|cbn in L; lia]. }
        assert (ffs_name n (fd_ty e) name = Some (field_tag f)) as Hc.
        { apply (IH (fd_ty e) m name d p' f); auto.
          - apply (fuel_ok_field n t sn e D Hf Hine An).
          - split; auto.
          - lia. }
        destruct (Hs e Hine) as [_ Hnone]. rewrite (Hnone An) in Hc. discriminate.
Qed.

Lemma struct_table_get : forall T sn tb name, T = TStruct sn \/ T = TPtr (TStruct sn) ->
  create_types_table te perm (EStruct T) = Some tb ->
  tget name tb = match method_by_name te T name with
                 | Some mt => Some (method_tag mt)
                 | None => ffs_name (fuel0 te) (TStruct sn) name
                 end.
Proof.
  intros T sn tb name HT H. unfold create_types_table in H.
  assert (elem1 T = TStruct sn) as E1 by (destruct HT; subst; reflexivity). rewrite E1 in H.
  destruct (ffs te perm (fuel0 te) (TStruct sn)) as [tb0|] eqn:F; [|discriminate]. inversion H; subst tb.
  rewrite add_methods_get by apply methods_nodup.
  unfold method_by_name. destruct (assoc name (method_set te T)); auto.
  apply ffs_spec in F. apply F.
Qed.

Theorem ident_resolves_struct : forall T sn tb name tau keys k,
  T = TStruct sn \/ T = TPtr (TStruct sn) ->
  create_types_table te perm (EStruct T) = Some tb ->
  check_ident tb name = LFound tau ->
  method_by_name te T name = None ->
  fuel0 te <= k ->
  exists v, fetch te (populate te keys k T) name = Ok v /\ conforms v tau.
Proof.
  intros T sn tb name tau keys k HT Hc Hi Hm Hk.
  unfold check_ident in Hi. rewrite (struct_table_get T sn tb name HT Hc), Hm in Hi.
  destruct (ffs_name (fuel0 te) (TStruct sn) name) as [tg|] eqn:F; [|discriminate].
  destruct (tg_amb tg) eqn:A; [discriminate|]. inversion Hi; subst tau.
  destruct (ffs_name_sound (fuel0 te) (TStruct sn) sn name tg eq_refl F A) as (d & p & f & R & -> & Ex & Hd).
  destruct k as [|k]; [unfold fuel0 in Hk; lia|].
  destruct (populate_structish keys k T sn HT) as [b ->].
  rewrite (fetch_struct keys sn name d p f b k R Ex Hd) by lia.
  eexists. split; [reflexivity|]. apply dyn_populate.
Qed.

(* ------------------------------------------------------------------ occurs, fieldType *)
Lemma existsb_false {A} : forall (g : A -> bool) l, existsb g l = false -> forall x, In x l -> g x = false.
Proof.
  induction l as [|a r IH]; cbn; intros H x Hin; [tauto|].
  apply orb_false_iff in H. destruct H as [H1 H2]. destruct Hin as [<-|Hin]; auto.
Qed.

Lemma filter_nil_all {A} : forall (g : A -> bool) l, filter g l = [] -> forall x, In x l -> g x = false.
Proof.
  induction l as [|a r IH]; cbn; intros H x Hin; [tauto|].
  destruct (g a) eqn:G; [discriminate|]. destruct Hin as [<-|Hin]; auto.
Qed.

Lemma filter_single_split {A} : forall (g : A -> bool) l e, filter g l = [e] ->
  exists l1 l2, l = (l1 ++ e :: l2)%list /\ filter g l1 = [] /\ filter g l2 = [] /\ g e = true.
Proof.
  induction l as [|a r IH]; cbn; intros e H; [discriminate|].
  destruct (g a) eqn:G.
  - inversion H; subst. exists [], r. repeat split; auto.
  - apply IH in H. destruct H as (l1 & l2 & -> & H1 & H2 & H3). exists (a :: l1), l2. repeat split; auto.
    cbn. rewrite G. exact H1.
Qed.

Lemma find_none_of_all {A} : forall (g : A -> bool) l, (forall x, In x l -> g x = false) -> find g l = None.
Proof. induction l as [|a r IH]; cbn; intros H; auto. rewrite (H a) by auto. apply IH. auto. Qed.

Lemma struct_dec : forall t, (exists sn, dereference t = TStruct sn) \/ (forall m, dereference t <> TStruct m).
Proof. intros t. destruct (dereference t); try (right; intros; discriminate). left. eauto. Qed.

Lemma occurs_S : forall n t sn name, dereference t = TStruct sn ->
  occurs te (S n) t name =
  existsb (fun f => is_named name f || (fd_anon f && occurs te n (fd_ty f) name)) (fields_of te (TStruct sn)).
Proof. intros. cbn [occurs]. rewrite H. reflexivity. Qed.

Lemma occurs_nonstruct : forall n t name, (forall m, dereference t <> TStruct m) -> occurs te n t name = false.
Proof.
  intros n t name H. destruct n; cbn [occurs]; destruct (dereference t) eqn:D; auto; exfalso; eapply H; eauto.
Qed.

Lemma occurs_false_ffs : forall n t name, occurs te n t name = false -> ffs_old_name n t name = None.
Proof.
  induction n as [|n IH]; intros t name H; destruct (struct_dec t) as [[sn D]|D]; try (apply ffs_old_name_nonstruct; exact D).
  - cbn [ffs_old_name]. rewrite D. reflexivity.
  - rewrite (ffs_old_name_S n t sn name D). rewrite (occurs_S n t sn name D) in H.
    apply fold_silent. intros f Hin. pose proof (existsb_false _ _ H f Hin) as Hf. cbn in Hf.
    apply orb_false_iff in Hf. destruct Hf as [H1 H2]. split; auto.
    intros An. rewrite An in H2. cbn in H2. apply IH. exact H2.
Qed.

Lemma occurs_true_ffs : forall n t name, occurs te n t name = true -> ffs_old_name n t name <> None.
Proof.
  induction n as [|n IH]; intros t name H; destruct (struct_dec t) as [[sn D]|D];
    try (rewrite occurs_nonstruct in H by exact D; discriminate).
  - cbn [occurs] in H. rewrite D in H. discriminate.
  - rewrite (ffs_old_name_S n t sn name D). rewrite (occurs_S n t sn name D) in H.
    intros E. apply fold_none_inv in E. destruct E as [_ Hs].
    apply existsb_exists in H. destruct H as (f & Hin & Hf).
    destruct (Hs f Hin) as [H1 H2]. rewrite H1 in Hf. cbn in Hf.
    apply andb_prop in Hf. destruct Hf as [An Oc]. apply (IH _ _ Oc). apply H2. exact An.
Qed.

Lemma silent_of_occurs : forall n name l,
  (forall f, In f l -> is_named name f = false /\ emb_with te n name f = false) ->
  silent (fun ft => ffs_old_name n ft name) name l.
Proof.
  intros n name l H f Hin. destruct (H f Hin) as [H1 H2]. split; auto.
  intros An. unfold emb_with in H2. rewrite An in H2. cbn in H2. apply occurs_false_ffs. exact H2.
Qed.

Lemma occurs_false_depth : forall n t sn name, fuel_ok te n t = true -> dereference t = TStruct sn ->
  occurs te n t name = false -> forall d, at_depth te d sn name = [].
Proof. intros. eapply ffs_old_name_none_depth; eauto. apply occurs_false_ffs. auto. Qed.

Lemma field_type_S : forall n t sn name, under (dereference t) = TStruct sn ->
  field_type te (S n) t name =
  match find (is_named name) (fields_of te (TStruct sn)) with
  | Some f => LFound (fd_ty f)
  | None => first_emb (fun ft => field_type te n ft name) (fields_of te (TStruct sn))
  end.
Proof. intros. cbn [field_type]. rewrite H. reflexivity. Qed.

Definition leaf_ty (t : ty) : bool :=
  match under (dereference t) with TIface => false | TMap _ _ => false | TStruct _ => false | _ => true end.

Lemma field_type_leaf : forall n t name, leaf_ty t = true -> field_type te n t name = LMissing.
Proof.
  intros n t name H. unfold leaf_ty in H.
  destruct n; cbn [field_type]; destruct (under (dereference t)); try discriminate; reflexivity.
Qed.

Lemma emb_nonstruct_leaf : forall f, fd_anon f = true -> emb_shape_ok f = true ->
  (forall m, dereference (fd_ty f) <> TStruct m) -> leaf_ty (fd_ty f) = true.
Proof.
  intros f An Sh H. unfold emb_shape_ok in Sh. rewrite An in Sh. unfold leaf_ty.
  destruct (fd_ty f) as [| | | | | | | | e | | |]; auto.
  - exfalso. apply (H name). reflexivity.
  - destruct e; auto. exfalso. apply (H name). reflexivity.
Qed.

Lemma first_emb_missing {A} : forall (rec : ty -> lk A) l,
  (forall f, In f l -> fd_anon f = true -> rec (fd_ty f) = LMissing) -> first_emb rec l = LMissing.
Proof.
  induction l as [|f r IH]; cbn; intros H; auto.
  destruct (fd_anon f) eqn:An.
  - rewrite (H f) by auto. apply IH. auto.
  - apply IH. auto.
Qed.

Lemma first_emb_split {A} : forall (rec : ty -> lk A) l1 e l2,
  (forall f, In f l1 -> fd_anon f = true -> rec (fd_ty f) = LMissing) -> fd_anon e = true ->
  first_emb rec (l1 ++ e :: l2) =
  match rec (fd_ty e) with LFound a => LFound a | LMissing => first_emb rec l2 | LFuel => LFuel end.
Proof.
  induction l1 as [|f r IH]; cbn; intros e l2 H An.
  - rewrite An. reflexivity.
  - destruct (fd_anon f) eqn:Af.
    + rewrite (H f) by auto. apply IH; auto.
    + apply IH; auto.
Qed.

Lemma field_type_absent : forall n t sn name, fuel_ok te n t = true -> dereference t = TStruct sn ->
  occurs te n t name = false -> field_type te n t name = LMissing.
Proof.
  induction n as [|n IH]; intros t sn name Hf D H.
  - rewrite (fuel_ok_0 t sn D) in Hf. discriminate.
  - rewrite (field_type_S n t sn name) by (rewrite D; reflexivity).
    rewrite (occurs_S n t sn name D) in H.
    assert (forall f, In f (fields_of te (TStruct sn)) -> is_named name f = false /\ (fd_anon f = true -> occurs te n (fd_ty f) name = false)) as Ha.
    { intros f Hin. pose proof (existsb_false _ _ H f Hin) as Hx. cbn in Hx. apply orb_false_iff in Hx.
      destruct Hx as [H1 H2]. split; auto. intros An. rewrite An in H2. exact H2. }
    rewrite find_none_of_all by (intros f Hin; apply Ha; exact Hin).
    apply first_emb_missing. intros f Hin An.
    destruct (struct_dec (fd_ty f)) as [[m Dm]|Dm].
    + apply (IH (fd_ty f) m name); auto.
      * apply (fuel_ok_field n t sn f D Hf Hin An).
      * apply Ha; auto.
    + apply field_type_leaf. apply emb_nonstruct_leaf; auto. eapply fields_shape; eauto.
Qed.

Lemma emb_multi_S : forall n t sn name, dereference t = TStruct sn ->
  emb_multi te (S n) t name =
  match find (is_named name) (fields_of te (TStruct sn)) with
  | Some _ => false
  | None => match filter (emb_with te n name) (fields_of te (TStruct sn)) with
            | [] => false
            | [e] => emb_multi te n (fd_ty e) name
            | _ => true
            end
  end.
Proof. intros. cbn [emb_multi]. rewrite H. reflexivity. Qed.

(* under the filter view: exactly one embedded field e provides the name *)
Lemma single_provider : forall n t sn name l1 e l2, dereference t = TStruct sn -> fuel_ok te (S n) t = true ->
  fields_of te (TStruct sn) = (l1 ++ e :: l2)%list ->
  filter (emb_with te n name) l1 = [] -> filter (emb_with te n name) l2 = [] -> emb_with te n name e = true ->
  (forall f, In f (l1 ++ e :: l2) -> is_named name f = false) ->
  exists m, dereference (fd_ty e) = TStruct m /\ emb_target e = Some m /\ fd_anon e = true /\
            fuel_ok te n (fd_ty e) = true /\ occurs te n (fd_ty e) name = true /\
            silent (fun ft => ffs_old_name n ft name) name l1 /\ silent (fun ft => ffs_old_name n ft name) name l2 /\
            at_depth te 0 sn name = [] /\
            forall d, at_depth te (S d) sn name = map (fun pf => (List.length l1 :: fst pf, snd pf)) (at_depth te d m name).
Proof.
  intros n t sn name l1 e l2 D Hf E F1 F2 Fe Hn.
  unfold emb_with in Fe. apply andb_prop in Fe. destruct Fe as [An Oc].
  assert (In e (fields_of te (TStruct sn))) as Hine by (rewrite E; apply in_or_app; cbn; auto).
  destruct (struct_dec (fd_ty e)) as [[m Dm]|Dm]; [|rewrite occurs_nonstruct in Oc by exact Dm; discriminate].
  pose proof (emb_target_of_deref e m An (fields_shape sn e Hine) Dm) as Em.
  assert (silent (fun ft => ffs_old_name n ft name) name l1) as S1.
  { apply silent_of_occurs. intros f Hin. split; [apply Hn; apply in_or_app; auto|apply (filter_nil_all _ _ F1 f Hin)]. }
  assert (silent (fun ft => ffs_old_name n ft name) name l2) as S2.
  { apply silent_of_occurs. intros f Hin. split; [apply Hn; apply in_or_app; cbn; auto|apply (filter_nil_all _ _ F2 f Hin)]. }
  assert (forall f m' d, In f (l1 ++ l2) -> emb_target f = Some m' -> at_depth te d m' name = []) as Hs.
  { intros g m' d' Hin Eg. apply in_app_or in Hin. destruct Hin as [Hin|Hin].
    - eapply (silent_depth n t sn name l1); eauto. intros x Hx. rewrite E. apply in_or_app. auto.
    - eapply (silent_depth n t sn name l2); eauto. intros x Hx. rewrite E. apply in_or_app. cbn. auto. }
  destruct (at_depth_single sn name l1 e l2 m E Hn Em Hs) as [A0 AS].
  pose proof (fuel_ok_field n t sn e D Hf Hine An) as Hfe.
  exists m. split; [exact Dm|]. split; [exact Em|]. split; [exact An|]. split; [exact Hfe|]. split; [exact Oc|].
  split; [exact S1|]. split; [exact S2|]. split; [exact A0|exact AS].
Qed.

Lemma field_type_sound : forall n t sn name tau, fuel_ok te n t = true -> dereference t = TStruct sn ->
  field_type te n t name = LFound tau -> emb_multi te n t name = false ->
  exists d p f, resolves_at sn name d p f /\ tau = fd_ty f /\ d < n.
Proof.
  induction n as [|n IH]; intros t sn name tau Hf D H Hm.
  - rewrite (fuel_ok_0 t sn D) in Hf. discriminate.
  - rewrite (field_type_S n t sn name) in H by (rewrite D; reflexivity).
    rewrite (emb_multi_S n t sn name D) in Hm.
    destruct (find (is_named name) (fields_of te (TStruct sn))) as [f0|] eqn:F.
    + inversion H; subst tau. destruct (find_split _ _ _ F) as (l1 & l2 & E & H1 & H0).
      exists 0, [List.length l1], f0. split; [|split; [reflexivity|lia]].
      split; [eapply own_single; eauto|intros; lia].
    + pose proof (find_none_all _ _ F) as Hn.
      destruct (filter (emb_with te n name) (fields_of te (TStruct sn))) as [|e [|e' r]] eqn:Fl; [| |discriminate].
      * exfalso. rewrite first_emb_missing in H; [discriminate|].
        intros f Hin An. pose proof (filter_nil_all _ _ Fl f Hin) as Hx. unfold emb_with in Hx. rewrite An in Hx. cbn in Hx.
        destruct (struct_dec (fd_ty f)) as [[m Dm]|Dm].
        -- apply (field_type_absent n (fd_ty f) m name); auto. apply (fuel_ok_field n t sn f D Hf Hin An).
        -- apply field_type_leaf. apply emb_nonstruct_leaf; auto. eapply fields_shape; eauto.
      * destruct (filter_single_split _ _ _ Fl) as (l1 & l2 & E & F1 & F2 & Fe).
        rewrite E in Hn.
        destruct (single_provider n t sn name l1 e l2 D Hf E F1 F2 Fe Hn) as (m & Dm & Em & An & Hfe & Oc & S1 & S2 & A0 & AS).
        rewrite E in H. rewrite first_emb_split in H; auto.
        -- destruct (field_type te n (fd_ty e) name) as [a| |] eqn:Fe'.
           ++ inversion H; subst a.
              destruct (IH (fd_ty e) m name tau Hfe Dm Fe' Hm) as (d & p & f & [Ra Rb] & Et & Hd).
              exists (S d), (List.length l1 :: p), f. split; [|split; [exact Et|lia]].
              split.
              ** rewrite AS, Ra. reflexivity.
              ** intros d' Hd'. destruct d'; [exact A0|]. rewrite AS, Rb; [reflexivity|lia].
           ++ exfalso. rewrite first_emb_missing in H; [discriminate|].
              intros f Hin Af. pose proof (filter_nil_all _ _ F2 f Hin) as Hx. unfold emb_with in Hx. rewrite Af in Hx. cbn in Hx.
              assert (In f (fields_of te (TStruct sn))) as Hinf by (rewrite E; apply in_or_app; cbn; auto).
              destruct (struct_dec (fd_ty f)) as [[m' Dm']|Dm'].
              ** apply (field_type_absent n (fd_ty f) m' name); auto. apply (fuel_ok_field n t sn f D Hf Hinf Af).
              ** apply field_type_leaf. apply emb_nonstruct_leaf; auto. eapply fields_shape; eauto.
           ++ discriminate.
        -- intros f Hin Af. pose proof (filter_nil_all _ _ F1 f Hin) as Hx. unfold emb_with in Hx. rewrite Af in Hx. cbn in Hx.
           assert (In f (fields_of te (TStruct sn))) as Hinf by (rewrite E; apply in_or_app; auto).
           destruct (struct_dec (fd_ty f)) as [[m' Dm']|Dm'].
           ++ apply (field_type_absent n (fd_ty f) m' name); auto. apply (fuel_ok_field n t sn f D Hf Hinf Af).
           ++ apply field_type_leaf. apply emb_nonstruct_leaf; auto. eapply fields_shape; eauto.
Qed.

(* ------------------------------------------------------------------ member steps and paths *)
Definition structish (t : ty) : option string :=
  match t with TStruct sn => Some sn | TPtr (TStruct sn) => Some sn | _ => None end.

Lemma structish_cases : forall t sn, structish t = Some sn -> t = TStruct sn \/ t = TPtr (TStruct sn).
Proof.
  intros t sn. destruct t; cbn; try discriminate.
  - intros H. inversion H. auto.
  - destruct t; try discriminate. intros H. inversion H. auto.
Qed.

Lemma fuel_ok_deref : forall n t t', dereference t = dereference t' -> fuel_ok te n t = fuel_ok te n t'.
Proof. intros n t t' H. destruct n; cbn [fuel_ok]; rewrite H; reflexivity. Qed.

Lemma emb_multi_deref : forall n t t' name, dereference t = dereference t' -> emb_multi te n t name = emb_multi te n t' name.
Proof. intros n t t' name H. destruct n; cbn [emb_multi]; rewrite H; reflexivity. Qed.

(* scope of a member step: the base is a struct / pointer to struct with acyclic embedding, or a
   map[string]T whose key is populated *)
Definition scope_step (keys : list string) (t : ty) (n : string) : bool :=
  match t with
  | TMap TString _ => existsb (String.eqb n) keys
  | _ => match structish t with Some sn => fuel_ok te (fuel0 te) (TStruct sn) | None => false end
  end.

(* carve-outs of a member step *)
Definition K_unexported_step (t : ty) (n : string) : bool :=
  match structish t with Some sn => step_unexported sn n | None => false end.
Definition K_multi_step (t : ty) (n : string) : bool :=
  match structish t with Some sn => emb_multi te (fuel0 te) (TStruct sn) n | None => false end.

Definition step_clean (keys : list string) (t : ty) (n : string) : bool :=
  scope_step keys t n && negb (K_unexported_step t n) && negb (K_multi_step t n).

Fixpoint path_clean (keys : list string) (t : ty) (ns : list string) : bool :=
  match ns with
  | [] => true
  | n :: r => step_clean keys t n &&
              match field_type te (fuel0 te) t n with LFound t' => path_clean keys t' r | _ => true end
  end.

Lemma map_get_keys : forall n keys x, existsb (String.eqb n) keys = true ->
  map_get n (map (fun s => (VStr s, x)) keys) = Some x.
Proof.
  induction keys as [|s r IH]; cbn; intros x H; [discriminate|].
  rewrite String.eqb_sym. destruct (String.eqb n s); auto.
Qed.

Lemma exported_of_step : forall sn name d p f, resolves_at sn name d p f -> d < fuel0 te ->
  step_unexported sn name = false -> fd_exp f = true.
Proof.
  intros sn name d p f R Hd Hu. unfold step_unexported, go_resolve_field in Hu.
  rewrite (search_found sn name d p f R) in Hu by (unfold fuel0 in Hd; lia).
  destruct (fd_exp f); [reflexivity|discriminate].
Qed.

Lemma step_resolves_struct : forall keys T sn n t' k, T = TStruct sn \/ T = TPtr (TStruct sn) ->
  fuel_ok te (fuel0 te) (TStruct sn) = true -> emb_multi te (fuel0 te) (TStruct sn) n = false ->
  step_unexported sn n = false -> field_type te (fuel0 te) T n = LFound t' -> fuel0 te <= k ->
  exists k', k <= k' + fuel0 te /\ fetch te (populate te keys k T) n = Ok (populate te keys k' t').
Proof.
  intros keys T sn n t' k HT Hf Hm Hu Hft Hk.
  assert (dereference T = TStruct sn) as D by (destruct HT; subst; reflexivity).
  rewrite (fuel_ok_deref _ (TStruct sn) T) in Hf by (rewrite D; reflexivity).
  rewrite (emb_multi_deref _ (TStruct sn) T) in Hm by (rewrite D; reflexivity).
  destruct (field_type_sound _ T sn n t' Hf D Hft Hm) as (d & p & f & R & -> & Hd).
  pose proof (exported_of_step sn n d p f R Hd Hu) as Ex.
  destruct k as [|k]; [unfold fuel0 in Hk; lia|].
  destruct (populate_structish keys k T sn HT) as [b ->].
  rewrite (fetch_struct keys sn n d p f b k R Ex Hd) by lia.
  exists (k - d). split; [lia|reflexivity].
Qed.

Lemma step_resolves : forall keys t n t' k, step_clean keys t n = true ->
  field_type te (fuel0 te) t n = LFound t' -> fuel0 te <= k ->
  exists k', k <= k' + fuel0 te /\ fetch te (populate te keys k t) n = Ok (populate te keys k' t').
Proof.
  intros keys t n t' k Hc Hft Hk. unfold step_clean in Hc.
  apply andb_prop in Hc. destruct Hc as [Hc Hm]. apply andb_prop in Hc. destruct Hc as [Hs Hu].
  apply negb_true_iff in Hm. apply negb_true_iff in Hu.
  destruct (structish t) as [sn|] eqn:St.
  - pose proof (structish_cases t sn St) as HT.
    assert (scope_step keys t n = fuel_ok te (fuel0 te) (TStruct sn)) as Es.
    { unfold scope_step. rewrite St. destruct HT; subst; reflexivity. }
    rewrite Es in Hs. unfold K_unexported_step in Hu. unfold K_multi_step in Hm. rewrite St in *.
    eapply step_resolves_struct; eauto.
  - unfold scope_step in Hs. rewrite St in Hs.
    destruct t; try discriminate.
    destruct t1; try discriminate.
    destruct k as [|k]; [unfold fuel0 in Hk; lia|].
    assert (t' = t2) as ->.
    { unfold fuel0 in Hft. cbn in Hft. inversion Hft. reflexivity. }
    exists k. split; [unfold fuel0; lia|].
    cbn [populate]. unfold fetch, unname. rewrite map_get_keys; auto.
Qed.

Lemma path_resolves : forall keys ns t tau k, check_path te t ns = LFound tau -> path_clean keys t ns = true ->
  List.length ns * fuel0 te <= k ->
  exists k', k <= k' + List.length ns * fuel0 te /\ fetch_path te (populate te keys k t) ns = Ok (populate te keys k' tau).
Proof.
  induction ns as [|n r IH]; intros t tau k Hc Hp Hk.
  - cbn in Hc. inversion Hc; subst. exists k. split; [lia|reflexivity].
  - cbn [check_path] in Hc. cbn [path_clean] in Hp. apply andb_prop in Hp. destruct Hp as [Hs Hp].
    destruct (field_type te (fuel0 te) t n) as [t'| |] eqn:Ft; cbn in Hc; try discriminate.
    cbn [List.length] in Hk. rewrite Nat.mul_succ_l in Hk.
    assert (fuel0 te <= k) as Hk0 by lia.
    destruct (step_resolves keys t n t' k Hs Ft Hk0) as (k1 & Hk1 & Hfe).
    destruct (IH t' tau k1 Hc Hp) as (k' & Hk' & Hr); [lia|].
    exists k'. split; [cbn [List.length]; rewrite Nat.mul_succ_l; lia|]. cbn [fetch_path]. rewrite Hfe. cbn. exact Hr.
Qed.

(* ------------------------------------------------------------------ struct environments *)
Lemma ident_step_struct : forall T sn tb name tau keys k,
  T = TStruct sn \/ T = TPtr (TStruct sn) ->
  create_types_table te perm (EStruct T) = Some tb ->
  check_ident tb name = LFound tau ->
  method_by_name te T name = None ->
  fuel0 te <= k ->
  exists k', k <= k' + fuel0 te /\ fetch te (populate te keys k T) name = Ok (populate te keys k' tau).
Proof.
  intros T sn tb name tau keys k HT Hc Hi Hm Hk.
  unfold check_ident in Hi. rewrite (struct_table_get T sn tb name HT Hc), Hm in Hi.
  destruct (ffs_name (fuel0 te) (TStruct sn) name) as [tg|] eqn:F; [|discriminate].
  destruct (tg_amb tg) eqn:A; [discriminate|]. inversion Hi; subst tau.
  destruct (ffs_name_sound (fuel0 te) (TStruct sn) sn name tg eq_refl F A) as (d & p & f & R & -> & Ex & Hd).
  destruct k as [|k]; [unfold fuel0 in Hk; lia|].
  destruct (populate_structish keys k T sn HT) as [b ->].
  rewrite (fetch_struct keys sn name d p f b k R Ex Hd) by lia.
  exists (k - d). split; [lia|reflexivity].
Qed.

(* identifier and member-path positions *)
Theorem path_resolves_struct : forall T sn tb n0 ns tau keys k,
  T = TStruct sn \/ T = TPtr (TStruct sn) ->
  create_types_table te perm (EStruct T) = Some tb ->
  check_access te tb (APath n0 ns) = LFound (CVal tau) ->
  method_by_name te T n0 = None ->
  (forall t0, check_ident tb n0 = LFound t0 -> path_clean keys t0 ns = true) ->
  S (List.length ns) * fuel0 te <= k ->
  exists v, run_access te false (populate te keys k T) (APath n0 ns) = Ok v /\ conforms v tau.
Proof.
  intros T sn tb n0 ns tau keys k HT Hc Ha Hm Hp Hk.
  cbn [check_access] in Ha.
  destruct (check_ident tb n0) as [t0| |] eqn:Hi; cbn in Ha; try discriminate.
  destruct (check_path te t0 ns) as [t| |] eqn:Hcp; cbn in Ha; try discriminate. inversion Ha; subst t.
  rewrite Nat.mul_succ_l in Hk.
  destruct (ident_step_struct T sn tb n0 t0 keys k HT Hc Hi Hm) as (k1 & Hk1 & Hfe); [lia|].
  destruct (path_resolves keys ns t0 tau k1 Hcp (Hp t0 eq_refl)) as (k' & _ & Hr); [lia|].
  exists (populate te keys k' tau). split; [|apply dyn_populate].
  cbn [run_access fetch_env]. rewrite Hfe. cbn. exact Hr.
Qed.

(* what "the value has the type the checker assumed" means for the three kinds of result *)
Definition cres_conforms (v : value) (c : cres) : Prop :=
  match c with
  | CVal t => conforms v t
  | CCall fn meth _ =>
      exists f, is_func_type f = Some fn /\ (if meth then dyn_ty v = strip_receiver f else conforms v f)
  end.

Lemma fold_step_invariant : forall (P : option tag -> Prop) rec name,
  (forall t, P (rec t)) -> P None -> P (Some amb_tag) -> (forall f, P (Some (field_tag f))) ->
  forall l acc, P acc -> P (fold_left (name_step rec name) l acc).
Proof.
  intros P rec name Hr Hn Ha Hf. induction l as [|f r IH]; cbn; intros acc Hacc; auto.
  apply IH. unfold name_step. destruct (is_named name f); auto.
  destruct (fd_anon f); auto. specialize (Hr (fd_ty f)). destruct (rec (fd_ty f)); cbn; auto.
  destruct acc; auto.
Qed.

Lemma ffs_old_name_amb : forall n t name tg, ffs_old_name n t name = Some tg -> tg_amb tg = true -> tg = amb_tag.
Proof.
  induction n as [|n IH]; intros t name tg H A; destruct (struct_dec t) as [[sn D]|D];
    try (rewrite ffs_old_name_nonstruct in H by exact D; discriminate).
  - cbn [ffs_old_name] in H. rewrite D in H. discriminate.
  - rewrite (ffs_old_name_S n t sn name D) in H.
    revert tg H A.
    apply (fold_step_invariant (fun o => forall tg, o = Some tg -> tg_amb tg = true -> tg = amb_tag)).
    + intros t0 tg H A. eapply IH; eauto.
    + discriminate.
    + intros tg H A. inversion H. reflexivity.
    + intros f tg H A. inversion H; subst. discriminate.
    + discriminate.
Qed.

Lemma dyn_structish : forall keys k T sn, T = TStruct sn \/ T = TPtr (TStruct sn) -> dyn_ty (populate te keys k T) = T.
Proof.
  intros keys k T sn HT. destruct (dyn_populate keys k T) as [H|H]; auto.
  destruct HT; subst; discriminate.
Qed.

Lemma populate_not_nil : forall keys k T sn, T = TStruct sn \/ T = TPtr (TStruct sn) ->
  exists b vals, populate te keys k T = VStruct sn b vals.
Proof. intros keys k T sn [->| ->]; destruct k; cbn; eauto. Qed.

Lemma fetch_fn_method : forall keys k T sn m mt, T = TStruct sn \/ T = TPtr (TStruct sn) ->
  method_by_name te T m = Some mt -> fetch_fn te (populate te keys k T) m = Ok (VFunc m (strip_receiver mt)).
Proof.
  intros keys k T sn m mt HT Hm. pose proof (dyn_structish keys k T sn HT) as Hd.
  destruct (populate_not_nil keys k T sn HT) as (b & vals & E). rewrite E in *.
  unfold fetch_fn. rewrite Hd, Hm. reflexivity.
Qed.

Lemma fetch_fn_of_fetch : forall sn b vals name x, method_by_name te (dyn_ty (VStruct sn b vals)) name = None ->
  fetch te (VStruct sn b vals) name = Ok x -> fetch_fn te (VStruct sn b vals) name = Ok x.
Proof.
  intros sn b vals name x Hm H. unfold fetch_fn. rewrite Hm. unfold fetch in H. cbn [unname] in *.
  destruct (rt_field_by_name te (VStruct sn b vals) name) as [[[y [|]]|]|]; try discriminate; auto.
Qed.

Lemma is_func_type_func : forall i v o, is_func_type (TFunc i v o) = Some (TFunc i v o).
Proof. reflexivity. Qed.

(* function position *)
Theorem func_resolves_struct : forall T sn tb n c keys k,
  T = TStruct sn \/ T = TPtr (TStruct sn) ->
  create_types_table te perm (EStruct T) = Some tb ->
  check_access te tb (AFunc n) = LFound c ->
  fuel0 te <= k ->
  exists v, run_access te false (populate te keys k T) (AFunc n) = Ok v /\ cres_conforms v c.
Proof.
  intros T sn tb n c keys k HT Hc Ha Hk.
  cbn [check_access run_access] in *.
  rewrite (struct_table_get T sn tb n HT Hc) in Ha.
  destruct (method_by_name te T n) as [mt|] eqn:Hm.
  - unfold check_call in Ha. cbn [tg_ty tg_method method_tag] in Ha.
    destruct (is_func_type mt) as [fn|] eqn:Fn; [|discriminate].
    destruct (call_type fn); [|discriminate]. inversion Ha; subst c.
    rewrite (fetch_fn_method keys k T sn n mt HT Hm). eexists. split; [reflexivity|].
    exists mt. split; auto.
  - destruct (ffs_name (fuel0 te) (TStruct sn) n) as [tg|] eqn:F; [|discriminate].
    destruct (tg_amb tg) eqn:A.
    { rewrite (ffs_name_amb _ _ _ _ F A) in Ha. discriminate. }
    destruct (ffs_name_sound (fuel0 te) (TStruct sn) sn n tg eq_refl F A) as (d & p & f & R & -> & Ex & Hd).
    unfold check_call in Ha. cbn [tg_ty tg_method field_tag] in Ha.
    destruct (is_func_type (fd_ty f)) as [fn|] eqn:Fn; [|discriminate].
    destruct (call_type fn); [|discriminate]. inversion Ha; subst c.
    destruct k as [|k]; [unfold fuel0 in Hk; lia|].
    pose proof (dyn_structish keys (S k) T sn HT) as Hdy.
    destruct (populate_structish keys k T sn HT) as [b E]. rewrite E in *.
    rewrite (fetch_fn_of_fetch sn b _ n (populate te keys (k - d) (fd_ty f))).
    + eexists. split; [reflexivity|]. exists (fd_ty f). split; auto. apply dyn_populate.
    + rewrite Hdy. exact Hm.
    + apply (fetch_struct keys sn n d p f b k R Ex Hd). lia.
Qed.

Lemma method_structish : forall t m mt, method_by_name te t m = Some mt -> exists sn, t = TStruct sn \/ t = TPtr (TStruct sn).
Proof.
  intros t m mt. unfold method_by_name, method_set. destruct t; cbn; try discriminate.
  - eauto.
  - destruct t; cbn; try discriminate. eauto.
Qed.

(* method position: the prefix n0.ns resolves to the populated value of the base type t *)
Theorem method_resolves : forall keys k t m c,
  lbind (method_type te (fuel0 te) t m) (fun fm => check_call (fst fm) (snd fm)) = LFound c ->
  (method_by_name te t m <> None
   \/ (exists sn f, (t = TStruct sn \/ t = TPtr (TStruct sn)) /\ method_type te (fuel0 te) t m = LFound (f, false)
                    /\ field_type te (fuel0 te) t m = LFound f /\ step_clean keys t m = true /\ fuel0 te <= k)) ->
  exists v, fetch_fn te (populate te keys k t) m = Ok v /\ cres_conforms v c.
Proof.
  intros keys k t m c Ha [Hm|(sn & f & HT & Hmt & Hft & Hs & Hk)].
  - destruct (method_by_name te t m) as [mt|] eqn:E; [|congruence].
    destruct (method_structish t m mt E) as [sn HT].
    assert (method_type te (fuel0 te) t m = LFound (mt, true)) as Hmt.
    { unfold fuel0. cbn [method_type]. destruct HT; subst t; rewrite E; reflexivity. }
    rewrite Hmt in Ha. cbn in Ha. unfold check_call in Ha.
    destruct (is_func_type mt) as [fn|] eqn:Fn; [|discriminate].
    destruct (call_type fn); [|discriminate]. inversion Ha; subst c.
    rewrite (fetch_fn_method keys k t sn m mt HT E). eexists. split; [reflexivity|]. exists mt. auto.
  - rewrite Hmt in Ha. cbn in Ha. unfold check_call in Ha.
    destruct (is_func_type f) as [fn|] eqn:Fn; [|discriminate].
    destruct (call_type fn); [|discriminate]. inversion Ha; subst c.
    assert (method_by_name te t m = None) as Hn.
    { destruct (method_by_name te t m) eqn:E; auto.
      unfold fuel0 in Hmt. cbn [method_type] in Hmt. destruct HT; subst t; rewrite E in Hmt; discriminate. }
    destruct (step_resolves keys t m f k Hs Hft Hk) as (k' & _ & Hfe).
    pose proof (dyn_structish keys k t sn HT) as Hdy.
    destruct (populate_not_nil keys k t sn HT) as (b & vals & E). rewrite E in *.
    rewrite (fetch_fn_of_fetch sn b vals m _ ltac:(rewrite Hdy; exact Hn) Hfe).
    eexists. split; [reflexivity|]. exists f. split; auto. apply dyn_populate.
Qed.

(* method position on a struct environment: prefix path, then the method / function-valued member *)
Theorem method_access_resolves_struct : forall T sn tb n0 ns m c keys k,
  T = TStruct sn \/ T = TPtr (TStruct sn) ->
  create_types_table te perm (EStruct T) = Some tb ->
  check_access te tb (AMethod n0 ns m) = LFound c ->
  method_by_name te T n0 = None ->
  (forall t0, check_ident tb n0 = LFound t0 -> path_clean keys t0 ns = true) ->
  (forall t0 t, check_ident tb n0 = LFound t0 -> check_path te t0 ns = LFound t ->
     method_by_name te t m <> None
     \/ exists sn' f, (t = TStruct sn' \/ t = TPtr (TStruct sn')) /\ method_type te (fuel0 te) t m = LFound (f, false)
                      /\ field_type te (fuel0 te) t m = LFound f /\ step_clean keys t m = true) ->
  S (S (List.length ns)) * fuel0 te <= k ->
  exists v, run_access te false (populate te keys k T) (AMethod n0 ns m) = Ok v /\ cres_conforms v c.
Proof.
  intros T sn tb n0 ns m c keys k HT Hc Ha Hm Hp Hmeth Hk.
  cbn [check_access] in Ha.
  destruct (check_ident tb n0) as [t0| |] eqn:Hi; cbn [lbind] in Ha; try discriminate.
  destruct (check_path te t0 ns) as [t| |] eqn:Hcp; cbn [lbind] in Ha; try discriminate.
  rewrite !Nat.mul_succ_l in Hk.
  destruct (ident_step_struct T sn tb n0 t0 keys k HT Hc Hi Hm) as (k1 & Hk1 & Hfe); [lia|].
  destruct (path_resolves keys ns t0 t k1 Hcp (Hp t0 eq_refl)) as (k' & Hk' & Hr); [lia|].
  assert (fuel0 te <= k') as Hk0 by lia.
  destruct (method_resolves keys k' t m c Ha) as (v & Hv & Hcv).
  - destruct (Hmeth t0 t eq_refl Hcp) as [H|(sn' & f & H1 & H2 & H3 & H4)]; [left; exact H|].
    right. exists sn', f. repeat split; auto.
  - exists v. split; [|exact Hcv]. cbn [run_access fetch_env]. rewrite Hfe. cbn [bind]. rewrite Hr. cbn [bind]. exact Hv.
Qed.

(* ------------------------------------------------------------------ completeness (struct environments) *)
Lemma dup_class_S : forall n t sn name, dereference t = TStruct sn ->
  dup_class te (S n) t name =
  match find (is_named name) (fields_of te (TStruct sn)) with
  | Some _ => if existsb (emb_with te n name) (after_own name (fields_of te (TStruct sn))) then DShadowOrder else DClean
  | None => match filter (emb_with te n name) (fields_of te (TStruct sn)) with
            | [] => DClean
            | [e] => dup_class te n (fd_ty e) name
            | _ => DMulti
            end
  end.
Proof. intros. cbn [dup_class]. rewrite H. reflexivity. Qed.

Lemma after_own_split : forall name l1 f0 l2, (forall f, In f l1 -> is_named name f = false) ->
  is_named name f0 = true -> after_own name (l1 ++ f0 :: l2) = l2.
Proof.
  induction l1 as [|f r IH]; cbn; intros f0 l2 H H0.
  - rewrite H0. reflexivity.
  - rewrite (H f) by auto. apply IH; auto.
Qed.

Lemma ffs_old_name_complete : forall n t sn name, fuel_ok te n t = true -> dereference t = TStruct sn ->
  dup_class te n t name = DClean -> (exists d, at_depth te d sn name <> []) ->
  exists d p f, resolves_at sn name d p f /\ ffs_old_name n t name = Some (field_tag f) /\ d < n.
Proof.
  induction n as [|n IH]; intros t sn name Hf D Hc [d0 Hd0].
  - rewrite (fuel_ok_0 t sn D) in Hf. discriminate.
  - rewrite (dup_class_S n t sn name D) in Hc. rewrite (ffs_old_name_S n t sn name D).
    set (rec := fun ft => ffs_old_name n ft name) in *.
    destruct (find (is_named name) (fields_of te (TStruct sn))) as [f0|] eqn:F.
    + destruct (find_split _ _ _ F) as (l1 & l2 & E & H1 & H0).
      assert (forall f, In f l2 -> is_named name f = false) as H2.
      { eapply named_unique; eauto. rewrite <- E. apply fields_nodup. }
      rewrite E, (after_own_split name l1 f0 l2 H1 H0) in Hc.
      destruct (existsb (emb_with te n name) l2) eqn:Ex; [discriminate|].
      assert (silent rec name l2) as S2.
      { apply silent_of_occurs. intros f Hin. split; auto. apply (existsb_false _ _ Ex f Hin). }
      exists 0, [List.length l1], f0. split; [|split; [|lia]].
      * split; [eapply own_single; eauto|intros; lia].
      * rewrite E, fold_left_app. cbn [fold_left]. unfold name_step at 2. rewrite H0. apply fold_silent. exact S2.
    + pose proof (find_none_all _ _ F) as Hn.
      destruct (filter (emb_with te n name) (fields_of te (TStruct sn))) as [|e [|e' r]] eqn:Fl; [| |discriminate].
      * exfalso. apply Hd0. apply (occurs_false_depth (S n) t sn name Hf D).
        rewrite (occurs_S n t sn name D). destruct (existsb _ _) eqn:Ex; auto.
        apply existsb_exists in Ex. destruct Ex as (f & Hin & Hx).
        rewrite (Hn f Hin) in Hx. cbn in Hx. pose proof (filter_nil_all _ _ Fl f Hin) as Hy. unfold emb_with in Hy. congruence.
      * destruct (filter_single_split _ _ _ Fl) as (l1 & l2 & E & F1 & F2 & Fe).
        rewrite E in Hn.
        destruct (single_provider n t sn name l1 e l2 D Hf E F1 F2 Fe Hn) as (m & Dm & Em & An & Hfe & Oc & S1 & S2 & A0 & AS).
        assert (exists d, at_depth te d m name <> []) as Hex.
        { destruct d0; [rewrite A0 in Hd0; congruence|]. exists d0. intros Hz. apply Hd0. rewrite AS, Hz. reflexivity. }
        destruct (IH (fd_ty e) m name Hfe Dm Hc Hex) as (d & p & f & [Ra Rb] & Ef & Hd).
        exists (S d), (List.length l1 :: p), f. split; [|split; [|lia]].
        -- split.
           ++ rewrite AS, Ra. reflexivity.
           ++ intros d' Hd'. destruct d'; [exact A0|]. rewrite AS, Rb; [reflexivity|lia].
        -- rewrite E, fold_left_app. cbn [fold_left]. rewrite (fold_silent rec name l1 None S1).
           rewrite name_step_unnamed by (apply Hn; apply in_or_app; cbn; auto).
           rewrite An. unfold rec at 2. rewrite Ef. cbn [merge1]. apply fold_silent. exact S2.
Qed.

(* completeness at full strength (since fix b9d2c0f) *)
Theorem struct_complete : forall T sn tb name,
  T = TStruct sn \/ T = TPtr (TStruct sn) ->
  fuel_ok te (fuel0 te) (TStruct sn) = true ->
  create_types_table te perm (EStruct T) = Some tb ->
  match go_resolve te T name with
  | RField p tau true => check_ident tb name = LFound tau
  | RMethod mt => tget name tb = Some (method_tag mt)
  | _ => True
  end.
Proof.
  intros T sn tb name HT Hf Hc. unfold go_resolve.
  pose proof (struct_table_get T sn tb name HT Hc) as Hg.
  destruct (method_by_name te T name) as [mt|] eqn:Hm; [exact Hg|].
  assert (match T with TStruct n => go_resolve_field te n name | TPtr (TStruct n) => go_resolve_field te n name | _ => RNone end
          = go_resolve_field te sn name) as -> by (destruct HT; subst; reflexivity).
  destruct (go_resolve_field te sn name) as [| |p tau [|]|mt'] eqn:G; auto;
    [|exfalso; unfold go_resolve_field in G; eapply search_not_method; eauto].
  unfold go_resolve_field in G. apply search_inv in G.
  destruct G as (d & f & A & -> & Ex & _ & Hlt & Hmin).
  assert (resolves_at sn name d p f) as R by (split; [exact A|intros; apply Hmin; lia]).
  unfold check_ident. rewrite Hg.
  rewrite (ffs_name_complete (fuel0 te) (TStruct sn) sn name d p f Hf eq_refl R (eq_sym Ex)) by (unfold fuel0; lia).
  reflexivity.
Qed.

(* ------------------------------------------------------------------ map environments *)
Lemma fold_tset_get : forall (l : table) acc name, NoDup (map fst l) ->
  tget name (fold_left (fun a e => tset (fst e) (snd e) a) l acc) =
  match assoc name l with Some v => Some v | None => tget name acc end.
Proof.
  induction l as [|[m t] r IH]; intros acc name ND; cbn [fold_left assoc]; auto.
  inversion ND; subst. rewrite IH by auto. cbn [fst snd]. rewrite tget_tset.
  destruct (String.eqb m name) eqn:E.
  - apply eqb_eq' in E. subst. rewrite assoc_none; auto.
  - reflexivity.
Qed.

Lemma fold_tset_nodup : forall (l : table) acc, NoDup (map fst acc) ->
  NoDup (map fst (fold_left (fun a e => tset (fst e) (snd e) a) l acc)).
Proof. induction l; cbn; intros; auto. apply IHl. apply tset_nodup. auto. Qed.

Lemma assoc_map_tag : forall name (entries : list (string * ty)),
  assoc name (map (fun e => (fst e, mkTag (snd e) false false)) entries) =
  match assoc name entries with Some t => Some (mkTag t false false) | None => None end.
Proof.
  induction entries as [|[m t] r IH]; cbn; auto. destruct (String.eqb m name); auto.
Qed.

Lemma map_table_get : forall e entries tb name, NoDup (map fst entries) ->
  create_types_table te perm (EMap (TMap TString e) entries) = Some tb ->
  tget name tb = match assoc name entries with Some t => Some (mkTag t false false) | None => None end.
Proof.
  intros e entries tb name ND H. cbn in H. inversion H; subst tb. clear H.
  set (l0 := map (fun en => (fst en, mkTag (snd en) false false)) entries).
  assert (NoDup (map fst l0)) as ND0.
  { unfold l0. rewrite map_map. cbn. exact ND. }
  rewrite fold_tset_get.
  - rewrite (assoc_perm _ _ (Hperm l0)).
    + unfold l0. rewrite assoc_map_tag. destruct (assoc name entries); reflexivity.
    + eapply Permutation_NoDup; [|exact ND0]. apply Permutation_map. apply Permutation_sym. apply Hperm.
  - eapply Permutation_NoDup; [|exact ND0]. apply Permutation_map. apply Permutation_sym. apply Hperm.
Qed.

Lemma map_get_entries : forall name (g : ty -> value) (entries : list (string * ty)),
  map_get name (map (fun en => (VStr (fst en), g (snd en))) entries) =
  match assoc name entries with Some t => Some (g t) | None => None end.
Proof.
  induction entries as [|[m t] r IH]; cbn; auto. destruct (String.eqb m name); auto.
Qed.

Lemma ident_step_map : forall e entries tb n0 t0 keys k, NoDup (map fst entries) ->
  create_types_table te perm (EMap (TMap TString e) entries) = Some tb ->
  check_ident tb n0 = LFound t0 ->
  fetch_env te (is_map_env (EMap (TMap TString e) entries)) (populate_env te keys k (EMap (TMap TString e) entries)) n0
  = Ok (populate te keys k t0).
Proof.
  intros e entries tb n0 t0 keys k ND Hc Hi. unfold check_ident in Hi.
  rewrite (map_table_get e entries tb n0 ND Hc) in Hi.
  destruct (assoc n0 entries) as [t|] eqn:A; [|discriminate]. cbn in Hi. inversion Hi; subst t0.
  cbn [populate_env elem1 under]. unfold fetch_env.
  destruct (is_map_env (EMap (TMap TString e) entries)).
  - rewrite map_get_entries, A. reflexivity.
  - unfold fetch, unname. rewrite map_get_entries, A. reflexivity.
Qed.

Theorem path_resolves_map : forall e entries tb n0 ns tau keys k, NoDup (map fst entries) ->
  create_types_table te perm (EMap (TMap TString e) entries) = Some tb ->
  check_access te tb (APath n0 ns) = LFound (CVal tau) ->
  (forall t0, check_ident tb n0 = LFound t0 -> path_clean keys t0 ns = true) ->
  List.length ns * fuel0 te <= k ->
  exists v, run_access te (is_map_env (EMap (TMap TString e) entries))
              (populate_env te keys k (EMap (TMap TString e) entries)) (APath n0 ns) = Ok v /\ conforms v tau.
Proof.
  intros e entries tb n0 ns tau keys k ND Hc Ha Hp Hk.
  cbn [check_access] in Ha.
  destruct (check_ident tb n0) as [t0| |] eqn:Hi; cbn [lbind] in Ha; try discriminate.
  destruct (check_path te t0 ns) as [t| |] eqn:Hcp; cbn [lbind] in Ha; try discriminate. inversion Ha; subst t.
  destruct (path_resolves keys ns t0 tau k Hcp (Hp t0 eq_refl) Hk) as (k' & _ & Hr).
  exists (populate te keys k' tau). split; [|apply dyn_populate].
  cbn [run_access]. rewrite (ident_step_map e entries tb n0 t0 keys k ND Hc Hi). cbn [bind]. exact Hr.
Qed.

Theorem func_resolves_map : forall e entries tb n c keys k, NoDup (map fst entries) ->
  create_types_table te perm (EMap (TMap TString e) entries) = Some tb ->
  check_access te tb (AFunc n) = LFound c ->
  kind_of_ty e = RKInterface ->
  exists v, run_access te (is_map_env (EMap (TMap TString e) entries))
              (populate_env te keys k (EMap (TMap TString e) entries)) (AFunc n) = Ok v /\ cres_conforms v c.
Proof.
  intros e entries tb n c keys k ND Hc Ha Hk.
  cbn [check_access run_access] in *. rewrite (map_table_get e entries tb n ND Hc) in Ha.
  destruct (assoc n entries) as [t|] eqn:A; [|discriminate]. cbn [tg_ty tg_method] in Ha.
  unfold check_call in Ha. destruct (is_func_type t) as [fn|] eqn:Fn; [|discriminate].
  destruct (call_type fn); [|discriminate]. inversion Ha; subst c.
  cbn [populate_env elem1 under]. unfold fetch_fn. cbn [dyn_ty unname].
  unfold method_by_name. cbn [method_set assoc].
  rewrite map_get_entries, A, Hk.
  eexists. split; [reflexivity|]. exists t. split; auto. apply dyn_populate.
Qed.

(* ------------------------------------------------------------------ documentation names *)
Lemma add_methods_nodup : forall ms tb, NoDup (map fst tb) -> NoDup (map fst (add_methods ms tb)).
Proof. unfold add_methods. induction ms; cbn; intros; auto. apply IHms. apply tset_nodup. auto. Qed.

Lemma create_nodup : forall env tb, create_types_table te perm env = Some tb -> NoDup (map fst tb).
Proof.
  intros env tb H. unfold create_types_table in H. destruct env as [t|mt entries].
  - destruct (elem1 t); try (inversion H; subst; constructor).
    destruct (ffs te perm (fuel0 te) (TStruct name)) eqn:F; [|discriminate]. inversion H; subst.
    apply add_methods_nodup. apply ffs_spec in F. apply F.
  - destruct (under (elem1 mt)); try (inversion H; subst; constructor).
    destruct t1; try (inversion H; subst; constructor). inversion H; subst.
    apply add_methods_nodup. apply fold_tset_nodup. constructor.
Qed.

Lemma in_assoc_nodup {A} : forall (l : list (string * A)) n a, NoDup (map fst l) -> In (n, a) l -> assoc n l = Some a.
Proof.
  induction l as [|[m b] r IH]; cbn; intros n a ND H; [tauto|]. inversion ND; subst.
  destruct H as [H|H].
  - inversion H; subst. rewrite String.eqb_refl. reflexivity.
  - destruct (String.eqb m n) eqn:E.
    + apply eqb_eq' in E. subst. exfalso. apply H2. apply in_map_iff. exists (n, a). auto.
    + apply IH; auto.
Qed.

Theorem doc_exact : forall env tb names, create_types_table te perm env = Some tb ->
  doc_names te perm env = Some names ->
  forall n, In n names <-> ((exists tau, check_ident tb n = LFound tau) \/ In n doc_fixed).
Proof.
  intros env tb names Hc Hd n. unfold doc_names in Hd. rewrite Hc in Hd. inversion Hd; subst names. clear Hd.
  pose proof (create_nodup env tb Hc) as ND.
  rewrite in_app_iff. apply or_iff_compat_r. unfold doc_vars, check_ident. split.
  - intros H. apply in_map_iff in H. destruct H as ([m tg] & E & H). cbn in E. subst m.
    apply filter_In in H. destruct H as [Hin Ha]. cbn in Ha. apply negb_true_iff in Ha.
    unfold tget. rewrite (in_assoc_nodup tb n tg ND Hin), Ha. eauto.
  - intros [tau H]. destruct (tget n tb) as [tg|] eqn:G; [|discriminate].
    destruct (tg_amb tg) eqn:A; [discriminate|].
    apply in_map_iff. exists (n, tg). split; auto. apply filter_In. split.
    + apply assoc_in. exact G.
    + cbn. rewrite A. reflexivity.
Qed.

(* FieldsFromStruct is defined (does not run out of fuel) exactly on acyclic declarations,
   whatever the iteration order *)
Lemma ffs_fold_defined : forall n,
  (forall t, (exists tb, ffs te perm n t = Some tb) <-> fuel_ok te n t = true) ->
  forall fs acc, (exists tb, fold_left (ffs_step perm (ffs te perm n)) fs (Some acc) = Some tb)
                 <-> forallb (fun f => if fd_anon f then fuel_ok te n (fd_ty f) else true) fs = true.
Proof.
  intros n IH. induction fs as [|f r IHfs]; intros acc; cbn [fold_left forallb].
  - split; eauto.
  - unfold ffs_step at 2. destruct (fd_anon f) eqn:An.
    + destruct (ffs te perm n (fd_ty f)) as [sub|] eqn:F.
      * assert (fuel_ok te n (fd_ty f) = true) as -> by (apply IH; eauto). cbn. apply IHfs.
      * assert (fuel_ok te n (fd_ty f) = false) as ->.
        { destruct (fuel_ok te n (fd_ty f)) eqn:Fo; auto. apply IH in Fo. destruct Fo as [tb Fo]. congruence. }
        cbn. rewrite fold_ffs_none. split; [intros [tb H]; discriminate|discriminate].
    + cbn. apply IHfs.
Qed.

Lemma ffs_defined : forall n t, (exists tb, ffs te perm n t = Some tb) <-> fuel_ok te n t = true.
Proof.
  induction n as [|n IH]; intros t; destruct (struct_dec t) as [[sn D]|D].
  - cbn [ffs fuel_ok]. rewrite D. split; [intros [tb H]; discriminate|discriminate].
  - cbn [ffs fuel_ok]. destruct (dereference t) eqn:E; try (split; eauto; fail). exfalso. eapply D; eauto.
  - cbn [ffs fuel_ok]. rewrite D.
    pose proof (ffs_fold_defined n IH (fields_of te (TStruct sn)) []) as Hd.
    destruct (fold_left (ffs_step perm (ffs te perm n)) (fields_of te (TStruct sn)) (Some [])) as [t0|] eqn:F.
    + split; [intros _; apply Hd; eauto|intros _; eauto].
    + split; [intros [tb H]; discriminate|intros H; apply Hd in H; destruct H as [tb H]; pose proof (eq_trans (eq_sym F) H) as Z; discriminate Z].
  - cbn [ffs fuel_ok]. destruct (dereference t) eqn:E; try (split; eauto; fail). exfalso. eapply D; eauto.
Qed.

Lemma perm_fold_get : forall (l0 : table) name, NoDup (map fst l0) ->
  tget name (fold_left (fun a e => tset (fst e) (snd e) a) (perm l0) []) = assoc name l0.
Proof.
  intros l0 name ND. rewrite fold_tset_get.
  - rewrite (assoc_perm _ _ (Hperm l0)).
    + destruct (assoc name l0); reflexivity.
    + eapply Permutation_NoDup; [|exact ND]. apply Permutation_map. apply Permutation_sym. apply Hperm.
  - eapply Permutation_NoDup; [|exact ND]. apply Permutation_map. apply Permutation_sym. apply Hperm.
Qed.

(* scope and carve-outs along a member path, separately *)
Fixpoint path_scope (keys : list string) (t : ty) (ns : list string) : bool :=
  match ns with
  | [] => true
  | n :: r => scope_step keys t n &&
              match field_type te (fuel0 te) t n with LFound t' => path_scope keys t' r | _ => true end
  end.

Fixpoint path_K (K : ty -> string -> bool) (t : ty) (ns : list string) : bool :=
  match ns with
  | [] => false
  | n :: r => K t n || match field_type te (fuel0 te) t n with LFound t' => path_K K t' r | _ => false end
  end.

Lemma path_clean_split : forall keys ns t, path_scope keys t ns = true ->
  path_K K_unexported_step t ns = false -> path_K K_multi_step t ns = false -> path_clean keys t ns = true.
Proof.
  induction ns as [|n r IH]; intros t Hs Hu Hm; cbn [path_scope path_K path_clean] in *; auto.
  apply andb_prop in Hs. destruct Hs as [Hs1 Hs2].
  apply orb_false_iff in Hu. destruct Hu as [Hu1 Hu2].
  apply orb_false_iff in Hm. destruct Hm as [Hm1 Hm2].
  unfold step_clean. rewrite Hs1, Hu1, Hm1. cbn [andb negb].
  destruct (field_type te (fuel0 te) t n); auto.
Qed.

End Proofs.

(* ------------------------------------------------------------------ iteration order *)
Theorem perm_independent : forall te perm1 perm2,
  (forall l, Permutation (perm1 l) l) -> (forall l, Permutation (perm2 l) l) -> wf_tenv te = true ->
  forall env, match env with EMap _ entries => NoDup (map fst entries) | EStruct _ => True end ->
  match create_types_table te perm1 env, create_types_table te perm2 env with
  | Some t1, Some t2 => forall n, tget n t1 = tget n t2
  | None, None => True
  | _, _ => False
  end.
Proof.
  intros te perm1 perm2 H1 H2 Hwf env Henv. unfold create_types_table. destruct env as [t|mt entries].
  - destruct (elem1 t) eqn:E; try (intros; reflexivity).
    destruct (ffs te perm1 (fuel0 te) (TStruct name)) as [t1|] eqn:F1;
      destruct (ffs te perm2 (fuel0 te) (TStruct name)) as [t2|] eqn:F2; auto.
    + intros n. rewrite !add_methods_get by (apply methods_nodup; auto).
      destruct (assoc n (method_set te t)); auto.
      apply (ffs_spec te perm1 H1) in F1. apply (ffs_spec te perm2 H2) in F2.
      destruct F1 as [_ F1]. destruct F2 as [_ F2]. rewrite F1, F2. reflexivity.
    + assert (exists tb, ffs te perm2 (fuel0 te) (TStruct name) = Some tb) as [tb Hx].
      { apply ffs_defined. eapply ffs_defined. eauto. }
      congruence.
    + assert (exists tb, ffs te perm1 (fuel0 te) (TStruct name) = Some tb) as [tb Hx].
      { apply ffs_defined. eapply ffs_defined. eauto. }
      congruence.
  - destruct (under (elem1 mt)); try (intros; reflexivity).
    destruct t1; try (intros; reflexivity).
    intros n. rewrite !add_methods_get by (apply methods_nodup; auto).
    destruct (assoc n (method_set te mt)); auto.
    rewrite (perm_fold_get perm1 H1), (perm_fold_get perm2 H2); auto; rewrite map_map; cbn; exact Henv.
Qed.

(* the documented names do not depend on the iteration order either *)
Corollary doc_perm_independent : forall te perm1 perm2,
  (forall l, Permutation (perm1 l) l) -> (forall l, Permutation (perm2 l) l) -> wf_tenv te = true ->
  forall env n1 n2, match env with EMap _ entries => NoDup (map fst entries) | EStruct _ => True end ->
  doc_names te perm1 env = Some n1 -> doc_names te perm2 env = Some n2 -> forall n, In n n1 <-> In n n2.
Proof.
  intros te perm1 perm2 H1 H2 Hwf env n1 n2 Henv D1 D2 n.
  pose proof (perm_independent te perm1 perm2 H1 H2 Hwf env Henv) as P.
  unfold doc_names in D1, D2.
  destruct (create_types_table te perm1 env) as [t1|] eqn:C1; [|discriminate].
  destruct (create_types_table te perm2 env) as [t2|] eqn:C2; [|discriminate].
  assert (doc_names te perm1 env = Some n1) as D1' by (unfold doc_names; rewrite C1; exact D1).
  assert (doc_names te perm2 env = Some n2) as D2' by (unfold doc_names; rewrite C2; exact D2).
  rewrite (doc_exact te perm1 H1 env t1 n1 C1 D1' n), (doc_exact te perm2 H2 env t2 n2 C2 D2' n).
  unfold check_ident. rewrite (P n). reflexivity.
Qed.

(* ================================================================== carve-outs, statements *)
(* K_unexported_step: finding C16-unexported, what is left of it after fix b9d2c0f (member access
   through checker.fieldType / methodType; top-level names are resolved by the fixed table);
   K_method_ident: C16-method-ident;
   K_member_multi: C16-member-ambiguous and C16-member-dfs (checker fieldType / methodType);
   K_promoted_only: C16-member-ambiguous for methods; K_funcmap: C16-funcmap (vm.FetchFn).
   The carve-outs of C16-shadow-order and C16-depth are gone with the fix: see
   struct_complete_fields (full strength) and the historical examples about ffs_old below. *)
Definition K_method_ident (te : tenv) (T : ty) (name : string) : bool :=
  match method_by_name te T name with Some _ => true | None => false end.
Definition K_member_multi (te : tenv) (t : ty) (name : string) : bool := K_multi_step te t name.
Definition K_promoted_only (te : tenv) (t : ty) (m : string) : bool :=
  match method_by_name te t m with
  | Some _ => false
  | None => match method_type te (fuel0 te) t m with LFound (_, true) => true | _ => false end
  end.
Definition K_funcmap (e : ty) : bool := match kind_of_ty e with RKInterface => false | _ => true end.

Definition valid_perm (perm : table -> table) : Prop := forall l, Permutation (perm l) l.

Lemma perm_id_valid : valid_perm perm_id.
Proof. intros l. apply Permutation_refl. Qed.
Lemma perm_rev_valid : valid_perm perm_rev.
Proof. intros l. unfold perm_rev. apply Permutation_sym. apply Permutation_rev. Qed.

(* ---------- accepted => resolvable: identifier and member-path positions, struct environments ---------- *)
Definition path_conclusion (te : tenv) (T : ty) (n0 : string) (ns : list string) (tau : ty) (keys : list string) (k : nat) : Prop :=
  exists v, run_access te false (populate te keys k T) (APath n0 ns) = Ok v /\ conforms v tau.

(* the statement the property asks for (scope hypotheses only) *)
Definition accepted_resolves_path_full_statement : Prop :=
  forall te perm, valid_perm perm -> wf_tenv te = true ->
  forall T sn tb n0 ns tau keys k,
  structish T = Some sn ->
  create_types_table te perm (EStruct T) = Some tb ->
  check_access te tb (APath n0 ns) = LFound (CVal tau) ->
  (forall t0, check_ident tb n0 = LFound t0 -> path_scope te keys t0 ns = true) ->
  S (List.length ns) * fuel0 te <= k ->
  path_conclusion te T n0 ns tau keys k.

Theorem accepted_resolves_path : forall te perm, valid_perm perm -> wf_tenv te = true ->
  forall T sn tb n0 ns tau keys k,
  structish T = Some sn ->
  create_types_table te perm (EStruct T) = Some tb ->
  check_access te tb (APath n0 ns) = LFound (CVal tau) ->
  (forall t0, check_ident tb n0 = LFound t0 -> path_scope te keys t0 ns = true) ->
  S (List.length ns) * fuel0 te <= k ->
  K_method_ident te T n0 = false ->
  (forall t0, check_ident tb n0 = LFound t0 ->
     path_K te (K_unexported_step te) t0 ns = false /\ path_K te (K_member_multi te) t0 ns = false) ->
  path_conclusion te T n0 ns tau keys k.
Proof.
  intros te perm Hp Hwf T sn tb n0 ns tau keys k St Hc Ha Hs Hk Km Kp.
  apply (path_resolves_struct te perm Hp Hwf T sn tb n0 ns tau keys k); auto.
  - apply structish_cases. exact St.
  - unfold K_method_ident in Km. destruct (method_by_name te T n0); [discriminate|reflexivity].
  - intros t0 E. destruct (Kp t0 E). apply path_clean_split; auto.
Qed.

(* bare identifiers of a struct environment: no carve-out but the method names *)
Corollary accepted_resolves_ident : forall te perm, valid_perm perm -> wf_tenv te = true ->
  forall T sn tb n0 tau keys k,
  structish T = Some sn ->
  create_types_table te perm (EStruct T) = Some tb ->
  check_access te tb (APath n0 []) = LFound (CVal tau) ->
  fuel0 te <= k ->
  K_method_ident te T n0 = false ->
  path_conclusion te T n0 [] tau keys k.
Proof.
  intros te perm Hp Hwf T sn tb n0 tau keys k St Hc Ha Hk Km.
  apply (accepted_resolves_path te perm Hp Hwf T sn tb n0 [] tau keys k); auto.
  cbn [List.length]. lia.
Qed.

(* ---------- function position, struct environments: holds at full strength since b9d2c0f ---------- *)
Definition accepted_resolves_func_full_statement : Prop :=
  forall te perm, valid_perm perm -> wf_tenv te = true ->
  forall T sn tb n c keys k,
  structish T = Some sn ->
  create_types_table te perm (EStruct T) = Some tb ->
  check_access te tb (AFunc n) = LFound c -> fuel0 te <= k ->
  exists v, run_access te false (populate te keys k T) (AFunc n) = Ok v /\ cres_conforms v c.

Theorem accepted_resolves_func : accepted_resolves_func_full_statement.
Proof.
  intros te perm Hp Hwf T sn tb n c keys k St Hc Ha Hk.
  apply (func_resolves_struct te perm Hp Hwf T sn tb n c keys k); auto.
  apply structish_cases. exact St.
Qed.

(* ---------- method position, struct environments ---------- *)
Definition accepted_resolves_method_full_statement : Prop :=
  forall te perm, valid_perm perm -> wf_tenv te = true ->
  forall T sn tb n0 ns m c keys k,
  structish T = Some sn ->
  create_types_table te perm (EStruct T) = Some tb ->
  check_access te tb (AMethod n0 ns m) = LFound c ->
  (forall t0, check_ident tb n0 = LFound t0 -> path_scope te keys t0 ns = true) ->
  (forall t0 t, check_ident tb n0 = LFound t0 -> check_path te t0 ns = LFound t ->
     exists sn', structish t = Some sn' /\ fuel_ok te (fuel0 te) (TStruct sn') = true) ->
  S (S (List.length ns)) * fuel0 te <= k ->
  exists v, run_access te false (populate te keys k T) (AMethod n0 ns m) = Ok v /\ cres_conforms v c.

(* proved for the two ways the checker finds the callable: a method of the base type's method set,
   or a function-valued field on which methodType and fieldType agree (they differ only when an
   EMBEDDED field is itself called m: decidable side condition, kept as a hypothesis) *)
Theorem accepted_resolves_method : forall te perm, valid_perm perm -> wf_tenv te = true ->
  forall T sn tb n0 ns m c keys k,
  structish T = Some sn ->
  create_types_table te perm (EStruct T) = Some tb ->
  check_access te tb (AMethod n0 ns m) = LFound c ->
  (forall t0, check_ident tb n0 = LFound t0 -> path_scope te keys t0 ns = true) ->
  S (S (List.length ns)) * fuel0 te <= k ->
  K_method_ident te T n0 = false ->
  (forall t0, check_ident tb n0 = LFound t0 ->
     path_K te (K_unexported_step te) t0 ns = false /\ path_K te (K_member_multi te) t0 ns = false) ->
  (forall t0 t, check_ident tb n0 = LFound t0 -> check_path te t0 ns = LFound t ->
     K_promoted_only te t m = false /\
     (method_by_name te t m = None ->
        exists sn' f, structish t = Some sn' /\ method_type te (fuel0 te) t m = LFound (f, false)
                      /\ field_type te (fuel0 te) t m = LFound f
                      /\ scope_step te keys t m = true /\ K_unexported_step te t m = false /\ K_member_multi te t m = false)) ->
  exists v, run_access te false (populate te keys k T) (AMethod n0 ns m) = Ok v /\ cres_conforms v c.
Proof.
  intros te perm Hp Hwf T sn tb n0 ns m c keys k St Hc Ha Hs Hk Km Kp Kmeth.
  apply (method_access_resolves_struct te perm Hp Hwf T sn tb n0 ns m c keys k); auto.
  - apply structish_cases. exact St.
  - unfold K_method_ident in Km. destruct (method_by_name te T n0); [discriminate|reflexivity].
  - intros t0 E. destruct (Kp t0 E). apply path_clean_split; auto.
  - intros t0 t E1 E2. destruct (Kmeth t0 t E1 E2) as [_ Hb].
    destruct (method_by_name te t m) eqn:Em; [left; discriminate|].
    right. destruct (Hb eq_refl) as (sn' & f & H1 & H2 & H3 & H4 & H5 & H6).
    exists sn', f. split; [apply structish_cases; exact H1|]. split; [exact H2|]. split; [exact H3|].
    unfold step_clean. unfold K_member_multi in H6. rewrite H4, H5, H6. reflexivity.
Qed.

(* ---------- map environments ---------- *)
Definition accepted_resolves_map_func_full_statement : Prop :=
  forall te perm, valid_perm perm ->
  forall e entries tb n c keys k, NoDup (map fst entries) ->
  create_types_table te perm (EMap (TMap TString e) entries) = Some tb ->
  check_access te tb (AFunc n) = LFound c ->
  exists v, run_access te (is_map_env (EMap (TMap TString e) entries))
              (populate_env te keys k (EMap (TMap TString e) entries)) (AFunc n) = Ok v /\ cres_conforms v c.

Theorem accepted_resolves_map_func : forall te perm, valid_perm perm ->
  forall e entries tb n c keys k, NoDup (map fst entries) ->
  create_types_table te perm (EMap (TMap TString e) entries) = Some tb ->
  check_access te tb (AFunc n) = LFound c ->
  K_funcmap e = false ->
  exists v, run_access te (is_map_env (EMap (TMap TString e) entries))
              (populate_env te keys k (EMap (TMap TString e) entries)) (AFunc n) = Ok v /\ cres_conforms v c.
Proof.
  intros te perm Hp e entries tb n c keys k ND Hc Ha Kf.
  apply (func_resolves_map te perm Hp e entries tb n c keys k ND Hc Ha).
  unfold K_funcmap in Kf. destruct (kind_of_ty e); try discriminate. reflexivity.
Qed.

Theorem accepted_resolves_map_path : forall te perm, valid_perm perm -> wf_tenv te = true ->
  forall e entries tb n0 ns tau keys k, NoDup (map fst entries) ->
  create_types_table te perm (EMap (TMap TString e) entries) = Some tb ->
  check_access te tb (APath n0 ns) = LFound (CVal tau) ->
  (forall t0, check_ident tb n0 = LFound t0 -> path_scope te keys t0 ns = true) ->
  List.length ns * fuel0 te <= k ->
  (forall t0, check_ident tb n0 = LFound t0 ->
     path_K te (K_unexported_step te) t0 ns = false /\ path_K te (K_member_multi te) t0 ns = false) ->
  exists v, run_access te (is_map_env (EMap (TMap TString e) entries))
              (populate_env te keys k (EMap (TMap TString e) entries)) (APath n0 ns) = Ok v /\ conforms v tau.
Proof.
  intros te perm Hp Hwf e entries tb n0 ns tau keys k ND Hc Ha Hs Hk Kp.
  apply (path_resolves_map te perm Hp Hwf e entries tb n0 ns tau keys k ND Hc Ha); auto.
  intros t0 E. destruct (Kp t0 E). apply path_clean_split; auto.
Qed.

(* ---------- completeness, struct environments: full strength since b9d2c0f ---------- *)
Definition struct_complete_full_statement : Prop :=
  forall te perm, valid_perm perm -> wf_tenv te = true ->
  forall T sn tb name p tau,
  structish T = Some sn -> fuel_ok te (fuel0 te) (TStruct sn) = true ->
  create_types_table te perm (EStruct T) = Some tb ->
  go_resolve te T name = RField p tau true ->
  check_ident tb name = LFound tau.

Theorem struct_complete_fields : struct_complete_full_statement.
Proof.
  intros te perm Hp Hwf T sn tb name p tau St Hf Hc Hg.
  pose proof (struct_complete te perm Hp Hwf T sn tb name (structish_cases T sn St) Hf Hc) as H.
  rewrite Hg in H. exact H.
Qed.

Theorem struct_complete_methods : forall te perm, valid_perm perm -> wf_tenv te = true ->
  forall T sn tb name mt,
  structish T = Some sn -> fuel_ok te (fuel0 te) (TStruct sn) = true ->
  create_types_table te perm (EStruct T) = Some tb ->
  go_resolve te T name = RMethod mt ->
  tget name tb = Some (method_tag mt) /\
  (forall fn ret, is_func_type mt = Some fn -> call_type fn = Some ret ->
     check_access te tb (AFunc name) = LFound (CCall fn true ret)).
Proof.
  intros te perm Hp Hwf T sn tb name mt St Hf Hc Hg.
  pose proof (struct_complete te perm Hp Hwf T sn tb name (structish_cases T sn St) Hf Hc) as H.
  rewrite Hg in H. split; auto.
  intros fn ret F1 F2. cbn [check_access]. rewrite H. unfold check_call. cbn [tg_ty tg_method method_tag].
  rewrite F1, F2. reflexivity.
Qed.

(* the identifier is accepted EXACTLY when Go resolves it to an exported field (no method of that name) *)
Theorem ident_accepted_iff_go : forall te perm, valid_perm perm -> wf_tenv te = true ->
  forall T sn tb name tau,
  structish T = Some sn -> fuel_ok te (fuel0 te) (TStruct sn) = true ->
  create_types_table te perm (EStruct T) = Some tb ->
  method_by_name te T name = None ->
  (check_ident tb name = LFound tau <-> exists p, go_resolve te T name = RField p tau true).
Proof.
  intros te perm Hp Hwf T sn tb name tau St Hf Hc Hm. pose proof (structish_cases T sn St) as HT. split.
  - intros Hi. unfold check_ident in Hi. rewrite (struct_table_get te perm Hp Hwf T sn tb name HT Hc), Hm in Hi.
    destruct (ffs_name te (fuel0 te) (TStruct sn) name) as [tg|] eqn:F; [|discriminate].
    destruct (tg_amb tg) eqn:A; [discriminate|]. inversion Hi; subst tau.
    destruct (ffs_name_sound te (fuel0 te) (TStruct sn) sn name tg eq_refl F A) as (d & p & f & R & -> & Ex & Hd).
    exists p. unfold go_resolve. rewrite Hm.
    assert (match T with TStruct n => go_resolve_field te n name | TPtr (TStruct n) => go_resolve_field te n name | _ => RNone end
            = go_resolve_field te sn name) as -> by (destruct HT; subst; reflexivity).
    unfold go_resolve_field. rewrite (search_found te sn name d p f R) by (unfold fuel0 in Hd; lia).
    rewrite Ex. reflexivity.
  - intros [p Hg]. apply (struct_complete_fields te perm Hp Hwf T sn tb name p tau St Hf Hc Hg).
Qed.

(* ================================================================== witnesses (replayed on the real code) *)
Module Wit.
Definition F (n : string) (t : ty) : fielddef := mkField n t false true.
Definition E (n : string) (t : ty) : fielddef := mkField n t true true.
Definition St (fs : list fielddef) : structdef := mkStruct fs [] [].
Definition tint : ty := TNum KInt.
Definition fn0 : ty := TFunc [] false [tint].

Definition te : tenv := [
  ("Inner", St [F "X" tint; F "Y" TString]);
  ("Inner2", St [F "X" TString; F "Z" TBool]);
  ("Deep", St [E "Inner2" (TStruct "Inner2")]);
  ("Deeper", St [E "Deep" (TPtr (TStruct "Deep")); F "W" (TNum KF64)]);
  ("ShadowBefore", St [F "X" TString; E "Inner" (TStruct "Inner")]);
  ("ShadowAfter", St [E "Inner" (TStruct "Inner"); F "X" TString]);
  ("DiffDepth", St [E "Inner" (TStruct "Inner"); E "Deep" (TStruct "Deep")]);
  ("DiffDepthRev", St [E "Deep" (TStruct "Deep"); E "Inner" (TStruct "Inner")]);
  ("SameDepth", St [E "Inner" (TStruct "Inner"); E "Inner2" (TStruct "Inner2")]);
  ("unexp", St [F "U" tint]);
  ("WithUnexp", St [mkField "lower" tint false false; mkField "unexp" (TStruct "unexp") true false; F "Up" tint;
                    mkField "fn" fn0 false false; F "Fn" fn0]);
  ("M1", mkStruct [F "Q1" tint]
           [("Foo", TFunc [TStruct "M1"] false [tint])]
           [("Foo", TFunc [TPtr (TStruct "M1")] false [tint]); ("PFoo", TFunc [TPtr (TStruct "M1")] false [TString])]);
  ("M2", mkStruct [F "B" tint]
           [("Foo", TFunc [TStruct "M2"] false [tint])]
           [("Foo", TFunc [TPtr (TStruct "M2")] false [tint])]);
  ("AmbM", mkStruct [E "M1" (TStruct "M1"); E "M2" (TStruct "M2")] [] [("PFoo", TFunc [TPtr (TStruct "AmbM")] false [TString])]);
  ("Holder", mkStruct [F "S" (TStruct "SameDepth"); F "D" (TStruct "DiffDepthRev"); F "P" (TPtr (TStruct "Deeper"));
                       F "A" (TStruct "AmbM"); F "PM" (TPtr (TStruct "M1")); F "MS" (TMap TString (TPtr (TStruct "Inner")));
                       F "Fs" (TStruct "WithUnexp"); E "M1" (TStruct "M1")]
              [("Foo", TFunc [TStruct "Holder"] false [tint])]
              [("Foo", TFunc [TPtr (TStruct "Holder")] false [tint]); ("PFoo", TFunc [TPtr (TStruct "Holder")] false [TString])])
].

Definition tbl (env : envty) : table :=
  match create_types_table te perm_id env with Some tb => tb | None => [] end.
(* the table of a struct before fix b9d2c0f *)
Definition tbl_old (sn : string) : table :=
  match ffs_old te perm_id (fuel0 te) (TStruct sn) with Some tb => tb | None => [] end.
Definition K : nat := 4 * fuel0 te.
End Wit.

Lemma wit_wf : wf_tenv Wit.te = true.
Proof. vm_compute. reflexivity. Qed.

Ltac wit_scope := let t0 := fresh in let E := fresh in intros t0 E; vm_compute in E; inversion E; subst; vm_compute; reflexivity.

Definition HolderT : ty := TStruct "Holder".

(* C16-unexported, what remains: Fs.lower - checker.fieldType accepts the unexported field of the member *)
Theorem accepted_resolves_refuted_unexported :
  K_unexported_step Wit.te (TStruct "WithUnexp") "lower" = true /\ ~ accepted_resolves_path_full_statement.
Proof.
  split; [vm_compute; reflexivity|]. intros H.
  destruct (H Wit.te perm_id perm_id_valid wit_wf HolderT "Holder" (Wit.tbl (EStruct HolderT))
              "Fs" ["lower"] Wit.tint ["k"] Wit.K) as [v [Hv _]];
    try (vm_compute; reflexivity); try wit_scope.
  - vm_compute. repeat constructor.
  - vm_compute in Hv. discriminate.
Qed.

(* C16-method-ident: the method name Foo as a bare identifier *)
Theorem accepted_resolves_refuted_method_ident :
  K_method_ident Wit.te (TStruct "M1") "Foo" = true /\ ~ accepted_resolves_path_full_statement.
Proof.
  split; [vm_compute; reflexivity|]. intros H.
  destruct (H Wit.te perm_id perm_id_valid wit_wf (TStruct "M1") "M1" (Wit.tbl (EStruct (TStruct "M1")))
              "Foo" [] (TFunc [TStruct "M1"] false [Wit.tint]) ["k"] Wit.K) as [v [Hv _]];
    try (vm_compute; reflexivity); try wit_scope.
  - vm_compute. repeat constructor.
  - vm_compute in Hv. discriminate.
Qed.

(* C16-member-ambiguous: S.X with S SameDepth{ Inner; Inner2 } *)
Theorem accepted_resolves_refuted_member_ambiguous :
  K_member_multi Wit.te (TStruct "SameDepth") "X" = true /\ ~ accepted_resolves_path_full_statement.
Proof.
  split; [vm_compute; reflexivity|]. intros H.
  destruct (H Wit.te perm_id perm_id_valid wit_wf HolderT "Holder" (Wit.tbl (EStruct HolderT))
              "S" ["X"] Wit.tint ["k"] Wit.K) as [v [Hv _]];
    try (vm_compute; reflexivity); try wit_scope.
  - vm_compute. repeat constructor.
  - vm_compute in Hv. discriminate.
Qed.

(* C16-member-dfs: D.X with D DiffDepthRev{ Deep; Inner }: the checker assumes string, the VM yields int *)
Theorem accepted_resolves_refuted_member_dfs :
  K_member_multi Wit.te (TStruct "DiffDepthRev") "X" = true /\ ~ accepted_resolves_path_full_statement.
Proof.
  split; [vm_compute; reflexivity|]. intros H.
  destruct (H Wit.te perm_id perm_id_valid wit_wf HolderT "Holder" (Wit.tbl (EStruct HolderT))
              "D" ["X"] TString ["k"] Wit.K) as [v [Hv Hc]];
    try (vm_compute; reflexivity); try wit_scope.
  - vm_compute. repeat constructor.
  - vm_compute in Hv. inversion Hv; subst v. destruct Hc as [Hc|Hc]; vm_compute in Hc; discriminate.
Qed.

Ltac wit_base := let t0 := fresh in let t := fresh in let E1 := fresh in let E2 := fresh in
  intros t0 t E1 E2; vm_compute in E1; inversion E1; subst; vm_compute in E2; inversion E2; subst;
  eexists; split; vm_compute; reflexivity.

(* C16-member-ambiguous for methods: A.Foo() with A AmbM{ M1; M2 }, both with a method Foo *)
Theorem accepted_resolves_method_refuted_promoted :
  K_promoted_only Wit.te (TStruct "AmbM") "Foo" = true /\ ~ accepted_resolves_method_full_statement.
Proof.
  split; [vm_compute; reflexivity|]. intros H.
  destruct (H Wit.te perm_id perm_id_valid wit_wf HolderT "Holder" (Wit.tbl (EStruct HolderT))
              "A" [] "Foo" (CCall (TFunc [TStruct "M1"] false [Wit.tint]) true Wit.tint) ["k"] Wit.K) as [v [Hv _]];
    try (vm_compute; reflexivity); try wit_scope; try wit_base.
  - vm_compute. repeat constructor.
  - vm_compute in Hv. discriminate.
Qed.

(* C16-unexported, what remains in call position: Fs.fn() on an unexported function-valued field of a member *)
Theorem accepted_resolves_method_refuted_unexported :
  K_unexported_step Wit.te (TStruct "WithUnexp") "fn" = true /\ ~ accepted_resolves_method_full_statement.
Proof.
  split; [vm_compute; reflexivity|]. intros H.
  destruct (H Wit.te perm_id perm_id_valid wit_wf HolderT "Holder" (Wit.tbl (EStruct HolderT))
              "Fs" [] "fn" (CCall Wit.fn0 false Wit.tint) ["k"] Wit.K) as [v [Hv _]];
    try (vm_compute; reflexivity); try wit_scope; try wit_base.
  - vm_compute. repeat constructor.
  - vm_compute in Hv. discriminate.
Qed.

(* C16-funcmap: f() on a map[string]func() int *)
Theorem accepted_resolves_map_func_refuted :
  K_funcmap Wit.fn0 = true /\ ~ accepted_resolves_map_func_full_statement.
Proof.
  split; [vm_compute; reflexivity|]. intros H.
  destruct (H Wit.te perm_id perm_id_valid Wit.fn0 [("f", Wit.fn0)]
              (Wit.tbl (EMap (TMap TString Wit.fn0) [("f", Wit.fn0)])) "f" (CCall Wit.fn0 false Wit.tint) ["k"] 3) as [v [Hv _]];
    try (vm_compute; reflexivity).
  - repeat constructor. intros [].
  - vm_compute in Hv. discriminate.
Qed.

(* ---------- historical: the two findings repaired by b9d2c0f, shown on the OLD algorithm ffs_old ---------- *)
(* C16-shadow-order (fixed): struct{ X string; Inner } - the old table said ambiguous, Go and the
   new table say the outer string field *)
Example old_table_shadow_order :
  dup_class Wit.te (fuel0 Wit.te) (TStruct "ShadowBefore") "X" = DShadowOrder /\
  tget "X" (Wit.tbl_old "ShadowBefore") = Some amb_tag /\
  go_resolve Wit.te (TStruct "ShadowBefore") "X" = RField [0] TString true /\
  check_ident (Wit.tbl (EStruct (TStruct "ShadowBefore"))) "X" = LFound TString.
Proof. vm_compute. repeat split. Qed.

(* C16-depth (fixed): struct{ Inner; Deep } - the old table said ambiguous, Go and the new table say Inner.X *)
Example old_table_depth :
  dup_class Wit.te (fuel0 Wit.te) (TStruct "DiffDepth") "X" = DMulti /\
  tget "X" (Wit.tbl_old "DiffDepth") = Some amb_tag /\
  go_resolve Wit.te (TStruct "DiffDepth") "X" = RField [0; 0] Wit.tint true /\
  check_ident (Wit.tbl (EStruct (TStruct "DiffDepth"))) "X" = LFound Wit.tint.
Proof. vm_compute. repeat split. Qed.

(* C16-unexported, the repaired part: the old table held `lower` and `fn`; the new one does not, so the
   identifier and the call are rejected by the checker instead of failing in the VM *)
Example old_table_unexported :
  tget "lower" (Wit.tbl_old "WithUnexp") = Some (mkTag Wit.tint false false) /\
  tget "lower" (Wit.tbl (EStruct (TStruct "WithUnexp"))) = None /\
  check_access Wit.te (Wit.tbl (EStruct (TStruct "WithUnexp"))) (AFunc "fn") = LMissing /\
  tget "U" (Wit.tbl (EStruct (TStruct "WithUnexp"))) = Some (mkTag Wit.tint false false) /\
  tget "unexp" (Wit.tbl (EStruct (TStruct "WithUnexp"))) = None.
Proof. vm_compute. repeat split. Qed.

(* Ty/SoundProofs.v — proofs of the SOUNDNESS half of C03 (definitions in Ty/Sound.v).

   Part 1  types, value typing: inversion and construction lemmas
   Part 2  the generated helper table on well-formed numbers (one sweep), string cases
   Part 3  primitives on typed values (fetch, slice, length, in, ranges, maps)
   Part 4  the visitor on an accepted expression: every intermediate error state is None
   Part 5  one lemma per node kind, sound_gen by induction on the size, sound_partial
   Part 6  the result directive (cast_kind)
   Part 7  refutations of the unrestricted statement, non-vacuity *)
From Coq Require Import ZArith Bool List String Floats Lia Permutation.
Require Import X.Base.Num X.Base.NumProofs X.Base.Value X.Syn.Ast X.gen.GenHelpers X.gen.GenWeights X.Bridge.BrC14.
Require Import X.Sem.Prim X.Sem.Sem X.Sem.MatchesFacts X.Ty.Types X.Ty.TypesTable X.Ty.TyProofs X.Ty.Checker X.Ty.CheckProofs X.Ty.Sound.
Import ListNotations.
Open Scope string_scope.

(* ================================================================== Part 1 *)
Lemma ty_eqb_eq : forall a b, ty_eqb a b = true -> a = b.
Proof.
  fix IH 1. intros a b. destruct a, b; cbn [ty_eqb]; try discriminate; intros H; try reflexivity.
  - apply kind_eqb_eq in H. subst. reflexivity.
  - f_equal. apply IH. exact H.
  - apply andb_prop in H. destruct H as [H1 H2]. f_equal; apply IH; assumption.
  - apply String.eqb_eq in H. subst. reflexivity.
  - f_equal. apply IH. exact H.
  - apply andb_prop in H. destruct H as [H H3]. apply andb_prop in H. destruct H as [H1 H2].
    assert (L : forall l1 l2,
      (fix list_eqb (l1 l2 : list ty) {struct l1} : bool :=
         match l1, l2 with
         | [], [] => true
         | x :: r1, y :: r2 => ty_eqb x y && list_eqb r1 r2
         | _, _ => false
         end) l1 l2 = true -> l1 = l2).
    { induction l1 as [|x r1 IHl]; intros [|y r2] E; try discriminate; [reflexivity|].
      apply andb_prop in E. destruct E as [E1 E2]. f_equal; [apply IH; exact E1|apply IHl; exact E2]. }
    apply L in H1. apply L in H3. apply Bool.eqb_prop in H2. subst. reflexivity.
  - apply andb_prop in H. destruct H as [H1 H2]. apply String.eqb_eq in H1. apply IH in H2. subst. reflexivity.
  - apply String.eqb_eq in H. subst. reflexivity.
Qed.

Lemma ty_eqb_refl : forall a, ty_eqb a a = true.
Proof.
  fix IH 1. intros a. destruct a; cbn [ty_eqb]; try reflexivity.
  - apply kind_eqb_refl.
  - apply IH.
  - rewrite !IH. reflexivity.
  - apply String.eqb_refl.
  - apply IH.
  - assert (L : forall l,
      (fix list_eqb (l1 l2 : list ty) {struct l1} : bool :=
         match l1, l2 with
         | [], [] => true
         | x :: r1, y :: r2 => ty_eqb x y && list_eqb r1 r2
         | _, _ => false
         end) l l = true).
    { induction l as [|x r IHl]; [reflexivity|]. rewrite IH, IHl. reflexivity. }
    rewrite !L, Bool.eqb_reflx. reflexivity.
  - rewrite String.eqb_refl, IH. reflexivity.
  - apply String.eqb_refl.
Qed.

Lemma assignable_self t : assignable t t = true.
Proof. unfold assignable. rewrite ty_eqb_refl. reflexivity. Qed.

Lemma assignable_inv t p : assignable t p = true -> t = p \/ p = TIface.
Proof.
  unfold assignable. intros H. apply orb_prop in H. destruct H as [H|H].
  - left. apply ty_eqb_eq. exact H.
  - right. destruct p; try discriminate. reflexivity.
Qed.

Section VT.
Variable te : tenv.
Variable ftab : string -> option ty.
Variable nn : bool.
Notation vwf := (vwf te ftab nn).
Notation has_ty := (has_ty te ftab nn).

Lemma vwf_arr e l : vwf (VArr e l) <-> Forall (fun x => vwf x /\ fits x e) l.
Proof.
  cbn [Sound.vwf]. induction l as [|x r IH]; split; intros H.
  - constructor.
  - exact I.
  - destruct H as [H1 H2]. constructor; [exact H1|apply IH; exact H2].
  - inversion H; subst. split; [assumption|apply IH; assumption].
Qed.

Lemma vwf_map kt et m :
  vwf (VMap kt et m) <-> Forall (fun p => vwf (fst p) /\ fits (fst p) kt /\ vwf (snd p) /\ fits (snd p) et) m.
Proof.
  cbn [Sound.vwf]. induction m as [|[k x] r IH]; split; intros H.
  - constructor.
  - exact I.
  - destruct H as [H1 H2]. constructor; [exact H1|apply IH; exact H2].
  - inversion H; subst. split; [assumption|apply IH; assumption].
Qed.

Definition field_typed (n : string) (p : string * value) : Prop :=
  vwf (snd p) /\ forall pth ft, go_resolve_field te n (fst p) = RField pth ft true -> fits (snd p) ft.

Lemma vwf_struct n b fields :
  vwf (VStruct n b fields) <->
  Forall (field_typed n) fields /\
  (forall name pth ft, go_resolve_field te n name = RField pth ft true -> assoc_str name fields <> None).
Proof.
  cbn [Sound.vwf].
  assert (L : forall fs,
    (fix all (fs : list (string * value)) : Prop :=
       match fs with
       | [] => True
       | p :: r =>
           (let (fname, x) := p in
            vwf x /\ forall pth ft, go_resolve_field te n fname = RField pth ft true -> fits x ft) /\ all r
       end) fs <-> Forall (field_typed n) fs).
  { induction fs as [|[fname x] r IH]; split; intros H1.
    - constructor.
    - exact I.
    - destruct H1 as [Ha Hb]. constructor; [exact Ha|apply IH; exact Hb].
    - inversion H1; subst. split; [assumption|apply IH; assumption]. }
  rewrite L. reflexivity.
Qed.

(* a typed struct value holds every exported member Go's selector rule finds, at its type *)
Lemma struct_member n b fields name pth ft :
  vwf (VStruct n b fields) -> go_resolve_field te n name = RField pth ft true ->
  exists x, assoc_str name fields = Some x /\ has_ty x ft.
Proof.
  intros H R. apply vwf_struct in H. destruct H as [HF HC]. specialize (HC name pth ft R).
  clear b. induction fields as [|[fname x] r IH]; cbn [assoc_str] in *; [congruence|].
  inversion HF as [|? ? Hx Hr]; subst. destruct (String.eqb fname name) eqn:E.
  - apply String.eqb_eq in E. subst fname. exists x. split; [reflexivity|].
    destruct Hx as [Hw Ht]. cbn [fst snd] in *. split; [exact Hw|exact (Ht pth ft R)].
  - apply IH; assumption.
Qed.

(* ---- inversion: the shape of a value of a static type ---- *)
Lemma has_ty_iface v : vwf v -> has_ty v TIface.
Proof. intros H. split; [exact H|left; reflexivity]. Qed.

Lemma has_ty_wf v t : has_ty v t -> vwf v.
Proof. intros [H _]. exact H. Qed.

Lemma has_ty_dyn v t : has_ty v t -> t <> TIface -> dyn_type v = t.
Proof. intros [_ [H|H]] N; [contradiction|exact H]. Qed.

Lemma inv_bool v : has_ty v TBool -> exists b, v = VBool b.
Proof.
  intros [W [H|H]]; [discriminate|]. destruct v; cbn in H; try discriminate; eauto.
  - destruct ptr; discriminate.
  - destruct W as [_ W]. subst t. discriminate.
Qed.

Lemma inv_str v : has_ty v TString -> exists s, v = VStr s.
Proof.
  intros [W [H|H]]; [discriminate|]. destruct v; cbn in H; try discriminate; eauto.
  - destruct ptr; discriminate.
  - destruct W as [_ W]. subst t. discriminate.
Qed.

Lemma inv_num v k : has_ty v (TNum k) -> exists n, v = VNum n /\ num_kind n = k /\ num_shape n = true.
Proof.
  intros [W [H|H]]; [discriminate|]. destruct v; cbn in H; try discriminate.
  - inversion H; subst. exists n. auto.
  - destruct ptr; discriminate.
  - destruct W as [_ W]. subst t. discriminate.
Qed.

Lemma inv_slice v e : has_ty v (TSlice e) ->
  (exists l, v = VArr e l /\ Forall (fun x => has_ty x e) l) \/ v = VNilArr e.
Proof.
  intros [W [H|H]]; [discriminate|]. destruct v; cbn in H; try discriminate.
  - inversion H; subst. left. exists l. split; [reflexivity|]. apply vwf_arr in W.
    eapply Forall_impl; [|exact W]. intros x [A B]. split; assumption.
  - inversion H; subst. right. reflexivity.
  - destruct ptr; discriminate.
  - destruct W as [_ W]. subst t. discriminate.
Qed.

Lemma inv_map v kt et : has_ty v (TMap kt et) ->
  (exists m, v = VMap kt et m /\ Forall (fun p => has_ty (fst p) kt /\ has_ty (snd p) et) m) \/ v = VNilMap kt et.
Proof.
  intros [W [H|H]]; [discriminate|]. destruct v; cbn in H; try discriminate.
  - inversion H; subst. left. exists m. split; [reflexivity|]. apply vwf_map in W.
    eapply Forall_impl; [|exact W]. intros p (A & B & C & D). split; split; assumption.
  - destruct ptr; discriminate.
  - inversion H; subst. right. reflexivity.
  - destruct W as [_ W]. subst t. discriminate.
Qed.

Lemma inv_struct v sn : has_ty v (TStruct sn) -> exists fields, v = VStruct sn false fields.
Proof.
  intros [W [H|H]]; [discriminate|]. destruct v; cbn in H; try discriminate.
  - destruct ptr; inversion H; subst. eauto.
  - destruct W as [_ W]. subst t. discriminate.
Qed.

Lemma inv_ptr_struct v sn : has_ty v (TPtr (TStruct sn)) ->
  (exists fields, v = VStruct sn true fields) \/ (v = VNilPtr (TStruct sn) /\ nn = false).
Proof.
  intros [W [H|H]]; [discriminate|]. destruct v; cbn in H; try discriminate.
  - destruct ptr; inversion H; subst. left. eauto.
  - inversion H; subst. right. split; [reflexivity|exact W].
  - destruct W as [_ W]. subst t. discriminate.
Qed.

Lemma inv_func v ins vr outs : has_ty v (TFunc ins vr outs) ->
  exists id, v = VFunc id (TFunc ins vr outs) /\ ftab id = Some (TFunc ins vr outs).
Proof.
  intros [W [H|H]]; [discriminate|]. destruct v; cbn in H; try discriminate.
  - destruct ptr; discriminate.
  - subst t. destruct W as [W _]. eauto.
Qed.

(* ---- construction ---- *)
Lemma ty_bool b : has_ty (VBool b) TBool.
Proof. split; [exact I|right; reflexivity]. Qed.
Lemma ty_str s : has_ty (VStr s) TString.
Proof. split; [exact I|right; reflexivity]. Qed.
Lemma ty_num n : num_shape n = true -> has_ty (VNum n) (TNum (num_kind n)).
Proof. intros H. split; [exact H|right; reflexivity]. Qed.
Lemma ty_vint z : has_ty (vint z) (TNum KInt).
Proof. apply (ty_num (NInt KInt z)). reflexivity. Qed.

Lemma ty_arr e l : Forall (fun x => has_ty x e) l -> has_ty (VArr e l) (TSlice e).
Proof.
  intros H. split; [|right; reflexivity]. apply vwf_arr. eapply Forall_impl; [|exact H].
  intros x [A B]. split; assumption.
Qed.

Lemma ty_zero t : zero_ok nn t = true -> has_ty (zero_of t) t.
Proof.
  destruct t; try discriminate; intros Hz; cbn [zero_of].
  - apply ty_bool.
  - destruct (is_float k) eqn:E.
    + apply (ty_num (NFlt k 0%float)). exact E.
    + apply (ty_num (NInt k 0%Z)). cbn. rewrite E. reflexivity.
  - apply ty_str.
  - split; [exact I|left; reflexivity].
  - split; [exact I|right; reflexivity].
  - split; [exact I|right; reflexivity].
  - split; [|right; reflexivity]. destruct t; try exact I. cbn in Hz. apply negb_true_iff in Hz. exact Hz.
Qed.
End VT.

(* ================================================================== Part 2 *)
(* the generated helper table never mixes kinds and applies an operator of the helper's class *)
Definition is_cmp (h : helper) : bool :=
  match h with HEqual | HLess | HMore | HLessOrEqual | HMoreOrEqual => true | _ => false end.
Definition cmp_op (o : gop) : bool := match o with OEq | OLt | OGt | OLe | OGe => true | _ => false end.
Definition ar_op (o : gop) : bool := match o with OAdd | OSub | OMul | ODiv | ORem => true | _ => false end.

Definition entry_safe (t : helper * kind * kind) : bool :=
  let '(h, kx, ky) := t in
  match helper_case h kx ky with
  | Some (cx, cy, o) =>
      let tx := conv_target kx cx in
      kind_eqb tx (conv_target ky cy) &&
      (if is_cmp h then cmp_op o else ar_op o && (negb (gop_eqb o ORem) || negb (is_float tx)))
  | None => negb (has_case h kx ky)
  end.

Lemma safe_sweep : forallb entry_safe all_triples = true.
Proof. vm_compute. reflexivity. Qed.

Lemma entry_safe_all h kx ky : entry_safe (h, kx, ky) = true.
Proof. exact (proj1 (forallb_forall _ _) safe_sweep _ (all_triples_complete h kx ky)). Qed.

Lemma convert_shape k n m : convert k n = Some m -> num_kind m = k /\ num_shape m = true.
Proof.
  unfold convert. destruct n as [k0 z|k0 f].
  - destruct (is_float k) eqn:E; intros H; inversion H; subst; cbn; rewrite ?E; auto.
  - destruct (is_float k) eqn:E.
    + intros H; inversion H; subst; cbn; auto.
    + destruct (f_trunc f) as [z|]; [|discriminate]. destruct (in_range k z); [|discriminate].
      intros H; inversion H; subst; cbn; rewrite E; auto.
Qed.

Lemma conv_opt_shape cv n m : num_shape n = true -> conv_opt cv n = Some m ->
  num_kind m = conv_target (num_kind n) cv /\ num_shape m = true.
Proof.
  destruct cv as [k|]; cbn [conv_opt conv_target]; intros Hs H.
  - exact (convert_shape _ _ _ H).
  - inversion H; subst. auto.
Qed.

Lemma same_kind_cases x y : num_kind x = num_kind y -> num_shape x = true -> num_shape y = true ->
  (exists k a b, x = NInt k a /\ y = NInt k b /\ is_float k = false) \/
  (exists k a b, x = NFlt k a /\ y = NFlt k b /\ is_float k = true).
Proof.
  destruct x as [k a|k a], y as [k' b|k' b]; cbn; intros E Hx Hy; subst k'.
  - left. exists k, a, b. apply negb_true_iff in Hx. auto.
  - apply negb_true_iff in Hx. congruence.
  - apply negb_true_iff in Hy. congruence.
  - right. exists k, a, b. auto.
Qed.

Lemma go_op_cmp o x y : cmp_op o = true -> num_kind x = num_kind y -> num_shape x = true -> num_shape y = true ->
  exists b, go_op o x y = NRBool b.
Proof.
  intros Ho E Hx Hy.
  destruct (same_kind_cases x y E Hx Hy) as [(k & a & b & -> & -> & Hk)|(k & a & b & -> & -> & Hk)];
    cbn [go_op]; rewrite kind_eqb_refl; cbn [negb]; destruct o; try discriminate; eexists; reflexivity.
Qed.

Lemma go_op_ar o x y : ar_op o = true -> (negb (gop_eqb o ORem) || negb (is_float (num_kind x))) = true ->
  num_kind x = num_kind y -> num_shape x = true -> num_shape y = true ->
  (exists r, go_op o x y = NRNum r /\ num_kind r = num_kind x /\ num_shape r = true) \/ go_op o x y = NRDivZero.
Proof.
  intros Ho Hr E Hx Hy.
  destruct (same_kind_cases x y E Hx Hy) as [(k & a & b & -> & -> & Hk)|(k & a & b & -> & -> & Hk)];
    cbn [go_op num_kind] in *; rewrite kind_eqb_refl; cbn [negb].
  - destruct o; try discriminate;
      try (left; eexists; split; [reflexivity|]; cbn; rewrite Hk; auto; fail);
      (destruct (b =? 0)%Z; [right; reflexivity|left; eexists; split; [reflexivity|]; cbn; rewrite Hk; auto]).
  - rewrite Hk in Hr. destruct o; try discriminate;
      left; eexists; (split; [reflexivity|]); cbn; auto.
Qed.

Lemma helper_cmp h x y : is_cmp h = true -> num_shape x = true -> num_shape y = true ->
  (exists b, helper_num helper_case h x y = Some (NRBool b)) \/ helper_num helper_case h x y = Some NRUnspec.
Proof.
  intros Hh Hx Hy. pose proof (entry_safe_all h (num_kind x) (num_kind y)) as S. unfold entry_safe in S.
  unfold helper_num.
  destruct (helper_case h (num_kind x) (num_kind y)) as [[[cx cy] o]|].
  - rewrite Hh in S. apply andb_prop in S. destruct S as [S1 S2]. apply kind_eqb_eq in S1.
    destruct (conv_opt cx x) as [x'|] eqn:Ex; [|right; reflexivity].
    destruct (conv_opt cy y) as [y'|] eqn:Ey; [|right; reflexivity].
    destruct (conv_opt_shape _ _ _ Hx Ex) as [Kx Sx]. destruct (conv_opt_shape _ _ _ Hy Ey) as [Ky Sy].
    left. destruct (go_op_cmp o x' y' S2 ltac:(congruence) Sx Sy) as [b Eb]. exists b. rewrite Eb. reflexivity.
  - destruct h; discriminate.
Qed.

Lemma helper_ar h x y : is_cmp h = false -> has_case h (num_kind x) (num_kind y) = true ->
  num_shape x = true -> num_shape y = true ->
  exists r, helper_num helper_case h x y = Some r /\
    ((exists n, r = NRNum n /\ combined (num_kind x) (num_kind y) = Some (num_kind n) /\ num_shape n = true)
     \/ r = NRDivZero \/ r = NRUnspec).
Proof.
  intros Hh Hc Hx Hy. pose proof (entry_safe_all h (num_kind x) (num_kind y)) as S. unfold entry_safe in S.
  unfold helper_num.
  destruct (helper_case h (num_kind x) (num_kind y)) as [[[cx cy] o]|] eqn:He.
  - rewrite Hh in S. apply andb_prop in S. destruct S as [S1 S2]. apply kind_eqb_eq in S1.
    apply andb_prop in S2. destruct S2 as [S2 S3].
    pose proof (kind_predicted _ _ _ _ He) as KP. cbn [entry_kind] in KP.
    destruct (conv_opt cx x) as [x'|] eqn:Ex; [|eexists; split; [reflexivity|auto]].
    destruct (conv_opt cy y) as [y'|] eqn:Ey; [|eexists; split; [reflexivity|auto]].
    destruct (conv_opt_shape _ _ _ Hx Ex) as [Kx Sx]. destruct (conv_opt_shape _ _ _ Hy Ey) as [Ky Sy].
    eexists; split; [reflexivity|].
    rewrite <- Kx in S3.
    destruct (go_op_ar o x' y' S2 S3 ltac:(congruence) Sx Sy) as [(r & Er & Kr & Sr)|Er]; rewrite Er.
    + left. exists r. split; [reflexivity|]. split; [|exact Sr]. rewrite Kr, Kx. exact KP.
    + auto.
  - rewrite Hc in S. discriminate.
Qed.

Lemma p_helper_cmp_num h x y : is_cmp h = true -> num_shape x = true -> num_shape y = true ->
  match p_helper h (VNum x) (VNum y) with
  | Ok v => exists b, v = VBool b
  | Fail e => is_type_err e = false
  end.
Proof.
  intros Hh Hx Hy. unfold p_helper.
  destruct (helper_cmp h x y Hh Hx Hy) as [[b E]|E]; rewrite E; cbn [of_nres]; eauto.
Qed.

Lemma p_helper_ar_num h x y : is_cmp h = false -> has_case h (num_kind x) (num_kind y) = true ->
  num_shape x = true -> num_shape y = true ->
  match p_helper h (VNum x) (VNum y) with
  | Ok v => exists n, v = VNum n /\ combined (num_kind x) (num_kind y) = Some (num_kind n) /\ num_shape n = true
  | Fail e => is_type_err e = false
  end.
Proof.
  intros Hh Hc Hx Hy. unfold p_helper.
  destruct (helper_ar h x y Hh Hc Hx Hy) as (r & E & [(n & -> & K & S)|[->| ->]]); rewrite E; cbn [of_nres]; eauto.
Qed.

Lemma p_helper_cmp_str h x y : is_cmp h = true -> exists b, p_helper h (VStr x) (VStr y) = Ok (VBool b).
Proof. destruct h; try discriminate; intros _; cbn; eexists; reflexivity. Qed.

Lemma p_helper_add_str x y : p_helper HAdd (VStr x) (VStr y) = Ok (VStr (x ++ y)).
Proof. reflexivity. Qed.

Lemma p_equal_bool a b : exists r, p_equal (VBool a) (VBool b) = Ok (VBool r).
Proof. cbn. eexists; reflexivity. Qed.

(* checker/types.go `combined` on two numeric types is the table's `combined` on their kinds *)
Lemma combined_ty_num a b : combined_ty (TNum a) (TNum b) = option_map TNum (combined a b).
Proof. unfold combined_ty, combined. cbn [weight_ty kind_of_ty]. destruct combined_shape; cbn; try reflexivity;
  match goal with |- context [if ?c then _ else _] => destruct c end; reflexivity. Qed.

(* ================================================================== Part 3 *)
Definition out_ok {A} (P : A -> Prop) (o : outcome A) : Prop :=
  match o with Ok a => P a | Fail e => is_type_err e = false end.

Lemma out_bind {A B} (P : A -> Prop) (Q : B -> Prop) (o : outcome A) (f : A -> outcome B) :
  out_ok P o -> (forall a, P a -> out_ok Q (f a)) -> out_ok Q (bind o f).
Proof. destruct o; cbn; auto. Qed.

Lemma to_int_ok n : out_ok (fun _ => True) (to_int (VNum n)).
Proof. unfold to_int. destruct (convert KInt n) as [[k z|k f]|]; cbn; auto. Qed.

Lemma to_float64_ok n : out_ok (fun _ => True) (to_float64 (VNum n)).
Proof. unfold to_float64. destruct (convert KF64 n) as [[k z|k f]|]; cbn; auto. Qed.

Lemma to_int64_ok n : out_ok (fun v => exists z, v = VNum (NInt KInt64 z)) (to_int64 (VNum n)).
Proof.
  unfold to_int64, convert. destruct n as [k z|k f]; cbn [is_float].
  - cbn. eauto.
  - destruct (f_trunc f) as [z|]; cbn; auto. destruct (in_range KInt64 z); cbn; eauto.
Qed.

Lemma Forall_firstn {A} (P : A -> Prop) n l : Forall P l -> Forall P (firstn n l).
Proof. revert l. induction n; intros l H; cbn; [constructor|]. destruct l; inversion H; subst; constructor; auto. Qed.

Lemma Forall_skipn {A} (P : A -> Prop) n l : Forall P l -> Forall P (skipn n l).
Proof. revert l. induction n; intros l H; cbn; [exact H|]. destruct l; inversion H; subst; auto. Qed.

Lemma match_nil_elim {A} (P : A -> Prop) (i : value) (a b : A) :
  P a -> P b ->
  P (match i with VNil => a | _ => b end).
Proof. destruct i; auto. Qed.

Lemma s_str_inv t : s_str t = true -> t = TString.
Proof. destruct t; try discriminate; reflexivity. Qed.
Lemma s_bool_inv t : s_bool t = true -> t = TBool.
Proof. destruct t; try discriminate; reflexivity. Qed.
Lemma s_num_inv t : s_num t = true -> exists k, t = TNum k.
Proof. destruct t; try discriminate; eauto. Qed.
Lemma s_int_inv t : s_int t = true -> exists k, t = TNum k /\ is_float k = false.
Proof. destruct t; try discriminate. cbn. intros H. apply negb_true_iff in H. eauto. Qed.
Lemma s_iface_inv t : s_iface t = true -> t = TIface.
Proof. destruct t; try discriminate; reflexivity. Qed.

Section Prims.
Variable te : tenv.
Variable ftab : string -> option ty.
Variable nn : bool.
Notation vwf := (Sound.vwf te ftab nn).
Notation has_ty := (Sound.has_ty te ftab nn).

Lemma index_list_ok e l n : Forall (fun x => has_ty x e) l -> out_ok (fun r => has_ty r e) (index_list l n).
Proof.
  intros H. unfold index_list. destruct ((n <? 0)%Z || (Z.of_nat (List.length l) <=? n)%Z); cbn; [reflexivity|].
  destruct (nth_error l (Z.to_nat n)) as [v|] eqn:E; cbn; [|reflexivity].
  apply nth_error_In in E. exact (proj1 (Forall_forall _ _) H _ E).
Qed.

Lemma fetch_slice v vi e k ns : has_ty v (TSlice e) -> has_ty vi (TNum k) ->
  out_ok (fun r => has_ty r e) (p_fetch v vi ns).
Proof.
  intros Hv Hi. destruct (inv_num _ _ _ _ _ Hi) as (n & -> & _ & _).
  destruct (inv_slice _ _ _ _ _ Hv) as [(l & -> & Hl)| ->]; cbn [p_fetch].
  - eapply out_bind; [apply to_int_ok|]. intros z _. apply index_list_ok. exact Hl.
  - eapply out_bind; [apply to_int_ok|]. intros z _. reflexivity.
Qed.

Lemma assoc_val_in k m v : assoc_val k m = Some v -> exists k', In (k', v) m.
Proof.
  induction m as [|[k' x] r IH]; cbn; [discriminate|]. destruct (key_eqb k' k).
  - intros H; inversion H; subst. eauto.
  - intros H. destruct (IH H) as [k2 H2]. eauto.
Qed.

Lemma key_dyn vi kt : s_key kt = true -> has_ty vi kt -> dyn_type vi = kt /\ vi <> VNil.
Proof.
  intros Hk Hi. assert (kt <> TIface) as N by (intros ->; discriminate).
  split; [exact (has_ty_dyn _ _ _ _ _ Hi N)|]. intros ->. pose proof (has_ty_dyn _ _ _ _ _ Hi N) as D. cbn in D. subst kt. discriminate.
Qed.

Lemma fetch_map v vi kt et ns : has_ty v (TMap kt et) -> has_ty vi kt -> s_key kt = true -> zero_ok nn et = true ->
  out_ok (fun r => has_ty r et) (p_fetch v vi ns).
Proof.
  intros Hv Hi Hk Hz. destruct (key_dyn _ _ Hk Hi) as [D _].
  destruct (inv_map _ _ _ _ _ _ Hv) as [(m & -> & Hm)| ->]; cbn [p_fetch]; apply match_nil_elim; try reflexivity;
    rewrite D, assignable_self.
  - destruct (assoc_val vi m) as [x|] eqn:E; cbn.
    + destruct (assoc_val_in _ _ _ E) as [k' Hin]. exact (proj2 (proj1 (Forall_forall _ _) Hm _ Hin)).
    + apply ty_zero. exact Hz.
  - cbn. apply ty_zero. exact Hz.
Qed.

Lemma fetch_member sn b fields name pth ft ns :
  vwf (VStruct sn b fields) -> go_resolve_field te sn name = RField pth ft true ->
  exists x, p_fetch (VStruct sn b fields) (VStr name) ns = Ok x /\ has_ty x ft.
Proof.
  intros W R. destruct (struct_member _ _ _ _ _ _ _ _ _ W R) as (x & E & Hx).
  exists x. cbn [p_fetch]. rewrite E. auto.
Qed.

Lemma slice_ok v vf vt t kf kt : sc_sliceable t = true -> has_ty v t -> has_ty vf (TNum kf) -> has_ty vt (TNum kt) ->
  out_ok (fun r => has_ty r t) (p_slice v vf vt).
Proof.
  intros Hs Hv Hf Ht. destruct (inv_num _ _ _ _ _ Hf) as (nf & -> & _ & _). destruct (inv_num _ _ _ _ _ Ht) as (nt & -> & _ & _).
  destruct t; try discriminate.
  - destruct (inv_str _ _ _ _ Hv) as [s0 ->]. cbn [p_slice].
    eapply out_bind; [apply to_int_ok|]. intros a _. eapply out_bind; [apply to_int_ok|]. intros b _.
    destruct (clamp_slice (str_len s0) a b) as [a' b']. destruct (a' <? 0)%Z; cbn; [reflexivity|apply ty_str].
  - destruct (inv_slice _ _ _ _ _ Hv) as [(l & -> & Hl)| ->]; cbn [p_slice];
      (eapply out_bind; [apply to_int_ok|]; intros a _; eapply out_bind; [apply to_int_ok|]; intros b _).
    + destruct (clamp_slice (Z.of_nat (List.length l)) a b) as [a' b']. destruct (a' <? 0)%Z; cbn; [reflexivity|].
      apply ty_arr. apply Forall_firstn. apply Forall_skipn. exact Hl.
    + destruct (clamp_slice 0 a b) as [a' b']. destruct (a' <? 0)%Z; cbn; [reflexivity|]. exact Hv.
Qed.

Lemma length_ok v t : sc_len t = true -> has_ty v t -> exists n, p_length v = Ok n.
Proof.
  intros Hs Hv. destruct t; try discriminate.
  - destruct (inv_str _ _ _ _ Hv) as [s0 ->]. cbn. eauto.
  - destruct (inv_slice _ _ _ _ _ Hv) as [(l & -> & _)| ->]; cbn; eauto.
  - destruct (inv_map _ _ _ _ _ _ Hv) as [(m & -> & _)| ->]; cbn; eauto.
Qed.

(* `equal` of vm/runtime.go never fails for a type reason on well-formed values *)
Lemma equal_v_ok : forall a, vwf a -> forall b, vwf b -> out_ok (fun _ : bool => True) (equal_v a b).
Proof.
  fix IH 1. intros a Wa b Wb.
  destruct a as [|bb|n|s|e l|e|kt et m|nm p fs|t|kt et|id t|nm x|d]; try (destruct b; exact I).
  - (* numbers *)
    destruct b; try exact I. cbn [equal_v]. cbn in Wa, Wb.
    destruct (helper_cmp HEqual n n0 eq_refl Wa Wb) as [[r E]|E]; rewrite E; cbn; auto.
  - (* slices: element-wise *)
    assert (Wl : Forall (fun x => vwf x) l).
    { apply vwf_arr in Wa. eapply Forall_impl; [|exact Wa]. intros x [A _]. exact A. }
    assert (L : forall l2, Forall (fun y => vwf y) l2 ->
      out_ok (fun _ : bool => True)
        ((fix seq_eq (l1 l2 : list value) {struct l1} : outcome bool :=
            match l1, l2 with
            | [], [] => Ok true
            | x :: r1, y :: r2 => match equal_v x y with Ok true => seq_eq r1 r2 | other => other end
            | _, _ => Ok false
            end) l l2)).
    { clear Wa. induction l as [|x r IHl]; intros l2 W2.
      - destruct l2; exact I.
      - destruct l2 as [|y r2]; [exact I|]. inversion Wl; subst. inversion W2; subst.
        pose proof (IH x ltac:(assumption) y ltac:(assumption)) as P.
        destruct (equal_v x y) as [[|]|er]; cbn in *; [apply IHl; assumption|exact I|exact P]. }
    destruct b; try exact I.
    + cbn [equal_v is_nil andb seq_items].
      destruct (Nat.eqb (List.length l) (List.length l0)); [|exact I].
      apply L. apply vwf_arr in Wb. eapply Forall_impl; [|exact Wb]. intros x [A _]. exact A.
    + cbn [equal_v is_nil andb seq_items].
      destruct (Nat.eqb (List.length l) (List.length (@nil value))); [|exact I]. apply L. constructor.
Qed.

Lemma equal_ok x y : vwf x -> vwf y -> out_ok (fun v => exists b, v = VBool b) (p_equal x y).
Proof.
  intros Wx Wy. unfold p_equal, p_helper.
  assert (F : out_ok (fun v => exists b, v = VBool b)
                (match helper_fallthrough HEqual with
                 | FTNilSeqDeepEqual => match equal_v x y with Ok r => Ok (VBool r) | Fail e => Fail e end
                 | FTNilThenDeepEqual => Ok (VBool ((is_nil x && is_nil y) || deep_equal x y))
                 | _ => Fail EInvalidOp
                 end)).
  { cbn [helper_fallthrough]. pose proof (equal_v_ok x Wx y Wy) as P. destruct (equal_v x y); cbn in *; eauto. }
  destruct x; try exact F; destruct y; try exact F.
  cbn in Wx, Wy. destruct (helper_cmp HEqual n n0 eq_refl Wx Wy) as [[r E]|E]; rewrite E; cbn; eauto.
Qed.

(* `==` on two values of one scalar class *)
Lemma equal_pair x y tx ty : s_pair tx ty = true -> has_ty x tx -> has_ty y ty ->
  out_ok (fun v => exists b, v = VBool b) (p_equal x y).
Proof. intros _ Hx Hy. apply equal_ok; eapply has_ty_wf; eassumption. Qed.

Lemma in_ok needle arr tl tr : sc_binary BIn tl tr = true -> has_ty needle tl -> has_ty arr tr ->
  out_ok (fun _ => True) (p_in needle arr).
Proof.
  cbn [sc_binary]. intros Hs Hn Ha. destruct tr; try discriminate.
  - (* slice *)
    destruct (inv_slice _ _ _ _ _ Ha) as [(l & -> & Hl)| ->]; cbn [p_in]; [|exact I].
    clear Ha. induction l as [|x r IH]; [exact I|]. inversion Hl; subst.
    eapply out_bind; [eapply equal_ok; eapply has_ty_wf; eassumption|]. intros v [b ->]. destruct b; [exact I|]. apply IH. assumption.
  - (* map *)
    apply andb_prop in Hs. destruct Hs as [Hk He]. apply ty_eqb_eq in He. subst tl.
    destruct (key_dyn _ _ Hk Hn) as [D NN].
    destruct (inv_map _ _ _ _ _ _ Ha) as [(m & -> & _)| ->]; cbn [p_in];
      (rewrite D, assignable_self; destruct needle; try congruence; exact I).
  - (* struct *)
    apply s_str_inv in Hs. subst tl. destruct (inv_str _ _ _ _ Hn) as [s0 ->]. destruct (inv_struct _ _ _ _ _ Ha) as [fields ->]. exact I.
  - (* pointer to struct *)
    destruct tr; try discriminate. apply s_str_inv in Hs. subst tl. destruct (inv_str _ _ _ _ Hn) as [s0 ->].
    destruct (inv_ptr_struct _ _ _ _ _ Ha) as [[fields ->]|[-> _]]; exact I.
Qed.

Lemma range_list_ok lo n : Forall (fun x => has_ty x (TNum KInt)) (range_list lo n).
Proof. revert lo. induction n; intros lo; cbn; constructor; [apply ty_vint|apply IHn]. Qed.

Lemma make_range_ok lo hi : has_ty (make_range lo hi) (TSlice (TNum KInt)).
Proof. unfold make_range. destruct (hi <? lo)%Z; apply ty_arr; [constructor|apply range_list_ok]. Qed.

(* map literals *)
Definition entry_ok (p : value * value) : Prop :=
  vwf (fst p) /\ fits (fst p) TString /\ vwf (snd p) /\ fits (snd p) TIface.

Lemma map_put_ok k v m : vwf v -> Forall entry_ok m -> Forall entry_ok (map_put k v m).
Proof.
  intros Hv. assert (entry_ok (VStr k, v)) as E0 by (repeat split; auto; [right; reflexivity|left; reflexivity]).
  induction m as [|[k' v'] r IH]; intros H; cbn [map_put]; [constructor; [exact E0|constructor]|].
  inversion H; subst. destruct k'; try (constructor; [assumption|apply IH; assumption]).
  destruct (String.compare k s).
  - constructor; assumption.
  - constructor; [exact E0|exact H].
  - constructor; [assumption|apply IH; assumption].
Qed.

Lemma build_map_ok kvs : Forall (fun p => vwf (snd p)) kvs -> Forall entry_ok (build_map kvs).
Proof.
  induction kvs as [|[k v] r IH]; intros H; cbn [build_map]; [constructor|].
  inversion H; subst. apply map_put_ok; auto.
Qed.

Lemma keys_as_str_ok kvs : Forall (fun p => has_ty (fst p) TString /\ vwf (snd p)) kvs ->
  exists skvs, keys_as_str kvs = Ok skvs /\ Forall (fun p => vwf (snd p)) skvs.
Proof.
  induction kvs as [|[k v] r IH]; intros H; cbn [keys_as_str]; [eexists; split; [reflexivity|constructor]|].
  inversion H as [|? ? [Hk Hv] Hr]; subst. destruct (IH Hr) as (r' & -> & Hr').
  cbn [fst snd] in *. destruct (inv_str _ _ _ _ Hk) as [s0 ->]. cbn. eexists; split; [reflexivity|]. constructor; auto.
Qed.

Lemma ty_map_lit skvs : Forall (fun p => vwf (snd p)) skvs -> has_ty (VMap TString TIface (build_map skvs)) (TMap TString TIface).
Proof.
  intros H. split; [|right; reflexivity]. apply vwf_map. eapply Forall_impl; [|apply build_map_ok; exact H].
  intros p (A & B & C & D). auto.
Qed.
End Prims.

(* ================================================================== Part 4 *)
Section Vis.
Variable c : cconfig.

Lemma visit_none cols e st t e' : visit c cols e st = (t, e', None) -> st = None.
Proof.
  destruct st as [y|]; [|reflexivity]. intros H. pose proof (visit_sticky c e cols y) as S.
  rewrite H in S. discriminate.
Qed.

Lemma emit_none l r st t : emit l r st = (t, None) -> st = None /\ r = inl t.
Proof.
  destruct r as [t0|k]; cbn.
  - intros H. inversion H. auto.
  - destruct st; cbn; discriminate.
Qed.

Lemma fail_at_none l k st t : fail_at l k st = (t, None) -> False.
Proof. destruct st; cbn; discriminate. Qed.

Lemma settle_kind e t : kind_of (settle e t) = kind_of_ty t.
Proof. destruct e; reflexivity. Qed.

Lemma vlist_none cols es st es' : vlist c cols es st = (es', None) -> st = None.
Proof.
  destruct st as [y|]; [|reflexivity]. intros H.
  pose proof (vlist_sticky c cols es (proj2 (Forall_forall _ _) (fun z _ => visit_sticky c z)) y) as S.
  rewrite H in S. discriminate.
Qed.

Lemma vargs_none cols pt i args st args' ok : vargs c cols pt i args st = (args', None, ok) -> st = None.
Proof.
  destruct st as [y|]; [|reflexivity]. intros H.
  pose proof (vargs_sticky c cols pt args (proj2 (Forall_forall _ _) (fun z _ => visit_sticky c z)) i y) as S.
  rewrite H in S. discriminate.
Qed.

Lemma vlist_inv cols es : forall es', vlist c cols es None = (es', None) ->
  Forall2 (fun x x' => exists t, visit c cols x None = (t, x', None)) es es'.
Proof.
  induction es as [|x r IH]; intros es' H; cbn [vlist] in H.
  - inversion H. constructor.
  - destruct (visit c cols x None) as [[t x'] st1] eqn:E. destruct (vlist c cols r st1) as [r' st2] eqn:E2.
    inversion H; subst. pose proof (vlist_none _ _ _ _ E2). subst st1.
    constructor; [eauto|apply IH; exact E2].
Qed.

Inductive args_rel (cols : list ty) (pt : nat -> ty) : nat -> list expr -> list expr -> Prop :=
| AR_nil i : args_rel cols pt i [] []
| AR_cons i a r t a1 a2 r' :
    visit c cols a None = (t, a1, None) -> arg_rule a a1 t (pt i) = (a2, true) ->
    args_rel cols pt (S i) r r' -> args_rel cols pt i (a :: r) (a2 :: r').

Lemma vargs_inv cols pt args : forall i args' ok, vargs c cols pt i args None = (args', None, ok) ->
  ok = true /\ args_rel cols pt i args args'.
Proof.
  induction args as [|a r IH]; intros i args' ok H; cbn [vargs] in H.
  - inversion H. split; [reflexivity|constructor].
  - destruct (visit c cols a None) as [[t a1] st1] eqn:E. destruct (arg_rule a a1 t (pt i)) as [a2 ok1] eqn:Ea.
    destruct ok1.
    + destruct (vargs c cols pt (S i) r st1) as [[r' st2] ok2] eqn:E2. inversion H; subst.
      pose proof (vargs_none _ _ _ _ _ _ _ E2). subst st1. destruct (IH _ _ _ E2) as [-> R].
      split; [reflexivity|]. econstructor; eauto.
    + inversion H. destruct st1; discriminate.
Qed.

Lemma check_func_inv cols ins v o m l args t args' :
  check_func (vargs c cols) (TFunc ins v [o]) m l args None = (t, args', None) ->
  arity_rule ins v m (List.length args) = None /\ t = o /\ args_rel cols (param_ty ins v m) 0 args args'.
Proof.
  unfold check_func. destruct (arity_rule ins v m (List.length args)) as [k|]; [intros H; inversion H|].
  destruct (vargs c cols (param_ty ins v m) 0 args None) as [[a' st'] ok] eqn:E.
  destruct ok; intros H; inversion H; subst; destruct (vargs_inv _ _ _ _ _ _ E) as [Hok R]; try discriminate.
  auto.
Qed.
Lemma check_func_none cols fn m l args st t args' :
  check_func (vargs c cols) fn m l args st = (t, args', None) -> st = None.
Proof.
  destruct st as [y|]; [|reflexivity]. intros H.
  pose proof (check_func_sticky c cols fn m l args (proj2 (Forall_forall _ _) (fun z _ => visit_sticky c z)) y) as S.
  rewrite H in S. discriminate.
Qed.
End Vis.

(* ---- one-step unfolding of the reference semantics ---- *)
Section Ev.
Variable fe : fenv.
Variable cfg : config.
Variable env : value.
Notation ev := (eval fe cfg env).

Definition ev_list (ctx : list (value * Z)) :=
  fix eval_list (es : list expr) (s : rstate) (k : list value -> rstate -> result) : result :=
    match es with
    | [] => k [] s
    | x :: r => rbind (ev ctx x s) (fun v s1 => eval_list r s1 (fun vs s2 => k (v :: vs) s2))
    end.

Definition ev_pairs (ctx : list (value * Z)) (here : loc) :=
  fix eval_pairs (ps : list expr) (s : rstate) (k : list (value * value) -> rstate -> result) : result :=
    match ps with
    | [] => k [] s
    | EPair _ kx vx :: r =>
        rbind (ev ctx kx s) (fun vk s1 => rbind (ev ctx vx s1) (fun vv s2 =>
        eval_pairs r s2 (fun kvs s3 => k ((vk, vv) :: kvs) s3)))
    | _ :: _ => Stop EOther here s
    end.

Lemma sv_unary ctx a op x s :
  ev ctx (EUnary a op x) s =
  rbind (ev ctx x s) (fun v s1 =>
    match op with
    | UNotBang | UNotWord => lift (aloc a) s1 (as_bool v) (fun b => Done (VBool (negb b)) s1)
    | UPlus => Done v s1
    | UMinus => lift (aloc a) s1 (p_negate v) (fun r => Done r s1)
    | UUnknown _ => Stop EOther (aloc a) s1
    end).
Proof. reflexivity. Qed.

Lemma sv_matches ctx a re l r s :
  ev ctx (EMatches a re l r) s =
  (* the pre-compiled pattern is only a shortcut for the value of the right operand (Sem/MatchesFacts.v) *)
  rbind (ev ctx l s) (fun va s1 =>
  rbind (ev ctx r s1) (fun vb s2 =>
  lift (aloc a) s2 (as_str vb) (fun p => lift (aloc a) s2 (as_str va) (fun x =>
  match re_match fe p x with Some b => Done (VBool b) s2 | None => Stop ERegexp (aloc a) s2 end)))).
Proof. exact (eval_matches_dyn _ _ _ ctx a re l r s). Qed.

Lemma sv_property ctx a x name ns s :
  ev ctx (EProperty a x name ns) s =
  rbind (ev ctx x s) (fun v s1 => lift (aloc a) s1 (p_fetch v (VStr name) ns) (fun r => Done r s1)).
Proof. reflexivity. Qed.

Lemma sv_index ctx a x i s :
  ev ctx (EIndex a x i) s =
  rbind (ev ctx x s) (fun v s1 => rbind (ev ctx i s1) (fun vi s2 =>
  lift (aloc a) s2 (p_fetch v vi false) (fun r => Done r s2))).
Proof. reflexivity. Qed.

Lemma sv_slice ctx a x from to s :
  ev ctx (ESlice a x from to) s =
  rbind (ev ctx x s) (fun v s1 =>
  rbind (match to with
         | Some t => ev ctx t s1
         | None => lift (aloc a) s1 (p_length v) (fun n => Done (vint n) s1)
         end) (fun vto s2 =>
  rbind (match from with
         | Some f => ev ctx f s2
         | None => Done (vint 0) s2
         end) (fun vfrom s3 =>
  lift (aloc a) s3 (p_slice v vfrom vto) (fun r => Done r s3)))).
Proof. reflexivity. Qed.

Lemma sv_method ctx a x name args ns s :
  ev ctx (EMethod a x name args ns) s =
  rbind (ev ctx x s) (fun v s1 =>
  ev_list ctx args s1 (fun vs s2 =>
  match ns, v with
  | true, VNil => Done VNil s2
  | _, _ => if ns && Prim.fetch_fn_zero v name then Done VNil s2
            else lift (aloc a) s2 (Prim.fetch_fn fe v name) (fun id => do_call fe (aloc a) false id v vs s2)
  end)).
Proof. reflexivity. Qed.

Lemma sv_function ctx a name args fast s :
  ev ctx (EFunction a name args fast) s =
  ev_list ctx args s (fun vs s1 =>
  lift (aloc a) s1 (Prim.fetch_fn fe env name) (fun id => do_call fe (aloc a) fast id env vs s1)).
Proof. reflexivity. Qed.

Lemma sv_cond ctx a c x y s :
  ev ctx (ECond a c x y) s =
  rbind (ev ctx c s) (fun vc s1 => lift (aloc a) s1 (as_bool vc) (fun b => if b then ev ctx x s1 else ev ctx y s1)).
Proof. reflexivity. Qed.

Lemma sv_array ctx a es s :
  ev ctx (EArray a es) s =
  ev_list ctx es s (fun vs s1 => alloc cfg (aloc a) (Z.of_nat (List.length vs)) s1 (fun s2 => Done (VArr TIface vs) s2)).
Proof. reflexivity. Qed.

Lemma sv_map ctx a ps s :
  ev ctx (Ast.EMap a ps) s =
  ev_pairs ctx (aloc a) ps s (fun kvs s1 =>
  lift (aloc a) s1 (keys_as_str kvs) (fun skvs =>
  alloc cfg (aloc a) (Z.of_nat (List.length kvs)) s1 (fun s2 =>
  Done (VMap TString TIface (build_map skvs)) s2))).
Proof. reflexivity. Qed.

Lemma sv_closure ctx a x s : ev ctx (EClosure a x) s = ev ctx x s.
Proof. reflexivity. Qed.

Lemma sv_len ctx a x s :
  ev ctx (EBuiltin a BiLen [x]) s =
  rbind (ev ctx x s) (fun v s1 => lift (aloc a) s1 (p_length v) (fun n => Done (vint n) s1)).
Proof. reflexivity. Qed.
Definition bin_strict (here : loc) (op : binop) (l r : expr) (va vb : value) (s2 : rstate) : result :=
  match op with
  | BEq =>
      if both_kind (RKNum KInt) l r then
        lift here s2 (as_int va) (fun x => lift here s2 (as_int vb) (fun y => Done (VBool (x =? y)%Z) s2))
      else if both_kind RKString l r then
        lift here s2 (as_str va) (fun x => lift here s2 (as_str vb) (fun y => Done (VBool (String.eqb x y)) s2))
      else lift here s2 (p_equal va vb) (fun v => Done v s2)
  | BNe => lift here s2 (p_equal va vb) (fun v => lift here s2 (as_bool v) (fun b => Done (VBool (negb b)) s2))
  | BIn => lift here s2 (p_in va vb) (fun b => Done (VBool b) s2)
  | BNotIn => lift here s2 (p_in va vb) (fun b => Done (VBool (negb b)) s2)
  | BLt => lift here s2 (p_helper HLess va vb) (fun v => Done v s2)
  | BGt => lift here s2 (p_helper HMore va vb) (fun v => Done v s2)
  | BLe => lift here s2 (p_helper HLessOrEqual va vb) (fun v => Done v s2)
  | BGe => lift here s2 (p_helper HMoreOrEqual va vb) (fun v => Done v s2)
  | BAdd => lift here s2 (p_helper HAdd va vb) (fun v => Done v s2)
  | BSub => lift here s2 (p_helper HSubtract va vb) (fun v => Done v s2)
  | BMul => lift here s2 (p_helper HMultiply va vb) (fun v => Done v s2)
  | BDiv => lift here s2 (p_helper HDivide va vb) (fun v => Done v s2)
  | BMod => lift here s2 (p_helper HModulo va vb) (fun v => Done v s2)
  | BPow => lift here s2 (to_float64 va) (fun x => lift here s2 (to_float64 vb) (fun y =>
              Done (VNum (NFlt KF64 (f_pow fe x y))) s2))
  | BContains => lift here s2 (as_str va) (fun x => lift here s2 (as_str vb) (fun y => Done (VBool (str_contains x y)) s2))
  | BStartsWith => lift here s2 (as_str va) (fun x => lift here s2 (as_str vb) (fun y => Done (VBool (str_prefix y x)) s2))
  | BEndsWith => lift here s2 (as_str va) (fun x => lift here s2 (as_str vb) (fun y => Done (VBool (str_suffix y x)) s2))
  | BRange =>
      lift here s2 (to_int va) (fun lo => lift here s2 (to_int vb) (fun hi =>
      match range_size lo hi with
      | None => Stop EBudget here s2
      | Some n => alloc cfg here n s2 (fun s3 => Done (make_range lo hi) s3)
      end))
  | _ => Stop EOther here s2
  end.

Definition is_or (op : binop) : bool := match op with BOrWord | BOrOr => true | _ => false end.
Definition is_and (op : binop) : bool := match op with BAndWord | BAndAnd => true | _ => false end.

Lemma sv_binary ctx a op l r s :
  ev ctx (EBinary a op l r) s =
  if is_or op then
    rbind (ev ctx l s) (fun va s1 => lift (aloc a) s1 (as_bool va) (fun b => if b then Done va s1 else ev ctx r s1))
  else if is_and op then
    rbind (ev ctx l s) (fun va s1 => lift (aloc a) s1 (as_bool va) (fun b => if b then ev ctx r s1 else Done va s1))
  else
    rbind (ev ctx l s) (fun va s1 => rbind (ev ctx r s1) (fun vb s2 => bin_strict (aloc a) op l r va vb s2)).
Proof. destruct op; reflexivity. Qed.
Definition is_loop_builtin (b : builtin) : bool :=
  match b with BiAll | BiNone | BiAny | BiOne | BiCount | BiFilter | BiMap => true | _ => false end.

Definition builtin_body (ctx : list (value * Z)) (here : loc) (b : builtin) (c : expr) (v : value) (n : Z) (s1 : rstate) : result :=
  let body := fun i s' => ev ((v, i) :: ctx) c s' in
  match b with
  | BiAll => all_loop body here (Z.to_nat n) 0 s1
  | BiNone => none_loop body here (Z.to_nat n) 0 s1
  | BiAny => any_loop body here (Z.to_nat n) 0 s1
  | BiOne => count_loop body here (Z.to_nat n) 0 0 s1
               (fun cnt s2 => lift here s2 (p_equal (vint cnt) (vint 1)) (fun r => Done r s2))
  | BiCount => count_loop body here (Z.to_nat n) 0 0 s1 (fun cnt s2 => Done (vint cnt) s2)
  | BiFilter => filter_loop body here (fun i => p_fetch v (vint i) false) (Z.to_nat n) 0 [] s1
                  (fun xs s2 => alloc cfg here (Z.of_nat (List.length xs)) s2 (fun s3 => Done (VArr TIface xs) s3))
  | BiMap => map_loop body (Z.to_nat n) 0 [] s1
               (fun xs s2 => alloc cfg here n s2 (fun s3 => Done (VArr TIface xs) s3))
  | _ => Stop EOther here s1
  end.

Lemma sv_loop ctx a b x cl s : is_loop_builtin b = true ->
  ev ctx (EBuiltin a b [x; cl]) s =
  rbind (ev ctx x s) (fun v s1 => lift (aloc a) s1 (p_length v) (fun n => builtin_body ctx (aloc a) b cl v n s1)).
Proof. destruct b; try discriminate; reflexivity. Qed.
End Ev.

(* ================================================================== Part 5 *)
Lemma both_kind_settled k l r tl tr :
  kind_of l = kind_of_ty tl -> kind_of r = kind_of_ty tr ->
  both_kind k l r = rkind_eqb (kind_of_ty tl) k && rkind_eqb (kind_of_ty tr) k.
Proof. unfold both_kind. intros -> ->. reflexivity. Qed.

Lemma is_number_num k : is_number (TNum k) = true.
Proof. unfold is_number, is_integer, is_floatt. cbn. destruct (is_float k); reflexivity. Qed.
Lemma is_integer_num k : is_integer (TNum k) = negb (is_float k).
Proof. reflexivity. Qed.

Section Main.
Variable c : cconfig.
Variable perm : TypesTable.table -> TypesTable.table.
Hypothesis Hperm : forall l, Permutation (perm l) l.
Hypothesis Hwf : wf_tenv (cc_te c) = true.
Variable ftab : string -> option ty.
Variable nn : bool.
Variable fe : fenv.
Variable cfg : config.
Variable env : value.
Variable T : ty.
Variable sn : string.
Hypothesis Hmap : c_mapenv cfg = false.
Hypothesis Henv : env_ok c perm ftab nn T sn env.
Hypothesis Hfe : fenv_ok (cc_te c) ftab nn fe.

Notation te := (cc_te c).
Notation has_ty := (Sound.has_ty (cc_te c) ftab nn).
Notation vwf := (Sound.vwf (cc_te c) ftab nn).
Notation res_ok := (Sound.res_ok (cc_te c) ftab nn).
Notation ctx_ok := (Sound.ctx_ok (cc_te c) ftab nn).
Notation ev := (eval fe cfg env).

Lemma res_bind t1 t r k : res_ok t1 r -> (forall v s1, has_ty v t1 -> res_ok t (k v s1)) -> res_ok t (rbind r k).
Proof. destruct r; cbn; auto. Qed.

Lemma res_lift {A} (P : A -> Prop) t l s (o : outcome A) k :
  out_ok P o -> (forall a, P a -> res_ok t (k a)) -> res_ok t (lift l s o k).
Proof. destruct o; cbn; auto. Qed.

Lemma res_alloc t l n s k : (forall s', res_ok t (k s')) -> res_ok t (alloc cfg l n s k).
Proof. intros H. unfold alloc. destruct (c_limit cfg <=? r_mem s + n)%Z; [reflexivity|apply H]. Qed.

Definition sound_at (e : expr) : Prop :=
  forall cols t e', visit c cols e None = (t, e', None) -> scope c nn cols e = true ->
  forall ctx, ctx_ok ctx cols -> forall s, res_ok t (ev ctx e' s).

(* the tree a node is rebuilt to carries the Kind of the node's type *)
Lemma visit_kind cols e t e' st : visit c cols e None = (t, e', st) -> kind_of e' = kind_of_ty t.
Proof.
  destruct e; try rewrite visit_method; try rewrite visit_function; try rewrite visit_array; try rewrite visit_map;
    cbn [visit];
    repeat match goal with
    | |- context [check_func ?a ?b ?cc ?d ?e ?f] => destruct (check_func a b cc d e f) as [[? ?] ?]
    | |- context [vlist ?a ?b ?cc ?d] => destruct (vlist a b cc d) as [? ?]
    | |- context [visit c ?cols ?x ?st] => destruct (visit c cols x st) as [[? ?] ?]
    | |- context [emit ?l ?r ?st] => destruct (emit l r st) as [? ?]
    | |- context [fail_at ?l ?k ?st] => destruct (fail_at l k st) as [? ?]
    | |- context [match ?o with Some _ => _ | None => _ end] => destruct o
    | |- context [let '(_, _) := ?p in _] => destruct p
    | |- context [if ?b then _ else _] => destruct b
    | |- context [match ?b with BiLen => _ | _ => _ end] => destruct b
    | |- context [match ?l with [] => _ | _ :: _ => _ end] => destruct l
    end;
    intros H; inversion H; subst; first [apply settle_kind | reflexivity].
Qed.

(* ---- literals ---- *)
Lemma sound_nil a : sound_at (ENil a).
Proof. intros cols t e' H _ ctx _ s. cbn in H. inversion H; subst. cbn. split; [exact I|right; reflexivity]. Qed.

Lemma sound_int a z : sound_at (EInt a z).
Proof. intros cols t e' H _ ctx _ s. cbn in H. inversion H; subst. cbn. apply ty_vint. Qed.

Lemma sound_float a f : sound_at (EFloat a f).
Proof. intros cols t e' H _ ctx _ s. cbn in H. inversion H; subst. cbn. apply (ty_num _ _ _ (NFlt KF64 f)). reflexivity. Qed.

Lemma sound_bool a b : sound_at (EBool a b).
Proof. intros cols t e' H _ ctx _ s. cbn in H. inversion H; subst. cbn. apply ty_bool. Qed.

Lemma sound_str a x : sound_at (EStr a x).
Proof. intros cols t e' H _ ctx _ s. cbn in H. inversion H; subst. cbn. apply ty_str. Qed.

(* ---- identifiers: the types table against Go's selector rule (C16) ---- *)
Lemma env_T : T = TStruct sn \/ T = TPtr (TStruct sn).
Proof.
  pose proof (eo_struct _ _ _ _ _ _ _ Henv) as Hs. destruct T as [| | | | | | | |t| | |]; cbn in Hs; try discriminate.
  - inversion Hs. auto.
  - destruct t; try discriminate. inversion Hs. auto.
Qed.

Lemma table_field tb name tg :
  cc_types c = Some tb -> create_types_table te perm (EStruct T) = Some tb ->
  tget name tb = Some tg -> tg_amb tg = false -> tg_method tg = false ->
  exists pth, go_resolve_field te sn name = RField pth (tg_ty tg) true.
Proof.
  intros _ Hc Hg Ha Hm. rewrite (struct_table_get te perm Hperm Hwf T sn tb name env_T Hc) in Hg.
  destruct (method_by_name te T name) as [mt|].
  - inversion Hg; subst tg. discriminate.
  - destruct (ffs_name_sound te _ (TStruct sn) sn name tg eq_refl Hg Ha) as (d & p & f & R & -> & Ex & Hd).
    exists p. unfold go_resolve_field. rewrite (search_found te sn name d p f R) by (unfold fuel0 in Hd; lia).
    rewrite Ex. reflexivity.
Qed.

Lemma sound_ident a name ns : sound_at (EIdent a name ns).
Proof.
  intros cols t e' H Hs ctx _ s. cbn [visit] in H.
  destruct (emit (loc_of (EIdent a name ns)) (ident_rule c name ns) None) as [t1 st1] eqn:Ee.
  inversion H; subst. destruct (emit_none _ _ _ _ Ee) as [_ Er].
  cbn [scope] in Hs. unfold sc_ident, lookup_name in Hs. unfold ident_rule in Er.
  destruct (eo_table _ _ _ _ _ _ _ Henv) as (tb & Htb & Hc).
  destruct (eo_val _ _ _ _ _ _ _ Henv) as (p & fields & Eenv & HT). pose proof (eo_wf _ _ _ _ _ _ _ Henv) as Hw.
  rewrite Eenv in Hw. rewrite Htb in Hs, Er. destruct (tget name tb) as [tg|] eqn:Hg; [|discriminate].
  apply andb_prop in Hs. destruct Hs as [Ha Hm]. apply negb_true_iff in Ha, Hm. rewrite Ha in Er.
  inversion Er; subst t.
  destruct (table_field tb name tg Htb Hc Hg Ha Hm) as [pth R].
  destruct (fetch_member te ftab nn sn p fields name pth (tg_ty tg) ns Hw R) as (x & Ef & Hx).
  cbn [settle set_ann eval]. unfold fetch_ident. rewrite Hmap, Eenv, Ef. cbn. exact Hx.
Qed.

(* ---- unary ---- *)
Lemma sound_unary a op x : sound_at x -> sound_at (EUnary a op x).
Proof.
  intros IH cols t e' H Hs ctx Hc s. cbn [visit] in H.
  destruct (visit c cols x None) as [[tx x'] st1] eqn:Ex.
  destruct (emit (loc_of (EUnary a op x)) (unary_rule op tx) st1) as [t1 st2] eqn:Ee.
  inversion H; subst. destruct (emit_none _ _ _ _ Ee) as [-> Er].
  cbn [scope] in Hs. unfold tyof in Hs. rewrite Ex in Hs. cbn [fst] in Hs.
  apply andb_prop in Hs. destruct Hs as [Hsx Hso].
  cbn [settle set_ann]. rewrite sv_unary. eapply res_bind; [exact (IH _ _ _ Ex Hsx ctx Hc s)|].
  intros v s1 Hv. destruct op; cbn [sc_unary] in Hso; try discriminate.
  - apply s_bool_inv in Hso. subst tx. cbn in Er. inversion Er; subst.
    destruct (inv_bool _ _ _ _ Hv) as [b ->]. cbn. apply ty_bool.
  - apply s_bool_inv in Hso. subst tx. cbn in Er. inversion Er; subst.
    destruct (inv_bool _ _ _ _ Hv) as [b ->]. cbn. apply ty_bool.
  - destruct (s_num_inv _ Hso) as [k ->]. cbn [unary_rule] in Er. rewrite is_number_num in Er. inversion Er; subst t.
    exact Hv.
  - destruct (s_num_inv _ Hso) as [k ->]. cbn [unary_rule] in Er. rewrite is_number_num in Er. inversion Er; subst t.
    destruct (inv_num _ _ _ _ _ Hv) as (n & -> & Kn & Sn). cbn.
    replace k with (num_kind (go_neg n)) by (destruct n; exact Kn).
    apply ty_num. destruct n; exact Sn.
Qed.

(* ---- binary ---- *)
Lemma arith_ok h va vb kl kr t l0 s0 : is_cmp h = false -> has_case h kl kr = true ->
  has_ty va (TNum kl) -> has_ty vb (TNum kr) -> comb (TNum kl) (TNum kr) = inl t ->
  res_ok t (lift l0 s0 (p_helper h va vb) (fun v => Done v s0)).
Proof.
  intros Hh Hc Ha Hb Ec.
  destruct (inv_num _ _ _ _ _ Ha) as (x & -> & Kx & Sx). destruct (inv_num _ _ _ _ _ Hb) as (y & -> & Ky & Sy).
  subst kl kr. unfold comb in Ec. rewrite combined_ty_num in Ec.
  pose proof (p_helper_ar_num h x y Hh Hc Sx Sy) as P.
  destruct (p_helper h (VNum x) (VNum y)) as [v|e]; cbn [lift Sound.res_ok]; [|exact P].
  destruct P as (n & -> & Kn & Sn). rewrite Kn in Ec. cbn in Ec. inversion Ec; subst t. apply ty_num. exact Sn.
Qed.

Lemma cmp_ok h va vb tl tr l0 s0 : is_cmp h = true ->
  (s_num tl && s_num tr) || (s_str tl && s_str tr) = true -> has_ty va tl -> has_ty vb tr ->
  res_ok TBool (lift l0 s0 (p_helper h va vb) (fun v => Done v s0)).
Proof.
  intros Hh Hs Ha Hb. apply orb_prop in Hs. destruct Hs as [Hs|Hs]; apply andb_prop in Hs; destruct Hs as [H1 H2].
  - destruct (s_num_inv _ H1) as [kl ->]. destruct (s_num_inv _ H2) as [kr ->].
    destruct (inv_num _ _ _ _ _ Ha) as (x & -> & Kx & Sx). destruct (inv_num _ _ _ _ _ Hb) as (y & -> & Ky & Sy).
    pose proof (p_helper_cmp_num h x y Hh Sx Sy) as P.
    destruct (p_helper h (VNum x) (VNum y)) as [v|e]; cbn [lift Sound.res_ok]; [|exact P].
    destruct P as [b ->]. apply ty_bool.
  - apply s_str_inv in H1, H2. subst tl tr.
    destruct (inv_str _ _ _ _ Ha) as [x ->]. destruct (inv_str _ _ _ _ Hb) as [y ->].
    destruct (p_helper_cmp_str h x y Hh) as [b ->]. cbn. apply ty_bool.
Qed.

Lemma int_kint n : num_kind n = KInt -> num_shape n = true -> exists z, n = NInt KInt z.
Proof. destruct n as [k z|k f]; cbn; intros -> H; [eauto|discriminate]. Qed.

Lemma kind_num_plain t k : kind_of_ty t = RKNum k -> is_declared t = false -> t = TNum k.
Proof. destruct t; cbn; try discriminate; intros H _; inversion H; reflexivity. Qed.
Lemma kind_str_plain t : kind_of_ty t = RKString -> is_declared t = false -> t = TString.
Proof. destruct t; cbn; try discriminate; reflexivity. Qed.
Lemma rkind_eqb_eq a b : rkind_eqb a b = true -> a = b.
Proof. destruct a, b; cbn; try discriminate; try reflexivity. intros H. apply kind_eqb_eq in H. subst. reflexivity. Qed.

Lemma eq_ok l' r' tl tr va vb l0 s0 :
  kind_of l' = kind_of_ty tl -> kind_of r' = kind_of_ty tr ->
  negb (is_declared tl) && negb (is_declared tr) = true ->
  has_ty va tl -> has_ty vb tr -> res_ok TBool (bin_strict fe cfg l0 BEq l' r' va vb s0).
Proof.
  intros Kl Kr Hp Ha Hb. cbn [bin_strict]. rewrite !(both_kind_settled _ _ _ _ _ Kl Kr).
  apply andb_prop in Hp. destruct Hp as [Dl Dr]. apply negb_true_iff in Dl, Dr.
  assert (G : res_ok TBool (lift l0 s0 (p_equal va vb) (fun v => Done v s0))).
  { pose proof (equal_ok te ftab nn va vb (has_ty_wf _ _ _ _ _ Ha) (has_ty_wf _ _ _ _ _ Hb)) as P.
    destruct (p_equal va vb) as [v|e]; cbn; [|exact P]. destruct P as [b ->]. apply ty_bool. }
  destruct (rkind_eqb (kind_of_ty tl) (RKNum KInt) && rkind_eqb (kind_of_ty tr) (RKNum KInt)) eqn:E1.
  - apply andb_prop in E1. destruct E1 as [E1 E2]. apply rkind_eqb_eq in E1, E2.
    rewrite (kind_num_plain _ _ E1 Dl) in Ha. rewrite (kind_num_plain _ _ E2 Dr) in Hb.
    destruct (inv_num _ _ _ _ _ Ha) as (x & -> & Kx & Sx). destruct (inv_num _ _ _ _ _ Hb) as (y & -> & Ky & Sy).
    destruct (int_kint _ Kx Sx) as [zx ->]. destruct (int_kint _ Ky Sy) as [zy ->]. cbn. apply ty_bool.
  - destruct (rkind_eqb (kind_of_ty tl) RKString && rkind_eqb (kind_of_ty tr) RKString) eqn:E2; [|exact G].
    apply andb_prop in E2. destruct E2 as [E2 E3]. apply rkind_eqb_eq in E2, E3.
    rewrite (kind_str_plain _ E2 Dl) in Ha. rewrite (kind_str_plain _ E3 Dr) in Hb.
    destruct (inv_str _ _ _ _ Ha) as [x ->]. destruct (inv_str _ _ _ _ Hb) as [y ->]. cbn. apply ty_bool.
Qed.

Lemma str2_ok (f : string -> string -> bool) va vb l0 s0 : has_ty va TString -> has_ty vb TString ->
  res_ok TBool (lift l0 s0 (as_str va) (fun x => lift l0 s0 (as_str vb) (fun y => Done (VBool (f x y)) s0))).
Proof.
  intros Ha Hb. destruct (inv_str _ _ _ _ Ha) as [x ->]. destruct (inv_str _ _ _ _ Hb) as [y ->]. cbn. apply ty_bool.
Qed.

Ltac rule_true E :=
  match type of E with
  | (if ?b then _ else _) = _ => destruct b; [|try discriminate]
  end.

Ltac rule_any E :=
  match type of E with
  | (if ?b then _ else _) = _ => destruct b; try discriminate E
  end.

Lemma sound_binary a op l r : sound_at l -> sound_at r -> sound_at (EBinary a op l r).
Proof.
  intros IHl IHr cols t e' H Hs ctx Hc s. cbn [visit] in H.
  destruct (visit c cols l None) as [[tl l'] st1] eqn:El.
  destruct (visit c cols r st1) as [[tr r'] st2] eqn:Er.
  destruct (emit (loc_of (EBinary a op l r)) (binary_node_rule c op tl tr) st2) as [t1 st3] eqn:Ee.
  inversion H; subst. destruct (emit_none _ _ _ _ Ee) as [-> Eru].
  pose proof (visit_none _ _ _ _ _ _ Er). subst st1.
  cbn [scope] in Hs. unfold tyof in Hs. rewrite El, Er in Hs. cbn [fst] in Hs.
  apply andb_prop in Hs. destruct Hs as [Hs Hso]. apply andb_prop in Hs. destruct Hs as [Hs Hno].
  apply andb_prop in Hs. destruct Hs as [Hsl Hsr].
  unfold binary_node_rule, overload in Eru. unfold no_overload in Hno.
  destruct (Types.assoc (binop_str op) (cc_ops c)); [discriminate|].
  pose proof (visit_kind _ _ _ _ _ El) as Kl. pose proof (visit_kind _ _ _ _ _ Er) as Kr.
  pose proof (fun s => IHl _ _ _ El Hsl ctx Hc s) as Rl. pose proof (fun s => IHr _ _ _ Er Hsr ctx Hc s) as Rr.
  cbn [settle set_ann]. rewrite sv_binary.
  destruct op; cbn [is_or is_and sc_binary binary_rule] in *; try discriminate.
  (* or / and *)
  1-4: apply andb_prop in Hso; destruct Hso as [H1 H2]; apply s_bool_inv in H1, H2; subst tl tr;
       cbn in Eru; inversion Eru; subst t;
       (eapply res_bind; [apply Rl|]); intros va s1 Ha; destruct (inv_bool _ _ _ _ Ha) as [b ->]; cbn [as_bool lift];
       destruct b; first [apply ty_bool | apply Rr].
  (* the strict operators *)
  all: (eapply res_bind; [apply Rl|]); intros va s1 Ha; (eapply res_bind; [apply Rr|]); intros vb s2 Hb.
  - (* == *) rule_true Eru. inversion Eru; subst t. eapply eq_ok; eauto.
  - (* != *) rule_true Eru. inversion Eru; subst t. cbn [bin_strict].
    pose proof (equal_ok te ftab nn va vb (has_ty_wf _ _ _ _ _ Ha) (has_ty_wf _ _ _ _ _ Hb)) as P.
    destruct (p_equal va vb) as [v|e]; cbn; [|exact P]. destruct P as [b ->]. cbn. apply ty_bool.
  - (* < *) rule_true Eru. inversion Eru; subst t. cbn [bin_strict]. eapply cmp_ok; eauto.
  - rule_true Eru. inversion Eru; subst t. cbn [bin_strict]. eapply cmp_ok; eauto.
  - rule_true Eru. inversion Eru; subst t. cbn [bin_strict]. eapply cmp_ok; eauto.
  - rule_true Eru. inversion Eru; subst t. cbn [bin_strict]. eapply cmp_ok; eauto.
  - (* not in *) rule_true Eru. inversion Eru; subst t. cbn [bin_strict].
    pose proof (in_ok te ftab nn va vb tl tr Hso Ha Hb) as P. destruct (p_in va vb) as [b|e]; cbn; [apply ty_bool|exact P].
  - (* in *) rule_true Eru. inversion Eru; subst t. cbn [bin_strict].
    pose proof (in_ok te ftab nn va vb tl tr Hso Ha Hb) as P. destruct (p_in va vb) as [b|e]; cbn; [apply ty_bool|exact P].
  - (* contains *) apply andb_prop in Hso. destruct Hso as [H1 H2]. apply s_str_inv in H1, H2. subst.
    cbn in Eru. inversion Eru; subst t. cbn [bin_strict]. apply str2_ok; assumption.
  - apply andb_prop in Hso. destruct Hso as [H1 H2]. apply s_str_inv in H1, H2. subst.
    cbn in Eru. inversion Eru; subst t. cbn [bin_strict].
    apply (str2_ok (fun x y => str_prefix y x)); assumption.
  - apply andb_prop in Hso. destruct Hso as [H1 H2]. apply s_str_inv in H1, H2. subst.
    cbn in Eru. inversion Eru; subst t. cbn [bin_strict].
    apply (str2_ok (fun x y => str_suffix y x)); assumption.
  - (* .. *) apply andb_prop in Hso. destruct Hso as [H1 H2].
    destruct (s_int_inv _ H1) as (kl & -> & Fl). destruct (s_int_inv _ H2) as (kr & -> & Fr).
    rewrite !is_integer_num, Fl, Fr in Eru. cbn in Eru. inversion Eru; subst t. cbn [bin_strict].
    destruct (inv_num _ _ _ _ _ Ha) as (x & -> & _ & _). destruct (inv_num _ _ _ _ _ Hb) as (y & -> & _ & _).
    eapply res_lift; [apply to_int_ok|]. intros lo _. eapply res_lift; [apply to_int_ok|]. intros hi _.
    destruct (range_size lo hi); [|reflexivity]. apply res_alloc. intros s'. cbn. apply make_range_ok.
  - (* + *) apply orb_prop in Hso. destruct Hso as [Hso|Hso]; apply andb_prop in Hso; destruct Hso as [H1 H2].
    + destruct (s_num_inv _ H1) as [kl ->]. destruct (s_num_inv _ H2) as [kr ->].
      rewrite !is_number_num in Eru. cbn [andb] in Eru. cbn [bin_strict]. eapply arith_ok; eauto; reflexivity.
    + apply s_str_inv in H1, H2. subst. cbn in Eru. inversion Eru; subst t. cbn [bin_strict].
      destruct (inv_str _ _ _ _ Ha) as [x ->]. destruct (inv_str _ _ _ _ Hb) as [y ->]. cbn. apply ty_str.
  - (* - *) apply andb_prop in Hso. destruct Hso as [H1 H2].
    destruct (s_num_inv _ H1) as [kl ->]. destruct (s_num_inv _ H2) as [kr ->].
    rewrite !is_number_num in Eru. cbn [andb] in Eru. cbn [bin_strict]. eapply arith_ok; eauto; reflexivity.
  - (* * *) apply andb_prop in Hso. destruct Hso as [H1 H2].
    destruct (s_num_inv _ H1) as [kl ->]. destruct (s_num_inv _ H2) as [kr ->].
    rewrite !is_number_num in Eru. cbn [andb] in Eru. cbn [bin_strict]. eapply arith_ok; eauto; reflexivity.
  - (* / *) apply andb_prop in Hso. destruct Hso as [H1 H2].
    destruct (s_num_inv _ H1) as [kl ->]. destruct (s_num_inv _ H2) as [kr ->].
    rewrite !is_number_num in Eru. cbn [andb] in Eru. cbn [bin_strict]. eapply arith_ok; eauto; reflexivity.
  - (* % *) apply andb_prop in Hso. destruct Hso as [H1 H2].
    destruct (s_int_inv _ H1) as (kl & -> & Fl). destruct (s_int_inv _ H2) as (kr & -> & Fr).
    rewrite !is_integer_num, Fl, Fr in Eru. cbn [andb negb] in Eru. cbn [bin_strict]. eapply arith_ok; eauto.
    cbn. rewrite Fl, Fr. reflexivity.
  - (* ** *) apply andb_prop in Hso. destruct Hso as [H1 H2].
    destruct (s_num_inv _ H1) as [kl ->]. destruct (s_num_inv _ H2) as [kr ->].
    rewrite !is_number_num in Eru. cbn in Eru. inversion Eru; subst t. cbn [bin_strict].
    destruct (inv_num _ _ _ _ _ Ha) as (x & -> & _ & _). destruct (inv_num _ _ _ _ _ Hb) as (y & -> & _ & _).
    eapply res_lift; [apply to_float64_ok|]. intros fx _. eapply res_lift; [apply to_float64_ok|]. intros fy _.
    cbn. apply (ty_num _ _ _ (NFlt KF64 _)). reflexivity.
Qed.

(* ---- matches ---- *)
Lemma sound_matches a re l r : sound_at l -> sound_at r -> sound_at (EMatches a re l r).
Proof.
  intros IHl IHr cols t e' H Hs ctx Hc s. cbn [visit] in H.
  destruct (visit c cols l None) as [[tl l'] st1] eqn:El.
  destruct (visit c cols r st1) as [[tr r'] st2] eqn:Er.
  destruct (emit (loc_of (EMatches a re l r)) (matches_rule tl tr) st2) as [t1 st3] eqn:Ee.
  inversion H; subst. destruct (emit_none _ _ _ _ Ee) as [-> Eru].
  pose proof (visit_none _ _ _ _ _ _ Er). subst st1.
  cbn [scope] in Hs. unfold tyof in Hs. rewrite El, Er in Hs. cbn [fst] in Hs.
  apply andb_prop in Hs. destruct Hs as [Hs H2]. apply andb_prop in Hs. destruct Hs as [Hs H1].
  apply andb_prop in Hs. destruct Hs as [Hsl Hsr]. apply s_str_inv in H1, H2. subst tl tr.
  cbn in Eru. inversion Eru; subst t.
  pose proof (fun s => IHl _ _ _ El Hsl ctx Hc s) as Rl. pose proof (fun s => IHr _ _ _ Er Hsr ctx Hc s) as Rr.
  cbn [settle set_ann]. rewrite sv_matches.
  - eapply res_bind; [apply Rl|]. intros va s1 Ha. eapply res_bind; [apply Rr|]. intros vb s2 Hb.
    destruct (inv_str _ _ _ _ Ha) as [x ->]. destruct (inv_str _ _ _ _ Hb) as [p ->]. cbn [as_str lift].
    destruct (re_match fe p x); [apply ty_bool|reflexivity].
Qed.

(* ---- conditional ---- *)
Lemma cond_rule_same u : cond_rule u u = u.
Proof.
  unfold cond_rule. destruct (is_nil_ty u) eqn:E; cbn.
  - destruct u; try discriminate. reflexivity.
  - rewrite assignable_self. reflexivity.
Qed.

Lemma sound_cond a cnd x y : sound_at cnd -> sound_at x -> sound_at y -> sound_at (ECond a cnd x y).
Proof.
  intros IHc IHx IHy cols t e' H Hs ctx Hc s. cbn [visit] in H.
  destruct (visit c cols cnd None) as [[tc cnd'] st1] eqn:Ec.
  cbn [scope] in Hs. unfold tyof in Hs. rewrite Ec in Hs. cbn [fst] in Hs.
  apply andb_prop in Hs. destruct Hs as [Hs Hsc]. apply andb_prop in Hs. destruct Hs as [Hs Hb].
  apply andb_prop in Hs. destruct Hs as [Hs Hsy]. apply andb_prop in Hs. destruct Hs as [Hscn Hsx].
  apply s_bool_inv in Hb. subst tc. cbn [is_bool dk dereference kind_of_ty negb] in H.
  destruct (visit c cols x st1) as [[t1 x'] st2] eqn:Ex.
  destruct (visit c cols y st2) as [[t2 y'] st3] eqn:Ey.
  inversion H; subst. pose proof (visit_none _ _ _ _ _ _ Ey). subst st2.
  pose proof (visit_none _ _ _ _ _ _ Ex). subst st1.
  rewrite Ex, Ey in Hsc. cbn [fst] in Hsc.
  pose proof (fun s => IHc _ _ _ Ec Hscn ctx Hc s) as Rc.
  pose proof (fun s => IHx _ _ _ Ex Hsx ctx Hc s) as Rx. pose proof (fun s => IHy _ _ _ Ey Hsy ctx Hc s) as Ry.
  cbn [settle set_ann]. rewrite sv_cond. eapply res_bind; [apply Rc|]. intros vc s1 Hvc.
  destruct (inv_bool _ _ _ _ Hvc) as [b ->]. cbn [as_bool lift].
  unfold sc_cond in Hsc. apply orb_prop in Hsc. destruct Hsc as [Hsc|Hsc].
  - apply ty_eqb_eq in Hsc. subst t2. rewrite cond_rule_same. destruct b; [apply Rx|apply Ry].
  - apply andb_prop in Hsc. destruct Hsc as [Hsc N3]. apply andb_prop in Hsc. destruct Hsc as [N1 N2].
    apply negb_true_iff in N1, N2, N3. unfold cond_rule. rewrite N1, N2, N3. cbn.
    destruct b; [specialize (Rx s1); destruct (ev ctx x' s1)|specialize (Ry s1); destruct (ev ctx y' s1)]; cbn in *;
      auto; apply has_ty_iface; eapply has_ty_wf; eassumption.
Qed.

(* ---- member access ---- *)
Lemma field_type_deref n t t' name : dereference t = dereference t' -> field_type te n t name = field_type te n t' name.
Proof. intros E. destruct n; cbn [field_type]; rewrite E; reflexivity. Qed.

Lemma member_resolves sn' t name ft : dereference t = TStruct sn' ->
  sc_member te sn' t name = true -> field_type te (fuel0 te) t name = LFound ft ->
  exists pth, go_resolve_field te sn' name = RField pth ft true.
Proof.
  unfold sc_member. intros D Hs Hft.
  apply andb_prop in Hs. destruct Hs as [Hs _]. apply andb_prop in Hs. destruct Hs as [Hs Hu].
  apply andb_prop in Hs. destruct Hs as [Hf Hm]. apply negb_true_iff in Hu, Hm.
  destruct (field_type_sound te Hwf _ t sn' name ft Hf D Hft Hm) as (d & p & f & R & -> & Hd).
  exists p. unfold unexported_member in Hu. unfold go_resolve_field in *.
  rewrite (search_found te sn' name d p f R) in * by (unfold fuel0 in Hd; lia).
  destruct (fd_exp f); [reflexivity|discriminate].
Qed.

Lemma sc_member_found sn' t name : sc_member te sn' t name = true ->
  exists ft, field_type te (fuel0 te) t name = LFound ft.
Proof.
  unfold sc_member. intros H. apply andb_prop in H. destruct H as [_ H].
  destruct (field_type te (fuel0 te) t name); try discriminate. eauto.
Qed.

Lemma sound_property a x name ns : sound_at x -> sound_at (EProperty a x name ns).
Proof.
  intros IH cols t e' H Hs ctx Hc s. cbn [visit] in H.
  destruct (visit c cols x None) as [[tx x'] st1] eqn:Ex.
  destruct (emit (loc_of (EProperty a x name ns)) (property_rule c tx name ns) st1) as [t1 st2] eqn:Ee.
  inversion H; subst. destruct (emit_none _ _ _ _ Ee) as [-> Eru].
  cbn [scope] in Hs. unfold tyof in Hs. rewrite Ex in Hs. cbn [fst] in Hs.
  apply andb_prop in Hs. destruct Hs as [Hsx Hsp].
  cbn [settle set_ann]. rewrite sv_property. eapply res_bind; [exact (IH _ _ _ Ex Hsx ctx Hc s)|].
  intros v s1 Hv. unfold property_rule, Checker.te, cfuel, Checker.te in Eru.
  destruct tx as [| | | | | |kt et|sn'|tp| | |]; try discriminate.
  - (* map[string]T *)
    cbn [sc_property] in Hsp. apply andb_prop in Hsp. destruct Hsp as [Hk Hz]. apply s_str_inv in Hk. subst kt.
    cbn in Eru. inversion Eru; subst t.
    pose proof (fetch_map te ftab nn v (VStr name) TString et ns Hv (ty_str _ _ _ name) eq_refl Hz) as P.
    destruct (p_fetch v (VStr name) ns); cbn; exact P.
  - (* struct *)
    cbn [sc_property] in Hsp. destruct (sc_member_found _ _ _ Hsp) as [ft Hft]. rewrite Hft in Eru.
    inversion Eru; subst t. destruct (member_resolves sn' (TStruct sn') name ft eq_refl Hsp Hft) as [pth R].
    destruct (inv_struct _ _ _ _ _ Hv) as [fields ->].
    destruct (fetch_member te ftab nn sn' false fields name pth ft ns (has_ty_wf _ _ _ _ _ Hv) R) as (r & Ef & Hr).
    rewrite Ef. cbn. exact Hr.
  - (* pointer to struct, no nil pointers *)
    destruct tp as [| | | | | | |sn'| | | |]; try discriminate. cbn [sc_property] in Hsp.
    apply andb_prop in Hsp. destruct Hsp as [Hnn Hsp].
    destruct (sc_member_found _ _ _ Hsp) as [ft Hft]. rewrite Hft in Eru.
    inversion Eru; subst t. destruct (member_resolves sn' (TPtr (TStruct sn')) name ft eq_refl Hsp Hft) as [pth R].
    destruct (inv_ptr_struct _ _ _ _ _ Hv) as [[fields ->]|[_ Hn]]; [|congruence].
    destruct (fetch_member te ftab nn sn' true fields name pth ft ns (has_ty_wf _ _ _ _ _ Hv) R) as (r & Ef & Hr).
    rewrite Ef. cbn. exact Hr.
Qed.

Lemma sound_index a x i : sound_at x -> sound_at i -> sound_at (EIndex a x i).
Proof.
  intros IHx IHi cols t e' H Hs ctx Hc s. cbn [visit] in H.
  destruct (visit c cols x None) as [[tx x'] st1] eqn:Ex.
  destruct (visit c cols i st1) as [[ti i'] st2] eqn:Ei.
  destruct (emit (loc_of (EIndex a x i)) (index_rule tx ti) st2) as [t1 st3] eqn:Ee.
  inversion H; subst. destruct (emit_none _ _ _ _ Ee) as [-> Eru].
  pose proof (visit_none _ _ _ _ _ _ Ei). subst st1.
  cbn [scope] in Hs. unfold tyof in Hs. rewrite Ex, Ei in Hs. cbn [fst] in Hs.
  apply andb_prop in Hs. destruct Hs as [Hs Hsi]. apply andb_prop in Hs. destruct Hs as [Hsx Hsy].
  pose proof (fun s => IHx _ _ _ Ex Hsx ctx Hc s) as Rx. pose proof (fun s => IHi _ _ _ Ei Hsy ctx Hc s) as Ri.
  cbn [settle set_ann]. rewrite sv_index. eapply res_bind; [apply Rx|]. intros v s1 Hv.
  eapply res_bind; [apply Ri|]. intros vi s2 Hvi.
  unfold index_rule in Eru. destruct tx; try discriminate; cbn [sc_index index_type dereference under] in *.
  - destruct (s_int_inv _ Hsi) as (k & -> & Fk). rule_any Eru. inversion Eru; subst t.
    pose proof (fetch_slice te ftab nn v vi tx k false Hv Hvi) as P. destruct (p_fetch v vi false); cbn; exact P.
  - apply andb_prop in Hsi. destruct Hsi as [Hsi Hz]. apply andb_prop in Hsi. destruct Hsi as [Hk He].
    apply ty_eqb_eq in He. subst ti. rule_any Eru. inversion Eru; subst t.
    pose proof (fetch_map te ftab nn v vi tx1 tx2 false Hv Hvi Hk Hz) as P. destruct (p_fetch v vi false); cbn; exact P.
Qed.

(* ---- slice ---- *)
Ltac kill_fail H :=
  match type of H with
  | context [fail_at ?l ?k ?st] =>
      let F := fresh "F" in
      destruct (fail_at l k st) as [? ?] eqn:F; inversion H; subst; exfalso; eapply fail_at_none; exact F
  end.

Definition opt_vis (cols : list ty) (o o' : option expr) : Prop :=
  match o, o' with
  | Some f, Some f' => exists k, visit c cols f None = (TNum k, f', None) /\ scope c nn cols f = true
  | None, None => True
  | _, _ => False
  end.

Lemma idx_scope cols f tf f' st :
  visit c cols f None = (tf, f', st) -> scope c nn cols f && s_int (tyof c cols f) = true ->
  scope c nn cols f = true /\ exists k, tf = TNum k /\ is_float k = false.
Proof.
  intros E H. unfold tyof in H. rewrite E in H. cbn [fst] in H. apply andb_prop in H. destruct H as [H1 H2].
  split; [exact H1|]. apply s_int_inv. exact H2.
Qed.

Lemma slice_inv cols a x from to t e' :
  visit c cols (ESlice a x from to) None = (t, e', None) -> scope c nn cols (ESlice a x from to) = true ->
  exists x' from' to', visit c cols x None = (t, x', None) /\
    e' = ESlice (mkAnn (aloc a) (kind_of_ty t)) x' from' to' /\
    scope c nn cols x = true /\ sc_sliceable t = true /\ opt_vis cols from from' /\ opt_vis cols to to'.
Proof.
  intros H Hs. cbn [visit] in H. destruct (visit c cols x None) as [[tx x'] st1] eqn:Ex.
  cbn [scope] in Hs. unfold tyof at 1 in Hs. rewrite Ex in Hs. cbn [fst] in Hs.
  apply andb_prop in Hs. destruct Hs as [Hs Hu]. apply andb_prop in Hs. destruct Hs as [Hs Hf].
  apply andb_prop in Hs. destruct Hs as [Hsx Hsl].
  assert (sliceable tx = true) as SL by (destruct tx; try discriminate; reflexivity). rewrite SL in H.
  destruct from as [f|], to as [u|].
  - destruct (visit c cols f st1) as [[tf f'] st2] eqn:Ef. destruct (negb (is_integer tf)) eqn:Nf; [kill_fail H|].
    destruct (visit c cols u st2) as [[tu u'] st3] eqn:Eu. destruct (negb (is_integer tu)) eqn:Nu; [kill_fail H|].
    inversion H; subst. pose proof (visit_none _ _ _ _ _ _ Eu). subst st2.
    pose proof (visit_none _ _ _ _ _ _ Ef). subst st1.
    destruct (idx_scope _ _ _ _ _ Ef Hf) as [Sf (kf & -> & _)]. destruct (idx_scope _ _ _ _ _ Eu Hu) as [Su (ku & -> & _)].
    exists x', (Some f'), (Some u'). repeat split; auto; cbn; eauto.
  - destruct (visit c cols f st1) as [[tf f'] st2] eqn:Ef. destruct (negb (is_integer tf)) eqn:Nf; [kill_fail H|].
    inversion H; subst. pose proof (visit_none _ _ _ _ _ _ Ef). subst st1.
    destruct (idx_scope _ _ _ _ _ Ef Hf) as [Sf (kf & -> & _)].
    exists x', (Some f'), None. repeat split; auto; cbn; eauto.
  - destruct (visit c cols u st1) as [[tu u'] st3] eqn:Eu. destruct (negb (is_integer tu)) eqn:Nu; [kill_fail H|].
    inversion H; subst. pose proof (visit_none _ _ _ _ _ _ Eu). subst st1.
    destruct (idx_scope _ _ _ _ _ Eu Hu) as [Su (ku & -> & _)].
    exists x', None, (Some u'). repeat split; auto; cbn; eauto.
  - inversion H; subst. exists x', None, None. repeat split; auto.
Qed.

Lemma sound_slice a x from to :
  sound_at x -> (forall f, from = Some f -> sound_at f) -> (forall u, to = Some u -> sound_at u) ->
  sound_at (ESlice a x from to).
Proof.
  intros IHx IHf IHu cols t e' H Hs ctx Hc s.
  destruct (slice_inv _ _ _ _ _ _ _ H Hs) as (x' & from' & to' & Ex & -> & Hsx & Hsl & Of & Ou).
  rewrite sv_slice. eapply res_bind; [exact (IHx _ _ _ Ex Hsx ctx Hc s)|]. intros v s1 Hv.
  assert (Rto : exists k, res_ok (TNum k)
            (match to' with Some u => ev ctx u s1 | None => lift (aloc a) s1 (p_length v) (fun n => Done (vint n) s1) end)).
  { destruct to as [u|], to' as [u'|]; cbn in Ou; try contradiction.
    - destruct Ou as (k & Eu & Su). exists k. exact (IHu u eq_refl _ _ _ Eu Su ctx Hc s1).
    - exists KInt. destruct (length_ok te ftab nn v t) as [n ->]; auto.
      + destruct t; try discriminate; reflexivity.
      + cbn. apply ty_vint. }
  destruct Rto as [ku Rto]. eapply res_bind; [exact Rto|]. intros vto s2 Hto.
  assert (Rfrom : exists k, res_ok (TNum k) (match from' with Some f => ev ctx f s2 | None => Done (vint 0) s2 end)).
  { destruct from as [f|], from' as [f'|]; cbn in Of; try contradiction.
    - destruct Of as (k & Ef & Sf). exists k. exact (IHf f eq_refl _ _ _ Ef Sf ctx Hc s2).
    - exists KInt. cbn. apply ty_vint. }
  destruct Rfrom as [kf Rfrom]. eapply res_bind; [exact Rfrom|]. intros vfrom s3 Hfrom.
  pose proof (slice_ok te ftab nn v vfrom vto t kf ku Hsl Hv Hfrom Hto) as P.
  destruct (p_slice v vfrom vto); cbn; exact P.
Qed.

(* ---- len ---- *)
Lemma sound_len a x : sound_at x -> sound_at (EBuiltin a BiLen [x]).
Proof.
  intros IH cols t e' H Hs ctx Hc s. cbn [visit] in H.
  destruct (visit c cols x None) as [[tx x'] st1] eqn:Ex.
  destruct (emit (loc_of (EBuiltin a BiLen [x])) (len_rule tx) st1) as [t1 st2] eqn:Ee.
  inversion H; subst. destruct (emit_none _ _ _ _ Ee) as [-> Eru].
  cbn [scope] in Hs. unfold tyof in Hs. rewrite Ex in Hs. cbn [fst] in Hs.
  apply andb_prop in Hs. destruct Hs as [Hsx Hsl].
  unfold len_rule in Eru. rule_any Eru. inversion Eru; subst t.
  cbn [settle set_ann]. rewrite sv_len. eapply res_bind; [exact (IH _ _ _ Ex Hsx ctx Hc s)|]. intros v s1 Hv.
  destruct (length_ok te ftab nn v tx Hsl Hv) as [n ->]. cbn. apply ty_vint.
Qed.

(* ---- # ---- *)
Lemma sound_pointer a : sound_at (EPointer a).
Proof.
  intros cols t e' H Hs ctx Hc s. cbn [visit] in H.
  destruct (emit (loc_of (EPointer a)) (pointer_rule cols) None) as [t1 st1] eqn:Ee.
  inversion H; subst. destruct (emit_none _ _ _ _ Ee) as [_ Eru].
  cbn [scope] in Hs. destruct cols as [|c0 cols]; [discriminate|]. destruct c0; try discriminate.
  cbn in Eru. inversion Eru; subst t.
  inversion Hc as [|[arr i] ? ctx' ? [_ Harr] Hrest]; subst. cbn [fst] in Harr.
  cbn [settle set_ann eval].
  pose proof (fetch_slice te ftab nn arr (vint i) c0 KInt false Harr (ty_vint _ _ _ i)) as P.
  destruct (p_fetch arr (vint i) false); cbn; exact P.
Qed.

(* ---- array literal ---- *)
Lemma scope_array cols a es : scope c nn cols (EArray a es) = forallb (scope c nn cols) es.
Proof. reflexivity. Qed.

Lemma ev_list_ok cols ctx es es' t : ctx_ok ctx cols ->
  Forall sound_at es -> forallb (scope c nn cols) es = true ->
  Forall2 (fun x x' => exists t, visit c cols x None = (t, x', None)) es es' ->
  forall s k, (forall vs s', Forall (fun v => vwf v) vs -> res_ok t (k vs s')) ->
  res_ok t (ev_list fe cfg env ctx es' s k).
Proof.
  intros Hc HF Hs H2. induction H2 as [|x x' r r' [tx Ex] _ IH]; intros s k Hk.
  - cbn. apply Hk. constructor.
  - inversion HF; subst. cbn [forallb] in Hs. apply andb_prop in Hs. destruct Hs as [Hsx Hsr].
    cbn [ev_list]. eapply res_bind; [match goal with HS : sound_at x |- _ => exact (HS _ _ _ Ex Hsx ctx Hc s) end|].
    intros v s1 Hv. apply IH; auto. intros vs s' Hvs. apply Hk. constructor; [eapply has_ty_wf; exact Hv|exact Hvs].
Qed.

Lemma sound_array a es : Forall sound_at es -> sound_at (EArray a es).
Proof.
  intros HF cols t e' H Hs ctx Hc s. rewrite visit_array in H.
  destruct (vlist c cols es None) as [es' st1] eqn:El. inversion H; subst.
  rewrite scope_array in Hs. cbn [settle set_ann]. rewrite sv_array.
  eapply ev_list_ok; eauto using vlist_inv. intros vs s' Hvs. apply res_alloc. intros s2. cbn.
  apply ty_arr. eapply Forall_impl; [|exact Hvs]. intros v Hv. apply has_ty_iface. exact Hv.
Qed.

(* ---- map literal ---- *)
Definition sc_pairs (cols : list ty) : list expr -> bool :=
  fix spairs (ps : list expr) {struct ps} : bool :=
  match ps with
  | [] => true
  | EPair _ k v :: r => scope c nn cols k && scope c nn cols v && s_str (tyof c cols k) && spairs r
  | _ :: _ => false
  end.

Lemma sc_pairs_cons cols x r :
  sc_pairs cols (x :: r) =
  match x with
  | EPair _ k v => scope c nn cols k && scope c nn cols v && s_str (tyof c cols k) && sc_pairs cols r
  | _ => false
  end.
Proof. destruct x; reflexivity. Qed.

Lemma scope_map cols a ps : scope c nn cols (Ast.EMap a ps) = sc_pairs cols ps.
Proof. reflexivity. Qed.

Definition pair_sound (p : expr) : Prop := forall a k v, p = EPair a k v -> sound_at k /\ sound_at v.

Lemma ev_pairs_ok cols ctx l0 ps ps' t : ctx_ok ctx cols ->
  Forall pair_sound ps -> sc_pairs cols ps = true ->
  Forall2 (fun x x' => exists t, visit c cols x None = (t, x', None)) ps ps' ->
  forall s k, (forall kvs s', Forall (fun p => has_ty (fst p) TString /\ vwf (snd p)) kvs -> res_ok t (k kvs s')) ->
  res_ok t (ev_pairs fe cfg env ctx l0 ps' s k).
Proof.
  intros Hc HF Hs H2. induction H2 as [|x x' r r' [tx Ex] _ IH]; intros s k Hk.
  - cbn. apply Hk. constructor.
  - inversion HF as [|? ? Hp HFr]; subst. rewrite sc_pairs_cons in Hs. destruct x; try discriminate.
    apply andb_prop in Hs. destruct Hs as [Hs Hsr]. apply andb_prop in Hs. destruct Hs as [Hs Hstr].
    apply andb_prop in Hs. destruct Hs as [Hsk Hsv].
    destruct (Hp _ _ _ eq_refl) as [Sk Sv]. cbn [visit] in Ex.
    destruct (visit c cols x1 None) as [[tk k'] st1] eqn:Ek. destruct (visit c cols x2 st1) as [[tv v'] st2] eqn:Ev.
    inversion Ex; subst. pose proof (visit_none _ _ _ _ _ _ Ev). subst st1.
    unfold tyof in Hstr. rewrite Ek in Hstr. cbn [fst] in Hstr. apply s_str_inv in Hstr. subst tk.
    cbn [settle set_ann ev_pairs].
    eapply res_bind; [exact (Sk _ _ _ Ek Hsk ctx Hc s)|]. intros vk s1 Hvk.
    eapply res_bind; [exact (Sv _ _ _ Ev Hsv ctx Hc s1)|]. intros vv s2 Hvv.
    apply IH; auto. intros kvs s' Hkvs. apply Hk. constructor; [|exact Hkvs]. cbn. split; [exact Hvk|eapply has_ty_wf; exact Hvv].
Qed.

Lemma sound_map a ps : Forall pair_sound ps -> sound_at (Ast.EMap a ps).
Proof.
  intros HF cols t e' H Hs ctx Hc s. rewrite visit_map in H.
  destruct (vlist c cols ps None) as [ps' st1] eqn:El. inversion H; subst.
  rewrite scope_map in Hs. cbn [settle set_ann]. rewrite sv_map.
  eapply ev_pairs_ok; eauto using vlist_inv. intros kvs s' Hkvs.
  destruct (keys_as_str_ok te ftab nn kvs Hkvs) as (skvs & -> & Hsk). cbn [lift].
  apply res_alloc. intros s2. cbn. apply ty_map_lit. exact Hsk.
Qed.

(* ---- the builtins with a closure ---- *)
Section LoopLemmas.
Variable body : Z -> rstate -> result.
Variable l : loc.

Lemma all_loop_ok : (forall i s, res_ok TBool (body i s)) -> forall n i s, res_ok TBool (all_loop body l n i s).
Proof.
  intros Hb. induction n as [|n IH]; intros i s; cbn [all_loop]; [apply ty_bool|].
  eapply res_bind; [apply Hb|]. intros v s1 Hv. destruct (inv_bool _ _ _ _ Hv) as [b ->]. cbn.
  destruct b; [apply IH|apply ty_bool].
Qed.

Lemma none_loop_ok : (forall i s, res_ok TBool (body i s)) -> forall n i s, res_ok TBool (none_loop body l n i s).
Proof.
  intros Hb. induction n as [|n IH]; intros i s; cbn [none_loop]; [apply ty_bool|].
  eapply res_bind; [apply Hb|]. intros v s1 Hv. destruct (inv_bool _ _ _ _ Hv) as [b ->]. cbn.
  destruct b; [apply ty_bool|apply IH].
Qed.

Lemma any_loop_ok : (forall i s, res_ok TBool (body i s)) -> forall n i s, res_ok TBool (any_loop body l n i s).
Proof.
  intros Hb. induction n as [|n IH]; intros i s; cbn [any_loop]; [apply ty_bool|].
  eapply res_bind; [apply Hb|]. intros v s1 Hv. destruct (inv_bool _ _ _ _ Hv) as [b ->]. cbn.
  destruct b; [apply ty_bool|apply IH].
Qed.

Lemma count_loop_ok t k : (forall i s, res_ok TBool (body i s)) -> (forall cnt s, res_ok t (k cnt s)) ->
  forall n i cnt s, res_ok t (count_loop body l n i cnt s k).
Proof.
  intros Hb Hk. induction n as [|n IH]; intros i cnt s; cbn [count_loop]; [apply Hk|].
  eapply res_bind; [apply Hb|]. intros v s1 Hv. destruct (inv_bool _ _ _ _ Hv) as [b ->]. cbn. apply IH.
Qed.

Lemma filter_loop_ok t el elem k : (forall i s, res_ok TBool (body i s)) ->
  (forall i, out_ok (fun x => has_ty x el) (elem i)) ->
  (forall xs s, Forall (fun x => has_ty x el) xs -> res_ok t (k xs s)) ->
  forall n i acc s, Forall (fun x => has_ty x el) acc -> res_ok t (filter_loop body l elem n i acc s k).
Proof.
  intros Hb He Hk. induction n as [|n IH]; intros i acc s Hacc; cbn [filter_loop].
  - apply Hk. apply Forall_rev. exact Hacc.
  - eapply res_bind; [apply Hb|]. intros v s1 Hv. destruct (inv_bool _ _ _ _ Hv) as [b ->]. cbn [as_bool lift].
    destruct b; [|apply IH; exact Hacc].
    eapply res_lift; [apply He|]. intros x Hx. apply IH. constructor; assumption.
Qed.

Lemma map_loop_ok t tb k : (forall i s, res_ok tb (body i s)) ->
  (forall xs s, Forall (fun x => has_ty x tb) xs -> res_ok t (k xs s)) ->
  forall n i acc s, Forall (fun x => has_ty x tb) acc -> res_ok t (map_loop body n i acc s k).
Proof.
  intros Hb Hk. induction n as [|n IH]; intros i acc s Hacc; cbn [map_loop].
  - apply Hk. apply Forall_rev. exact Hacc.
  - eapply res_bind; [apply Hb|]. intros v s1 Hv. apply IH. constructor; assumption.
Qed.
End LoopLemmas.

Lemma loop_inv cols a b x ac body t e' : is_loop_builtin b = true ->
  visit c cols (EBuiltin a b [x; EClosure ac body]) None = (t, e', None) ->
  scope c nn cols (EBuiltin a b [x; EClosure ac body]) = true ->
  exists el x' tb body' an acl,
    visit c cols x None = (TSlice el, x', None) /\ visit c (TSlice el :: cols) body None = (tb, body', None) /\
    e' = EBuiltin an b [x'; EClosure acl body'] /\ aloc an = aloc a /\
    scope c nn cols x = true /\ scope c nn (TSlice el :: cols) body = true /\ sc_closure b el tb = true /\
    closure_rule b (TSlice el) (TFunc [TIface] false [if is_nil_ty tb then TIface else tb]) = inl t.
Proof.
  intros Hb H Hs.
  destruct b; try discriminate Hb; cbn [visit] in H;
  (destruct (visit c cols x None) as [[tx x'] st1] eqn:Ex;
   cbn [scope] in Hs; unfold tyof in Hs; rewrite Ex in Hs; cbn [fst] in Hs;
   apply andb_prop in Hs; destruct Hs as [Hsx Hs]; destruct tx; try discriminate Hs;
   cbn [is_array dk dereference kind_of_ty negb] in H;
   destruct (visit c (TSlice tx :: cols) body st1) as [[tb body'] st2] eqn:Eb;
   match type of H with context [emit ?l ?r ?st] => destruct (emit l r st) as [t3 st3] eqn:Ee end;
   inversion H; subst; destruct (emit_none _ _ _ _ Ee) as [-> Eru];
   pose proof (visit_none _ _ _ _ _ _ Eb); subst st1;
   rewrite Eb in Hs; cbn [fst] in Hs; apply andb_prop in Hs; destruct Hs as [Hsb Hsc];
   do 6 eexists; repeat split; eauto).
Qed.

Lemma sound_loop a b x ac body : is_loop_builtin b = true -> sound_at x -> sound_at body ->
  sound_at (EBuiltin a b [x; EClosure ac body]).
Proof.
  intros Hb IHx IHb cols t e' H Hs ctx Hc s.
  destruct (loop_inv _ _ _ _ _ _ _ _ Hb H Hs) as (el & x' & tb & body' & an & acl & Ex & Eb & -> & Ean & Hsx & Hsb & Hsc & Eru).
  rewrite sv_loop by exact Hb. eapply res_bind; [exact (IHx _ _ _ Ex Hsx ctx Hc s)|]. intros v s1 Hv.
  destruct (length_ok te ftab nn v (TSlice el) eq_refl Hv) as [n ->]. cbn [lift].
  assert (Hbody : forall i s', res_ok tb (ev ((v, i) :: ctx) (EClosure acl body') s')).
  { intros i s'. rewrite sv_closure. apply (IHb _ _ _ Eb Hsb). constructor; [|exact Hc]. split; [eauto|exact Hv]. }
  assert (Helem : forall i, out_ok (fun r => has_ty r el) (p_fetch v (vint i) false)).
  { intros i. exact (fetch_slice te ftab nn v (vint i) el KInt false Hv (ty_vint _ _ _ i)). }
  unfold closure_rule in Eru. cbn [closure_out is_interface dk dereference kind_of_ty] in Eru.
  destruct b; try discriminate Hb; cbn [sc_closure] in Hsc; cbn [builtin_body].
  - apply s_bool_inv in Hsc. subst tb. cbn in Eru. inversion Eru; subst t. apply all_loop_ok. exact Hbody.
  - apply s_bool_inv in Hsc. subst tb. cbn in Eru. inversion Eru; subst t. apply none_loop_ok. exact Hbody.
  - apply s_bool_inv in Hsc. subst tb. cbn in Eru. inversion Eru; subst t. apply any_loop_ok. exact Hbody.
  - apply s_bool_inv in Hsc. subst tb. cbn in Eru. inversion Eru; subst t. apply count_loop_ok; [exact Hbody|].
    intros cnt s2.
    pose proof (equal_pair te ftab nn (vint cnt) (vint 1) (TNum KInt) (TNum KInt) eq_refl (ty_vint _ _ _ cnt) (ty_vint _ _ _ 1%Z)) as P.
    destruct (p_equal (vint cnt) (vint 1)) as [r|er]; cbn; [|exact P]. destruct P as [b ->]. apply ty_bool.
  - apply andb_prop in Hsc. destruct Hsc as [H1 H2]. apply s_bool_inv in H1. apply s_iface_inv in H2. subst tb el.
    cbn in Eru. inversion Eru; subst t.
    eapply filter_loop_ok with (el := TIface); [exact Hbody|exact Helem| |constructor].
    intros xs s2 Hxs. apply res_alloc. intros s3. cbn. apply ty_arr. exact Hxs.
  - assert (t = TSlice TIface) as ->.
    { apply orb_prop in Hsc. destruct Hsc as [Hsc|Hsc].
      - apply s_iface_inv in Hsc. subst tb. cbn in Eru. inversion Eru. reflexivity.
      - rewrite Hsc in Eru. inversion Eru. reflexivity. }
    eapply map_loop_ok with (tb := tb); [exact Hbody| |constructor].
    intros xs s2 Hxs. apply res_alloc. intros s3. cbn. apply ty_arr.
    eapply Forall_impl; [|exact Hxs]. intros r Hr. apply has_ty_iface. eapply has_ty_wf; exact Hr.
  - apply s_bool_inv in Hsc. subst tb. cbn in Eru. inversion Eru; subst t. apply count_loop_ok; [exact Hbody|].
    intros cnt s2. cbn. apply ty_vint.
Qed.

(* ---- calls: integer-literal arithmetic in argument position (retyped by the checker) ---- *)
Definition lit_kind (pin : ty) : kind := match pin with TNum k => k | _ => KInt end.

Lemma int_const_lit l pin z : (s_num pin || s_iface pin) = true ->
  has_ty (int_const (mkAnn l (kind_of_ty pin)) z) (TNum (lit_kind pin)).
Proof.
  destruct pin; try discriminate; intros _; cbn [kind_of_ty lit_kind]; unfold int_const; cbn [akind].
  - destruct (is_float k) eqn:E.
    + apply (ty_num _ _ _ (NFlt k _)). exact E.
    + apply (ty_num _ _ _ (NInt k _)). cbn. rewrite E. reflexivity.
  - apply ty_vint.
Qed.

Lemma comb_same k : comb (TNum k) (TNum k) = inl (TNum k).
Proof.
  unfold comb. rewrite combined_ty_num. unfold combined. cbn.
  match goal with |- context [if ?b then _ else _] => destruct b end; reflexivity.
Qed.

Lemma neg_ok v k l0 s0 : has_ty v (TNum k) -> res_ok (TNum k) (lift l0 s0 (p_negate v) (fun r => Done r s0)).
Proof.
  intros Hv. destruct (inv_num _ _ _ _ _ Hv) as (n & -> & Kn & Sn). cbn.
  replace k with (num_kind (go_neg n)) by (destruct n; exact Kn). apply ty_num. destruct n; exact Sn.
Qed.

Definition lit_sound_at (a : expr) : Prop := lit_arith a = true ->
  forall cols ta tree st0 st, visit c cols a st0 = (ta, tree, st) ->
  forall pin, (s_num pin || s_iface pin) = true ->
  forall ctx s, res_ok (TNum (lit_kind pin)) (ev ctx (set_ints tree pin) s).

Lemma lit_sound : forall a, lit_sound_at a.
Proof.
  induction a using expr_ind2. rename H into HF.
  destruct a as [an|an nm nsf|an z|an f|an b|an sx|an v|an op x|an op l r|an re l r|an x nm nsf|an x i|an x fr to
                |an x nm args nsf|an nm args fast|an b args|an x|an|an cnd x y|an es|an ps|an k v];
    intros Hl; try discriminate Hl; intros cols ta tree st0 st H pin Hp ctx s; cbn [children] in HF.
  - cbn in H. inversion H; subst. cbn. apply int_const_lit. exact Hp.
  - inversion HF as [|? ? IHx _]; subst. cbn [lit_arith] in Hl. cbn [visit] in H.
    destruct (visit c cols x st0) as [[tx x1] st1] eqn:Ex.
    match type of H with context [emit ?l ?r ?st] => destruct (emit l r st) as [t3 st3] end.
    inversion H; subst. pose proof (fun Hx => IHx Hx _ _ _ _ _ Ex pin Hp ctx) as R.
    destruct op; try discriminate; cbn [settle set_ann set_ints]; rewrite sv_unary;
      (eapply res_bind; [apply R; exact Hl|]); intros v s1 Hv; [exact Hv|apply neg_ok; exact Hv].
  - inversion HF as [|? ? IHl HF2]; subst. inversion HF2 as [|? ? IHr _]; subst.
    cbn [lit_arith] in Hl. cbn [visit] in H.
    destruct (visit c cols l st0) as [[tl l1] st1] eqn:El. destruct (visit c cols r st1) as [[tr r1] st2] eqn:Er.
    match type of H with context [emit ?l ?r ?st] => destruct (emit l r st) as [t3 st3] end.
    inversion H; subst.
    pose proof (fun Hx => IHl Hx _ _ _ _ _ El pin Hp ctx) as Rl. pose proof (fun Hx => IHr Hx _ _ _ _ _ Er pin Hp ctx) as Rr.
    destruct op; try discriminate; apply andb_prop in Hl; destruct Hl as [Hl1 Hl2];
      cbn [settle set_ann set_ints]; rewrite sv_binary; cbn [is_or is_and];
      (eapply res_bind; [apply Rl; exact Hl1|]); intros va s1 Ha; (eapply res_bind; [apply Rr; exact Hl2|]); intros vb s2 Hb;
      cbn [bin_strict]; (eapply arith_ok; eauto using comb_same; reflexivity).
Qed.

(* ---- calls: the arguments against the declared inputs ---- *)
Inductive vals_rel (pt : nat -> ty) : nat -> list value -> Prop :=
| VR_nil i : vals_rel pt i []
| VR_cons i v r : has_ty v (pt i) -> pt i <> TNilT -> vals_rel pt (S i) r -> vals_rel pt i (v :: r).

Definition sc_args (cols : list ty) : (nat -> ty) -> nat -> list expr -> bool :=
  fix sargs (pt : nat -> ty) (i : nat) (args : list expr) {struct args} : bool :=
    match args with
    | [] => true
    | a :: r => scope c nn cols a && sc_arg a (tyof c cols a) (pt i) && sargs pt (S i) r
    end.

Lemma has_ty_weaken v t p : has_ty v t -> assignable t p = true -> has_ty v p.
Proof.
  intros Hv Ha. destruct (assignable_inv _ _ Ha) as [->| ->]; [exact Hv|]. apply has_ty_iface. eapply has_ty_wf; exact Hv.
Qed.

Lemma ev_args_ok cols ctx pt t : ctx_ok ctx cols -> forall i args args',
  Forall sound_at args -> sc_args cols pt i args = true -> args_rel c cols pt i args args' ->
  forall s k, (forall vs s', vals_rel pt i vs -> List.length vs = List.length args -> res_ok t (k vs s')) ->
  res_ok t (ev_list fe cfg env ctx args' s k).
Proof.
  intros Hc i args args' HF Hs R. revert HF Hs.
  induction R as [i|i a r ta a1 a2 r' Ea Eru R IH]; intros HF Hs s k Hk.
  - cbn. apply Hk; [constructor|reflexivity].
  - inversion HF as [|? ? Ha HFr]; subst. cbn [sc_args] in Hs.
    apply andb_prop in Hs. destruct Hs as [Hs Hsr]. apply andb_prop in Hs. destruct Hs as [Hsa Hsg].
    unfold tyof in Hsg. rewrite Ea in Hsg. cbn [fst] in Hsg.
    assert (Rv : res_ok (pt i) (ev ctx a2 s) /\ pt i <> TNilT).
    { unfold sc_arg in Hsg. unfold arg_rule in Eru. destruct (is_arith a) eqn:Ar.
      - apply andb_prop in Hsg. destruct Hsg as [Hl Hp].
        assert (a2 = set_ints a1 (pt i)) as ->.
        { destruct (is_nil_ty (pt i)); [inversion Eru; reflexivity|].
          destruct (negb (assignable (pt i) (pt i)) && negb (rkind_eqb (kind_of_ty (pt i)) RKInterface)); inversion Eru; reflexivity. }
        pose proof (lit_sound a Hl _ _ _ _ _ Ea (pt i) Hp ctx s) as P. split.
        + destruct (pt i); try discriminate; cbn [lit_kind] in P; [exact P|].
          destruct (ev ctx (set_ints a1 TIface) s); cbn in *; [|exact P]. apply has_ty_iface. eapply has_ty_wf; exact P.
        + destruct (pt i); try discriminate; congruence.
      - apply andb_prop in Hsg. destruct Hsg as [Hn Hp]. apply negb_true_iff in Hn. rewrite Hn in Eru.
        rewrite Hp in Eru. cbn in Eru. inversion Eru; subst a2. split.
        + pose proof (Ha _ _ _ Ea Hsa ctx Hc s) as P. destruct (ev ctx a1 s); cbn in *; [|exact P].
          eapply has_ty_weaken; eauto.
        + destruct (assignable_inv _ _ Hp) as [E|E]; [rewrite <- E; intros E2; rewrite E2 in Hn; discriminate|rewrite E; discriminate]. }
    destruct Rv as [Rv Np]. cbn [ev_list]. eapply res_bind; [exact Rv|]. intros v s1 Hv.
    apply IH; auto. intros vs s' Hvs Hlen. apply Hk; [constructor; assumption|cbn; congruence].
Qed.

Lemma nilmatch_ok v p : has_ty v p -> p <> TNilT ->
  (match v with VNil => assignable TIface p | _ => assignable (dyn_type v) p end) = true.
Proof.
  intros [_ [->|D]] N; [destruct v; unfold assignable; apply orb_true_r|].
  destruct v; try (rewrite D; apply assignable_self). cbn in D. congruence.
Qed.

Lemma dyn_assignable v p : has_ty v p -> p <> TNilT -> assignable (dyn_type v) p = true.
Proof. intros [_ [->|D]] N; [unfold assignable; apply orb_true_r|rewrite D; apply assignable_self]. Qed.

Lemma vals_rel_shift pt pt' vs : (forall j, pt (S j) = pt' j) -> forall i, vals_rel pt (S i) vs -> vals_rel pt' i vs.
Proof.
  intros E. induction vs as [|v r IH]; intros i H; [constructor|].
  inversion H; subst. constructor; [rewrite <- E; assumption|rewrite <- E; assumption|apply IH; assumption].
Qed.

Lemma vals_rel_const pt e vs : (forall j, pt j = e) -> forall i, vals_rel pt i vs ->
  forallb (fun a => assignable (dyn_type a) e) vs = true.
Proof.
  intros E. induction vs as [|v r IH]; intros i H; [reflexivity|]. inversion H; subst. cbn [forallb].
  rewrite (IH _ ltac:(eassumption)). rewrite E in *. rewrite dyn_assignable; auto.
Qed.

Definition arity_cond (ins : list ty) (v : bool) (n : nat) : Prop :=
  if v then (List.length ins - 1 <= n)%nat else n = List.length ins.

Lemma arity_none ins v n : arity_rule ins v false n = None -> arity_cond ins v n.
Proof.
  unfold arity_cond, arity_rule. rewrite Nat.sub_0_r. destruct v.
  - destruct (n <? List.length ins - 1)%nat eqn:E; [discriminate|]. intros _. apply Nat.ltb_ge in E. exact E.
  - destruct (List.length ins <? n)%nat eqn:E1; [discriminate|]. destruct (n <? List.length ins)%nat eqn:E2; [discriminate|].
    intros _. apply Nat.ltb_ge in E1, E2. lia.
Qed.

Lemma arity_none_rev ins v n : arity_cond ins v n -> arity_rule ins v false n = None.
Proof.
  unfold arity_cond, arity_rule. rewrite Nat.sub_0_r. destruct v; intros H.
  - destruct (n <? List.length ins - 1)%nat eqn:E; [apply Nat.ltb_lt in E; lia|reflexivity].
  - destruct (List.length ins <? n)%nat eqn:E1; [apply Nat.ltb_lt in E1; lia|].
    destruct (n <? List.length ins)%nat eqn:E2; [apply Nat.ltb_lt in E2; lia|reflexivity].
Qed.

Lemma pt_shift p q ins v j : param_ty (p :: q :: ins) v false (S j) = param_ty (q :: ins) v false j.
Proof.
  unfold param_ty. rewrite !Nat.sub_0_r, !Nat.add_0_r. cbn [List.length nth].
  replace (S (S (List.length ins)) - 1 <=? S j)%nat with (S (List.length ins) - 1 <=? j)%nat
    by (cbn; rewrite Nat.sub_0_r; reflexivity).
  reflexivity.
Qed.

Lemma pt_head p q ins v : param_ty (p :: q :: ins) v false 0 = p.
Proof. unfold param_ty. cbn. rewrite andb_false_r. reflexivity. Qed.

Lemma args_ok_cons2 p q ins v a r :
  args_ok (p :: q :: ins) v (a :: r) =
  (match a with VNil => assignable TIface p | _ => assignable (dyn_type a) p end) && args_ok (q :: ins) v r.
Proof. destruct p; reflexivity. Qed.

Lemma args_ok_typed : forall ins v vs,
  arity_rule ins v false (List.length vs) = None ->
  (v = true -> exists e, last ins TNilT = TSlice e) ->
  vals_rel (param_ty ins v false) 0 vs -> args_ok ins v vs = true.
Proof.
  induction ins as [|p ins IH]; intros v vs Ha Hv R.
  - apply arity_none in Ha. unfold arity_cond in Ha. destruct v.
    + destruct (Hv eq_refl) as [e E]. discriminate.
    + destruct vs; [reflexivity|discriminate].
  - destruct ins as [|q ins].
    + (* the last declared input *)
      destruct v.
      * destruct (Hv eq_refl) as [e E]. cbn in E. subst p. cbn [args_ok].
        eapply (vals_rel_const _ e); [|exact R]. intros j. unfold param_ty. cbn. reflexivity.
      * apply arity_none in Ha. unfold arity_cond in Ha. cbn in Ha. destruct vs as [|a [|b r]]; try discriminate.
        inversion R as [|? ? ? Hty Hn _]; subst. unfold param_ty in Hty, Hn. cbn in Hty, Hn.
        destruct p; cbn [args_ok]; rewrite ?andb_true_r; try (apply nilmatch_ok; assumption).
        apply dyn_assignable; assumption.
    + apply arity_none in Ha. unfold arity_cond in Ha.
      destruct vs as [|a r]; [destruct v; cbn in Ha; lia|].
      inversion R as [|? ? ? Hty Hn Rr]; subst. rewrite pt_head in Hty, Hn.
      assert (args_ok (q :: ins) v r = true) as Hr.
      { apply IH.
        - apply arity_none_rev. unfold arity_cond. destruct v; cbn [List.length] in *; lia.
        - intros E. destruct (Hv E) as [e El]. exists e. exact El.
        - eapply vals_rel_shift; [|exact Rr]. intros j. apply pt_shift. }
      rewrite args_ok_cons2, Hr, andb_true_r. apply nilmatch_ok; assumption.
Qed.

(* ---- calls: the callee ---- *)
Lemma fast_sig_strip recv ins v o : fast_sig (TFunc (recv :: ins) v [o]) true = fast_sig (TFunc ins v [o]) false.
Proof.
  unfold fast_sig. destruct v; [|reflexivity]. destruct ins as [|p [|q r]]; reflexivity.
Qed.

Lemma sig_norm ins v m : sc_sig ins v m = true ->
  (v = true -> exists e, last (if m then tl ins else ins) TNilT = TSlice e) /\
  (forall i, param_ty ins v m i = param_ty (if m then tl ins else ins) v false i) /\
  (forall n, arity_rule ins v m n = arity_rule (if m then tl ins else ins) v false n) /\
  (forall o, fast_sig (TFunc ins v [o]) m = fast_sig (TFunc (if m then tl ins else ins) v [o]) false) /\
  (m = true -> forall o, strip_receiver (TFunc ins v [o]) = TFunc (tl ins) v [o]).
Proof.
  unfold sc_sig. intros H. apply andb_prop in H. destruct H as [Hm Hv].
  assert (V : v = true -> exists e, last (if m then tl ins else ins) TNilT = TSlice e).
  { intros ->. destruct (last (if m then tl ins else ins) TNilT); try discriminate. eauto. }
  split; [exact V|]. destruct m; [|repeat split; try reflexivity; discriminate].
  destruct ins as [|recv ins]; [discriminate|]. cbn [tl] in *.
  split; [|split; [|split]].
  - intros i. unfold param_ty. cbn [List.length]. rewrite ?Nat.sub_0_r, ?Nat.add_0_r.
    replace (S (List.length ins) - 1)%nat with (List.length ins) by lia.
    destruct (v && (List.length ins - 1 <=? i)%nat) eqn:E.
    + apply andb_prop in E. destruct E as [Ev _]. destruct (V Ev) as [e El].
      destruct ins as [|p r]; [discriminate|]. reflexivity.
    + replace (i + 1)%nat with (S i) by lia. reflexivity.
  - intros n. unfold arity_rule. cbn [List.length]. rewrite ?Nat.sub_0_r.
    replace (S (List.length ins) - 1)%nat with (List.length ins) by lia. reflexivity.
  - intros o. apply fast_sig_strip.
  - intros _ o. reflexivity.
Qed.

Lemma call_ok id ins v o recv vs l s fastflag : ftab id = Some (TFunc ins v [o]) ->
  (fastflag = true -> fast_sig (TFunc ins v [o]) false = true) -> args_ok ins v vs = true ->
  res_ok o (do_call fe l fastflag id recv vs s).
Proof.
  intros Hf Hfast Hargs. unfold do_call. rewrite (fo_sig _ _ _ _ Hfe id ins v o Hf). cbn [s_fast s_ins s_variadic s_nout].
  destruct fastflag.
  - rewrite (Hfast eq_refl). destruct (fn_run fe id recv vs) as [r|er] eqn:E; cbn.
    + exact (fo_res _ _ _ _ Hfe id ins v o recv vs r Hf E).
    + exact (fo_err _ _ _ _ Hfe id recv vs er E).
  - rewrite Hargs. destruct (fn_run fe id recv vs) as [r|er] eqn:E; cbn.
    + exact (fo_res _ _ _ _ Hfe id ins v o recv vs r Hf E).
    + exact (fo_err _ _ _ _ Hfe id recv vs er E).
Qed.

Lemma vals_rel_ext pt pt' vs : (forall j, pt j = pt' j) -> forall i, vals_rel pt i vs -> vals_rel pt' i vs.
Proof.
  intros E. induction vs as [|v r IH]; intros i H; [constructor|].
  inversion H; subst. constructor; [rewrite <- E; assumption|rewrite <- E; assumption|apply IH; assumption].
Qed.

Lemma ffs_tag_no_method n t name tg : ffs_name te n t name = Some tg -> tg_method tg = false.
Proof.
  intros H. destruct (tg_amb tg) eqn:A.
  - rewrite (ffs_name_amb te n t name tg H A). reflexivity.
  - destruct n; cbn [ffs_name] in H; [destruct (dereference t); discriminate|].
    destruct (dereference t) eqn:D; try discriminate.
    destruct (ffs_name_sound te (S n) t name0 name tg D ltac:(cbn [ffs_name]; rewrite D; exact H) A) as (d & p & f & _ & -> & _).
    reflexivity.
Qed.

Lemma env_callee name tg ins v o :
  lookup_name c name = Some tg -> tg_ty tg = TFunc ins v [o] -> tg_amb tg = false ->
  sc_sig ins v (tg_method tg) = true ->
  exists id, Prim.fetch_fn fe env name = Ok id /\ ftab id = Some (TFunc (if tg_method tg then tl ins else ins) v [o]).
Proof.
  intros Hl Hty Ha Hsig.
  destruct (eo_table _ _ _ _ _ _ _ Henv) as (tb & Htb & Hc).
  destruct (eo_val _ _ _ _ _ _ _ Henv) as (p & fields & Eenv & HT). pose proof (eo_wf _ _ _ _ _ _ _ Henv) as Hw.
  rewrite Eenv in Hw. unfold lookup_name in Hl. rewrite Htb in Hl.
  pose proof Hl as Hg. rewrite (struct_table_get te perm Hperm Hwf T sn tb name env_T Hc) in Hg.
  destruct (method_by_name te T name) as [mt|] eqn:Hm.
  - inversion Hg; subst tg. cbn [tg_ty tg_method method_tag] in *. subst mt.
    rewrite HT in Hm. destruct (fo_meth _ _ _ _ Hfe sn p name _ Hm) as (id & Hfm & Hft).
    destruct (sig_norm _ _ _ Hsig) as (_ & _ & _ & _ & Hst). rewrite (Hst eq_refl) in Hft.
    exists id. split; [|exact Hft]. rewrite Eenv. unfold Prim.fetch_fn. cbn [type_name_of]. rewrite Hfm. reflexivity.
  - pose proof (ffs_tag_no_method _ _ _ _ Hg) as Hnm. rewrite Hnm.
    destruct (table_field tb name tg Htb Hc Hl Ha Hnm) as [pth R]. rewrite Hty in R.
    destruct (struct_member _ _ _ _ _ _ _ _ _ Hw R) as (x & Ex & Hx). destruct (inv_func _ _ _ _ _ _ _ Hx) as (id & -> & Hft).
    rewrite HT in Hm. pose proof (fo_nometh _ _ _ _ Hfe sn p name Hm) as Hfm.
    exists id. split; [|exact Hft]. rewrite Eenv. unfold Prim.fetch_fn. cbn [type_name_of]. rewrite Hfm, Ex. reflexivity.
Qed.

Lemma scope_function cols a name args fast :
  scope c nn cols (EFunction a name args fast) =
  negb fast &&
  match lookup_name c name with
  | Some tg =>
      match tg_ty tg with
      | TFunc ins v [o] =>
          negb (tg_amb tg) && sc_sig ins v (tg_method tg) && sc_args cols (param_ty ins v (tg_method tg)) 0%nat args
      | _ => false
      end
  | None => false
  end.
Proof. reflexivity. Qed.

Definition sc_meth (cols : list ty) (t : ty) (name : string) (args : list expr) : bool :=
  match method_by_name te t name with
  | Some (TFunc ins v [o]) => sc_sig ins v true && sc_args cols (param_ty ins v true) 0%nat args
  | _ => false
  end.

Lemma scope_method cols a x name args ns :
  scope c nn cols (EMethod a x name args ns) =
  scope c nn cols x &&
  match tyof c cols x with
  | TStruct sn' => sc_meth cols (TStruct sn') name args
  | TPtr (TStruct sn') => nn && sc_meth cols (TPtr (TStruct sn')) name args
  | _ => false
  end.
Proof. reflexivity. Qed.

Lemma finish_call cols ctx (pt : nat -> ty) ins v m o args args' id recv l fastflag :
  ctx_ok ctx cols -> Forall sound_at args -> sc_sig ins v m = true ->
  sc_args cols (param_ty ins v m) 0 args = true -> arity_rule ins v m (List.length args) = None ->
  args_rel c cols (param_ty ins v m) 0 args args' ->
  ftab id = Some (TFunc (if m then tl ins else ins) v [o]) ->
  (fastflag = true -> fast_sig (TFunc ins v [o]) m = true) ->
  forall s, res_ok o (ev_list fe cfg env ctx args' s (fun vs s1 => do_call fe l fastflag id recv vs s1)).
Proof.
  intros Hc HF Hsig Hsa Har R Hft Hfast s.
  destruct (sig_norm _ _ _ Hsig) as (Hlast & Hpt & Hari & Hfs & _).
  eapply ev_args_ok; eauto. intros vs s' Hvs Hlen. eapply call_ok; [exact Hft| |].
  - intros E. rewrite <- Hfs. exact (Hfast E).
  - apply args_ok_typed.
    + rewrite Hlen, <- Hari. exact Har.
    + exact Hlast.
    + eapply vals_rel_ext; [|exact Hvs]. exact Hpt.
Qed.

Lemma sound_function a name args fast : Forall sound_at args -> sound_at (EFunction a name args fast).
Proof.
  intros HF cols t e' H Hs ctx Hc s. rewrite visit_function in H. rewrite scope_function in Hs.
  destruct fast; [discriminate|]. cbn [negb andb orb] in *.
  destruct (lookup_name c name) as [tg|] eqn:Hl; [|discriminate].
  destruct (tg_ty tg) as [| | | | | | | | |ins v outs| |] eqn:Hty; try discriminate.
  destruct outs as [|o [|o2 outs]]; try discriminate.
  apply andb_prop in Hs. destruct Hs as [Hs Hsa]. apply andb_prop in Hs. destruct Hs as [Ha Hsig]. apply negb_true_iff in Ha.
  unfold function_callee in H. rewrite Hl, Hty in H. cbn [is_func_type under dereference] in H.
  destruct (check_func (vargs c cols) (TFunc ins v [o]) (tg_method tg) (aloc a) args None) as [[t' args'] st1] eqn:Ecf.
  inversion H; subst. destruct (check_func_inv _ _ _ _ _ _ _ _ _ _ Ecf) as (Har & -> & R).
  destruct (env_callee name tg ins v o Hl Hty Ha Hsig) as (id & Ef & Hft).
  cbn [settle set_ann]. rewrite sv_function.
  assert (G : forall l0 fl, (fl = true -> fast_sig (TFunc ins v [o]) (tg_method tg) = true) ->
          res_ok o (ev_list fe cfg env ctx args' s (fun vs s1 => do_call fe l0 fl id env vs s1))).
  { intros l0 fl Hfl. eapply finish_call; eauto. }
  specialize (G (aloc a) (fast_sig (TFunc ins v [o]) (tg_method tg)) (fun E => E)).
  rewrite Ef. exact G.
Qed.

Lemma sound_method a x name args ns : sound_at x -> Forall sound_at args -> sound_at (EMethod a x name args ns).
Proof.
  intros IHx HF cols t e' H Hs ctx Hc s. rewrite visit_method in H. rewrite scope_method in Hs.
  destruct (visit c cols x None) as [[tx x'] st1] eqn:Ex.
  unfold tyof in Hs. rewrite Ex in Hs. cbn [fst] in Hs. apply andb_prop in Hs. destruct Hs as [Hsx Hs].
  (* the receiver is T or *T of a struct; p tells which *)
  assert (exists sn' p, tx = recv_ty sn' p /\ (p = true -> nn = true) /\ sc_meth cols tx name args = true)
    as (sn' & p & -> & Hp & Hsm).
  { destruct tx as [| | | | | | |sn'|tp| | |]; try discriminate.
    - exists sn', false. repeat split; [discriminate|exact Hs].
    - destruct tp as [| | | | | | |sn'| | | |]; try discriminate. apply andb_prop in Hs. destruct Hs as [Hn Hs].
      exists sn', true. repeat split; [intros _; exact Hn|exact Hs]. }
  unfold sc_meth in Hsm.
  destruct (method_by_name te (recv_ty sn' p) name) as [mt|] eqn:Hm; [|discriminate].
  destruct mt as [| | | | | | | | |ins v outs| |]; try discriminate.
  destruct outs as [|o [|o2 outs]]; try discriminate.
  apply andb_prop in Hsm. destruct Hsm as [Hsig Hsa].
  assert (method_callee c (recv_ty sn' p) name = Some (TFunc ins v [o], true)) as Emc.
  { unfold method_callee, Checker.te, cfuel, Checker.te, fuel0. destruct p; cbn [recv_ty method_type] in *; rewrite Hm; reflexivity. }
  rewrite Emc in H.
  destruct (check_func (vargs c cols) (TFunc ins v [o]) true (aloc a) args st1) as [[t' args'] st2] eqn:Ecf.
  inversion H; subst. pose proof (check_func_none _ _ _ _ _ _ _ _ _ Ecf). subst st1.
  destruct (check_func_inv _ _ _ _ _ _ _ _ _ _ Ecf) as (Har & -> & R).
  cbn [settle set_ann]. rewrite sv_method. eapply res_bind; [exact (IHx _ _ _ Ex Hsx ctx Hc s)|]. intros vx s1 Hvx.
  assert (exists fields, vx = VStruct sn' p fields) as [fields ->].
  { destruct p; cbn [recv_ty] in Hvx.
    - destruct (inv_ptr_struct _ _ _ _ _ Hvx) as [[fields ->]|[_ Hn]]; [eauto|]. rewrite (Hp eq_refl) in Hn. discriminate.
    - destruct (inv_struct _ _ _ _ _ Hvx) as [fields ->]. eauto. }
  destruct (fo_meth _ _ _ _ Hfe sn' p name _ Hm) as (id & Hfm & Hft).
  destruct (sig_norm _ _ _ Hsig) as (_ & _ & _ & _ & Hst). rewrite (Hst eq_refl) in Hft.
  assert (Ef : Prim.fetch_fn fe (VStruct sn' p fields) name = Ok id).
  { unfold Prim.fetch_fn. cbn [type_name_of]. rewrite Hfm. reflexivity. }
  assert (G : res_ok o (ev_list fe cfg env ctx args' s1
                (fun vs s2 => do_call fe (aloc a) false id (VStruct sn' p fields) vs s2))).
  { eapply finish_call; eauto. discriminate. }
  destruct ns; cbn [andb Prim.fetch_fn_zero]; rewrite Ef; exact G.
Qed.

(* ---- all node kinds together ---- *)
Definition P_all (e : expr) : Prop :=
  sound_at e /\ (forall a x, e = EClosure a x -> sound_at x) /\ pair_sound e.

Lemma P_of e : sound_at e -> (forall a x, e <> EClosure a x) -> (forall a k v, e <> EPair a k v) -> P_all e.
Proof.
  intros H N1 N2. split; [exact H|]. split.
  - intros a x E. destruct (N1 _ _ E).
  - intros a k v E. destruct (N2 _ _ _ E).
Qed.

Lemma P_sound l : Forall P_all l -> Forall sound_at l.
Proof. intros H. eapply Forall_impl; [|exact H]. intros x [Hx _]. exact Hx. Qed.

Lemma out_of_scope e : (forall cols, scope c nn cols e = false) -> sound_at e.
Proof. intros H cols t e' _ Hs. rewrite H in Hs. discriminate. Qed.

Lemma sound_all : forall e, P_all e.
Proof.
  induction e using expr_ind2. rename H into HF.
  destruct e as [an|an nm nsf|an z|an f|an b|an sx|an v|an op x|an op l r|an re l r|an x nm nsf|an x i|an x fr to
                |an x nm args nsf|an nm args fast|an b args|an x|an|an cnd x y|an es|an ps|an k v];
    cbn [children] in HF.
  - apply P_of; [apply sound_nil|discriminate|discriminate].
  - apply P_of; [apply sound_ident|discriminate|discriminate].
  - apply P_of; [apply sound_int|discriminate|discriminate].
  - apply P_of; [apply sound_float|discriminate|discriminate].
  - apply P_of; [apply sound_bool|discriminate|discriminate].
  - apply P_of; [apply sound_str|discriminate|discriminate].
  - apply P_of; [apply out_of_scope; reflexivity|discriminate|discriminate].
  - inversion HF as [|? ? [Hx _] _]; subst. apply P_of; [apply sound_unary; assumption|discriminate|discriminate].
  - inversion HF as [|? ? [Hl _] HF2]; subst. inversion HF2 as [|? ? [Hr _] _]; subst.
    apply P_of; [apply sound_binary; assumption|discriminate|discriminate].
  - inversion HF as [|? ? [Hl _] HF2]; subst. inversion HF2 as [|? ? [Hr _] _]; subst.
    apply P_of; [apply sound_matches; assumption|discriminate|discriminate].
  - inversion HF as [|? ? [Hx _] _]; subst. apply P_of; [apply sound_property; assumption|discriminate|discriminate].
  - inversion HF as [|? ? [Hx _] HF2]; subst. inversion HF2 as [|? ? [Hi _] _]; subst.
    apply P_of; [apply sound_index; assumption|discriminate|discriminate].
  - inversion HF as [|? ? [Hx _] HF2]; subst. apply P_sound in HF2.
    apply P_of; [|discriminate|discriminate]. apply sound_slice; [exact Hx| |].
    + intros f0 ->. apply (proj1 (Forall_forall _ _) HF2). apply in_or_app. left. cbn. auto.
    + intros u0 ->. apply (proj1 (Forall_forall _ _) HF2). apply in_or_app. right. cbn. auto.
  - inversion HF as [|? ? [Hx _] HF2]; subst. apply P_sound in HF2.
    apply P_of; [apply sound_method; assumption|discriminate|discriminate].
  - apply P_sound in HF. apply P_of; [apply sound_function; assumption|discriminate|discriminate].
  - apply P_of; [|discriminate|discriminate].
    destruct b; destruct args as [|x0 [|cl [|d r]]];
      try (apply out_of_scope; reflexivity);
      try (inversion HF as [|? ? [Hx _] _]; subst; apply sound_len; exact Hx; fail).
    all: destruct cl; try (apply out_of_scope; reflexivity).
    all: inversion HF as [|? ? [Hx _] HF2]; subst; inversion HF2 as [|? ? [_ [Hcl _]] _]; subst;
         apply sound_loop; [reflexivity|exact Hx|exact (Hcl _ _ eq_refl)].
  - inversion HF as [|? ? [Hx _] _]; subst. split; [apply out_of_scope; reflexivity|]. split.
    + intros a0 x0 E. inversion E; subst. exact Hx.
    + intros a0 k0 v0 E. discriminate.
  - apply P_of; [apply sound_pointer|discriminate|discriminate].
  - inversion HF as [|? ? [Hc _] HF2]; subst. inversion HF2 as [|? ? [Hx _] HF3]; subst.
    inversion HF3 as [|? ? [Hy _] _]; subst.
    apply P_of; [apply sound_cond; assumption|discriminate|discriminate].
  - apply P_sound in HF. apply P_of; [apply sound_array; assumption|discriminate|discriminate].
  - apply P_of; [|discriminate|discriminate]. apply sound_map.
    eapply Forall_impl; [|exact HF]. intros p [_ [_ Hp]]. exact Hp.
  - inversion HF as [|? ? [Hk _] HF2]; subst. inversion HF2 as [|? ? [Hv _] _]; subst.
    split; [apply out_of_scope; reflexivity|]. split.
    + intros a0 x0 E. discriminate.
    + intros a0 k0 v0 E. inversion E; subst. split; assumption.
Qed.

Theorem sound_partial e t e' :
  check c e = (t, e', None) -> in_scope c nn e = true ->
  forall s, res_ok t (ev [] e' s).
Proof.
  unfold check, in_scope. destruct (visit c [] e None) as [[t0 e0] st] eqn:Ev. intros H Hs s.
  assert (t0 = t /\ e0 = e' /\ st = None) as (-> & -> & ->).
  { destruct (cc_expect c) as [k|]; [destruct (expect_ok k t0)|]; inversion H; auto. }
  exact (proj1 (sound_all e) _ _ _ Ev Hs [] (Forall2_nil _) s).
Qed.

(* ================================================================== Part 6 *)
(* the result directive: AsBool / AsInt64 / AsFloat64 *)
Definition cast_scope (k : rkind) (t : ty) : bool :=
  match k with
  | RKNum KInt64 | RKNum KF64 => s_num t                (* not: interface{}, pointer, declared numeric type *)
  | _ => negb (is_declared t)                           (* not: finding C03-named-int *)
  end.

Lemma kind_bool_plain t : kind_of_ty t = RKBool -> is_declared t = false -> t = TBool.
Proof. destruct t; cbn; try discriminate; reflexivity. Qed.

Definition cast_post (k : rkind) (v : value) : Prop :=
  match k with
  | RKBool => exists b, v = VBool b
  | RKNum KInt64 => exists z, v = VNum (NInt KInt64 z)
  | RKNum KF64 => exists f, v = VNum (NFlt KF64 f)
  | _ => True
  end.

Theorem cast_kind e t e' k :
  check c e = (t, e', None) -> in_scope c nn e = true -> cc_expect c = Some k -> cast_scope k t = true ->
  match run_ref fe cfg env (cast_of (Some k)) e' with
  | Done v _ => cast_post k v
  | Stop er _ _ => is_type_err er = false
  end.
Proof.
  intros H Hs Hk Hc. pose proof (sound_partial e t e' H Hs rs0) as R.
  assert (Hex : expect_ok k t = true).
  { unfold check in H. destruct (visit c [] e None) as [[t0 e0] st]. rewrite Hk in H.
    destruct (expect_ok k t0) eqn:E; inversion H; subst; exact E. }
  unfold run_ref. destruct (eval fe cfg env [] e' rs0) as [v s|er l s]; cbn [rbind Sound.res_ok] in *; [|exact R].
  destruct k as [| |k0| | | | | | | |]; cbn [cast_of cast_scope cast_post] in *; try exact I.
  - (* AsBool *)
    apply negb_true_iff in Hc. cbn in Hex. destruct (kind_of_ty t) eqn:Kt; try discriminate.
    rewrite (kind_bool_plain t Kt Hc) in R. exact (inv_bool _ _ _ _ R).
  - destruct k0; cbn [cast_of cast_scope cast_post] in *; try exact I.
    + (* AsInt64 *)
      destruct (s_num_inv _ Hc) as [kt ->]. destruct (inv_num _ _ _ _ _ R) as (n & -> & _ & _).
      pose proof (to_int64_ok n) as P. destruct (to_int64 (VNum n)) as [r|er]; cbn in *; exact P.
    + (* AsFloat64 *)
      destruct (s_num_inv _ Hc) as [kt ->]. destruct (inv_num _ _ _ _ _ R) as (n & -> & _ & _).
      pose proof (to_float64_ok n) as P. destruct (to_float64 (VNum n)) as [r|er]; cbn in *; [eauto|exact P].
Qed.
End Main.

(* ================================================================== Part 7 *)
(* struct declarations without embedded fields: Go's selector rule only finds declared fields *)
Lemma own_matches_named name fs : forall i p f, In (p, f) (own_matches name i fs) -> In f fs /\ is_named name f = true.
Proof.
  induction fs as [|g r IH]; intros i p f H; cbn [own_matches] in H; [destruct H|].
  apply in_app_or in H. destruct H as [H|H].
  - destruct (is_named name g) eqn:E; [|destruct H]. destruct H as [H|[]]. inversion H; subst. split; [left; reflexivity|exact E].
  - destruct (IH _ _ _ H) as [A B]. split; [right; exact A|exact B].
Qed.

Lemma flat_resolve te sn name pth ft ex :
  forallb (fun f => negb (fd_anon f)) (fields_of te (TStruct sn)) = true ->
  go_resolve_field te sn name = RField pth ft ex ->
  exists f, In f (fields_of te (TStruct sn)) /\ fd_name f = name /\ fd_ty f = ft /\ fd_exp f = ex.
Proof.
  intros Hflat R. unfold go_resolve_field in R. apply search_inv in R.
  destruct R as (d & f & Ha & -> & -> & _). destruct d as [|d].
  - rewrite at_depth_0 in Ha. assert (In (pth, f) (own_matches name 0 (fields_of te (TStruct sn)))) as Hin by (rewrite Ha; left; reflexivity).
    destruct (own_matches_named _ _ _ _ _ Hin) as [A B]. exists f. repeat split; auto. apply String.eqb_eq. exact B.
  - rewrite at_depth_S, emb_collect_nil in Ha; [discriminate|].
    intros g m Hin Em. unfold emb_target in Em.
    rewrite (proj1 (negb_true_iff _) (proj1 (forallb_forall _ _) Hflat g Hin)) in Em. discriminate.
Qed.

Module SWit.
Definition tint := TNum KInt.
Definition fld (n : string) (t : ty) : fielddef := mkField n t false true.
Definition t_inc := TFunc [tint] false [tint].
Definition t_fs := TFunc [TString] false [TString].
Definition t_myint := TNamed "MyInt" tint.
Definition t_get := TFunc [] false [tint].

Definition te : tenv :=
  [("Env", mkStruct
      [fld "I" tint; fld "F" (TNum KF64); fld "S" TString; fld "B" TBool; fld "AI" (TSlice tint);
       fld "MI" (TMap TString tint); fld "AA" (TSlice TIface); fld "In" (TStruct "Inner");
       fld "P" (TPtr (TStruct "Inner")); fld "Inc" t_inc; fld "FS" t_fs; fld "M" t_myint; fld "PI" (TPtr tint)]
      [("Twice", TFunc [TStruct "Env"; tint] false [tint])]
      [("Twice", TFunc [TPtr (TStruct "Env"); tint] false [tint])]);
   ("Inner", mkStruct [fld "X" tint]
      [("Get", TFunc [TStruct "Inner"] false [tint])]
      [("Get", TFunc [TPtr (TStruct "Inner")] false [tint])])].

Definition tb : TypesTable.table :=
  match create_types_table te perm_id (EStruct (TStruct "Env")) with Some t => t | None => [] end.

Definition cc (expect : option rkind) : cconfig := mkCC te (Some tb) [] expect true None.
Definition c : cconfig := cc None.

Definition inner : value := VStruct "Inner" false [("X", vint 7)].
Definition env : value :=
  VStruct "Env" false
    [("I", vint 3); ("F", VNum (NFlt KF64 1.5)); ("S", VStr "abc"); ("B", VBool false);
     ("AI", VArr tint [vint 1; vint 5; vint 9]); ("MI", VMap TString tint [(VStr "a", vint 1)]);
     ("AA", VArr TIface [vint 1; VStr "x"]); ("In", inner); ("P", VNilPtr (TStruct "Inner"));
     ("Inc", VFunc "Inc" t_inc); ("FS", VFunc "FS" t_fs); ("M", VNamed "MyInt" (vint 1)); ("PI", VNilPtr tint)].

Definition ftab (id : string) : option ty :=
  if String.eqb id "Inc" then Some t_inc
  else if String.eqb id "FS" then Some t_fs
  else if String.eqb id "Env.Twice" then Some t_inc
  else if String.eqb id "Inner.Get" then Some t_get
  else None.

Definition run (id : string) (recv : value) (args : list value) : outcome value :=
  if String.eqb id "Inc" then
    match args with [VNum (NInt KInt a)] => Ok (vint (wrap KInt (a + 1))) | _ => Fail EOther end
  else if String.eqb id "FS" then
    match args with [VStr a] => Ok (VStr (a ++ "!")) | _ => Fail EOther end
  else if String.eqb id "Env.Twice" then
    match args with [VNum (NInt KInt a)] => Ok (vint (wrap KInt (2 * a))) | _ => Fail EOther end
  else if String.eqb id "Inner.Get" then
    match recv with
    | VStruct _ _ fields => match assoc_str "X" fields with Some (VNum (NInt KInt x)) => Ok (vint x) | _ => Fail EOther end
    | _ => Fail ENilDeref
    end
  else Fail EOther.

Definition meth (tn : string) (p : bool) (name : string) : option string :=
  if String.eqb "Env" tn then (if String.eqb "Twice" name then Some "Env.Twice" else None)
  else if String.eqb "Inner" tn then (if String.eqb "Get" name then Some "Inner.Get" else None)
  else None.

Definition sig (id : string) : option fsig :=
  match ftab id with
  | Some (TFunc ins v [o]) => Some (mkSig ins v 1 (fast_sig (TFunc ins v [o]) false))
  | _ => None
  end.

Definition fe : fenv := mkFenv sig run meth (fun _ _ => Some true) (fun x _ => x).
Definition cfg : config := mkCfg false 1000.

Lemma perm_ok : forall l : TypesTable.table, Permutation (perm_id l) l.
Proof. intros l. apply Permutation_refl. Qed.

Lemma te_wf : wf_tenv te = true.
Proof. vm_compute. reflexivity. Qed.

Lemma inner_wf nn : vwf te ftab nn inner.
Proof.
  apply vwf_struct. split.
  - repeat (apply Forall_cons; [split; cbn [fst snd]|]); try apply Forall_nil.
    + reflexivity.
    + intros pth ft R; vm_compute in R; inversion R; subst; right; reflexivity.
  - intros name pth ft R. destruct (flat_resolve te "Inner" name pth ft true eq_refl R) as (f & Hin & <- & _ & _).
    cbn in Hin. repeat (destruct Hin as [<-|Hin]; [cbn; discriminate|]). destruct Hin.
Qed.

Lemma env_wf : vwf te ftab false env.
Proof.
  apply vwf_struct. split.
  - repeat (apply Forall_cons; [split; cbn [fst snd]|]); try apply Forall_nil;
      try (intros pth ft R; vm_compute in R; inversion R; subst; first [right; reflexivity | left; reflexivity]).
    all: try exact (inner_wf false).
    all: cbn; repeat split; auto; first [right; reflexivity | left; reflexivity].
  - intros name pth ft R. destruct (flat_resolve te "Env" name pth ft true eq_refl R) as (f & Hin & <- & _ & _).
    cbn in Hin. repeat (destruct Hin as [<-|Hin]; [cbn; discriminate|]). destruct Hin.
Qed.

Lemma env_is_ok k : env_ok (cc k) perm_id ftab false (TStruct "Env") "Env" env.
Proof.
  constructor.
  - reflexivity.
  - exists tb. split; [reflexivity|]. vm_compute. reflexivity.
  - exists false, (match env with VStruct _ _ fs => fs | _ => [] end). split; reflexivity.
  - exact env_wf.
Qed.

Lemma fe_ok nn : fenv_ok te ftab nn fe.
Proof.
  constructor.
  - intros id ins v o H. cbn [fn_sig fe]. unfold sig. rewrite H. reflexivity.
  - intros id ins v o recv args r Hf Hr. cbn [fn_run fe] in Hr. unfold run in Hr. unfold ftab in Hf.
    repeat match type of Hr with
    | (if ?b then _ else _) = _ => destruct b
    | match ?x with _ => _ end = _ => destruct x
    end; try discriminate Hr; inversion Hr; inversion Hf; subst; first [apply ty_vint | apply ty_str].
  - intros id recv args e Hr. cbn [fn_run fe] in Hr. unfold run in Hr.
    repeat match type of Hr with
    | (if ?b then _ else _) = _ => destruct b
    | match ?x with _ => _ end = _ => destruct x
    end; inversion Hr; reflexivity.
  - intros sn p name mt H. cbn [fn_method fe]. unfold meth, method_by_name, method_set, recv_ty in *.
    destruct p; cbn [lookup_struct te] in H;
      (destruct (String.eqb "Env" sn) eqn:E1;
       [cbn -[String.eqb] in H; destruct (String.eqb "Twice" name); inversion H; eexists; split; reflexivity|]);
      (destruct (String.eqb "Inner" sn) eqn:E2;
       [cbn -[String.eqb] in H; destruct (String.eqb "Get" name); inversion H; eexists; split; reflexivity|]);
      discriminate.
  - intros sn p name H. cbn [fn_method fe]. unfold meth, method_by_name, method_set, recv_ty in *.
    destruct p; cbn [lookup_struct te] in H;
      (destruct (String.eqb "Env" sn) eqn:E1; [cbn -[String.eqb] in H; destruct (String.eqb "Twice" name); [discriminate|reflexivity]|]);
      (destruct (String.eqb "Inner" sn) eqn:E2; [cbn -[String.eqb] in H; destruct (String.eqb "Get" name); [discriminate|reflexivity]|]);
      reflexivity.
Qed.

(* ---- non-vacuity: accepted, in scope, evaluates to a value of the reported type ---- *)
Definition a0 : ann := ann0.
Definition id_ (n : string) : expr := EIdent a0 n false.

(* I + 2 * F > 1.0 ? count(AI, {# > I}) : len(S) *)
Definition ex_mixed : expr :=
  ECond a0
    (EBinary a0 BGt (EBinary a0 BAdd (id_ "I") (EBinary a0 BMul (EInt a0 2) (id_ "F"))) (EFloat a0 1.0))
    (EBuiltin a0 BiCount [id_ "AI"; EClosure a0 (EBinary a0 BGt (EPointer a0) (id_ "I"))])
    (EBuiltin a0 BiLen [id_ "S"]).

(* Inc(1) + Twice(I) + In.Get() + In.X + AI[0] + MI["a"] + len(AI[1:2]) *)
Definition ex_calls : expr :=
  EBinary a0 BAdd (EFunction a0 "Inc" [EInt a0 1] false)
  (EBinary a0 BAdd (EFunction a0 "Twice" [id_ "I"] false)
  (EBinary a0 BAdd (EMethod a0 (id_ "In") "Get" [] false)
  (EBinary a0 BAdd (EProperty a0 (id_ "In") "X" false)
  (EBinary a0 BAdd (EIndex a0 (id_ "AI") (EInt a0 0))
  (EBinary a0 BAdd (EIndex a0 (id_ "MI") (EStr a0 "a"))
    (EBuiltin a0 BiLen [ESlice a0 (id_ "AI") (Some (EInt a0 1)) (Some (EInt a0 2))])))))).

(* "a" in MI and S matches "^a" and I in 1..3 and not (S contains "z") and all(AI, {# % 2 == 1}) *)
Definition ex_bools : expr :=
  EBinary a0 BAndWord (EBinary a0 BIn (EStr a0 "a") (id_ "MI"))
  (EBinary a0 BAndWord (EMatches a0 None (id_ "S") (EStr a0 "^a"))
  (EBinary a0 BAndWord (EBinary a0 BIn (id_ "I") (EBinary a0 BRange (EInt a0 1) (EInt a0 3)))
  (EBinary a0 BAndWord (EUnary a0 UNotWord (EBinary a0 BContains (id_ "S") (EStr a0 "z")))
    (EBuiltin a0 BiAll [id_ "AI"; EClosure a0 (EBinary a0 BEq (EBinary a0 BMod (EPointer a0) (EInt a0 2)) (EInt a0 1))])))).

(* {"k": [I, S], "n": len(filter(AA, {true}))} *)
Definition ex_literals : expr :=
  Ast.EMap a0 [EPair a0 (EStr a0 "k") (EArray a0 [id_ "I"; id_ "S"]);
               EPair a0 (EStr a0 "n") (EBuiltin a0 BiLen [EBuiltin a0 BiFilter [id_ "AA"; EClosure a0 (EBool a0 true)]])].

Definition accepted_in_scope (e : expr) (t : ty) (v : value) : Prop :=
  in_scope c false e = true /\ fst (fst (check c e)) = t /\ snd (check c e) = None /\
  exists s, eval fe cfg env [] (snd (fst (check c e))) rs0 = Done v s.

Lemma ex_mixed_ok : accepted_in_scope ex_mixed tint (vint 2).
Proof. unfold accepted_in_scope. vm_compute. repeat split. eexists. reflexivity. Qed.

Lemma ex_calls_ok : accepted_in_scope ex_calls tint (vint 25).
Proof. unfold accepted_in_scope. vm_compute. repeat split. eexists. reflexivity. Qed.

Lemma ex_bools_ok : accepted_in_scope ex_bools TBool (VBool true).
Proof. unfold accepted_in_scope. vm_compute. repeat split. eexists. reflexivity. Qed.

Lemma ex_literals_ok :
  accepted_in_scope ex_literals (TMap TString TIface)
    (VMap TString TIface [(VStr "k", VArr TIface [vint 3; VStr "abc"]); (VStr "n", vint 2)]).
Proof. unfold accepted_in_scope. vm_compute. repeat split. eexists. reflexivity. Qed.

(* the theorem applies to the examples: all its hypotheses hold of this universe *)
Lemma sound_partial_applies e t e' :
  check c e = (t, e', None) -> in_scope c false e = true -> forall s, res_ok te ftab false t (eval fe cfg env [] e' s).
Proof. exact (sound_partial c perm_id perm_ok te_wf ftab false fe cfg env (TStruct "Env") "Env" eq_refl (env_is_ok None) (fe_ok false) e t e'). Qed.

(* AsInt64 on ex_mixed: the run yields an int64 *)
Lemma ex_cast_ok :
  in_scope (cc (Some (RKNum KInt64))) false ex_mixed = true /\ snd (check (cc (Some (RKNum KInt64))) ex_mixed) = None /\
  cast_scope (RKNum KInt64) (fst (fst (check (cc (Some (RKNum KInt64))) ex_mixed))) = true /\
  exists s, run_ref fe cfg env CastInt64 (snd (fst (check (cc (Some (RKNum KInt64))) ex_mixed))) = Done (VNum (NInt KInt64 2)) s.
Proof. vm_compute. repeat split. eexists. reflexivity. Qed.


(* the same environment with P pointing to an Inner: no nil pointer to a struct (nn = true) *)
Definition inner_p : value := VStruct "Inner" true [("X", vint 9)].
Definition env2 : value :=
  match env with
  | VStruct n p fs => VStruct n p (map (fun q => if String.eqb (fst q) "P" then ("P", inner_p) else q) fs)
  | v => v
  end.

Lemma inner_p_wf nn : vwf te ftab nn inner_p.
Proof.
  apply vwf_struct. split.
  - repeat (apply Forall_cons; [split; cbn [fst snd]|]); try apply Forall_nil.
    + reflexivity.
    + intros pth ft R; vm_compute in R; inversion R; subst; right; reflexivity.
  - intros name pth ft R. destruct (flat_resolve te "Inner" name pth ft true eq_refl R) as (f & Hin & <- & _ & _).
    cbn in Hin. repeat (destruct Hin as [<-|Hin]; [cbn; discriminate|]). destruct Hin.
Qed.

Lemma env2_wf : vwf te ftab true env2.
Proof.
  apply vwf_struct. split.
  - repeat (apply Forall_cons; [split; cbn [fst snd]|]); try apply Forall_nil;
      try (intros pth ft R; vm_compute in R; inversion R; subst; first [right; reflexivity | left; reflexivity]).
    all: try exact (inner_wf true).
    all: try exact (inner_p_wf true).
    all: cbn; repeat split; auto; first [right; reflexivity | left; reflexivity].
  - intros name pth ft R. destruct (flat_resolve te "Env" name pth ft true eq_refl R) as (f & Hin & <- & _ & _).
    cbn in Hin. repeat (destruct Hin as [<-|Hin]; [cbn; discriminate|]). destruct Hin.
Qed.

Lemma env2_is_ok k : env_ok (cc k) perm_id ftab true (TStruct "Env") "Env" env2.
Proof.
  constructor.
  - reflexivity.
  - exists tb. split; [reflexivity|]. vm_compute. reflexivity.
  - exists false, (match env2 with VStruct _ _ fs => fs | _ => [] end). split; reflexivity.
  - exact env2_wf.
Qed.

(* P.X + P.Get() + MP... : member access and a method call through a *Inner receiver *)
Definition ex_pointer : expr :=
  EBinary a0 BAdd (EProperty a0 (id_ "P") "X" false) (EMethod a0 (id_ "P") "Get" [] false).

Lemma ex_pointer_ok :
  in_scope c true ex_pointer = true /\ in_scope c false ex_pointer = false /\
  fst (fst (check c ex_pointer)) = tint /\ snd (check c ex_pointer) = None /\
  exists s, eval fe cfg env2 [] (snd (fst (check c ex_pointer))) rs0 = Done (vint 18) s.
Proof. vm_compute. repeat split. eexists. reflexivity. Qed.

(* ---- the unrestricted statement is false of the model: one witness per recorded finding ---- *)
Definition unsound_at (e : expr) : Prop :=
  exists t e', check c e = (t, e', None) /\ ~ res_ok te ftab false t (eval fe cfg env [] e' rs0).

Ltac refute :=
  split; [vm_compute; reflexivity|];
  eexists; eexists; split; [vm_compute; reflexivity|];
  vm_compute; first [ intros H; discriminate H
                    | intros [_ [H|H]]; discriminate H ].

(* FS(1): integer literal for a string input - C03-literal-retype *)
Definition w_literal_retype : expr := EFunction a0 "FS" [EInt a0 1] false.
Lemma refuted_literal_retype : in_scope c false w_literal_retype = false /\ unsound_at w_literal_retype.
Proof. refute. Qed.

(* M == 1 with type MyInt int - C03-named-int *)
Definition w_named_int : expr := EBinary a0 BEq (id_ "M") (EInt a0 1).
Lemma refuted_named_int : in_scope c false w_named_int = false /\ unsound_at w_named_int.
Proof. refute. Qed.

(* AI?.x - C03-nilsafe-on-slice *)
Definition w_nilsafe_on_slice : expr := EProperty a0 (id_ "AI") "x" true.
Lemma refuted_nilsafe_on_slice : in_scope c false w_nilsafe_on_slice = false /\ unsound_at w_nilsafe_on_slice.
Proof. refute. Qed.

(* (B ? 1 : nil) + 1 - C03-cond-branch-type *)
Definition w_cond_branch : expr := EBinary a0 BAdd (ECond a0 (id_ "B") (EInt a0 1) (ENil a0)) (EInt a0 1).
Lemma refuted_cond_branch : in_scope c false w_cond_branch = false /\ unsound_at w_cond_branch.
Proof. refute. Qed.

(* AI["a"] - C03-index-key-type *)
Definition w_index_key : expr := EIndex a0 (id_ "AI") (EStr a0 "a").
Lemma refuted_index_key : in_scope c false w_index_key = false /\ unsound_at w_index_key.
Proof. refute. Qed.

(* MI[1:2] - C03-slice-of-map *)
Definition w_slice_of_map : expr := ESlice a0 (id_ "MI") (Some (EInt a0 1)) (Some (EInt a0 2)).
Lemma refuted_slice_of_map : in_scope c false w_slice_of_map = false /\ unsound_at w_slice_of_map.
Proof. refute. Qed.

(* filter(AI, {# > 0}) is reported []int, the run yields []interface{} - C03-builtin-elem-type *)
Definition w_builtin_elem : expr :=
  EBuiltin a0 BiFilter [id_ "AI"; EClosure a0 (EBinary a0 BGt (EPointer a0) (EInt a0 0))].
Lemma refuted_builtin_elem : in_scope c false w_builtin_elem = false /\ unsound_at w_builtin_elem.
Proof. refute. Qed.

(* PI + 1 with PI *int - C03-pointer-operand *)
Definition w_pointer_operand : expr := EBinary a0 BAdd (id_ "PI") (EInt a0 1).
Lemma refuted_pointer_operand : in_scope c false w_pointer_operand = false /\ unsound_at w_pointer_operand.
Proof. refute. Qed.

(* {(1): 2} - C03-map-key-type *)
Definition w_map_key : expr := Ast.EMap a0 [EPair a0 (EInt a0 1) (EInt a0 2)].
Lemma refuted_map_key : in_scope c false w_map_key = false /\ unsound_at w_map_key.
Proof. refute. Qed.

(* Inc(nil) - C03-nil-argument *)
Definition w_nil_argument : expr := EFunction a0 "Inc" [ENil a0] false.
Lemma refuted_nil_argument : in_scope c false w_nil_argument = false /\ unsound_at w_nil_argument.
Proof. refute. Qed.

(* P.X with P a nil *Inner: fetch reports "cannot fetch X from *Inner", a message of the type
   class, for a nil pointer (not among the recorded findings: see the report) *)
Definition w_nil_struct_pointer : expr := EProperty a0 (id_ "P") "X" false.
Lemma refuted_nil_struct_pointer : in_scope c false w_nil_struct_pointer = false /\ unsound_at w_nil_struct_pointer.
Proof. refute. Qed.
End SWit.

(* the statement without the carve-out *)
Definition sound_full_statement : Prop :=
  forall (c : cconfig) (perm : TypesTable.table -> TypesTable.table),
  (forall l, Permutation (perm l) l) -> wf_tenv (cc_te c) = true ->
  forall ftab nn fe cfg env T sn, c_mapenv cfg = false -> env_ok c perm ftab nn T sn env -> fenv_ok (cc_te c) ftab nn fe ->
  forall e t e', check c e = (t, e', None) ->
  forall s, res_ok (cc_te c) ftab nn t (eval fe cfg env [] e' s).

Theorem sound_full_refuted : ~ sound_full_statement.
Proof.
  intros F. destruct SWit.refuted_named_int as [_ (t & e' & Hc & Hn)]. apply Hn.
  exact (F SWit.c perm_id SWit.perm_ok SWit.te_wf SWit.ftab false SWit.fe SWit.cfg SWit.env (TStruct "Env") "Env" eq_refl
           (SWit.env_is_ok None) (SWit.fe_ok false) _ _ _ Hc rs0).
Qed.

(* ================================================================== Part 8 *)
(* WHERE the error is reported: the first fault in visiting order, at the node (or, for the rules
   the checker reports at an operand, at that operand) whose rule is violated.
   root_fault / vty / arg_bad are the reference definitions of Ty/CheckProofs.v. *)
Section Loc.
Variable c : cconfig.
Notation vty := (vty c).

(* the argument a call is refused at *)
Fixpoint bad_arg_loc (cols : list ty) (pt : nat -> ty) (i : nat) (args : list expr) : loc :=
  match args with
  | [] => noloc
  | a :: r =>
      match vty cols a with
      | Some t => if arg_bad a t (pt i) then loc_of a else bad_arg_loc cols pt (S i) r
      | None => noloc
      end
  end.

Definition call_fault_loc (cols : list ty) (fn : ty) (m : bool) (here : loc) (args : list expr) : loc :=
  match fn with
  | TFunc ins variadic [o] =>
      match arity_rule ins variadic m (List.length args) with
      | Some _ => here
      | None => bad_arg_loc cols (param_ty ins variadic m) 0 args
      end
  | _ => here
  end.

Definition opt_loc (o : option expr) : loc := match o with Some x => loc_of x | None => noloc end.

(* the location v.error is called with for a root fault of e *)
Definition fault_loc (cols : list ty) (e : expr) : loc :=
  match e with
  | ESlice _ x f u =>
      match vty cols x with
      | Some t =>
          if sliceable t then
            match f with
            | Some ff =>
                match vty cols ff with
                | Some tf => if negb (is_integer tf) then loc_of ff else opt_loc u
                | None => noloc
                end
            | None => opt_loc u
            end
          else loc_of e
      | None => noloc
      end
  | EMethod _ x n args _ =>
      match vty cols x with
      | Some t =>
          match method_callee c t n with
          | None => loc_of e
          | Some (fn, m) => call_fault_loc cols fn m (loc_of e) args
          end
      | None => noloc
      end
  | EFunction _ n args _ =>
      match function_callee c n with
      | None => loc_of e
      | Some (fn, m) => call_fault_loc cols fn m (loc_of e) args
      end
  | EBuiltin _ b args =>
      match b, args with
      | BiUnknown _, _ => loc_of e
      | BiLen, _ => loc_of e
      | _, x :: cl :: _ =>
          match vty cols x with
          | Some t => if is_array t then loc_of cl else loc_of x
          | None => noloc
          end
      | _, _ => loc_of e
      end
  | ECond _ cnd _ _ => loc_of cnd
  | _ => loc_of e
  end.

Definition clean (cols : list ty) (x : expr) : Prop := exists t, vty cols x = Some t.

(* the arguments before the faulty one are visited without error and pass the assignability test *)
Fixpoint args_pass (cols : list ty) (pt : nat -> ty) (i : nat) (pre : list expr) : Prop :=
  match pre with
  | [] => True
  | a :: r =>
      (exists t a1, visit c cols a None = (t, a1, None) /\ snd (arg_rule a a1 t (pt i)) = true)
      /\ args_pass cols pt (S i) r
  end.

(* x is a sub-expression of e that the visitor reaches with no error recorded so far *)
Inductive step (cols : list ty) : expr -> list ty -> expr -> Prop :=
| S_unary a op x : step cols (EUnary a op x) cols x
| S_bin_l a op l r : step cols (EBinary a op l r) cols l
| S_bin_r a op l r tl : vty cols l = Some tl -> step cols (EBinary a op l r) cols r
| S_mat_l a re l r : step cols (EMatches a re l r) cols l
| S_mat_r a re l r tl : vty cols l = Some tl -> step cols (EMatches a re l r) cols r
| S_prop a x n ns : step cols (EProperty a x n ns) cols x
| S_idx_x a x i : step cols (EIndex a x i) cols x
| S_idx_i a x i t : vty cols x = Some t -> step cols (EIndex a x i) cols i
| S_sl_x a x f u : step cols (ESlice a x f u) cols x
| S_sl_f a x f u t : vty cols x = Some t -> sliceable t = true -> step cols (ESlice a x (Some f) u) cols f
| S_sl_u0 a x u t : vty cols x = Some t -> sliceable t = true -> step cols (ESlice a x None (Some u)) cols u
| S_sl_u a x f u t tf : vty cols x = Some t -> sliceable t = true -> vty cols f = Some tf -> is_integer tf = true ->
    step cols (ESlice a x (Some f) (Some u)) cols u
| S_meth_x a x n args ns : step cols (EMethod a x n args ns) cols x
| S_meth_arg a x n ns t ins v o m pre y post :
    vty cols x = Some t -> method_callee c t n = Some (TFunc ins v [o], m) ->
    arity_rule ins v m (List.length (pre ++ y :: post)) = None -> args_pass cols (param_ty ins v m) 0 pre ->
    step cols (EMethod a x n (pre ++ y :: post) ns) cols y
| S_fun_arg a n f ins v o m pre y post :
    function_callee c n = Some (TFunc ins v [o], m) ->
    arity_rule ins v m (List.length (pre ++ y :: post)) = None -> args_pass cols (param_ty ins v m) 0 pre ->
    step cols (EFunction a n (pre ++ y :: post) f) cols y
| S_bi_len a x rest : step cols (EBuiltin a BiLen (x :: rest)) cols x
| S_bi_x a b x cl rest : is_closure_builtin b = true -> step cols (EBuiltin a b (x :: cl :: rest)) cols x
| S_bi_cl a b x cl rest t : is_closure_builtin b = true -> vty cols x = Some t -> is_array t = true ->
    step cols (EBuiltin a b (x :: cl :: rest)) (t :: cols) cl
| S_closure a x : step cols (EClosure a x) cols x
| S_cond_c a cnd x y : step cols (ECond a cnd x y) cols cnd
| S_cond_x a cnd x y tc : vty cols cnd = Some tc -> is_bool tc = true -> step cols (ECond a cnd x y) cols x
| S_cond_y a cnd x y tc t1 : vty cols cnd = Some tc -> is_bool tc = true -> vty cols x = Some t1 ->
    step cols (ECond a cnd x y) cols y
| S_arr a pre y post : Forall (clean cols) pre -> step cols (EArray a (pre ++ y :: post)) cols y
| S_map a pre y post : Forall (clean cols) pre -> step cols (Ast.EMap a (pre ++ y :: post)) cols y
| S_pair_k a k v : step cols (EPair a k v) cols k
| S_pair_v a k v tk : vty cols k = Some tk -> step cols (EPair a k v) cols v.

(* the first fault in visiting order, with the location it is reported at *)
Inductive first_fault : list ty -> expr -> loc -> Prop :=
| FF_root cols e : root_fault c cols e = true -> first_fault cols e (fault_loc cols e)
| FF_step cols e cols' x l : step cols e cols' x -> first_fault cols' x l -> first_fault cols e l.

(* ---- a root fault is reported at fault_loc ---- *)
Ltac vS :=
  match goal with
  | |- context [visit c ?cols ?x (Some ?y)] =>
      let E := fresh "E" in
      pose proof (visit_sticky c x cols y) as E;
      destruct (visit c cols x (Some y)) as [[? ?] ?]; cbn [snd] in E; subst
  end.
Ltac eS :=
  match goal with
  | |- context [emit ?l ?r (Some ?y)] =>
      let E := fresh "E" in
      pose proof (emit_some l r y) as E;
      destruct (emit l r (Some y)) as [? ?]; cbn [snd] in E; subst
  end.
Ltac ifS := match goal with |- context [if ?b then _ else _] => destruct b end.
Ltac done := try (eexists; reflexivity).
Ltac usev :=
  repeat match goal with
  | H : context [match vty ?cols ?x with _ => _ end] |- _ =>
      let t := fresh "t" in let Hv := fresh "Hv" in let x' := fresh "x'" in let E := fresh "E" in
      destruct (vty cols x) as [t|] eqn:Hv; [destruct (vty_some c _ _ _ Hv) as [x' E]; try rewrite E | try discriminate]
  end.

Lemma all_sticky l : Forall (sticky_at c) l.
Proof. apply Forall_forall. intros z _. apply visit_sticky. Qed.

Lemma args_fault_loc cols pt args : forall i, args_fault c cols pt i args = true ->
  exists k, snd (fst (vargs c cols pt i args None)) = Some (bad_arg_loc cols pt i args, k).
Proof.
  induction args as [|a r IH]; intros i H; cbn [args_fault] in H; [discriminate|]. cbn [vargs bad_arg_loc].
  destruct (vty cols a) as [t|] eqn:Hv; [|discriminate]. destruct (vty_some c _ _ _ Hv) as [a1 E]. rewrite E.
  destruct (arg_bad a t (pt i)) eqn:HB.
  - unfold arg_bad in HB. apply andb_prop in HB. destruct HB as [HB H4]. apply andb_prop in HB. destruct HB as [HB H3].
    apply andb_prop in HB. destruct HB as [H1 H2]. unfold arg_rule.
    apply negb_true_iff in H1, H2, H3. rewrite H1, H2, H4, H3. cbn. eexists; reflexivity.
  - destruct (arg_rule a a1 t (pt i)) as [a2 ok] eqn:Ear. destruct ok.
    + destruct (IH (S i) H) as [k Ek]. destruct (vargs c cols pt (S i) r None) as [[? ?] ?]. cbn in Ek. subst.
      eexists; reflexivity.
    + (* refused although not bad by the reference: impossible *)
      exfalso. unfold arg_rule, arg_bad in *.
      destruct (is_arith a); cbn in *.
      * destruct (is_nil_ty (pt i)); [inversion Ear|].
        rewrite assignable_self in Ear. cbn in Ear. inversion Ear.
      * destruct (is_nil_ty t); cbn in *; [inversion Ear|].
        destruct (rkind_eqb (kind_of_ty t) RKInterface); cbn in *; [rewrite andb_false_r in Ear; inversion Ear|].
        destruct (assignable t (pt i)); cbn in *; [inversion Ear|discriminate].
Qed.

Lemma call_fault_located cols fn m l args : call_fault c cols fn m args = true ->
  exists k, snd (check_func (vargs c cols) fn m l args None) = Some (call_fault_loc cols fn m l args, k).
Proof.
  unfold call_fault, check_func, call_fault_loc. destruct fn; try discriminate.
  destruct outs as [|o [|o2 outs]]; try (intros; eexists; reflexivity).
  destruct (arity_rule ins variadic m (List.length args)); [intros; eexists; reflexivity|].
  intros H. destruct (args_fault_loc cols _ args 0%nat H) as [k E].
  destruct (vargs c cols (param_ty ins variadic m) 0 args None) as [[? ?] ok]. cbn in E. subst. destruct ok; eexists; reflexivity.
Qed.
Lemma root_located cols e : root_fault c cols e = true ->
  exists k, snd (visit c cols e None) = Some (fault_loc cols e, k).
Proof.
  intros HR. destruct e; cbn [root_fault] in HR; try discriminate; cbn [fault_loc].
  - (* ident *) cbn [visit]. unfold df_ident in HR. unfold ident_rule.
    destruct (cc_types c) as [tb|]; [|discriminate]. destruct (tget name tb) as [tg|].
    + rewrite HR. done.
    + apply andb_prop in HR. destruct HR as [H1 H2]. rewrite H1. apply negb_true_iff in H2. rewrite H2. done.
  - (* unary *) cbn [visit]. usev. destruct (df_unary_rule _ _ HR) as [k Ek]. rewrite Ek. done.
  - (* binary *) cbn [visit]. usev. apply andb_prop in HR. destruct HR as [H1 H2].
    destruct (df_binary_rule _ _ _ H2) as [k Ek]. unfold binary_node_rule, overload.
    unfold CheckProofs.no_overload in H1. destruct (Types.assoc (binop_str op) (cc_ops c)); [discriminate|]. rewrite Ek. done.
  - (* matches *) cbn [visit]. usev. unfold matches_rule.
    apply orb_prop in HR. destruct HR as [H|H]; apply na_str in H; rewrite H; rewrite ?andb_false_r; done.
  - (* property *) cbn [visit]. usev. apply andb_prop in HR. destruct HR as [H1 H2]. apply negb_true_iff in H1. subst.
    unfold property_rule. destruct (field_type (Checker.te c) (cfuel c) t name); try discriminate. done.
  - (* index *) cbn [visit]. usev. unfold index_rule. destruct (index_type t); [|done].
    apply na_int_str in HR. destruct HR as [H1 H2]. rewrite H1, H2. done.
  - (* slice *) cbn [visit]. usev. destruct (sliceable t) eqn:HS; cbn [negb orb] in HR; [|done].
    destruct from as [f|], to as [u|]; usev; cbn [opt_loc];
      repeat match goal with
      | H : (_ || _) = true |- _ => apply orb_prop in H; destruct H as [H|H]
      | H : not_a c_int _ = true |- _ => apply na_int in H; rewrite H
      end; cbn [negb]; done; try discriminate.
    all: try (destruct (is_integer t0); cbn [negb]; done; usev; done).
  - (* method *) rewrite visit_method. usev. destruct (method_callee c t name) as [[fn m]|].
    + destruct (call_fault_located cols fn m (aloc a) args HR) as [y Ey].
      destruct (check_func (vargs c cols) fn m (aloc a) args None) as [[? ?] ?]. cbn in Ey. subst. done.
    + apply negb_true_iff in HR. subst. done.
  - (* function *) rewrite visit_function. destruct (function_callee c name) as [[fn m]|].
    + destruct (call_fault_located cols fn m (aloc a) args HR) as [y E].
      destruct (check_func (vargs c cols) fn m (aloc a) args None) as [[? ?] ?]. cbn in E. subst. done.
    + rewrite HR. done.
  - (* builtin *)
    destruct b; try (cbn [visit]; done; fail);
    destruct args as [|x [|cl rest]]; try discriminate; cbn [visit]; usev;
    try (rewrite (na_len _ HR); done; fail).
    all: apply orb_prop in HR; destruct HR as [HR|HR]; [apply na_arr in HR; rewrite HR; done|].
    all: cbn [is_pred_builtin andb] in HR; try discriminate.
    all: destruct (is_array t); cbn [negb]; done.
    all: destruct cl; cbn [body_of] in HR; try discriminate; cbn [visit]; usev.
    all: apply andb_prop in HR; destruct HR as [H1 H2]; apply negb_true_iff in H1; rewrite H1.
    all: unfold closure_rule; cbn [closure_out is_interface dk dereference kind_of_ty]; rewrite (na_bool _ H2); done.
  - (* pointer *) cbn [visit]. destruct cols; [done|discriminate].
  - (* cond *) cbn [visit]. usev. rewrite (na_bool _ HR). done.
Qed.

(* ---- the error of the sub-expression reached first is the error of the whole ---- *)
Lemma vlist_prop cols pre y post e0 : Forall (clean cols) pre -> snd (visit c cols y None) = Some e0 ->
  snd (vlist c cols (pre ++ y :: post) None) = Some e0.
Proof.
  intros HF Hy. induction HF as [|a r [t Ha] _ IH]; cbn [app vlist].
  - destruct (visit c cols y None) as [[ty y'] st]. cbn [snd] in Hy. subst st.
    pose proof (vlist_sticky c cols post (all_sticky post) e0) as St. destruct (vlist c cols post (Some e0)). exact St.
  - destruct (vty_some c _ _ _ Ha) as [a' Ea]. rewrite Ea.
    destruct (vlist c cols (r ++ y :: post) None). exact IH.
Qed.

Lemma vargs_prop cols pt pre y post e0 : forall i, args_pass cols pt i pre -> snd (visit c cols y None) = Some e0 ->
  snd (fst (vargs c cols pt i (pre ++ y :: post) None)) = Some e0.
Proof.
  induction pre as [|a r IH]; intros i HP Hy; cbn [app vargs].
  - destruct (visit c cols y None) as [[ty y'] st]. cbn [snd] in Hy. subst st.
    destruct (arg_rule y y' ty (pt i)) as [a2 ok]. destruct ok; [|reflexivity].
    pose proof (vargs_sticky c cols pt post (all_sticky post) (S i) e0) as St.
    destruct (vargs c cols pt (S i) post (Some e0)) as [[? ?] ?]. exact St.
  - cbn [args_pass] in HP. destruct HP as [(t & a1 & Ea & Hok) HP]. rewrite Ea.
    destruct (arg_rule a a1 t (pt i)) as [a2 ok]. cbn [snd] in Hok. subst ok.
    specialize (IH (S i) HP Hy). destruct (vargs c cols pt (S i) (r ++ y :: post) None) as [[? ?] ?]. exact IH.
Qed.

Lemma check_func_prop cols ins v o m l args e0 :
  arity_rule ins v m (List.length args) = None ->
  snd (fst (vargs c cols (param_ty ins v m) 0 args None)) = Some e0 ->
  snd (check_func (vargs c cols) (TFunc ins v [o]) m l args None) = Some e0.
Proof.
  intros Ha Hv. unfold check_func. rewrite Ha.
  destruct (vargs c cols (param_ty ins v m) 0 args None) as [[? ?] ok]. cbn in Hv. subst. destruct ok; reflexivity.
Qed.

Ltac use_clean H :=
  let x' := fresh "x'" in let E := fresh "E" in destruct (vty_some c _ _ _ H) as [x' E]; rewrite E.
Ltac target Hy :=
  match type of Hy with
  | snd (visit c ?cols ?x None) = Some ?y =>
      destruct (visit c cols x None) as [[? ?] ?]; cbn [snd] in Hy; subst
  end.
Ltac rest := repeat first [vS | eS | ifS]; try reflexivity.

Lemma step_prop cols e cols' x : step cols e cols' x ->
  forall y, snd (visit c cols' x None) = Some y -> snd (visit c cols e None) = Some y.
Proof.
  intros HS y Hy. inversion HS; subst; clear HS.
  - cbn [visit]. target Hy. rest.
  - cbn [visit]. target Hy. rest.
  - cbn [visit]. use_clean H. target Hy. rest.
  - cbn [visit]. target Hy. rest.
  - cbn [visit]. use_clean H. target Hy. rest.
  - cbn [visit]. target Hy. rest.
  - cbn [visit]. target Hy. rest.
  - cbn [visit]. use_clean H. target Hy. rest.
  - (* slice x *) cbn [visit]. target Hy. destruct f, u; rest.
  - cbn [visit]. use_clean H. rewrite H0. target Hy. destruct u; rest.
  - cbn [visit]. use_clean H. rewrite H0. target Hy. rest.
  - cbn [visit]. use_clean H. rewrite H0. use_clean H1. rewrite H2. cbn [negb]. target Hy. rest.
  - (* method receiver *) rewrite visit_method. target Hy.
    match goal with |- context [method_callee c ?t ?n] => destruct (method_callee c t n) as [[fn m0]|] end.
    + match goal with |- context [check_func ?a ?b ?cc ?d ?ee (Some ?yy)] =>
        pose proof (check_func_sticky c cols' b cc d ee (all_sticky ee) yy) as St;
        destruct (check_func a b cc d ee (Some yy)) as [[? ?] ?]; cbn in St; subst end. reflexivity.
    + destruct ns; reflexivity.
  - (* method argument *) rewrite visit_method. use_clean H. rewrite H0.
    pose proof (check_func_prop cols' ins v o m (aloc a) _ y H1 (vargs_prop _ _ _ _ post _ _ H2 Hy)) as St.
    destruct (check_func (vargs c cols') (TFunc ins v [o]) m (aloc a) (pre ++ x :: post) None) as [[? ?] ?]. cbn in St. subst. reflexivity.
  - (* function argument *) rewrite visit_function. rewrite H.
    pose proof (check_func_prop cols' ins v o m (aloc a) _ y H0 (vargs_prop _ _ _ _ post _ _ H1 Hy)) as St.
    destruct (check_func (vargs c cols') (TFunc ins v [o]) m (aloc a) (pre ++ x :: post) None) as [[? ?] ?]. cbn in St. subst. reflexivity.
  - cbn [visit]. target Hy. rest.
  - destruct b; try discriminate; cbn [visit]; target Hy; rest.
  - destruct b; try discriminate; cbn [visit]; use_clean H0; rewrite H1; cbn [negb]; target Hy; rest.
  - cbn [visit]. target Hy. rest.
  - cbn [visit]. target Hy. rest.
  - cbn [visit]. use_clean H. rewrite H0. cbn [negb]. target Hy. rest.
  - cbn [visit]. use_clean H. rewrite H0. cbn [negb]. use_clean H1. target Hy. rest.
  - rewrite visit_array. pose proof (vlist_prop _ _ _ post _ H Hy) as St.
    destruct (vlist c cols' (pre ++ x :: post) None). cbn in St. subst. reflexivity.
  - rewrite visit_map. pose proof (vlist_prop _ _ _ post _ H Hy) as St.
    destruct (vlist c cols' (pre ++ x :: post) None). cbn in St. subst. reflexivity.
  - cbn [visit]. target Hy. rest.
  - cbn [visit]. use_clean H. target Hy. rest.
Qed.

Theorem first_fault_located cols e l : first_fault cols e l -> exists k, snd (visit c cols e None) = Some (l, k).
Proof.
  induction 1 as [cols e HR|cols e cols' x l HS _ [k IH]].
  - apply root_located. exact HR.
  - exists k. eapply step_prop; eauto.
Qed.

(* checker.Check tests the result kind BEFORE it looks at the recorded error: under AsBool /
   AsInt64 / AsFloat64 the error can be replaced by the expectation failure (no location) *)
Theorem first_error_location e l : first_fault [] e l ->
  exists k, snd (check c e) = Some (l, k) \/
            (cc_expect c <> None /\ snd (check c e) = Some (noloc, CExpect)).
Proof.
  intros H. destruct (first_fault_located _ _ _ H) as [k E]. exists k. unfold check.
  destruct (visit c [] e None) as [[t e'] st]. cbn [snd] in E. subst st.
  destruct (cc_expect c) as [kx|]; [|left; reflexivity].
  destruct (expect_ok kx t); [left; reflexivity|right; split; [discriminate|reflexivity]].
Qed.

Corollary first_error_location_plain e l : cc_expect c = None -> first_fault [] e l ->
  exists k, snd (check c e) = Some (l, k).
Proof.
  intros Hx H. destruct (first_error_location e l H) as [k [E|[N _]]]; [eauto|congruence].
Qed.

(* first_fault refines the reference relation of C03_rejects: same faults, same sub-expression
   positions, plus "nothing before it fails" *)
Lemma step_child_at cols e cols' x : step cols e cols' x -> child_at c cols e cols' x.
Proof.
  intros H. inversion H; subst; try (econstructor; eauto; fail).
  - eapply CA_meth_arg; eauto. apply in_or_app. right. left. reflexivity.
  - eapply CA_fun_arg; eauto. apply in_or_app. right. left. reflexivity.
  - apply CA_arr. apply in_or_app. right. left. reflexivity.
  - apply CA_map. apply in_or_app. right. left. reflexivity.
Qed.

Lemma first_fault_ill_typed cols e l : first_fault cols e l -> ill_typed_ref c cols e.
Proof.
  induction 1 as [cols e HR|cols e cols' x l HS _ IH].
  - apply IT_root. exact HR.
  - eapply IT_sub; [apply step_child_at; exact HS|exact IH].
Qed.
End Loc.

(* non-vacuity of first_error_location in the universe SWit *)
Module LWit.
Import SWit.
Definition at_ (col : Z) : ann := at_loc (1%Z, col).

(* I + S * 2 : the fault is the inner node `S * 2` at column 6 *)
Definition inner : expr := EBinary (at_ 6) BMul (EIdent (at_ 4) "S" false) (EInt (at_ 8) 2).
Definition e_inner : expr := EBinary (at_ 2) BAdd (EIdent (at_ 0) "I" false) inner.

Lemma e_inner_fault : first_fault c [] e_inner (1%Z, 6%Z).
Proof.
  eapply FF_step; [apply (S_bin_r c [] (at_ 2) BAdd (EIdent (at_ 0) "I" false) inner tint); vm_compute; reflexivity|].
  change (1%Z, 6%Z) with (fault_loc c [] inner). apply FF_root. vm_compute. reflexivity.
Qed.

Lemma e_inner_reported : snd (check c e_inner) = Some ((1%Z, 6%Z), CMismatch2).
Proof. vm_compute. reflexivity. Qed.

(* count(AI, {Inc(#, 1) > 0}) : too many arguments, reported at the call inside the closure *)
Definition call2 : expr := EFunction (at_ 11) "Inc" [EPointer (at_ 15); EInt (at_ 18) 1] false.
Definition e_closure : expr :=
  EBuiltin (at_ 0) BiCount [EIdent (at_ 6) "AI" false; EClosure (at_ 10) (EBinary (at_ 21) BGt call2 (EInt (at_ 23) 0))].

Lemma e_closure_fault : first_fault c [] e_closure (1%Z, 11%Z).
Proof.
  eapply FF_step; [apply (S_bi_cl c [] (at_ 0) BiCount (EIdent (at_ 6) "AI" false) _ [] (TSlice tint)); vm_compute; reflexivity|].
  eapply FF_step; [apply S_closure|]. eapply FF_step; [apply S_bin_l|].
  change (1%Z, 11%Z) with (fault_loc c [TSlice tint] call2). apply FF_root. vm_compute. reflexivity.
Qed.

Lemma e_closure_reported : snd (check c e_closure) = Some ((1%Z, 11%Z), CTooMany).
Proof. vm_compute. reflexivity. Qed.
End LWit.

(* Ty/TypesTable.v — executable hand model of the two name-resolution implementations of the
   library and of the documentation name set.  No proofs here.

     conf/types_table.go   CreateTypesTable, FieldsFromStruct          -> create_types_table, ffs
     checker/types.go      fieldType, methodType, isFuncType           -> field_type, method_type, is_func_type
     checker/checker.go    IdentifierNode/PropertyNode/MethodNode/FunctionNode (strict mode, as
                           installed by expr.Env)                      -> check_access
     vm/runtime.go         fetch, FetchFn; vm/vm.go OpFetch/OpFetchMap/OpProperty/OpMethod/OpCall
                                                                       -> fetch, fetch_fn, run_access
     docgen/docgen.go      keys of CreateDoc(env).Variables            -> doc_names

   Go's `range` over a map is the explicit argument `perm` (order in which the entries of a table
   are visited).  Recursion over embedding depth is by fuel; fuel0 = number of declared structs + 1
   is enough for every acyclic declaration, and running out of fuel (LFuel / None) is the model's
   account of `type T struct{ *T }`, on which the real FieldsFromStruct and fieldType recurse until
   the Go runtime aborts the process with "fatal error: stack overflow" (replayed). *)
From Coq Require Import ZArith Bool List String Floats.
Require Import X.Base.Num X.Base.Value X.Ty.Types.
Import ListNotations.
Open Scope string_scope.

(* ---------- conf.Tag / conf.TypesTable ---------- *)
Record tag := mkTag { tg_ty : ty; tg_method : bool; tg_amb : bool }.
Definition table := list (string * tag).      (* a Go map: keys pairwise distinct *)

Definition amb_tag : tag := mkTag TNilT false true.          (* Tag{Ambiguous: true}: Type is nil *)
Definition field_tag (f : fielddef) : tag := mkTag (fd_ty f) false false.
Definition method_tag (t : ty) : tag := mkTag t true false.

Definition tget (n : string) (m : table) : option tag := assoc n m.
Definition tdel (n : string) (m : table) : table :=
  filter (fun e => negb (String.eqb (fst e) n)) m.
Definition tset (n : string) (v : tag) (m : table) : table := (n, v) :: tdel n m.

Inductive lk (A : Type) := LFound (a : A) | LMissing | LFuel.
Arguments LFound {A}. Arguments LMissing {A}. Arguments LFuel {A}.
Definition lbind {A B} (x : lk A) (f : A -> lk B) : lk B :=
  match x with LFound a => f a | LMissing => LMissing | LFuel => LFuel end.

(* environment handed to expr.Env / CreateTypesTable / CreateDoc: for a struct only its type
   matters; for a map the sample's keys with the dynamic types of their values *)
Inductive envty :=
| EStruct (t : ty)
| EMap (mt : ty) (entries : list (string * ty)).

Inductive access :=
| APath (n0 : string) (ns : list string)             (* n0        n0.n1.n2 ...      *)
| AMethod (n0 : string) (ns : list string) (m : string)   (* n0.m()    n0.n1.m()         *)
| AFunc (n : string).                                (* n()                         *)

(* what the checker assumed about an accepted access *)
Inductive cres :=
| CVal (t : ty)                              (* a value of static type t *)
| CCall (fn : ty) (method : bool) (ret : ty).   (* a callable of type fn (receiver first when method), result ret *)

Section Model.
Variable te : tenv.
Variable perm : table -> table.

Definition fuel0 : nat := S (List.length te).

(* ================= conf/types_table.go ================= *)
Definition merge_entry (types : table) (e : string * tag) : table :=
  match tget (fst e) types with
  | Some _ => tset (fst e) amb_tag types
  | None => tset (fst e) (snd e) types
  end.

Definition ffs_step (rec : ty -> option table) (acc : option table) (f : fielddef) : option table :=
  match acc with
  | None => None
  | Some types =>
      match (if fd_anon f
             then match rec (fd_ty f) with
                  | Some sub => Some (fold_left merge_entry (perm sub) types)
                  | None => None
                  end
             else Some types) with
      | Some types1 => Some (tset (fd_name f) (field_tag f) types1)
      | None => None
      end
  end.

(* reflect.Type.FieldByName(name) on struct sn, as the final loop of FieldsFromStruct uses it
   (reflect implements the selector rule of the language): the entry the name ends up with.
   None = the entry is deleted (the field is unexported). *)
Definition res_tag (sn name : string) : option tag :=
  match go_resolve_field te sn name with
  | RField _ t true => Some (mkTag t false false)
  | RField _ _ false => None
  | _ => Some amb_tag
  end.

(* `for name := range types { ... }` at the end of FieldsFromStruct (since fix b9d2c0f): every
   collected name is resolved again the way Go resolves a selector *)
Definition resolve_entries (sn : string) (tb : table) : table :=
  flat_map (fun e => match res_tag sn (fst e) with Some tg => [(fst e, tg)] | None => [] end) tb.

(* FieldsFromStruct; None = recursion deeper than the fuel *)
Fixpoint ffs (fuel : nat) (t : ty) {struct fuel} : option table :=
  match dereference t with
  | TStruct sn =>
      match fuel with
      | O => None
      | S n =>
          match fold_left (ffs_step (ffs n)) (fields_of te (TStruct sn)) (Some []) with
          | Some tb => Some (resolve_entries sn (perm tb))
          | None => None
          end
      end
  | _ => Some []
  end.

(* FieldsFromStruct BEFORE fix b9d2c0f (kept for the historical examples of the two repaired
   findings C16-shadow-order and C16-depth; nothing else uses it) *)
Fixpoint ffs_old (fuel : nat) (t : ty) {struct fuel} : option table :=
  match dereference t with
  | TStruct sn =>
      match fuel with
      | O => None
      | S n => fold_left (ffs_step (ffs_old n)) (fields_of te (TStruct sn)) (Some [])
      end
  | _ => Some []
  end.

Definition add_methods (ms : list (string * ty)) (tb : table) : table :=
  fold_left (fun acc m => tset (fst m) (method_tag (snd m)) acc) ms tb.

Definition elem1 (t : ty) : ty := match t with TPtr e => e | _ => t end.   (* one pointer level *)

Definition create_types_table (env : envty) : option table :=
  match env with
  | EStruct t =>
      match elem1 t with
      | TStruct sn =>
          match ffs fuel0 (TStruct sn) with
          | Some tb => Some (add_methods (method_set te t) tb)
          | None => None
          end
      | _ => Some []
      end
  | EMap mt entries =>
      match under (elem1 mt) with
      | TMap TString _ =>
          Some (add_methods (method_set te mt)
                 (fold_left (fun acc e => tset (fst e) (snd e) acc)
                            (perm (map (fun e => (fst e, mkTag (snd e) false false)) entries)) []))
      | _ => Some []
      end
  end.

(* expr.Env: c.MapEnv = the environment is exactly a map[string]interface{} *)
Definition is_map_env (env : envty) : bool :=
  match env with EMap (TMap TString TIface) _ => true | _ => false end.

(* ================= checker/types.go ================= *)
(* second loop of fieldType / methodType: embedded fields in declaration order, first hit wins *)
Fixpoint first_emb {A : Type} (rec : ty -> lk A) (fs : list fielddef) : lk A :=
  match fs with
  | [] => LMissing
  | f :: r =>
      if fd_anon f then
        match rec (fd_ty f) with
        | LFound a => LFound a
        | LMissing => first_emb rec r
        | LFuel => LFuel
        end
      else first_emb rec r
  end.

Fixpoint field_type (fuel : nat) (t : ty) (name : string) {struct fuel} : lk ty :=
  match under (dereference t) with
  | TIface => LFound TIface
  | TStruct sn =>
      match find (is_named name) (fields_of te (TStruct sn)) with
      | Some f => LFound (fd_ty f)
      | None =>
          match fuel with
          | O => LFuel
          | S n => first_emb (fun ft => field_type n ft name) (fields_of te (TStruct sn))
          end
      end
  | TMap _ e => LFound e
  | _ => LMissing
  end.

Fixpoint method_type (fuel : nat) (t : ty) (name : string) {struct fuel} : lk (ty * bool) :=
  match t with
  | TNilT => LMissing
  | _ =>
      match method_by_name te t name with
      | Some mt => LFound (mt, true)
      | None =>
          match under (elem1 t) with
          | TIface => LFound (TIface, false)
          | TStruct sn =>
              match find (fun f => negb (fd_anon f) && is_named name f) (fields_of te (TStruct sn)) with
              | Some f => LFound (fd_ty f, false)
              | None =>
                  match fuel with
                  | O => LFuel
                  | S n => first_emb (fun ft => method_type n ft name) (fields_of te (TStruct sn))
                  end
              end
          | TMap _ e => LFound (e, false)
          | _ => LMissing
          end
      end
  end.

Definition is_func_type (t : ty) : option ty :=
  match under (dereference t) with
  | TIface => Some TIface
  | TFunc i v o => Some (TFunc i v o)
  | _ => None
  end.

(* checkFunc when the call carries exactly the arguments the signature asks for *)
Definition call_type (fn : ty) : option ty :=
  match fn with
  | TIface => Some TIface
  | TFunc _ _ [o] => Some o
  | _ => None
  end.

(* ================= checker/checker.go (strict: expr.Env) ================= *)
Definition check_ident (tb : table) (n : string) : lk ty :=
  match tget n tb with
  | Some tg => if tg_amb tg then LMissing else LFound (tg_ty tg)
  | None => LMissing
  end.

Fixpoint check_path (t : ty) (ns : list string) : lk ty :=
  match ns with
  | [] => LFound t
  | n :: r => lbind (field_type fuel0 t n) (fun t' => check_path t' r)
  end.

Definition check_call (f : ty) (method : bool) : lk cres :=
  match is_func_type f with
  | Some fn => match call_type fn with
               | Some ret => LFound (CCall fn method ret)
               | None => LMissing
               end
  | None => LMissing
  end.

Definition check_access (tb : table) (a : access) : lk cres :=
  match a with
  | APath n0 ns =>
      lbind (check_ident tb n0) (fun t0 => lbind (check_path t0 ns) (fun t => LFound (CVal t)))
  | AMethod n0 ns m =>
      lbind (check_ident tb n0) (fun t0 =>
      lbind (check_path t0 ns) (fun t =>
      lbind (method_type fuel0 t m) (fun fm => check_call (fst fm) (snd fm))))
  | AFunc n =>
      match tget n tb with
      | Some tg => check_call (tg_ty tg) (tg_method tg)
      | None => LMissing
      end
  end.

(* ================= values ================= *)
Definition zero_num (k : kind) : num := if is_float k then NFlt k 0%float else NInt k 0%Z.

Fixpoint dyn_ty (v : value) : ty :=
  match v with
  | VNil => TNilT
  | VBool _ => TBool
  | VNum n => TNum (num_kind n)
  | VStr _ => TString
  | VArr e _ => TSlice e
  | VNilArr e => TSlice e
  | VMap k e _ => TMap k e
  | VStruct n p _ => if p then TPtr (TStruct n) else TStruct n
  | VNilPtr t => t                       (* t is the full (pointer or func) type of the nil *)
  | VNilMap k e => TMap k e
  | VFunc _ t => t
  | VNamed n x => TNamed n (dyn_ty x)
  | VOpaque d => TOpaque d
  end.

(* a value of type t with nothing inside: empty containers, non-nil pointers to structs *)
Fixpoint shallow (t : ty) : value :=
  match t with
  | TNilT => VNil
  | TBool => VBool false
  | TNum k => VNum (zero_num k)
  | TString => VStr ""
  | TIface => VNil
  | TSlice e => VArr e []
  | TMap k e => VMap k e []
  | TStruct sn => VStruct sn false []
  | TPtr (TStruct sn) => VStruct sn true []
  | TPtr _ => VNilPtr t
  | TFunc _ _ _ => VFunc "" t
  | TNamed n u => VNamed n (shallow u)
  | TOpaque d => VOpaque d
  end.

(* the fully populated value of a type: every pointer to a struct non-nil, every map[string]T
   holding the keys `keys`, functions non-nil, down to nesting depth `fuel` *)
Fixpoint populate (keys : list string) (fuel : nat) (t : ty) {struct fuel} : value :=
  match fuel with
  | O => shallow t
  | S n =>
      match t with
      | TMap TString e => VMap TString e (map (fun s => (VStr s, populate keys n e)) keys)
      | TStruct sn =>
          VStruct sn false (map (fun f => (fd_name f, populate keys n (fd_ty f))) (fields_of te (TStruct sn)))
      | TPtr (TStruct sn) =>
          VStruct sn true (map (fun f => (fd_name f, populate keys n (fd_ty f))) (fields_of te (TStruct sn)))
      | TNamed name u => VNamed name (populate keys n u)
      | _ => shallow t
      end
  end.

Definition populate_env (keys : list string) (fuel : nat) (env : envty) : value :=
  match env with
  | EStruct t => populate keys fuel t
  | EMap mt entries =>
      match under (elem1 mt) with
      | TMap k e => VMap k e (map (fun en => (VStr (fst en), populate keys fuel (snd en))) entries)
      | _ => VNil
      end
  end.

(* reflect.Zero(t).Interface() *)
Fixpoint zero_value (fuel : nat) (t : ty) {struct fuel} : value :=
  match t with
  | TStruct sn =>
      match fuel with
      | O => VStruct sn false []
      | S n => VStruct sn false (map (fun f => (fd_name f, zero_value n (fd_ty f))) (fields_of te (TStruct sn)))
      end
  | TPtr _ => VNilPtr t
  | TMap k e => VNilMap k e
  | TFunc _ _ _ => VNilPtr t
  | TNamed name u =>
      match fuel with
      | O => VNamed name VNil
      | S n => VNamed name (zero_value n u)
      end
  | _ => shallow t
  end.

Fixpoint map_get (name : string) (m : list (value * value)) : option value :=
  match m with
  | [] => None
  | (VStr s, x) :: r => if String.eqb s name then Some x else map_get name r
  | _ :: r => map_get name r
  end.

(* ================= vm/runtime.go ================= *)
(* reflect.Value.FieldByIndex *)
Fixpoint nav (v : value) (path : list nat) : outcome value :=
  match path with
  | [] => Ok v
  | i :: r =>
      match v with
      | VStruct _ _ vals =>
          match nth_error vals i with
          | Some (_, x) => nav x r
          | None => Fail EOther
          end
      | VNilPtr _ => Fail ENilDeref        (* "reflect: indirection through nil pointer to embedded struct" *)
      | _ => Fail EOther
      end
  end.

(* reflect.Value.FieldByName: reflect implements the selector rule of the language (fields only):
   Ok None = the zero Value (absent or ambiguous); the flag = CanInterface (exported) *)
Definition rt_field_by_name (v : value) (name : string) : outcome (option (value * bool)) :=
  match v with
  | VStruct sn _ _ =>
      match go_resolve_field te sn name with
      | RField p _ ex => match nav v p with Ok x => Ok (Some (x, ex)) | Fail e => Fail e end
      | _ => Ok None
      end
  | _ => Ok None
  end.

Definition unname (v : value) : value := match v with VNamed _ x => x | _ => v end.

(* fetch(from, name, nilsafe=false) *)
Definition fetch (from : value) (name : string) : outcome value :=
  match unname from with
  | VStruct sn p vals =>
      match rt_field_by_name (VStruct sn p vals) name with
      | Ok (Some (x, true)) => Ok x
      | Ok _ => Fail ECannotFetch
      | Fail e => Fail e
      end
  | VMap TString e m =>
      match map_get name m with
      | Some x => Ok x
      | None => Ok (zero_value fuel0 e)
      end
  | VMap _ _ _ => Fail EReflect            (* MapIndex with a string key on another key type *)
  | VNilMap TString e => Ok (zero_value fuel0 e)
  | VNilMap _ _ => Fail EReflect
  | VArr _ _ => Fail EInvalidOp            (* toInt(string) *)
  | VStr _ => Fail EInvalidOp
  | _ => Fail ECannotFetch
  end.

(* FetchFn(from, name) followed by the accessibility test of reflect.Value.Call *)
Definition fetch_fn (from : value) (name : string) : outcome value :=
  match from with
  | VNil => Fail EReflect                  (* NumMethod of the zero Value *)
  | _ =>
      match method_by_name te (dyn_ty from) name with
      | Some mt => Ok (VFunc name (strip_receiver mt))
      | None =>
          match unname from with
          | VStruct sn p vals =>
              match rt_field_by_name (VStruct sn p vals) name with
              | Ok (Some (x, true)) => Ok x
              | Ok (Some (_, false)) => Fail EReflect    (* Call using value obtained using unexported field *)
              | Ok None => Fail ECannotFetch
              | Fail e => Fail e
              end
          | VMap TString e m =>
              match map_get name m with
              | Some x =>
                  match kind_of_ty e with
                  | RKInterface => Ok x                  (* value.Elem() of an interface element *)
                  | _ => Fail EReflect                   (* value.Elem() of a func / other element *)
                  end
              | None => Fail ECannotFetch
              end
          | _ => Fail ECannotFetch
          end
      end
  end.

(* OpFetchMap for a map[string]interface{} environment, OpFetch otherwise *)
Definition fetch_env (mapenv : bool) (envv : value) (n : string) : outcome value :=
  if mapenv then
    match envv with
    | VMap _ _ m => match map_get n m with Some x => Ok x | None => Ok VNil end
    | _ => Fail EIfaceConv
    end
  else fetch envv n.

Fixpoint fetch_path (v : value) (ns : list string) : outcome value :=
  match ns with
  | [] => Ok v
  | n :: r => bind (fetch v n) (fun x => fetch_path x r)
  end.

(* what the VM resolves an access to: the value, or for the two call positions the callable *)
Definition run_access (mapenv : bool) (envv : value) (a : access) : outcome value :=
  match a with
  | APath n0 ns => bind (fetch_env mapenv envv n0) (fun v => fetch_path v ns)
  | AMethod n0 ns m =>
      bind (fetch_env mapenv envv n0) (fun v => bind (fetch_path v ns) (fun b => fetch_fn b m))
  | AFunc n => fetch_fn envv n
  end.

(* ================= docgen/docgen.go ================= *)
Definition doc_operators : list string := ["matches"; "contains"; "startsWith"; "endsWith"].
Definition doc_builtins : list string :=
  ["true"; "false"; "len"; "all"; "none"; "any"; "one"; "filter"; "map"; "count"].
Definition doc_fixed : list string := (doc_operators ++ doc_builtins)%list.

Definition doc_vars (tb : table) : list string :=
  map fst (filter (fun e => negb (tg_amb (snd e))) tb).

Definition doc_names (env : envty) : option (list string) :=
  match create_types_table env with
  | Some tb => Some (doc_vars tb ++ doc_fixed)%list
  | None => None
  end.

(* ================= decidable shape predicates (used by the carve-outs) ================= *)
(* `name` occurs somewhere in the embedding tree below t *)
Fixpoint occurs (fuel : nat) (t : ty) (name : string) {struct fuel} : bool :=
  match dereference t with
  | TStruct sn =>
      match fuel with
      | O => false
      | S n => existsb (fun f => is_named name f || (fd_anon f && occurs n (fd_ty f) name))
                       (fields_of te (TStruct sn))
      end
  | _ => false
  end.

Definition emb_with (n : nat) (name : string) (f : fielddef) : bool :=
  fd_anon f && occurs n (fd_ty f) name.

(* the fields declared after the first one called `name` *)
Fixpoint after_own (name : string) (fs : list fielddef) : list fielddef :=
  match fs with
  | [] => []
  | f :: r => if is_named name f then r else after_own name r
  end.

Inductive dupclass := DClean | DShadowOrder | DMulti.

(* how `name` is duplicated along the part of the embedding tree that decides its resolution:
   DShadowOrder: a struct declares `name` itself BEFORE an embedded field that also provides it;
   DMulti: a struct without an own `name` has two or more embedded fields providing it *)
Fixpoint dup_class (fuel : nat) (t : ty) (name : string) {struct fuel} : dupclass :=
  match dereference t with
  | TStruct sn =>
      match fuel with
      | O => DClean
      | S n =>
          let fs := fields_of te (TStruct sn) in
          match find (is_named name) fs with
          | Some _ => if existsb (emb_with n name) (after_own name fs) then DShadowOrder else DClean
          | None =>
              match filter (emb_with n name) fs with
              | [] => DClean
              | [e] => dup_class n (fd_ty e) name
              | _ => DMulti
              end
          end
      end
  | _ => DClean
  end.

Definition dupclass_eqb (a b : dupclass) : bool :=
  match a, b with
  | DClean, DClean | DShadowOrder, DShadowOrder | DMulti, DMulti => true
  | _, _ => false
  end.

(* fieldType / methodType look depth-first: they can differ from Go's rule only when two
   embedded fields of one struct both provide the name *)
Fixpoint emb_multi (fuel : nat) (t : ty) (name : string) {struct fuel} : bool :=
  match dereference t with
  | TStruct sn =>
      match fuel with
      | O => false
      | S n =>
          let fs := fields_of te (TStruct sn) in
          match find (is_named name) fs with
          | Some _ => false
          | None =>
              match filter (emb_with n name) fs with
              | [] => false
              | [e] => emb_multi n (fd_ty e) name
              | _ => true
              end
          end
      end
  | _ => false
  end.

(* the embedding below t is acyclic and not deeper than the fuel *)
Fixpoint fuel_ok (fuel : nat) (t : ty) {struct fuel} : bool :=
  match dereference t with
  | TStruct sn =>
      match fuel with
      | O => false
      | S n => forallb (fun f => if fd_anon f then fuel_ok n (fd_ty f) else true) (fields_of te (TStruct sn))
      end
  | _ => true
  end.

End Model.

(* the iteration order used when the model is executed *)
Definition perm_id (t : table) : table := t.
Definition perm_rev (t : table) : table := rev t.

(* Ty/CheckProofs.v — theorems about the checker model Ty/Checker.v (property C03).

   Part 1  the first recorded error survives every later step of the visitor (visit_sticky);
   Part 2  REFERENCE relation ill_typed_ref for the documented typing rules and
           C03_rejects: a violation anywhere in the expression makes check report an error;
   Part 3  C03_cast: result kinds under AsBool / AsInt64 / AsFloat64;
   Part 4  value typing, environment typing and C03_sound (by induction on the expression). *)
From Coq Require Import ZArith Bool List String Lia.
Require Import X.Base.Num X.Base.Value X.Syn.Ast X.Sem.Prim X.Sem.Sem X.Ty.Types X.Ty.TypesTable X.Ty.Checker.
Import ListNotations.

(* ---------- induction over trees: every child satisfies P ---------- *)
Section ExprInd.
Variable P : expr -> Prop.
Hypothesis H : forall e, Forall P (children e) -> P e.

Lemma expr_ind2 : forall e, P e.
Proof.
  fix IH 1. intro e. apply H.
  destruct e; cbn [children]; try (repeat constructor; apply IH).
  - constructor; [apply IH|]. destruct from as [f|], to as [t|]; cbn; repeat constructor; apply IH.
  - constructor; [apply IH|]. induction args as [|x r IHr]; constructor; [apply IH | exact IHr].
  - induction args as [|x r IHr]; constructor; [apply IH | exact IHr].
  - induction args as [|x r IHr]; constructor; [apply IH | exact IHr].
  - induction es as [|x r IHr]; constructor; [apply IH | exact IHr].
  - induction pairs as [|x r IHr]; constructor; [apply IH | exact IHr].
Qed.
End ExprInd.

Section V.
Variable c : cconfig.

Section Cols.
Variable cols : list ty.
Fixpoint vlist (es : list expr) (st : cst) {struct es} : list expr * cst :=
  match es with
  | [] => ([], st)
  | x :: r =>
      let '(_, x', st1) := visit c cols x st in
      let '(r', st2) := vlist r st1 in (x' :: r', st2)
  end.

Fixpoint vargs (pt : nat -> ty) (i : nat) (args : list expr) (st : cst) {struct args} : list expr * cst * bool :=
  match args with
  | [] => ([], st, true)
  | a :: r =>
      let '(t, a1, st1) := visit c cols a st in
      let '(a2, ok) := arg_rule a a1 t (pt i) in
      if ok then
        let '(r', st2, ok') := vargs pt (S i) r st1 in (a2 :: r', st2, ok')
      else (a2 :: r, record (loc_of a) CArgType st1, false)
  end.
End Cols.

Lemma visit_function cols a name args fast st :
  visit c cols (EFunction a name args fast) st =
  match function_callee c name with
  | Some (fn, m) =>
      let '(t', args', st1) := check_func (vargs cols) fn m (aloc a) args st in
      (t', settle (EFunction a name args' (fast || fast_sig fn m)) t', st1)
  | None =>
      if negb (cc_strict c) then (undefined_ty c, settle (EFunction a name args fast) (undefined_ty c), st)
      else let '(t', st1) := fail_at (aloc a) CUnknownFunc st in (t', settle (EFunction a name args fast) t', st1)
  end.
Proof. reflexivity. Qed.

Lemma visit_method cols a x name args ns st :
  visit c cols (EMethod a x name args ns) st =
  let '(t, x', st1) := visit c cols x st in
  match method_callee c t name with
  | Some (fn, m) =>
      let '(t', args', st2) := check_func (vargs cols) fn m (aloc a) args st1 in
      (t', settle (EMethod a x' name args' ns) t', st2)
  | None =>
      if ns then (TNilT, settle (EMethod a x' name args ns) TNilT, st1)
      else let '(t', st2) := fail_at (aloc a) CNoMethod st1 in (t', settle (EMethod a x' name args ns) t', st2)
  end.
Proof. reflexivity. Qed.

Lemma visit_array cols a es st :
  visit c cols (EArray a es) st =
  let '(es', st1) := vlist cols es st in (TSlice TIface, settle (EArray a es') (TSlice TIface), st1).
Proof. reflexivity. Qed.

Lemma visit_map cols a ps st :
  visit c cols (Ast.EMap a ps) st =
  let '(ps', st1) := vlist cols ps st in (TMap TString TIface, settle (Ast.EMap a ps') (TMap TString TIface), st1).
Proof. reflexivity. Qed.

(* ---------- the first error survives ---------- *)
Lemma record_some l k y : record l k (Some y) = Some y.
Proof. reflexivity. Qed.

Lemma emit_some l r y : snd (emit l r (Some y)) = Some y.
Proof. destruct r; reflexivity. Qed.

Definition sticky_at (e : expr) : Prop := forall cols y, snd (visit c cols e (Some y)) = Some y.

Lemma vlist_sticky cols es : Forall sticky_at es -> forall y, snd (vlist cols es (Some y)) = Some y.
Proof.
  induction 1 as [|x r Hx _ IH]; intros y; cbn [vlist]; [reflexivity|].
  pose proof (Hx cols y) as E. destruct (visit c cols x (Some y)) as [[t x'] st1]. cbn in E. subst st1.
  specialize (IH y). destruct (vlist cols r (Some y)) as [r' st2]. exact IH.
Qed.

Lemma vargs_sticky cols pt args : Forall sticky_at args -> forall i y, snd (fst (vargs cols pt i args (Some y))) = Some y.
Proof.
  induction 1 as [|x r Hx _ IH]; intros i y; cbn [vargs]; [reflexivity|].
  pose proof (Hx cols y) as E. destruct (visit c cols x (Some y)) as [[t x'] st1]. cbn in E. subst st1.
  destruct (arg_rule x x' t (pt i)) as [a2 [|]].
  - specialize (IH (S i) y). destruct (vargs cols pt (S i) r (Some y)) as [[r' st2] ok']. exact IH.
  - reflexivity.
Qed.

Lemma check_func_sticky cols fn m l args : Forall sticky_at args ->
  forall y, snd (check_func (vargs cols) fn m l args (Some y)) = Some y.
Proof.
  intros HF y. unfold check_func. destruct fn; try reflexivity.
  destruct outs as [|o [|o2 outs]]; try reflexivity.
  destruct (arity_rule ins variadic m (List.length args)); [reflexivity|].
  pose proof (vargs_sticky cols (param_ty ins variadic m) args HF 0%nat y) as E.
  destruct (vargs cols (param_ty ins variadic m) 0 args (Some y)) as [[args' st'] ok]. cbn in E. subst.
  destruct ok; reflexivity.
Qed.

Ltac inv_forall :=
  repeat match goal with
  | H : Forall _ (_ :: _) |- _ => inversion H; clear H; subst
  | H : Forall _ [] |- _ => clear H
  end.

Ltac vstep :=
  match goal with
  | H : sticky_at ?x |- context [visit c ?cols ?x (Some ?y)] =>
      let E := fresh "E" in
      pose proof (H cols y) as E;
      destruct (visit c cols x (Some y)) as [[? ?] ?]; cbn [snd] in E; subst
  end.

Ltac estep :=
  match goal with
  | |- context [emit ?l ?r (Some ?y)] =>
      let E := fresh "E" in
      pose proof (emit_some l r y) as E;
      destruct (emit l r (Some y)) as [? ?]; cbn [snd] in E; subst
  end.

Ltac ifstep :=
  match goal with
  | |- context [if ?b then _ else _] => destruct b
  end.

Lemma visit_sticky : forall e, sticky_at e.
Proof.
  induction e using expr_ind2. rename H into HF. intros cols y.
  destruct e; cbn [children] in HF.
  all: try (cbn [visit]; repeat estep; reflexivity).
  - (* unary *) inv_forall. cbn [visit]. vstep. estep. reflexivity.
  - (* binary *) inv_forall. cbn [visit]. repeat vstep. estep. reflexivity.
  - (* matches *) inv_forall. cbn [visit]. repeat vstep. estep. reflexivity.
  - (* property *) inv_forall. cbn [visit]. repeat vstep. estep. reflexivity.
  - (* index *) inv_forall. cbn [visit]. repeat vstep. estep. reflexivity.
  - (* slice *) destruct from as [f|], to as [u|]; cbn [opt_list app] in HF; inv_forall; cbn [visit];
      vstep; ifstep; repeat (try vstep; try ifstep; try reflexivity).
  - (* method *) inv_forall. rewrite visit_method. vstep.
    destruct (method_callee c t name) as [[fn m]|].
    + match goal with HA : Forall _ args |- _ => pose proof (check_func_sticky cols fn m (aloc a) args HA y) as E end.
      destruct (check_func (vargs cols) fn m (aloc a) args (Some y)) as [[t' args'] st2]. cbn in E. subst. reflexivity.
    + destruct nilsafe; reflexivity.
  - (* function *) rewrite visit_function. destruct (function_callee c name) as [[fn m]|].
    + pose proof (check_func_sticky cols fn m (aloc a) args HF y) as E.
      destruct (check_func (vargs cols) fn m (aloc a) args (Some y)) as [[t' args'] st2]. cbn in E. subst. reflexivity.
    + destruct (negb (cc_strict c)); reflexivity.
  - (* builtin *) destruct b; destruct args as [|x [|cl rest]]; cbn [visit]; try reflexivity; inv_forall;
      repeat (try vstep; try estep; try ifstep; try reflexivity).
  - (* closure *) inv_forall. cbn [visit]. vstep. reflexivity.
  - (* cond *) inv_forall. cbn [visit]. vstep. ifstep; [reflexivity|]. repeat vstep. reflexivity.
  - (* array *) rewrite visit_array. pose proof (vlist_sticky cols es HF y) as E.
    destruct (vlist cols es (Some y)). cbn in E; subst. reflexivity.
  - (* map *) rewrite visit_map. pose proof (vlist_sticky cols pairs HF y) as E.
    destruct (vlist cols pairs (Some y)). cbn in E; subst. reflexivity.
  - (* pair *) inv_forall. cbn [visit]. repeat vstep. reflexivity.
Qed.
End V.

(* ---------- REFERENCE: the documented typing rules, as faults of one node ---------- *)
(* a type is known unless it is interface{}; nil (no type at all) is known not to be anything *)
Definition known (t : ty) : bool := negb (rkind_eqb (dk t) RKInterface).
Definition c_num (t : ty) : bool := match dk t with RKNum _ => true | _ => false end.
Definition c_int (t : ty) : bool := match dk t with RKNum k => negb (is_float k) | _ => false end.
Definition c_bool (t : ty) : bool := match dk t with RKBool => true | _ => false end.
Definition c_str (t : ty) : bool := match dk t with RKString => true | _ => false end.
Definition c_arr (t : ty) : bool := match dk t with RKSlice => true | _ => false end.
Definition c_map (t : ty) : bool := match dk t with RKMap => true | _ => false end.
Definition c_struct (t : ty) : bool := match dk t with RKStruct => true | _ => false end.

Definition not_a (cls : ty -> bool) (t : ty) : bool := known t && negb (cls t).

Definition df_unary (op : unop) (t : ty) : bool :=
  match op with
  | UNotBang | UNotWord => not_a c_bool t
  | UPlus | UMinus => not_a c_num t
  | UUnknown _ => true
  end.

Definition num_or_str_fault (l r : ty) : bool :=
  not_a (fun t => c_num t || c_str t) l || not_a (fun t => c_num t || c_str t) r
  || (known l && known r && negb (Bool.eqb (c_num l) (c_num r))).

Definition df_binary (op : binop) (l r : ty) : bool :=
  match op with
  | BOrWord | BOrOr | BAndWord | BAndAnd => not_a c_bool l || not_a c_bool r
  | BSub | BMul | BDiv | BPow => not_a c_num l || not_a c_num r
  | BMod | BRange => not_a c_int l || not_a c_int r
  | BAdd | BLt | BGt | BGe | BLe => num_or_str_fault l r
  | BContains | BStartsWith | BEndsWith => not_a c_str l || not_a c_str r
  | BEq | BNe =>
      known l && known r && negb (is_nil_ty (dereference l)) && negb (is_nil_ty (dereference r))
      && negb (c_num l && c_num r) && negb (rkind_eqb (dk l) (dk r))
  | BIn | BNotIn =>
      not_a (fun t => c_arr t || c_map t || c_struct t) r || (c_struct r && not_a c_str l)
  | BUnknown _ => true
  end.

Lemma known_false t : known t = false -> dk t = RKInterface.
Proof. unfold known. destruct (dk t); cbn; congruence. Qed.

Ltac cls := unfold not_a, known, c_num, c_int, c_bool, c_str, c_arr, c_map, c_struct,
  is_number, is_integer, is_floatt, is_bool, is_string, is_array, is_map, is_struct, is_interface in *.

Lemma df_unary_rule op t : df_unary op t = true -> exists k, unary_rule op t = inr k.
Proof.
  destruct op; cbn [df_unary unary_rule]; cls; intros H; try (eexists; reflexivity);
  destruct (dk t) as [| |k| | | | | | | |]; cbn in *; try discriminate; try (eexists; reflexivity);
  destruct (is_float k); cbn in *; try discriminate; eexists; reflexivity.
Qed.

Lemma df_binary_rule op l r : df_binary op l r = true -> exists k, binary_rule op l r = inr k.
Proof.
  unfold df_binary, binary_rule, num_or_str_fault, is_comparable; cls.
  change (kind_of_ty (dereference l)) with (dk l). change (kind_of_ty (dereference r)) with (dk r).
  generalize (is_nil_ty (dereference l)) (is_nil_ty (dereference r)). intros nl nr.
  destruct op; intros H; try (eexists; reflexivity);
  destruct (dk l) as [| |kl| | | | | | | |], (dk r) as [| |kr| | | | | | | |]; cbn in H |- *;
    try discriminate; try (eexists; reflexivity);
    try (destruct (is_float kl)); try (destruct (is_float kr)); cbn in H |- *;
    try discriminate; try (eexists; reflexivity);
    destruct nl, nr; cbn in H |- *; try discriminate; try (eexists; reflexivity).
  all: try (rewrite Bool.andb_false_r in H; discriminate).
  all: try (destruct (kind_eqb kl kr); cbn in H |- *; try discriminate; eexists; reflexivity).
Qed.

Section Rej.
Variable c : cconfig.

(* the type the checker assigns to an operand that it visits first and finds no error in *)
Definition vty (cols : list ty) (x : expr) : option ty :=
  match visit c cols x None with (t, _, None) => Some t | _ => None end.

Definition no_overload (op : binop) : bool :=
  match Types.assoc (binop_str op) (cc_ops c) with None => true | Some _ => false end.

Definition df_ident (n : string) (ns : bool) : bool :=
  match cc_types c with
  | None => false
  | Some tb => match tget n tb with Some tg => tg_amb tg | None => cc_strict c && negb ns end
  end.

(* wrong argument type: a known, non-nil type that is not assignable to the parameter.  Integer
   literals and + - * / in argument position are retyped by the checker BEFORE this test
   (finding C03-literal-retype) and nil is passed through (finding C03-nil-argument): both are
   outside the reference relation and have their own refutation *)
Definition arg_bad (a : expr) (t pin : ty) : bool :=
  negb (is_arith a) && negb (is_nil_ty t) && negb (rkind_eqb (kind_of_ty t) RKInterface) && negb (assignable t pin).

Fixpoint args_fault (cols : list ty) (pt : nat -> ty) (i : nat) (args : list expr) : bool :=
  match args with
  | [] => false
  | a :: r =>
      match vty cols a with
      | Some t => if arg_bad a t (pt i) then true else args_fault cols pt (S i) r
      | None => false
      end
  end.

Definition call_fault (cols : list ty) (fn : ty) (m : bool) (args : list expr) : bool :=
  match fn with
  | TFunc ins variadic [o] =>
      match arity_rule ins variadic m (List.length args) with
      | Some _ => true                                        (* wrong number of arguments *)
      | None => args_fault cols (param_ty ins variadic m) 0 args
      end
  | TFunc _ _ _ => true                                       (* no result / several results *)
  | _ => false
  end.

Definition is_pred_builtin (b : builtin) : bool :=
  match b with BiAll | BiNone | BiAny | BiOne | BiFilter | BiCount => true | _ => false end.

Definition is_closure_builtin (b : builtin) : bool :=
  match b with BiAll | BiNone | BiAny | BiOne | BiFilter | BiMap | BiCount => true | _ => false end.

Definition body_of (cl : expr) : option expr := match cl with EClosure _ x => Some x | _ => None end.

Definition root_fault (cols : list ty) (e : expr) : bool :=
  match e with
  | EIdent _ n ns => df_ident n ns                                              (* unknown / ambiguous name *)
  | EUnary _ op x => match vty cols x with Some t => df_unary op t | None => false end
  | EBinary _ op l r =>
      match vty cols l, vty cols r with
      | Some tl, Some tr => no_overload op && df_binary op tl tr
      | _, _ => false
      end
  | EMatches _ _ l r =>
      match vty cols l, vty cols r with
      | Some tl, Some tr => not_a c_str tl || not_a c_str tr
      | _, _ => false
      end
  | EProperty _ x n ns =>                                                       (* unknown field *)
      match vty cols x with
      | Some t => negb ns && match field_type (te c) (cfuel c) t n with LMissing => true | _ => false end
      | None => false
      end
  | EIndex _ x i =>
      match vty cols x, vty cols i with
      | Some t, Some ti =>
          match index_type t with
          | None => true
          | Some _ => not_a (fun u => c_int u || c_str u) ti
          end
      | _, _ => false
      end
  | ESlice _ x f u =>
      match vty cols x with
      | Some t =>
          negb (sliceable t) ||
          let to_fault := match u with
                          | Some uu => match vty cols uu with Some tu => not_a c_int tu | None => false end
                          | None => false
                          end in
          match f with
          | Some ff => match vty cols ff with Some tf => not_a c_int tf || to_fault | None => false end
          | None => to_fault
          end
      | None => false
      end
  | EMethod _ x n args ns =>                                                    (* unknown method, arity, argument type *)
      match vty cols x with
      | Some t =>
          match method_callee c t n with
          | None => negb ns
          | Some (fn, m) => call_fault cols fn m args
          end
      | None => false
      end
  | EFunction _ n args _ =>                                                     (* unknown function, arity, argument type *)
      match function_callee c n with
      | None => cc_strict c
      | Some (fn, m) => call_fault cols fn m args
      end
  | EBuiltin _ b args =>
      match b, args with
      | BiUnknown _, _ => true
      | BiLen, x :: _ =>
          match vty cols x with Some t => not_a (fun u => c_arr u || c_map u || c_str u) t | None => false end
      | _, x :: cl :: _ =>
          match vty cols x with
          | Some t =>
              not_a c_arr t ||                                                  (* non-collection argument *)
              (is_pred_builtin b &&                                             (* non-boolean predicate *)
               match body_of cl with
               | Some body =>
                   match vty (t :: cols) body with
                   | Some tb => negb (is_nil_ty tb) && not_a c_bool tb
                   | None => false
                   end
               | None => false
               end)
          | None => false
          end
      | _, _ => false
      end
  | EPointer _ => match cols with [] => true | _ => false end                   (* # outside a closure *)
  | ECond _ cnd _ _ => match vty cols cnd with Some tc => not_a c_bool tc | None => false end
  | _ => false
  end.

(* the sub-expressions of a node, with the closure collections they are checked under *)
Inductive child_at (cols : list ty) : expr -> list ty -> expr -> Prop :=
| CA_unary a op x : child_at cols (EUnary a op x) cols x
| CA_bin_l a op l r : child_at cols (EBinary a op l r) cols l
| CA_bin_r a op l r : child_at cols (EBinary a op l r) cols r
| CA_mat_l a re l r : child_at cols (EMatches a re l r) cols l
| CA_mat_r a re l r : child_at cols (EMatches a re l r) cols r
| CA_prop a x n ns : child_at cols (EProperty a x n ns) cols x
| CA_idx_x a x i : child_at cols (EIndex a x i) cols x
| CA_idx_i a x i : child_at cols (EIndex a x i) cols i
| CA_sl_x a x f u : child_at cols (ESlice a x f u) cols x
| CA_sl_f a x f u : child_at cols (ESlice a x (Some f) u) cols f
| CA_sl_u a x f u : child_at cols (ESlice a x f (Some u)) cols u
| CA_meth_x a x n args ns : child_at cols (EMethod a x n args ns) cols x
(* arguments are checked only when the callee has a static function type (finding
   C03-unchecked-arguments: those of an interface{}-typed callee or of a missing nil-safe method are never visited) *)
| CA_meth_arg a x n args ns y t ins v outs m :
    vty cols x = Some t -> method_callee c t n = Some (TFunc ins v outs, m) ->
    In y args -> child_at cols (EMethod a x n args ns) cols y
| CA_fun_arg a n args f y ins v outs m :
    function_callee c n = Some (TFunc ins v outs, m) ->
    In y args -> child_at cols (EFunction a n args f) cols y
| CA_bi_x a b x rest : child_at cols (EBuiltin a b (x :: rest)) cols x
| CA_bi_cl a b x cl rest t :
    is_closure_builtin b = true -> vty cols x = Some t ->
    child_at cols (EBuiltin a b (x :: cl :: rest)) (t :: cols) cl
| CA_closure a x : child_at cols (EClosure a x) cols x
| CA_cond_c a cnd x y : child_at cols (ECond a cnd x y) cols cnd
| CA_cond_x a cnd x y : child_at cols (ECond a cnd x y) cols x
| CA_cond_y a cnd x y : child_at cols (ECond a cnd x y) cols y
| CA_arr a es y : In y es -> child_at cols (EArray a es) cols y
| CA_map a ps y : In y ps -> child_at cols (Ast.EMap a ps) cols y
| CA_pair_k a k v : child_at cols (EPair a k v) cols k
| CA_pair_v a k v : child_at cols (EPair a k v) cols v.

(* REFERENCE RELATION: somewhere in the expression a node violates a documented rule *)
Inductive ill_typed_ref : list ty -> expr -> Prop :=
| IT_root cols e : root_fault cols e = true -> ill_typed_ref cols e
| IT_sub cols e cols' x : child_at cols e cols' x -> ill_typed_ref cols' x -> ill_typed_ref cols e.

Definition errs (cols : list ty) (e : expr) : Prop :=
  forall st, exists y, snd (visit c cols e st) = Some y.

Lemma vty_some cols x t : vty cols x = Some t -> exists x', visit c cols x None = (t, x', None).
Proof.
  unfold vty. destruct (visit c cols x None) as [[t0 x'] [y|]]; [discriminate|].
  intros H; inversion H; subst. eauto.
Qed.
End Rej.

Ltac clsolve t :=
  cls; destruct (dk t) as [| |?k| | | | | | | |]; cbn in *; try discriminate; try reflexivity; auto;
  try (destruct (is_float k); cbn in *; try discriminate; try reflexivity; auto).

Section RejProof.
Variable c : cconfig.
Notation errs := (errs c).

Ltac vstepS :=
  match goal with
  | |- context [visit c ?cols ?x (Some ?y)] =>
      let E := fresh "E" in
      pose proof (visit_sticky c x cols y) as E;
      destruct (visit c cols x (Some y)) as [[? ?] ?]; cbn [snd] in E; subst
  end.

Ltac estepS :=
  match goal with
  | |- context [emit ?l ?r (Some ?y)] =>
      let E := fresh "E" in
      pose proof (emit_some l r y) as E;
      destruct (emit l r (Some y)) as [? ?]; cbn [snd] in E; subst
  end.

Ltac ifstep := match goal with |- context [if ?b then _ else _] => destruct b end.

Ltac ihstep :=
  match goal with
  | IH : errs ?cols ?x |- context [visit c ?cols ?x ?st] =>
      let y := fresh "y" in let E := fresh "E" in
      destruct (IH st) as [y E]; destruct (visit c cols x st) as [[? ?] ?]; cbn [snd] in E; subst
  end.

Ltac nstep :=
  match goal with
  | |- context [visit c ?cols ?x None] => destruct (visit c cols x None) as [[? ?] [?|]]
  end.

Ltac fin := try (eexists; reflexivity).

Lemma vlist_errs cols es y0 : In y0 es -> errs cols y0 -> forall st, exists y, snd (vlist c cols es st) = Some y.
Proof.
  induction es as [|x r IH]; intros HI HE st; [destruct HI|]. cbn [vlist].
  destruct HI as [->|HI].
  - destruct (HE st) as [y E]. destruct (visit c cols y0 st) as [[t x'] st1]. cbn in E. subst.
    pose proof (vlist_sticky c cols r (proj2 (Forall_forall _ _) (fun z _ => visit_sticky c z)) y) as E2.
    destruct (vlist c cols r (Some y)). cbn in E2. subst. eexists; reflexivity.
  - destruct (visit c cols x st) as [[t x'] st1]. destruct (IH HI HE st1) as [y E].
    destruct (vlist c cols r st1). cbn in E. subst. eexists; reflexivity.
Qed.

Lemma vargs_errs cols pt args y0 : In y0 args -> errs cols y0 ->
  forall i st, exists y, snd (fst (vargs c cols pt i args st)) = Some y.
Proof.
  induction args as [|x r IH]; intros HI HE i st; [destruct HI|]. cbn [vargs].
  destruct HI as [->|HI].
  - destruct (HE st) as [y E]. destruct (visit c cols y0 st) as [[t x'] st1]. cbn in E. subst.
    destruct (arg_rule y0 x' t (pt i)) as [a2 [|]]; [|eexists; reflexivity].
    pose proof (vargs_sticky c cols pt r (proj2 (Forall_forall _ _) (fun z _ => visit_sticky c z)) (S i) y) as E2.
    destruct (vargs c cols pt (S i) r (Some y)) as [[? ?] ?]. cbn in E2. subst. eexists; reflexivity.
  - destruct (visit c cols x st) as [[t x'] st1].
    destruct (arg_rule x x' t (pt i)) as [a2 [|]].
    + destruct (IH HI HE (S i) st1) as [y E]. destruct (vargs c cols pt (S i) r st1) as [[? ?] ?]. cbn in E. subst. eexists; reflexivity.
    + destruct st1; eexists; reflexivity.
Qed.

Lemma check_func_errs cols ins v outs m l args y0 : In y0 args -> errs cols y0 ->
  forall st, exists y, snd (check_func (vargs c cols) (TFunc ins v outs) m l args st) = Some y.
Proof.
  intros HI HE st. destruct st as [y1|].
  { eexists. apply check_func_sticky. apply Forall_forall. intros z _. apply visit_sticky. }
  unfold check_func. destruct outs as [|o [|o2 outs]]; try (eexists; reflexivity).
  destruct (arity_rule ins v m (List.length args)); [eexists; reflexivity|].
  destruct (vargs_errs cols (param_ty ins v m) args y0 HI HE 0%nat None) as [y E].
  destruct (vargs c cols (param_ty ins v m) 0 args None) as [[args' st'] ok]. cbn in E. subst.
  destruct ok; eexists; reflexivity.
Qed.

Lemma some_errs cols e : forall y0, exists y, snd (visit c cols e (Some y0)) = Some y.
Proof. intros y0. eexists. apply visit_sticky. Qed.

Lemma sub_errs cols e cols' x : child_at c cols e cols' x -> errs cols' x -> errs cols e.
Proof.
  intros HC IH st. destruct st as [y0|]; [apply some_errs|].
  inversion HC; subst; clear HC.
  all: try (cbn [visit]; repeat first [ihstep | vstepS | estepS | nstep | ifstep]; fin; fail).
  - (* slice x *) destruct f, u; cbn [visit]; repeat first [ihstep | vstepS | estepS | nstep | ifstep]; fin.
  - destruct u; cbn [visit]; repeat first [ihstep | vstepS | estepS | nstep | ifstep]; fin.
  - destruct f; cbn [visit]; repeat first [ihstep | vstepS | estepS | nstep | ifstep]; fin.
  - (* method receiver *) rewrite visit_method. ihstep.
    destruct (method_callee c t n) as [[fn m]|].
    + pose proof (check_func_sticky c cols' fn m (aloc a) args (proj2 (Forall_forall _ _) (fun z _ => visit_sticky c z)) y) as E.
      destruct (check_func (vargs c cols') fn m (aloc a) args (Some y)) as [[? ?] ?]. cbn in E. subst. fin.
    + destruct ns; fin.
  - (* method argument *) rewrite visit_method.
    match goal with H : vty c cols' x0 = Some _ |- _ => destruct (vty_some c _ _ _ H) as [x0' Hv]; rewrite Hv end.
    match goal with H : method_callee c _ n = Some _ |- _ => rewrite H end.
    match goal with HI : In x args |- _ => destruct (check_func_errs cols' ins v outs m (aloc a) args x HI IH None) as [y E] end.
    destruct (check_func (vargs c cols') (TFunc ins v outs) m (aloc a) args None) as [[? ?] ?]. cbn in E. subst. fin.
  - (* function argument *) rewrite visit_function.
    match goal with H : function_callee c n = Some _ |- _ => rewrite H end.
    match goal with HI : In x args |- _ => destruct (check_func_errs cols' ins v outs m (aloc a) args x HI IH None) as [y E] end.
    destruct (check_func (vargs c cols') (TFunc ins v outs) m (aloc a) args None) as [[? ?] ?]. cbn in E. subst. fin.
  - (* builtin collection *) destruct b; destruct rest as [|cl rest]; cbn [visit];
      repeat first [ihstep | vstepS | estepS | nstep | ifstep]; fin.
  - (* builtin closure *)
    match goal with H : vty c cols x0 = Some _ |- _ => destruct (vty_some c _ _ _ H) as [x0' Hv] end.
    destruct b; try discriminate; cbn [visit]; try rewrite Hv; repeat first [ihstep | vstepS | estepS | ifstep]; fin.
  - (* array *) rewrite visit_array.
    match goal with HI : In x es |- _ => destruct (vlist_errs cols' es x HI IH None) as [y E] end.
    destruct (vlist c cols' es None). cbn in E. subst. fin.
  - rewrite visit_map.
    match goal with HI : In x ps |- _ => destruct (vlist_errs cols' ps x HI IH None) as [y E] end.
    destruct (vlist c cols' ps None). cbn in E. subst. fin.
Qed.

Lemma not_a_false cls t : not_a cls t = true -> cls t = false /\ known t = true.
Proof. unfold not_a. destruct (known t), (cls t); cbn; intros; try discriminate; auto. Qed.


Lemma na_bool t : not_a c_bool t = true -> is_bool t = false.
Proof. intros H. clsolve t. Qed.
Lemma na_str t : not_a c_str t = true -> is_string t = false.
Proof. intros H. clsolve t. Qed.
Lemma na_int t : not_a c_int t = true -> is_integer t = false.
Proof. intros H. clsolve t. Qed.
Lemma na_arr t : not_a c_arr t = true -> is_array t = false.
Proof. intros H. clsolve t. Qed.
Lemma na_int_str t : not_a (fun u => c_int u || c_str u) t = true -> is_integer t = false /\ is_string t = false.
Proof. intros H. split; clsolve t. Qed.
Lemma na_len t : not_a (fun u => c_arr u || c_map u || c_str u) t = true -> len_rule t = inr CLenArg.
Proof. intros H. unfold len_rule. clsolve t. Qed.
Lemma known_kind t : known t = true -> rkind_eqb (kind_of_ty t) RKInterface = false.
Proof. unfold known, dk. intros H. apply negb_true_iff in H. destruct t; cbn in *; try reflexivity; exact H. Qed.

Lemma args_fault_errs cols pt args : forall i, args_fault c cols pt i args = true ->
  exists y, snd (fst (vargs c cols pt i args None)) = Some y.
Proof.
  induction args as [|a r IH]; intros i H; cbn [args_fault] in H; [discriminate|]. cbn [vargs].
  destruct (vty c cols a) as [t|] eqn:Hv; [|discriminate]. destruct (vty_some c _ _ _ Hv) as [a1 E]. rewrite E.
  destruct (arg_bad a t (pt i)) eqn:HB.
  - unfold arg_bad in HB. apply andb_prop in HB. destruct HB as [HB H4]. apply andb_prop in HB. destruct HB as [HB H3].
    apply andb_prop in HB. destruct HB as [H1 H2]. unfold arg_rule.
    apply negb_true_iff in H1, H2, H3. rewrite H1, H2, H4, H3. cbn. eexists; reflexivity.
  - destruct (arg_rule a a1 t (pt i)) as [a2 [|]]; [|eexists; reflexivity].
    destruct (IH (S i) H) as [y Ey]. destruct (vargs c cols pt (S i) r None) as [[? ?] ?]. cbn in Ey. subst. eexists; reflexivity.
Qed.

Lemma call_fault_errs cols fn m l args : call_fault c cols fn m args = true ->
  exists y, snd (check_func (vargs c cols) fn m l args None) = Some y.
Proof.
  unfold call_fault, check_func. destruct fn; try discriminate.
  destruct outs as [|o [|o2 outs]]; try (intros; eexists; reflexivity).
  destruct (arity_rule ins variadic m (List.length args)); [intros; eexists; reflexivity|].
  intros H. destruct (args_fault_errs cols _ args 0%nat H) as [y E].
  destruct (vargs c cols (param_ty ins variadic m) 0 args None) as [[? ?] ok]. cbn in E. subst. destruct ok; eexists; reflexivity.
Qed.

Ltac usevty :=
  repeat match goal with
  | H : context [match vty c ?cols ?x with _ => _ end] |- _ =>
      let t := fresh "t" in let Hv := fresh "Hv" in let x' := fresh "x'" in let E := fresh "E" in
      destruct (vty c cols x) as [t|] eqn:Hv; [destruct (vty_some c _ _ _ Hv) as [x' E]; try rewrite E | try discriminate]
  end.

Lemma root_errs cols e : root_fault c cols e = true -> errs cols e.
Proof.
  intros HR st. destruct st as [y0|]; [apply some_errs|].
  destruct e; cbn [root_fault] in HR; try discriminate.
  - (* ident *) cbn [visit]. unfold df_ident in HR. unfold ident_rule.
    destruct (cc_types c) as [tb|]; [|discriminate]. destruct (tget name tb) as [tg|].
    + rewrite HR. fin.
    + apply andb_prop in HR. destruct HR as [H1 H2]. rewrite H1. apply negb_true_iff in H2. rewrite H2. fin.
  - (* unary *) cbn [visit]. usevty. destruct (df_unary_rule _ _ HR) as [k Ek]. rewrite Ek. fin.
  - (* binary *) cbn [visit]. usevty. apply andb_prop in HR. destruct HR as [H1 H2].
    destruct (df_binary_rule _ _ _ H2) as [k Ek]. unfold binary_node_rule, overload.
    unfold no_overload in H1. destruct (Types.assoc (binop_str op) (cc_ops c)); [discriminate|]. rewrite Ek. fin.
  - (* matches *) cbn [visit]. usevty. unfold matches_rule.
    apply orb_prop in HR. destruct HR as [H|H]; apply na_str in H; rewrite H; rewrite ?andb_false_r; fin.
  - (* property *) cbn [visit]. usevty. apply andb_prop in HR. destruct HR as [H1 H2]. apply negb_true_iff in H1. subst.
    unfold property_rule. destruct (field_type (te c) (cfuel c) t name); try discriminate. fin.
  - (* index *) cbn [visit]. usevty. unfold index_rule. destruct (index_type t); [|fin].
    apply na_int_str in HR. destruct HR as [H1 H2]. rewrite H1, H2. fin.
  - (* slice *) cbn [visit]. usevty. destruct (sliceable t) eqn:HS; cbn [negb orb] in HR; [|fin].
    destruct from as [f|], to as [u|]; usevty;
      repeat match goal with
      | H : (_ || _) = true |- _ => apply orb_prop in H; destruct H as [H|H]
      | H : not_a c_int _ = true |- _ => apply na_int in H; rewrite H
      end; cbn [negb]; fin; try discriminate.
    all: try (destruct (is_integer t0); cbn [negb]; fin; usevty; fin).
  - (* method *) rewrite visit_method. usevty. destruct (method_callee c t name) as [[fn m]|].
    + destruct (call_fault_errs cols fn m (aloc a) args HR) as [y Ey].
      destruct (check_func (vargs c cols) fn m (aloc a) args None) as [[? ?] ?]. cbn in Ey. subst. fin.
    + apply negb_true_iff in HR. subst. fin.
  - (* function *) rewrite visit_function. destruct (function_callee c name) as [[fn m]|].
    + destruct (call_fault_errs cols fn m (aloc a) args HR) as [y E].
      destruct (check_func (vargs c cols) fn m (aloc a) args None) as [[? ?] ?]. cbn in E. subst. fin.
    + rewrite HR. fin.
  - (* builtin *)
    destruct b; try (cbn [visit]; fin; fail);
    destruct args as [|x [|cl rest]]; try discriminate; cbn [visit]; usevty;
    try (rewrite (na_len _ HR); fin; fail).
    all: apply orb_prop in HR; destruct HR as [HR|HR]; [apply na_arr in HR; rewrite HR; fin|].
    all: cbn [is_pred_builtin andb] in HR; try discriminate.
    all: destruct (is_array t); cbn [negb]; fin.
    all: destruct cl; cbn [body_of] in HR; try discriminate; cbn [visit]; usevty.
    all: apply andb_prop in HR; destruct HR as [H1 H2]; apply negb_true_iff in H1; rewrite H1.
    all: unfold closure_rule; cbn [closure_out is_interface dk dereference kind_of_ty]; rewrite (na_bool _ H2); fin.
  - (* pointer *) cbn [visit]. destruct cols; [fin|discriminate].
  - (* cond *) cbn [visit]. usevty. rewrite (na_bool _ HR). fin.
Qed.

Theorem rejects_gen cols e : ill_typed_ref c cols e -> errs cols e.
Proof. induction 1; [apply root_errs; assumption | eapply sub_errs; eassumption]. Qed.
End RejProof.

(* ---------- the result directive ---------- *)
Definition df_expect (k : rkind) (t : ty) : bool :=
  match k with
  | RKNum KInt64 | RKNum KF64 => not_a c_num t                 (* AsInt64 / AsFloat64: a number *)
  | _ => negb (rkind_eqb (kind_of_ty t) k)                     (* AsBool: exactly bool *)
  end.

Lemma df_expect_rule k t : df_expect k t = true -> expect_ok k t = false.
Proof.
  unfold df_expect, expect_ok. destruct k as [| |k| | | | | | | |]; try (intros H; apply negb_true_iff in H; exact H).
  destruct k; try (intros H; apply negb_true_iff in H; exact H); intros H; clsolve t.
Qed.

Section Top.
Variable c : cconfig.

(* an expression that violates a documented typing rule: at some node (any depth), or in the
   kind of its result under AsBool / AsInt64 / AsFloat64 *)
Definition ill_typed_top (e : expr) : Prop :=
  ill_typed_ref c [] e \/
  exists k t, cc_expect c = Some k /\ vty c [] e = Some t /\ df_expect k t = true.

Theorem rejects e : ill_typed_top e -> exists l k, snd (check c e) = Some (l, k).
Proof.
  intros [H|(k & t & Hk & Hv & Hd)]; unfold check.
  - destruct (rejects_gen c [] e H None) as [[l kd] E].
    destruct (visit c [] e None) as [[t e'] st]. cbn in E. subst.
    destruct (cc_expect c) as [k|]; [destruct (expect_ok k t)|]; eexists; eexists; reflexivity.
  - destruct (vty_some c _ _ _ Hv) as [e' E]. rewrite E, Hk, (df_expect_rule _ _ Hd). eexists; eexists; reflexivity.
Qed.
End Top.

(* Ty/Sound.v — definitions for the SOUNDNESS half of property C03.  No proofs here.

     nn                    a flag of the value typing: true = the environment (and what its functions
                           return) holds NO nil pointer to a struct; then member access and method
                           calls through *T receivers are in scope.  With nn = false nil pointers
                           are values of type *T and those node shapes are out of scope (fetch
                           reports "cannot fetch X from *T" - a message of the type class - for a
                           nil receiver);
     vwf / fits / has_ty   value typing: a model value is a well-formed Go value (vwf: every number
                           has the representation of its kind, the contents of slices, maps and
                           structs have the declared element / field types, function values are
                           listed in the function table with their type) whose dynamic type is the
                           static type t, or t is interface{} (fits);
     fenv_ok               what is assumed of the environment functions: signatures as declared,
                           results of the declared result type, failures are no type failures,
                           method tables as reflect reports them;
     env_ok                the environment value is a (pointer to a) struct of the declared type
                           and the checker's types table was made from that type;
     scope / in_scope      the DECIDABLE carve-out of sound_partial: every operand of an operator
                           has the exact static type the operator works on (no interface{}, no
                           declared `type MyInt int`, no pointer to scalar), plus the negation of
                           every recorded C03 finding, plus the node shapes the proof does not
                           reach (listed in the report). *)
From Coq Require Import ZArith Bool List String.
Require Import X.Base.Num X.Base.Value X.Syn.Ast X.Sem.Prim X.Sem.Sem X.Ty.Types X.Ty.TypesTable X.Ty.Checker.
Import ListNotations.
Open Scope string_scope.

(* ---------------- value typing ---------------- *)
(* the representation of a number agrees with its kind *)
Definition num_shape (n : num) : bool :=
  match n with NInt k _ => negb (is_float k) | NFlt k _ => is_float k end.

(* a value sits in a slot of static type t: any value in an interface{} slot, otherwise the
   dynamic type is t *)
Definition fits (v : value) (t : ty) : Prop := t = TIface \/ dyn_type v = t.

Definition is_tfunc (t : ty) : bool := match t with TFunc _ _ _ => true | _ => false end.

(* member `name` of struct sn resolves (Go's selector rule) to an unexported field *)
Definition unexported_member (te : tenv) (sn name : string) : bool :=
  match go_resolve_field te sn name with RField _ _ false => true | _ => false end.

Section ValueTyping.
Variable te : tenv.                       (* struct declarations *)
Variable ftab : string -> option ty.      (* function id -> Go type of that function value *)
Variable nn : bool.                       (* true: no nil pointer to a struct anywhere *)

(* struct values list their accessible members flat (promoted fields included), as the
   serialiser of the harness does: every exported field Go's selector rule finds is present and
   holds a value of the field's declared type *)
Fixpoint vwf (v : value) {struct v} : Prop :=
  match v with
  | VNil | VBool _ | VStr _ | VNilArr _ | VNilMap _ _ | VOpaque _ => True
  | VNilPtr t => match t with TStruct _ => nn = false | _ => True end
  | VNum n => num_shape n = true
  | VArr e l =>
      (fix all (l : list value) : Prop :=
         match l with [] => True | x :: r => (vwf x /\ fits x e) /\ all r end) l
  | VMap kt et m =>
      (fix all (m : list (value * value)) : Prop :=
         match m with
         | [] => True
         | p :: r => (let (k, x) := p in vwf k /\ fits k kt /\ vwf x /\ fits x et) /\ all r
         end) m
  | VStruct n _ fields =>
      (fix all (fs : list (string * value)) : Prop :=
         match fs with
         | [] => True
         | p :: r =>
             (let (fname, x) := p in
              vwf x /\ forall pth ft, go_resolve_field te n fname = RField pth ft true -> fits x ft) /\ all r
         end) fields
      /\ (forall name pth ft, go_resolve_field te n name = RField pth ft true -> assoc_str name fields <> None)
  | VFunc id t => ftab id = Some t /\ is_tfunc t = true
  | VNamed _ x => vwf x
  end.

Definition has_ty (v : value) (t : ty) : Prop := vwf v /\ fits v t.

(* ---------------- the environment functions ---------------- *)
Section Fenv.
Variable fe : fenv.

Definition recv_ty (sn : string) (p : bool) : ty := if p then TPtr (TStruct sn) else TStruct sn.

Record fenv_ok : Prop := mkFenvOk {
  (* reflect's view of a listed function: its signature *)
  fo_sig : forall id ins v o, ftab id = Some (TFunc ins v [o]) ->
    fn_sig fe id = Some (mkSig ins v 1 (fast_sig (TFunc ins v [o]) false));
  (* a function returns a value of its declared result type *)
  fo_res : forall id ins v o recv args r, ftab id = Some (TFunc ins v [o]) ->
    fn_run fe id recv args = Ok r -> has_ty r o;
  (* a function that fails does so for its own reasons (panic), not for a type reason *)
  fo_err : forall id recv args e, fn_run fe id recv args = Fail e -> is_type_err e = false;
  (* method tables: exactly the method sets of the declarations, with the receiver stripped *)
  fo_meth : forall sn p name mt, method_by_name te (recv_ty sn p) name = Some mt ->
    exists id, fn_method fe sn p name = Some id /\ ftab id = Some (strip_receiver mt);
  fo_nometh : forall sn p name, method_by_name te (recv_ty sn p) name = None -> fn_method fe sn p name = None
}.
End Fenv.
End ValueTyping.

(* ---------------- the environment ---------------- *)
Definition env_struct (t : ty) : option string :=
  match t with TStruct sn => Some sn | TPtr (TStruct sn) => Some sn | _ => None end.

Record env_ok (c : cconfig) (perm : TypesTable.table -> TypesTable.table) (ftab : string -> option ty) (nn : bool)
              (T : ty) (sn : string) (env : value) : Prop := mkEnvOk {
  eo_struct : env_struct T = Some sn;
  eo_table : exists tb, cc_types c = Some tb /\ create_types_table (cc_te c) perm (EStruct T) = Some tb;
  eo_val : exists p fields, env = VStruct sn p fields /\ T = recv_ty sn p;
  eo_wf : vwf (cc_te c) ftab nn env
}.

(* closure contexts: one (collection, index) per enclosing builtin, typed by the checker's
   collections stack; every collection is a slice *)
Definition ctx_ok (te : tenv) (ftab : string -> option ty) (nn : bool) (ctx : list (value * Z)) (cols : list ty) : Prop :=
  Forall2 (fun (p : value * Z) (col : ty) => (exists e, col = TSlice e) /\ has_ty te ftab nn (fst p) col) ctx cols.

(* the statement about one run *)
Definition res_ok (te : tenv) (ftab : string -> option ty) (nn : bool) (t : ty) (r : result) : Prop :=
  match r with
  | Done v _ => has_ty te ftab nn v t
  | Stop er _ _ => is_type_err er = false
  end.

(* ---------------- exact static classes (stricter than checker/types.go: no dereference, no
   Kind of a declared type, no interface{}) ---------------- *)
Definition s_num (t : ty) : bool := match t with TNum _ => true | _ => false end.
Definition s_int (t : ty) : bool := match t with TNum k => negb (is_float k) | _ => false end.
Definition s_bool (t : ty) : bool := match t with TBool => true | _ => false end.
Definition s_str (t : ty) : bool := match t with TString => true | _ => false end.
Definition s_key (t : ty) : bool := s_num t || s_bool t || s_str t.
Definition s_pair (l r : ty) : bool := (s_num l && s_num r) || (s_str l && s_str r) || (s_bool l && s_bool r).
Definition s_iface (t : ty) : bool := match t with TIface => true | _ => false end.

(* reflect.Zero(t).Interface() as the model computes it (zero_of) has type t *)
Definition zero_ok (nn : bool) (t : ty) : bool :=
  match t with
  | TBool | TNum _ | TString | TSlice _ | TMap _ _ | TIface => true
  | TPtr (TStruct _) => negb nn                          (* the zero value is a nil pointer to a struct *)
  | TPtr _ => true
  | _ => false
  end.

(* a declared non-struct type, `type MyInt int` (finding C03-named-int) *)
Definition is_declared (t : ty) : bool := match t with TNamed _ _ => true | _ => false end.

Definition sc_unary (op : unop) (t : ty) : bool :=
  match op with
  | UNotBang | UNotWord => s_bool t
  | UPlus | UMinus => s_num t
  | UUnknown _ => false
  end.

Definition sc_binary (op : binop) (l r : ty) : bool :=
  match op with
  | BOrWord | BOrOr | BAndWord | BAndAnd => s_bool l && s_bool r
  | BEq | BNe => negb (is_declared l) && negb (is_declared r)   (* any two well-formed values compare *)
  | BLt | BGt | BGe | BLe | BAdd => (s_num l && s_num r) || (s_str l && s_str r)
  | BSub | BMul | BDiv | BPow => s_num l && s_num r
  | BMod | BRange => s_int l && s_int r
  | BContains | BStartsWith | BEndsWith => s_str l && s_str r
  | BIn | BNotIn =>
      match r with
      | TSlice _ => true
      | TMap kt _ => s_key kt && ty_eqb l kt                 (* not: finding C03-index-key-type *)
      | TStruct _ => s_str l
      | TPtr (TStruct _) => s_str l
      | _ => false
      end
  | BUnknown _ => false
  end.

(* not: findings C03-nilsafe-on-slice, C03-index-key-type (m.name on a map with other keys),
   C16 member findings (unexported / doubly provided member).  t is the receiver type T or *T of
   struct sn *)
Definition sc_member (te : tenv) (sn : string) (t : ty) (name : string) : bool :=
  fuel_ok te (fuel0 te) t && negb (emb_multi te (fuel0 te) t name) && negb (unexported_member te sn name)
  && match field_type te (fuel0 te) t name with LFound _ => true | _ => false end.

Definition sc_property (te : tenv) (nn : bool) (t : ty) (name : string) : bool :=
  match t with
  | TStruct sn => sc_member te sn t name
  | TPtr (TStruct sn) => nn && sc_member te sn t name        (* a nil receiver: "cannot fetch" *)
  | TMap kt et => s_str kt && zero_ok nn et
  | _ => false
  end.

Definition sc_index (nn : bool) (t ti : ty) : bool :=
  match t with
  | TSlice _ => s_int ti                                     (* not: C03-index-key-type *)
  | TMap kt et => s_key kt && ty_eqb ti kt && zero_ok nn et
  | _ => false
  end.

Definition sc_sliceable (t : ty) : bool :=                    (* not: C03-slice-of-map *)
  match t with TSlice _ | TString => true | _ => false end.

Definition sc_len (t : ty) : bool :=
  match t with TSlice _ | TMap _ _ | TString => true | _ => false end.

(* not: C03-cond-branch-type.  Either both branches have one type, or the checker gives up
   (interface{}) *)
Definition sc_cond (t1 t2 : ty) : bool :=
  ty_eqb t1 t2 || (negb (is_nil_ty t1) && negb (is_nil_ty t2) && negb (assignable t1 t2)).

(* not: C03-literal-retype (an argument that is an integer literal / arithmetic node is out of
   scope unless it is built from integer literals only and the declared type is numeric or
   interface{}: lit_arith), C03-nil-argument *)
Fixpoint lit_arith (e : expr) : bool :=
  match e with
  | EInt _ _ => true
  | EUnary _ (UPlus | UMinus) x => lit_arith x
  | EBinary _ (BAdd | BSub | BMul | BDiv) l r => lit_arith l && lit_arith r
  | _ => false
  end.

Definition sc_arg (a : expr) (t pin : ty) : bool :=
  if is_arith a then lit_arith a && (s_num pin || s_iface pin)
  else negb (is_nil_ty t) && assignable t pin.

(* what Go guarantees of a function type: the last input of a variadic one is a slice, a method
   has its receiver *)
Definition sc_sig (ins : list ty) (v m : bool) : bool :=
  (if m then match ins with _ :: _ => true | [] => false end else true)
  && (if v then match last (if m then tl ins else ins) TNilT with TSlice _ => true | _ => false end else true).

(* not: C03-builtin-elem-type *)
Definition sc_closure (b : builtin) (el tb : ty) : bool :=
  match b with
  | BiAll | BiNone | BiAny | BiOne | BiCount => s_bool tb
  | BiFilter => s_bool tb && s_iface el
  | BiMap => s_iface tb || is_nil_ty tb
  | _ => false
  end.

Section Scope.
Variable c : cconfig.
Variable nn : bool.

Definition tyof (cols : list ty) (x : expr) : ty := fst (fst (visit c cols x None)).

Definition no_overload (op : binop) : bool :=
  match Types.assoc (binop_str op) (cc_ops c) with None => true | Some _ => false end.

Definition sc_ident (name : string) : bool :=
  match lookup_name c name with
  | Some tg => negb (tg_amb tg) && negb (tg_method tg)      (* not: C16 method-as-identifier *)
  | None => false
  end.

Fixpoint scope (cols : list ty) (e : expr) {struct e} : bool :=
  let fix sargs (pt : nat -> ty) (i : nat) (args : list expr) {struct args} : bool :=
    match args with
    | [] => true
    | a :: r => scope cols a && sc_arg a (tyof cols a) (pt i) && sargs pt (S i) r
    end in
  let fix slist (es : list expr) {struct es} : bool :=
    match es with [] => true | x :: r => scope cols x && slist r end in
  let fix spairs (ps : list expr) {struct ps} : bool :=
    match ps with
    | [] => true
    | EPair _ k v :: r => scope cols k && scope cols v && s_str (tyof cols k) && spairs r   (* not: C03-map-key-type *)
    | _ :: _ => false
    end in
  match e with
  | ENil _ | EInt _ _ | EFloat _ _ | EBool _ _ | EStr _ _ => true
  | EConst _ _ => false
  | EIdent _ name _ => sc_ident name
  | EUnary _ op x => scope cols x && sc_unary op (tyof cols x)
  | EBinary _ op l r =>
      scope cols l && scope cols r && no_overload op && sc_binary op (tyof cols l) (tyof cols r)
  | EMatches _ _ l r => scope cols l && scope cols r && s_str (tyof cols l) && s_str (tyof cols r)
  | EProperty _ x name _ => scope cols x && sc_property (cc_te c) nn (tyof cols x) name
  | EIndex _ x i => scope cols x && scope cols i && sc_index nn (tyof cols x) (tyof cols i)
  | ESlice _ x f u =>
      scope cols x && sc_sliceable (tyof cols x)
      && match f with Some y => scope cols y && s_int (tyof cols y) | None => true end
      && match u with Some y => scope cols y && s_int (tyof cols y) | None => true end
  | EMethod _ x name args _ =>
      scope cols x &&
      match tyof cols x with
      | TStruct sn =>
          match method_by_name (cc_te c) (TStruct sn) name with
          | Some (TFunc ins v [o]) => sc_sig ins v true && sargs (param_ty ins v true) 0%nat args
          | _ => false
          end
      | TPtr (TStruct sn) =>                                 (* a nil receiver: not a value reason *)
          nn &&
          match method_by_name (cc_te c) (TPtr (TStruct sn)) name with
          | Some (TFunc ins v [o]) => sc_sig ins v true && sargs (param_ty ins v true) 0%nat args
          | _ => false
          end
      | _ => false
      end
  | EFunction _ name args fast =>
      negb fast &&
      match lookup_name c name with
      | Some tg =>
          match tg_ty tg with
          | TFunc ins v [o] =>
              negb (tg_amb tg) && sc_sig ins v (tg_method tg) && sargs (param_ty ins v (tg_method tg)) 0%nat args
          | _ => false                                       (* not: C03-unchecked-arguments *)
          end
      | None => false
      end
  | EBuiltin _ b args =>
      match b, args with
      | BiLen, [x] => scope cols x && sc_len (tyof cols x)
      | (BiAll | BiNone | BiAny | BiOne | BiFilter | BiMap | BiCount), [x; EClosure _ body] =>
          scope cols x &&
          match tyof cols x with
          | TSlice el =>
              scope (TSlice el :: cols) body && sc_closure b el (tyof (TSlice el :: cols) body)
          | _ => false
          end
      | _, _ => false
      end
  | EClosure _ _ => false
  | EPointer _ => match cols with TSlice _ :: _ => true | _ => false end
  | ECond _ cnd x y =>
      scope cols cnd && scope cols x && scope cols y && s_bool (tyof cols cnd)
      && sc_cond (tyof cols x) (tyof cols y)
  | EArray _ es => slist es
  | Ast.EMap _ ps => spairs ps
  | EPair _ _ _ => false
  end.

Definition in_scope (e : expr) : bool := scope [] e.
End Scope.

(* ---------------- the result directive ---------------- *)
Definition cast_of (k : option rkind) : cast :=
  match k with
  | Some (RKNum KInt64) => CastInt64
  | Some (RKNum KF64) => CastFloat64
  | _ => CastNone
  end.


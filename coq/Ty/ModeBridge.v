(* Ty/ModeBridge.v — C15 meets C03: the trees the checker model (Ty/Checker.v) returns satisfy the
   annotation conditions `ok_full` of Sem/ModeAgree.v, so that the `ok` hypotheses of modes_agree are
   discharged by theorems about `check` instead of being assumed.

   Part 1  definitions: the source predicate `raw`, the decidable carve-out `bridge_scope`,
           the abstract link between the types table and the run-time callables (`callee_ok`)
   Part 2  annotations: settle / set_ints against erase, wf_full, sites_full
   Part 3  reflect.Call's pairing of parameters (param_at) against the checker's (param_ty)
   Part 4  the visitor, all 22 node kinds (tree_inv), whatever the verdict
   Part 5  the theorems: checker_tree_ok, checker_establishes_ok_full, typed_vs_untyped
   Part 6  fast_sound is NOT a consequence of fenv_ok; a sufficient condition
   Part 7  a universe (BWit): non-vacuity; refutations of the statement without the carve-outs
           (declared parameter type; method sites cannot follow from static typing)
   Part 8  on raw sources bridge_scope is weaker than C03's in_scope
   Part 9  any two configurations (variants_agree)
   Part 10 a carve-out on the source alone (bridge_scope_src): no hypothesis about sites is left *)
From Coq Require Import ZArith Bool List String Floats Lia Permutation.
Require Import X.Base.Num X.Base.NumProofs X.Base.Value X.Syn.Ast X.Sem.Prim X.Sem.Sem.
Require Import X.Ty.Types X.Ty.TypesTable X.Ty.TyProofs X.Ty.Checker X.Ty.CheckProofs X.Ty.Sound X.Ty.SoundProofs.
Require Import X.Sem.ModeAgree.
Import ListNotations.
Open Scope string_scope.

(* ================================================================== Part 1: definitions *)

(* ---- a predicate on every node of a tree ---- *)
Fixpoint all_nodes (p : expr -> bool) (e : expr) {struct e} : bool :=
  p e &&
  match e with
  | ENil _ | EIdent _ _ _ | EInt _ _ | EFloat _ _ | EBool _ _ | EStr _ _ | EConst _ _ | EPointer _ => true
  | EUnary _ _ x | EProperty _ x _ _ | EClosure _ x => all_nodes p x
  | EBinary _ _ l r | EMatches _ _ l r | EIndex _ l r | EPair _ l r => all_nodes p l && all_nodes p r
  | ESlice _ x f t => all_nodes p x && opt_all (all_nodes p) f && opt_all (all_nodes p) t
  | EMethod _ x _ args _ => all_nodes p x && forallb (all_nodes p) args
  | EFunction _ _ args _ | EBuiltin _ _ args | EArray _ args | Ast.EMap _ args => forallb (all_nodes p) args
  | ECond _ c x y => all_nodes p c && all_nodes p x && all_nodes p y
  end.

(* ---- the source: what the parser hands to the checker.  Every integer literal is unannotated (or
   annotated int) and lies in the int range (the parser rejects other literals). ---- *)
Definition lit_raw (e : expr) : bool :=
  match e with
  | EInt a z => kind_eqb (eff_kind a) KInt && in_range KInt z
  | _ => true
  end.

Definition raw (e : expr) : bool := all_nodes lit_raw e.

(* ---- the carve-out.  setTypeForIntegers retypes the integer literals of an argument that is an
   integer literal or a + - * / node to the Kind of the declared parameter.  Where that kind is a
   number kind other than int, ModeAgree's site_ok asks for the parameter reflect.Call sees at run
   time.  The checker's view and reflect's view coincide when
     - the parameter type is exactly that number type, not a declared `type Celsius float64`
       (s_num: the literal would be pushed as float64 and reflect.Call refuses it),
     - the name is a field or method of the environment of function type proper (no declared
       function type, no pointer to a function), not ambiguous (callee_plain),
     - the Go guarantees on the signature hold (sc_sig: a method has its receiver, the last
       parameter of a variadic function is a slice). ---- *)
Definition nonint_num (t : ty) : bool :=
  match kind_of_ty t with RKNum k => negb (kind_eqb k KInt) | _ => false end.

Fixpoint retyped_params (pt : nat -> ty) (i : nat) (args : list expr) : list ty :=
  match args with
  | [] => []
  | a :: r => (if is_arith a && nonint_num (pt i) then [pt i] else []) ++ retyped_params pt (S i) r
  end.

Definition callee_plain (tg : tag) (ins : list ty) (v : bool) (o : ty) : bool :=
  ty_eqb (tg_ty tg) (TFunc ins v [o]) && negb (tg_amb tg) && sc_sig ins v (tg_method tg).

Definition fn_scope (c : cconfig) (name : string) (args : list expr) : bool :=
  match lookup_name c name with
  | Some tg =>
      match is_func_type (tg_ty tg) with
      | Some (TFunc ins v [o]) =>
          match retyped_params (param_ty ins v (tg_method tg)) 0 args with
          | [] => true                                  (* no argument is retyped to a non-int number kind *)
          | ps => forallb s_num ps && callee_plain tg ins v o
          end
      | _ => true                                       (* interface{} callee / error: arguments are not visited *)
      end
  | None => true                                        (* unknown name: arguments are not visited *)
  end.

Definition node_scope (c : cconfig) (e : expr) : bool :=
  match e with
  | EFunction _ name args _ => fn_scope c name args
  | _ => true
  end.

(* raw + the carve-out at every function call node *)
Definition bridge_scope (c : cconfig) (e : expr) : bool :=
  all_nodes (fun x => lit_raw x && node_scope c x) e.

(* ---- the link between the types table and the environment value (what C03's env_ok / fenv_ok
   give, see callee_ok_env): a plain function entry of the table resolves at run time to a function
   whose reflect signature is the declared one (receiver stripped) ---- *)
Definition callee_ok (c : cconfig) (fe : fenv) (env : value) : Prop :=
  forall name tg ins v o id sg,
    lookup_name c name = Some tg -> tg_ty tg = TFunc ins v [o] -> tg_amb tg = false ->
    sc_sig ins v (tg_method tg) = true ->
    Prim.fetch_fn fe env name = Ok id -> fn_sig fe id = Some sg ->
    s_ins sg = (if tg_method tg then tl ins else ins) /\ s_variadic sg = v.

(* ---- method call sites: site_ok quantifies over EVERY receiver value, it is a statement about
   all callables of that name in the function environment and cannot follow from the static type
   of one receiver expression (method_sites_not_from_typing).  They stay a hypothesis; the
   decidable predicate no_method_sites makes it void. ---- *)
Definition method_sites (e : expr) : list site := filter st_method (sites_full e).
Definition no_method_sites (e : expr) : bool := forallb (fun st => negb (st_method st)) (sites_full e).

(* what is established for every site: function sites are ok, method sites are left open *)
Definition site_est (fe : fenv) (env : value) (st : site) : Prop :=
  st_method st = true \/ site_ok fe env st.

(* the tree returned by the checker *)
Definition checked (c : cconfig) (e : expr) : expr := snd (fst (check c e)).

(* ================================================================== Part 2: annotations *)
Definition is_int_lit (e : expr) : bool := match e with EInt _ _ => true | _ => false end.

Lemma erase_settle e t : erase (settle e t) = erase e.
Proof. destruct e; reflexivity. Qed.

Lemma sites_settle e t : sites_full (settle e t) = sites_full e.
Proof. destruct e; reflexivity. Qed.

Lemma wf_settle m e t : is_int_lit e = false -> wf_full m (settle e t) = wf_full m e.
Proof. destruct e; try reflexivity. discriminate. Qed.

(* below a node that is neither a literal nor + - * / the mode is reset *)
Definition on_spine (e : expr) : bool :=
  match e with
  | EInt _ _ => true
  | EUnary _ op _ => arith_un op
  | EBinary _ op _ _ => arith_bin op
  | _ => false
  end.

Lemma wf_full_off_spine m e : on_spine e = false -> wf_full m e = wf_full None e.
Proof.
  destruct e; try reflexivity; cbn [on_spine wf_full]; try discriminate; intros ->; reflexivity.
Qed.

Lemma set_ints_off_spine e t : on_spine e = false -> set_ints e t = e.
Proof.
  destruct e; try reflexivity; cbn [on_spine]; try discriminate.
  - destruct op; try discriminate; reflexivity.
  - destruct op; try discriminate; reflexivity.
Qed.

Lemma set_ints_unary a op x t : arith_un op = true -> set_ints (EUnary a op x) t = EUnary a op (set_ints x t).
Proof. destruct op; try discriminate; reflexivity. Qed.

Lemma set_ints_binary a op l r t :
  arith_bin op = true -> set_ints (EBinary a op l r) t = EBinary a op (set_ints l t) (set_ints r t).
Proof. destruct op; try discriminate; reflexivity. Qed.

Lemma is_arith_spine e : is_arith e = on_spine e.
Proof. destruct e; try reflexivity; destruct op; reflexivity. Qed.

Lemma erase_set_ints t : forall e, erase (set_ints e t) = erase e.
Proof.
  induction e as [| | a z | | | | |a op x IHx|a op l IHl r IHr| | | | | | | | | | | | | ]; try reflexivity.
  - destruct (arith_un op) eqn:O; [|rewrite set_ints_off_spine by exact O; reflexivity].
    rewrite set_ints_unary by exact O. cbn [erase]. rewrite IHx. reflexivity.
  - destruct (arith_bin op) eqn:O; [|rewrite set_ints_off_spine by exact O; reflexivity].
    rewrite set_ints_binary by exact O. cbn [erase]. rewrite IHl, IHr. reflexivity.
Qed.

Lemma sites_set_ints t : forall e, sites_full (set_ints e t) = sites_full e.
Proof.
  induction e as [| | a z | | | | |a op x IHx|a op l IHl r IHr| | | | | | | | | | | | | ]; try reflexivity.
  - destruct (arith_un op) eqn:O; [|rewrite set_ints_off_spine by exact O; reflexivity].
    rewrite set_ints_unary by exact O. cbn [sites_full]. exact IHx.
  - destruct (arith_bin op) eqn:O; [|rewrite set_ints_off_spine by exact O; reflexivity].
    rewrite set_ints_binary by exact O. cbn [sites_full]. rewrite IHl, IHr. reflexivity.
Qed.

(* the literals setTypeForIntegers reaches: those below + - * / only *)
Fixpoint spine_ok (e : expr) : bool :=
  match e with
  | EInt _ z => in_range KInt z
  | EUnary _ op x => if arith_un op then spine_ok x else true
  | EBinary _ op l r => if arith_bin op then spine_ok l && spine_ok r else true
  | _ => true
  end.

Lemma spine_ok_erase : forall e, spine_ok (erase e) = spine_ok e.
Proof.
  induction e as [| | a z | | | | |a op x IHx|a op l IHl r IHr| | | | | | | | | | | | | ]; try reflexivity; cbn [erase spine_ok].
  - rewrite IHx. reflexivity.
  - rewrite IHl, IHr. reflexivity.
Qed.

Lemma all_nodes_here p e : all_nodes p e = true -> p e = true.
Proof. destruct e; cbn [all_nodes]; intros H; apply andb_prop in H; destruct H as [H _]; exact H. Qed.

Lemma raw_spine_ok p : (forall x, p x = true -> lit_raw x = true) ->
  forall e, all_nodes p e = true -> spine_ok e = true.
Proof.
  intros Hp.
  induction e as [| | a z | | | | |a op x IHx|a op l IHl r IHr| | | | | | | | | | | | | ]; intros H; try reflexivity.
  - apply all_nodes_here, Hp in H. cbn [lit_raw] in H. apply andb_prop in H. destruct H as [_ H]. exact H.
  - cbn [all_nodes] in H. apply andb_prop in H. destruct H as [_ H]. cbn [spine_ok]. destruct (arith_un op); auto.
  - cbn [all_nodes] in H. apply andb_prop in H. destruct H as [_ H]. apply andb_prop in H. destruct H as [Hl Hr].
    cbn [spine_ok]. destruct (arith_bin op); [|reflexivity]. rewrite IHl, IHr by assumption. reflexivity.
Qed.

(* the mode a retyped argument satisfies wf_full in *)
Definition tgt (pin : ty) : option kind :=
  match kind_of_ty pin with
  | RKNum k => if kind_eqb k KInt then None else Some k
  | _ => None
  end.

Definition mode_kind (m : option kind) : kind := match m with Some k => k | None => KInt end.

Lemma tgt_kind pin : mode_kind (tgt pin) = match kind_of_ty pin with RKNum k => k | _ => KInt end.
Proof.
  unfold tgt. destruct (kind_of_ty pin) as [| |k| | | | | | | |]; try reflexivity.
  destruct (kind_eqb k KInt) eqn:E; [|reflexivity]. apply kind_eqb_eq in E. subst k. reflexivity.
Qed.

Lemma wf_set_ints pin : forall e, wf_full None e = true -> spine_ok e = true ->
  wf_full (tgt pin) (set_ints e pin) = true.
Proof.
  induction e as [| | a z | | | | |a op x IHx|a op l IHl r IHr| | | | | | | | | | | | | ]; intros W S;
    try (rewrite wf_full_off_spine by reflexivity; exact W).
  - cbn [set_ints wf_full]. fold (mode_kind (tgt pin)). rewrite tgt_kind.
    unfold eff_kind, lit_range_ok. cbn [akind]. cbn [spine_ok] in S.
    destruct (kind_of_ty pin) as [| |k| | | | | | | |]; try reflexivity.
    rewrite kind_eqb_refl. destruct k; try reflexivity. exact S.
  - destruct (arith_un op) eqn:O.
    + rewrite set_ints_unary by exact O. cbn [wf_full spine_ok] in *. rewrite O in *. auto.
    + rewrite set_ints_off_spine by exact O. rewrite wf_full_off_spine by exact O. exact W.
  - destruct (arith_bin op) eqn:O.
    + rewrite set_ints_binary by exact O. cbn [wf_full spine_ok] in *. rewrite O in *.
      apply andb_prop in W. destruct W as [Wl Wr]. apply andb_prop in S. destruct S as [Sl Sr].
      rewrite IHl, IHr by assumption. reflexivity.
    + rewrite set_ints_off_spine by exact O. rewrite wf_full_off_spine by exact O. exact W.
Qed.

(* a tree that is well annotated in two modes has no literal on its spine, or the modes coincide *)
Lemma wf_full_two_modes k1 k2 : forall e, wf_full (Some k1) e = true -> wf_full (Some k2) e = true ->
  k1 = k2 \/ wf_full None e = true.
Proof.
  induction e as [| | a z | | | | |a op x IHx|a op l IHl r IHr| | | | | | | | | | | | | ]; intros W1 W2;
    try (right; rewrite <- (wf_full_off_spine (Some k1)) by reflexivity; exact W1).
  - left. cbn [wf_full] in W1, W2. apply andb_prop in W1. destruct W1 as [W1 _]. apply andb_prop in W2. destruct W2 as [W2 _].
    apply kind_eqb_eq in W1. apply kind_eqb_eq in W2. congruence.
  - destruct (arith_un op) eqn:O.
    + cbn [wf_full] in *. rewrite O in *. auto.
    + right. rewrite <- (wf_full_off_spine (Some k1)) by exact O. exact W1.
  - destruct (arith_bin op) eqn:O.
    + cbn [wf_full] in *. rewrite O in *.
      apply andb_prop in W1. destruct W1 as [L1 R1]. apply andb_prop in W2. destruct W2 as [L2 R2].
      destruct (IHl L1 L2) as [E|Wl]; [left; exact E|]. destruct (IHr R1 R2) as [E|Wr]; [left; exact E|].
      right. rewrite Wl, Wr. reflexivity.
    + right. rewrite <- (wf_full_off_spine (Some k1)) by exact O. exact W1.
Qed.

(* the validity test of wf_full for one argument, and its class *)
Definition arg_valid_full (y : expr) : bool :=
  wf_full None y || existsb (fun k => wf_full (Some k) y) retype_kinds.

Lemma tgt_not_int pin k : tgt pin = Some k -> k <> KInt /\ kind_of_ty pin = RKNum k.
Proof.
  unfold tgt. destruct (kind_of_ty pin) as [| |k0| | | | | | | |]; try discriminate.
  destruct (kind_eqb k0 KInt) eqn:E; [discriminate|]. intros H. inversion H; subst. split; [|reflexivity].
  apply kind_eqb_neq. exact E.
Qed.

Lemma tgt_valid pin y : wf_full (tgt pin) y = true -> arg_valid_full y = true.
Proof.
  unfold arg_valid_full. destruct (tgt pin) as [k|] eqn:T; intros W; [|rewrite W; reflexivity].
  apply orb_true_iff. right. apply existsb_exists. exists k. split; [|exact W].
  apply retyped_in_kinds. apply (tgt_not_int _ _ T).
Qed.

(* the class of a retyped argument is the kind of the parameter *)
Lemma tgt_class pin y k : wf_full (tgt pin) y = true -> arg_class_full y = Some k ->
  tgt pin = Some k.
Proof.
  unfold arg_class_full. destruct (wf_full None y) eqn:W0; [discriminate|]. intros W F.
  apply find_some in F. destruct F as [_ Wk].
  destruct (tgt pin) as [k0|]; [|congruence].
  destruct (wf_full_two_modes k0 k y W Wk) as [E|E]; [subst; reflexivity|congruence].
Qed.

(* untouched source subtrees *)
Section RawTree.
Variable p : expr -> bool.
Hypothesis Hp : forall x, p x = true -> lit_raw x = true.

Definition raw_fact (e : expr) : Prop := all_nodes p e = true -> wf_full None e = true /\ sites_full e = [].

Lemma raw_list l : Forall raw_fact l -> forallb (all_nodes p) l = true ->
  forallb (wf_full None) l = true /\ flat_map sites_full l = [] /\ forallb arg_valid_full l = true /\
  forall m name i, arg_sites_full m name l i = [].
Proof.
  induction 1 as [|x r Hx _ IH]; intros H; [repeat split; reflexivity|].
  cbn [forallb] in H. apply andb_prop in H. destruct H as [H1 H2].
  destruct (Hx H1) as [W S]. destruct (IH H2) as (A & B & C & D).
  cbn [forallb flat_map arg_sites_full]. unfold arg_valid_full at 1, arg_class_full. rewrite W, S, A, B, C.
  repeat split; try reflexivity. intros m name i. apply D.
Qed.

Lemma raw_tree : forall e, raw_fact e.
Proof.
  induction e using expr_ind2. rename H into HF. unfold raw_fact. intros A.
  destruct e; cbn [children] in HF; cbn [all_nodes] in A; apply andb_prop in A; destruct A as [A0 A];
    cbn [wf_full sites_full]; try (split; reflexivity).
  - (* integer *) apply Hp in A0. cbn [lit_raw] in A0. apply andb_prop in A0. destruct A0 as [K R].
    split; [|reflexivity]. cbn [mode_kind]. rewrite K. unfold lit_range_ok.
    destruct (akind a) as [| |k| | | | | | | |]; try reflexivity. destruct k; try reflexivity. exact R.
  - (* unary *) inversion HF as [|? ? Hx _]; subst. destruct (Hx A) as [W S].
    destruct (arith_un op); auto.
  - (* binary *) inversion HF as [|? ? Hl HF2]; subst. inversion HF2 as [|? ? Hr _]; subst.
    apply andb_prop in A. destruct A as [Al Ar]. destruct (Hl Al) as [Wl Sl]. destruct (Hr Ar) as [Wr Sr].
    rewrite Sl, Sr. destruct (arith_bin op); rewrite Wl, Wr; auto.
  - (* matches *) inversion HF as [|? ? Hl HF2]; subst. inversion HF2 as [|? ? Hr _]; subst.
    apply andb_prop in A. destruct A as [Al Ar]. destruct (Hl Al) as [Wl Sl]. destruct (Hr Ar) as [Wr Sr].
    rewrite Sl, Sr, Wl, Wr. auto.
  - (* property *) inversion HF as [|? ? Hx _]; subst. exact (Hx A).
  - (* index *) inversion HF as [|? ? Hl HF2]; subst. inversion HF2 as [|? ? Hr _]; subst.
    apply andb_prop in A. destruct A as [Al Ar]. destruct (Hl Al) as [Wl Sl]. destruct (Hr Ar) as [Wr Sr].
    rewrite Sl, Sr, Wl, Wr. auto.
  - (* slice *) inversion HF as [|? ? Hx HF2]; subst.
    apply andb_prop in A. destruct A as [A At]. apply andb_prop in A. destruct A as [Ax Af].
    destruct (Hx Ax) as [Wx Sx]. rewrite Wx, Sx.
    assert (F : opt_all (wf_full None) from = true /\ opt_sites sites_full from = []).
    { destruct from as [f|]; [|auto]. cbn [opt_all opt_sites] in *. apply (proj1 (Forall_forall _ _) HF2 f); [|exact Af].
      apply in_or_app. left. left. reflexivity. }
    assert (T : opt_all (wf_full None) to = true /\ opt_sites sites_full to = []).
    { destruct to as [u|]; [|auto]. cbn [opt_all opt_sites] in *. apply (proj1 (Forall_forall _ _) HF2 u); [|exact At].
      apply in_or_app. right. left. reflexivity. }
    destruct F as [F1 F2]. destruct T as [T1 T2]. rewrite F1, F2, T1, T2. auto.
  - (* method *) inversion HF as [|? ? Hx HF2]; subst. apply andb_prop in A. destruct A as [Ax Aa].
    destruct (Hx Ax) as [Wx Sx]. destruct (raw_list _ HF2 Aa) as (_ & B & C & D).
    rewrite Wx, Sx, B, D. fold arg_valid_full. rewrite C. auto.
  - (* function *) destruct (raw_list _ HF A) as (_ & B & C & D).
    rewrite B, D. fold arg_valid_full. rewrite C. auto.
  - (* builtin *) destruct (raw_list _ HF A) as (W & B & _ & _). auto.
  - (* closure *) inversion HF as [|? ? Hx _]; subst. exact (Hx A).
  - (* conditional *) inversion HF as [|? ? Hc HF2]; subst. inversion HF2 as [|? ? Hx HF3]; subst.
    inversion HF3 as [|? ? Hy _]; subst.
    apply andb_prop in A. destruct A as [A Ay]. apply andb_prop in A. destruct A as [Ac Ax].
    destruct (Hc Ac) as [Wc Sc]. destruct (Hx Ax) as [Wx Sx]. destruct (Hy Ay) as [Wy Sy].
    rewrite Wc, Wx, Wy, Sc, Sx, Sy. auto.
  - (* array *) destruct (raw_list _ HF A) as (W & B & _ & _). auto.
  - (* map *) destruct (raw_list _ HF A) as (W & B & _ & _). auto.
  - (* pair *) inversion HF as [|? ? Hl HF2]; subst. inversion HF2 as [|? ? Hr _]; subst.
    apply andb_prop in A. destruct A as [Al Ar]. destruct (Hl Al) as [Wl Sl]. destruct (Hr Ar) as [Wr Sr].
    rewrite Sl, Sr, Wl, Wr. auto.
Qed.
End RawTree.

(* ================================================================== Part 3: parameters *)
(* where the checker compares an argument with a number type, reflect.Call pairs the argument with
   that very parameter - provided the last parameter of a variadic function is a slice *)
Lemma param_at_num : forall ins v j k,
  (v = true -> exists e, last ins TNilT = TSlice e) ->
  param_ty ins v false j = TNum k -> param_at ins v j = Some (TNum k).
Proof.
  induction ins as [|p ins IH]; intros v j k Hv H.
  - unfold param_ty in H. cbn in H. destruct v; cbn in H.
    + destruct (Hv eq_refl) as [e E]. discriminate E.
    + destruct j; discriminate H.
  - destruct ins as [|q r].
    + destruct v.
      * destruct (Hv eq_refl) as [e E]. cbn in E. rewrite E in *. cbn [param_at].
        unfold param_ty in H. cbn in H. rewrite H. reflexivity.
      * unfold param_ty in H. destruct j as [|[|j]]; cbn in H; try discriminate H.
        rewrite H. reflexivity.
    + rewrite param_at_cons by (intros e E; discriminate E). destruct j as [|j].
      * rewrite pt_head in H. rewrite H. reflexivity.
      * rewrite pt_shift in H. apply IH; [|exact H]. intros E. destruct (Hv E) as [e El]. exists e. exact El.
Qed.

Lemma s_num_kind pin k : s_num pin = true -> kind_of_ty pin = RKNum k -> pin = TNum k.
Proof. destruct pin; try discriminate. cbn. intros _ H. inversion H. reflexivity. Qed.

Lemma retyped_params_in pt : forall args i j a,
  nth_error args j = Some a -> is_arith a = true -> nonint_num (pt (i + j)%nat) = true ->
  In (pt (i + j)%nat) (retyped_params pt i args).
Proof.
  induction args as [|x r IH]; intros i j a N A K; [destruct j; discriminate N|].
  cbn [retyped_params]. apply in_or_app. destruct j as [|j].
  - cbn in N. inversion N; subst x. rewrite Nat.add_0_r in *. rewrite A, K. left. left. reflexivity.
  - right. cbn in N. replace (i + S j)%nat with (S i + j)%nat in * by lia. eapply IH; eauto.
Qed.

(* one function call site, from the carve-out *)
Lemma function_site_ok c fe env name tg ins v o args j a k :
  callee_ok c fe env ->
  lookup_name c name = Some tg -> is_func_type (tg_ty tg) = Some (TFunc ins v [o]) ->
  fn_scope c name args = true ->
  nth_error args j = Some a -> is_arith a = true ->
  tgt (param_ty ins v (tg_method tg) j) = Some k ->
  site_ok fe env (mkSite false name j k).
Proof.
  intros Hc Hl Hf Hs N A T. destruct (tgt_not_int _ _ T) as [Hk Hkind].
  assert (K : nonint_num (param_ty ins v (tg_method tg) j) = true).
  { unfold nonint_num. rewrite Hkind. apply negb_true_iff. apply kind_eqb_neq. exact Hk. }
  pose proof (retyped_params_in (param_ty ins v (tg_method tg)) args 0 j a N A K) as Hin. cbn [Nat.add] in Hin.
  unfold fn_scope in Hs. rewrite Hl, Hf in Hs.
  destruct (retyped_params (param_ty ins v (tg_method tg)) 0 args) as [|p0 ps] eqn:R; [destruct Hin|].
  apply andb_prop in Hs. destruct Hs as [Hnum Hplain]. rewrite forallb_forall in Hnum. specialize (Hnum _ Hin).
  pose proof (s_num_kind _ _ Hnum Hkind) as Hpin.
  unfold callee_plain in Hplain. apply andb_prop in Hplain. destruct Hplain as [Hplain Hsig].
  apply andb_prop in Hplain. destruct Hplain as [Hty Hamb]. apply ty_eqb_eq in Hty. apply negb_true_iff in Hamb.
  intros recv id sg Hr F Sg. cbn [st_method st_name st_pos st_kind] in *. rewrite (Hr eq_refl) in F.
  destruct (Hc name tg ins v o id sg Hl Hty Hamb Hsig F Sg) as [Ei Ev]. rewrite Ei, Ev.
  destruct (sig_norm _ _ _ Hsig) as (Hlast & Hpt & _).
  apply param_at_num; [exact Hlast|]. rewrite <- Hpt. exact Hpin.
Qed.

(* ================================================================== Part 4: the visitor *)
Lemma arg_rule_tree a a1 t pin : fst (arg_rule a a1 t pin) = if is_arith a then set_ints a1 pin else a1.
Proof.
  unfold arg_rule. destruct (is_arith a); destruct (is_nil_ty _); try reflexivity;
    destruct (negb _ && negb _); reflexivity.
Qed.

Section Visitor.
Variable c : cconfig.
Variable fe : fenv.
Variable env : value.
Variable p : expr -> bool.
Hypothesis Hp_lit : forall x, p x = true -> lit_raw x = true.
Hypothesis Hp_fn : forall x, p x = true -> node_scope c x = true.
Hypothesis Hcallee : callee_ok c fe env.
(* what is to be established of every call site: Q.  Function sites get site_ok; for method sites
   the instance says what is known (nothing: site_est; or no retyped argument at all: site_ok) *)
Variable Q : site -> Prop.
Hypothesis HQ_fn : forall st, st_method st = false -> site_ok fe env st -> Q st.
Hypothesis HQ_m : forall an x nm args ns j a k, p (EMethod an x nm args ns) = true ->
  nth_error args j = Some a -> is_arith a = true -> Q (mkSite true nm j k).

(* what is kept of a subtree: same source, well annotated, sites established *)
Definition inv (e e' : expr) : Prop :=
  erase e' = erase e /\ wf_full None e' = true /\ Forall Q (sites_full e').

Definition args_inv (m : bool) (name : string) (i : nat) (args args' : list expr) : Prop :=
  map erase args' = map erase args /\ forallb arg_valid_full args' = true /\
  Forall Q (arg_sites_full m name args' i) /\ Forall Q (flat_map sites_full args').

Definition list_inv (es es' : list expr) : Prop :=
  map erase es' = map erase es /\ forallb (wf_full None) es' = true /\ Forall Q (flat_map sites_full es').

(* whatever the verdict and the incoming error state *)
Definition P (e : expr) : Prop :=
  forall cols st, all_nodes p e = true -> inv e (snd (fst (visit c cols e st))).

Lemma inv_settle e e' t : is_int_lit e' = false -> inv e e' -> inv e (settle e' t).
Proof.
  intros N (A & B & C). unfold inv. rewrite erase_settle, sites_settle, wf_settle by exact N. auto.
Qed.

Lemma inv_raw e : all_nodes p e = true -> inv e e.
Proof.
  intros A. destruct (raw_tree p Hp_lit e A) as [W S]. unfold inv. rewrite S. auto.
Qed.

Lemma list_inv_raw l : forallb (all_nodes p) l = true -> list_inv l l.
Proof.
  intros A. destruct (raw_list p l (proj2 (Forall_forall _ _) (fun x _ => raw_tree p Hp_lit x)) A) as (W & S & _ & _).
  unfold list_inv. rewrite S. auto.
Qed.

Lemma args_inv_raw m name i l : forallb (all_nodes p) l = true -> args_inv m name i l l.
Proof.
  intros A. destruct (raw_list p l (proj2 (Forall_forall _ _) (fun x _ => raw_tree p Hp_lit x)) A) as (_ & S & V & D).
  unfold args_inv. rewrite S, D. auto.
Qed.

Lemma vlist_b cols es : Forall P es -> forall st, forallb (all_nodes p) es = true ->
  list_inv es (fst (vlist c cols es st)).
Proof.
  induction 1 as [|x r Hx _ IH]; intros st A; cbn [vlist]; [repeat split; constructor|].
  cbn [forallb] in A. apply andb_prop in A. destruct A as [Ax Ar].
  pose proof (Hx cols st Ax) as I. destruct (visit c cols x st) as [[t x'] st1]. cbn [fst snd] in I.
  specialize (IH st1 Ar). destruct (vlist c cols r st1) as [r' st2]. cbn [fst snd] in *.
  destruct I as (I1 & I2 & I3). destruct IH as (J1 & J2 & J3).
  unfold list_inv. cbn [map forallb flat_map]. rewrite I1, J1, I2, J2, Forall_app. auto.
Qed.

Lemma arg_b a a1 pin m name i : all_nodes p a = true -> inv a a1 ->
  (forall k, is_arith a = true -> tgt pin = Some k -> Q (mkSite m name i k)) ->
  let a2 := if is_arith a then set_ints a1 pin else a1 in
  erase a2 = erase a /\ arg_valid_full a2 = true /\
  Forall Q (match arg_class_full a2 with Some k => [mkSite m name i k] | None => [] end) /\
  Forall Q (sites_full a2).
Proof.
  intros A (I1 & I2 & I3) Hs. destruct (is_arith a) eqn:Ar; cbn zeta.
  - assert (W : wf_full (tgt pin) (set_ints a1 pin) = true).
    { apply wf_set_ints; [exact I2|]. rewrite <- spine_ok_erase, I1, spine_ok_erase.
      exact (raw_spine_ok p Hp_lit a A). }
    rewrite erase_set_ints, sites_set_ints. repeat split; auto.
    + exact (tgt_valid _ _ W).
    + destruct (arg_class_full (set_ints a1 pin)) as [k|] eqn:C; [|constructor].
      constructor; [|constructor]. apply Hs; [reflexivity|]. exact (tgt_class _ _ _ W C).
  - repeat split; auto.
    + unfold arg_valid_full. rewrite I2. reflexivity.
    + unfold arg_class_full. rewrite I2. constructor.
Qed.

Lemma vargs_b cols pt m name args : Forall P args -> forall i st, forallb (all_nodes p) args = true ->
  (forall j a k, nth_error args j = Some a -> is_arith a = true -> tgt (pt (i + j)%nat) = Some k ->
     Q (mkSite m name (i + j) k)) ->
  args_inv m name i args (fst (fst (vargs c cols pt i args st))).
Proof.
  induction 1 as [|a r Ha _ IH]; intros i st A Hs; cbn [vargs]; [repeat split; constructor|].
  cbn [forallb] in A. apply andb_prop in A. destruct A as [Aa Ar].
  pose proof (Ha cols st Aa) as I. destruct (visit c cols a st) as [[t a1] st1]. cbn [fst snd] in I.
  pose proof (arg_rule_tree a a1 t (pt i)) as Et.
  destruct (arg_rule a a1 t (pt i)) as [a2 ok]. cbn [fst] in Et. subst a2.
  destruct (arg_b a a1 (pt i) m name i Aa I) as (B1 & B2 & B3 & B4).
  { intros k Hk Ht. specialize (Hs O a k eq_refl Hk). rewrite Nat.add_0_r in Hs. auto. }
  assert (R : forall r', args_inv m name (S i) r r' ->
            args_inv m name i (a :: r) ((if is_arith a then set_ints a1 (pt i) else a1) :: r')).
  { intros r' (J1 & J2 & J3 & J4). unfold args_inv. cbn [map forallb arg_sites_full flat_map].
    rewrite B1, J1, B2, J2, !Forall_app. auto. }
  destruct ok.
  - specialize (IH (S i) st1 Ar).
    destruct (vargs c cols pt (S i) r st1) as [[r' st2] ok']. cbn [fst snd] in *. apply R. apply IH.
    intros j x k N Hx Ht. replace (S i + j)%nat with (i + S j)%nat in * by lia. exact (Hs (S j) x k N Hx Ht).
  - cbn [fst snd]. apply R. apply args_inv_raw. exact Ar.
Qed.

Lemma check_func_b cols fn m here args st sm name :
  Forall P args -> forallb (all_nodes p) args = true ->
  (forall ins v o, fn = TFunc ins v [o] -> forall j a k, nth_error args j = Some a -> is_arith a = true ->
     tgt (param_ty ins v m j) = Some k -> Q (mkSite sm name j k)) ->
  args_inv sm name 0 args (snd (fst (check_func (vargs c cols) fn m here args st))).
Proof.
  intros HF A Hs. unfold check_func.
  destruct fn as [| | | | | | | | |ins v outs| |]; try (apply args_inv_raw; exact A).
  destruct outs as [|o [|o2 outs]].
  - destruct (fail_at here CNoReturn st). apply args_inv_raw; exact A.
  - destruct (arity_rule ins v m (List.length args)).
    + destruct (fail_at here c0 st). apply args_inv_raw; exact A.
    + pose proof (vargs_b cols (param_ty ins v m) sm name args HF 0%nat st A (Hs ins v o eq_refl)) as V.
      destruct (vargs c cols (param_ty ins v m) 0 args st) as [[args' st'] ok]. cbn [fst snd] in V.
      destruct ok; exact V.
  - destruct (fail_at here CManyReturns st). apply args_inv_raw; exact A.
Qed.

Ltac vdes :=
  match goal with
  | IH : P ?x, A : all_nodes p ?x = true |- context [visit c ?cols ?x ?st] =>
      let I := fresh "I" in
      pose proof (IH cols st A) as I;
      destruct (visit c cols x st) as [[? ?] ?]; cbn [fst snd] in I
  end.

Ltac edes :=
  match goal with
  | |- context [emit ?l ?r ?st] => destruct (emit l r st) as [? ?]
  | |- context [fail_at ?l ?k ?st] => destruct (fail_at l k st) as [? ?]
  end.

Ltac rawfact x A :=
  let W := fresh "W" in let S := fresh "S" in
  destruct (raw_tree p Hp_lit x A) as [W S].

Ltac rw_wf := repeat match goal with W : wf_full None _ = true |- _ => rewrite W; clear W end.

Ltac close_inv :=
  cbn [fst snd]; apply inv_settle; [reflexivity|];
  unfold inv in *; cbn [erase wf_full sites_full opt_all opt_sites option_map];
  repeat match goal with I : _ /\ _ |- _ => destruct I end;
  repeat match goal with E : erase _ = erase _ |- _ => rewrite E; clear E end;
  repeat match goal with W : wf_full None _ = true |- _ => rewrite W; clear W end;
  repeat match goal with S : sites_full _ = [] |- _ => rewrite S; clear S end;
  rewrite ?Forall_app; repeat split; auto.

Ltac whole_raw A' := cbn [fst snd]; apply inv_settle; [reflexivity|apply inv_raw; exact A'].

Lemma tree_inv : forall e, P e.
Proof.
  induction e using expr_ind2. rename H into HF. intros cols st A.
  destruct e as [an|an nm nsf|an z|an f|an b|an sx|an v|an op x|an op l r|an re l r|an x nm nsf|an x i|an x fr to
                |an x nm args nsf|an nm args fast|an b args|an x|an|an cnd x y|an es|an ps|an k v];
    cbn [children] in HF; pose proof A as A'; cbn [all_nodes] in A; apply andb_prop in A; destruct A as [A0 A].
  - (* nil *) cbn [visit]. close_inv.
  - (* identifier *) cbn [visit]. edes. close_inv.
  - (* integer *) cbn [visit fst snd settle set_ann loc_of ann_of].
    apply Hp_lit in A0. cbn [lit_raw] in A0. apply andb_prop in A0. destruct A0 as [_ R].
    unfold inv. cbn [erase wf_full sites_full kind_of_ty]. unfold eff_kind, lit_range_ok. cbn [akind kind_eqb].
    rewrite R. repeat split; auto.
  - (* float *) cbn [visit]. close_inv.
  - (* bool *) cbn [visit]. close_inv.
  - (* string *) cbn [visit]. close_inv.
  - (* constant *) cbn [visit]. close_inv.
  - (* unary *) inversion HF as [|? ? Hx _]; subst. cbn [visit]. vdes. edes. close_inv.
    destruct (arith_un op); auto.
  - (* binary *) inversion HF as [|? ? Hl HF2]; subst. inversion HF2 as [|? ? Hr _]; subst.
    apply andb_prop in A. destruct A as [Al Ar]. cbn [visit]. repeat vdes. edes. close_inv.
    destruct (arith_bin op); rw_wf; reflexivity.
  - (* matches *) inversion HF as [|? ? Hl HF2]; subst. inversion HF2 as [|? ? Hr _]; subst.
    apply andb_prop in A. destruct A as [Al Ar]. cbn [visit]. repeat vdes. edes. close_inv.
  - (* property *) inversion HF as [|? ? Hx _]; subst. cbn [visit]. vdes. edes. close_inv.
  - (* index *) inversion HF as [|? ? Hl HF2]; subst. inversion HF2 as [|? ? Hr _]; subst.
    apply andb_prop in A. destruct A as [Al Ar]. cbn [visit]. repeat vdes. edes. close_inv.
  - (* slice *) inversion HF as [|? ? Hx HF2]; subst.
    apply andb_prop in A. destruct A as [A At]. apply andb_prop in A. destruct A as [Ax Af].
    cbn [visit]. vdes.
    destruct fr as [f|], to as [u|]; cbn [opt_list app opt_all] in HF2, Af, At.
    + inversion HF2 as [|? ? Hf HF3]; subst. inversion HF3 as [|? ? Hu _]; subst.
      destruct (sliceable t); [|edes; rawfact f Af; rawfact u At; close_inv].
      vdes. destruct (negb (is_integer t0)); [edes; rawfact u At; close_inv|].
      vdes. destruct (negb (is_integer t1)); [edes|]; close_inv.
    + inversion HF2 as [|? ? Hf _]; subst.
      destruct (sliceable t); [|edes; rawfact f Af; close_inv].
      vdes. destruct (negb (is_integer t0)); [edes|]; close_inv.
    + inversion HF2 as [|? ? Hu _]; subst.
      destruct (sliceable t); [|edes; rawfact u At; close_inv].
      vdes. destruct (negb (is_integer t0)); [edes|]; close_inv.
    + destruct (sliceable t); [|edes]; close_inv.
  - (* method *) inversion HF as [|? ? Hx HF2]; subst. apply andb_prop in A. destruct A as [Ax Aa].
    rewrite visit_method. vdes. destruct I as (I1 & I2 & I3).
    destruct (method_callee c t nm) as [[fn m]|].
    + match goal with |- context [check_func ?va fn m ?l args ?s0] =>
        pose proof (check_func_b cols fn m l args s0 true nm HF2 Aa
                      (fun _ _ _ _ j a k N Ha _ => HQ_m an x nm args nsf j a k A0 N Ha)) as V;
        destruct (check_func va fn m l args s0) as [[t' args'] st2]
      end.
      cbn [fst snd] in V |- *. destruct V as (V1 & V2 & V3 & V4).
      apply inv_settle; [reflexivity|]. unfold inv. cbn [erase wf_full sites_full].
      rewrite I1, V1, !Forall_app. repeat split; auto. apply andb_true_intro. split; [exact I2|exact V2].
    + destruct (args_inv_raw true nm 0 args Aa) as (V1 & V2 & V3 & V4).
      assert (G : inv (EMethod an x nm args nsf) (EMethod an e nm args nsf)).
      { unfold inv. cbn [erase wf_full sites_full]. rewrite I1, !Forall_app. repeat split; auto.
        apply andb_true_intro. split; [exact I2|exact V2]. }
      destruct nsf; [|edes]; cbn [fst snd]; (apply inv_settle; [reflexivity|exact G]).
  - (* function *) rewrite visit_function.
    destruct (function_callee c nm) as [[fn m]|] eqn:Fc.
    + assert (Hs : forall ins v o, fn = TFunc ins v [o] -> forall j a k, nth_error args j = Some a -> is_arith a = true ->
                   tgt (param_ty ins v m j) = Some k -> Q (mkSite false nm j k)).
      { intros ins v o -> j a k N Ha Ht. apply HQ_fn; [reflexivity|]. unfold function_callee in Fc.
        destruct (lookup_name c nm) as [tg|] eqn:Hl; [|discriminate Fc].
        destruct (is_func_type (tg_ty tg)) as [fn0|] eqn:Hf; [|discriminate Fc]. inversion Fc; subst fn0 m.
        apply (function_site_ok c fe env nm tg ins v o args j a k Hcallee Hl Hf (Hp_fn _ A0) N Ha Ht). }
      match goal with |- context [check_func ?va fn m ?l args ?s0] =>
        pose proof (check_func_b cols fn m l args s0 false nm HF A Hs) as V;
        destruct (check_func va fn m l args s0) as [[t' args'] st2]
      end.
      cbn [fst snd] in V |- *. destruct V as (V1 & V2 & V3 & V4).
      apply inv_settle; [reflexivity|]. unfold inv. cbn [erase wf_full sites_full].
      rewrite V1, !Forall_app. repeat split; auto.
    + destruct (negb (cc_strict c)); [|edes]; whole_raw A'.
  - (* builtin *)
    destruct args as [|x [|cl rest]].
    + destruct b; cbn [visit]; edes; whole_raw A'.
    + destruct b; cbn [visit]; try (edes; whole_raw A'; fail).
      inversion HF as [|? ? Hx _]; subst. cbn [forallb] in A. apply andb_prop in A. destruct A as [Ax _].
      vdes. edes. destruct I as (I1 & I2 & I3).
      cbn [fst snd]. apply inv_settle; [reflexivity|]. unfold inv. cbn [erase wf_full sites_full map forallb flat_map].
      rewrite I1, I2, ?Forall_app. repeat split; auto.
    + inversion HF as [|? ? Hx HF2]; subst. inversion HF2 as [|? ? Hcl _]; subst.
      cbn [forallb] in A. apply andb_prop in A. destruct A as [Ax A]. apply andb_prop in A. destruct A as [Acl Ar].
      destruct (list_inv_raw rest Ar) as (_ & R2 & R3). destruct (raw_tree p Hp_lit cl Acl) as [Wc Sc].
      destruct b; cbn [visit]; try (edes; whole_raw A'; fail); vdes; destruct I as (I1 & I2 & I3);
      first
      [ edes; cbn [fst snd]; (apply inv_settle; [reflexivity|]); unfold inv; cbn [erase wf_full sites_full map forallb flat_map];
        rewrite I1, I2, Wc, R2, Sc, ?Forall_app; repeat split; auto; fail
      | destruct (negb (is_array t));
        [ edes; cbn [fst snd]; (apply inv_settle; [reflexivity|]); unfold inv;
          cbn [erase wf_full sites_full map forallb flat_map];
          rewrite I1, I2, Wc, R2, Sc, ?Forall_app; repeat split; auto
        | vdes; edes; match goal with J : inv _ _ |- _ => destruct J as (J1 & J2 & J3) end;
          cbn [fst snd]; (apply inv_settle; [reflexivity|]); unfold inv;
          cbn [erase wf_full sites_full map forallb flat_map];
          rewrite I1, I2, J1, J2, R2, ?Forall_app; repeat split; auto ] ].
  - (* closure *) inversion HF as [|? ? Hx _]; subst. cbn [visit]. vdes. close_inv.
  - (* pointer *) cbn [visit]. edes. whole_raw A'.
  - (* conditional *) inversion HF as [|? ? Hc HF2]; subst. inversion HF2 as [|? ? Hx HF3]; subst.
    inversion HF3 as [|? ? Hy _]; subst.
    apply andb_prop in A. destruct A as [A Ay]. apply andb_prop in A. destruct A as [Ac Ax].
    cbn [visit]. vdes. destruct (negb (is_bool t)).
    + edes. rawfact x Ax. rawfact y Ay. close_inv.
    + repeat vdes. close_inv.
  - (* array *) rewrite visit_array. pose proof (vlist_b cols es HF st A) as V.
    destruct (vlist c cols es st) as [es' st1]. cbn [fst snd] in V |- *. destruct V as (V1 & V2 & V3).
    apply inv_settle; [reflexivity|]. unfold inv. cbn [erase wf_full sites_full]. rewrite V1. auto.
  - (* map *) rewrite visit_map. pose proof (vlist_b cols ps HF st A) as V.
    destruct (vlist c cols ps st) as [ps' st1]. cbn [fst snd] in V |- *. destruct V as (V1 & V2 & V3).
    apply inv_settle; [reflexivity|]. unfold inv. cbn [erase wf_full sites_full]. rewrite V1. auto.
  - (* pair *) inversion HF as [|? ? Hk HF2]; subst. inversion HF2 as [|? ? Hv _]; subst.
    apply andb_prop in A. destruct A as [Ak Av]. cbn [visit]. repeat vdes. close_inv.
Qed.
End Visitor.

(* ================================================================== Part 5: the theorems *)
Lemma all_nodes_impl (p q : expr -> bool) : (forall x, p x = true -> q x = true) ->
  forall e, all_nodes p e = true -> all_nodes q e = true.
Proof.
  intros Hpq. induction e using expr_ind2. rename H into HF. intros A.
  assert (L : forall l, Forall (fun x => all_nodes p x = true -> all_nodes q x = true) l ->
              forallb (all_nodes p) l = true -> forallb (all_nodes q) l = true).
  { induction 1 as [|x r Hx _ IH]; intros B; [reflexivity|]. cbn [forallb] in *.
    apply andb_prop in B. destruct B as [B1 B2]. rewrite (Hx B1), (IH B2). reflexivity. }
  destruct e; cbn [children] in HF; cbn [all_nodes] in A |- *; apply andb_prop in A; destruct A as [A0 A];
    rewrite (Hpq _ A0); cbn [andb]; try reflexivity.
  - inversion HF as [|? ? Hx _]; subst. auto.
  - inversion HF as [|? ? Hl HF2]; subst. inversion HF2 as [|? ? Hr _]; subst.
    apply andb_prop in A. destruct A as [Al Ar]. rewrite (Hl Al), (Hr Ar). reflexivity.
  - inversion HF as [|? ? Hl HF2]; subst. inversion HF2 as [|? ? Hr _]; subst.
    apply andb_prop in A. destruct A as [Al Ar]. rewrite (Hl Al), (Hr Ar). reflexivity.
  - inversion HF as [|? ? Hx _]; subst. auto.
  - inversion HF as [|? ? Hl HF2]; subst. inversion HF2 as [|? ? Hr _]; subst.
    apply andb_prop in A. destruct A as [Al Ar]. rewrite (Hl Al), (Hr Ar). reflexivity.
  - inversion HF as [|? ? Hx HF2]; subst.
    apply andb_prop in A. destruct A as [A At]. apply andb_prop in A. destruct A as [Ax Af].
    rewrite (Hx Ax). cbn [andb].
    assert (F : opt_all (all_nodes q) from = true).
    { destruct from as [f|]; [|reflexivity]. cbn [opt_all] in *. apply (proj1 (Forall_forall _ _) HF2 f); [|exact Af].
      apply in_or_app. left. left. reflexivity. }
    assert (T : opt_all (all_nodes q) to = true).
    { destruct to as [u|]; [|reflexivity]. cbn [opt_all] in *. apply (proj1 (Forall_forall _ _) HF2 u); [|exact At].
      apply in_or_app. right. left. reflexivity. }
    rewrite F, T. reflexivity.
  - inversion HF as [|? ? Hx HF2]; subst. apply andb_prop in A. destruct A as [Ax Aa].
    rewrite (Hx Ax), (L _ HF2 Aa). reflexivity.
  - exact (L _ HF A).
  - exact (L _ HF A).
  - inversion HF as [|? ? Hx _]; subst. auto.
  - inversion HF as [|? ? Hc HF2]; subst. inversion HF2 as [|? ? Hx HF3]; subst. inversion HF3 as [|? ? Hy _]; subst.
    apply andb_prop in A. destruct A as [A Ay]. apply andb_prop in A. destruct A as [Ac Ax].
    rewrite (Hc Ac), (Hx Ax), (Hy Ay). reflexivity.
  - exact (L _ HF A).
  - exact (L _ HF A).
  - inversion HF as [|? ? Hl HF2]; subst. inversion HF2 as [|? ? Hr _]; subst.
    apply andb_prop in A. destruct A as [Al Ar]. rewrite (Hl Al), (Hr Ar). reflexivity.
Qed.

Lemma bridge_scope_raw c e : bridge_scope c e = true -> raw e = true.
Proof.
  apply all_nodes_impl. intros x H. apply andb_prop in H. destruct H as [H _]. exact H.
Qed.

(* the tree check returns is the one the visitor builds, whatever the verdict *)
Lemma checked_visit c e : checked c e = snd (fst (visit c [] e None)).
Proof.
  unfold checked, check. destruct (visit c [] e None) as [[t e'] st].
  destruct (cc_expect c) as [k|]; [destruct (expect_ok k t)|]; reflexivity.
Qed.

Lemma check_checked c e t e' st : check c e = (t, e', st) -> checked c e = e'.
Proof. unfold checked. intros ->. reflexivity. Qed.

(* ---- the link to the environment, from C03's hypotheses ---- *)
Lemma callee_ok_env c perm ftab nn fe env T sn :
  (forall l, Permutation (perm l) l) -> wf_tenv (cc_te c) = true ->
  env_ok c perm ftab nn T sn env -> fenv_ok (cc_te c) ftab nn fe -> callee_ok c fe env.
Proof.
  intros Hperm Hwf Henv Hfe name tg ins v o id sg Hl Hty Ha Hsig F Sg.
  destruct (env_callee c perm Hperm Hwf ftab nn fe env T sn Henv Hfe name tg ins v o Hl Hty Ha Hsig) as (id' & F' & Hft).
  rewrite F in F'. inversion F'; subst id'.
  rewrite (fo_sig _ _ _ _ Hfe id _ v o Hft) in Sg. inversion Sg; subst sg. split; reflexivity.
Qed.

(* without a declared environment no name has a static type *)
Lemma callee_ok_untyped c fe env : cc_types c = None -> callee_ok c fe env.
Proof.
  intros Hn name tg ins v o id sg Hl. unfold lookup_name in Hl. rewrite Hn in Hl. discriminate Hl.
Qed.

Lemma node_scope_untyped c x : cc_types c = None -> node_scope c x = true.
Proof.
  intros Hn. destruct x; try reflexivity. cbn [node_scope]. unfold fn_scope, lookup_name. rewrite Hn. reflexivity.
Qed.

(* ---- 1. the checker's tree, for every verdict ---- *)
Theorem checker_tree_ok c fe env e :
  callee_ok c fe env -> bridge_scope c e = true ->
  same_shape e (checked c e) /\ wf_full None (checked c e) = true /\
  Forall (site_est fe env) (sites_full (checked c e)).
Proof.
  intros Hc Hs. rewrite checked_visit.
  destruct (tree_inv c fe env (fun x => lit_raw x && node_scope c x)
              (fun x H => proj1 (andb_prop _ _ H)) (fun x H => proj2 (andb_prop _ _ H)) Hc
              (site_est fe env) (fun st _ H => or_intror H) (fun _ _ _ _ _ _ _ _ _ _ _ => or_introl eq_refl)
              e [] None Hs) as (I1 & I2 & I3).
  unfold same_shape. auto.
Qed.

Theorem checker_tree_ok_untyped c fe env e :
  cc_types c = None -> raw e = true ->
  same_shape e (checked c e) /\ wf_full None (checked c e) = true /\
  Forall (site_est fe env) (sites_full (checked c e)).
Proof.
  intros Hn Hs. rewrite checked_visit.
  destruct (tree_inv c fe env lit_raw (fun x H => H) (fun x _ => node_scope_untyped c x Hn) (callee_ok_untyped c fe env Hn)
              (site_est fe env) (fun st _ H => or_intror H) (fun _ _ _ _ _ _ _ _ _ _ _ => or_introl eq_refl)
              e [] None Hs) as (I1 & I2 & I3).
  unfold same_shape. auto.
Qed.

Lemma sites_established fe env l :
  Forall (site_est fe env) l -> Forall (site_ok fe env) (filter st_method l) -> Forall (site_ok fe env) l.
Proof.
  induction 1 as [|st r Hst _ IH]; intros F; [constructor|]. cbn [filter] in F.
  destruct (st_method st) eqn:M.
  - inversion F; subst. constructor; auto.
  - constructor; [|auto]. destruct Hst as [Hm|Hok]; [congruence|exact Hok].
Qed.

Lemma no_method_sites_nil e : no_method_sites e = true -> method_sites e = [].
Proof.
  unfold no_method_sites, method_sites. induction (sites_full e) as [|st r IH]; intros H; [reflexivity|].
  cbn [forallb filter] in *. apply andb_prop in H. destruct H as [H1 H2]. apply negb_true_iff in H1. rewrite H1. auto.
Qed.

(* ---- 1'. with C03's environment typing: the accepted tree satisfies ok_full ---- *)
Theorem checker_establishes_ok_full c perm ftab nn fe env T sn e t e' :
  (forall l, Permutation (perm l) l) -> wf_tenv (cc_te c) = true ->
  env_ok c perm ftab nn T sn env -> fenv_ok (cc_te c) ftab nn fe ->
  check c e = (t, e', None) -> bridge_scope c e = true ->
  Forall (site_ok fe env) (method_sites e') ->
  ok_full fe env e' /\ same_shape e e'.
Proof.
  intros Hperm Hwf Henv Hfe Hck Hs Hm. rewrite <- (check_checked _ _ _ _ _ Hck) in *.
  destruct (checker_tree_ok c fe env e (callee_ok_env c perm ftab nn fe env T sn Hperm Hwf Henv Hfe) Hs) as (A & B & C).
  split; [|exact A]. split; [exact B|]. apply sites_established; assumption.
Qed.

(* the method-site hypothesis replaced by the decidable predicate on the returned tree *)
Corollary checker_establishes_ok_full_dec c perm ftab nn fe env T sn e t e' :
  (forall l, Permutation (perm l) l) -> wf_tenv (cc_te c) = true ->
  env_ok c perm ftab nn T sn env -> fenv_ok (cc_te c) ftab nn fe ->
  check c e = (t, e', None) -> bridge_scope c e = true -> no_method_sites e' = true ->
  ok_full fe env e' /\ same_shape e e'.
Proof.
  intros Hperm Hwf Henv Hfe Hck Hs Hm. eapply checker_establishes_ok_full; eauto.
  rewrite (no_method_sites_nil _ Hm). constructor.
Qed.

(* without a declared environment *)
Theorem checker_establishes_ok_full_untyped c fe env e t e' st :
  cc_types c = None -> check c e = (t, e', st) -> raw e = true ->
  Forall (site_ok fe env) (method_sites e') ->
  ok_full fe env e' /\ same_shape e e'.
Proof.
  intros Hn Hck Hs Hm. rewrite <- (check_checked _ _ _ _ _ Hck) in *.
  destruct (checker_tree_ok_untyped c fe env e Hn Hs) as (A & B & C).
  split; [|exact A]. split; [exact B|]. apply sites_established; assumption.
Qed.

(* ---- 2. one source, compiled with and without the declared environment type ---- *)
Theorem typed_vs_untyped c1 c0 perm ftab nn fe env T sn e t1 e1 t0 e0 :
  (forall l, Permutation (perm l) l) -> wf_tenv (cc_te c1) = true ->
  env_ok c1 perm ftab nn T sn env -> fenv_ok (cc_te c1) ftab nn fe -> fast_sound fe ->
  cc_types c0 = None ->
  bridge_scope c1 e = true ->
  check c1 e = (t1, e1, None) -> check c0 e = (t0, e0, None) ->
  wf e1 = true -> wf e0 = true ->
  Forall (site_ok fe env) (method_sites e1) -> Forall (site_ok fe env) (method_sites e0) ->
  forall cfg ctx s v1 s1 v0 s0,
  eval fe cfg env ctx e1 s = Done v1 s1 -> eval fe cfg env ctx e0 s = Done v0 s0 -> v1 = v0 /\ s1 = s0.
Proof.
  intros Hperm Hwf Henv Hfe Hfast Hn Hs Hc1 Hc0 W1 W0 M1 M0 cfg ctx s v1 s1 v0 s0 D1 D0.
  destruct (checker_establishes_ok_full c1 perm ftab nn fe env T sn e t1 e1 Hperm Hwf Henv Hfe Hc1 Hs M1) as [O1 S1].
  destruct (checker_establishes_ok_full_untyped c0 fe env e t0 e0 None Hn Hc0 (bridge_scope_raw _ _ Hs) M0) as [O0 S0].
  apply (modes_agree_partial fe cfg env ctx s e1 e0 v1 s1 v0 s0 Hfast); auto.
  unfold same_shape in *. congruence.
Qed.

Corollary typed_vs_untyped_dec c1 c0 perm ftab nn fe env T sn e t1 e1 t0 e0 :
  (forall l, Permutation (perm l) l) -> wf_tenv (cc_te c1) = true ->
  env_ok c1 perm ftab nn T sn env -> fenv_ok (cc_te c1) ftab nn fe -> fast_sound fe ->
  cc_types c0 = None ->
  bridge_scope c1 e = true ->
  check c1 e = (t1, e1, None) -> check c0 e = (t0, e0, None) ->
  wf e1 = true -> wf e0 = true -> no_method_sites e1 = true -> no_method_sites e0 = true ->
  forall cfg ctx s v1 s1 v0 s0,
  eval fe cfg env ctx e1 s = Done v1 s1 -> eval fe cfg env ctx e0 s = Done v0 s0 -> v1 = v0 /\ s1 = s0.
Proof.
  intros Hperm Hwf Henv Hfe Hfast Hn Hs Hc1 Hc0 W1 W0 M1 M0.
  eapply typed_vs_untyped; eauto.
  - rewrite (no_method_sites_nil _ M1). constructor.
  - rewrite (no_method_sites_nil _ M0). constructor.
Qed.

(* ================================================================== Part 6: fast_sound *)
(* fast_sound (a signature flagged fast is func(...interface{}) interface{}) is NOT a consequence of
   fenv_ok: fenv_ok speaks about the functions listed in ftab only *)
Definition fe_unlisted : fenv :=
  mkFenv (fun _ => Some (mkSig [] false 1 true)) (fun _ _ _ => Fail EUser) (fun _ _ _ => None)
         (fun _ _ => None) (fun x _ => x).

Lemma fast_sound_not_from_fenv_ok :
  exists te ftab nn fe, fenv_ok te ftab nn fe /\ ~ fast_sound fe.
Proof.
  exists [], (fun _ => None), false, fe_unlisted. split.
  - constructor.
    + intros id ins v o H. discriminate H.
    + intros id ins v o recv args r H. discriminate H.
    + intros id recv args e H. cbn in H. inversion H. reflexivity.
    + intros sn p name mt H. destruct p; discriminate H.
    + intros sn p name _. reflexivity.
  - intros H. destruct (H "f" _ eq_refl eq_refl) as [Hi _]. discriminate Hi.
Qed.

(* it is one when every function with a signature is listed and the listed variadic types are the
   ones Go has (the parameter of `...interface{}` is the unnamed slice []interface{}) *)
Definition sigs_listed (ftab : string -> option ty) (fe : fenv) : Prop :=
  forall id sg, fn_sig fe id = Some sg -> exists ins v o, ftab id = Some (TFunc ins v [o]).

Definition fast_plain (ftab : string -> option ty) : Prop :=
  forall id ins v o, ftab id = Some (TFunc ins v [o]) -> fast_sig (TFunc ins v [o]) false = true ->
  ins = [TSlice TIface].

Lemma fast_sig_variadic ins v o m : fast_sig (TFunc ins v [o]) m = true -> v = true.
Proof. destruct v; [reflexivity|discriminate]. Qed.

Lemma fast_sound_of_listed te ftab nn fe :
  fenv_ok te ftab nn fe -> sigs_listed ftab fe -> fast_plain ftab -> fast_sound fe.
Proof.
  intros Hfe Hl Hp id sg Sg F. destruct (Hl id sg Sg) as (ins & v & o & Hft).
  rewrite (fo_sig _ _ _ _ Hfe id ins v o Hft) in Sg. injection Sg as <-. cbn [s_fast s_ins s_variadic] in F |- *.
  split; [exact (Hp id ins v o Hft F)|exact (fast_sig_variadic ins v o false F)].
Qed.

(* ================================================================== Part 7: a universe; non-vacuity; method sites *)
Module BWit.
Definition tint := TNum KInt.
Definition tf64 := TNum KF64.
Definition fld (n : string) (t : ty) : fielddef := mkField n t false true.
Definition t_half := TFunc [tf64] false [tf64].
Definition t_inc := TFunc [tint] false [tint].
Definition t_fast := TFunc [TSlice TIface] true [TIface].
Definition t_celsius := TNamed "Celsius" tf64.
Definition t_warm := TFunc [t_celsius] false [TBool].

(* type Env struct { I int; Y float64; Half func(float64) float64; Inc func(int) int;
                     Fast func(...interface{}) interface{}; Warm func(Celsius) bool; A A; B B }
   func (Env) Scale(float64) float64;  func (A) M(float64) float64;  func (B) M(int) int *)
Definition te : tenv :=
  [("Env", mkStruct
      [fld "I" tint; fld "Y" tf64; fld "Half" t_half; fld "Inc" t_inc; fld "Fast" t_fast; fld "Warm" t_warm;
       fld "A" (TStruct "A"); fld "B" (TStruct "B")]
      [("Scale", TFunc [TStruct "Env"; tf64] false [tf64])]
      [("Scale", TFunc [TPtr (TStruct "Env"); tf64] false [tf64])]);
   ("A", mkStruct [] [("M", TFunc [TStruct "A"; tf64] false [tf64])] [("M", TFunc [TPtr (TStruct "A"); tf64] false [tf64])]);
   ("B", mkStruct [] [("M", TFunc [TStruct "B"; tint] false [tint])] [("M", TFunc [TPtr (TStruct "B"); tint] false [tint])])].

Definition tb : TypesTable.table :=
  match create_types_table te perm_id (EStruct (TStruct "Env")) with Some t => t | None => [] end.

(* compiled with expr.Env(Env{}) / without an environment *)
Definition c1 : cconfig := mkCC te (Some tb) [] None true None.
Definition c0 : cconfig := mkCC te None [] None false None.

Definition va : value := VStruct "A" false [].
Definition vb : value := VStruct "B" false [].
Definition env : value :=
  VStruct "Env" false
    [("I", vint 3); ("Y", VNum (NFlt KF64 0.5)); ("Half", VFunc "Half" t_half); ("Inc", VFunc "Inc" t_inc);
     ("Fast", VFunc "Fast" t_fast); ("Warm", VFunc "Warm" t_warm); ("A", va); ("B", vb)].

Definition ftab (id : string) : option ty :=
  if String.eqb id "Half" then Some t_half
  else if String.eqb id "Inc" then Some t_inc
  else if String.eqb id "Fast" then Some t_fast
  else if String.eqb id "Warm" then Some t_warm
  else if String.eqb id "Env.Scale" then Some t_half
  else if String.eqb id "A.M" then Some t_half
  else if String.eqb id "B.M" then Some t_inc
  else None.

Definition run (id : string) (recv : value) (args : list value) : outcome value :=
  if String.eqb id "Half" then
    match args with [VNum (NFlt KF64 x)] => Ok (VNum (NFlt KF64 (PrimFloat.div x 2))) | _ => Fail EOther end
  else if String.eqb id "Inc" then
    match args with [VNum (NInt KInt a)] => Ok (vint (wrap KInt (a + 1))) | _ => Fail EOther end
  else if String.eqb id "Fast" then Ok (vint (Z.of_nat (List.length args)))
  else if String.eqb id "Warm" then Ok (VBool true)
  else if String.eqb id "Env.Scale" then
    match args with [VNum (NFlt KF64 x)] => Ok (VNum (NFlt KF64 (PrimFloat.mul x 2))) | _ => Fail EOther end
  else if String.eqb id "A.M" then
    match args with [VNum (NFlt KF64 x)] => Ok (VNum (NFlt KF64 x)) | _ => Fail EOther end
  else if String.eqb id "B.M" then
    match args with [VNum (NInt KInt a)] => Ok (vint a) | _ => Fail EOther end
  else Fail EOther.

Definition meth (tn : string) (p : bool) (name : string) : option string :=
  if String.eqb "Env" tn then (if String.eqb "Scale" name then Some "Env.Scale" else None)
  else if String.eqb "A" tn then (if String.eqb "M" name then Some "A.M" else None)
  else if String.eqb "B" tn then (if String.eqb "M" name then Some "B.M" else None)
  else None.

Definition sig (id : string) : option fsig :=
  match ftab id with
  | Some (TFunc ins v [o]) => Some (mkSig ins v 1 (fast_sig (TFunc ins v [o]) false))
  | _ => None
  end.

Definition fe : fenv := mkFenv sig run meth (fun _ _ => Some true) (fun x _ => x).
Definition cfg : config := mkCfg false 1000.

Lemma perm_ok : forall l : TypesTable.table, Permutation (perm_id l) l.
Proof. intros l. apply Permutation_refl. Qed.

Lemma te_wf : wf_tenv te = true.
Proof. vm_compute. reflexivity. Qed.

Lemma empty_wf sn nn : sn = "A" \/ sn = "B" -> vwf te ftab nn (VStruct sn false []).
Proof.
  intros Hs. apply vwf_struct. split; [constructor|].
  intros name pth ft R.
  destruct Hs as [-> | ->].
  - destruct (flat_resolve te "A" name pth ft true eq_refl R) as (f & Hin & _). destruct Hin.
  - destruct (flat_resolve te "B" name pth ft true eq_refl R) as (f & Hin & _). destruct Hin.
Qed.

Lemma env_wf nn : vwf te ftab nn env.
Proof.
  apply vwf_struct. split.
  - repeat (apply Forall_cons; [split; cbn [fst snd]|]); try apply Forall_nil;
      try (intros pth ft R; vm_compute in R; inversion R; subst; first [right; reflexivity | left; reflexivity]).
    all: try (apply empty_wf; auto; fail).
    all: cbn; repeat split; auto.
  - intros name pth ft R. destruct (flat_resolve te "Env" name pth ft true eq_refl R) as (f & Hin & <- & _ & _).
    cbn in Hin. repeat (destruct Hin as [<-|Hin]; [cbn; discriminate|]). destruct Hin.
Qed.

Lemma env_is_ok nn : env_ok c1 perm_id ftab nn (TStruct "Env") "Env" env.
Proof.
  constructor.
  - reflexivity.
  - exists tb. split; [reflexivity|]. vm_compute. reflexivity.
  - exists false, (match env with VStruct _ _ fs => fs | _ => [] end). split; reflexivity.
  - exact (env_wf nn).
Qed.

Lemma fe_ok nn : fenv_ok te ftab nn fe.
Proof.
  constructor.
  - intros id ins v o H. cbn [fn_sig fe]. unfold sig. rewrite H. reflexivity.
  - intros id ins v o recv args r Hf Hr. cbn [fn_run fe] in Hr. unfold run in Hr. unfold ftab in Hf.
    repeat match type of Hr with
    | (if ?b then _ else _) = _ => destruct b
    | match ?x with _ => _ end = _ => destruct x
    end; try discriminate Hr; inversion Hr; inversion Hf; subst;
      first [apply ty_vint | apply ty_bool | apply has_ty_iface; reflexivity
            | apply (ty_num _ _ _ (NFlt KF64 _)); reflexivity ].
  - intros id recv args e Hr. cbn [fn_run fe] in Hr. unfold run in Hr.
    repeat match type of Hr with
    | (if ?b then _ else _) = _ => destruct b
    | match ?x with _ => _ end = _ => destruct x
    end; inversion Hr; reflexivity.
  - intros sn p name mt H. cbn [fn_method fe]. unfold meth, method_by_name, method_set, recv_ty in *.
    destruct p; cbn [lookup_struct te] in H;
      (destruct (String.eqb "Env" sn) eqn:E1;
       [cbn -[String.eqb] in H; destruct (String.eqb "Scale" name); inversion H; eexists; split; reflexivity|]);
      (destruct (String.eqb "A" sn) eqn:E2;
       [cbn -[String.eqb] in H; destruct (String.eqb "M" name); inversion H; eexists; split; reflexivity|]);
      (destruct (String.eqb "B" sn) eqn:E3;
       [cbn -[String.eqb] in H; destruct (String.eqb "M" name); inversion H; eexists; split; reflexivity|]);
      discriminate.
  - intros sn p name H. cbn [fn_method fe]. unfold meth, method_by_name, method_set, recv_ty in *.
    destruct p; cbn [lookup_struct te] in H;
      (destruct (String.eqb "Env" sn) eqn:E1; [cbn -[String.eqb] in H; destruct (String.eqb "Scale" name); [discriminate|reflexivity]|]);
      (destruct (String.eqb "A" sn) eqn:E2; [cbn -[String.eqb] in H; destruct (String.eqb "M" name); [discriminate|reflexivity]|]);
      (destruct (String.eqb "B" sn) eqn:E3; [cbn -[String.eqb] in H; destruct (String.eqb "M" name); [discriminate|reflexivity]|]);
      reflexivity.
Qed.

Lemma fe_fast_sound : fast_sound fe.
Proof.
  apply (fast_sound_of_listed te ftab false fe (fe_ok false)).
  - intros id sg H. cbn [fn_sig fe] in H. unfold sig in H.
    destruct (ftab id) as [t|] eqn:E; [|discriminate H].
    destruct t as [| | | | | | | | |ins v outs| |]; try discriminate H. destruct outs as [|o [|o2 outs]]; try discriminate H.
    exists ins, v, o. reflexivity.
  - intros id ins v o H F. unfold ftab in H.
    repeat match type of H with (if ?b then _ else _) = _ => destruct b end; inversion H; subst; try discriminate F; reflexivity.
Qed.

(* ---- the theorems apply to this universe ---- *)
Lemma ok_full_applies (nn : bool) e t e' :
  check c1 e = (t, e', None) -> bridge_scope c1 e = true -> no_method_sites e' = true ->
  ok_full fe env e' /\ same_shape e e'.
Proof.
  exact (checker_establishes_ok_full_dec c1 perm_id ftab nn fe env (TStruct "Env") "Env" e t e'
           perm_ok te_wf (env_is_ok nn) (fe_ok nn)).
Qed.

Lemma typed_vs_untyped_applies e t1 e1 t0 e0 :
  bridge_scope c1 e = true -> check c1 e = (t1, e1, None) -> check c0 e = (t0, e0, None) ->
  wf e1 = true -> wf e0 = true -> no_method_sites e1 = true -> no_method_sites e0 = true ->
  forall cfg ctx s v1 s1 v0 s0,
  eval fe cfg env ctx e1 s = Done v1 s1 -> eval fe cfg env ctx e0 s = Done v0 s0 -> v1 = v0 /\ s1 = s0.
Proof.
  exact (typed_vs_untyped_dec c1 c0 perm_id ftab false fe env (TStruct "Env") "Env" e t1 e1 t0 e0
           perm_ok te_wf (env_is_ok false) (fe_ok false) fe_fast_sound eq_refl).
Qed.

(* ---- expressions ---- *)
Definition a0 : ann := ann0.
Definition id_ (n : string) : expr := EIdent a0 n false.
(* Half(1 + 2) > 1.0 *)
Definition half12 : expr :=
  EBinary a0 BGt (EFunction a0 "Half" [EBinary a0 BAdd (EInt a0 1) (EInt a0 2)] false) (EFloat a0 1.0).
(* I == 3 *)
Definition i_eq_3 : expr := EBinary a0 BEq (id_ "I") (EInt a0 3).
(* Half(1 + 2) > 1.0 and I == 3 *)
Definition ex_brief : expr := EBinary a0 BAndWord half12 i_eq_3.
(* I == 3 or Half(1 + 2) > 1.0 *)
Definition ex_or : expr := EBinary a0 BOrWord i_eq_3 half12.
(* Inc(1 + 2) > 1 and Fast(I, "a") == 2 *)
Definition ex_calls : expr :=
  EBinary a0 BAndWord
    (EBinary a0 BGt (EFunction a0 "Inc" [EBinary a0 BAdd (EInt a0 1) (EInt a0 2)] false) (EInt a0 1))
    (EBinary a0 BEq (EFunction a0 "Fast" [id_ "I"; EStr a0 "a"] false) (EInt a0 2)).
(* Scale(2) > 1.0: a method of the environment called as a function (receiver stripped) *)
Definition ex_scale : expr := EBinary a0 BGt (EFunction a0 "Scale" [EInt a0 2] false) (EFloat a0 1.0).
(* Warm(20): the parameter is the declared type Celsius *)
Definition ex_warm : expr := EFunction a0 "Warm" [EInt a0 20] false.
(* A.M(1): a method call with a retyped literal *)
Definition ex_meth : expr := EMethod a0 (id_ "A") "M" [EInt a0 1] false.

Definition half_site : site := mkSite false "Half" 0 KF64.
Definition scale_site : site := mkSite false "Scale" 0 KF64.
Definition warm_site : site := mkSite false "Warm" 0 KF64.
Definition m_site : site := mkSite true "M" 0 KF64.

(* all decidable hypotheses of typed_vs_untyped_dec *)
Definition hyps_hold (e : expr) : Prop :=
  raw e = true /\ bridge_scope c1 e = true /\ snd (check c1 e) = None /\ snd (check c0 e) = None /\
  wf (checked c1 e) = true /\ wf (checked c0 e) = true /\
  no_method_sites (checked c1 e) = true /\ no_method_sites (checked c0 e) = true.

Lemma ex_brief_hyps : hyps_hold ex_brief.
Proof. vm_compute. repeat split. Qed.
Lemma ex_or_hyps : hyps_hold ex_or.
Proof. vm_compute. repeat split. Qed.
Lemma ex_calls_hyps : hyps_hold ex_calls.
Proof. vm_compute. repeat split. Qed.
Lemma ex_scale_hyps : hyps_hold ex_scale.
Proof. vm_compute. repeat split. Qed.

Lemma check_split c e : check c e = (fst (fst (check c e)), checked c e, snd (check c e)).
Proof. unfold checked. destruct (check c e) as [[t e'] st]. reflexivity. Qed.

Lemma hyps_agree e : hyps_hold e ->
  forall cfg ctx s v1 s1 v0 s0,
  eval fe cfg env ctx (checked c1 e) s = Done v1 s1 -> eval fe cfg env ctx (checked c0 e) s = Done v0 s0 ->
  v1 = v0 /\ s1 = s0.
Proof.
  intros (_ & Hs & A1 & A0 & W1 & W0 & M1 & M0).
  apply (typed_vs_untyped_applies e (fst (fst (check c1 e))) (checked c1 e) (fst (fst (check c0 e))) (checked c0 e) Hs); auto.
  - rewrite (check_split c1 e), A1. reflexivity.
  - rewrite (check_split c0 e), A0. reflexivity.
Qed.

Lemma hyps_ok_full e : hyps_hold e -> ok_full fe env (checked c1 e) /\ same_shape e (checked c1 e).
Proof.
  intros (_ & Hs & A1 & _ & _ & _ & M1 & _).
  apply (ok_full_applies false e (fst (fst (check c1 e)))); auto. rewrite (check_split c1 e), A1. reflexivity.
Qed.

(* the established site is a real one *)
Lemma ex_brief_sites : sites_full (checked c1 ex_brief) = [half_site] /\ sites_full (checked c0 ex_brief) = [].
Proof. vm_compute. split; reflexivity. Qed.

Lemma ex_scale_sites : sites_full (checked c1 ex_scale) = [scale_site].
Proof. vm_compute. reflexivity. Qed.

Lemma half_site_ok : site_ok fe env half_site.
Proof.
  destruct (hyps_ok_full ex_brief ex_brief_hyps) as [[_ F] _]. rewrite (proj1 ex_brief_sites) in F.
  inversion F; assumption.
Qed.

Lemma scale_site_ok : site_ok fe env scale_site.
Proof.
  destruct (hyps_ok_full ex_scale ex_scale_hyps) as [[_ F] _]. rewrite ex_scale_sites in F.
  inversion F; assumption.
Qed.

(* the runs *)
Definition run1 (e : expr) : result := eval fe cfg env [] (checked c1 e) rs0.
Definition run0 (e : expr) : result := eval fe cfg env [] (checked c0 e) rs0.

Definition res_true (tr : list (string * list value)) : result := Done (VBool true) (mkRS 0 tr).
Definition f64 (z : Z) : value := VNum (NFlt KF64 (f_of_Z z)).

(* the expression of the brief: with the declared type the literals are float64 and the call
   succeeds; without it Half receives int(3) and reflect.Call panics - one side is not Done, the
   agreement statement holds trivially *)
Lemma ex_brief_runs :
  run1 ex_brief = res_true [("Half", [f64 3])] /\ run0 ex_brief = Stop EReflect noloc rs0.
Proof. vm_compute. split; reflexivity. Qed.

(* both sides succeed although a retyped site is present (the call is not reached) *)
Lemma ex_or_runs : run1 ex_or = res_true [] /\ run0 ex_or = res_true [].
Proof. vm_compute. split; reflexivity. Qed.

(* both sides succeed and call; the trees differ (annotations, OpEqualInt, Fast flag) *)
Lemma ex_calls_runs :
  run1 ex_calls = res_true [("Inc", [vint 3]); ("Fast", [vint 3; VStr "a"])] /\
  run0 ex_calls = res_true [("Inc", [vint 3]); ("Fast", [vint 3; VStr "a"])] /\
  checked c1 ex_calls <> checked c0 ex_calls.
Proof. split; [vm_compute; reflexivity|]. split; [vm_compute; reflexivity|]. vm_compute. intros H. discriminate H. Qed.

(* ---- the carve-out is needed: a declared parameter type ---- *)
(* raw, accepted, but the literal is pushed as float64 where reflect.Call wants a Celsius *)
Lemma ex_warm_facts :
  raw ex_warm = true /\ bridge_scope c1 ex_warm = false /\ snd (check c1 ex_warm) = None /\
  sites_full (checked c1 ex_warm) = [warm_site] /\ run1 ex_warm = Stop EReflect noloc rs0.
Proof. vm_compute. repeat split. Qed.

Lemma warm_site_not_ok : ~ site_ok fe env warm_site.
Proof.
  intros H. specialize (H env "Warm" (mkSig [t_celsius] false 1 false) (fun _ => eq_refl) eq_refl eq_refl).
  discriminate H.
Qed.

(* ---- method sites: site_ok speaks about every callable named M ---- *)
Lemma ex_meth_facts :
  raw ex_meth = true /\ bridge_scope c1 ex_meth = true /\ in_scope c1 false ex_meth = true /\
  snd (check c1 ex_meth) = None /\ sites_full (checked c1 ex_meth) = [m_site].
Proof. vm_compute. repeat split. Qed.

Lemma m_site_not_ok : ~ site_ok fe env m_site.
Proof.
  intros H. specialize (H vb "B.M" (mkSig [tint] false 1 false) (fun E => match Bool.diff_true_false E with end) eq_refl eq_refl).
  discriminate H.
Qed.
End BWit.

(* the statement without the carve-out and without the method-site hypothesis *)
Definition checker_establishes_ok_full_statement : Prop :=
  forall c perm ftab nn fe env T sn e t e',
  (forall l, Permutation (perm l) l) -> wf_tenv (cc_te c) = true ->
  env_ok c perm ftab nn T sn env -> fenv_ok (cc_te c) ftab nn fe ->
  check c e = (t, e', None) -> raw e = true -> ok_full fe env e'.

Lemma refute_with (e : expr) (st : site) :
  raw e = true -> snd (check BWit.c1 e) = None -> sites_full (checked BWit.c1 e) = [st] ->
  ~ site_ok BWit.fe BWit.env st -> ~ checker_establishes_ok_full_statement.
Proof.
  intros Hr Ha Hs Hn H.
  destruct (H BWit.c1 perm_id BWit.ftab false BWit.fe BWit.env (TStruct "Env") "Env" e
              (fst (fst (check BWit.c1 e))) (checked BWit.c1 e) BWit.perm_ok BWit.te_wf (BWit.env_is_ok false) (BWit.fe_ok false))
    as [_ F]; auto.
  - rewrite (BWit.check_split BWit.c1 e), Ha. reflexivity.
  - rewrite Hs in F. inversion F; contradiction.
Qed.

(* refuted by `Warm(20)` (declared parameter type: outside bridge_scope) ... *)
Theorem ok_full_statement_refuted : ~ checker_establishes_ok_full_statement.
Proof.
  destruct BWit.ex_warm_facts as (A & _ & B & C & _).
  exact (refute_with BWit.ex_warm BWit.warm_site A B C BWit.warm_site_not_ok).
Qed.

(* ... and, inside bridge_scope and even inside C03's in_scope, by `A.M(1)`: B has a method M(int) *)
Theorem method_sites_not_from_typing :
  exists e, bridge_scope BWit.c1 e = true /\ in_scope BWit.c1 false e = true /\ snd (check BWit.c1 e) = None /\
  ~ ok_full BWit.fe BWit.env (checked BWit.c1 e).
Proof.
  exists BWit.ex_meth. destruct BWit.ex_meth_facts as (_ & A & B & C & D). repeat split; auto.
  intros [_ F]. rewrite D in F. inversion F. apply BWit.m_site_not_ok. assumption.
Qed.

(* ================================================================== Part 8: bridge_scope against C03's in_scope *)
(* on raw sources the carve-out of this file is weaker than in_scope of Ty/Sound.v *)
Lemma all_nodes_and (p q : expr -> bool) :
  forall e, all_nodes p e = true -> all_nodes q e = true -> all_nodes (fun x => p x && q x) e = true.
Proof.
  induction e using expr_ind2. rename H into HF. intros A B.
  assert (L : forall l, Forall (fun x => all_nodes p x = true -> all_nodes q x = true ->
                                         all_nodes (fun y => p y && q y) x = true) l ->
              forallb (all_nodes p) l = true -> forallb (all_nodes q) l = true ->
              forallb (all_nodes (fun y => p y && q y)) l = true).
  { induction 1 as [|x r Hx _ IH]; intros C D; [reflexivity|]. cbn [forallb] in *.
    apply andb_prop in C. destruct C as [C1 C2]. apply andb_prop in D. destruct D as [D1 D2].
    rewrite (Hx C1 D1), (IH C2 D2). reflexivity. }
  destruct e; cbn [children] in HF; cbn [all_nodes] in A, B |- *;
    apply andb_prop in A; destruct A as [A0 A]; apply andb_prop in B; destruct B as [B0 B];
    rewrite A0, B0; cbn [andb]; try reflexivity.
  - inversion HF as [|? ? Hx _]; subst. auto.
  - inversion HF as [|? ? Hl HF2]; subst. inversion HF2 as [|? ? Hr _]; subst.
    apply andb_prop in A. destruct A as [Al Ar]. apply andb_prop in B. destruct B as [Bl Br].
    rewrite (Hl Al Bl), (Hr Ar Br). reflexivity.
  - inversion HF as [|? ? Hl HF2]; subst. inversion HF2 as [|? ? Hr _]; subst.
    apply andb_prop in A. destruct A as [Al Ar]. apply andb_prop in B. destruct B as [Bl Br].
    rewrite (Hl Al Bl), (Hr Ar Br). reflexivity.
  - inversion HF as [|? ? Hx _]; subst. auto.
  - inversion HF as [|? ? Hl HF2]; subst. inversion HF2 as [|? ? Hr _]; subst.
    apply andb_prop in A. destruct A as [Al Ar]. apply andb_prop in B. destruct B as [Bl Br].
    rewrite (Hl Al Bl), (Hr Ar Br). reflexivity.
  - inversion HF as [|? ? Hx HF2]; subst.
    apply andb_prop in A. destruct A as [A At]. apply andb_prop in A. destruct A as [Ax Af].
    apply andb_prop in B. destruct B as [B Bt]. apply andb_prop in B. destruct B as [Bx Bf].
    rewrite (Hx Ax Bx). cbn [andb].
    assert (F : opt_all (all_nodes (fun y => p y && q y)) from = true).
    { destruct from as [f|]; [|reflexivity]. cbn [opt_all] in *. apply (proj1 (Forall_forall _ _) HF2 f); auto.
      apply in_or_app. left. left. reflexivity. }
    assert (T : opt_all (all_nodes (fun y => p y && q y)) to = true).
    { destruct to as [u|]; [|reflexivity]. cbn [opt_all] in *. apply (proj1 (Forall_forall _ _) HF2 u); auto.
      apply in_or_app. right. left. reflexivity. }
    rewrite F, T. reflexivity.
  - inversion HF as [|? ? Hx HF2]; subst. apply andb_prop in A. destruct A as [Ax Aa]. apply andb_prop in B. destruct B as [Bx Ba].
    rewrite (Hx Ax Bx), (L _ HF2 Aa Ba). reflexivity.
  - exact (L _ HF A B).
  - exact (L _ HF A B).
  - inversion HF as [|? ? Hx _]; subst. auto.
  - inversion HF as [|? ? Hc HF2]; subst. inversion HF2 as [|? ? Hx HF3]; subst. inversion HF3 as [|? ? Hy _]; subst.
    apply andb_prop in A. destruct A as [A Ay]. apply andb_prop in A. destruct A as [Ac Ax].
    apply andb_prop in B. destruct B as [B By]. apply andb_prop in B. destruct B as [Bc Bx].
    rewrite (Hc Ac Bc), (Hx Ax Bx), (Hy Ay By). reflexivity.
  - exact (L _ HF A B).
  - exact (L _ HF A B).
  - inversion HF as [|? ? Hl HF2]; subst. inversion HF2 as [|? ? Hr _]; subst.
    apply andb_prop in A. destruct A as [Al Ar]. apply andb_prop in B. destruct B as [Bl Br].
    rewrite (Hl Al Bl), (Hr Ar Br). reflexivity.
Qed.

Lemma nonint_num_s_num pin : nonint_num pin = true -> (s_num pin || s_iface pin) = true -> s_num pin = true.
Proof. destruct pin; cbn; try discriminate; auto. Qed.

Lemma sc_args_facts c nn cols pt : forall args i, sc_args c nn cols pt i args = true ->
  forallb (scope c nn cols) args = true /\ forallb s_num (retyped_params pt i args) = true.
Proof.
  induction args as [|a r IH]; intros i H; [split; reflexivity|].
  cbn [sc_args] in H. apply andb_prop in H. destruct H as [H Hr]. apply andb_prop in H. destruct H as [Ha Hsa].
  destruct (IH _ Hr) as [F1 F2]. cbn [forallb retyped_params]. rewrite Ha, F1. split; [reflexivity|].
  rewrite forallb_app, F2, andb_true_r.
  destruct (is_arith a && nonint_num (pt i)) eqn:E; [|reflexivity]. apply andb_prop in E. destruct E as [E1 E2].
  cbn [forallb]. rewrite andb_true_r. unfold sc_arg in Hsa. rewrite E1 in Hsa. apply andb_prop in Hsa. destruct Hsa as [_ Hsa].
  exact (nonint_num_s_num _ E2 Hsa).
Qed.

Lemma sc_pairs_in c nn cols : forall ps, sc_pairs c nn cols ps = true ->
  forall x, In x ps -> exists a k v, x = EPair a k v /\ scope c nn cols k = true /\ scope c nn cols v = true.
Proof.
  induction ps as [|y r IH]; intros H x Hin; [destruct Hin|].
  rewrite sc_pairs_cons in H. destruct y; try discriminate H.
  apply andb_prop in H. destruct H as [H Hr]. apply andb_prop in H. destruct H as [H _]. apply andb_prop in H. destruct H as [Hk Hv].
  destruct Hin as [<-|Hin]; [eauto 7|exact (IH Hr x Hin)].
Qed.

Lemma scope_node_scope c nn : forall e cols, scope c nn cols e = true -> all_nodes (node_scope c) e = true.
Proof.
  induction e as [e IH] using expr_size_ind. intros cols H.
  assert (L : forall l cols', (forall x, In x l -> (esize x < esize e)%nat) -> forallb (scope c nn cols') l = true ->
              forallb (all_nodes (node_scope c)) l = true).
  { intros l cols' Hl F. apply forallb_forall. intros x Hx. rewrite forallb_forall in F. exact (IH x (Hl x Hx) cols' (F x Hx)). }
  destruct e as [an|an nm nsf|an z|an f|an b|an sx|an v|an op x|an op l r|an re l r|an x nm nsf|an x i|an x fr to
                |an x nm args nsf|an nm args fast|an b args|an x|an|an cnd x y|an es|an ps|an k v];
    try reflexivity; try discriminate H.
  - (* unary *) cbn [scope] in H. apply andb_prop in H. destruct H as [Hx _].
    cbn [all_nodes node_scope andb]. apply (IH x ltac:(cbn [esize]; lia) cols Hx).
  - (* binary *) cbn [scope] in H. apply andb_prop in H. destruct H as [H _]. apply andb_prop in H. destruct H as [H _].
    apply andb_prop in H. destruct H as [Hl Hr]. cbn [all_nodes node_scope andb].
    rewrite (IH l ltac:(cbn [esize]; lia) cols Hl), (IH r ltac:(cbn [esize]; lia) cols Hr). reflexivity.
  - (* matches *) cbn [scope] in H. apply andb_prop in H. destruct H as [H _]. apply andb_prop in H. destruct H as [H _].
    apply andb_prop in H. destruct H as [Hl Hr]. cbn [all_nodes node_scope andb].
    rewrite (IH l ltac:(cbn [esize]; lia) cols Hl), (IH r ltac:(cbn [esize]; lia) cols Hr). reflexivity.
  - (* property *) cbn [scope] in H. apply andb_prop in H. destruct H as [Hx _].
    cbn [all_nodes node_scope andb]. apply (IH x ltac:(cbn [esize]; lia) cols Hx).
  - (* index *) cbn [scope] in H. apply andb_prop in H. destruct H as [H _]. apply andb_prop in H. destruct H as [Hl Hr].
    cbn [all_nodes node_scope andb].
    rewrite (IH x ltac:(cbn [esize]; lia) cols Hl), (IH i ltac:(cbn [esize]; lia) cols Hr). reflexivity.
  - (* slice *) cbn [scope] in H. apply andb_prop in H. destruct H as [H Hu]. apply andb_prop in H. destruct H as [H Hf].
    apply andb_prop in H. destruct H as [Hx _]. cbn [all_nodes node_scope andb].
    rewrite (IH x ltac:(cbn [esize]; lia) cols Hx). cbn [andb].
    assert (F : opt_all (all_nodes (node_scope c)) fr = true).
    { destruct fr as [f|]; [|reflexivity]. apply andb_prop in Hf. destruct Hf as [Hf _]. cbn [opt_all].
      apply (IH f ltac:(cbn [esize]; lia) cols Hf). }
    assert (T : opt_all (all_nodes (node_scope c)) to = true).
    { destruct to as [u|]; [|reflexivity]. apply andb_prop in Hu. destruct Hu as [Hu _]. cbn [opt_all].
      apply (IH u ltac:(cbn [esize]; lia) cols Hu). }
    rewrite F, T. reflexivity.
  - (* method *) rewrite scope_method in H. apply andb_prop in H. destruct H as [Hx H].
    change (esize (EMethod an x nm args nsf)) with (S (esize x + lsize args)) in IH, L.
    cbn [all_nodes node_scope andb]. rewrite (IH x ltac:(lia) cols Hx). cbn [andb].
    assert (M : exists t, sc_meth c nn cols t nm args = true).
    { destruct (tyof c cols x) as [| | | | | | |sn'|tp| | |]; try discriminate H; [eauto|].
      destruct tp; try discriminate H. apply andb_prop in H. destruct H as [_ H]. eauto. }
    destruct M as [t M]. unfold sc_meth in M. destruct (method_by_name (cc_te c) t nm) as [mt|]; [|discriminate M].
    destruct mt as [| | | | | | | | |ins v outs| |]; try discriminate M. destruct outs as [|o [|o2 outs]]; try discriminate M.
    apply andb_prop in M. destruct M as [_ M]. destruct (sc_args_facts _ _ _ _ _ _ M) as [F _].
    apply (L args cols); [|exact F]. intros y Hy. pose proof (lsize_in _ _ Hy). lia.
  - (* function *) rewrite scope_function in H. apply andb_prop in H. destruct H as [_ H].
    change (esize (EFunction an nm args fast)) with (S (lsize args)) in IH, L.
    destruct (lookup_name c nm) as [tg|] eqn:Hl; [|discriminate H].
    destruct (tg_ty tg) as [| | | | | | | | |ins v outs| |] eqn:Hty; try discriminate H.
    destruct outs as [|o [|o2 outs]]; try discriminate H.
    apply andb_prop in H. destruct H as [H Ha]. apply andb_prop in H. destruct H as [Hamb Hsig].
    destruct (sc_args_facts _ _ _ _ _ _ Ha) as [F1 F2].
    cbn [all_nodes node_scope]. apply andb_true_intro. split.
    + unfold fn_scope. rewrite Hl, Hty. cbn [is_func_type dereference under].
      destruct (retyped_params (param_ty ins v (tg_method tg)) 0 args) as [|p0 ps]; [reflexivity|].
      rewrite F2. unfold callee_plain. rewrite Hty, ty_eqb_refl, Hamb, Hsig. reflexivity.
    + apply (L args cols); [|exact F1]. intros y Hy. pose proof (lsize_in _ _ Hy). lia.
  - (* builtin *) cbn [all_nodes node_scope andb].
    destruct b; destruct args as [|x [|cl [|d rest]]]; try discriminate H;
    [ cbn [scope] in H; apply andb_prop in H; destruct H as [Hx _]; cbn [forallb];
      rewrite (IH x ltac:(cbn [esize lsize]; lia) cols Hx); reflexivity
    | destruct cl; try discriminate H; cbn [scope] in H; apply andb_prop in H; destruct H as [Hx H];
      destruct (tyof c cols x) as [| | | | |el| | | | | |]; try discriminate H;
      apply andb_prop in H; destruct H as [Hb _]; cbn [forallb all_nodes node_scope andb];
      rewrite (IH x ltac:(cbn [esize lsize]; lia) cols Hx), (IH cl ltac:(cbn [esize lsize]; lia) _ Hb); reflexivity .. ].
  - (* conditional *) cbn [scope] in H. apply andb_prop in H. destruct H as [H _]. apply andb_prop in H. destruct H as [H _].
    apply andb_prop in H. destruct H as [H Hy]. apply andb_prop in H. destruct H as [Hc Hx].
    cbn [all_nodes node_scope andb].
    rewrite (IH cnd ltac:(cbn [esize]; lia) cols Hc), (IH x ltac:(cbn [esize]; lia) cols Hx), (IH y ltac:(cbn [esize]; lia) cols Hy).
    reflexivity.
  - (* array *) rewrite scope_array in H. change (esize (EArray an es)) with (S (lsize es)) in IH, L.
    cbn [all_nodes node_scope andb]. apply (L es cols); [|exact H]. intros y Hy. pose proof (lsize_in _ _ Hy). lia.
  - (* map *) rewrite scope_map in H. change (esize (Ast.EMap an ps)) with (S (lsize ps)) in IH.
    cbn [all_nodes node_scope andb]. apply forallb_forall. intros y Hy.
    destruct (sc_pairs_in c nn cols ps H y Hy) as (a & k & v & -> & Hk & Hv).
    pose proof (lsize_in _ _ Hy) as Hs. cbn [esize] in Hs. cbn [all_nodes node_scope andb].
    rewrite (IH k ltac:(lia) cols Hk), (IH v ltac:(lia) cols Hv). reflexivity.
Qed.

Theorem in_scope_bridge_scope c nn e : raw e = true -> in_scope c nn e = true -> bridge_scope c e = true.
Proof.
  intros Hr Hs. unfold bridge_scope. apply all_nodes_and; [exact Hr|]. exact (scope_node_scope c nn e [] Hs).
Qed.

(* ================================================================== Part 9: any two configurations *)
Lemma bridge_scope_untyped c e : cc_types c = None -> raw e = true -> bridge_scope c e = true.
Proof.
  intros Hn. apply all_nodes_impl. intros x H. rewrite H, (node_scope_untyped c x Hn). reflexivity.
Qed.

(* the general form: two checker configurations whose types tables describe the environment value
   (with / without declared type, different result directive, strictness, ...); verdict-independent *)
Theorem variants_agree c1 c2 fe env e :
  callee_ok c1 fe env -> callee_ok c2 fe env -> fast_sound fe ->
  bridge_scope c1 e = true -> bridge_scope c2 e = true ->
  wf (checked c1 e) = true -> wf (checked c2 e) = true ->
  Forall (site_ok fe env) (method_sites (checked c1 e)) -> Forall (site_ok fe env) (method_sites (checked c2 e)) ->
  forall cfg ctx s v1 s1 v2 s2,
  eval fe cfg env ctx (checked c1 e) s = Done v1 s1 -> eval fe cfg env ctx (checked c2 e) s = Done v2 s2 ->
  v1 = v2 /\ s1 = s2.
Proof.
  intros H1 H2 Hfast B1 B2 W1 W2 M1 M2.
  destruct (checker_tree_ok c1 fe env e H1 B1) as (S1 & F1 & Q1).
  destruct (checker_tree_ok c2 fe env e H2 B2) as (S2 & F2 & Q2).
  intros cfg ctx s v1 s1 v2 s2.
  apply (modes_agree_partial fe cfg env ctx s (checked c1 e) (checked c2 e) v1 s1 v2 s2 Hfast); auto.
  - unfold same_shape in *. congruence.
  - split; [exact F1|]. apply sites_established; assumption.
  - split; [exact F2|]. apply sites_established; assumption.
Qed.

(* ================================================================== Part 10: a carve-out on the source alone *)
(* no argument of a METHOD call is an integer literal or a + - * / node: then no method argument is
   retyped, the returned tree has no method site and nothing is left as a hypothesis *)
Definition meth_plain (e : expr) : bool :=
  match e with
  | EMethod _ _ _ args _ => forallb (fun a => negb (is_arith a)) args
  | _ => true
  end.

Definition bridge_scope_src (c : cconfig) (e : expr) : bool :=
  all_nodes (fun x => lit_raw x && node_scope c x && meth_plain x) e.

Lemma meth_plain_arg an x nm args ns j a :
  meth_plain (EMethod an x nm args ns) = true -> nth_error args j = Some a -> is_arith a = true -> False.
Proof.
  cbn [meth_plain]. intros H N A. rewrite forallb_forall in H. specialize (H a (nth_error_In _ _ N)).
  rewrite A in H. discriminate H.
Qed.

Lemma bridge_scope_src_weaken c e : bridge_scope_src c e = true -> bridge_scope c e = true.
Proof.
  apply all_nodes_impl. intros x H. apply andb_prop in H. destruct H as [H _]. exact H.
Qed.

Theorem checker_tree_ok_src c fe env e :
  callee_ok c fe env -> bridge_scope_src c e = true ->
  same_shape e (checked c e) /\ ok_full fe env (checked c e).
Proof.
  intros Hc Hs. rewrite checked_visit.
  destruct (tree_inv c fe env (fun x => lit_raw x && node_scope c x && meth_plain x)
              (fun x H => proj1 (andb_prop _ _ (proj1 (andb_prop _ _ H))))
              (fun x H => proj2 (andb_prop _ _ (proj1 (andb_prop _ _ H)))) Hc
              (site_ok fe env) (fun st _ H => H)
              (fun an x nm args ns j a k H N A =>
                 match meth_plain_arg an x nm args ns j a (proj2 (andb_prop _ _ H)) N A with end)
              e [] None Hs) as (I1 & I2 & I3).
  unfold same_shape, ok_full. auto.
Qed.

Theorem checker_tree_ok_src_untyped c fe env e :
  cc_types c = None -> all_nodes (fun x => lit_raw x && meth_plain x) e = true ->
  same_shape e (checked c e) /\ ok_full fe env (checked c e).
Proof.
  intros Hn Hs. rewrite checked_visit.
  destruct (tree_inv c fe env (fun x => lit_raw x && meth_plain x)
              (fun x H => proj1 (andb_prop _ _ H)) (fun x _ => node_scope_untyped c x Hn) (callee_ok_untyped c fe env Hn)
              (site_ok fe env) (fun st _ H => H)
              (fun an x nm args ns j a k H N A =>
                 match meth_plain_arg an x nm args ns j a (proj2 (andb_prop _ _ H)) N A with end)
              e [] None Hs) as (I1 & I2 & I3).
  unfold same_shape, ok_full. auto.
Qed.

(* 1''. every carve-out decidable on the configuration and the SOURCE; no site hypothesis *)
Theorem checker_establishes_ok_full_src c perm ftab nn fe env T sn e t e' :
  (forall l, Permutation (perm l) l) -> wf_tenv (cc_te c) = true ->
  env_ok c perm ftab nn T sn env -> fenv_ok (cc_te c) ftab nn fe ->
  check c e = (t, e', None) -> bridge_scope_src c e = true ->
  ok_full fe env e' /\ same_shape e e'.
Proof.
  intros Hperm Hwf Henv Hfe Hck Hs. rewrite <- (check_checked _ _ _ _ _ Hck).
  destruct (checker_tree_ok_src c fe env e (callee_ok_env c perm ftab nn fe env T sn Hperm Hwf Henv Hfe) Hs) as [A B].
  auto.
Qed.

(* 2''. typed against untyped: source carve-out bridge_scope_src, tree carve-out wf *)
Theorem typed_vs_untyped_src c1 c0 perm ftab nn fe env T sn e t1 e1 t0 e0 :
  (forall l, Permutation (perm l) l) -> wf_tenv (cc_te c1) = true ->
  env_ok c1 perm ftab nn T sn env -> fenv_ok (cc_te c1) ftab nn fe -> fast_sound fe ->
  cc_types c0 = None ->
  bridge_scope_src c1 e = true ->
  check c1 e = (t1, e1, None) -> check c0 e = (t0, e0, None) ->
  wf e1 = true -> wf e0 = true ->
  forall cfg ctx s v1 s1 v0 s0,
  eval fe cfg env ctx e1 s = Done v1 s1 -> eval fe cfg env ctx e0 s = Done v0 s0 -> v1 = v0 /\ s1 = s0.
Proof.
  intros Hperm Hwf Henv Hfe Hfast Hn Hs Hc1 Hc0 W1 W0 cfg ctx s v1 s1 v0 s0.
  destruct (checker_establishes_ok_full_src c1 perm ftab nn fe env T sn e t1 e1 Hperm Hwf Henv Hfe Hc1 Hs) as [O1 S1].
  assert (Hs0 : all_nodes (fun x => lit_raw x && meth_plain x) e = true).
  { revert Hs. apply all_nodes_impl. intros x H. apply andb_prop in H. destruct H as [H Hm].
    apply andb_prop in H. destruct H as [Hl _]. rewrite Hl, Hm. reflexivity. }
  destruct (checker_tree_ok_src_untyped c0 fe env e Hn Hs0) as [S0 O0]. rewrite (check_checked _ _ _ _ _ Hc0) in S0, O0.
  apply (modes_agree_partial fe cfg env ctx s e1 e0 v1 s1 v0 s0 Hfast); auto.
  unfold same_shape in *. congruence.
Qed.

(* ---- non-vacuity on BWit ---- *)
Module BSrc.
Import BWit.
(* A.M(Y) > 0.0 and Inc(1 + 2) > 1: a method call (argument not retyped) and a function call *)
Definition ex_src : expr :=
  EBinary a0 BAndWord
    (EBinary a0 BGt (EMethod a0 (id_ "A") "M" [id_ "Y"] false) (EFloat a0 0.0))
    (EBinary a0 BGt (EFunction a0 "Inc" [EBinary a0 BAdd (EInt a0 1) (EInt a0 2)] false) (EInt a0 1)).

Definition src_hyps (e : expr) : Prop :=
  bridge_scope_src c1 e = true /\ snd (check c1 e) = None /\ snd (check c0 e) = None /\
  wf (checked c1 e) = true /\ wf (checked c0 e) = true.

Lemma ex_src_hyps : src_hyps ex_src /\ src_hyps ex_brief /\ src_hyps ex_or /\ src_hyps ex_calls /\ src_hyps ex_scale.
Proof. vm_compute. repeat split. Qed.

(* `A.M(1)` is outside the source carve-out *)
Lemma ex_meth_outside : bridge_scope_src c1 ex_meth = false.
Proof. vm_compute. reflexivity. Qed.

Lemma ex_src_runs :
  run1 ex_src = res_true [("A.M", [VNum (NFlt KF64 0.5)]); ("Inc", [vint 3])] /\
  run0 ex_src = res_true [("A.M", [VNum (NFlt KF64 0.5)]); ("Inc", [vint 3])] /\
  checked c1 ex_src <> checked c0 ex_src.
Proof. split; [vm_compute; reflexivity|]. split; [vm_compute; reflexivity|]. vm_compute. intros H. discriminate H. Qed.

Lemma src_agree e : src_hyps e ->
  forall cfg ctx s v1 s1 v0 s0,
  eval fe cfg env ctx (checked c1 e) s = Done v1 s1 -> eval fe cfg env ctx (checked c0 e) s = Done v0 s0 ->
  v1 = v0 /\ s1 = s0.
Proof.
  intros (Hs & A1 & A0 & W1 & W0).
  apply (typed_vs_untyped_src c1 c0 perm_id ftab false fe env (TStruct "Env") "Env" e
           (fst (fst (check c1 e))) (checked c1 e) (fst (fst (check c0 e))) (checked c0 e)
           perm_ok te_wf (env_is_ok false) (fe_ok false) fe_fast_sound eq_refl Hs); auto.
  - rewrite (check_split c1 e), A1. reflexivity.
  - rewrite (check_split c0 e), A0. reflexivity.
Qed.
End BSrc.
